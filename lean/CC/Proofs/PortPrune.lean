/-
  CC.Proofs.PortPrune — the pruning / re-indexing path of `open_circuit_impedance`
  (`keepMask`, `selectL`, `subMatrix`, `countBefore` of CC/Model/Port.lean; the code:
  `keep = A.any(axis=0)`, `A[np.ix_(keep, keep)]`, `np.count_nonzero(keep[:i])`).

  Part 1 (index bookkeeping, any type / any matrix):
    `selectL` keeps exactly the marked entries, in order; `countBefore keep i` is the position of a
    kept index `i` in the selection; `expandL` (fill the dropped positions with zeros) is a right
    inverse of `selectL`.
  Part 2 (matrix level): for a square matrix whose dropped rows are zero rows, the solution of the
  pruned system extended by zeros solves the unpruned system; conversely, when the dropped columns
  are zero columns, the restriction of a solution of the unpruned system solves the pruned system.
  Part 3 (MNA level): the MNA matrix is symmetric, so a zero column is a zero row; what `portPre`
  has established when it hands a pruned system to `solve`; the extended solution solves the
  probe network and the entry the code reads is the port voltage.
-/
import CC.Proofs.PortImpl
set_option linter.unusedSectionVars false
set_option linter.unusedVariables false

namespace CC

/-! ## Part 1 — index bookkeeping -/

section Index
variable {α : Type}

theorem countBefore_zero (keep : List Bool) : countBefore keep 0 = 0 := by simp [countBefore]

theorem countBefore_nil (i : Nat) : countBefore [] i = 0 := by simp [countBefore]

theorem countBefore_cons_succ (b : Bool) (ks : List Bool) (i : Nat) :
    countBefore (b :: ks) (i + 1) = (if b then 1 else 0) + countBefore ks i := by
  cases b
  · simp [countBefore]
  · simp [countBefore]; omega

/-- number of kept positions -/
def countKept (keep : List Bool) : Nat := (keep.filter id).length

theorem countKept_cons (b : Bool) (ks : List Bool) :
    countKept (b :: ks) = (if b then 1 else 0) + countKept ks := by
  cases b
  · simp [countKept]
  · simp [countKept]; omega

theorem countBefore_length (keep : List Bool) : countBefore keep keep.length = countKept keep := by
  simp [countBefore, countKept]

/-- `x[keep]` has as many entries as the mask has `True`s -/
theorem selectL_length (keep : List Bool) (l : List α) (h : l.length = keep.length) :
    (selectL keep l).length = countKept keep := by
  induction keep generalizing l with
  | nil => cases l <;> simp [selectL, countKept]
  | cons b ks ih =>
    cases l with
    | nil => simp at h
    | cons x xs =>
      have h' : xs.length = ks.length := by simpa using h
      cases b
      · simp only [selectL]; rw [ih xs h', countKept_cons]; simp
      · simp only [selectL, List.length_cons]; rw [ih xs h', countKept_cons]; simp; omega

/-- **`selectL` selects exactly the kept entries, in order**: it is the list of those entries of `l`
whose mask bit is set (the usual definition of boolean-mask indexing). -/
theorem selectL_eq_filter (keep : List Bool) (l : List α) :
    selectL keep l = ((keep.zip l).filter (·.1)).map (·.2) := by
  induction keep generalizing l with
  | nil => cases l <;> simp [selectL]
  | cons b ks ih =>
    cases l with
    | nil => cases b <;> simp [selectL]
    | cons x xs => cases b <;> simp [selectL, ih xs]

/-- **`countBefore` of a kept index is its position in the selection.** -/
theorem selectL_getElem? (keep : List Bool) (l : List α) (i : Nat) (hk : keep[i]? = some true) :
    (selectL keep l)[countBefore keep i]? = l[i]? := by
  induction keep generalizing l i with
  | nil => simp at hk
  | cons b ks ih =>
    cases l with
    | nil =>
      cases b <;> simp [selectL]
    | cons x xs =>
      cases i with
      | zero =>
        simp only [List.getElem?_cons_zero, Option.some.injEq] at hk
        subst hk
        simp [selectL, countBefore_zero]
      | succ i =>
        simp only [List.getElem?_cons_succ] at hk
        rw [countBefore_cons_succ]
        cases b
        · simp only [selectL, Bool.false_eq_true, if_false, Nat.zero_add, List.getElem?_cons_succ]
          exact ih xs i hk
        · simp only [selectL, if_true, List.getElem?_cons_succ]
          rw [Nat.add_comm, List.getElem?_cons_succ]
          exact ih xs i hk

/-- a kept index lands inside the selection -/
theorem countBefore_lt (keep : List Bool) (i : Nat) (hk : keep[i]? = some true) :
    countBefore keep i < countKept keep := by
  induction keep generalizing i with
  | nil => simp at hk
  | cons b ks ih =>
    cases i with
    | zero =>
      simp only [List.getElem?_cons_zero, Option.some.injEq] at hk
      subst hk
      rw [countBefore_zero, countKept_cons]; simp
    | succ i =>
      simp only [List.getElem?_cons_succ] at hk
      rw [countBefore_cons_succ, countKept_cons]
      have := ih i hk
      omega

theorem countBefore_mono (keep : List Bool) (i j : Nat) (hij : i ≤ j) :
    countBefore keep i ≤ countBefore keep j := by
  induction keep generalizing i j with
  | nil => simp [countBefore_nil]
  | cons b ks ih =>
    cases i with
    | zero => simp [countBefore_zero]
    | succ i =>
      cases j with
      | zero => omega
      | succ j =>
        rw [countBefore_cons_succ, countBefore_cons_succ]
        have := ih i j (by omega)
        omega

/-- **the order of the kept indices is preserved**: `countBefore` is strictly increasing from a kept index on -/
theorem countBefore_strict (keep : List Bool) (i j : Nat) (hk : keep[i]? = some true) (hij : i < j) :
    countBefore keep i < countBefore keep j := by
  induction keep generalizing i j with
  | nil => simp at hk
  | cons b ks ih =>
    cases j with
    | zero => omega
    | succ j =>
      cases i with
      | zero =>
        simp only [List.getElem?_cons_zero, Option.some.injEq] at hk
        subst hk
        rw [countBefore_zero, countBefore_cons_succ]; simp
      | succ i =>
        simp only [List.getElem?_cons_succ] at hk
        rw [countBefore_cons_succ, countBefore_cons_succ]
        have := ih i j hk (by omega)
        omega

/-- two kept indices with the same position in the selection are the same index -/
theorem countBefore_inj (keep : List Bool) (i j : Nat) (hi : keep[i]? = some true) (hj : keep[j]? = some true)
    (h : countBefore keep i = countBefore keep j) : i = j := by
  rcases Nat.lt_trichotomy i j with hlt | heq | hgt
  · have := countBefore_strict keep i j hi hlt; omega
  · exact heq
  · have := countBefore_strict keep j i hj hgt; omega

end Index

section Expand
variable {K : Type} [Zero K]

/-- the inverse of boolean-mask selection: the entries of `x` at the kept positions, zero at the dropped ones -/
def expandL : List Bool → List K → List K
  | [], _ => []
  | true :: ks, x :: xs => x :: expandL ks xs
  | true :: ks, [] => 0 :: expandL ks []
  | false :: ks, xs => 0 :: expandL ks xs

theorem expandL_length (keep : List Bool) (x : List K) : (expandL keep x).length = keep.length := by
  induction keep generalizing x with
  | nil => simp [expandL]
  | cons b ks ih =>
    cases b
    · simp [expandL, ih]
    · cases x <;> simp [expandL, ih]

theorem selectL_expandL (keep : List Bool) (x : List K) (h : x.length = countKept keep) :
    selectL keep (expandL keep x) = x := by
  induction keep generalizing x with
  | nil =>
    have : x = [] := by simpa [countKept] using h
    simp [selectL, this]
  | cons b ks ih =>
    rw [countKept_cons] at h
    cases b
    · simp only [expandL, selectL]
      exact ih x (by simpa using h)
    · cases x with
      | nil => simp at h; omega
      | cons y ys =>
        simp only [expandL, selectL]
        rw [ih ys (by simp at h; omega)]

/-- entries of the extended vector: the selection's entry at a kept index, zero at a dropped one -/
theorem expandL_getD (keep : List Bool) (x : List K) (k : Nat) :
    (expandL keep x).getD k 0 = if keep[k]? = some true then x.getD (countBefore keep k) 0 else 0 := by
  induction keep generalizing x k with
  | nil => simp [expandL]
  | cons b ks ih =>
    cases k with
    | zero =>
      cases b
      · simp [expandL]
      · cases x <;> simp [expandL, countBefore_zero]
    | succ k =>
      rw [countBefore_cons_succ]
      cases b
      · simp only [expandL, List.getD_cons_succ, List.getElem?_cons_succ, Bool.false_eq_true, if_false, Nat.zero_add]
        exact ih x k
      · cases x with
        | nil =>
          simp only [expandL, List.getD_cons_succ, List.getElem?_cons_succ]
          rw [ih [] k]; simp
        | cons y ys =>
          simp only [expandL, List.getD_cons_succ, List.getElem?_cons_succ, if_true]
          rw [ih ys k, Nat.add_comm, List.getD_cons_succ]

end Expand

/-! ## Part 2 — the pruned and the unpruned linear system -/

section Mat
variable {K : Type} [Field K] [DecidableEq K]

theorem ext_getD (l1 l2 : List K) (h : l1.length = l2.length) (H : ∀ k, l1.getD k 0 = l2.getD k 0) : l1 = l2 := by
  apply List.ext_getElem h
  intro k h1 h2
  have := H k
  simpa [List.getD_eq_getElem?_getD, h1, h2] using this

theorem dotL_nil_right (r : List K) : dotL r ([] : List K) = 0 := by simp [dotL]

theorem dotL_zero_row (r y : List K) (h : ∀ v ∈ r, v = 0) : dotL r y = 0 := by
  induction r generalizing y with
  | nil => simp [dotL]
  | cons a r ih =>
    cases y with
    | nil => simp [dotL]
    | cons b y =>
      rw [dotL_cons, h a (by simp), ih y (fun v hv => h v (List.mem_cons_of_mem _ hv))]; simp

/-- a dot product with the zero-extended vector only sees the kept entries of the row -/
theorem dotL_expandL (keep : List Bool) (r x : List K) (hr : r.length = keep.length) :
    dotL r (expandL keep x) = dotL (selectL keep r) x := by
  induction keep generalizing r x with
  | nil =>
    have : r = [] := by simpa using hr
    subst this; simp [selectL, dotL]
  | cons b ks ih =>
    cases r with
    | nil => simp at hr
    | cons a r =>
      have hr' : r.length = ks.length := by simpa using hr
      cases b
      · simp only [expandL, selectL, dotL_cons, mul_zero, zero_add]
        exact ih r x hr'
      · cases x with
        | nil =>
          simp only [expandL, selectL, dotL_cons, mul_zero, zero_add, dotL_nil_right]
          rw [ih r [] hr', dotL_nil_right]
        | cons y ys =>
          simp only [expandL, selectL, dotL_cons]
          rw [ih r ys hr']

/-- a dot product of the selections is the full dot product when the dropped entries of the row are zero -/
theorem dotL_selectL (keep : List Bool) (r x : List K) (hr : r.length = keep.length) (hx : x.length = keep.length)
    (hz : ∀ k, keep[k]? = some false → r.getD k 0 = 0) :
    dotL (selectL keep r) (selectL keep x) = dotL r x := by
  induction keep generalizing r x with
  | nil =>
    have : r = [] := by simpa using hr
    subst this; simp [selectL, dotL]
  | cons b ks ih =>
    cases r with
    | nil => simp at hr
    | cons a r =>
      cases x with
      | nil => simp at hx
      | cons y ys =>
        have hr' : r.length = ks.length := by simpa using hr
        have hx' : ys.length = ks.length := by simpa using hx
        have hz' : ∀ k, ks[k]? = some false → r.getD k 0 = 0 := fun k hk => by
          have := hz (k + 1) (by simpa using hk); simpa using this
        cases b
        · have ha : a = 0 := by have := hz 0 (by simp); simpa using this
          simp only [selectL, dotL_cons, ha, zero_mul, zero_add]
          exact ih r ys hr' hx' hz'
        · simp only [selectL, dotL_cons]
          rw [ih r ys hr' hx' hz']

theorem selectL_map {α β : Type} (f : α → β) (keep : List Bool) (l : List α) :
    selectL keep (l.map f) = (selectL keep l).map f := by
  induction keep generalizing l with
  | nil => cases l <;> simp [selectL]
  | cons b ks ih =>
    cases l with
    | nil => cases b <;> simp [selectL]
    | cons x xs => cases b <;> simp [selectL, ih xs]

/-- **pruned → unpruned.**  `rows` is any list of rows of the unpruned width, `keepR` marks the rows that are
kept, `keepC` the columns.  When every dropped row is a zero row, the product of the unpruned matrix with the
zero-extended vector is the zero-extended product of the pruned matrix. -/
theorem matVec_expandL (keepR keepC : List Bool) (rows : List (List K)) (x : List K)
    (hlen : rows.length = keepR.length) (hrow : ∀ r ∈ rows, r.length = keepC.length)
    (hzero : ∀ (k : Nat) (r : List K), keepR[k]? = some false → rows[k]? = some r → ∀ v ∈ r, v = 0) :
    matVec rows (expandL keepC x) = expandL keepR (matVec ((selectL keepR rows).map (selectL keepC)) x) := by
  induction keepR generalizing rows with
  | nil =>
    have : rows = [] := by simpa using hlen
    subst this; simp [matVec, expandL]
  | cons b ks ih =>
    cases rows with
    | nil => simp at hlen
    | cons r rs =>
      have hlen' : rs.length = ks.length := by simpa using hlen
      have hrow' : ∀ r' ∈ rs, r'.length = keepC.length := fun r' h => hrow r' (List.mem_cons_of_mem _ h)
      have hzero' : ∀ (k : Nat) (r' : List K), ks[k]? = some false → rs[k]? = some r' → ∀ v ∈ r', v = 0 := fun k r' hk hr' =>
        hzero (k + 1) r' (by simpa using hk) (by simpa using hr')
      have := ih rs hlen' hrow' hzero'
      unfold matVec at this ⊢
      cases b
      · have hz : dotL r (expandL keepC x) = 0 := dotL_zero_row r _ (hzero 0 r (by simp) (by simp))
        simp only [List.map_cons, selectL, expandL, hz]
        rw [this]
      · simp only [List.map_cons, selectL, expandL]
        rw [this, dotL_expandL keepC r x (hrow r (by simp))]

/-- **unpruned → pruned.**  When every dropped column is a zero column, the selection of a solution of the
unpruned system solves the pruned system (right-hand side selected by the same mask). -/
theorem matVec_selectL (keepR keepC : List Bool) (rows : List (List K)) (x : List K)
    (hrow : ∀ r ∈ rows, r.length = keepC.length) (hx : x.length = keepC.length)
    (hcol : ∀ r ∈ rows, ∀ k, keepC[k]? = some false → r.getD k 0 = 0) :
    matVec ((selectL keepR rows).map (selectL keepC)) (selectL keepC x) = selectL keepR (matVec rows x) := by
  unfold matVec
  rw [selectL_map, List.map_map]
  apply List.map_congr_left
  intro r hr
  have hr' : r ∈ rows := by
    rw [selectL_eq_filter] at hr
    obtain ⟨p, hp, rfl⟩ := List.mem_map.mp hr
    exact (List.of_mem_zip (List.mem_filter.mp hp).1).2
  simp only [Function.comp_apply]
  exact dotL_selectL keepC r x (hrow r hr') hx (hcol r hr')

theorem unitVec_length (m i : Nat) : (unitVec m i : List K).length = m := by simp [unitVec]

theorem unitVec_getD (m i k : Nat) : (unitVec m i : List K).getD k 0 = if k = i ∧ k < m then 1 else 0 := by
  unfold unitVec
  rw [List.getD_eq_getElem?_getD, List.getElem?_map]
  by_cases hk : k < m
  · simp [hk]
  · simp [hk]

/-- the unit vector of the pruned system, extended by zeros, is the unit vector of the unpruned system -/
theorem expandL_unitVec (keep : List Bool) (i : Nat) (hk : keep[i]? = some true) :
    expandL keep (unitVec (countKept keep) (countBefore keep i) : List K) = unitVec keep.length i := by
  apply ext_getD
  · rw [expandL_length, unitVec_length]
  · intro k
    rw [expandL_getD, unitVec_getD, unitVec_getD]
    by_cases hkk : keep[k]? = some true
    · have hlt := countBefore_lt keep k hkk
      have hkn : k < keep.length := by
        by_contra h; rw [List.getElem?_eq_none (by omega)] at hkk; cases hkk
      by_cases e : k = i
      · subst e
        rw [if_pos hkk, if_pos ⟨rfl, hlt⟩, if_pos ⟨rfl, hkn⟩]
      · have : countBefore keep k ≠ countBefore keep i := fun h => e (countBefore_inj keep k i hkk hk h)
        rw [if_pos hkk, if_neg (fun h => this h.1), if_neg (fun h => e h.1)]
    · have e : k ≠ i := fun h => hkk (h ▸ hk)
      rw [if_neg hkk, if_neg (fun h => e h.1)]

theorem selectL_unitVec (keep : List Bool) (i : Nat) (hk : keep[i]? = some true) :
    selectL keep (unitVec keep.length i : List K) = unitVec (countKept keep) (countBefore keep i) := by
  rw [← expandL_unitVec keep i hk, selectL_expandL _ _ (unitVec_length _ _)]

/-- the value the code reads: the entry of the pruned solution at the re-indexed position is the entry of the
zero-extended solution at the original position -/
theorem expandL_getD_kept (keep : List Bool) (x : List K) (i : Nat) (hk : keep[i]? = some true) :
    (expandL keep x).getD i 0 = x.getD (countBefore keep i) 0 := by
  rw [expandL_getD, if_pos hk]

theorem selectL_getD_kept (keep : List Bool) (x : List K) (i : Nat) (hk : keep[i]? = some true) :
    (selectL keep x).getD (countBefore keep i) 0 = x.getD i 0 := by
  rw [List.getD_eq_getElem?_getD, selectL_getElem? keep x i hk, ← List.getD_eq_getElem?_getD]

end Mat

/-! ## Part 3 — the MNA matrix -/

section MNA
variable {L K : Type} [DecidableEq L] [LabelOrd L] [Field K] [DecidableEq K]

theorem keepMask_getElem? (n : Nat) (A : List (List K)) (c : Nat) (hc : c < n) :
    (keepMask n A)[c]? = some (A.any fun r => decide (r.getD c 0 ≠ 0)) := by
  simp [keepMask, hc]

/-- **a dropped column is a zero column** (`keep = A.any(axis=0)`) -/
theorem keepMask_false_col (n : Nat) (A : List (List K)) (c : Nat) (h : (keepMask n A)[c]? = some false) :
    ∀ r ∈ A, r.getD c 0 = 0 := by
  have hc : c < n := by
    by_contra hn
    rw [List.getElem?_eq_none (by rw [keepMask_length]; omega)] at h; cases h
  rw [keepMask_getElem? n A c hc] at h
  have h' : (A.any fun r => decide (r.getD c 0 ≠ 0)) = false := Option.some.inj h
  intro r hr
  by_contra hne
  have : (A.any fun r => decide (r.getD c 0 ≠ 0)) = true :=
    List.any_eq_true.mpr ⟨r, hr, by simpa using hne⟩
  rw [h'] at this; cases this

/-- a column that is not all zero is kept -/
theorem keepMask_true_of_colZero_false (n : Nat) (A : List (List K)) (c : Nat) (hc : c < n)
    (h : colZero A c = false) : (keepMask n A)[c]? = some true := by
  rw [keepMask_getElem? n A c hc]
  congr 1
  unfold colZero at h
  by_contra hany
  have hany' : (A.any fun r => decide (r.getD c 0 ≠ 0)) = false := by simpa using hany
  have : (A.all fun r => decide (r.getD c 0 = 0)) = true := by
    rw [List.all_eq_true]
    intro r hr
    by_contra hne
    have : (A.any fun r => decide (r.getD c 0 ≠ 0)) = true :=
      List.any_eq_true.mpr ⟨r, hr, by simpa using hne⟩
    rw [hany'] at this; cases this
  rw [h] at this; cases this

/-- **the MNA matrix `[[Y, B], [Bᵀ, 0]]` is symmetric, so a zero column is a zero row**: when column `k` of
the matrix is all zero, the `k`-th row is all zero. -/
theorem mnaA_dropped_row_zero (N : Net L K) (k : Nat) (r : List K)
    (hcol : ∀ r' ∈ N.mnaA, r'.getD k 0 = 0) (hr : N.mnaA[k]? = some r) : ∀ v ∈ r, v = 0 := by
  have hrowN : ∀ m ∈ N.nodes, ((N.nodes.map fun j => N.Yentry m j) ++ (N.vsSorted.map fun b => b.dir m)) ∈ N.mnaA := by
    intro m hm; unfold Net.mnaA; exact List.mem_append_left _ (List.mem_map.mpr ⟨m, hm, rfl⟩)
  have hrowV : ∀ b ∈ N.vsSorted, ((N.nodes.map fun j => b.dir j) ++ (N.vsSorted.map fun _ => (0 : K))) ∈ N.mnaA := by
    intro b hb; unfold Net.mnaA; exact List.mem_append_right _ (List.mem_map.mpr ⟨b, hb, rfl⟩)
  unfold Net.mnaA at hr
  by_cases hk : k < N.nodes.length
  · rw [List.getElem?_append_left (by simpa using hk), List.getElem?_map, List.getElem?_eq_getElem hk] at hr
    simp only [Option.map_some, Option.some.injEq] at hr
    subst hr
    have hY : ∀ m ∈ N.nodes, N.Yentry m N.nodes[k] = 0 := by
      intro m hm
      have := hcol _ (hrowN m hm)
      rw [List.getD_eq_getElem?_getD, List.getElem?_append_left (by simpa using hk), List.getElem?_map,
        List.getElem?_eq_getElem hk] at this
      simpa using this
    have hB : ∀ b ∈ N.vsSorted, b.dir N.nodes[k] = 0 := by
      intro b hb
      have := hcol _ (hrowV b hb)
      rw [List.getD_eq_getElem?_getD, List.getElem?_append_left (by simpa using hk), List.getElem?_map,
        List.getElem?_eq_getElem hk] at this
      simpa using this
    intro v hv
    rcases List.mem_append.mp hv with hv | hv
    · obtain ⟨m, hm, rfl⟩ := List.mem_map.mp hv
      rw [Yentry_symm]; exact hY m hm
    · obtain ⟨b, hb, rfl⟩ := List.mem_map.mp hv
      exact hB b hb
  · have hk' : N.nodes.length ≤ k := by omega
    rw [List.getElem?_append_right (by simpa using hk'), List.getElem?_map] at hr
    simp only [List.length_map] at hr
    cases hj : N.vsSorted[k - N.nodes.length]? with
    | none => rw [hj] at hr; cases hr
    | some b =>
      rw [hj] at hr
      simp only [Option.map_some, Option.some.injEq] at hr
      subst hr
      have hb : b ∈ N.vsSorted := List.mem_of_getElem? hj
      have hD : ∀ m ∈ N.nodes, b.dir m = 0 := by
        intro m hm
        have := hcol _ (hrowN m hm)
        rw [List.getD_eq_getElem?_getD, List.getElem?_append_right (by simpa using hk'), List.getElem?_map] at this
        simp only [List.length_map] at this
        rw [hj] at this
        simpa using this
      intro v hv
      rcases List.mem_append.mp hv with hv | hv
      · obtain ⟨m, hm, rfl⟩ := List.mem_map.mp hv
        exact hD m hm
      · obtain ⟨_, _, rfl⟩ := List.mem_map.mp hv
        rfl

theorem subMatrix_length (keep : List Bool) (A : List (List K)) (h : A.length = keep.length) :
    (subMatrix keep A).length = countKept keep := by
  unfold subMatrix
  rw [List.length_map, selectL_length keep A h]

/-- **zero extension of a solution of the pruned unit-injection system solves the probe network, and the
entry the code reads is the port voltage.**  `P` is the re-referenced network, `i` the index of the port node
`a` in `P.nodes`, the column of `a` is not all zero (the code has returned `np.inf` otherwise), `x` solves the
pruned system `A[np.ix_(keep, keep)] · x = unit_current` with the one at `count_nonzero(keep[:i])`.
No assumption on which or how many unknowns are pruned, none on uniqueness. -/
theorem pruned_solution (P : Net L K) (pid : String) (a : L) (hids : P.ids.Nodup) (hp : pid ∉ P.ids)
    (hsl : ∀ b ∈ P.branches, b.n1 ≠ b.n2) (hz : P.zero ∈ P.nodeLabels)
    (i : Nat) (hai : idxOf? a P.nodes = some i) (hcol : colZero P.mnaA i = false) (x : List K)
    (hsol : matVec (subMatrix (keepMask P.mnaA.length P.mnaA) P.mnaA) x
      = unitVec (subMatrix (keepMask P.mnaA.length P.mnaA) P.mnaA).length
          (countBefore (keepMask P.mnaA.length P.mnaA) i)) :
    ∃ R : Report L K, CircuitEqs (probeNet P pid a P.zero 1) R ∧
      R.pot a - R.pot P.zero = x.getD (countBefore (keepMask P.mnaA.length P.mnaA) i) 0 := by
  set keep := keepMask P.mnaA.length P.mnaA with hkeep
  have hklen : keep.length = P.mnaA.length := keepMask_length _ _
  have hilt : i < P.nodes.length := by
    obtain ⟨k, hk, hk2, _⟩ := idxOf?_of_mem (l := P.nodes)
      (by by_contra hna; rw [idxOf?_none_of_not_mem hna] at hai; cases hai)
    rw [hk] at hai; cases hai; exact hk2
  have hin : i < P.mnaA.length := by rw [mnaA_length]; omega
  have hki : keep[i]? = some true := keepMask_true_of_colZero_false _ _ i hin hcol
  have hsub : (subMatrix keep P.mnaA).length = countKept keep := subMatrix_length keep _ hklen.symm
  have hfull := matVec_expandL keep keep P.mnaA x hklen.symm
    (fun r hr => by rw [mnaA_row_length P r hr, hklen, mnaA_length])
    (fun k r hk hr => mnaA_dropped_row_zero P k r (keepMask_false_col _ _ k hk) hr)
  have hsub' : (selectL keep P.mnaA).map (selectL keep) = subMatrix keep P.mnaA := rfl
  rw [hsub', hsol, hsub, expandL_unitVec keep i hki, hklen, mnaA_length, vsSorted_length P hids] at hfull
  have hxlen : (expandL keep x).length = P.nodes.length + P.vsIds.length := by
    rw [expandL_length, hklen, mnaA_length, vsSorted_length P hids]
  obtain ⟨R, hR, hport⟩ := impl_solution P pid a hids hp hsl hz i hai (expandL keep x) hxlen hfull
  exact ⟨R, hR, by rw [hport, expandL_getD_kept keep x i hki]⟩

/-! ### what `portPre` has established about the port node's column -/

theorem isolated_false {N : Net L K} {a g : L} {N' : Net L K} (hsw : N.switchGround g = .ok N')
    (h : N.isolated a g = .ok false) : ∃ i, idxOf? a N'.nodes = some i ∧ colZero N'.mnaA i = false := by
  unfold Net.isolated at h
  rw [hsw] at h
  simp only at h
  cases hi : idxOf? a N'.nodes with
  | none => rw [hi] at h; cases h
  | some i => rw [hi] at h; simp only [Except.ok.injEq] at h; exact ⟨i, rfl, h⟩

/-- when `portPre` hands a system to `solve`, the (possibly swapped) first port node's column of the MNA
matrix of the re-referenced network is not all zero (the `isolated` test of fix aab1640 has answered `False`) -/
theorem portPre_sys_kept {N : Net L K} {n1 n2 : L} {N' : Net L K} {keep : List Bool} {A : List (List K)}
    {e : List K} {i1 : Nat} (h : N.portPre n1 n2 = .ok (.sys N' keep A e i1)) :
    N.switchGround (if n1 = N.zero then n1 else n2) = .ok N' ∧
      N.isolated (if n1 = N.zero then n2 else n1) (if n1 = N.zero then n1 else n2) = .ok false := by
  have h12 : n1 ≠ n2 := by
    intro e12; unfold Net.portPre at h; simp [e12] at h
  have hany : ¬ (N.branchesBetween n1 n2).any (·.e.isIdealVS) = true := by
    intro ha; unfold Net.portPre at h; simp [h12, ha] at h
  rw [portPre_unfold h12 hany] at h
  cases h1 : N.isolated (if n1 = N.zero then n2 else n1) (if n1 = N.zero then n1 else n2) with
  | error e => rw [h1] at h; cases h
  | ok b1 =>
    rw [h1] at h
    cases b1 with
    | true => cases h
    | false =>
      simp only at h
      cases h2 : N.isolated (if n1 = N.zero then n1 else n2) (if n1 = N.zero then n2 else n1) with
      | error e => rw [h2] at h; cases h
      | ok b2 =>
        rw [h2] at h
        cases b2 with
        | true => cases h
        | false =>
          simp only at h
          cases h3 : N.switchGround (if n1 = N.zero then n1 else n2) with
          | error e => rw [h3] at h; cases h
          | ok N'' =>
            rw [h3] at h
            simp only at h
            have := (portSys_sys h).1
            subst this
            exact ⟨rfl, rfl⟩

end MNA

end CC
