/-
  CC.Proofs.CoreGen — the generated core (CC/Gen/Core.lean, translated from the Python AST on
  every run) equals the hand-written model CC/Model/{Net,MNA}.lean, definition by definition.
-/
import CC.Gen.Core
import CC.Proofs.NetBasics
import Mathlib.Algebra.BigOperators.Group.List.Basic
set_option linter.unusedSectionVars false
set_option linter.unusedSimpArgs false

namespace CC
open CC.Gen.Core CC.Py

/-- the label order is a total pre-order (what Python's `sorted` on `str` relies on) -/
class LawfulLabelOrd (L : Type) [LabelOrd L] : Prop where
  trans : ∀ a b c : L, LabelOrd.le a b = true → LabelOrd.le b c = true → LabelOrd.le a c = true
  total : ∀ a b : L, (LabelOrd.le a b || LabelOrd.le b a) = true

instance : LawfulLabelOrd String where
  trans a b c h1 h2 := by
    simp only [LabelOrd.le, decide_eq_true_eq] at *
    exact String.le_trans h1 h2
  total a b := by
    simp only [LabelOrd.le, Bool.or_eq_true, decide_eq_true_eq]
    exact String.le_total a b

instance : LawfulLabelOrd Nat where
  trans a b c h1 h2 := by
    simp only [LabelOrd.le, decide_eq_true_eq] at *
    omega
  total a b := by
    simp only [LabelOrd.le, Bool.or_eq_true, decide_eq_true_eq]
    omega

theorem sortL_idem {α : Type} [LabelOrd α] [LawfulLabelOrd α] (l : List α) : sortL (sortL l) = sortL l :=
  List.mergeSort_of_pairwise (List.pairwise_mergeSort LawfulLabelOrd.trans LawfulLabelOrd.total l)

variable {L K : Type} [DecidableEq L] [LabelOrd L] [Field K] [DecidableEq K]

/-! ### elements.py -/

theorem gen_Yfin (e : Elem K) : (Gen.Core.Elem.Y e).toNum = e.Yfin := by
  cases e with
  | norton Z V => by_cases h : Z = 0 <;> simp [Gen.Core.Elem.Y, NortenElement.Y, XVal.toNum, Elem.Yfin, h]
  | thevenin Y I => rfl

theorem gen_Ival (e : Elem K) : (Gen.Core.Elem.I e).toNum = e.Ival := by
  cases e with
  | norton Z V => by_cases h : Z = 0 <;> simp [Gen.Core.Elem.I, NortenElement.I, XVal.toNum, Elem.Ival, h]
  | thevenin Y I => rfl

theorem gen_Vval (e : Elem K) : (Gen.Core.Elem.V e).toNum = e.Vval := by
  cases e with
  | norton Z V => rfl
  | thevenin Y I => by_cases h : Y = 0 <;> simp [Gen.Core.Elem.V, TheveninElement.V, XVal.toNum, Elem.Vval, h]

theorem gen_Zfin (e : Elem K) : (Gen.Core.Elem.Z e).toNum = e.Zfin := by
  cases e with
  | norton Z V => rfl
  | thevenin Y I => by_cases h : Y = 0 <;> simp [Gen.Core.Elem.Z, TheveninElement.Z, XVal.toNum, Elem.Zfin, h]

theorem gen_isIdealVS (e : Elem K) : is_ideal_voltage_source e = e.isIdealVS := by
  cases e with
  | norton Z V => simp [is_ideal_voltage_source, Gen.Core.Elem.V, Gen.Core.Elem.Z, XVal.absGe0, XVal.eqZero, Elem.isIdealVS]
  | thevenin Y I =>
    by_cases h : Y = 0 <;>
      simp [is_ideal_voltage_source, Gen.Core.Elem.V, Gen.Core.Elem.Z, TheveninElement.V, TheveninElement.Z,
        XVal.absGe0, XVal.eqZero, Elem.isIdealVS, h]

theorem gen_isIdealCS (e : Elem K) : is_ideal_current_source e = e.isIdealCS := by
  cases e with
  | norton Z V =>
    by_cases h : Z = 0 <;>
      simp [is_ideal_current_source, Gen.Core.Elem.I, Gen.Core.Elem.Y, NortenElement.I, NortenElement.Y,
        XVal.absGe0, XVal.eqZero, Elem.isIdealCS, h]
  | thevenin Y I => simp [is_ideal_current_source, Gen.Core.Elem.I, Gen.Core.Elem.Y, XVal.absGe0, XVal.eqZero, Elem.isIdealCS]

theorem gen_isCS (e : Elem K) : is_current_source e = e.isCS := by
  cases e with
  | norton Z V =>
    by_cases h : Z = 0 <;>
      simp [is_current_source, Gen.Core.Elem.I, NortenElement.I, XVal.absGt0, Elem.isCS, Elem.Ival, h]
  | thevenin Y I => by_cases hI : I = 0 <;> simp [is_current_source, Gen.Core.Elem.I, XVal.absGt0, Elem.isCS, Elem.Ival, hI]

theorem gen_isVSrc (e : Elem K) : is_voltage_source e = e.isVSrc := by
  cases e with
  | norton Z V => by_cases hV : V = 0 <;> simp [is_voltage_source, Gen.Core.Elem.V, XVal.absGt0, Elem.isVSrc, Elem.Vval, hV]
  | thevenin Y I =>
    by_cases h : Y = 0 <;>
      simp [is_voltage_source, Gen.Core.Elem.V, TheveninElement.V, XVal.absGt0, Elem.isVSrc, Elem.Vval, h]

theorem gen_isActive (e : Elem K) : is_active e = e.isActive := by
  simp [is_active, Elem.isActive, gen_isVSrc, gen_isCS]

theorem gen_isShort (e : Elem K) : is_short_circuit e = e.isShort := by
  cases e with
  | norton Z V => simp [is_short_circuit, Gen.Core.Elem.V, Gen.Core.Elem.Z, XVal.eqZero, Elem.isShort]
  | thevenin Y I =>
    by_cases h : Y = 0 <;>
      simp [is_short_circuit, Gen.Core.Elem.V, Gen.Core.Elem.Z, TheveninElement.V, TheveninElement.Z,
        XVal.eqZero, Elem.isShort, h]

theorem gen_isOpen (e : Elem K) : is_open_circuit e = e.isOpen := by
  cases e with
  | norton Z V =>
    by_cases h : Z = 0 <;>
      simp [is_open_circuit, Gen.Core.Elem.I, Gen.Core.Elem.Y, NortenElement.I, NortenElement.Y,
        XVal.eqZero, Elem.isOpen, h]
  | thevenin Y I => simp [is_open_circuit, Gen.Core.Elem.I, Gen.Core.Elem.Y, XVal.eqZero, Elem.isOpen]

/-! ### network.py -/

theorem gen_ids (N : Net L K) : Network.branch_ids N = N.ids := rfl

theorem gen_nodeLabels (N : Net L K) : Network.node_labels N = N.nodeLabels := by
  unfold Network.node_labels Net.nodeLabels
  cases h : N.branches <;> simp

theorem nodeLabels_ne_nil (N : Net L K) : N.nodeLabels ≠ [] := by
  intro h
  cases hb : N.branches with
  | nil => simp [Net.nodeLabels, hb] at h
  | cons b bs =>
    have := n1_mem_labels N (b := b) (by rw [hb]; exact List.mem_cons_self ..)
    rw [h] at this; simp at this

theorem gen_check (N : Net L K) : Network.post_init N = N.check := by
  unfold Network.post_init Net.check Network.number_of_nodes
  rw [gen_nodeLabels, gen_ids]
  have hne : N.nodeLabels.length ≠ 0 := by
    intro h; exact nodeLabels_ne_nil N (List.length_eq_zero_iff.mp h)
  by_cases h1 : N.zero ∈ N.nodeLabels
  · by_cases h2 : (dedupL N.ids).length = N.branches.length <;> simp [h1, h2] <;> rfl
  · simp [h1, hne]; rfl

theorem gen_getitem (N : Net L K) (id : String) :
    Network.getitem N id = match N.get? id with
      | some b => .ok b
      | none => .error .keyError := by
  unfold Network.getitem Net.get? Py.dictGet
  rw [← List.map_reverse, List.find?_map]
  cases h : List.find? ((fun p : String × Branch L K => decide (p.1 = id)) ∘ fun b => (b.id, b)) N.branches.reverse with
  | none =>
    have : N.branches.reverse.find? (fun b => decide (b.id = id)) = none := h
    simp [this]
  | some b =>
    have : N.branches.reverse.find? (fun b => decide (b.id = id)) = some b := h
    simp [this]

theorem gen_branches_between (N : Net L K) (i j : L) :
    Network.branches_between N i j
      = N.branches.filter (fun b => (b.n1 = i ∧ b.n2 = j) ∨ (b.n1 = j ∧ b.n2 = i)) := by
  unfold Network.branches_between Py.setEq2
  apply List.filter_congr
  intro b _
  simp

theorem gen_branches_connected_to (N : Net L K) (i : L) :
    (Network.branches_connected_to N i).Perm (N.branches.filter (fun b => b.n1 = i ∨ b.n2 = i)) := by
  unfold Network.branches_connected_to Py.sortByKey
  refine (List.mergeSort_perm _ _).trans ?_
  apply List.Perm.of_eq
  apply List.filter_congr
  intro b _
  simp

/-! ### label_mapping.py -/

theorem dictKeys_of_nodup {α : Type} [DecidableEq α] {l : List α} (h : l.Nodup) : Py.dictKeys l = l := by
  induction l with
  | nil => rfl
  | cons a l ih =>
    have ha := List.nodup_cons.mp h
    unfold Py.dictKeys
    rw [ih ha.2]
    congr 1
    rw [List.filter_eq_self]
    intro b hb
    simp only [ne_eq, decide_not, Bool.not_eq_eq_eq_not, Bool.not_true, decide_eq_false_iff_not]
    rintro rfl; exact ha.1 hb

theorem sortL_nodeLabels [LawfulLabelOrd L] (N : Net L K) : sortL N.nodeLabels = N.nodeLabels := by
  unfold Net.nodeLabels
  split
  · simp [sortL]
  · exact sortL_idem _

theorem gen_nodes [LawfulLabelOrd L] (N : Net L K) : (alphabetic_node_mapper N).keys = N.nodes := by
  unfold alphabetic_node_mapper Py.LabelMapping.enumerate
  simp only [gen_nodeLabels, sortL_nodeLabels]
  have : (N.nodeLabels.filter fun label => decide (label ≠ N.zero)) = N.nodes := rfl
  rw [this, dictKeys_of_nodup (nodes_nodup N)]

theorem gen_vs_filter (N : Net L K) :
    (N.branches.filter fun b => is_ideal_voltage_source b.e) = N.vs := by
  unfold Net.vs
  apply List.filter_congr; intro b _; rw [gen_isIdealVS]

theorem gen_cs_filter (N : Net L K) :
    (N.branches.filter fun b => is_current_source b.e) = N.cs := by
  unfold Net.cs
  apply List.filter_congr; intro b _; rw [gen_isCS]

theorem csIds_nodup (N : Net L K) (h : N.ids.Nodup) : N.csIds.Nodup := by
  unfold Net.csIds
  rw [nodup_sortL]
  unfold Net.cs
  exact (List.Nodup.sublist ((List.filter_sublist).map _) h)

theorem not_cs_of_idealVS (e : Elem K) (h : e.isIdealVS = true) : e.isCS = false := by
  cases e with
  | norton Z V =>
    simp only [Elem.isIdealVS, decide_eq_true_eq] at h
    simp [Elem.isCS, Elem.Ival, h]
  | thevenin Y I => simp [Elem.isIdealVS] at h

theorem srcIds_nodup (N : Net L K) (h : N.ids.Nodup) : N.srcIds.Nodup := by
  unfold Net.srcIds
  rw [nodup_sortL, List.nodup_append]
  refine ⟨(List.Nodup.sublist ((List.filter_sublist).map _) h),
    (List.Nodup.sublist ((List.filter_sublist).map _) h), ?_⟩
  intro a ha b hb hab
  obtain ⟨b1, hb1, rfl⟩ := List.mem_map.mp ha
  obtain ⟨b2, hb2, rfl⟩ := List.mem_map.mp hb
  have m1 := List.mem_filter.mp hb1
  have m2 := List.mem_filter.mp hb2
  have : b1 = b2 := List.inj_on_of_nodup_map h m1.1 m2.1 hab
  subst this
  have := not_cs_of_idealVS b1.e m2.2
  rw [this] at m1; exact absurd m1.2 (by simp)

theorem gen_vsIds (N : Net L K) (h : N.ids.Nodup) : (alphabetic_voltage_source_mapper N).keys = N.vsIds := by
  unfold alphabetic_voltage_source_mapper Py.LabelMapping.enumerate
  simp only [gen_vs_filter]
  exact dictKeys_of_nodup (vsIds_nodup N h)

theorem gen_csIds (N : Net L K) (h : N.ids.Nodup) : (alphabetic_current_source_mapper N).keys = N.csIds := by
  unfold alphabetic_current_source_mapper Py.LabelMapping.enumerate
  simp only [gen_cs_filter]
  exact dictKeys_of_nodup (csIds_nodup N h)

theorem gen_srcIds (N : Net L K) (h : N.ids.Nodup) : (alphabetic_source_mapper N).keys = N.srcIds := by
  unfold alphabetic_source_mapper Py.LabelMapping.enumerate
  simp only [gen_vs_filter, gen_cs_filter]
  exact dictKeys_of_nodup (srcIds_nodup N h)

/-! ### node_analysis.py: admittances -/

theorem finiteY_elem (e : Elem K) :
    XVal.finite? (Gen.Core.Elem.Y e) = if e.isIdealVS = true then none else some e.Yfin := by
  cases e with
  | norton Z V =>
    by_cases h : Z = 0 <;>
      simp [Gen.Core.Elem.Y, NortenElement.Y, XVal.finite?, Elem.isIdealVS, Elem.Yfin, h]
  | thevenin Y I => simp [Gen.Core.Elem.Y, XVal.finite?, Elem.isIdealVS, Elem.Yfin]

theorem filterMap_finiteY (l : List (Branch L K)) :
    l.filterMap (fun b => XVal.finite? (Gen.Core.Elem.Y b.e))
      = (l.filter (fun b => !b.e.isIdealVS)).map (·.e.Yfin) := by
  induction l with
  | nil => rfl
  | cons b l ih =>
    rw [List.filterMap_cons, List.filter_cons, ih, finiteY_elem]
    by_cases h : b.e.isIdealVS = true <;> simp [h]

theorem gen_admittance_connected_to (N : Net L K) (i : L) :
    admittance_connected_to N i
      = ((N.nonVS.filter (fun b => (b.n1 = i ∨ b.n2 = i) ∧ b.n1 ≠ b.n2)).map (·.e.Yfin)).sum := by
  unfold admittance_connected_to
  rw [(((gen_branches_connected_to N i).filter _).filterMap _).sum_eq, filterMap_finiteY]
  unfold Net.nonVS
  rw [List.filter_filter, List.filter_filter, List.filter_filter]
  congr 2
  apply List.filter_congr; intro b _
  by_cases h1 : b.n1 = i ∨ b.n2 = i <;> by_cases h2 : b.n1 = b.n2 <;> simp [h1, h2]

theorem gen_admittance_between (N : Net L K) (i j : L) :
    admittance_between N i j
      = ((N.nonVS.filter (fun b => (b.n1 = i ∧ b.n2 = j) ∨ (b.n1 = j ∧ b.n2 = i))).map (·.e.Yfin)).sum := by
  unfold admittance_between
  rw [gen_branches_between, filterMap_finiteY]
  unfold Net.nonVS
  rw [List.filter_filter, List.filter_filter]
  congr 2
  apply List.filter_congr; intro b _; rw [Bool.and_comm]

theorem gen_Yentry (N : Net L K) (i j : L) : node_matrix_element N i j = N.Yentry i j := by
  unfold node_matrix_element Net.Yentry
  rw [gen_admittance_connected_to, gen_admittance_between]

/-! ### generic lemmas about look-ups in loops -/

theorem mapM_ok {α β : Type} (f : α → Except Err β) (g : α → β) (l : List α)
    (h : ∀ a ∈ l, f a = .ok (g a)) : l.mapM f = .ok (l.map g) := by
  induction l with
  | nil => rfl
  | cons a l ih =>
    rw [List.mapM_cons, h a (List.mem_cons_self ..), ih (fun b hb => h b (List.mem_cons_of_mem _ hb))]
    rfl

theorem get?_isSome_of_mem_ids (N : Net L K) {id : String} (h : id ∈ N.ids) : (N.get? id).isSome := by
  unfold Net.get?
  rw [List.find?_isSome]
  obtain ⟨b, hb, rfl⟩ := List.mem_map.mp h
  exact ⟨b, List.mem_reverse.mpr hb, by simp⟩

theorem mapM_getitem (N : Net L K) {β : Type} (ids : List String) (h : Branch L K → β)
    (hs : ∀ id ∈ ids, (N.get? id).isSome) :
    ids.mapM (fun id => (do let b ← Network.getitem N id; pure (h b) : Except Err β))
      = .ok ((N.byIds ids).map h) := by
  induction ids with
  | nil => rfl
  | cons id ids ih =>
    have h1 := hs id (List.mem_cons_self ..)
    rw [List.mapM_cons, gen_getitem, ih (fun a ha => hs a (List.mem_cons_of_mem _ ha))]
    cases hg : N.get? id with
    | none => simp [hg] at h1
    | some b => simp [Net.byIds, hg]; rfl

theorem tableM_getitem (N : Net L K) {ρ : Type} (R : List ρ) (C : List String)
    (f : ρ → String → Except Err K) (h : ρ → Branch L K → K)
    (hf : ∀ r c, f r c = (do let b ← Network.getitem N c; pure (h r b)))
    (hs : ∀ id ∈ C, (N.get? id).isSome) :
    Py.Mat.tableM R C f = .ok ⟨R.length, C.length, R.map fun r => (N.byIds C).map (h r)⟩ := by
  unfold Py.Mat.tableM
  have : R.mapM (fun r => C.mapM fun c => f r c) = .ok (R.map fun r => (N.byIds C).map (h r)) := by
    apply mapM_ok
    intro r _
    simp only [hf]
    exact mapM_getitem N C (h r) hs
  rw [this]; rfl

theorem vsIds_found (N : Net L K) : ∀ id ∈ N.vsIds, (N.get? id).isSome := by
  intro id hid
  apply get?_isSome_of_mem_ids
  have := mem_sortL.mp hid
  obtain ⟨b, hb, rfl⟩ := List.mem_map.mp this
  exact List.mem_map.mpr ⟨b, (List.mem_filter.mp hb).1, rfl⟩

theorem csIds_found (N : Net L K) : ∀ id ∈ N.csIds, (N.get? id).isSome := by
  intro id hid
  apply get?_isSome_of_mem_ids
  have := mem_sortL.mp hid
  obtain ⟨b, hb, rfl⟩ := List.mem_map.mp this
  exact List.mem_map.mpr ⟨b, (List.mem_filter.mp hb).1, rfl⟩

/-! ### node_analysis.py: incidence matrices -/

theorem gen_dir (N : Net L K) (vs : String) (n : L) :
    voltage_source_direction N vs n = (do let b ← Network.getitem N vs; pure (b.dir n)) := by
  unfold voltage_source_direction
  cases Network.getitem N vs with
  | error e => rfl
  | ok b => rfl

theorem gen_vs_matrix [LawfulLabelOrd L] (N : Net L K) (hids : N.ids.Nodup) :
    voltage_source_incidence_matrix N
      = .ok ⟨N.nodes.length, N.vsIds.length, N.nodes.map fun n => N.vsSorted.map fun b => b.dir n⟩ := by
  unfold voltage_source_incidence_matrix
  simp only [gen_nodes, gen_vsIds N hids]
  rw [tableM_getitem N N.nodes N.vsIds _ (fun n b => b.dir n) ?_ (vsIds_found N)]
  · rfl
  · intro r c
    rw [gen_dir]

theorem gen_Qentry (N : Net L K) (b : Branch L K) (row : L) :
    (let q : K := 0
     let q : K := if (N.zero ≠ b.n1) ∧ b.n1 = row then (q - 1) else q
     let q : K := if (N.zero ≠ b.n2) ∧ b.n2 = row then (q + 1) else q
     q) = N.Qentry b row := by
  unfold Net.Qentry
  by_cases h1 : b.n1 = row <;> by_cases h2 : b.n2 = row <;> by_cases z1 : N.zero = b.n1 <;>
    by_cases z2 : N.zero = b.n2 <;> simp_all [eq_comm]

theorem gen_Q_matrix [LawfulLabelOrd L] (N : Net L K) (hids : N.ids.Nodup) :
    source_incidence_matrix N
      = .ok ⟨N.nodes.length, N.csIds.length, N.nodes.map fun n => N.csSorted.map fun b => N.Qentry b n⟩ := by
  unfold source_incidence_matrix
  simp only [gen_nodes, gen_csIds N hids]
  rw [tableM_getitem N N.nodes N.csIds _ (fun n b => N.Qentry b n) ?_ (csIds_found N)]
  · rfl
  · intro r c
    cases Network.getitem N c with
    | error e => rfl
    | ok b =>
      simp only [bind, Except.bind, pure, Except.pure]
      rw [← gen_Qentry N b r]

/-! ### node_analysis.py: block layout -/

theorem zipWith_map_same {α β γ δ : Type} (f : β → γ → δ) (l : List α) (a : α → β) (b : α → γ) :
    List.zipWith f (l.map a) (l.map b) = l.map fun x => f (a x) (b x) := by
  induction l with
  | nil => rfl
  | cons x l ih => simp [ih]

theorem transpose_rows {ρ β : Type} (nodes : List ρ) (l : List β) (φ : ρ → β → K) :
    (List.range l.length).map (fun j => (nodes.map fun n => l.map (φ n)).map fun row => row.getD j 0)
      = l.map fun b => nodes.map fun n => φ n b := by
  apply List.ext_getElem
  · simp
  · intro j h1 h2
    simp only [List.length_map, List.length_range] at h1
    simp only [List.getElem_map, List.getElem_range, List.map_map]
    apply List.map_congr_left
    intro n _
    simp [List.getD_eq_getElem?_getD, h1]

theorem gen_Y_matrix [LawfulLabelOrd L] (N : Net L K) :
    node_admittance_matrix N
      = ⟨N.nodes.length, N.nodes.length, N.nodes.map fun i => N.nodes.map fun j => N.Yentry i j⟩ := by
  unfold node_admittance_matrix Py.Mat.table
  simp only [gen_nodes, gen_Yentry]

theorem gen_mnaA [LawfulLabelOrd L] (N : Net L K) (hids : N.ids.Nodup) :
    nodal_analysis_coefficient_matrix N
      = .ok ⟨N.nodes.length + N.vsIds.length, N.nodes.length + N.vsIds.length, N.mnaA⟩ := by
  unfold nodal_analysis_coefficient_matrix
  rw [gen_vs_matrix N hids, gen_Y_matrix]
  have hlen : N.vsSorted.length = N.vsIds.length := by
    have := (vsSorted_perm N hids).length_eq
    rw [this]; unfold Net.vsIds Net.vs; simp [(sortL_perm _).length_eq]
  simp only [bind, Except.bind, pure, Except.pure, Py.Mat.vstack, Py.Mat.hstack, Py.Mat.T, Py.Mat.zeros]
  congr 1
  unfold Net.mnaA
  rw [zipWith_map_same, ← hlen, transpose_rows N.nodes N.vsSorted (fun n b => b.dir n)]
  congr 1
  have : List.replicate N.vsSorted.length (List.replicate N.vsSorted.length (0 : K))
      = N.vsSorted.map fun _ => N.vsSorted.map fun _ => (0 : K) := by
    simp [List.map_const']
  rw [this, zipWith_map_same]

/-! ### node_analysis.py: right-hand side -/

theorem filterKeysM_all {α : Type} (p : α → Except Err Bool) (l : List α) (h : ∀ k ∈ l, p k = .ok true) :
    Py.LabelMapping.filterKeysM p l = .ok l := by
  induction l with
  | nil => rfl
  | cons k ks ih =>
    unfold Py.LabelMapping.filterKeysM
    rw [h k (List.mem_cons_self ..), ih (fun a ha => h a (List.mem_cons_of_mem _ ha))]
    rfl

theorem csIds_get (N : Net L K) (hids : N.ids.Nodup) {id : String} (h : id ∈ N.csIds) :
    ∃ b, N.get? id = some b ∧ b.e.isCS = true := by
  have := mem_sortL.mp h
  obtain ⟨b, hb, rfl⟩ := List.mem_map.mp this
  have hm := List.mem_filter.mp hb
  exact ⟨b, get?_of_mem N hids hm.1, hm.2⟩

theorem gen_cs_vector (N : Net L K) (hids : N.ids.Nodup) :
    current_source_vector N = .ok (N.csSorted.map fun b => b.e.Ival) := by
  unfold current_source_vector Py.LabelMapping.filterM
  rw [gen_csIds N hids]
  rw [filterKeysM_all _ N.csIds ?_]
  · have h1 := mapM_getitem N N.csIds (fun b => (Gen.Core.Elem.I b.e).toNum) (csIds_found N)
    have h2 : (N.byIds N.csIds).map (fun b => (Gen.Core.Elem.I b.e).toNum) = N.csSorted.map fun b => b.e.Ival := by
      unfold Net.csSorted; apply List.map_congr_left; intro b _; exact gen_Ival b.e
    rw [h2] at h1
    show (do let l2 ← List.mapM (fun x => (do let b ← Network.getitem N x; pure (Gen.Core.Elem.I b.e).toNum : Except Err K)) N.csIds
             pure l2 : Except Err (List K)) = _
    rw [h1]
  · intro k hk
    obtain ⟨b, hb, hcs⟩ := csIds_get N hids hk
    rw [gen_getitem, hb]
    simp only [bind, Except.bind, pure, Except.pure, gen_isCS, hcs]

theorem dotL_map {α : Type} (l : List α) (a b : α → K) :
    dotL (l.map a) (l.map b) = (l.map fun x => a x * b x).sum := by
  unfold dotL; rw [zipWith_map_same]

theorem gen_rhs_nodes [LawfulLabelOrd L] (N : Net L K) (hids : N.ids.Nodup) :
    current_source_incidence_vector N = .ok (N.nodes.map fun n => N.rhsNode n) := by
  unfold current_source_incidence_vector
  rw [gen_Q_matrix N hids, gen_cs_vector N hids]
  simp only [bind, Except.bind, pure, Except.pure, Py.Mat.mulVec, List.map_map]
  congr 1
  apply List.map_congr_left
  intro n _
  simp only [Function.comp, dotL_map, Net.rhsNode]

theorem gen_mnaB [LawfulLabelOrd L] (N : Net L K) (hids : N.ids.Nodup) :
    nodal_analysis_constants_vector N = .ok N.mnaB := by
  unfold nodal_analysis_constants_vector
  rw [gen_rhs_nodes N hids]
  have h1 := mapM_getitem N N.vsIds (fun b => (Gen.Core.Elem.V b.e).toNum) (vsIds_found N)
  have h2 : (N.byIds N.vsIds).map (fun b => (Gen.Core.Elem.V b.e).toNum) = N.vsSorted.map fun b => b.e.Vval := by
    unfold Net.vsSorted; apply List.map_congr_left; intro b _; exact gen_Vval b.e
  rw [h2] at h1
  show (do let l2 ← List.mapM (fun vs => (do let b ← Network.getitem N vs; pure (Gen.Core.Elem.V b.e).toNum : Except Err K))
                (alphabetic_voltage_source_mapper N).keys
           pure ((N.nodes.map fun n => N.rhsNode n) ++ l2) : Except Err (List K)) = _
  rw [gen_vsIds N hids, h1]; rfl

/-! ### bias_point_analysis.py / solution.py: accessors -/

theorem idxOf?_eq_none_iff' {α : Type} [DecidableEq α] (a : α) (l : List α) : idxOf? a l = none ↔ a ∉ l := by
  induction l with
  | nil => simp [idxOf?]
  | cons b l ih =>
    unfold idxOf?
    by_cases h : b = a
    · simp [h]
    · simp [h, ih, Ne.symm h]

theorem idxOf?_lt_length {α : Type} [DecidableEq α] {a : α} {l : List α} {k : Nat}
    (h : idxOf? a l = some k) : k < l.length := by
  induction l generalizing k with
  | nil => simp [idxOf?] at h
  | cons b l ih =>
    unfold idxOf? at h
    by_cases hb : b = a
    · simp [hb] at h; subst h; simp
    · simp only [hb, if_false, Option.map_eq_some_iff] at h
      obtain ⟨j, hj, rfl⟩ := h
      have := ih hj
      simp; omega

theorem gen_potential [LawfulLabelOrd L] (N : Net L K) (x : List K) (n : L) :
    Solution.get_potential N x n = N.potential x n := by
  unfold Solution.get_potential Net.potential Solution.potentials Py.LabelMapping.getitem Py.LabelMapping.N
  rw [gen_nodes]
  by_cases hz : n = N.zero
  · simp [hz]; rfl
  · simp only [hz, if_false]
    cases hk : idxOf? n N.nodes with
    | none => rfl
    | some k =>
      have hlt := idxOf?_lt_length hk
      show Except.ok (Py.index (Py.sliceTo x N.nodes.length) k) = Except.ok (x.getD k 0)
      congr 1
      simp only [Py.index, Py.sliceTo, List.getD_eq_getElem?_getD, List.getElem?_take, hlt, if_true]

theorem gen_voltage [LawfulLabelOrd L] (N : Net L K) (x : List K) (id : String) :
    Solution.get_voltage N x id = N.voltage x id := by
  unfold Solution.get_voltage Net.voltage
  rw [gen_getitem]
  cases N.get? id with
  | none => rfl
  | some b =>
    simp only [gen_potential]
    rfl

theorem gen_current [LawfulLabelOrd L] (N : Net L K) (hids : N.ids.Nodup) (x : List K)
    (hx : x.length = N.nodes.length + N.vsIds.length) (id : String) :
    Solution.get_current N x id = N.current x id := by
  unfold Solution.get_current Net.current Solution.voltage_source_currents Py.LabelMapping.getitem Py.LabelMapping.N
  rw [gen_vsIds N hids]
  cases hk : idxOf? id N.vsIds with
  | some k =>
    have hmem : id ∈ N.vsIds := by
      by_contra hc; rw [(idxOf?_eq_none_iff' id N.vsIds).mpr hc] at hk; simp at hk
    have hlt := idxOf?_lt_length hk
    simp only [hmem, if_true]
    show Except.ok (Py.index (Py.sliceLast x N.vsIds.length) k) = Except.ok (x.getD (N.nodes.length + k) 0)
    congr 1
    have hne : N.vsIds.length ≠ 0 := by omega
    simp only [Py.index, Py.sliceLast, hne, if_false, List.getD_eq_getElem?_getD, List.getElem?_drop]
    congr 2
    omega
  | none =>
    have hmem : id ∉ N.vsIds := (idxOf?_eq_none_iff' id N.vsIds).mp hk
    simp only [hmem, if_false]
    rw [gen_getitem]
    cases N.get? id with
    | none => rfl
    | some b =>
      simp only [gen_isIdealCS, gen_isCS, gen_voltage, gen_Ival, gen_Zfin]
      show ((if b.e.isIdealCS = true then pure b.e.Ival
              else if b.e.isCS = true then (do let r ← N.voltage x id; pure (-(b.e.Ival + r / b.e.Zfin)))
              else (do let r ← N.voltage x id; pure (r / b.e.Zfin))) : Except Err K) = _
      split_ifs <;> rfl

theorem gen_power [LawfulLabelOrd L] (conj : K → K) (N : Net L K) (hids : N.ids.Nodup) (x : List K)
    (hx : x.length = N.nodes.length + N.vsIds.length) (id : String) :
    Solution.get_power conj N x id = N.power conj x id := by
  unfold Solution.get_power Net.power
  rw [gen_voltage, gen_current N hids x hx]

/-! ### the solve / LinAlgError / nan fallback -/

theorem gen_solution_vector [LawfulLabelOrd L] (solve : Py.Mat K → List K → Option (List K)) (anyNan : List K → Bool)
    (N : Net L K) (hids : N.ids.Nodup) :
    Solution.solution_vector solve anyNan N
      = .ok (match solve ⟨N.nodes.length + N.vsIds.length, N.nodes.length + N.vsIds.length, N.mnaA⟩ N.mnaB with
             | some x => if anyNan x = true then List.replicate N.mnaB.length 0 else x
             | none => if anyNan (List.replicate N.mnaB.length (0 : K)) = true then List.replicate N.mnaB.length 0
                       else List.replicate N.mnaB.length 0) := by
  unfold Solution.solution_vector
  rw [gen_mnaA N hids, gen_mnaB N hids]
  simp only [bind, Except.bind, pure, Except.pure, Py.zerosVec]
  cases solve _ N.mnaB <;> rfl

/-! ### the exceptional values never reach an array or an arithmetic operand -/

theorem gen_finite_I (e : Elem K) (h : is_current_source e = true) : (Gen.Core.Elem.I e).isFin = true := by
  cases e with
  | norton Z V =>
    by_cases hz : Z = 0 <;>
      simp_all [is_current_source, Gen.Core.Elem.I, NortenElement.I, XVal.absGt0, XVal.isFin]
  | thevenin Y I => rfl

theorem gen_finite_V (e : Elem K) (h : is_ideal_voltage_source e = true) : (Gen.Core.Elem.V e).isFin = true := by
  cases e with
  | norton Z V => rfl
  | thevenin Y I =>
    by_cases hy : Y = 0 <;>
      simp_all [is_ideal_voltage_source, Gen.Core.Elem.V, Gen.Core.Elem.Z, TheveninElement.V, TheveninElement.Z,
        XVal.absGe0, XVal.eqZero, XVal.isFin]

theorem gen_finite_Z (e : Elem K) (h1 : is_ideal_voltage_source e = false)
    (h2 : is_ideal_current_source e = false) :
    (Gen.Core.Elem.Z e).isFin = true ∧ (Gen.Core.Elem.Z e).toNum ≠ 0 := by
  cases e with
  | norton Z V =>
    simp_all [is_ideal_voltage_source, Gen.Core.Elem.V, Gen.Core.Elem.Z, XVal.absGe0, XVal.eqZero, XVal.isFin, XVal.toNum]
  | thevenin Y I =>
    by_cases hy : Y = 0 <;>
      simp_all [is_ideal_current_source, Gen.Core.Elem.I, Gen.Core.Elem.Y, Gen.Core.Elem.Z, TheveninElement.Z,
        XVal.absGe0, XVal.eqZero, XVal.isFin, XVal.toNum]

theorem setEq2_iff {α : Type} [DecidableEq α] (a b c d : α) :
    Py.setEq2 a b c d = true ↔ ∀ x, (x = a ∨ x = b) ↔ (x = c ∨ x = d) := by
  unfold Py.setEq2
  simp only [Bool.or_eq_true, Bool.and_eq_true, decide_eq_true_eq]
  constructor
  · rintro (⟨rfl, rfl⟩ | ⟨rfl, rfl⟩) x
    · rfl
    · exact Or.comm
  · intro h
    have ha := (h a).mp (Or.inl rfl)
    have hb := (h b).mp (Or.inr rfl)
    have hc := (h c).mpr (Or.inl rfl)
    have hd := (h d).mpr (Or.inr rfl)
    grind

end CC
