/-
  CC.Proofs.StateGen — the generated state-space model (CC/Gen/StateSpace.lean, translated from the
  Python AST on every run) equals the hand-written model CC/Model/StateSpace.lean.
-/
import CC.Gen.StateSpace
import CC.Proofs.CoreGen
import CC.Proofs.StateModel
set_option linter.unusedSectionVars false
set_option linter.unusedSimpArgs false

namespace CC
open CC.Gen.Core CC.Gen.State CC.Py

variable {L K : Type} [DecidableEq L] [LabelOrd L] [Field K] [DecidableEq K]

/-! ### list matrices: extensionality and entries of the row-level constructions -/

theorem Mx.get_eq (M : List (List K)) (i j : Nat) : Mx.get M i j = (M.getD i []).getD j 0 := rfl

theorem mx_ext {A B : List (List K)} {r c : Nat} (hA : IsShape A r c) (hB : IsShape B r c)
    (h : ∀ i j, i < r → j < c → Mx.get A i j = Mx.get B i j) : A = B := by
  apply List.ext_getElem
  · rw [hA.1, hB.1]
  · intro i h1 h2
    have hi : i < r := hA.1 ▸ h1
    apply List.ext_getElem
    · rw [hA.2 _ (List.getElem_mem h1), hB.2 _ (List.getElem_mem h2)]
    · intro j h3 h4
      have hj : j < c := (hA.2 _ (List.getElem_mem h1)) ▸ h3
      have := h i j hi hj
      simp only [Mx.get, List.getD_eq_getElem?_getD, List.getElem?_eq_getElem h1, List.getElem?_eq_getElem h2,
        Option.getD_some, List.getElem?_eq_getElem h3, List.getElem?_eq_getElem h4] at this
      exact this

theorem ofFn_get_self {A : List (List K)} {r c : Nat} (hA : IsShape A r c) : Mx.ofFn r c (Mx.get A) = A :=
  mx_ext (isShape_ofFn r c _) hA (fun i j hi hj => Mx.get_ofFn _ hi hj)

theorem get_zipWith_append {A B : List (List K)} {r c1 c2 : Nat} (hA : IsShape A r c1) (hB : IsShape B r c2)
    (i j : Nat) (hi : i < r) :
    Mx.get (List.zipWith (· ++ ·) A B) i j = if j < c1 then Mx.get A i j else Mx.get B i (j - c1) := by
  have h1 : i < A.length := hA.1 ▸ hi
  have h2 : i < B.length := hB.1 ▸ hi
  have hl : (A[i]).length = c1 := hA.2 _ (List.getElem_mem h1)
  simp only [Mx.get, List.getD_eq_getElem?_getD, List.getElem?_zipWith, List.getElem?_eq_getElem h1,
    List.getElem?_eq_getElem h2, Option.map₂_some_some, Option.getD_some, List.getElem?_append, hl]
  split_ifs <;> rfl

theorem isShape_zipWith_append {A B : List (List K)} {r c1 c2 : Nat} (hA : IsShape A r c1) (hB : IsShape B r c2) :
    IsShape (List.zipWith (· ++ ·) A B) r (c1 + c2) := by
  refine ⟨by simp [hA.1, hB.1], ?_⟩
  intro row hrow
  obtain ⟨i, hi, rfl⟩ := List.mem_iff_getElem.mp hrow
  simp only [List.length_zipWith, hA.1, hB.1, Nat.min_self] at hi
  have h1 : i < A.length := hA.1 ▸ hi
  have h2 : i < B.length := hB.1 ▸ hi
  simp only [List.getElem_zipWith, List.length_append, hA.2 _ (List.getElem_mem h1), hB.2 _ (List.getElem_mem h2)]

/-- `np.hstack` on well-shaped arrays is the model's `Mx.hstack` -/
theorem hstack_rows {A B : List (List K)} {r c1 c2 : Nat} (hA : IsShape A r c1) (hB : IsShape B r c2) :
    List.zipWith (· ++ ·) A B = Mx.hstack r c1 c2 A B := by
  apply mx_ext (isShape_zipWith_append hA hB) (isShape_ofFn _ _ _)
  intro i j hi hj
  rw [get_zipWith_append hA hB i j hi]
  show _ = Mx.get (Mx.ofFn r (c1 + c2) _) i j
  rw [Mx.get_ofFn _ hi hj]

/-- `M.T` on an array with `r` rows is the model's `Mx.transpose` -/
theorem transpose_rows' (M : List (List K)) (r c : Nat) (hr : M.length = r) :
    ((List.range c).map fun j => M.map fun row => row.getD j 0) = Mx.transpose c r M := by
  unfold Mx.transpose Mx.ofFn
  apply List.map_congr_left
  intro i _
  apply List.ext_getElem
  · simp [hr]
  · intro j h1 h2
    simp only [List.length_map] at h1
    simp [Mx.get, List.getD_eq_getElem?_getD, List.getElem?_eq_getElem h1]

theorem isShape_replicate (r c : Nat) : IsShape (List.replicate r (List.replicate c (0 : K))) r c := by
  refine ⟨by simp, ?_⟩
  intro row h
  rw [List.eq_of_mem_replicate h]; simp

theorem get_replicate (r c i j : Nat) : Mx.get (List.replicate r (List.replicate c (0 : K))) i j = 0 := by
  simp only [Mx.get, List.getD_eq_getElem?_getD, List.getElem?_replicate]
  split_ifs <;> simp [List.getElem?_replicate] <;> split_ifs <;> rfl

theorem get_append (A B : List (List K)) (i j : Nat) :
    Mx.get (A ++ B) i j = if i < A.length then Mx.get A i j else Mx.get B (i - A.length) j := by
  simp only [Mx.get, List.getD_eq_getElem?_getD, List.getElem?_append]
  split_ifs <;> rfl

/-! ### `Except` loops -/

theorem mapM_length_ok {α β : Type} (f : α → Except Err β) (l : List α) {out : List β}
    (h : l.mapM f = .ok out) : out.length = l.length := by
  induction l generalizing out with
  | nil => simp [List.mapM_nil] at h; cases h; rfl
  | cons a l ih =>
    rw [List.mapM_cons] at h
    cases ha : f a with
    | error e => rw [ha] at h; cases h
    | ok b =>
      cases hl : l.mapM f with
      | error e => rw [ha, hl] at h; cases h
      | ok bs =>
        rw [ha, hl] at h
        cases h
        simp [ih hl]

theorem mapM_zip_append {α : Type} (g : α → Except Err (List K)) (z : List K) (l : List α) (n : Nat) (hn : n = l.length) :
    (do let rows ← l.mapM g
        pure (List.zipWith (· ++ ·) rows (List.replicate n z)) : Except Err (List (List K)))
      = l.mapM (fun x => do let r ← g x; pure (r ++ z)) := by
  subst hn
  induction l with
  | nil => rfl
  | cons a l ih =>
    rw [List.mapM_cons, List.mapM_cons]
    cases ha : g a with
    | error e => rfl
    | ok b =>
      cases hl : l.mapM g with
      | error e =>
        rw [hl] at ih
        have : l.mapM (fun x => do let r ← g x; pure (r ++ z)) = .error e := ih.symm
        simp only [this]; rfl
      | ok bs =>
        rw [hl] at ih
        have : l.mapM (fun x => do let r ← g x; pure (r ++ z)) = .ok (List.zipWith (· ++ ·) bs (List.replicate l.length z)) := ih.symm
        simp only [this]
        show Except.ok _ = Except.ok _
        simp [List.replicate_succ]

/-! ### `element_incidence_matrix` = `ssDelta` -/

theorem delta_row (N : Net L K) (id : String) :
    (N.nodes.mapM (fun (i_label : L) => (do
        let q : K := 0
        let b11 ← Network.getitem N id
        let q : K := if (i_label = b11.n1) then 1 else q
        let q : K := if (i_label = b11.n2) then (-1) else q
        pure q : Except Err K)))
      = if N.nodes.isEmpty then .ok [] else match N.get? id with
        | some b => .ok (N.nodes.map fun n => if n = b.n2 then (-1 : K) else if n = b.n1 then 1 else 0)
        | none => .error .keyError := by
  cases hn : N.nodes with
  | nil => rfl
  | cons n ns =>
    simp only [List.isEmpty_cons, Bool.false_eq_true, if_false]
    rw [← hn, gen_getitem]
    cases hg : N.get? id with
    | none => rw [hn, List.mapM_cons]; rfl
    | some b =>
      apply mapM_ok
      intro a _
      by_cases h1 : a = b.n1 <;> by_cases h2 : a = b.n2 <;> simp [h1, h2, bind, Except.bind, pure, Except.pure]

theorem gen_vsN (N : Net L K) (hids : N.ids.Nodup) : (alphabetic_voltage_source_mapper N).N = N.nV := by
  unfold Py.LabelMapping.N Net.nV; rw [gen_vsIds N hids]

theorem gen_csN (N : Net L K) (hids : N.ids.Nodup) : (alphabetic_current_source_mapper N).N = N.nC := by
  unfold Py.LabelMapping.N Net.nC; rw [gen_csIds N hids]

theorem gen_nodeN [LawfulLabelOrd L] (N : Net L K) : (alphabetic_node_mapper N).N = N.nN := by
  unfold Py.LabelMapping.N Net.nN; rw [gen_nodes N]

theorem gen_Delta [LawfulLabelOrd L] (inv : Py.Mat K → Py.Mat K) (re : K → K) (N : Net L K) (hids : N.ids.Nodup)
    (cvals : ValDict K) :
    element_incidence_matrix inv re N cvals
      = (do let rows ← ssDelta N cvals
            pure ⟨cvals.length, N.nN + N.nV, rows⟩ : Except Err (Py.Mat K)) := by
  unfold element_incidence_matrix Py.Mat.tableM
  simp only [gen_nodes, gen_vsN N hids, delta_row]
  have key := mapM_zip_append (fun id => (if N.nodes.isEmpty then .ok [] else match N.get? id with
        | some b => .ok (N.nodes.map fun n => if n = b.n2 then (-1 : K) else if n = b.n1 then 1 else 0)
        | none => .error .keyError : Except Err (List K))) (List.replicate N.nV (0 : K)) cvals.keys cvals.keys.length rfl
  have hrow : (fun id => (do
        let r ← (if N.nodes.isEmpty then .ok [] else match N.get? id with
          | some b => .ok (N.nodes.map fun n => if n = b.n2 then (-1 : K) else if n = b.n1 then 1 else 0)
          | none => .error .keyError : Except Err (List K))
        pure (r ++ List.replicate N.nV (0 : K)) : Except Err (List K)))
      = fun id => if N.nodes.isEmpty then .ok (List.replicate N.nV 0)
          else match N.get? id with
            | some b => .ok (ssDeltaRow N b)
            | none => .error .keyError := by
    funext id
    by_cases he : N.nodes.isEmpty
    · simp [he]
    · simp only [he, Bool.false_eq_true, if_false]
      cases N.get? id <;> rfl
  have key' : (do let rows ← List.mapM (fun id => (if N.nodes.isEmpty then .ok [] else match N.get? id with
        | some b => .ok (N.nodes.map fun n => if n = b.n2 then (-1 : K) else if n = b.n1 then 1 else 0)
        | none => .error .keyError : Except Err (List K))) cvals.keys
                  pure (List.zipWith (· ++ ·) rows (List.replicate cvals.keys.length (List.replicate N.nV (0 : K))))
                : Except Err (List (List K))) = ssDelta N cvals := by
    rw [key, hrow]; rfl
  rw [← key']
  cases hm : List.mapM (fun id => (if N.nodes.isEmpty then .ok [] else match N.get? id with
        | some b => .ok (N.nodes.map fun n => if n = b.n2 then (-1 : K) else if n = b.n1 then 1 else 0)
        | none => .error .keyError : Except Err (List K))) cvals.keys with
  | error e => rfl
  | ok rows =>
    show Except.ok _ = Except.ok _
    simp [Py.Mat.hstack, Py.Mat.zeros, ValDict.keys, Net.nN]

/-! ### `source_and_inductance_incidence_matrix` = (`ssQS`, `ssQL`) -/

theorem filterMap_length_le {α β : Type} (f : α → Option β) (l : List α) : (l.filterMap f).length ≤ l.length :=
  List.length_filterMap_le f l

theorem mapM_getidx {α : Type} [DecidableEq α] (m : Py.LabelMapping α) (l : List α) (g : Nat → Nat) :
    l.mapM (fun x => (do let k ← m.getitem x; pure (g k) : Except Err Nat))
      = if (l.filterMap fun x => (idxOf? x m.keys).map g).length = l.length
        then .ok (l.filterMap fun x => (idxOf? x m.keys).map g) else .error .keyError := by
  induction l with
  | nil => rfl
  | cons a l ih =>
    rw [List.mapM_cons, ih]
    unfold Py.LabelMapping.getitem
    cases hk : idxOf? a m.keys with
    | none =>
      have := filterMap_length_le (fun x => (idxOf? x m.keys).map g) l
      have hne : ¬ ((l.filterMap fun x => (idxOf? x m.keys).map g).length = l.length + 1) := by omega
      simp [List.filterMap_cons, hk, hne]; rfl
    | some k =>
      by_cases hl : (l.filterMap fun x => (idxOf? x m.keys).map g).length = l.length
      · simp [List.filterMap_cons, hk, hl]; rfl
      · simp [List.filterMap_cons, hk, hl]; rfl

theorem zipWith_append_replicate_right {α : Type} (l : List α) (a : α → List K) (z : List K) :
    List.zipWith (· ++ ·) (l.map a) (List.replicate l.length z) = l.map fun x => a x ++ z := by
  induction l with
  | nil => rfl
  | cons x l ih => simp [List.replicate_succ, ih]

theorem zipWith_append_replicate_left {α : Type} (l : List α) (a : α → List K) (z : List K) :
    List.zipWith (· ++ ·) (List.replicate l.length z) (l.map a) = l.map fun x => z ++ a x := by
  induction l with
  | nil => rfl
  | cons x l ih => simp [List.replicate_succ, ih]

theorem gen_Q_rows (N : Net L K) :
    (Py.Mat.vstack
      (Py.Mat.hstack (⟨N.nN, N.nC, N.nodes.map fun n => N.csSorted.map fun b => N.Qentry b n⟩ : Py.Mat K)
        (Py.Mat.zeros N.nN N.nV))
      (Py.Mat.hstack (Py.Mat.zeros N.nV N.nC) (Py.Mat.identity N.nV)))
      = ⟨N.nN + N.nV, N.nC + N.nV, ssQ N⟩ := by
  unfold Py.Mat.vstack Py.Mat.hstack Py.Mat.zeros Py.Mat.identity ssQ
  simp only [Py.Mat.mk.injEq, true_and]
  congr 1
  · have := zipWith_append_replicate_right N.nodes (fun n => N.csSorted.map fun b => N.Qentry b n) (List.replicate N.nV (0 : K))
    exact this
  · have h1 : (Mx.one N.nV : List (List K)) = (List.range N.nV).map fun i => (List.range N.nV).map fun k => if k = i then (1 : K) else 0 := by
      unfold Mx.one Mx.ofFn
      apply List.map_congr_left; intro i _
      apply List.map_congr_left; intro j _
      by_cases h : i = j <;> simp [h, eq_comm]
    rw [h1]
    have := zipWith_append_replicate_left (List.range N.nV) (fun i => (List.range N.nV).map fun k => if k = i then (1 : K) else 0)
      (List.replicate N.nC (0 : K))
    simpa using this

theorem gen_QSQL [LawfulLabelOrd L] (inv : Py.Mat K → Py.Mat K) (re : K → K) (N : Net L K) (hids : N.ids.Nodup)
    (lvals : ValDict K) :
    source_and_inductance_incidence_matrix inv re N lvals
      = if (ssColsL N lvals).length = lvals.length
        then .ok (⟨N.nY, (ssColsS N lvals).length, ssQS N lvals⟩, ⟨N.nY, (ssColsL N lvals).length, ssQL N lvals⟩)
        else .error .keyError := by
  have e1 := mapM_getidx (alphabetic_current_source_mapper N) (alphabetic_current_source_mapper N).keys (fun k => k)
  have e2 := mapM_getidx (alphabetic_voltage_source_mapper N)
    ((alphabetic_voltage_source_mapper N).keys.filter fun l => decide (l ∉ lvals.keys)) (fun k => N.nC + k)
  have e3 := mapM_getidx (alphabetic_voltage_source_mapper N) lvals.keys (fun k => N.nC + k)
  rw [gen_csIds N hids] at e1
  rw [gen_vsIds N hids] at e2 e3
  have l1 : (N.csIds.filterMap fun x => (idxOf? x N.csIds).map (fun k => k)).length = N.csIds.length := by
    simpa using filterMap_idx_length N.csIds N.csIds (fun a ha => ha)
  have l2 : ((N.vsIds.filter fun l => decide (l ∉ lvals.keys)).filterMap fun x => (idxOf? x N.vsIds).map (fun k => N.nC + k)).length
      = (N.vsIds.filter fun l => decide (l ∉ lvals.keys)).length :=
    filterMap_idx_map_length _ _ (fun a ha => (List.mem_filter.mp ha).1) _
  rw [if_pos l1] at e1
  rw [if_pos l2] at e2
  have hS : (N.csIds.filterMap fun x => (idxOf? x N.csIds).map (fun k => k))
      ++ ((N.vsIds.filter fun l => decide (l ∉ lvals.keys)).filterMap fun x => (idxOf? x N.vsIds).map (fun k => N.nC + k))
      = ssColsS N lvals := by
    unfold ssColsS
    congr 1
    · apply List.filterMap_congr; intro a _; simp
    · congr 1
      apply List.filter_congr; intro a _
      simp [ValDict.has, List.contains_iff_mem]
  have hLdef : (lvals.keys.filterMap fun x => (idxOf? x N.vsIds).map (fun k => N.nC + k)) = ssColsL N lvals := rfl
  rw [hLdef] at e3
  have hlen : lvals.keys.length = lvals.length := by simp [ValDict.keys]
  rw [hlen] at e3
  beta_reduce at e1 e2 e3
  have e1' : List.mapM (fun l => (alphabetic_current_source_mapper N).getitem l) N.csIds
      = .ok (N.csIds.filterMap fun x => (idxOf? x N.csIds).map (fun k => k)) := by
    rw [← e1]; congr 1; funext x; simp
  unfold source_and_inductance_incidence_matrix
  simp only [gen_Q_matrix N hids, gen_vsN N hids, gen_csN N hids, gen_csIds N hids, gen_vsIds N hids]
  by_cases hL : (ssColsL N lvals).length = lvals.length
  · rw [if_pos hL] at e3
    rw [if_pos hL]
    simp only [e1', e2, e3]
    show Except.ok _ = Except.ok _
    have hQ := gen_Q_rows N
    simp only [Net.nN, Net.nV, Net.nC, Py.Mat.zeros, Py.Mat.identity] at hQ
    simp only [Net.nC] at hS
    simp only [Py.Mat.zeros, Py.Mat.identity, Net.nV, Net.nC, Net.nN, hQ]
    rw [hS]
    rfl
  · rw [if_neg hL] at e3
    rw [if_neg hL]
    simp only [e1', e2, e3]
    rfl

/-! ### `value_matrix`, `invLambda` -/

theorem isShape_diag (d : List K) : IsShape (Py.Mat.diag d).rows d.length d.length := isShape_ofFn _ _ _

theorem diagOf_blockdiag (d1 d2 : List K) :
    Py.Mat.diagOf (Py.Mat.vstack (Py.Mat.hstack (Py.Mat.diag d1) (Py.Mat.zeros d1.length d2.length))
        (Py.Mat.hstack (Py.Mat.zeros d2.length d1.length) (Py.Mat.diag d2))) = d1 ++ d2 := by
  unfold Py.Mat.diagOf
  simp only [Py.Mat.vstack, Py.Mat.hstack, Py.Mat.zeros, Py.Mat.diag, Nat.min_self]
  have s1 := isShape_diag d1
  have s2 := isShape_diag d2
  have z1 := isShape_replicate (K := K) d1.length d2.length
  have z2 := isShape_replicate (K := K) d2.length d1.length
  simp only [Py.Mat.diag] at s1 s2
  apply List.ext_getElem
  · simp
  · intro i h1 h2
    simp only [List.length_map, List.length_range] at h1
    simp only [List.getElem_map, List.getElem_range]
    rw [get_append]
    have hlen : (List.zipWith (· ++ ·) (Mx.ofFn d1.length d1.length fun i j => if i = j then d1.getD i 0 else 0)
        (List.replicate d1.length (List.replicate d2.length (0 : K)))).length = d1.length := by
      simp [Mx.ofFn_length]
    rw [hlen]
    by_cases hi : i < d1.length
    · rw [if_pos hi, get_zipWith_append s1 z1 i i hi, if_pos hi, Mx.get_ofFn _ hi hi]
      simp [List.getElem_append_left hi, List.getD_eq_getElem?_getD, List.getElem?_eq_getElem hi]
    · rw [if_neg hi]
      have hi2 : i - d1.length < d2.length := by omega
      rw [get_zipWith_append z2 s2 (i - d1.length) i hi2, if_neg hi, Mx.get_ofFn _ hi2 hi2]
      have hge : d1.length ≤ i := by omega
      simp [List.getElem_append_right hge, List.getD_eq_getElem?_getD, List.getElem?_eq_getElem hi2]

theorem gen_Lambda (inv : Py.Mat K → Py.Mat K) (re : K → K) (N : Net L K) (cvals lvals : ValDict K) :
    Py.Mat.diagOf (value_matrix inv re N cvals lvals) = ssLambda cvals lvals := by
  unfold value_matrix ssLambda
  have := diagOf_blockdiag (cvals.vals.map fun c => -c) lvals.vals
  simp only [List.length_map, ValDict.vals] at this ⊢
  exact this

/-! ### products with `np.diag` -/

theorem sumTo_congr (n : Nat) (f g : Nat → K) (h : ∀ k, k < n → f k = g k) : Mx.sumTo n f = Mx.sumTo n g := by
  unfold Mx.sumTo
  congr 1
  apply List.map_congr_left
  intro k hk; exact h k (List.mem_range.mp hk)

theorem sumTo_ite (n i : Nat) (a : Nat → K) :
    Mx.sumTo n (fun k => if i = k then a k else 0) = if i < n then a i else 0 := by
  induction n with
  | zero => simp [Mx.sumTo]
  | succ n ih =>
    have : Mx.sumTo (n + 1) (fun k => if i = k then a k else 0)
        = Mx.sumTo n (fun k => if i = k then a k else 0) + (if i = n then a n else 0) := by
      simp [Mx.sumTo, List.range_succ]
    rw [this, ih]
    by_cases h1 : i < n
    · have : i ≠ n := by omega
      have h2 : i < n + 1 := by omega
      simp [h1, this, h2]
    · by_cases h3 : i = n
      · subst h3; simp
      · have h2 : ¬ i < n + 1 := by omega
        simp [h1, h3, h2]

theorem ofFn_congr (r c : Nat) (f g : Nat → Nat → K) (h : ∀ i j, i < r → j < c → f i j = g i j) :
    Mx.ofFn r c f = Mx.ofFn r c g := by
  unfold Mx.ofFn
  apply List.map_congr_left; intro i hi
  apply List.map_congr_left; intro j hj
  exact h i j (List.mem_range.mp hi) (List.mem_range.mp hj)

/-- `np.diag(d) @ S` is the model's `diagMul` -/
theorem mul_diag (n c : Nat) (d : List K) (hd : d.length = n) (S : List (List K)) :
    Mx.mul n n c (Py.Mat.diag d).rows S = Mx.diagMul n c d S := by
  subst hd
  unfold Mx.mul Mx.diagMul Py.Mat.diag
  apply ofFn_congr
  intro i j hi hj
  rw [sumTo_congr _ _ (fun k => if i = k then d.getD i 0 * Mx.get S k j else 0)]
  · rw [sumTo_ite, if_pos hi]
  · intro k hk
    rw [Mx.get_ofFn _ hi hk]
    by_cases h : i = k <;> simp [h]

/-- `(-np.diag(d)) @ X` is minus the model's `diagMul` -/
theorem mul_neg_diag (n c : Nat) (d : List K) (hd : d.length = n) (X : List (List K)) :
    Mx.mul n n c (Mx.neg n n (Py.Mat.diag d).rows) X = Mx.neg n c (Mx.diagMul n c d X) := by
  subst hd
  unfold Mx.mul Mx.neg Mx.diagMul Py.Mat.diag
  apply ofFn_congr
  intro i j hi hj
  rw [Mx.get_ofFn _ hi hj]
  rw [sumTo_congr _ _ (fun k => if i = k then -(d.getD i 0 * Mx.get X k j) else 0)]
  · rw [sumTo_ite, if_pos hi]
  · intro k hk
    rw [Mx.get_ofFn _ hi hk, Mx.get_ofFn _ hi hk]
    by_cases h : i = k <;> simp [h]

/-! ### `state_space_matrices` = `stateSpaceMatrices` -/

theorem T_rows (M : Py.Mat K) (h : M.rows.length = M.nrows) :
    M.T = ⟨M.ncols, M.nrows, Mx.transpose M.ncols M.nrows M.rows⟩ := by
  unfold Py.Mat.T
  rw [transpose_rows' M.rows M.nrows M.ncols h]

/-- the four matrices the generated code returns, for given `Delta` rows, in the model's terms -/
theorem gen_core_step (inv : Py.Mat K → Py.Mat K) (re : K → K) (N : Net L K) (cvals lvals : ValDict K)
    (hinv : ∀ M : Py.Mat K, (inv M).nrows = M.nrows ∧ (inv M).ncols = M.ncols)
    (Delta : List (List K)) (hD : Delta.length = cvals.length)
    (hL : (ssColsL N lvals).length = lvals.length) :
    let Dm : Py.Mat K := ⟨cvals.length, N.nN + N.nV, Delta⟩
    let At : Py.Mat K := Py.Mat.map re ⟨N.nodes.length + N.vsIds.length, N.nodes.length + N.vsIds.length, N.mnaA⟩
    let QS : Py.Mat K := ⟨N.nY, (ssColsS N lvals).length, ssQS N lvals⟩
    let QL : Py.Mat K := ⟨N.nY, (ssColsL N lvals).length, ssQL N lvals⟩
    let DQ := Py.Mat.hstack Dm.T QL
    let invLambda := Py.Mat.diag ((Py.Mat.diagOf (value_matrix inv re N cvals lvals)).map fun x => 1 / x)
    let Ai := inv At
    let T := Py.Mat.mul DQ.T Ai
    let S := inv (Py.Mat.mul T DQ)
    let A := Py.Mat.mul invLambda S
    let C := Py.Mat.mul T.T S
    let B := Py.Mat.mul (Py.Mat.mul (Py.Mat.neg invLambda) C.T) QS
    let D := Py.Mat.mul (Py.Mat.sub Ai (Py.Mat.mul T.T C.T)) QS
    let Ainv := (inv ⟨N.nY, N.nY, ssAtilde re N⟩).rows
    let ns := ssNStates N cvals lvals
    let Sr := (inv ⟨ns, ns, ssM N cvals lvals Delta Ainv⟩).rows
    let m := ssCore N.nY ns (ssNInputs N lvals) (ssInvLambda cvals lvals) (ssDQ N cvals lvals Delta) (ssQS N lvals) Ainv Sr
    (A, B, C, D) = ((⟨ns, ns, m.A⟩ : Py.Mat K), (⟨ns, ssNInputs N lvals, m.B⟩ : Py.Mat K),
                    (⟨N.nY, ns, m.C⟩ : Py.Mat K), (⟨N.nY, ssNInputs N lvals, m.D⟩ : Py.Mat K)) := by
  intro Dm At QS QL DQ invLambda Ai T S A C B D Ainv ns Sr m
  have hAi1 : Ai.nrows = N.nY := (hinv ⟨N.nY, N.nY, ssAtilde re N⟩).1
  have hAi2 : Ai.ncols = N.nY := (hinv ⟨N.nY, N.nY, ssAtilde re N⟩).2
  have hAir : Ai.rows = Ainv := rfl
  have hQSc : QS.ncols = ssNInputs N lvals := rfl
  have hQSr : QS.rows = ssQS N lvals := rfl
  have hDmT : Dm.T = ⟨N.nY, cvals.length, Mx.transpose N.nY cvals.length Delta⟩ := T_rows Dm hD
  have hDQ : DQ = ⟨N.nY, cvals.length + (ssColsL N lvals).length, ssDQ N cvals lvals Delta⟩ := by
    show Py.Mat.hstack Dm.T QL = _
    rw [hDmT]
    unfold Py.Mat.hstack ssDQ
    congr 1
    exact hstack_rows (isShape_ofFn _ _ _) (isShape_ofFn _ _ _)
  have hns : ns = cvals.length + (ssColsL N lvals).length := rfl
  have hDQT : DQ.T = ⟨ns, N.nY, Mx.transpose ns N.nY (ssDQ N cvals lvals Delta)⟩ := by
    rw [hDQ]; exact T_rows _ (Mx.ofFn_length _ _ _)
  have hT : T = ⟨ns, N.nY, Mx.mul ns N.nY N.nY (Mx.transpose ns N.nY (ssDQ N cvals lvals Delta)) Ainv⟩ := by
    show Py.Mat.mul DQ.T Ai = _
    rw [hDQT]
    unfold Py.Mat.mul
    rw [hAi2, hAir]
  have hM : Py.Mat.mul T DQ = ⟨ns, ns, ssM N cvals lvals Delta Ainv⟩ := by
    rw [hT, hDQ]; rfl
  have hS : S = inv ⟨ns, ns, ssM N cvals lvals Delta Ainv⟩ := by
    show inv (Py.Mat.mul T DQ) = _
    rw [hM]
  have hSc : S.ncols = ns := by rw [hS]; exact (hinv _).2
  have hSr : S.rows = Sr := by rw [hS]
  have hlam : (Py.Mat.diagOf (value_matrix inv re N cvals lvals)).map (fun x => 1 / x) = ssInvLambda cvals lvals := by
    rw [gen_Lambda]; rfl
  have hlen : (ssInvLambda cvals lvals).length = ns := by
    unfold ssInvLambda
    rw [List.length_map, ssLambda_length, hns, hL]
  have hIL : invLambda = Py.Mat.diag (ssInvLambda cvals lvals) := by
    show Py.Mat.diag _ = _
    rw [hlam]
  have hILn : (Py.Mat.diag (ssInvLambda cvals lvals)).nrows = ns := hlen
  have hILc : (Py.Mat.diag (ssInvLambda cvals lvals)).ncols = ns := hlen
  have hA : A = ⟨ns, ns, m.A⟩ := by
    show Py.Mat.mul invLambda S = _
    rw [hIL]
    unfold Py.Mat.mul
    rw [hILn, hILc, hSc, hSr, mul_diag ns ns (ssInvLambda cvals lvals) hlen Sr]
    rfl
  have hTT : T.T = ⟨N.nY, ns, Mx.transpose N.nY ns (Mx.mul ns N.nY N.nY (Mx.transpose ns N.nY (ssDQ N cvals lvals Delta)) Ainv)⟩ := by
    rw [hT]; exact T_rows _ (Mx.ofFn_length _ _ _)
  have hC : C = ⟨N.nY, ns, m.C⟩ := by
    show Py.Mat.mul T.T S = _
    rw [hTT]
    unfold Py.Mat.mul
    rw [hSc, hSr]
    rfl
  have hCT : C.T = ⟨ns, N.nY, Mx.transpose ns N.nY m.C⟩ := by
    rw [hC]; exact T_rows _ (Mx.ofFn_length _ _ _)
  have hB : B = ⟨ns, ssNInputs N lvals, m.B⟩ := by
    show Py.Mat.mul (Py.Mat.mul (Py.Mat.neg invLambda) C.T) QS = _
    rw [hIL, hCT]
    unfold Py.Mat.mul Py.Mat.neg
    rw [hILn, hILc, hQSc, hQSr, mul_neg_diag ns N.nY (ssInvLambda cvals lvals) hlen (Mx.transpose ns N.nY m.C)]
    rfl
  have hD' : D = ⟨N.nY, ssNInputs N lvals, m.D⟩ := by
    show Py.Mat.mul (Py.Mat.sub Ai (Py.Mat.mul T.T C.T)) QS = _
    rw [hTT, hCT]
    unfold Py.Mat.mul Py.Mat.sub
    rw [hAi1, hAi2, hAir, hQSc, hQSr]
    rfl
  rw [hA, hB, hC, hD']

theorem ssDelta_length {N : Net L K} {cvals : ValDict K} {Delta : List (List K)}
    (h : ssDelta N cvals = .ok Delta) : Delta.length = cvals.length := by
  have := mapM_length_ok _ _ h
  simpa [ValDict.keys] using this

/-- `state_space_matrices` (with `np.linalg.inv := inv`, `.real := re`) is the hand-written
`stateSpaceMatrices` fed with the two matrices `inv` returns, shapes included -/
theorem gen_state_space_matrices [LawfulLabelOrd L] (inv : Py.Mat K → Py.Mat K) (re : K → K) (N : Net L K)
    (hids : N.ids.Nodup) (cvals lvals : ValDict K)
    (hinv : ∀ M : Py.Mat K, (inv M).nrows = M.nrows ∧ (inv M).ncols = M.ncols) :
    state_space_matrices inv re N cvals lvals
      = (do let Delta ← ssDelta N cvals
            let Ainv := (inv ⟨N.nY, N.nY, ssAtilde re N⟩).rows
            let ns := ssNStates N cvals lvals
            let S := (inv ⟨ns, ns, ssM N cvals lvals Delta Ainv⟩).rows
            let m ← stateSpaceMatrices N cvals lvals Ainv S
            pure ((⟨ns, ns, m.A⟩ : Py.Mat K), (⟨ns, ssNInputs N lvals, m.B⟩ : Py.Mat K),
                  (⟨N.nY, ns, m.C⟩ : Py.Mat K), (⟨N.nY, ssNInputs N lvals, m.D⟩ : Py.Mat K))) := by
  unfold state_space_matrices stateSpaceMatrices
  rw [gen_Delta inv re N hids, gen_mnaA N hids, gen_QSQL inv re N hids]
  cases hD : ssDelta N cvals with
  | error e => rfl
  | ok Delta =>
    by_cases hL : (ssColsL N lvals).length = lvals.length
    · have hne : ¬ ((ssColsL N lvals).length ≠ lvals.length) := by simpa using hL
      have step := gen_core_step inv re N cvals lvals hinv Delta (ssDelta_length hD) hL
      rw [if_pos hL]
      simp only [if_neg hne]
      show Except.ok _ = Except.ok _
      congr 1
    · have hne : (ssColsL N lvals).length ≠ lvals.length := hL
      rw [if_neg hL]
      simp only [if_pos hne]
      rfl

/-! ### `NodalStateSpaceModel`: the object and its accessors -/

/-- the generated object `g` and the hand-written `m` describe the same model -/
structure SSRel (g : NodalStateSpaceModel L K) (m : NSSM L K) : Prop where
  hA : g.A.rows = m.mats.A
  hB : g.B.rows = m.mats.B
  hC : g.C.rows = m.mats.C
  hD : g.D.rows = m.mats.D
  net : g.network = m.net
  cv : g.c_values = m.cvals
  lv : g.l_values = m.lvals
  nm : g.node_index_mapping.keys = m.net.nodes
  vm : g.voltage_source_index_mapping.keys = m.net.vsIds
  cm : g.current_source_index_mapping.keys = m.net.csIds
  Cw : g.C.ncols = m.nStates
  Dw : g.D.ncols = m.nInputs
  Cr : m.net.nN ≤ m.mats.C.length
  Dr : m.net.nN ≤ m.mats.D.length

theorem rowSlice_one (M : Py.Mat K) (k : Nat) (h : k < M.rows.length) :
    Py.Mat.rowSlice M k (k + 1) = [M.rows.getD k []] := by
  unfold Py.Mat.rowSlice
  have : k + 1 - k = 1 := by omega
  rw [this, List.getD_eq_getElem?_getD, List.getElem?_eq_getElem h]
  rw [List.take_one, List.head?_drop, List.getElem?_eq_getElem h]
  rfl

theorem gen_row_for_potential (g : NodalStateSpaceModel L K) (m : NSSM L K) (node : L)
    (Mg : Py.Mat K) (M : List (List K)) (w : Nat)
    (hnm : g.node_index_mapping.keys = m.net.nodes) (hnet : g.network = m.net)
    (hM : Mg.rows = M) (hw : Mg.ncols = w) (hr : m.net.nN ≤ M.length) :
    NodalStateSpaceModel.row_for_potential g node Mg
      = (do let r ← m.rowForPotential node M w; pure (Py.Arr.mat [r]) : Except Err (Py.Arr K)) := by
  unfold NodalStateSpaceModel.row_for_potential NSSM.rowForPotential Py.LabelMapping.getitem
  rw [hnm, hnet]
  cases hk : idxOf? node m.net.nodes with
  | some k =>
    have hmem : node ∈ m.net.nodes := by
      by_contra hc; rw [(idxOf?_eq_none_iff' node m.net.nodes).mpr hc] at hk; simp at hk
    have hlt : k < Mg.rows.length := by
      have := idxOf?_lt_length hk
      rw [hM]; unfold Net.nN at hr; omega
    simp only [hmem, if_true]
    show Except.ok _ = Except.ok _
    rw [rowSlice_one Mg k hlt, hM]
  | none =>
    have hmem : node ∉ m.net.nodes := (idxOf?_eq_none_iff' node m.net.nodes).mp hk
    simp only [hmem, if_false]
    by_cases hz : node = m.net.zero
    · simp only [hz, ne_eq, not_true_eq_false, if_false]
      show Except.ok _ = Except.ok _
      simp [Py.Mat.zeros, Mx.zeroVec, hw]
    · simp only [ne_eq, hz, not_false_eq_true, if_true]
      rfl

theorem gen_c_row_potential {g : NodalStateSpaceModel L K} {m : NSSM L K} (h : SSRel g m) (node : L) :
    NodalStateSpaceModel.c_row_for_potential g node
      = (do let r ← m.cRowPotential node; pure (Py.Arr.mat [r]) : Except Err (Py.Arr K)) := by
  unfold NodalStateSpaceModel.c_row_for_potential NSSM.cRowPotential
  rw [gen_row_for_potential g m node g.C m.mats.C m.nStates h.nm h.net h.hC h.Cw h.Cr]

theorem gen_d_row_potential {g : NodalStateSpaceModel L K} {m : NSSM L K} (h : SSRel g m) (node : L) :
    NodalStateSpaceModel.d_row_for_potential g node
      = (do let r ← m.dRowPotential node; pure (Py.Arr.mat [r]) : Except Err (Py.Arr K)) := by
  unfold NodalStateSpaceModel.d_row_for_potential NSSM.dRowPotential
  rw [gen_row_for_potential g m node g.D m.mats.D m.nInputs h.nm h.net h.hD h.Dw h.Dr]

theorem gen_c_row_voltage {g : NodalStateSpaceModel L K} {m : NSSM L K} (h : SSRel g m) (id : String) :
    NodalStateSpaceModel.c_row_voltage g id
      = (do let r ← m.cRowVoltage id; pure (Py.Arr.mat [r]) : Except Err (Py.Arr K)) := by
  unfold NodalStateSpaceModel.c_row_voltage NSSM.cRowVoltage
  rw [h.net, gen_getitem]
  cases m.net.get? id with
  | none => rfl
  | some b =>
    show (do let r2 ← NodalStateSpaceModel.c_row_for_potential g b.n1
             let r3 ← NodalStateSpaceModel.c_row_for_potential g b.n2
             pure (Py.Arr.sub r2 r3) : Except Err (Py.Arr K))
        = (do let r ← (do let p ← m.cRowPotential b.n1
                          let q ← m.cRowPotential b.n2
                          pure (Mx.vecSub p q) : Except Err (List K))
              pure (Py.Arr.mat [r]))
    rw [gen_c_row_potential h, gen_c_row_potential h]
    cases m.cRowPotential b.n1 with
    | error e => rfl
    | ok p =>
      cases m.cRowPotential b.n2 with
      | error e => rfl
      | ok q => rfl

theorem gen_d_row_voltage {g : NodalStateSpaceModel L K} {m : NSSM L K} (h : SSRel g m) (id : String) :
    NodalStateSpaceModel.d_row_voltage g id
      = (do let r ← m.dRowVoltage id; pure (Py.Arr.mat [r]) : Except Err (Py.Arr K)) := by
  unfold NodalStateSpaceModel.d_row_voltage NSSM.dRowVoltage
  rw [h.net, gen_getitem]
  cases m.net.get? id with
  | none => rfl
  | some b =>
    show (do let r2 ← NodalStateSpaceModel.d_row_for_potential g b.n1
             let r3 ← NodalStateSpaceModel.d_row_for_potential g b.n2
             pure (Py.Arr.sub r2 r3) : Except Err (Py.Arr K))
        = (do let r ← (do let p ← m.dRowPotential b.n1
                          let q ← m.dRowPotential b.n2
                          pure (Mx.vecSub p q) : Except Err (List K))
              pure (Py.Arr.mat [r]))
    rw [gen_d_row_potential h, gen_d_row_potential h]
    cases m.dRowPotential b.n1 with
    | error e => rfl
    | ok p =>
      cases m.dRowPotential b.n2 with
      | error e => rfl
      | ok q => rfl

/-! ### current accessors -/

theorem keyIndex_some {d : ValDict K} {id : String} {k : Nat} (h : idxOf? id d.keys = some k) :
    Py.keyIndex d id = .ok k := by
  unfold Py.keyIndex; unfold ValDict.keys at h; rw [h]

theorem dictItem_of_idx {d : ValDict K} {id : String} {k : Nat} (h : idxOf? id d.keys = some k) :
    Py.dictItem d id = .ok (d.vals.getD k 0) := by
  induction d generalizing k with
  | nil => simp [ValDict.keys, idxOf?] at h
  | cons p d ih =>
    unfold Py.dictItem
    simp only [ValDict.keys, List.map_cons, idxOf?] at h
    by_cases hp : p.1 = id
    · simp only [hp, if_true, Option.some.injEq] at h
      subst h
      simp [List.find?_cons, hp, ValDict.vals]
    · simp only [hp, if_false, Option.map_eq_some_iff] at h
      obtain ⟨j, hj, rfl⟩ := h
      have := ih (k := j) hj
      unfold Py.dictItem at this
      simp only [List.find?_cons, hp, decide_false] 
      simp only [ValDict.vals, List.map_cons, List.getD_cons_succ] at this ⊢
      exact this

theorem getitem_some {α : Type} [DecidableEq α] {m : Py.LabelMapping α} {l : List α} (hm : m.keys = l)
    {a : α} {k : Nat} (h : idxOf? a l = some k) : m.getitem a = .ok k := by
  unfold Py.LabelMapping.getitem; rw [hm, h]

theorem mem_of_idx {α : Type} [DecidableEq α] {a : α} {l : List α} {k : Nat} (h : idxOf? a l = some k) : a ∈ l := by
  by_contra hc; rw [(idxOf?_eq_none_iff' a l).mpr hc] at h; simp at h

theorem divX_mat (e : Elem K) (r : List K) :
    Py.Arr.divX (Py.Arr.mat [r]) (Gen.Core.Elem.Z e) = Py.Arr.mat [divByZ e r] := by
  cases e with
  | norton Z V => simp [Py.Arr.divX, Gen.Core.Elem.Z, divByZ]
  | thevenin Y I =>
    by_cases h : Y = 0 <;> simp [Py.Arr.divX, Gen.Core.Elem.Z, TheveninElement.Z, divByZ, h]

theorem vecSet_zeros (n k : Nat) :
    Py.vecSet (Py.zerosVec n : List K) k 1
      = if k < n then .ok ((List.range n).map fun t => if t = k then (1 : K) else 0) else .error .keyError := by
  unfold Py.vecSet Py.zerosVec
  simp only [List.length_replicate]
  by_cases h : k < n
  · simp only [h, if_true]
    congr 1
    apply List.ext_getElem
    · simp
    · intro i h1 h2
      simp only [List.length_set, List.length_replicate] at h1
      by_cases hik : i = k
      · subst hik; simp
      · simp [List.getElem_set, hik, Ne.symm hik]
  · simp [h]

theorem vsIds_get (N : Net L K) (hids : N.ids.Nodup) {id : String} (h : id ∈ N.vsIds) :
    ∃ b, N.get? id = some b ∧ b.e.isIdealVS = true := by
  have := mem_sortL.mp h
  obtain ⟨b, hb, rfl⟩ := List.mem_map.mp this
  have hm := List.mem_filter.mp hb
  exact ⟨b, get?_of_mem N hids hm.1, hm.2⟩

theorem vs_filter_all {g : NodalStateSpaceModel L K} {m : NSSM L K} (h : SSRel g m) (hids : m.net.ids.Nodup) :
    (g.voltage_source_index_mapping).filterM (fun (x : String) => (do
        let b11 ← Network.getitem g.network x
        pure (is_ideal_voltage_source b11.e) : Except Err Bool)) = .ok g.voltage_source_index_mapping := by
  unfold Py.LabelMapping.filterM
  rw [filterKeysM_all _ _ ?_]
  · rfl
  · intro k hk
    rw [h.vm] at hk
    obtain ⟨b, hb, hv⟩ := vsIds_get m.net hids hk
    rw [h.net, gen_getitem, hb]
    show Except.ok _ = Except.ok _
    rw [gen_isIdealVS, hv]

theorem gen_c_row_current {g : NodalStateSpaceModel L K} {m : NSSM L K} (h : SSRel g m) (hids : m.net.ids.Nodup)
    (id : String) :
    (do let a ← NodalStateSpaceModel.c_row_current g id; pure a.toRows : Except Err (List (List K)))
      = (do let r ← m.cRowCurrent id; pure [r]) := by
  unfold NodalStateSpaceModel.c_row_current NSSM.cRowCurrent
  rw [vs_filter_all h hids]
  simp only [h.cv, h.vm, h.cm, h.net]
  cases h1 : idxOf? id m.cvals.keys with
  | some k =>
    simp only [mem_of_idx h1, if_true, keyIndex_some h1, dictItem_of_idx h1]
    show Except.ok _ = Except.ok _
    simp [Py.Arr.toRows, Py.Mat.row, Py.vecScale, Mx.vecScale, h.hA]
  | none =>
    have hn1 : id ∉ m.cvals.keys := (idxOf?_eq_none_iff' _ _).mp h1
    simp only [hn1, if_false]
    cases h2 : idxOf? id m.net.vsIds with
    | some k =>
      simp only [mem_of_idx h2, if_true]
      show (do let a ← (do let k4 ← g.voltage_source_index_mapping.getitem id
                           pure (Py.Arr.vec (g.C.row (k4 + g.node_index_mapping.N))) : Except Err (Py.Arr K))
               pure a.toRows : Except Err (List (List K))) = _
      rw [getitem_some h.vm h2]
      show Except.ok _ = Except.ok _
      simp [Py.Arr.toRows, Py.Mat.row, h.hC, Py.LabelMapping.N, h.nm, Net.nN]
    | none =>
      have hn2 : id ∉ m.net.vsIds := (idxOf?_eq_none_iff' _ _).mp h2
      simp only [hn2, if_false]
      by_cases h3 : id ∈ m.net.csIds
      · have h3' : m.net.csIds.contains id = true := List.contains_iff_mem.mpr h3
        simp only [h3, h3', if_true]
        show Except.ok _ = Except.ok _
        simp [Py.Arr.toRows, Py.zerosVec, Mx.zeroVec, h.Cw]
      · have h3' : ¬ (m.net.csIds.contains id = true) := fun hc => h3 (List.contains_iff_mem.mp hc)
        simp only [h3, h3', if_false]
        rw [gen_getitem]
        cases m.net.get? id with
        | none => rfl
        | some b =>
          show (do let a ← (do let r6 ← NodalStateSpaceModel.c_row_for_potential g b.n1
                               let r7 ← NodalStateSpaceModel.c_row_for_potential g b.n2
                               pure (Py.Arr.divX (Py.Arr.sub r6 r7) (Gen.Core.Elem.Z b.e)) : Except Err (Py.Arr K))
                   pure a.toRows : Except Err (List (List K)))
              = (do let r ← (do let p ← m.cRowPotential b.n1
                                let q ← m.cRowPotential b.n2
                                pure (divByZ b.e (Mx.vecSub p q)) : Except Err (List K))
                    pure [r])
          rw [gen_c_row_potential h, gen_c_row_potential h]
          cases m.cRowPotential b.n1 with
          | error e => rfl
          | ok p =>
            cases m.cRowPotential b.n2 with
            | error e => rfl
            | ok q =>
              show Except.ok _ = Except.ok _
              have := divX_mat b.e (Mx.vecSub p q)
              simp only [Py.Arr.sub, Mx.vecSub] at this ⊢
              simp [this, Py.Arr.toRows]

theorem gen_d_row_current {g : NodalStateSpaceModel L K} {m : NSSM L K} (h : SSRel g m) (id : String) :
    (do let a ← NodalStateSpaceModel.d_row_current g id; pure a.toRows : Except Err (List (List K)))
      = (do let r ← m.dRowCurrent id; pure [r]) := by
  unfold NodalStateSpaceModel.d_row_current NSSM.dRowCurrent
  simp only [h.cv, h.vm, h.cm, h.net]
  cases h1 : idxOf? id m.cvals.keys with
  | some k =>
    simp only [mem_of_idx h1, if_true, keyIndex_some h1, dictItem_of_idx h1]
    show Except.ok _ = Except.ok _
    simp [Py.Arr.toRows, Py.Mat.row, Py.vecScale, Mx.vecScale, h.hB]
  | none =>
    have hn1 : id ∉ m.cvals.keys := (idxOf?_eq_none_iff' _ _).mp h1
    simp only [hn1, if_false]
    cases h2 : idxOf? id m.net.vsIds with
    | some k =>
      simp only [mem_of_idx h2, if_true, getitem_some h.vm h2]
      show Except.ok _ = Except.ok _
      simp [Py.Arr.toRows, Py.Mat.row, h.hD, Py.LabelMapping.N, h.nm, Net.nN]
    | none =>
      have hn2 : id ∉ m.net.vsIds := (idxOf?_eq_none_iff' _ _).mp h2
      simp only [hn2, if_false]
      cases h3 : idxOf? id m.net.csIds with
      | some k =>
        simp only [mem_of_idx h3, if_true]
        show (do let a ← (do let k4 ← g.current_source_index_mapping.getitem id
                             let d_row ← Py.vecSet (Py.zerosVec g.D.ncols) k4 1
                             pure (Py.Arr.vec d_row) : Except Err (Py.Arr K))
                 pure a.toRows : Except Err (List (List K))) = _
        rw [getitem_some h.cm h3]
        show (do let a ← (do let d_row ← Py.vecSet (Py.zerosVec g.D.ncols) k 1
                             pure (Py.Arr.vec d_row) : Except Err (Py.Arr K))
                 pure a.toRows : Except Err (List (List K))) = _
        rw [vecSet_zeros, h.Dw]
        by_cases hk : k < m.nInputs
        · simp only [hk, if_true]; rfl
        · simp only [hk, if_false]; rfl
      | none =>
        have hn3 : id ∉ m.net.csIds := (idxOf?_eq_none_iff' _ _).mp h3
        simp only [hn3, if_false]
        rw [gen_getitem]
        cases m.net.get? id with
        | none => rfl
        | some b =>
          show (do let a ← (do let r6 ← NodalStateSpaceModel.d_row_for_potential g b.n1
                               let r7 ← NodalStateSpaceModel.d_row_for_potential g b.n2
                               pure (Py.Arr.divX (Py.Arr.sub r6 r7) (Gen.Core.Elem.Z b.e)) : Except Err (Py.Arr K))
                   pure a.toRows : Except Err (List (List K)))
              = (do let r ← (do let p ← m.dRowPotential b.n1
                                let q ← m.dRowPotential b.n2
                                pure (divByZ b.e (Mx.vecSub p q)) : Except Err (List K))
                    pure [r])
          rw [gen_d_row_potential h, gen_d_row_potential h]
          cases m.dRowPotential b.n1 with
          | error e => rfl
          | ok p =>
            cases m.dRowPotential b.n2 with
            | error e => rfl
            | ok q =>
              show Except.ok _ = Except.ok _
              have := divX_mat b.e (Mx.vecSub p q)
              simp only [Py.Arr.sub, Mx.vecSub] at this ⊢
              simp [this, Py.Arr.toRows]

theorem gen_sources {g : NodalStateSpaceModel L K} {m : NSSM L K} (h : SSRel g m) :
    NodalStateSpaceModel.sources g = m.sources := by
  unfold NodalStateSpaceModel.sources NSSM.sources ssSources
  rw [h.cm, h.vm, h.lv]
  show m.net.csIds ++ List.filter (fun vs => decide (vs ∉ m.lvals.keys)) m.net.vsIds = _
  congr 1
  apply List.filter_congr; intro a _
  simp [ValDict.has, List.contains_iff_mem]

/-! ### `nodal_state_space_model` -/

/-- the generated object corresponding to the model's matrices -/
def ssToGen (N : Net L K) (cvals lvals : ValDict K) (mats : SSMats K) : NodalStateSpaceModel L K :=
  { A := ⟨ssNStates N cvals lvals, ssNStates N cvals lvals, mats.A⟩,
    B := ⟨ssNStates N cvals lvals, ssNInputs N lvals, mats.B⟩,
    C := ⟨N.nY, ssNStates N cvals lvals, mats.C⟩,
    D := ⟨N.nY, ssNInputs N lvals, mats.D⟩,
    network := N, c_values := cvals, l_values := lvals,
    node_index_mapping := alphabetic_node_mapper N,
    voltage_source_index_mapping := alphabetic_voltage_source_mapper N,
    current_source_index_mapping := alphabetic_current_source_mapper N }

theorem gen_nodal_state_space_model [LawfulLabelOrd L] (inv : Py.Mat K → Py.Mat K) (re : K → K) (N : Net L K)
    (hids : N.ids.Nodup) (cvals lvals : ValDict K)
    (hinv : ∀ M : Py.Mat K, (inv M).nrows = M.nrows ∧ (inv M).ncols = M.ncols) :
    nodal_state_space_model inv re N cvals lvals
      = (do let Delta ← ssDelta N cvals
            let Ainv := (inv ⟨N.nY, N.nY, ssAtilde re N⟩).rows
            let S := (inv ⟨ssNStates N cvals lvals, ssNStates N cvals lvals, ssM N cvals lvals Delta Ainv⟩).rows
            let m ← nodalStateSpaceModel N cvals lvals Ainv S
            pure (ssToGen N cvals lvals m.mats)) := by
  unfold nodal_state_space_model nodalStateSpaceModel
  rw [gen_state_space_matrices inv re N hids cvals lvals hinv]
  simp only [bind_assoc, pure_bind]
  apply bind_congr; intro Delta
  apply bind_congr; intro mats
  rfl

theorem ssRel_toGen [LawfulLabelOrd L] (N : Net L K) (hids : N.ids.Nodup) (cvals lvals : ValDict K)
    (Ainv S : List (List K)) (mats : SSMats K) (hm : stateSpaceMatrices N cvals lvals Ainv S = .ok mats) :
    SSRel (ssToGen N cvals lvals mats) ⟨mats, N, cvals, lvals⟩ := by
  obtain ⟨⟨hAl, _⟩, _, ⟨hCl, _⟩, ⟨hDl, _⟩⟩ := model_dims hm
  have hL := (stateSpaceMatrices_ok hm).choose_spec.2.1
  refine ⟨rfl, rfl, rfl, rfl, rfl, rfl, rfl, gen_nodes N, gen_vsIds N hids, gen_csIds N hids, ?_, rfl, ?_, ?_⟩
  · show ssNStates N cvals lvals = mats.A.length
    rw [hAl]; unfold ssNStates; rw [hL]
  · show N.nN ≤ mats.C.length
    rw [hCl]; unfold Net.nY; omega
  · show N.nN ≤ mats.D.length
    rw [hDl]; unfold Net.nY; omega

/-! ### the circuit-level wrapper, the container, the value dictionaries -/

theorem foldlM_vstack {α : Type} (f : α → Except Err (Py.Arr K)) (hrow : α → Except Err (List K))
    (hf : ∀ x, (do let a ← f x; pure a.toRows : Except Err (List (List K))) = (do let r ← hrow x; pure [r]))
    (l : List α) (acc0 : List (List K)) :
    l.foldlM (fun (acc : List (List K)) (x : α) => (do let r ← f x; pure (Py.vstackArr acc r) : Except Err (List (List K)))) acc0
      = (do let rs ← l.mapM hrow; pure (acc0 ++ rs)) := by
  induction l generalizing acc0 with
  | nil => simp [List.foldlM_nil, List.mapM_nil]
  | cons a l ih =>
    rw [List.foldlM_cons, List.mapM_cons]
    have := hf a
    cases hfa : f a with
    | error e =>
      cases hha : hrow a with
      | error e' => rw [hfa, hha] at this; cases this; rfl
      | ok r => rw [hfa, hha] at this; cases this
    | ok arr =>
      cases hha : hrow a with
      | error e' => rw [hfa, hha] at this; cases this
      | ok r =>
        rw [hfa, hha] at this
        have hr : arr.toRows = [r] := by
          have h2 : (Except.ok arr.toRows : Except Err (List (List K))) = Except.ok [r] := this
          exact Except.ok.inj h2
        show List.foldlM _ (Py.vstackArr acc0 arr) l = _
        rw [ih, Py.vstackArr, hr]
        cases List.mapM hrow l with
        | error e => rfl
        | ok rs => show Except.ok _ = Except.ok _; simp

theorem rows_of_mat {f : Except Err (Py.Arr K)} {h : Except Err (List K)}
    (e : f = (do let r ← h; pure (Py.Arr.mat [r]))) :
    (do let a ← f; pure a.toRows : Except Err (List (List K))) = (do let r ← h; pure [r]) := by
  rw [e]; cases h <;> rfl

theorem gen_circuit_model {g : NodalStateSpaceModel L K} {m : NSSM L K} (h : SSRel g m) (hids : m.net.ids.Nodup)
    (pots : List L) (volts curs : List String) :
    circuit_state_space_model g pots volts curs
      = (do let r ← m.circuitModel pots volts curs; pure (g.A, g.B, r.C, r.D)) := by
  unfold circuit_state_space_model NSSM.circuitModel NSSM.stackC NSSM.stackD
  simp only [foldlM_vstack _ _ (fun x => rows_of_mat (gen_c_row_potential h x)),
    foldlM_vstack _ _ (fun x => rows_of_mat (gen_c_row_voltage h x)),
    foldlM_vstack _ _ (fun x => gen_c_row_current h hids x),
    foldlM_vstack _ _ (fun x => rows_of_mat (gen_d_row_potential h x)),
    foldlM_vstack _ _ (fun x => rows_of_mat (gen_d_row_voltage h x)),
    foldlM_vstack _ _ (fun x => gen_d_row_current h x)]
  cases pots.mapM m.cRowPotential with
  | error e => rfl
  | ok p =>
    cases volts.mapM m.cRowVoltage with
    | error e => rfl
    | ok v =>
      cases curs.mapM m.cRowCurrent with
      | error e => rfl
      | ok c =>
        cases pots.mapM m.dRowPotential with
        | error e => rfl
        | ok p' =>
          cases volts.mapM m.dRowVoltage with
          | error e => rfl
          | ok v' =>
            cases curs.mapM m.dRowCurrent with
            | error e => rfl
            | ok c' => show Except.ok _ = Except.ok _; simp

theorem gen_container (a b c d : Nat × Nat) : container_post_init a b c d = containerCheck a b c d := by
  unfold container_post_init containerCheck
  split_ifs <;> rfl

theorem gen_circuit_values (comps : List (String × String × (String → K))) :
    circuit_c_values comps = reactiveValues (comps.map fun c => (c.1, c.2.1, c.2.2 "C")) "capacitor"
    ∧ circuit_l_values comps = reactiveValues (comps.map fun c => (c.1, c.2.1, c.2.2 "L")) "inductance" := by
  unfold circuit_c_values circuit_l_values reactiveValues
  constructor <;> simp [List.filter_map, List.map_map, Function.comp_def]

end CC
