/-
  CC.Proofs.DrawDeclarative — the declarative front end hands the *whole* description
  (`type`, `direction`, `length`, `place_after` included) to the symbol constructor
  (`element_factory(elm.X, **kwargs)`).  For every handler class and all values: these four
  keys do not reach any circuit-relevant attribute — the constructed symbol is the one the
  programmatic call `elm.X(<values>, name=…, reverse=…)` builds.  Evaluated symbolically on
  the interpretive model over the generated class table.
-/
import CC.Model.DrawIO
set_option linter.unusedSimpArgs false
set_option linter.unusedVariables false
namespace CC.Draw

/-- constructor call of the declarative path vs. the programmatic call -/
def DeclSame (π : Rat) (cls : String) (vals : List (String × Val)) (tv dv lv pv : Val) : Prop :=
  construct π cls (("type", tv) :: vals ++ [("direction", dv), ("length", lv), ("place_after", pv)]) = construct π cls vals

section
attribute [local simp] DeclSame construct classInfo Gen.elemClasses classChain bindParams evalF evalP
    lookupD truthy dictSet List.lookup List.find? negVal bind Except.bind pure Except.pure List.foldlM
    Functor.map Except.map throw throwThe MonadExceptOf.throw

set_option maxRecDepth 8000
set_option maxHeartbeats 400000

theorem decl_Resistor (π : Rat) (r s t : Val) (name : String) (rev : Bool) (tv dv lv pv : Val) :
    DeclSame π "Resistor" [("R", r), ("name", .str name), ("reverse", .bool rev)] tv dv lv pv := by
  cases rev <;> simp

theorem decl_Conductance (π : Rat) (r s t : Val) (name : String) (rev : Bool) (tv dv lv pv : Val) :
    DeclSame π "Conductance" [("G", r), ("name", .str name), ("reverse", .bool rev)] tv dv lv pv := by
  cases rev <;> simp

theorem decl_Impedance (π : Rat) (r s t : Val) (name : String) (rev : Bool) (tv dv lv pv : Val) :
    DeclSame π "Impedance" [("Z", r), ("name", .str name), ("reverse", .bool rev)] tv dv lv pv := by
  cases rev <;> simp

theorem decl_Admittance (π : Rat) (r s t : Val) (name : String) (rev : Bool) (tv dv lv pv : Val) :
    DeclSame π "Admittance" [("Y", r), ("name", .str name), ("reverse", .bool rev)] tv dv lv pv := by
  cases rev <;> simp

theorem decl_Capacitor (π : Rat) (r s t : Val) (name : String) (rev : Bool) (tv dv lv pv : Val) :
    DeclSame π "Capacitor" [("C", r), ("name", .str name), ("reverse", .bool rev)] tv dv lv pv := by
  cases rev <;> simp

theorem decl_Inductance (π : Rat) (r s t : Val) (name : String) (rev : Bool) (tv dv lv pv : Val) :
    DeclSame π "Inductance" [("L", r), ("name", .str name), ("reverse", .bool rev)] tv dv lv pv := by
  cases rev <;> simp

theorem decl_Lamp (π : Rat) (r s t : Val) (name : String) (rev : Bool) (tv dv lv pv : Val) :
    DeclSame π "Lamp" [("V_ref", r), ("P_ref", s), ("name", .str name), ("reverse", .bool rev)] tv dv lv pv := by
  cases rev <;> simp

theorem decl_VoltageSource (π : Rat) (r s t : Val) (name : String) (rev : Bool) (tv dv lv pv : Val) :
    DeclSame π "VoltageSource" [("V", r), ("name", .str name), ("reverse", .bool rev)] tv dv lv pv := by
  cases rev <;> simp

theorem decl_CurrentSource (π : Rat) (r s t : Val) (name : String) (rev : Bool) (tv dv lv pv : Val) :
    DeclSame π "CurrentSource" [("I", r), ("name", .str name), ("reverse", .bool rev)] tv dv lv pv := by
  cases rev <;> simp

theorem decl_ComplexVoltageSource (π : Rat) (r s t : Val) (name : String) (rev : Bool) (tv dv lv pv : Val) :
    DeclSame π "ComplexVoltageSource" [("V", r), ("name", .str name), ("reverse", .bool rev)] tv dv lv pv := by
  cases rev <;> simp

theorem decl_ComplexCurrentSource (π : Rat) (r s t : Val) (name : String) (rev : Bool) (tv dv lv pv : Val) :
    DeclSame π "ComplexCurrentSource" [("I", r), ("name", .str name), ("reverse", .bool rev)] tv dv lv pv := by
  cases rev <;> simp

theorem decl_ACVoltageSource (π : Rat) (r s t : Val) (name : String) (rev : Bool) (tv dv lv pv : Val) :
    DeclSame π "ACVoltageSource" [("V", r), ("w", s), ("phi", t), ("name", .str name), ("reverse", .bool rev)] tv dv lv pv := by
  cases rev <;> simp

theorem decl_ACCurrentSource (π : Rat) (r s t : Val) (name : String) (rev : Bool) (tv dv lv pv : Val) :
    DeclSame π "ACCurrentSource" [("I", r), ("w", s), ("phi", t), ("name", .str name), ("reverse", .bool rev)] tv dv lv pv := by
  cases rev <;> simp

theorem decl_LabeledLine (π : Rat) (r s t : Val) (name : String) (rev : Bool) (tv dv lv pv : Val) :
    DeclSame π "LabeledLine" [("name", .str name), ("reverse", .bool rev)] tv dv lv pv := by
  cases rev <;> simp

theorem decl_Line (π : Rat) (r s t : Val) (name : String) (rev : Bool) (tv dv lv pv : Val) :
    DeclSame π "Line" [("name", .str name), ("reverse", .bool rev)] tv dv lv pv := by
  cases rev <;> simp

theorem decl_Node (π : Rat) (r s t : Val) (name : String) (rev : Bool) (tv dv lv pv : Val) :
    DeclSame π "Node" [("name", .str name), ("reverse", .bool rev)] tv dv lv pv := by
  cases rev <;> simp

theorem decl_Ground (π : Rat) (r s t : Val) (name : String) (rev : Bool) (tv dv lv pv : Val) :
    DeclSame π "Ground" [("name", .str name), ("reverse", .bool rev)] tv dv lv pv := by
  cases rev <;> simp

end

/-- every handler class is covered by one of the lemmas above -/
def declFrameClasses : List String :=
  ["Resistor", "Conductance", "Impedance", "Admittance", "Capacitor", "Inductance", "Lamp", "VoltageSource",
   "CurrentSource", "ComplexVoltageSource", "ComplexCurrentSource", "ACVoltageSource", "ACCurrentSource",
   "LabeledLine", "Line", "Node", "Ground"]

end CC.Draw
