/-
  CC.Proofs.C19Load — helper lemmas for Properties/C19More.lean: the loader model of CC/Model/Load.lean
  (`entryToBranchObj`, `loadEntries`, `loadNetwork`) on faulty entries.  Mathlib-free.
-/
import CC.Properties.C17
set_option linter.unusedSimpArgs false
namespace CC.Load
open CC.Gen.Load

theorem Obj.find_del_none (o : Obj) (k p : String) (h : Obj.find o p = none) : Obj.find (Obj.del o k) p = none := by
  by_cases hp : p = k
  · subst hp; exact Obj.find_del_self o p
  · rw [Obj.find_del_ne o k p hp]; exact h

/-- what is left of an entry after the four reads of `entry_to_branch` -/
def stripped (o : Obj) (id : J) : Obj :=
  Obj.del (Obj.put (Obj.del (Obj.del (Obj.del o "N1") "N2") "id") "name" id) "type"

theorem entryReads_eq : entryRead "n1" = ("N1", .pop) ∧ entryRead "n2" = ("N2", .pop) ∧
    entryRead "name" = ("id", .pop) ∧ entryRead "type" = ("type", .pop) := by decide

/-- the outcome of `entry_to_branch` on a dictionary that has its four structural keys -/
def dispatch (T : Trig) (n1 n2 ty : J) (kw : Obj) : Except Err LBranch :=
  match ty with
  | .str kind =>
    match networkBranchTranslators.find? (fun L => L.kind == kind) with
    | none => .error .keyError
    | some L => applyLoader T L n1 n2 kw
  | .arr _ => .error .typeError
  | .obj _ => .error .typeError
  | _ => .error .keyError

theorem entryToBranchObj_eq (T : Trig) (o : Obj) (n1 n2 id ty : J)
    (h1 : Obj.find o "N1" = some n1) (h2 : Obj.find o "N2" = some n2) (h3 : Obj.find o "id" = some id)
    (h4 : Obj.find o "type" = some ty) :
    (entryToBranchObj T o).1 = dispatch T n1 n2 ty (stripped o id) := by
  have h2' : Obj.find (Obj.del o "N1") "N2" = some n2 := by
    rw [Obj.find_del_ne _ _ _ (by decide)]; exact h2
  have h3' : Obj.find (Obj.del (Obj.del o "N1") "N2") "id" = some id := by
    rw [Obj.find_del_ne _ _ _ (by decide), Obj.find_del_ne _ _ _ (by decide)]; exact h3
  have h4' : Obj.find (Obj.put (Obj.del (Obj.del (Obj.del o "N1") "N2") "id") "name" id) "type" = some ty := by
    rw [Obj.find_put_ne _ _ _ _ (by decide), Obj.find_del_ne _ _ _ (by decide), Obj.find_del_ne _ _ _ (by decide),
      Obj.find_del_ne _ _ _ (by decide)]; exact h4
  obtain ⟨e1, e2, e3, e4⟩ := entryReads_eq
  unfold entryToBranchObj
  simp only [e1, e2, e3, e4, Obj.read, h1, h2', h3', h4']
  unfold dispatch stripped
  cases ty <;> simp only []
  rename_i kind
  cases networkBranchTranslators.find? (fun L => L.kind == kind) <;> rfl

theorem entryToBranchObj_missing (T : Trig) (o : Obj) (k : String) (hk : k ∈ ["N1", "N2", "id", "type"])
    (h : Obj.find o k = none) : (entryToBranchObj T o).1 = .error .keyError := by
  obtain ⟨e1, e2, e3, e4⟩ := entryReads_eq
  unfold entryToBranchObj
  simp only [e1, e2, e3, e4, Obj.read]
  cases h1 : Obj.find o "N1" with
  | none => rfl
  | some n1 =>
    simp only []
    have q2 : Obj.find (Obj.del o "N1") "N2" = Obj.find o "N2" := Obj.find_del_ne _ _ _ (by decide)
    rw [q2]
    cases h2 : Obj.find o "N2" with
    | none => rfl
    | some n2 =>
      simp only []
      have q3 : Obj.find (Obj.del (Obj.del o "N1") "N2") "id" = Obj.find o "id" := by
        rw [Obj.find_del_ne _ _ _ (by decide), Obj.find_del_ne _ _ _ (by decide)]
      rw [q3]
      cases h3 : Obj.find o "id" with
      | none => rfl
      | some id =>
        simp only []
        have q4 : Obj.find (Obj.put (Obj.del (Obj.del (Obj.del o "N1") "N2") "id") "name" id) "type" = Obj.find o "type" := by
          rw [Obj.find_put_ne _ _ _ _ (by decide), Obj.find_del_ne _ _ _ (by decide), Obj.find_del_ne _ _ _ (by decide),
            Obj.find_del_ne _ _ _ (by decide)]
        rw [q4]
        cases h4 : Obj.find o "type" with
        | none => rfl
        | some ty =>
          exfalso
          simp only [List.mem_cons, List.mem_nil_iff, or_false] at hk
          rcases hk with rfl | rfl | rfl | rfl <;> simp_all


/-! ### from one entry to the description -/

theorem entryToBranch_obj (T : Trig) (o : Obj) : (entryToBranch T (.obj o)).1 = (entryToBranchObj T o).1 := by
  simp [entryToBranch, entryCopied, pyDict]

theorem entryToBranchObj_nil (T : Trig) : (entryToBranchObj T []).1 = .error .keyError :=
  entryToBranchObj_missing T [] "N1" (by simp) rfl

theorem pyDict_arr_cons (a : J) (r : List J) : ∃ x, pyDict (.arr (a :: r)) = .error x := by
  cases a <;> simp only [pyDict] <;> first | exact ⟨_, rfl⟩ | (split <;> exact ⟨_, rfl⟩)

/-- only a dictionary can be loaded as a branch -/
theorem entryToBranch_ok_obj (T : Trig) (e : J) (b : LBranch) (h : (entryToBranch T e).1 = .ok b) :
    ∃ o, e = .obj o := by
  have hc : entryCopied = true := rfl
  unfold entryToBranch at h
  simp only [hc, if_true] at h
  cases e with
  | obj o => exact ⟨o, rfl⟩
  | null => simp [pyDict] at h
  | bool _ => simp [pyDict] at h
  | num _ => simp [pyDict] at h
  | cx _ => simp [pyDict] at h
  | str s =>
    by_cases hs : s.isEmpty
    · simp [pyDict, hs, entryToBranchObj_nil] at h
    · simp [pyDict, hs] at h
  | arr l =>
    cases l with
    | nil => simp [pyDict, entryToBranchObj_nil] at h
    | cons a r =>
      obtain ⟨x, hx⟩ := pyDict_arr_cons a r
      rw [hx] at h
      cases h

theorem loadEntries_fst_cons (T : Trig) (e : J) (r : List J) :
    (loadEntries T (e :: r)).1 =
      match (entryToBranch T e).1 with
      | .error x => .error x
      | .ok b => match (loadEntries T r).1 with
        | .error x => .error x
        | .ok bs => .ok (b :: bs) := by
  rw [loadEntries]
  rcases h : entryToBranch T e with ⟨r1, e'⟩
  cases r1 with
  | error x => rfl
  | ok b =>
    simp only []
    rcases h2 : loadEntries T r with ⟨r2, r'⟩
    cases r2 <;> rfl

theorem loadEntries_error_first (T : Trig) (pre post : List J) (e : J) (x : Err)
    (hpre : ∀ y ∈ pre, ∃ b, (entryToBranch T y).1 = .ok b) (h : (entryToBranch T e).1 = .error x) :
    (loadEntries T (pre ++ e :: post)).1 = .error x := by
  induction pre with
  | nil => rw [List.nil_append, loadEntries_fst_cons, h]
  | cons y pre ih =>
    obtain ⟨b, hb⟩ := hpre y (List.mem_cons_self ..)
    rw [List.cons_append, loadEntries_fst_cons, hb, ih (fun z hz => hpre z (List.mem_cons_of_mem _ hz))]

theorem loadEntries_error_mem (T : Trig) (es : List J) (e : J) (he : e ∈ es) (x : Err)
    (h : (entryToBranch T e).1 = .error x) : ∃ x', (loadEntries T es).1 = .error x' := by
  induction es with
  | nil => cases he
  | cons y r ih =>
    rw [loadEntries_fst_cons]
    cases hy : (entryToBranch T y).1 with
    | error x' => exact ⟨x', rfl⟩
    | ok b =>
      rcases List.mem_cons.mp he with rfl | he'
      · rw [h] at hy; cases hy
      · obtain ⟨x', hx'⟩ := ih he'
        exact ⟨x', by simp only [hx']⟩

theorem loadEntries_ok_map {α : Type} (T : Trig) (f : J → α) (g : LBranch → α)
    (hfg : ∀ e b, (entryToBranch T e).1 = .ok b → g b = f e)
    (es : List J) (bs : List LBranch) (h : (loadEntries T es).1 = .ok bs) : bs.map g = es.map f := by
  induction es generalizing bs with
  | nil => simp [loadEntries] at h; subst h; rfl
  | cons y r ih =>
    rw [loadEntries_fst_cons] at h
    cases hy : (entryToBranch T y).1 with
    | error x => rw [hy] at h; cases h
    | ok b =>
      rw [hy] at h
      cases hr : (loadEntries T r).1 with
      | error x => rw [hr] at h; cases h
      | ok bs' =>
        rw [hr] at h
        simp only [Except.ok.injEq] at h
        subst h
        simp [hfg y b hy, ih bs' hr]

/-- the value an entry has under a key (`None` when it is no dictionary or lacks the key) -/
def entryKey (e : J) (k : String) : Option J :=
  match e with
  | .obj o => Obj.find o k
  | _ => none

theorem callElemFactory_ok (f : ElemFactory) (n1 n2 : J) (kw : Obj) (b : LBranch)
    (h : callElemFactory f n1 n2 kw = .ok b) :
    b.n1 = n1 ∧ b.n2 = n2 ∧ ∃ bound, bindArgs f.params kw = .ok bound ∧ b.name = (Obj.find bound "name").getD .null := by
  unfold callElemFactory at h
  cases hb : bindArgs f.params kw with
  | error x => rw [hb] at h; cases h
  | ok bound =>
    rw [hb] at h
    simp only [Except.ok.injEq] at h
    subst h
    exact ⟨rfl, rfl, bound, rfl, rfl⟩

theorem applyLoader_ok (T : Trig) (L : NetLoader) (n1 n2 : J) (kw : Obj) (b : LBranch)
    (h : applyLoader T L n1 n2 kw = .ok b) :
    ∃ f ex kw1 kw2, elementFactories.find? (fun f => f.name == L.factory) = some f ∧
      evalCxArgs T L.cxArgs kw = .ok (ex, kw1) ∧ translateToComplex T L.translateKeys kw1 = .ok kw2 ∧
      callElemFactory f n1 n2 (ex ++ kw2) = .ok b := by
  unfold applyLoader at h
  cases hf : elementFactories.find? (fun f => f.name == L.factory) with
  | none => rw [hf] at h; cases h
  | some f =>
    rw [hf] at h
    simp only [] at h
    cases he : evalCxArgs T L.cxArgs kw with
    | error x => rw [he] at h; cases h
    | ok p =>
      obtain ⟨ex, kw1⟩ := p
      rw [he] at h
      simp only [] at h
      cases ht : translateToComplex T L.translateKeys kw1 with
      | error x => rw [ht] at h; cases h
      | ok kw2 =>
        rw [ht] at h
        exact ⟨f, ex, kw1, kw2, rfl, rfl, ht, h⟩

/-- a loaded entry is a dictionary with the four structural keys, and the branch was produced by the
table entry of its type from what the four reads leave -/
theorem entryToBranch_ok (T : Trig) (e : J) (b : LBranch) (h : (entryToBranch T e).1 = .ok b) :
    ∃ o n1 n2 id kind L, e = .obj o ∧ Obj.find o "N1" = some n1 ∧ Obj.find o "N2" = some n2 ∧
      Obj.find o "id" = some id ∧ Obj.find o "type" = some (.str kind) ∧
      networkBranchTranslators.find? (fun L => L.kind == kind) = some L ∧
      applyLoader T L n1 n2 (stripped o id) = .ok b := by
  obtain ⟨o, rfl⟩ := entryToBranch_ok_obj T e b h
  rw [entryToBranch_obj] at h
  have miss : ∀ k ∈ ["N1", "N2", "id", "type"], ∃ v, Obj.find o k = some v := by
    intro k hk
    cases hv : Obj.find o k with
    | some v => exact ⟨v, rfl⟩
    | none => rw [entryToBranchObj_missing T o k hk hv] at h; cases h
  obtain ⟨n1, h1⟩ := miss "N1" (by simp)
  obtain ⟨n2, h2⟩ := miss "N2" (by simp)
  obtain ⟨id, h3⟩ := miss "id" (by simp)
  obtain ⟨ty, h4⟩ := miss "type" (by simp)
  rw [entryToBranchObj_eq T o n1 n2 id ty h1 h2 h3 h4] at h
  unfold dispatch at h
  cases ty with
  | str kind =>
    simp only [] at h
    cases hL : networkBranchTranslators.find? (fun L => L.kind == kind) with
    | none => rw [hL] at h; cases h
    | some L =>
      rw [hL] at h
      exact ⟨o, n1, n2, id, kind, L, rfl, h1, h2, h3, h4, hL, h⟩
  | null => cases h
  | bool _ => cases h
  | num _ => cases h
  | cx _ => cases h
  | arr _ => cases h
  | obj _ => cases h

theorem entryToBranch_nodes (T : Trig) (e : J) (b : LBranch) (h : (entryToBranch T e).1 = .ok b) :
    (some b.n1, some b.n2) = (entryKey e "N1", entryKey e "N2") := by
  obtain ⟨o, n1, n2, id, kind, L, rfl, h1, h2, _, _, _, ha⟩ := entryToBranch_ok T e b h
  obtain ⟨f, ex, kw1, kw2, _, _, _, hc⟩ := applyLoader_ok T L n1 n2 _ b ha
  obtain ⟨e1, e2, _⟩ := callElemFactory_ok f n1 n2 _ b hc
  simp [entryKey, h1, h2, e1, e2]

/-! ### the identifier of a loaded branch is the entry's `id` -/

theorem Obj.find_put_self (o : Obj) (k : String) (v : J) : Obj.find (Obj.put o k v) k = some v := by
  induction o with
  | nil => simp [Obj.put, Obj.find]
  | cons p r ih =>
    obtain ⟨k', x⟩ := p
    by_cases h : k' = k <;> simp [Obj.put, Obj.find, h, ih]

theorem Obj.find_append (a b : Obj) (q : String) (h : Obj.find a q = none) : Obj.find (a ++ b) q = Obj.find b q := by
  induction a with
  | nil => rfl
  | cons p r ih =>
    obtain ⟨k, x⟩ := p
    by_cases hk : k = q
    · simp [Obj.find, hk] at h
    · simp only [Obj.find, hk, if_false] at h
      simp [Obj.find, hk, ih h]

theorem stripped_name (o : Obj) (id : J) : Obj.find (stripped o id) "name" = some id := by
  unfold stripped
  rw [Obj.find_del_ne _ _ _ (by decide), Obj.find_put_self]

theorem evalCxArgs_find (T : Trig) (q : String) (args : List (String × String × KeyRead)) (kw ex kw1 : Obj)
    (h : evalCxArgs T args kw = .ok (ex, kw1)) (hq : ∀ a ∈ args, a.1 ≠ q ∧ a.2.1 ≠ q) :
    Obj.find kw1 q = Obj.find kw q ∧ Obj.find ex q = none := by
  induction args generalizing kw ex kw1 with
  | nil => simp [evalCxArgs] at h; obtain ⟨rfl, rfl⟩ := h; exact ⟨rfl, rfl⟩
  | cons a r ih =>
    obtain ⟨p, k, how⟩ := a
    have hpk := hq (p, k, how) (List.mem_cons_self ..)
    simp only at hpk
    rw [evalCxArgs] at h
    cases hr : Obj.read kw k how with
    | none => rw [hr] at h; cases h
    | some vk =>
      obtain ⟨v, kw'⟩ := vk
      rw [hr] at h
      simp only [] at h
      cases hc : (toComplex T v false).1 with
      | error x => rw [hc] at h; cases h
      | ok c =>
        rw [hc] at h
        simp only [] at h
        cases hrest : evalCxArgs T r kw' with
        | error x => rw [hrest] at h; cases h
        | ok pr =>
          obtain ⟨ex', kw''⟩ := pr
          rw [hrest] at h
          simp only [Except.ok.injEq, Prod.mk.injEq] at h
          obtain ⟨rfl, rfl⟩ := h
          obtain ⟨i1, i2⟩ := ih kw' ex' kw'' hrest (fun a ha => hq a (List.mem_cons_of_mem _ ha))
          have hkw' : Obj.find kw' q = Obj.find kw q := by
            unfold Obj.read at hr
            cases hfk : Obj.find kw k with
            | none => rw [hfk] at hr; cases hr
            | some v' =>
              rw [hfk] at hr
              simp only [Option.some.injEq, Prod.mk.injEq] at hr
              obtain ⟨_, rfl⟩ := hr
              cases how with
              | pop => exact Obj.find_del_ne _ _ _ (fun e => hpk.2 e.symm)
              | get => rfl
          refine ⟨i1.trans hkw', ?_⟩
          simp [Obj.find, hpk.1, i2]

theorem translateToComplex_find (T : Trig) (q : String) (keys : List String) (kw kw2 : Obj)
    (h : translateToComplex T keys kw = .ok kw2) (hq : q ∉ keys) : Obj.find kw2 q = Obj.find kw q := by
  induction keys generalizing kw with
  | nil => simp [translateToComplex] at h; rw [h]
  | cons k r ih =>
    rw [translateToComplex] at h
    cases hf : Obj.find kw k with
    | none => rw [hf] at h; cases h
    | some v =>
      rw [hf] at h
      simp only [] at h
      cases hc : (toComplex T v false).1 with
      | error x => rw [hc] at h; cases h
      | ok c =>
        rw [hc] at h
        simp only [] at h
        have hne : q ≠ k := fun e => hq (e ▸ List.mem_cons_self ..)
        rw [ih _ h (fun hm => hq (List.mem_cons_of_mem _ hm)), Obj.find_put_ne _ _ _ _ hne]

theorem bindParams_find (ps : List (String × Option Int)) (kw bound : Obj) (q : String) (v : J)
    (h : bindParams ps kw = .ok bound) (hq : ps.any (fun p => p.1 == q) = true) (hv : Obj.find kw q = some v) :
    Obj.find bound q = some v := by
  induction ps generalizing bound with
  | nil => simp at hq
  | cons p r ih =>
    obtain ⟨pn, d⟩ := p
    rw [bindParams] at h
    cases hr : bindParams r kw with
    | error x => rw [hr] at h; cases h
    | ok rest =>
      rw [hr] at h
      simp only [] at h
      by_cases hpq : pn = q
      · subst hpq
        rw [hv] at h
        simp only [Except.ok.injEq] at h
        subst h
        simp [Obj.find]
      · have hq' : r.any (fun p => p.1 == q) = true := by
          simpa [List.any_cons, hpq] using hq
        have := ih rest hr hq'
        split at h
        · simp only [Except.ok.injEq] at h; subst h; simp [Obj.find, hpq, this]
        · simp only [Except.ok.injEq] at h; subst h; simp [Obj.find, hpq, this]
        · cases h

theorem bindArgs_ok (ps : List (String × Option Int)) (kw bound : Obj) (h : bindArgs ps kw = .ok bound) :
    bindParams ps kw = .ok bound := by
  unfold bindArgs at h
  split at h
  · cases h
  · split at h
    · cases h
    · exact h

/-- no entry of the generated table reads or translates the key `name`, and every factory takes `name` -/
theorem table_name_facts :
    (∀ L ∈ networkBranchTranslators, (∀ a ∈ L.cxArgs, a.1 ≠ "name" ∧ a.2.1 ≠ "name") ∧ "name" ∉ L.translateKeys) ∧
    (∀ f ∈ elementFactories, f.params.any (fun p => p.1 == "name") = true) := by decide

theorem entryToBranch_name (T : Trig) (e : J) (b : LBranch) (h : (entryToBranch T e).1 = .ok b) :
    some b.name = entryKey e "id" := by
  obtain ⟨o, n1, n2, id, kind, L, rfl, _, _, h3, _, hL, ha⟩ := entryToBranch_ok T e b h
  obtain ⟨f, ex, kw1, kw2, hf, he, ht, hc⟩ := applyLoader_ok T L n1 n2 _ b ha
  obtain ⟨_, _, bound, hb, hname⟩ := callElemFactory_ok f n1 n2 _ b hc
  obtain ⟨hLt, hft⟩ := table_name_facts
  obtain ⟨hL1, hL2⟩ := hLt L (List.mem_of_find?_eq_some hL)
  obtain ⟨i1, i2⟩ := evalCxArgs_find T "name" L.cxArgs _ ex kw1 he hL1
  have i3 := translateToComplex_find T "name" L.translateKeys kw1 kw2 ht hL2
  have hfind : Obj.find (ex ++ kw2) "name" = some id := by
    rw [Obj.find_append _ _ _ i2, i3, i1, stripped_name]
  have := bindParams_find f.params _ bound "name" id (bindArgs_ok _ _ _ hb) (hft f (List.mem_of_find?_eq_some hf)) hfind
  simp [entryKey, h3, hname, this]

theorem loadNetwork_arr (T : Trig) (es : List J) :
    (loadNetwork T (.arr es)).1 =
      match (loadEntries T es).1 with
      | .error x => .error (mapLoadErr x)
      | .ok bs => match checkLoaded bs with
        | .error x => .error (mapLoadErr x)
        | .ok bs => .ok bs := by
  simp only [loadNetwork, loadSeq]
  rcases h : loadEntries T es with ⟨r, es'⟩
  cases r <;> rfl

theorem mapLoadErr_values : mapLoadErr .keyError = .fileExists ∧ mapLoadErr .typeError = .typeError ∧
    mapLoadErr .fileFormat = .fileFormat ∧ mapLoadErr .floatingGround = .floatingGround ∧
    mapLoadErr .ambiguousIds = .ambiguousIds := by decide

/-! ### a missing required keyword of the element factory -/

theorem evalCxArgs_none (T : Trig) (q : String) (args : List (String × String × KeyRead)) (kw ex kw1 : Obj)
    (h : evalCxArgs T args kw = .ok (ex, kw1)) (hq : Obj.find kw q = none) (hpk : ∀ a ∈ args, a.1 = a.2.1) :
    Obj.find kw1 q = none ∧ Obj.find ex q = none := by
  induction args generalizing kw ex kw1 with
  | nil => simp [evalCxArgs] at h; obtain ⟨rfl, rfl⟩ := h; exact ⟨hq, rfl⟩
  | cons a r ih =>
    obtain ⟨p, k, how⟩ := a
    have hp : p = k := hpk (p, k, how) (List.mem_cons_self ..)
    rw [evalCxArgs] at h
    cases hr : Obj.read kw k how with
    | none => rw [hr] at h; cases h
    | some vk =>
      obtain ⟨v, kw'⟩ := vk
      rw [hr] at h
      simp only [] at h
      cases hc : (toComplex T v false).1 with
      | error x => rw [hc] at h; cases h
      | ok c =>
        rw [hc] at h
        simp only [] at h
        cases hrest : evalCxArgs T r kw' with
        | error x => rw [hrest] at h; cases h
        | ok pr =>
          obtain ⟨ex', kw''⟩ := pr
          rw [hrest] at h
          simp only [Except.ok.injEq, Prod.mk.injEq] at h
          obtain ⟨rfl, rfl⟩ := h
          unfold Obj.read at hr
          cases hfk : Obj.find kw k with
          | none => rw [hfk] at hr; cases hr
          | some v' =>
            rw [hfk] at hr
            simp only [Option.some.injEq, Prod.mk.injEq] at hr
            obtain ⟨_, hkweq⟩ := hr
            have hkq : k ≠ q := by intro e; rw [e, hq] at hfk; cases hfk
            have hkw' : Obj.find kw' q = none := by
              rw [← hkweq]
              cases how with
              | pop => exact Obj.find_del_none _ _ _ hq
              | get => exact hq
            obtain ⟨i1, i2⟩ := ih _ ex' kw'' hrest hkw' (fun a ha => hpk a (List.mem_cons_of_mem _ ha))
            refine ⟨i1, ?_⟩
            simp [Obj.find, hp, hkq, i2]

theorem translateToComplex_none (T : Trig) (q : String) (keys : List String) (kw kw2 : Obj)
    (h : translateToComplex T keys kw = .ok kw2) (hq : Obj.find kw q = none) : Obj.find kw2 q = none := by
  induction keys generalizing kw with
  | nil => simp [translateToComplex] at h; rw [← h]; exact hq
  | cons k r ih =>
    rw [translateToComplex] at h
    cases hf : Obj.find kw k with
    | none => rw [hf] at h; cases h
    | some v =>
      rw [hf] at h
      simp only [] at h
      cases hc : (toComplex T v false).1 with
      | error x => rw [hc] at h; cases h
      | ok c =>
        rw [hc] at h
        simp only [] at h
        have hne : q ≠ k := by intro e; rw [← e, hq] at hf; cases hf
        exact ih _ h (by rw [Obj.find_put_ne _ _ _ _ hne]; exact hq)

theorem bindParams_required (ps : List (String × Option Int)) (kw bound : Obj) (q : String)
    (h : bindParams ps kw = .ok bound) (hq : (q, none) ∈ ps) (hv : Obj.find kw q = none) : False := by
  induction ps generalizing bound with
  | nil => cases hq
  | cons p r ih =>
    obtain ⟨pn, d⟩ := p
    rw [bindParams] at h
    cases hr : bindParams r kw with
    | error x => rw [hr] at h; cases h
    | ok rest =>
      rw [hr] at h
      simp only [] at h
      rcases List.mem_cons.mp hq with he | hm
      · simp only [Prod.mk.injEq] at he
        obtain ⟨rfl, rfl⟩ := he
        rw [hv] at h
        cases h
      · exact ih rest hr hm

theorem table_cx_facts : ∀ L ∈ networkBranchTranslators, ∀ a ∈ L.cxArgs, a.1 = a.2.1 := by decide

/-- an entry that lacks a required keyword of its element factory does not load -/
theorem entryToBranch_missing_value (T : Trig) (o : Obj) (id : J) (kind : String) (L : NetLoader) (f : ElemFactory)
    (p : String)
    (h3 : Obj.find o "id" = some id) (h4 : Obj.find o "type" = some (.str kind))
    (hL : networkBranchTranslators.find? (fun L => L.kind == kind) = some L)
    (hf : elementFactories.find? (fun f => f.name == L.factory) = some f)
    (hp : (p, none) ∈ f.params) (hpn : p ≠ "name") (hmiss : Obj.find o p = none) :
    ∃ x, (entryToBranch T (.obj o)).1 = .error x := by
  cases hres : (entryToBranch T (.obj o)).1 with
  | error x => exact ⟨x, rfl⟩
  | ok b =>
    exfalso
    obtain ⟨o', n1', n2', id', kind', L', ho, _, _, h3', h4', hL', ha⟩ := entryToBranch_ok T _ b hres
    cases ho
    rw [h3] at h3'; cases h3'
    rw [h4] at h4'; cases h4'
    rw [hL] at hL'; cases hL'
    obtain ⟨f', ex, kw1, kw2, hf', he, ht, hc⟩ := applyLoader_ok T L n1' n2' _ b ha
    rw [hf] at hf'; cases hf'
    obtain ⟨_, _, bound, hb, _⟩ := callElemFactory_ok f n1' n2' _ b hc
    have hs : Obj.find (stripped o id) p = none := by
      unfold stripped
      apply Obj.find_del_none
      rw [Obj.find_put_ne _ _ _ _ hpn]
      exact Obj.find_del_none _ _ _ (Obj.find_del_none _ _ _ (Obj.find_del_none _ _ _ hmiss))
    obtain ⟨i1, i2⟩ := evalCxArgs_none T p L.cxArgs _ ex kw1 he hs
      (table_cx_facts L (List.mem_of_find?_eq_some hL))
    have i3 := translateToComplex_none T p L.translateKeys kw1 kw2 ht i1
    have i4 : Obj.find (ex ++ kw2) p = none := by rw [Obj.find_append _ _ _ i2]; exact i3
    exact bindParams_required f.params _ bound p (bindArgs_ok _ _ _ hb) hp i4

end CC.Load
