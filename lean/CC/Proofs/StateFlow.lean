/-
  CC.Proofs.StateFlow — the FLOW form of the Lyapunov inequality, over ℝ (Mathlib analysis).

  For real matrices `A`, `P` with `xᵀ(P A + Aᵀ P)x ≤ 0` for every `x` (the RATE form: exactly the
  conclusion of `CC.StateAlg.lyapunov` / `CC.model_lyapunov`), every trajectory of `ẋ = A x` on a
  convex set of times `S` (an interval, a half line, all of ℝ) has `t ↦ x(t)ᵀ P x(t)` antitone on
  `S`; with `λ·xᵀx ≤ xᵀ P x` the trajectory is bounded by its initial energy; the same for the
  forced system `ẋ = A x + B u(t)` on a set of times where the input term vanishes.

  "Trajectory" means a function with the stated derivative at every time of `S` (derivative within
  `S`, so one-sided at the end points): this is the EXACT flow of the differential equation.  Nothing
  here speaks about a numerical integrator.

  Existence: `t ↦ exp(tA) x₀` (Mathlib's matrix exponential) is such a trajectory through every `x₀`
  (`hasDerivAt_exp_mulVec`), so the energy along `exp(tA)` is antitone (`stored_exp_antitone`).
-/
import CC.Proofs.StateAlgebra
import Mathlib.Analysis.Calculus.Deriv.MeanValue
import Mathlib.Analysis.Calculus.Deriv.Mul
import Mathlib.Analysis.Calculus.Deriv.Add
import Mathlib.Analysis.Calculus.Deriv.Prod
import Mathlib.Analysis.SpecialFunctions.Exponential
import Mathlib.Analysis.Normed.Algebra.MatrixExponential
import Mathlib.Topology.Algebra.Module.FiniteDimension

set_option linter.unusedSectionVars false

namespace CC.StateFlow
open Matrix

variable {n q : Type} [Fintype n] [Fintype q] [DecidableEq n] [DecidableEq q]

/-- `xᵀ(P A + Aᵀ P)x = xᵀ P (A x) + (A x)ᵀ P x` (no symmetry of `P` needed) -/
theorem lyap_split (A P : Matrix n n ℝ) (x : n → ℝ) :
    x ⬝ᵥ (P * A + Aᵀ * P) *ᵥ x = (A *ᵥ x) ⬝ᵥ P *ᵥ x + x ⬝ᵥ P *ᵥ (A *ᵥ x) := by
  rw [add_mulVec, dotProduct_add, ← mulVec_mulVec, ← mulVec_mulVec, dotProduct_mulVec x Aᵀ,
    vecMul_transpose, add_comm]

/-- derivative of a quadratic form along a differentiable curve -/
theorem hasDerivWithinAt_quad (P : Matrix n n ℝ) {x : ℝ → n → ℝ} {x' : n → ℝ} {S : Set ℝ} {t : ℝ}
    (hx : HasDerivWithinAt x x' S t) :
    HasDerivWithinAt (fun s => x s ⬝ᵥ P *ᵥ x s) (x' ⬝ᵥ P *ᵥ x t + x t ⬝ᵥ P *ᵥ x') S t := by
  have hi : ∀ i, HasDerivWithinAt (fun s => x s i) (x' i) S t := hasDerivWithinAt_pi.1 hx
  have hP : ∀ i, HasDerivWithinAt (fun s => (P *ᵥ x s) i) ((P *ᵥ x') i) S t := by
    intro i
    simp only [mulVec, dotProduct]
    exact HasDerivWithinAt.fun_sum fun j _ => (hi j).const_mul (P i j)
  have h := HasDerivWithinAt.fun_sum (u := Finset.univ) fun i _ => (hi i).mul (hP i)
  simp only [dotProduct]
  rw [← Finset.sum_add_distrib]
  exact h

/-- **energy rate along a trajectory**: along `ẋ = A x` the form `xᵀ P x` has the derivative
`xᵀ(P A + Aᵀ P)x` -/
theorem hasDerivWithinAt_energy (A P : Matrix n n ℝ) {x : ℝ → n → ℝ} {S : Set ℝ} {t : ℝ}
    (hx : HasDerivWithinAt x (A *ᵥ x t) S t) :
    HasDerivWithinAt (fun s => x s ⬝ᵥ P *ᵥ x s) (x t ⬝ᵥ (P * A + Aᵀ * P) *ᵥ x t) S t := by
  rw [lyap_split]
  exact hasDerivWithinAt_quad P hx

/-- **Lyapunov flow lemma** on a convex set of times -/
theorem energy_antitoneOn (A P : Matrix n n ℝ)
    (hlyap : ∀ x : n → ℝ, x ⬝ᵥ (P * A + Aᵀ * P) *ᵥ x ≤ 0)
    {S : Set ℝ} (hS : Convex ℝ S) {x : ℝ → n → ℝ}
    (hx : ∀ t ∈ S, HasDerivWithinAt x (A *ᵥ x t) S t) :
    AntitoneOn (fun t => x t ⬝ᵥ P *ᵥ x t) S := by
  refine antitoneOn_of_hasDerivWithinAt_nonpos (f' := fun t => x t ⬝ᵥ (P * A + Aᵀ * P) *ᵥ x t) hS ?_ ?_ ?_
  · exact fun t ht => (hasDerivWithinAt_energy A P (hx t ht)).continuousWithinAt
  · exact fun t ht => (hasDerivWithinAt_energy A P (hx t (interior_subset ht))).mono interior_subset
  · exact fun t _ => hlyap (x t)

/-- the forced system on a set of times where the input term vanishes -/
theorem energy_antitoneOn_forced (A P : Matrix n n ℝ) (B : Matrix n q ℝ)
    (hlyap : ∀ x : n → ℝ, x ⬝ᵥ (P * A + Aᵀ * P) *ᵥ x ≤ 0)
    {S : Set ℝ} (hS : Convex ℝ S) {x : ℝ → n → ℝ} {u : ℝ → q → ℝ}
    (hx : ∀ t ∈ S, HasDerivWithinAt x (A *ᵥ x t + B *ᵥ u t) S t)
    (hu : ∀ t ∈ S, u t = 0) :
    AntitoneOn (fun t => x t ⬝ᵥ P *ᵥ x t) S := by
  refine energy_antitoneOn A P hlyap hS fun t ht => ?_
  have := hx t ht
  rwa [hu t ht, mulVec_zero, add_zero] at this

/-- **bounded response**: `λ·xᵀx ≤ xᵀ P x`, `λ > 0` ⇒ `x(t)ᵀx(t) ≤ x(t₀)ᵀ P x(t₀) / λ` for later
times of `S` -/
theorem bounded_of_antitoneOn (P : Matrix n n ℝ) {lam : ℝ} (hlam : 0 < lam)
    (hP : ∀ x : n → ℝ, lam * (x ⬝ᵥ x) ≤ x ⬝ᵥ P *ᵥ x)
    {S : Set ℝ} {x : ℝ → n → ℝ} (hanti : AntitoneOn (fun t => x t ⬝ᵥ P *ᵥ x t) S)
    {t0 t : ℝ} (ht0 : t0 ∈ S) (ht : t ∈ S) (h : t0 ≤ t) :
    x t ⬝ᵥ x t ≤ (x t0 ⬝ᵥ P *ᵥ x t0) / lam := by
  rw [le_div_iff₀ hlam, mul_comm]
  exact (hP (x t)).trans (hanti ht0 ht h)

/-- every component is bounded by the Euclidean length -/
theorem sq_le_dot_self (x : n → ℝ) (i : n) : x i ^ 2 ≤ x ⬝ᵥ x := by
  unfold dotProduct
  rw [pow_two]
  exact Finset.single_le_sum (f := fun j => x j * x j) (fun j _ => mul_self_nonneg (x j)) (Finset.mem_univ i)

/-! ### diagonal weights: the stored energy `½ Σ w_k x_k²` -/

/-- stored energy of the state `x` with the weights `w` (capacitances, inductances) -/
noncomputable def stored (w x : n → ℝ) : ℝ := (1 / 2) * ∑ k, w k * x k ^ 2

theorem stored_eq (w x : n → ℝ) : stored w x = (1 / 2) * (x ⬝ᵥ diagonal w *ᵥ x) := by
  unfold stored dotProduct
  congr 1
  apply Finset.sum_congr rfl
  intro k _
  rw [mulVec_diagonal]; ring

theorem stored_nonneg {w : n → ℝ} (hw : ∀ k, 0 ≤ w k) (x : n → ℝ) : 0 ≤ stored w x :=
  mul_nonneg (by norm_num) (Finset.sum_nonneg fun k _ => mul_nonneg (hw k) (sq_nonneg _))

/-- one term of the stored energy is at most the whole -/
theorem term_le_stored {w : n → ℝ} (hw : ∀ k, 0 ≤ w k) (x : n → ℝ) (k : n) :
    (1 / 2) * (w k * x k ^ 2) ≤ stored w x := by
  unfold stored
  apply mul_le_mul_of_nonneg_left _ (by norm_num)
  exact Finset.single_le_sum (f := fun j => w j * x j ^ 2) (fun j _ => mul_nonneg (hw j) (sq_nonneg _))
    (Finset.mem_univ k)

theorem stored_antitoneOn (A : Matrix n n ℝ) (w : n → ℝ)
    (hlyap : ∀ x : n → ℝ, x ⬝ᵥ (diagonal w * A + Aᵀ * diagonal w) *ᵥ x ≤ 0)
    {S : Set ℝ} (hS : Convex ℝ S) {x : ℝ → n → ℝ}
    (hx : ∀ t ∈ S, HasDerivWithinAt x (A *ᵥ x t) S t) :
    AntitoneOn (fun t => stored w (x t)) S := by
  have h := energy_antitoneOn A (diagonal w) hlyap hS hx
  intro a ha b hb hab
  simp only [stored_eq]
  exact mul_le_mul_of_nonneg_left (h ha hb hab) (by norm_num)

/-- each state variable is bounded by the initial stored energy: `x_k(t)² ≤ 2 E(t₀) / w_k` -/
theorem state_bounded {w : n → ℝ} (hw : ∀ k, 0 < w k)
    {S : Set ℝ} {x : ℝ → n → ℝ} (hanti : AntitoneOn (fun t => stored w (x t)) S)
    {t0 t : ℝ} (ht0 : t0 ∈ S) (ht : t ∈ S) (h : t0 ≤ t) (k : n) :
    x t k ^ 2 ≤ 2 * stored w (x t0) / w k := by
  rw [le_div_iff₀ (hw k)]
  have h1 := term_le_stored (fun k => (hw k).le) (x t) k
  have h2 : stored w (x t) ≤ stored w (x t0) := hanti ht0 ht h
  nlinarith

/-! ### the flow exists: `t ↦ exp(tA) x₀` -/

section exp
open NormedSpace
open scoped Matrix.Norms.Operator

/-- `t ↦ exp(tA) x₀` solves `ẋ = A x` -/
theorem hasDerivAt_exp_mulVec (A : Matrix n n ℝ) (x0 : n → ℝ) (t : ℝ) :
    HasDerivAt (fun s : ℝ => exp (s • A) *ᵥ x0) (A *ᵥ (exp (t • A) *ᵥ x0)) t := by
  have h := hasDerivAt_exp_smul_const' (𝕂 := ℝ) A t
  let L : Matrix n n ℝ →L[ℝ] (n → ℝ) := LinearMap.toContinuousLinearMap ((Matrix.mulVecBilin ℝ ℝ).flip x0)
  have hL : ∀ M : Matrix n n ℝ, L M = M *ᵥ x0 := fun M => rfl
  have := L.hasFDerivAt.comp_hasDerivAt t h
  simp only [Function.comp_def, hL] at this
  rw [mulVec_mulVec]
  exact this

/-- … and starts at `x₀` -/
theorem exp_zero_mulVec (A : Matrix n n ℝ) (x0 : n → ℝ) : exp ((0 : ℝ) • A) *ᵥ x0 = x0 := by
  rw [zero_smul, exp_zero, one_mulVec]

/-- the stored energy along `exp(tA)` is antitone -/
theorem stored_exp_antitone (A : Matrix n n ℝ) (w : n → ℝ)
    (hlyap : ∀ x : n → ℝ, x ⬝ᵥ (diagonal w * A + Aᵀ * diagonal w) *ᵥ x ≤ 0) (x0 : n → ℝ) :
    Antitone fun t : ℝ => stored w (exp (t • A) *ᵥ x0) :=
  antitoneOn_univ.1 <| stored_antitoneOn A w hlyap convex_univ
    fun t _ => (hasDerivAt_exp_mulVec A x0 t).hasDerivWithinAt

end exp

end CC.StateFlow
