/-
  CC.Proofs.DrawRT2 — per-class facts (B), (F), (S) of CC/Proofs/DrawRoundTrip.lean, by symbolic
  evaluation of the interpretive model with the generated tables unfolded.  GENERATED SHAPE:
  one `rt_`/`fx_`/`sh_`/`stable_` group per class and keyword layout.
-/
import CC.Proofs.DrawRoundTrip
set_option linter.unusedSectionVars false
set_option linter.unusedSimpArgs false
set_option linter.unusedVariables false
namespace CC.Draw
section
attribute [local simp] RoundTrips FixedAfter ShellKept shell elemComp ownCirc reloadFrom reloadElem DElem.toSym construct classInfo
    Gen.elemClasses classChain bindParams evalF evalP compOfSym ctorValue
    lookupD truthy dictSet List.lookup List.find? negVal Gen.translatorMap Gen.translators runCases runCase
    nodeTuple evalV Sym.getAttr Gen.ctors applyCtor evalC valNeg valNonPos dictifyElement userParams serializeVal undictifyDElem
    undictifyKwargs combineToComplex Gen.loaderTypes dictUpdate bind Except.bind pure Except.pure List.mapM List.mapM.loop List.foldlM
    forIn Gen.undictifySteps List.contains List.elem Gen.knownWavetypes GQ.neg_def GQ.eta GQ.im_zero GQ.re_zero GQ.mk_zero GQ.mk_eq_zero
    Functor.map Except.map throw throwThe MonadExceptOf.throw

set_option maxRecDepth 8000
set_option maxHeartbeats 400000

theorem rt_ACVoltageSource (π : Rat) (v w phi : GQ) (hv : v.im = 0) (hw : w.im = 0) (hw0 : ¬ w.re < 0) (hp : phi.im = 0) (rev : Bool) (name : String) (a b : Pt) :
    RoundTrips π ⟨"ACVoltageSource", [("V", .num v), ("w", .num w), ("phi", .num phi), ("name", .str name), ("reverse", .bool rev)], a, b⟩ := by
  intro la lb la' lb'
  cases rev <;> simp [hv, hw, hw0, hp]

theorem fx_ACVoltageSource (π : Rat) (v w phi : GQ) (hv : v.im = 0) (hw : w.im = 0) (hw0 : ¬ w.re < 0) (hp : phi.im = 0) (rev : Bool) (name : String) (a b : Pt) :
    FixedAfter π ⟨"ACVoltageSource", [("V", .num v), ("w", .num w), ("phi", .num phi), ("name", .str name), ("reverse", .bool rev)], a, b⟩ := by
  intro la lb la' lb'
  cases rev <;> simp [hv, hw, hw0, hp]

theorem sh_ACVoltageSource (π : Rat) (v w phi : GQ) (hv : v.im = 0) (hw : w.im = 0) (hw0 : ¬ w.re < 0) (hp : phi.im = 0) (rev : Bool) (name : String) (a b : Pt) :
    ShellKept π ⟨"ACVoltageSource", [("V", .num v), ("w", .num w), ("phi", .num phi), ("name", .str name), ("reverse", .bool rev)], a, b⟩ := by
  intro la lb
  cases rev <;> simp [hv, hw, hw0, hp]

theorem stable_ACVoltageSource (π : Rat) (v w phi : GQ) (hv : v.im = 0) (hw : w.im = 0) (hw0 : ¬ w.re < 0) (hp : phi.im = 0) (rev : Bool) (name : String) (a b : Pt) :
    ElemStable π ⟨"ACVoltageSource", [("V", .num v), ("w", .num w), ("phi", .num phi), ("name", .str name), ("reverse", .bool rev)], a, b⟩ :=
  ⟨rt_ACVoltageSource π v w phi hv hw hw0 hp rev name a b, fx_ACVoltageSource π v w phi hv hw hw0 hp rev name a b, sh_ACVoltageSource π v w phi hv hw hw0 hp rev name a b⟩

theorem rt_ACCurrentSource (π : Rat) (v w phi : GQ) (hv : v.im = 0) (hw : w.im = 0) (hw0 : ¬ w.re < 0) (hp : phi.im = 0) (rev : Bool) (name : String) (a b : Pt) :
    RoundTrips π ⟨"ACCurrentSource", [("I", .num v), ("w", .num w), ("phi", .num phi), ("name", .str name), ("reverse", .bool rev)], a, b⟩ := by
  intro la lb la' lb'
  cases rev <;> simp [hv, hw, hw0, hp]

theorem fx_ACCurrentSource (π : Rat) (v w phi : GQ) (hv : v.im = 0) (hw : w.im = 0) (hw0 : ¬ w.re < 0) (hp : phi.im = 0) (rev : Bool) (name : String) (a b : Pt) :
    FixedAfter π ⟨"ACCurrentSource", [("I", .num v), ("w", .num w), ("phi", .num phi), ("name", .str name), ("reverse", .bool rev)], a, b⟩ := by
  intro la lb la' lb'
  cases rev <;> simp [hv, hw, hw0, hp]

theorem sh_ACCurrentSource (π : Rat) (v w phi : GQ) (hv : v.im = 0) (hw : w.im = 0) (hw0 : ¬ w.re < 0) (hp : phi.im = 0) (rev : Bool) (name : String) (a b : Pt) :
    ShellKept π ⟨"ACCurrentSource", [("I", .num v), ("w", .num w), ("phi", .num phi), ("name", .str name), ("reverse", .bool rev)], a, b⟩ := by
  intro la lb
  cases rev <;> simp [hv, hw, hw0, hp]

theorem stable_ACCurrentSource (π : Rat) (v w phi : GQ) (hv : v.im = 0) (hw : w.im = 0) (hw0 : ¬ w.re < 0) (hp : phi.im = 0) (rev : Bool) (name : String) (a b : Pt) :
    ElemStable π ⟨"ACCurrentSource", [("I", .num v), ("w", .num w), ("phi", .num phi), ("name", .str name), ("reverse", .bool rev)], a, b⟩ :=
  ⟨rt_ACCurrentSource π v w phi hv hw hw0 hp rev name a b, fx_ACCurrentSource π v w phi hv hw hw0 hp rev name a b, sh_ACCurrentSource π v w phi hv hw hw0 hp rev name a b⟩

theorem rt_RectVoltageSource (π : Rat) (v w phi : GQ) (hv : v.im = 0) (hw : w.im = 0) (hw0 : ¬ w.re ≤ 0) (hp : phi.im = 0) (rev : Bool) (name : String) (a b : Pt) :
    RoundTrips π ⟨"RectVoltageSource", [("V", .num v), ("w", .num w), ("phi", .num phi), ("name", .str name), ("reverse", .bool rev)], a, b⟩ := by
  intro la lb la' lb'
  cases rev <;> simp [hv, hw, hw0, hp]

theorem fx_RectVoltageSource (π : Rat) (v w phi : GQ) (hv : v.im = 0) (hw : w.im = 0) (hw0 : ¬ w.re ≤ 0) (hp : phi.im = 0) (rev : Bool) (name : String) (a b : Pt) :
    FixedAfter π ⟨"RectVoltageSource", [("V", .num v), ("w", .num w), ("phi", .num phi), ("name", .str name), ("reverse", .bool rev)], a, b⟩ := by
  intro la lb la' lb'
  cases rev <;> simp [hv, hw, hw0, hp]

theorem sh_RectVoltageSource (π : Rat) (v w phi : GQ) (hv : v.im = 0) (hw : w.im = 0) (hw0 : ¬ w.re ≤ 0) (hp : phi.im = 0) (rev : Bool) (name : String) (a b : Pt) :
    ShellKept π ⟨"RectVoltageSource", [("V", .num v), ("w", .num w), ("phi", .num phi), ("name", .str name), ("reverse", .bool rev)], a, b⟩ := by
  intro la lb
  cases rev <;> simp [hv, hw, hw0, hp]

theorem stable_RectVoltageSource (π : Rat) (v w phi : GQ) (hv : v.im = 0) (hw : w.im = 0) (hw0 : ¬ w.re ≤ 0) (hp : phi.im = 0) (rev : Bool) (name : String) (a b : Pt) :
    ElemStable π ⟨"RectVoltageSource", [("V", .num v), ("w", .num w), ("phi", .num phi), ("name", .str name), ("reverse", .bool rev)], a, b⟩ :=
  ⟨rt_RectVoltageSource π v w phi hv hw hw0 hp rev name a b, fx_RectVoltageSource π v w phi hv hw hw0 hp rev name a b, sh_RectVoltageSource π v w phi hv hw hw0 hp rev name a b⟩

theorem rt_RectCurrentSource (π : Rat) (v w phi : GQ) (hv : v.im = 0) (hw : w.im = 0) (hw0 : ¬ w.re ≤ 0) (hp : phi.im = 0) (rev : Bool) (name : String) (a b : Pt) :
    RoundTrips π ⟨"RectCurrentSource", [("I", .num v), ("w", .num w), ("phi", .num phi), ("name", .str name), ("reverse", .bool rev)], a, b⟩ := by
  intro la lb la' lb'
  cases rev <;> simp [hv, hw, hw0, hp]

theorem fx_RectCurrentSource (π : Rat) (v w phi : GQ) (hv : v.im = 0) (hw : w.im = 0) (hw0 : ¬ w.re ≤ 0) (hp : phi.im = 0) (rev : Bool) (name : String) (a b : Pt) :
    FixedAfter π ⟨"RectCurrentSource", [("I", .num v), ("w", .num w), ("phi", .num phi), ("name", .str name), ("reverse", .bool rev)], a, b⟩ := by
  intro la lb la' lb'
  cases rev <;> simp [hv, hw, hw0, hp]

theorem sh_RectCurrentSource (π : Rat) (v w phi : GQ) (hv : v.im = 0) (hw : w.im = 0) (hw0 : ¬ w.re ≤ 0) (hp : phi.im = 0) (rev : Bool) (name : String) (a b : Pt) :
    ShellKept π ⟨"RectCurrentSource", [("I", .num v), ("w", .num w), ("phi", .num phi), ("name", .str name), ("reverse", .bool rev)], a, b⟩ := by
  intro la lb
  cases rev <;> simp [hv, hw, hw0, hp]

theorem stable_RectCurrentSource (π : Rat) (v w phi : GQ) (hv : v.im = 0) (hw : w.im = 0) (hw0 : ¬ w.re ≤ 0) (hp : phi.im = 0) (rev : Bool) (name : String) (a b : Pt) :
    ElemStable π ⟨"RectCurrentSource", [("I", .num v), ("w", .num w), ("phi", .num phi), ("name", .str name), ("reverse", .bool rev)], a, b⟩ :=
  ⟨rt_RectCurrentSource π v w phi hv hw hw0 hp rev name a b, fx_RectCurrentSource π v w phi hv hw hw0 hp rev name a b, sh_RectCurrentSource π v w phi hv hw hw0 hp rev name a b⟩

end
end CC.Draw
