/-
  CC.Proofs.MultiFreqLemmas — helper lemmas for property C09: insertion sort over ℚ,
  membership in the flattened frequency list, harmonic lists.
-/
import CC.Model.MultiFreq
import CC.Proofs.NetBasics
import Mathlib.Algebra.Order.Field.Rat
import Mathlib.Data.Rat.Floor
import Mathlib.Tactic.Linarith
import Mathlib.Tactic.FieldSimp
import Mathlib.Tactic.Ring
set_option linter.unusedSectionVars false
set_option linter.unusedVariables false

namespace CC

/-! ### insertion sort -/

theorem insertQ_perm (a : ℚ) (l : List ℚ) : (insertQ a l).Perm (a :: l) := by
  induction l with
  | nil => simp [insertQ]
  | cons b l ih =>
    unfold insertQ
    split
    · exact List.Perm.refl _
    · exact (List.Perm.cons b ih).trans (List.Perm.swap a b l)

theorem sortQ_perm (l : List ℚ) : (sortQ l).Perm l := by
  induction l with
  | nil => simp [sortQ]
  | cons a l ih => exact (insertQ_perm a (sortQ l)).trans (List.Perm.cons a ih)

theorem mem_sortQ {w : ℚ} {l : List ℚ} : w ∈ sortQ l ↔ w ∈ l := (sortQ_perm l).mem_iff

theorem insertQ_sorted (a : ℚ) (l : List ℚ) (h : l.Pairwise (· ≤ ·)) :
    (insertQ a l).Pairwise (· ≤ ·) := by
  induction l with
  | nil => simp [insertQ]
  | cons b l ih =>
    unfold insertQ
    have hb := List.pairwise_cons.mp h
    split
    · rename_i hab
      refine List.pairwise_cons.mpr ⟨?_, h⟩
      intro x hx
      rcases List.mem_cons.mp hx with rfl | hx
      · exact hab
      · exact le_trans hab (hb.1 x hx)
    · rename_i hab
      have hba : b ≤ a := le_of_lt (not_le.mp hab)
      refine List.pairwise_cons.mpr ⟨?_, ih hb.2⟩
      intro x hx
      rcases List.mem_cons.mp ((insertQ_perm a l).mem_iff.mp hx) with rfl | hx
      · exact hba
      · exact hb.1 x hx

theorem sortQ_sorted (l : List ℚ) : (sortQ l).Pairwise (· ≤ ·) := by
  induction l with
  | nil => simp [sortQ]
  | cons a l ih => exact insertQ_sorted a _ ih

theorem pairwise_lt_of_le_of_nodup {l : List ℚ} (h : l.Pairwise (· ≤ ·)) (hn : l.Nodup) :
    l.Pairwise (· < ·) := by
  induction l with
  | nil => simp
  | cons a l ih =>
    obtain ⟨h1, h2⟩ := List.pairwise_cons.mp h
    obtain ⟨n1, n2⟩ := List.nodup_cons.mp hn
    refine List.pairwise_cons.mpr ⟨fun x hx => ?_, ih h2 n2⟩
    exact lt_of_le_of_ne (h1 x hx) (fun e => n1 (e ▸ hx))

/-! ### the flattened list -/

theorem mem_allFrequencies {wmax : ℚ} {cs : List FComp} {l : List ℚ}
    (h : allFrequencies wmax cs = .ok l) (w : ℚ) :
    w ∈ l ↔ ∃ c ∈ cs, ∃ lc, c.frequencies wmax = .ok lc ∧ w ∈ lc := by
  induction cs generalizing l with
  | nil => simp [allFrequencies] at h; subst h; simp
  | cons c cs ih =>
    unfold allFrequencies at h
    cases hc : c.frequencies wmax with
    | error e => rw [hc] at h; cases h
    | ok lc =>
      rw [hc] at h
      cases hr : allFrequencies wmax cs with
      | error e => rw [hr] at h; cases h
      | ok r =>
        rw [hr] at h
        cases h
        simp only [List.mem_append, List.mem_cons, exists_eq_or_imp, ih hr]
        constructor
        · rintro (hw | hw)
          · exact Or.inl ⟨lc, hc, hw⟩
          · exact Or.inr hw
        · rintro (⟨lc', hc', hw⟩ | hw)
          · rw [hc] at hc'; cases hc'; exact Or.inl hw
          · exact Or.inr hw

theorem mem_harmonicList (w0 wmax w : ℚ) :
    w ∈ harmonicList w0 wmax ↔ ∃ k : ℕ, (k : ℤ) ≤ (wmax / w0).floor ∧ w = w0 * (k : ℚ) := by
  unfold harmonicList
  simp only [List.mem_map, List.mem_range]
  constructor
  · rintro ⟨k, hk, rfl⟩
    refine ⟨k, ?_, rfl⟩
    omega
  · rintro ⟨k, hk, rfl⟩
    refine ⟨k, ?_, rfl⟩
    omega

/-- for a positive fundamental the retained harmonics are exactly those with `k·w0 ≤ w_max` -/
theorem harmonic_le_iff (w0 wmax : ℚ) (h0 : 0 < w0) (k : ℕ) :
    (k : ℤ) ≤ (wmax / w0).floor ↔ w0 * (k : ℚ) ≤ wmax := by
  rw [Rat.le_floor_iff, le_div_iff₀ h0]
  constructor <;> intro h
  · have : ((k : ℤ) : ℚ) = (k : ℚ) := by norm_cast
    rw [this] at h; linarith
  · have : ((k : ℤ) : ℚ) = (k : ℚ) := by norm_cast
    rw [this]; linarith

/-! ### the merge loop of `frequency_components` -/

theorem mem_mergeFrom {wres last w : ℚ} {l : List ℚ} (h : w ∈ mergeFrom wres last l) : w ∈ l := by
  induction l generalizing last with
  | nil => simp [mergeFrom] at h
  | cons a l ih =>
    unfold mergeFrom at h
    split at h
    · rcases List.mem_cons.mp h with rfl | h'
      · exact List.mem_cons_self ..
      · exact List.mem_cons_of_mem _ (ih h')
    · exact List.mem_cons_of_mem _ (ih h)

theorem mem_mergeRes {wres w : ℚ} {l : List ℚ} (h : w ∈ mergeRes wres l) : w ∈ l := by
  cases l with
  | nil => simp [mergeRes] at h
  | cons a l =>
    rcases List.mem_cons.mp h with rfl | h'
    · exact List.mem_cons_self ..
    · exact List.mem_cons_of_mem _ (mem_mergeFrom h')

/-- every kept frequency exceeds `last` by more than the resolution, and any two kept
frequencies are more than the resolution apart -/
theorem mergeFrom_separated (wres : ℚ) (hres : 0 ≤ wres) (last : ℚ) (l : List ℚ) :
    (∀ w ∈ mergeFrom wres last l, wres < w - last) ∧
      (mergeFrom wres last l).Pairwise (fun a b => wres < b - a) := by
  induction l generalizing last with
  | nil => simp [mergeFrom]
  | cons a l ih =>
    unfold mergeFrom
    split
    · rename_i hk
      obtain ⟨h1, h2⟩ := ih a
      refine ⟨?_, List.pairwise_cons.mpr ⟨h1, h2⟩⟩
      intro w hw
      rcases List.mem_cons.mp hw with rfl | hw'
      · exact hk
      · have := h1 w hw'; linarith
    · exact ih last

theorem mergeRes_separated (wres : ℚ) (hres : 0 ≤ wres) (l : List ℚ) :
    (mergeRes wres l).Pairwise (fun a b => wres < b - a) := by
  cases l with
  | nil => simp [mergeRes]
  | cons a l =>
    obtain ⟨h1, h2⟩ := mergeFrom_separated wres hres a l
    exact List.pairwise_cons.mpr ⟨h1, h2⟩

/-- every frequency of the sorted list is represented: by `last`, or by a kept frequency below
it and within the resolution -/
theorem mergeFrom_covers (wres : ℚ) (hres : 0 ≤ wres) (last : ℚ) (l : List ℚ) (hs : l.Pairwise (· ≤ ·)) (hl : ∀ w ∈ l, last ≤ w) :
    ∀ w ∈ l, (w - last ≤ wres) ∨ ∃ k ∈ mergeFrom wres last l, k ≤ w ∧ w - k ≤ wres := by
  induction l generalizing last with
  | nil => simp
  | cons a l ih =>
    obtain ⟨ha, hs'⟩ := List.pairwise_cons.mp hs
    intro w hw
    unfold mergeFrom
    split
    · rename_i hk
      rcases List.mem_cons.mp hw with rfl | hw'
      · exact Or.inr ⟨w, List.mem_cons_self .., le_refl _, by rw [sub_self]; exact hres⟩
      · rcases ih a hs' (fun x hx => ha x hx) w hw' with h | ⟨k, hk1, hk2⟩
        · exact Or.inr ⟨a, List.mem_cons_self .., ha w hw', h⟩
        · exact Or.inr ⟨k, List.mem_cons_of_mem _ hk1, hk2⟩
    · rename_i hk
      rcases List.mem_cons.mp hw with rfl | hw'
      · exact Or.inl (not_lt.mp hk)
      · exact ih last hs' (fun x hx => hl x (List.mem_cons_of_mem _ hx)) w hw'

end CC
