/-
  CC.Proofs.StateAlgebra — the matrix algebra behind C10 / C11 / C12, over Mathlib's `Matrix`
  and an arbitrary field.

  `n` indexes the unknowns of the nodal system (node potentials, then currents of ideal
  voltage sources and inductors), `p` the states, `q` the inputs.  The formulas are the
  ones of `state_space_model.py:45-52`:

      T = DQᵀ·Ainv        A = Λ⁻¹·S        C = Tᵀ·S
      B = (−Λ⁻¹·Cᵀ)·QS    D = (Ainv − Tᵀ·Cᵀ)·QS

  and everything is derived from the two certificate equations `Ã·Ainv = 1`,
  `(DQᵀ·Ainv·DQ)·S = 1`, the symmetry of `Ã` and `Λ·Λ⁻¹ = 1`.
-/
import Mathlib.LinearAlgebra.Matrix.NonsingularInverse
import Mathlib.Algebra.Order.Field.Basic
import Mathlib.Algebra.Order.BigOperators.Ring.Finset
import Mathlib.Tactic.Ring
import Mathlib.Tactic.LinearCombination
import Mathlib.Tactic.Linarith

set_option linter.unusedSectionVars false

namespace CC.StateAlg
open Matrix

variable {K : Type} [Field K]
variable {n p q : Type} [Fintype n] [Fintype p] [Fintype q] [DecidableEq n] [DecidableEq p] [DecidableEq q]

/-- `transformed_inv_A_tilde` -/
def ssT (DQ : Matrix n p K) (Ainv : Matrix n n K) : Matrix p n K := DQᵀ * Ainv
/-- `A = invLambda @ sorted_A_tilde` -/
def ssA (Li S : Matrix p p K) : Matrix p p K := Li * S
/-- `C = transformed_inv_A_tilde.T @ sorted_A_tilde` -/
def ssC (DQ : Matrix n p K) (Ainv : Matrix n n K) (S : Matrix p p K) : Matrix n p K := (ssT DQ Ainv)ᵀ * S
/-- `B = (-invLambda @ C.T) @ QS` -/
def ssB (DQ : Matrix n p K) (QS : Matrix n q K) (Ainv : Matrix n n K) (Li S : Matrix p p K) : Matrix p q K :=
  (-(Li * (ssC DQ Ainv S)ᵀ)) * QS
/-- `D = (inv_A_tilde - transformed_inv_A_tilde.T @ C.T) @ QS` -/
def ssD (DQ : Matrix n p K) (QS : Matrix n q K) (Ainv : Matrix n n K) (S : Matrix p p K) : Matrix n q K :=
  (Ainv - (ssT DQ Ainv)ᵀ * (ssC DQ Ainv S)ᵀ) * QS

section core
variable {At Ainv : Matrix n n K} {DQ : Matrix n p K} {QS : Matrix n q K} {L Li S : Matrix p p K}

theorem Ainv_mul (hA : At * Ainv = 1) : Ainv * At = 1 := mul_eq_one_comm.mp hA

/-- the inverse of a symmetric matrix is symmetric -/
theorem Ainv_symm (hA : At * Ainv = 1) (hs : Atᵀ = At) : Ainvᵀ = Ainv := by
  have h1 : Ainvᵀ * At = 1 := by
    have := congrArg Matrix.transpose hA
    rwa [transpose_mul, hs, transpose_one] at this
  calc Ainvᵀ = Ainvᵀ * (At * Ainv) := by rw [hA, Matrix.mul_one]
    _ = (Ainvᵀ * At) * Ainv := (Matrix.mul_assoc _ _ _).symm
    _ = Ainv := by rw [h1, Matrix.one_mul]

theorem M_symm (hA : At * Ainv = 1) (hs : Atᵀ = At) : (DQᵀ * Ainv * DQ)ᵀ = DQᵀ * Ainv * DQ := by
  rw [transpose_mul, transpose_mul, transpose_transpose, Ainv_symm hA hs, Matrix.mul_assoc]

/-- `sorted_A_tilde` is symmetric because `Ã` is (C11_symm_S) -/
theorem S_symm (hA : At * Ainv = 1) (hs : Atᵀ = At) (hS : (DQᵀ * Ainv * DQ) * S = 1) : Sᵀ = S := by
  have hM := M_symm (DQ := DQ) hA hs
  have h1 : Sᵀ * (DQᵀ * Ainv * DQ) = 1 := by
    have := congrArg Matrix.transpose hS
    rwa [transpose_mul, hM, transpose_one] at this
  calc Sᵀ = Sᵀ * ((DQᵀ * Ainv * DQ) * S) := by rw [hS, Matrix.mul_one]
    _ = (Sᵀ * (DQᵀ * Ainv * DQ)) * S := (Matrix.mul_assoc _ _ _).symm
    _ = S := by rw [h1, Matrix.one_mul]

theorem ssC_eq (hA : At * Ainv = 1) (hs : Atᵀ = At) : ssC DQ Ainv S = Ainv * (DQ * S) := by
  unfold ssC ssT
  rw [transpose_mul, transpose_transpose, Ainv_symm hA hs, Matrix.mul_assoc]

theorem ssCt_eq (hA : At * Ainv = 1) (hs : Atᵀ = At) (hS : (DQᵀ * Ainv * DQ) * S = 1) :
    (ssC DQ Ainv S)ᵀ = S * (DQᵀ * Ainv) := by
  rw [ssC_eq hA hs, transpose_mul, transpose_mul, S_symm hA hs hS, Ainv_symm hA hs, Matrix.mul_assoc]

/-- `DQᵀ·C = 1`: the states are read back from the outputs -/
theorem DQt_C (hA : At * Ainv = 1) (hs : Atᵀ = At) (hS : (DQᵀ * Ainv * DQ) * S = 1) :
    DQᵀ * ssC DQ Ainv S = 1 := by
  rw [ssC_eq hA hs, ← Matrix.mul_assoc, ← Matrix.mul_assoc, hS]

/-- `DQᵀ·D = 0` -/
theorem DQt_D (hA : At * Ainv = 1) (hs : Atᵀ = At) (hS : (DQᵀ * Ainv * DQ) * S = 1) :
    DQᵀ * ssD DQ QS Ainv S = 0 := by
  unfold ssD
  rw [ssCt_eq hA hs hS]
  unfold ssT
  rw [transpose_mul, transpose_transpose, Ainv_symm hA hs, ← Matrix.mul_assoc, Matrix.mul_sub]
  have : DQᵀ * (Ainv * DQ * (S * (DQᵀ * Ainv))) = DQᵀ * Ainv := by
    calc DQᵀ * (Ainv * DQ * (S * (DQᵀ * Ainv)))
        = ((DQᵀ * Ainv * DQ) * S) * (DQᵀ * Ainv) := by simp only [Matrix.mul_assoc]
      _ = DQᵀ * Ainv := by rw [hS, Matrix.one_mul]
  rw [this, sub_self, Matrix.zero_mul]

/-- `Ã·C = DQ·Λ·A` -/
theorem At_C (hA : At * Ainv = 1) (hs : Atᵀ = At) (hL : L * Li = 1) :
    At * ssC DQ Ainv S = DQ * (L * ssA Li S) := by
  rw [ssC_eq hA hs]
  unfold ssA
  rw [← Matrix.mul_assoc, hA, Matrix.one_mul, ← Matrix.mul_assoc L, hL, Matrix.one_mul]

/-- `Ã·D = QS + DQ·Λ·B` -/
theorem At_D (hA : At * Ainv = 1) (hs : Atᵀ = At) (hS : (DQᵀ * Ainv * DQ) * S = 1) (hL : L * Li = 1) :
    At * ssD DQ QS Ainv S = QS + DQ * (L * ssB DQ QS Ainv Li S) := by
  unfold ssD ssB
  rw [ssCt_eq hA hs hS]
  unfold ssT
  rw [transpose_mul, transpose_transpose, Ainv_symm hA hs]
  have e1 : At * ((Ainv - Ainv * DQ * (S * (DQᵀ * Ainv))) * QS)
      = QS - DQ * (S * (DQᵀ * Ainv)) * QS := by
    rw [← Matrix.mul_assoc, Matrix.mul_sub, hA, ← Matrix.mul_assoc At, ← Matrix.mul_assoc At, hA,
      Matrix.one_mul, Matrix.sub_mul, Matrix.one_mul]
  have e2 : L * (-(Li * (S * (DQᵀ * Ainv))) * QS) = -(S * (DQᵀ * Ainv)) * QS := by
    rw [← Matrix.mul_assoc, Matrix.mul_neg, ← Matrix.mul_assoc L, hL, Matrix.one_mul]
  rw [e1, e2, Matrix.neg_mul, Matrix.mul_neg, ← sub_eq_add_neg, Matrix.mul_assoc DQ]

/-- **The per-sample system.**  For every state `x` and input `u` (no differential equation is
assumed): the output vector `y = C x + D u` satisfies the nodal equations with the reactive
elements replaced by sources of strength `Λ ẋ`, `ẋ := A x + B u`, and the state is read back
from `y` by `DQᵀ`. -/
theorem sample_system (hA : At * Ainv = 1) (hs : Atᵀ = At) (hS : (DQᵀ * Ainv * DQ) * S = 1)
    (hL : L * Li = 1) (x : p → K) (u : q → K) :
    At *ᵥ (ssC DQ Ainv S *ᵥ x + ssD DQ QS Ainv S *ᵥ u)
        = QS *ᵥ u + DQ *ᵥ (L *ᵥ (ssA Li S *ᵥ x + ssB DQ QS Ainv Li S *ᵥ u))
    ∧ DQᵀ *ᵥ (ssC DQ Ainv S *ᵥ x + ssD DQ QS Ainv S *ᵥ u) = x := by
  constructor
  · rw [mulVec_add, mulVec_mulVec, mulVec_mulVec, At_C hA hs hL, At_D hA hs hS hL, add_mulVec,
      mulVec_add, mulVec_add, ← mulVec_mulVec, ← mulVec_mulVec, ← mulVec_mulVec, ← mulVec_mulVec]
    abel
  · rw [mulVec_add, mulVec_mulVec, mulVec_mulVec, DQt_C hA hs hS, DQt_D hA hs hS, one_mulVec,
      zero_mulVec, add_zero]

/-- **C10, realisation.**  If `s·x = A x + B u` (i.e. `x = (s − A)⁻¹ B u`) then `y = C x + D u`
solves the augmented nodal system at complex frequency `s`, and `x = DQᵀ y`. -/
theorem realisation (hA : At * Ainv = 1) (hs : Atᵀ = At) (hS : (DQᵀ * Ainv * DQ) * S = 1)
    (hL : L * Li = 1) (s : K) (x : p → K) (u : q → K)
    (hx : s • x = ssA Li S *ᵥ x + ssB DQ QS Ainv Li S *ᵥ u) :
    (At - s • (DQ * L * DQᵀ)) *ᵥ (ssC DQ Ainv S *ᵥ x + ssD DQ QS Ainv S *ᵥ u) = QS *ᵥ u
    ∧ DQᵀ *ᵥ (ssC DQ Ainv S *ᵥ x + ssD DQ QS Ainv S *ᵥ u) = x := by
  obtain ⟨h1, h2⟩ := sample_system (QS := QS) hA hs hS hL x u
  refine ⟨?_, h2⟩
  rw [sub_mulVec, h1, smul_mulVec, ← mulVec_mulVec, h2, ← mulVec_mulVec, ← hx, mulVec_smul, mulVec_smul]
  abel

/-- resolvent form of the hypothesis of `realisation` -/
theorem resolvent_state {A : Matrix p p K} {R : Matrix p p K} (s : K) (hR : (s • (1 : Matrix p p K) - A) * R = 1)
    (b : p → K) : s • (R *ᵥ b) = A *ᵥ (R *ᵥ b) + b := by
  have := congrArg (· *ᵥ b) hR
  simp only [one_mulVec, ← mulVec_mulVec, sub_mulVec, smul_mulVec, one_mulVec] at this
  rw [sub_eq_iff_eq_add] at this
  exact this.trans (add_comm _ _)

/-- **C10, DC gain / C12, settling.**  When `A x + B u = 0` the outputs are the DC solution
`Ãinv·(QS u)` of the nodal system. -/
theorem dc_gain (hA : At * Ainv = 1) (hs : Atᵀ = At) (hS : (DQᵀ * Ainv * DQ) * S = 1)
    (hL : L * Li = 1) (x : p → K) (u : q → K)
    (hx : ssA Li S *ᵥ x + ssB DQ QS Ainv Li S *ᵥ u = 0) :
    ssC DQ Ainv S *ᵥ x + ssD DQ QS Ainv S *ᵥ u = Ainv *ᵥ (QS *ᵥ u) := by
  obtain ⟨h1, _⟩ := sample_system (QS := QS) hA hs hS hL x u
  rw [hx, mulVec_zero, mulVec_zero, add_zero] at h1
  have := congrArg (Ainv *ᵥ ·) h1
  simpa only [mulVec_mulVec, Ainv_mul hA, one_mulVec] using this

end core

/-! ### C11 -/
section passivity
variable {At Ainv Jn : Matrix n n K} {DQ : Matrix n p K} {Li S W J : Matrix p p K}

theorem dot_transpose_mulVec (M : Matrix p p K) (x : p → K) : x ⬝ᵥ Mᵀ *ᵥ x = x ⬝ᵥ M *ᵥ x := by
  rw [mulVec_transpose, dotProduct_comm, ← dotProduct_mulVec]

/-- `xᵀ(W A + Aᵀ W)x = −2·yᵀ(Jn Ã)y` with `y = C x`: the Lyapunov form is minus twice the form
of the signed nodal matrix, which for a circuit is the power dissipated in the resistors.
`Jn` is the signature (+1 on node rows, −1 on voltage-source rows), `J = W Λ⁻¹` the signature
(−1 on capacitor states, +1 on inductor states); `Jn·DQ = −DQ·J` says that capacitor columns of
`DQ` live in node rows and inductor columns in voltage-source rows. -/
theorem lyapunov_form (hA : At * Ainv = 1) (hs : Atᵀ = At) (hS : (DQᵀ * Ainv * DQ) * S = 1)
    (hW : Wᵀ = W) (hWJ : W * Li = J) (hJn : Jn * DQ = -(DQ * J)) (x : p → K) :
    x ⬝ᵥ (W * ssA Li S + (ssA Li S)ᵀ * W) *ᵥ x
      = -2 * ((ssC DQ Ainv S *ᵥ x) ⬝ᵥ (Jn * At) *ᵥ (ssC DQ Ainv S *ᵥ x)) := by
  have hSs := S_symm hA hs hS
  -- left side: 2·xᵀ J S x
  have hl : x ⬝ᵥ (W * ssA Li S + (ssA Li S)ᵀ * W) *ᵥ x = 2 * (x ⬝ᵥ (J * S) *ᵥ x) := by
    have e : (ssA Li S)ᵀ * W = (J * S)ᵀ := by
      unfold ssA; rw [← hWJ, transpose_mul, transpose_mul, transpose_mul, hW, Matrix.mul_assoc]
    have e' : W * ssA Li S = J * S := by unfold ssA; rw [← Matrix.mul_assoc, hWJ]
    rw [e, e', add_mulVec, dotProduct_add, dot_transpose_mulVec]; ring
  -- right side
  set y := ssC DQ Ainv S *ᵥ x with hy
  have hAy : At *ᵥ y = DQ *ᵥ (S *ᵥ x) := by
    rw [hy, mulVec_mulVec, ssC_eq hA hs, ← Matrix.mul_assoc, hA, Matrix.one_mul, ← mulVec_mulVec]
  have hDy : DQᵀ *ᵥ y = x := by
    rw [hy, mulVec_mulVec, DQt_C hA hs hS, one_mulVec]
  have hr : y ⬝ᵥ (Jn * At) *ᵥ y = -(x ⬝ᵥ (J * S) *ᵥ x) := by
    rw [← mulVec_mulVec, hAy, mulVec_mulVec, hJn, neg_mulVec, dotProduct_neg, ← mulVec_mulVec,
      dotProduct_mulVec, ← mulVec_transpose, hDy, mulVec_mulVec]
  rw [hl, hr]; ring

end passivity

section ordered
variable {F : Type} [Field F] [LinearOrder F] [IsStrictOrderedRing F]
variable {At Ainv Jn : Matrix n n F} {DQ : Matrix n p F} {Li S W J : Matrix p p F}

/-- **C11, Lyapunov inequality**: `xᵀ(W A + Aᵀ W)x ≤ 0` whenever the signed nodal form is
non-negative (the resistive network dissipates). -/
theorem lyapunov (hA : At * Ainv = 1) (hs : Atᵀ = At) (hS : (DQᵀ * Ainv * DQ) * S = 1)
    (hW : Wᵀ = W) (hWJ : W * Li = J) (hJn : Jn * DQ = -(DQ * J))
    (hpass : ∀ y : n → F, 0 ≤ y ⬝ᵥ (Jn * At) *ᵥ y) (x : p → F) :
    x ⬝ᵥ (W * ssA Li S + (ssA Li S)ᵀ * W) *ᵥ x ≤ 0 := by
  rw [lyapunov_form hA hs hS hW hWJ hJn x]
  have := hpass (ssC DQ Ainv S *ᵥ x)
  linarith

/-- the energy rate along `ẋ = A x`: `xᵀ W (A x) = ½ xᵀ(W A + Aᵀ W) x` -/
theorem energy_rate (A W : Matrix p p F) (hW : Wᵀ = W) (x : p → F) :
    x ⬝ᵥ W *ᵥ (A *ᵥ x) = (1 / 2) * (x ⬝ᵥ (W * A + Aᵀ * W) *ᵥ x) := by
  have e : Aᵀ * W = (W * A)ᵀ := by rw [transpose_mul, hW]
  rw [e, add_mulVec, dotProduct_add, dot_transpose_mulVec, mulVec_mulVec]; ring

theorem quad_diag_pos (w : p → F) (hw : ∀ i, 0 < w i) (a : p → F) :
    0 ≤ a ⬝ᵥ (diagonal w) *ᵥ a ∧ (a ≠ 0 → 0 < a ⬝ᵥ (diagonal w) *ᵥ a) := by
  have e : a ⬝ᵥ (diagonal w) *ᵥ a = ∑ i, w i * (a i * a i) := by
    simp only [dotProduct, mulVec_diagonal]
    exact Finset.sum_congr rfl fun i _ => by ring
  rw [e]
  refine ⟨Finset.sum_nonneg fun i _ => mul_nonneg (hw i).le (mul_self_nonneg _), fun ha => ?_⟩
  obtain ⟨i, hi⟩ : ∃ i, a i ≠ 0 := by
    by_contra h; exact ha (funext fun i => not_not.mp fun hi => h ⟨i, hi⟩)
  exact Finset.sum_pos' (fun i _ => mul_nonneg (hw i).le (mul_self_nonneg _))
    ⟨i, Finset.mem_univ i, mul_pos (hw i) (mul_self_pos.mpr hi)⟩

/-- **C11, eigenvalues**: a (complex) eigenpair `λ = α + jβ`, `v = a + jb` of `A`, written in real
form, has `α ≤ 0` when the Lyapunov inequality holds for a positive diagonal `W`. -/
theorem eig_re_nonpos (A : Matrix p p F) (w : p → F) (hw : ∀ i, 0 < w i)
    (hlyap : ∀ x : p → F, x ⬝ᵥ (diagonal w * A + Aᵀ * diagonal w) *ᵥ x ≤ 0)
    (α β : F) (a b : p → F) (hab : a ≠ 0 ∨ b ≠ 0)
    (ha : A *ᵥ a = α • a - β • b) (hb : A *ᵥ b = β • a + α • b) : α ≤ 0 := by
  have hW : (diagonal w)ᵀ = diagonal w := diagonal_transpose w
  have ea := energy_rate A (diagonal w) hW a
  have eb := energy_rate A (diagonal w) hW b
  rw [ha] at ea; rw [hb] at eb
  have hsym : a ⬝ᵥ diagonal w *ᵥ b = b ⬝ᵥ diagonal w *ᵥ a := by
    rw [dotProduct_mulVec, ← mulVec_transpose, hW, dotProduct_comm]
  simp only [mulVec_sub, mulVec_add, mulVec_smul, dotProduct_sub, dotProduct_add, dotProduct_smul,
    smul_eq_mul] at ea eb
  have pa := quad_diag_pos w hw a
  have pb := quad_diag_pos w hw b
  have la := hlyap a
  have lb := hlyap b
  set Ea := a ⬝ᵥ diagonal w *ᵥ a
  set Eb := b ⬝ᵥ diagonal w *ᵥ b
  have hpos : 0 < Ea + Eb := by
    rcases hab with h | h
    · have := pa.2 h; linarith [pb.1]
    · have := pb.2 h; linarith [pa.1]
  have hsum : α * (Ea + Eb) ≤ 0 := by
    have : α * (Ea + Eb) = (α * Ea - β * (a ⬝ᵥ diagonal w *ᵥ b)) + (β * (b ⬝ᵥ diagonal w *ᵥ a) + α * Eb) := by
      rw [hsym]; ring
    rw [this, ea, eb]; linarith
  by_contra hα
  have := mul_pos (not_le.mp hα) hpos
  linarith

end ordered

/-! ### block structure of the nodal matrix (the hypotheses of `lyapunov` for `Ã = [[Y, Bm],[Bmᵀ, 0]]`) -/
section blocks
variable {nn nv : Type} [Fintype nn] [Fintype nv] [DecidableEq nn] [DecidableEq nv]

/-- with `Jn = diag(1, −1)` the signed nodal form is the form of the node admittance matrix -/
theorem signed_form_blocks (Y : Matrix nn nn K) (Bm : Matrix nn nv K) (φ : nn → K) (i : nv → K) :
    (Sum.elim φ i) ⬝ᵥ ((fromBlocks (1 : Matrix nn nn K) 0 0 (-1 : Matrix nv nv K)) * fromBlocks Y Bm Bmᵀ 0)
        *ᵥ (Sum.elim φ i) = φ ⬝ᵥ Y *ᵥ φ := by
  have e : i ⬝ᵥ Bmᵀ *ᵥ φ = φ ⬝ᵥ Bm *ᵥ i := by
    rw [mulVec_transpose, dotProduct_comm, dotProduct_mulVec]
  rw [fromBlocks_multiply]
  simp only [Matrix.one_mul, Matrix.zero_mul, add_zero, zero_add, Matrix.neg_mul, Matrix.mul_zero]
  rw [fromBlocks_mulVec]
  simp only [Sum.elim_comp_inl, Sum.elim_comp_inr, sumElim_dotProduct_sumElim, zero_mulVec, add_zero,
    neg_mulVec, dotProduct_add, dotProduct_neg, e]
  ring

end blocks

end CC.StateAlg
