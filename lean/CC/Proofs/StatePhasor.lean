/-
  CC.Proofs.StatePhasor — from the per-sample circuit to the phasor circuit at complex frequency `s`:
  with `ẋ = s·x` and `x = DQᵀ y` (capacitor voltages, inductor currents) the source laws of the
  substituted network (capacitor current `C·s·v`, inductor voltage `L·s·i`) ARE the admittance /
  impedance laws of the phasor network; Kirchhoff's laws are untouched.
-/
import CC.Proofs.StateSample
set_option linter.unusedSectionVars false

namespace CC
open Matrix Mx

section transfer
variable {L K : Type} [DecidableEq L] [LabelOrd L] [Field K] [DecidableEq K]

theorem physCurrent_notLossy {e : Elem K} (h : e.isLossy = false) (i : K) : e.physCurrent i = i := by
  simp [Elem.physCurrent, h]

/-- two element substitutions of the same network without lossy elements: a report that solves the
first solves the second as soon as each branch's law carries over -/
theorem circuitEqs_transfer (N : Net L K) (f g : Branch L K → Elem K) (R : Report L K)
    (hf : ∀ b ∈ N.branches, (f b).isLossy = false) (hg : ∀ b ∈ N.branches, (g b).isLossy = false)
    (hlaw : ∀ b ∈ N.branches, (f b).lawResidual (R.v b.id) (R.i b.id) = 0 →
      (g b).lawResidual (R.v b.id) (R.i b.id) = 0)
    (h : CircuitEqs (N.mapElems f) R) : CircuitEqs (N.mapElems g) R where
  ref_zero := h.ref_zero
  volt := by
    intro b' hb'
    simp only [Net.mapElems, List.mem_map] at hb'
    obtain ⟨b, hb, rfl⟩ := hb'
    exact h.volt { b with e := f b } (by simp only [Net.mapElems, List.mem_map]; exact ⟨b, hb, rfl⟩)
  law := by
    intro b' hb'
    simp only [Net.mapElems, List.mem_map] at hb'
    obtain ⟨b, hb, rfl⟩ := hb'
    exact hlaw b hb (h.law { b with e := f b } (by simp only [Net.mapElems, List.mem_map]; exact ⟨b, hb, rfl⟩))
  kcl := by
    intro n hn
    have hn' : n ∈ (N.mapElems f).allLabels := by
      simpa [Net.allLabels, Net.mapElems, Function.comp_def] using hn
    have := h.kcl n hn'
    unfold kclResidual at this ⊢
    simp only [Net.mapElems, List.map_map] at this ⊢
    rw [← this]
    congr 1
    apply List.map_congr_left
    intro b hb
    simp only [Function.comp, physCurrent_notLossy (hf b hb), physCurrent_notLossy (hg b hb), incidence]

end transfer

section states
variable {L K : Type} [DecidableEq L] [LabelOrd L] [Field K] [DecidableEq K]

theorem sumTo_single (n r : Nat) (hr : r < n) (f : Nat → K) :
    sumTo n (fun j => if j = r then f j else 0) = f r := by
  induction n generalizing r f with
  | zero => omega
  | succ n ih =>
    rw [sumTo_succ']
    cases r with
    | zero =>
      rw [sumTo_eq_zero n _ (fun j _ => by simp)]; simp
    | succ r =>
      have := ih r (by omega) (fun j => f (j + 1))
      simp only [Nat.add_right_cancel_iff] at this ⊢
      rw [this]; simp

theorem deltaEntry_eq_dir (N : Net L K) (b : Branch L K) (n : L) (hn : n ≠ N.zero) (hsl : b.n1 ≠ b.n2) :
    deltaEntry b n = b.dir n := by
  rw [deltaEntry_eq_neg_Q N b n hn hsl, Q_eq_neg_dir N b n hn hsl, neg_neg]

/-- **the `k`-th capacitor state is the capacitor's voltage**: column `k` of `DQ` against `y` is
`φ(node1) − φ(node2)` -/
theorem dqT_cap (N : Net L K) (cvals lvals : ValDict K) {Delta : List (List K)} (hids : N.ids.Nodup)
    (hD : ssDelta N cvals = .ok Delta) (yL : List K) {k : Nat} (hk : k < cvals.length)
    {b : Branch L K} (hb : b ∈ N.branches) (hkey : cvals.keys[k]? = some b.id) (hsl : b.n1 ≠ b.n2) :
    sumTo N.nY (fun i => Mx.get (ssDQ N cvals lvals Delta) i k * yL.getD i 0)
      = N.pot (N.solOf yL) b.n1 - N.pot (N.solOf yL) b.n2 := by
  have hks : k < ssNStates N cvals lvals := by unfold ssNStates; omega
  unfold Net.nY
  rw [sumTo_add]
  have h2 : sumTo N.nV (fun j => Mx.get (ssDQ N cvals lvals Delta) (N.nN + j) k * yL.getD (N.nN + j) 0) = 0 := by
    apply sumTo_eq_zero
    intro j hj
    have hi : N.nN + j < N.nY := by unfold Net.nY; omega
    have hnone : N.nodes[N.nN + j]? = none := List.getElem?_eq_none (by unfold Net.nN; omega)
    rw [get_ssDQ N cvals lvals Delta hi hks, if_pos hk, get_Delta hD, hkey, hnone]
    simp
  rw [h2, add_zero]
  let G : L → Nat → K := fun n i => deltaEntry b n * yL.getD i 0
  have h1 : sumTo N.nN (fun i => Mx.get (ssDQ N cvals lvals Delta) i k * yL.getD i 0)
      = sumTo N.nodes.length (fun i => (N.nodes[i]?).elim 0 (fun n => G n i)) := by
    apply rhs_sumTo_congr
    intro i hi
    have hi' : i < N.nodes.length := hi
    have hiy : i < N.nY := by unfold Net.nY; omega
    rw [get_ssDQ N cvals lvals Delta hiy hks, if_pos hk, get_Delta hD, hkey,
      List.getElem?_eq_getElem hi']
    simp only [get?_of_mem N hids hb, Option.elim_some, G]
  rw [h1, sumTo_nodup_list N.nodes (nodes_nodup N) G, ← rowVS_eq N (N.solOf yL) b hb hsl]
  unfold Net.rowVS
  congr 1
  apply List.map_congr_left
  intro n hn
  have hnz : n ≠ N.zero := ((mem_nodes_iff N n).mp hn).2
  simp only [G, deltaEntry_eq_dir N b n hnz hsl, Net.solOf]

/-- **the `k`-th inductor state is the inductor's current**: column `nc + k` of `DQ` against `y` is the
entry of `y` that belongs to that voltage-source unknown -/
theorem dqT_ind (N : Net L K) (cvals lvals : ValDict K) (Delta : List (List K)) (hids : N.ids.Nodup)
    (hkeys : ∀ id ∈ lvals.keys, id ∈ N.vsIds) (yL : List K) {k : Nat} (hk : k < lvals.keys.length) :
    sumTo N.nY (fun i => Mx.get (ssDQ N cvals lvals Delta) i (cvals.length + k) * yL.getD i 0)
      = (N.solOf yL).ivs lvals.keys[k] := by
  have hlenC := csSorted_length N hids
  have hks : cvals.length + k < ssNStates N cvals lvals := by
    unfold ssNStates; rw [colsL_length N lvals hkeys]; omega
  obtain ⟨r, hr, hrlt, _⟩ := idxOf?_of_mem (hkeys _ (List.getElem_mem hk))
  have hc : (ssColsL N lvals).getD (cvals.length + k - cvals.length) 0 = N.nC + r := by
    have := colsL_getElem? N lvals hkeys k
    rw [List.getElem?_eq_getElem hk] at this
    simp only [Option.bind_some, hr, Option.map_some] at this
    rw [Nat.add_sub_cancel_left, List.getD_eq_getElem?_getD, this]; rfl
  unfold Net.nY
  rw [sumTo_add]
  have h1 : sumTo N.nN (fun i => Mx.get (ssDQ N cvals lvals Delta) i (cvals.length + k) * yL.getD i 0) = 0 := by
    apply sumTo_eq_zero
    intro i hi
    have hi' : i < N.nodes.length := hi
    have hiy : i < N.nY := by unfold Net.nY; omega
    rw [get_ssDQ N cvals lvals Delta hiy hks, if_neg (by omega), hc, get_ssQ, List.getElem?_eq_getElem hi']
    simp only
    rw [List.getElem?_eq_none (by rw [hlenC]; omega)]
    simp
  rw [h1, zero_add]
  have h2 : sumTo N.nV (fun j => Mx.get (ssDQ N cvals lvals Delta) (N.nN + j) (cvals.length + k) * yL.getD (N.nN + j) 0)
      = sumTo N.nV (fun j => if j = r then yL.getD (N.nN + j) 0 else 0) := by
    apply rhs_sumTo_congr
    intro j hj
    have hi : N.nN + j < N.nY := by unfold Net.nY; omega
    have hnone : N.nodes[N.nN + j]? = none := List.getElem?_eq_none (by unfold Net.nN; omega)
    rw [get_ssDQ N cvals lvals Delta hi hks, if_neg (by omega), hc, get_ssQ, hnone]
    simp only [Nat.add_sub_cancel_left]
    by_cases hjr : j = r
    · simp [hjr, hrlt, Net.nV]
    · have : ¬ r = j := fun e => hjr e.symm
      simp [hjr, this]
  rw [h2, sumTo_single N.nV r hrlt]
  simp [Net.solOf, hr, Net.nN]

end states

section phasor
variable {L K : Type} [DecidableEq L] [LabelOrd L] [Field K] [DecidableEq K]

theorem thevenin_src0_notLossy (Y : K) : (Elem.thevenin Y (0 : K)).isLossy = false := by
  unfold Elem.isLossy Elem.kind
  by_cases h : Y = 0 <;> simp [h]

theorem norton_src0_notLossy (Z : K) : (Elem.norton Z (0 : K)).isLossy = false := by
  unfold Elem.isLossy Elem.kind
  by_cases h : Z = 0 <;> simp [h]

theorem setSource_notLossy {N : Net L K} {cvals lvals : ValDict K} (h : RLC N cvals lvals) (u : List K)
    {b : Branch L K} (hb : b ∈ N.branches) : (setSource (ssSources N lvals) u b).isLossy = false := by
  have hids := h.wf.ids_nodup
  unfold setSource
  cases hm : idxOf? b.id (ssSources N lvals) with
  | none => exact h.notLossy b hb
  | some m =>
    have hmem := idxOf?_some_mem hm
    rcases List.mem_append.mp hmem with h1 | h1
    · obtain ⟨I, hI⟩ := cs_form ((id_mem_csIds_iff N hids b hb).mp h1) (h.notLossy b hb)
      simp [hI, Elem.isLossy, Elem.kind]
    · have hvs := (id_mem_vsIds_iff N hids b hb).mp (List.mem_filter.mp h1).1
      cases he : b.e with
      | norton Z V =>
        have hz : Z = 0 := by simpa [he, Elem.isIdealVS] using hvs
        simp [hz, Elem.isLossy, Elem.kind]
      | thevenin Y I => simp [he, Elem.isIdealVS] at hvs

theorem solOf_mapElems (N : Net L K) (f : Branch L K → Elem K) (hk : KeepsStructure N f) (x : List K) :
    (N.mapElems f).solOf x = N.solOf x := by
  unfold Net.solOf
  rw [mapElems_nodes, mapElems_vsIds N f hk]

/-- the sample network's accessor report: voltage of a branch, current of an ideal voltage source -/
theorem report_v_mapElems (N : Net L K) (f : Branch L K → Elem K) (hk : KeepsStructure N f) (hids : N.ids.Nodup)
    (x : List K) {b : Branch L K} (hb : b ∈ N.branches) :
    ((N.mapElems f).reportOf x).v b.id = N.pot (N.solOf x) b.n1 - N.pot (N.solOf x) b.n2 := by
  have hP : (N.mapElems f).ids.Nodup := by rw [mapElems_ids]; exact hids
  have hb' : ({ b with e := f b } : Branch L K) ∈ (N.mapElems f).branches := by
    simp only [Net.mapElems, List.mem_map]; exact ⟨b, hb, rfl⟩
  have := reportOf_v (N.mapElems f) x hP hb'
  simp only at this
  rw [this, Net.vOf, solOf_mapElems N f hk]
  rfl

theorem report_i_vs_mapElems (N : Net L K) (f : Branch L K → Elem K) (hk : KeepsStructure N f) (hids : N.ids.Nodup)
    (x : List K) {b : Branch L K} (hb : b ∈ N.branches) (hvs : b.e.isIdealVS = true) :
    ((N.mapElems f).reportOf x).i b.id = (N.solOf x).ivs b.id := by
  have hP : (N.mapElems f).ids.Nodup := by rw [mapElems_ids]; exact hids
  have hb' : ({ b with e := f b } : Branch L K) ∈ (N.mapElems f).branches := by
    simp only [Net.mapElems, List.mem_map]; exact ⟨b, hb, rfl⟩
  have := reportOf_i (N.mapElems f) x hP hb'
  simp only at this
  rw [this, Net.curOf, solOf_mapElems N f hk]
  simp [(hk b hb).1, hvs]

/-- the phasor network's element substitution -/
def phasorElem (cvals lvals : ValDict K) (sources : List String) (u : List K) (s : K) (b : Branch L K) : Elem K :=
  match idxOf? b.id cvals.keys with
  | some k => .thevenin (s * cvals.vals.getD k 0) 0
  | none =>
    match idxOf? b.id lvals.keys with
    | some k => .norton (s * lvals.vals.getD k 0) 0
    | none => setSource sources u b

theorem phasorNet_eq (N : Net L K) (cvals lvals : ValDict K) (sources : List String) (u : List K) (s : K) :
    phasorNet N cvals lvals sources u s = N.mapElems (phasorElem cvals lvals sources u s) := rfl

/-- the sample network's element substitution -/
def sampleElem (cvals lvals : ValDict K) (sources : List String) (u xdot : List K) (b : Branch L K) : Elem K :=
  match idxOf? b.id cvals.keys with
  | some k => .thevenin 0 (cvals.vals.getD k 0 * xdot.getD k 0)
  | none =>
    match idxOf? b.id lvals.keys with
    | some k => .norton 0 (lvals.vals.getD k 0 * xdot.getD (cvals.length + k) 0)
    | none => setSource sources u b

theorem sampleNet_eq (N : Net L K) (cvals lvals : ValDict K) (sources : List String) (u xdot : List K) :
    sampleNet N cvals lvals sources u xdot = N.mapElems (sampleElem cvals lvals sources u xdot) := rfl

/-- **The augmented nodal system is the circuit.**  Every solution `y` of
`(Ã − s·DQ Λ DQᵀ) y = QS u` reports — potentials from `y`, currents of voltage sources and inductors
from `y`, capacitor currents `C·s·v`, the rest by the branch laws — a solution of the circuit
equations of the phasor network at complex frequency `s` driven by `u` (capacitor `Y = s·C`,
inductor `Z = s·L`). -/
theorem augmented_is_circuit {N : Net L K} {cvals lvals : ValDict K} {Delta : List (List K)}
    (h : RLC N cvals lvals) (hD : ssDelta N cvals = .ok Delta) (s : K)
    (y : Fin N.nY → K) (u : Fin (ssNInputs N lvals) → K)
    (hsys : (toM N.nY N.nY N.mnaA
              - s • (toM N.nY (ssNStates N cvals lvals) (ssDQ N cvals lvals Delta)
                  * (diagonal fun i : Fin (ssNStates N cvals lvals) => (ssLambda cvals lvals).getD i 0)
                  * (toM N.nY (ssNStates N cvals lvals) (ssDQ N cvals lvals Delta))ᵀ)) *ᵥ y
            = toM N.nY (ssNInputs N lvals) (ssQS N lvals) *ᵥ u) :
    let x := (toM N.nY (ssNStates N cvals lvals) (ssDQ N cvals lvals Delta))ᵀ *ᵥ y
    let P := sampleNet N cvals lvals (ssSources N lvals) (List.ofFn u) (List.ofFn (s • x))
    CircuitEqs (phasorNet N cvals lvals (ssSources N lvals) (List.ofFn u) s) (P.reportOf (List.ofFn y)) := by
  intro x P
  have hids := h.wf.ids_nodup
  set DQ := toM N.nY (ssNStates N cvals lvals) (ssDQ N cvals lvals Delta) with hDQ
  set Lam := (diagonal fun i : Fin (ssNStates N cvals lvals) => (ssLambda cvals lvals).getD i 0) with hLam
  -- the per-sample system with ẋ = s·x
  have hsys' : toM N.nY N.nY N.mnaA *ᵥ y
      = toM N.nY (ssNInputs N lvals) (ssQS N lvals) *ᵥ u + DQ *ᵥ (Lam *ᵥ (s • x)) := by
    rw [sub_mulVec, smul_mulVec, ← mulVec_mulVec, ← mulVec_mulVec] at hsys
    rw [mulVec_smul, mulVec_smul]
    have : toM N.nY N.nY N.mnaA *ᵥ y = toM N.nY (ssNInputs N lvals) (ssQS N lvals) *ᵥ u
        + s • DQ *ᵥ Lam *ᵥ DQᵀ *ᵥ y := by rw [← hsys]; abel
    exact this
  have hP : CircuitEqs P (P.reportOf (List.ofFn y)) := sample_circuit_of_system h hD y (s • x) u hsys'
  rw [phasorNet_eq]
  have hkP := sampleNet_keeps N cvals lvals (ssSources N lvals) (List.ofFn u) (List.ofFn (s • x)) h.placeholders
  refine circuitEqs_transfer N (sampleElem cvals lvals (ssSources N lvals) (List.ofFn u) (List.ofFn (s • x))) _ _
    ?_ ?_ ?_ hP
  · intro b hb
    unfold sampleElem
    cases hc : idxOf? b.id cvals.keys with
    | some k => simp [Elem.isLossy, Elem.kind]
    | none =>
      cases hl : idxOf? b.id lvals.keys with
      | some k => simp [Elem.isLossy, Elem.kind]
      | none => exact setSource_notLossy h _ hb
  · intro b hb
    unfold phasorElem
    cases hc : idxOf? b.id cvals.keys with
    | some k => exact thevenin_src0_notLossy _
    | none =>
      cases hl : idxOf? b.id lvals.keys with
      | some k => exact norton_src0_notLossy _
      | none => exact setSource_notLossy h _ hb
  · intro b hb
    have hxk : ∀ k (hk : k < ssNStates N cvals lvals), (List.ofFn (s • x)).getD k 0
        = s * sumTo N.nY (fun i => Mx.get (ssDQ N cvals lvals Delta) i k * (List.ofFn y).getD i 0) := by
      intro k hk
      have e1 : (List.ofFn (s • x)).getD k 0 = (s • x) ⟨k, hk⟩ := by
        simp [List.getD_eq_getElem?_getD, hk]
      rw [e1, Pi.smul_apply, smul_eq_mul]
      congr 1
      show ((DQ)ᵀ *ᵥ y) ⟨k, hk⟩ = _
      rw [sumTo_eq]
      simp only [Matrix.mulVec, dotProduct, Matrix.transpose_apply, hDQ, toM_apply]
      apply Finset.sum_congr rfl
      intro i _
      simp [List.getD_eq_getElem?_getD]
    unfold sampleElem phasorElem
    cases hc : idxOf? b.id cvals.keys with
    | some k =>
      have hklt : k < cvals.keys.length := idxOf?_lt hc
      have hk : k < cvals.length := by simpa [ValDict.keys] using hklt
      have hks : k < ssNStates N cvals lvals := by unfold ssNStates; omega
      obtain ⟨k', hk', _, hget⟩ := idxOf?_of_mem (idxOf?_some_mem hc)
      rw [hc] at hk'; cases hk'
      have hv : (P.reportOf (List.ofFn y)).v b.id
          = N.pot (N.solOf (List.ofFn y)) b.n1 - N.pot (N.solOf (List.ofFn y)) b.n2 :=
        report_v_mapElems N _ hkP hids (List.ofFn y) hb
      have hx := dqT_cap N cvals lvals hids hD (List.ofFn y) hk hb hget (h.wf.no_self_loop b hb)
      simp only [hxk k hks, hx, ← hv]
      intro hlaw
      simp only [Elem.lawResidual, if_true] at hlaw ⊢
      have hi : (P.reportOf (List.ofFn y)).i b.id
          = cvals.vals.getD k 0 * (s * (P.reportOf (List.ofFn y)).v b.id) := by
        have := sub_eq_zero.mp hlaw; exact this
      by_cases hz : s * cvals.vals.getD k 0 = 0
      · simp only [hz, if_true, sub_zero]
        rw [hi, ← mul_assoc, mul_comm (cvals.vals.getD k 0) s, hz, zero_mul]
      · simp only [hz, if_false]
        rw [hi]; ring
    | none =>
      cases hl : idxOf? b.id lvals.keys with
      | some k =>
        have hklt : k < lvals.keys.length := idxOf?_lt hl
        have hks : cvals.length + k < ssNStates N cvals lvals := by
          unfold ssNStates; rw [colsL_length N lvals h.indKeys]; omega
        obtain ⟨k', hk', _, hget⟩ := idxOf?_of_mem (idxOf?_some_mem hl)
        rw [hl] at hk'; cases hk'
        have hbid : lvals.keys[k] = b.id := by
          rw [List.getElem?_eq_getElem hklt] at hget; exact Option.some.inj hget
        have hvs : b.e.isIdealVS = true := by
          rw [h.indShort b hb (idxOf?_some_mem hl)]; simp [Elem.isIdealVS]
        have hi : (P.reportOf (List.ofFn y)).i b.id = (N.solOf (List.ofFn y)).ivs b.id :=
          report_i_vs_mapElems N _ hkP hids (List.ofFn y) hb hvs
        have hx := dqT_ind N cvals lvals Delta hids h.indKeys (List.ofFn y) hklt
        rw [hbid] at hx
        simp only [hxk _ hks, hx, ← hi]
        intro hlaw
        simp only [Elem.lawResidual, if_true] at hlaw ⊢
        have hv : (P.reportOf (List.ofFn y)).v b.id
            = lvals.vals.getD k 0 * (s * (P.reportOf (List.ofFn y)).i b.id) := sub_eq_zero.mp hlaw
        by_cases hz : s * lvals.vals.getD k 0 = 0
        · simp only [hz, if_true, sub_zero]
          rw [hv, ← mul_assoc, mul_comm (lvals.vals.getD k 0) s, hz, zero_mul]
        · simp only [hz, if_false]
          rw [hv]; ring
      | none => exact fun hlaw => hlaw

/-- **Transfer behaviour of the executable model.**  With `x = (s − A)⁻¹ B u` (written
`s·x = A x + B u`) the outputs `y = C x + D u` report a solution of the circuit equations of the
phasor network at complex frequency `s` with the sources at amplitudes `u`. -/
theorem model_transfer {N : Net L K} {cvals lvals : ValDict K} {Ainv S Delta : List (List K)}
    {m : SSMats K} (h : RLC N cvals lvals) (hD : ssDelta N cvals = .ok Delta)
    (hm : stateSpaceMatrices N cvals lvals Ainv S = .ok m)
    (hc : ModelCert id N cvals lvals Ainv S Delta)
    (s : K) (x : Fin (ssNStates N cvals lvals) → K) (u : Fin (ssNInputs N lvals) → K)
    (hx : s • x = toM _ _ m.A *ᵥ x + toM _ _ m.B *ᵥ u) :
    let y := toM N.nY (ssNStates N cvals lvals) m.C *ᵥ x + toM N.nY (ssNInputs N lvals) m.D *ᵥ u
    let P := sampleNet N cvals lvals (ssSources N lvals) (List.ofFn u) (List.ofFn (s • x))
    CircuitEqs (phasorNet N cvals lvals (ssSources N lvals) (List.ofFn u) s) (P.reportOf (List.ofFn y)) := by
  intro y P
  obtain ⟨h1, h2⟩ := model_realisation id hD hm hc s x u hx
  simp only [ssAtilde_id] at h1
  have := augmented_is_circuit h hD s y u h1
  simp only at this
  rw [h2] at this
  exact this

/-- … and for a well-posed phasor network they are THE solution: they agree with every solution of its
circuit equations on every potential, voltage and current (C01_unique) -/
theorem model_transfer_unique {N : Net L K} {cvals lvals : ValDict K} {Ainv S Delta : List (List K)}
    {m : SSMats K} (h : RLC N cvals lvals) (hD : ssDelta N cvals = .ok Delta)
    (hm : stateSpaceMatrices N cvals lvals Ainv S = .ok m)
    (hc : ModelCert id N cvals lvals Ainv S Delta)
    (s : K) (x : Fin (ssNStates N cvals lvals) → K) (u : Fin (ssNInputs N lvals) → K)
    (hx : s • x = toM _ _ m.A *ᵥ x + toM _ _ m.B *ᵥ u)
    (hw : WellPosed (phasorNet N cvals lvals (ssSources N lvals) (List.ofFn u) s))
    (R : Report L K) (hR : CircuitEqs (phasorNet N cvals lvals (ssSources N lvals) (List.ofFn u) s) R) :
    let y := toM N.nY (ssNStates N cvals lvals) m.C *ᵥ x + toM N.nY (ssNInputs N lvals) m.D *ᵥ u
    let P := sampleNet N cvals lvals (ssSources N lvals) (List.ofFn u) (List.ofFn (s • x))
    (P.reportOf (List.ofFn y)).AgreeOn (phasorNet N cvals lvals (ssSources N lvals) (List.ofFn u) s) R := by
  intro y P
  have hids : (phasorNet N cvals lvals (ssSources N lvals) (List.ofFn u) s).ids.Nodup := by
    rw [phasorNet_eq, mapElems_ids]; exact h.wf.ids_nodup
  exact C01_unique _ hids hw _ _ (model_transfer h hD hm hc s x u hx) hR

end phasor
end CC
