/-
  CC.Proofs.SpecLemmas — facts about the Spec (CC/Spec/Circuit.lean) that do not involve
  the code's matrices: KCL holds at every label whatsoever, the laws in physical-current
  form are affine, invariance under permutation of the branch list.
-/
import CC.Proofs.ListSum
import CC.Spec.Circuit
set_option linter.unusedSectionVars false

namespace CC
variable {L K : Type} [DecidableEq L] [Field K] [DecidableEq K]

theorem incidence_zero_of_not_incident (b : Branch L K) (n : L) (h1 : b.n1 ≠ n) (h2 : b.n2 ≠ n) :
    incidence b n = 0 := by simp [incidence, h1, h2]

theorem mem_allLabels_of_incident (N : Net L K) {b : Branch L K} (hb : b ∈ N.branches) {n : L}
    (h : b.n1 = n ∨ b.n2 = n) : n ∈ N.allLabels := by
  unfold Net.allLabels
  simp only [List.mem_cons, List.mem_append, List.mem_map]
  rcases h with rfl | rfl
  · exact Or.inr (Or.inl ⟨b, hb, rfl⟩)
  · exact Or.inr (Or.inr ⟨b, hb, rfl⟩)

/-- Kirchhoff's current law holds at every label whatsoever (trivially where nothing is attached) -/
theorem CircuitEqs.kcl_all {N : Net L K} {R : Report L K} (h : CircuitEqs N R) (n : L) :
    kclResidual N R n = 0 := by
  by_cases hn : n ∈ N.allLabels
  · exact h.kcl n hn
  · unfold kclResidual
    apply List.sum_eq_zero
    intro y hy
    obtain ⟨b, hb, rfl⟩ := List.mem_map.mp hy
    have h1 : b.n1 ≠ n := fun e => hn (mem_allLabels_of_incident N hb (Or.inl e))
    have h2 : b.n2 ≠ n := fun e => hn (mem_allLabels_of_incident N hb (Or.inr e))
    rw [incidence_zero_of_not_incident b n h1 h2, zero_mul]

/-- the circuit equations with KCL demanded at every label (equivalent, more convenient
as an invariant of network rewrites) -/
structure CircuitEqsAll (bs : List (Branch L K)) (zero : L) (R : Report L K) : Prop where
  ref_zero : R.pot zero = 0
  volt : ∀ b ∈ bs, voltResidual R b = 0
  law : ∀ b ∈ bs, b.e.lawResidual (R.v b.id) (R.i b.id) = 0
  kcl : ∀ n, kclResidual ⟨bs, zero⟩ R n = 0

theorem circuitEqsAll_iff (N : Net L K) (R : Report L K) :
    CircuitEqsAll N.branches N.zero R ↔ CircuitEqs N R := by
  constructor
  · intro h; exact ⟨h.ref_zero, h.volt, h.law, fun n _ => h.kcl n⟩
  · intro h; exact ⟨h.ref_zero, h.volt, h.law, fun n => h.kcl_all n⟩

/-- the order in which branches are listed is irrelevant to the circuit equations -/
theorem circuitEqs_perm (N N' : Net L K) (hz : N.zero = N'.zero) (hp : N.branches.Perm N'.branches)
    (R : Report L K) : CircuitEqs N R ↔ CircuitEqs N' R := by
  have key : ∀ (M M' : Net L K), M.zero = M'.zero → M.branches.Perm M'.branches →
      CircuitEqs M R → CircuitEqs M' R := by
    intro M M' hz hp h
    rw [← circuitEqsAll_iff] at h ⊢
    refine ⟨hz ▸ h.ref_zero, fun b hb => h.volt b (hp.mem_iff.mpr hb),
      fun b hb => h.law b (hp.mem_iff.mpr hb), fun n => ?_⟩
    have := h.kcl n
    unfold kclResidual at this ⊢
    rw [← this]
    exact (sum_map_perm hp _).symm
  exact ⟨key N N' hz hp, key N' N hz.symm hp.symm⟩

end CC
