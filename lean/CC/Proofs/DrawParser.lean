/-
  CC.Proofs.DrawParser — `unique_nodes`, `unique_node_mapping`, `node_label_mapping` of the
  drawing parser (model CC/Model/Draw.lean): one representative per class of `Joined`, every
  point is mapped to the representative of its class, and distinct representatives get
  distinct labels — for every iteration order `ord` of the Python sets.
-/
import CC.Proofs.DrawClosure
import Std.Data.String.ToNat
import Mathlib.Data.List.Nodup
import Mathlib.Tactic.Tauto
set_option linter.unusedSectionVars false
namespace CC.Draw
variable {P : Type} [DecidableEq P]

/-- the iteration orders are permutations of the sets they enumerate -/
def SetOrd.Valid (ord : SetOrd P) : Prop :=
  ∀ l : List P, (ord.all l).Perm l ∧ (ord.uniq l).Perm l

theorem SetOrd.Valid.mem_all {ord : SetOrd P} (h : ord.Valid) {l : List P} {x : P} :
    x ∈ ord.all l ↔ x ∈ l := (h l).1.mem_iff

theorem SetOrd.Valid.mem_uniq {ord : SetOrd P} (h : ord.Valid) {l : List P} {x : P} :
    x ∈ ord.uniq l ↔ x ∈ l := (h l).2.mem_iff

/-! ### `unique_nodes` -/

/-- body of the `for node in self.all_nodes` loop of `unique_nodes` -/
def ustep (ws : List (P × P)) (nodes : List P) (node : P) : List P :=
  if node ∈ nodes then
    let cls := eqp ws node
    sadd node (nodes.filter (fun n => n ∉ cls))
  else nodes

theorem uniqueNodes_eq (ws : List (P × P)) (ord : SetOrd P) (all : List P) :
    uniqueNodes ws ord all = (ord.all all).foldl (ustep ws) all := rfl

theorem mem_ustep {ws : List (P × P)} {nodes : List P} {n x : P} (hn : n ∈ nodes) :
    x ∈ ustep ws nodes n ↔ x = n ∨ (x ∈ nodes ∧ ¬ Joined ws n x) := by
  unfold ustep
  simp only [hn, if_true]
  rw [mem_sadd]
  simp [List.mem_filter, mem_eqp_iff]

theorem ustep_of_not_mem {ws : List (P × P)} {nodes : List P} {n : P} (hn : n ∉ nodes) :
    ustep ws nodes n = nodes := by
  unfold ustep; simp [hn]

theorem nodup_ustep {ws : List (P × P)} {nodes : List P} {n : P} (h : nodes.Nodup) :
    (ustep ws nodes n).Nodup := by
  unfold ustep
  split
  · exact nodup_sadd (List.Nodup.filter _ h)
  · exact h

/-- invariant of the `unique_nodes` loop; `done` = nodes already iterated -/
structure UInv (ws : List (P × P)) (all nodes done : List P) : Prop where
  sub : ∀ x ∈ nodes, x ∈ all
  nodup : nodes.Nodup
  cover : ∀ p ∈ all, ∃ r ∈ nodes, Joined ws p r
  uniq : ∀ x ∈ done, ∀ r ∈ nodes, ∀ r' ∈ nodes, Joined ws x r → Joined ws x r' → r = r'
  gone : ∀ p ∈ all, p ∉ nodes → ∃ m ∈ done, Joined ws m p

theorem UInv.step {ws : List (P × P)} {all nodes done : List P} {n : P} (hn : n ∈ all)
    (I : UInv ws all nodes done) : UInv ws all (ustep ws nodes n) (n :: done) := by
  by_cases hmem : n ∈ nodes
  · refine ⟨?_, nodup_ustep I.nodup, ?_, ?_, ?_⟩
    · intro x hx
      rcases (mem_ustep hmem).mp hx with rfl | ⟨hx, _⟩
      · exact hn
      · exact I.sub x hx
    · intro p hp
      obtain ⟨r, hr, hpr⟩ := I.cover p hp
      by_cases hj : Joined ws n r
      · exact ⟨n, (mem_ustep hmem).mpr (Or.inl rfl), hpr.trans hj.symm⟩
      · exact ⟨r, (mem_ustep hmem).mpr (Or.inr ⟨hr, hj⟩), hpr⟩
    · intro x hx r hr r' hr' hxr hxr'
      have hr := (mem_ustep hmem).mp hr
      have hr' := (mem_ustep hmem).mp hr'
      rcases List.mem_cons.mp hx with rfl | hx
      · -- the node being processed: only itself survives in its class
        rcases hr with rfl | ⟨_, hnr⟩
        · rcases hr' with rfl | ⟨_, hnr'⟩
          · rfl
          · exact absurd hxr' hnr'
        · exact absurd hxr hnr
      · rcases hr with rfl | ⟨hr, hnr⟩
        · rcases hr' with rfl | ⟨_, hnr'⟩
          · rfl
          · exact absurd (hxr.symm.trans hxr') hnr'
        · rcases hr' with rfl | ⟨hr', _⟩
          · exact absurd (hxr'.symm.trans hxr) hnr
          · exact I.uniq x hx r hr r' hr' hxr hxr'
    · intro p hp hpn
      have : ¬ (p = n ∨ (p ∈ nodes ∧ ¬ Joined ws n p)) := fun h => hpn ((mem_ustep hmem).mpr h)
      by_cases hpm : p ∈ nodes
      · by_cases hj : Joined ws n p
        · exact ⟨n, List.mem_cons_self, hj⟩
        · exact absurd (Or.inr ⟨hpm, hj⟩) this
      · obtain ⟨m, hm, hmp⟩ := I.gone p hp hpm
        exact ⟨m, List.mem_cons_of_mem _ hm, hmp⟩
  · rw [ustep_of_not_mem hmem]
    refine ⟨I.sub, I.nodup, I.cover, ?_, ?_⟩
    · intro x hx r hr r' hr' hxr hxr'
      rcases List.mem_cons.mp hx with rfl | hx
      · obtain ⟨m, hm, hmx⟩ := I.gone x hn hmem
        exact I.uniq m hm r hr r' hr' (hmx.trans hxr) (hmx.trans hxr')
      · exact I.uniq x hx r hr r' hr' hxr hxr'
    · intro p hp hpn
      obtain ⟨m, hm, hmp⟩ := I.gone p hp hpn
      exact ⟨m, List.mem_cons_of_mem _ hm, hmp⟩

theorem UInv.foldl {ws : List (P × P)} {all : List P} (L : List P) (hL : ∀ x ∈ L, x ∈ all)
    {nodes done : List P} (I : UInv ws all nodes done) :
    ∃ done', (∀ x, x ∈ done' ↔ x ∈ L ∨ x ∈ done) ∧ UInv ws all (L.foldl (ustep ws) nodes) done' := by
  induction L generalizing nodes done with
  | nil => exact ⟨done, by simp, I⟩
  | cons n L ih =>
    obtain ⟨done', hd, I'⟩ := ih (fun x hx => hL x (List.mem_cons_of_mem _ hx))
      (I.step (hL n List.mem_cons_self))
    refine ⟨done', ?_, I'⟩
    intro x; rw [hd]; simp [List.mem_cons]; tauto

theorem UInv.init (ws : List (P × P)) {all : List P} (h : all.Nodup) : UInv ws all all [] :=
  ⟨fun _ h => h, h, fun p hp => ⟨p, hp, Joined.refl p⟩, fun _ hx => (by cases hx),
   fun p hp hpn => absurd hp hpn⟩

/-- facts about `unique_nodes`: a duplicate-free subset of `all_nodes` with exactly one
element in every class -/
structure UniqueOK (ws : List (P × P)) (all uniq : List P) : Prop where
  sub : ∀ x ∈ uniq, x ∈ all
  nodup : uniq.Nodup
  cover : ∀ p ∈ all, ∃ r ∈ uniq, Joined ws p r
  one : ∀ r ∈ uniq, ∀ r' ∈ uniq, Joined ws r r' → r = r'

theorem uniqueNodes_ok (ws : List (P × P)) {ord : SetOrd P} (hord : ord.Valid) {all : List P}
    (hall : all.Nodup) : UniqueOK ws all (uniqueNodes ws ord all) := by
  rw [uniqueNodes_eq]
  obtain ⟨done, hd, I⟩ := UInv.foldl (ws := ws) (ord.all all) (fun x hx => hord.mem_all.mp hx)
    (UInv.init ws hall)
  refine ⟨I.sub, I.nodup, I.cover, ?_⟩
  intro r hr r' hr' hj
  have hrd : r ∈ done := (hd r).mpr (Or.inl (hord.mem_all.mpr (I.sub r hr)))
  exact I.uniq r hrd r hr r' hr' (Joined.refl r) hj

/-! ### `unique_node_mapping` -/

theorem uniqueNodeMapping_eq (ws : List (P × P)) (ord : SetOrd P) (all : List P) :
    uniqueNodeMapping ws ord all = (ord.all all).map fun n => (n, urep ws (uniqueNodes ws ord all) n) := rfl

theorem lookup_map_self {α β : Type} [DecidableEq α] (f : α → β) (l : List α) (a : α) :
    (l.map fun n => (n, f n)).lookup a = if a ∈ l then some (f a) else none := by
  induction l with
  | nil => simp
  | cons b l ih =>
    simp only [List.map_cons, List.lookup_cons, List.mem_cons]
    by_cases h : a = b
    · subst h; simp
    · have : (a == b) = false := by simp [h]
      simp [this, ih, h]

theorem urep_spec {ws : List (P × P)} {all uniq : List P} (U : UniqueOK ws all uniq) {n : P}
    (hn : n ∈ all) : urep ws uniq n ∈ uniq ∧ Joined ws n (urep ws uniq n) := by
  unfold urep
  simp only
  split
  · rename_i hnil
    obtain ⟨r, hr, hnr⟩ := U.cover n hn
    by_cases hrn : r = n
    · subst hrn; exact ⟨hr, Joined.refl _⟩
    · have : r ∈ uniq.filter (· ∈ (eqp ws n).filter (· ≠ n)) := by
        simp [List.mem_filter, hr, mem_eqp_iff, hnr, hrn]
      rw [hnil] at this; cases this
  · rename_i u rest hcons
    have : u ∈ uniq.filter (· ∈ (eqp ws n).filter (· ≠ n)) := by rw [hcons]; exact List.mem_cons_self
    simp [List.mem_filter, mem_eqp_iff] at this
    exact ⟨this.1, this.2.1⟩

/-- `unique_nodes ∩ (class(n) − {n})` has at most one element: which one `pop()` returns is
not a choice -/
theorem urep_candidates_le_one {ws : List (P × P)} {all uniq : List P} (U : UniqueOK ws all uniq)
    (n : P) : (uniq.filter (· ∈ (eqp ws n).filter (· ≠ n))).length ≤ 1 := by
  have hnd : (uniq.filter (· ∈ (eqp ws n).filter (· ≠ n))).Nodup := List.Nodup.filter _ U.nodup
  match h : uniq.filter (· ∈ (eqp ws n).filter (· ≠ n)), hnd with
  | [], _ => simp
  | [_], _ => simp
  | a :: b :: rest, hnd =>
    exfalso
    have ha : a ∈ uniq.filter (· ∈ (eqp ws n).filter (· ≠ n)) := by rw [h]; simp
    have hb : b ∈ uniq.filter (· ∈ (eqp ws n).filter (· ≠ n)) := by rw [h]; simp
    simp [List.mem_filter, mem_eqp_iff] at ha hb
    have := U.one a ha.1 b hb.1 (ha.2.1.symm.trans hb.2.1)
    subst this
    simp at hnd

/-- two points have the same representative iff they are joined -/
theorem urep_eq_iff {ws : List (P × P)} {all uniq : List P} (U : UniqueOK ws all uniq) {p q : P}
    (hp : p ∈ all) (hq : q ∈ all) : urep ws uniq p = urep ws uniq q ↔ Joined ws p q := by
  obtain ⟨hpu, hpj⟩ := urep_spec U hp
  obtain ⟨hqu, hqj⟩ := urep_spec U hq
  constructor
  · intro h; exact hpj.trans (h ▸ hqj.symm)
  · intro h; exact U.one _ hpu _ hqu (hpj.symm.trans (h.trans hqj))

/-! ### fresh numerals -/

theorem toString_nat_injective {m n : Nat} (h : toString m = toString n) : m = n :=
  Nat.repr_injective h

theorem nextFree_spec (vals : List String) (fuel i : Nat) :
    toString (nextFree vals fuel i) ∉ vals ∨
      (∀ k, k < fuel → toString (i + k) ∈ vals) := by
  induction fuel generalizing i with
  | zero => right; intro k hk; omega
  | succ fuel ih =>
    unfold nextFree
    split
    · rename_i hmem
      rcases ih (i + 1) with h | h
      · exact Or.inl h
      · right
        intro k hk
        cases k with
        | zero => simpa using hmem
        | succ k =>
          have := h k (by omega)
          have e : i + 1 + k = i + (k + 1) := by omega
          rwa [e] at this
    · rename_i hmem; exact Or.inl hmem

theorem nextFree_fresh (vals : List String) (i : Nat) :
    toString (nextFree vals (vals.length + 1) i) ∉ vals := by
  rcases nextFree_spec vals (vals.length + 1) i with h | h
  · exact h
  · exfalso
    let L := (List.range (vals.length + 1)).map fun k => toString (i + k)
    have hnd : L.Nodup := by
      apply List.Nodup.map_on _ List.nodup_range
      intro a _ b _ hab
      have := toString_nat_injective hab
      omega
    have hsub : L ⊆ vals := by
      intro s hs
      obtain ⟨k, hk, rfl⟩ := List.mem_map.mp hs
      exact h k (List.mem_range.mp hk)
    have := List.Nodup.length_le_of_subset hnd hsub
    simp [L] at this
    omega

/-! ### dictionaries (reasoning through `lookup` only) -/
section Dict
variable {K V : Type} [DecidableEq K]

theorem lookup_dictSet (k k' : K) (v : V) (d : List (K × V)) :
    (dictSet k v d).lookup k' = if k' = k then some v else d.lookup k' := by
  induction d with
  | nil =>
    by_cases h : k' = k
    · subst h; simp [dictSet]
    · have : (k' == k) = false := by simp [h]
      simp [dictSet, List.lookup, this, h]
  | cons kv d ih =>
    obtain ⟨k₀, v₀⟩ := kv
    unfold dictSet
    by_cases h0 : k₀ = k
    · subst h0
      by_cases h : k' = k₀
      · subst h; simp
      · have : (k' == k₀) = false := by simp [h]
        simp [List.lookup, this, h]
    · simp only [h0, if_false]
      by_cases h : k' = k₀
      · subst h
        have hk : ¬ k' = k := h0
        simp [hk]
      · have : (k' == k₀) = false := by simp [h]
        simp [List.lookup, this, ih]

theorem lookup_append_single (l : List (K × V)) (p : K) (s : V) (r : K) :
    (l ++ [(p, s)]).lookup r =
      match l.lookup r with
      | some a => some a
      | none => if r = p then some s else none := by
  induction l with
  | nil =>
    by_cases h : r = p
    · subst h; simp
    · have : (r == p) = false := by simp [h]
      simp [List.lookup, this, h]
  | cons kv l ih =>
    obtain ⟨k₀, v₀⟩ := kv
    by_cases h : r = k₀
    · subst h; simp
    · have : (r == k₀) = false := by simp [h]
      simp [List.lookup, this, ih]

theorem lookup_mem_vals {d : List (K × V)} {r : K} {a : V} (h : d.lookup r = some a) :
    a ∈ d.map Prod.snd := by
  induction d with
  | nil => simp at h
  | cons kv d ih =>
    obtain ⟨k₀, v₀⟩ := kv
    by_cases hk : r = k₀
    · subst hk; simp at h; simp [h]
    · have : (r == k₀) = false := by simp [hk]
      simp [List.lookup, this] at h
      simp [ih h]

/-- different keys never look up the same value -/
def InjLookup (d : List (K × V)) : Prop :=
  ∀ r r' a, d.lookup r = some a → d.lookup r' = some a → r = r'

end Dict

/-! ### named labels -/

theorem namedLabels_ok_aux (umap : List (P × P)) (f : P → P) (L : List (P × String))
    (hum : ∀ ps ∈ L, umap.lookup ps.1 = some (f ps.1)) (d : List (P × String)) :
    L.foldlM (fun d (ps : P × String) =>
      match umap.lookup ps.1 with
      | none => (throw Err.keyError : Except Err (List (P × String)))
      | some r => pure (dictSet r ps.2 d)) d
      = .ok (L.foldl (fun d ps => dictSet (f ps.1) ps.2 d) d) := by
  induction L generalizing d with
  | nil => rfl
  | cons ps L ih =>
    simp only [List.foldlM_cons, List.foldl_cons]
    rw [hum ps List.mem_cons_self]
    exact ih (fun ps' h => hum ps' (List.mem_cons_of_mem _ h)) _

/-- the named part of the label map as a pure fold -/
def namedFold (f : P → P) (L : List (P × String)) (d : List (P × String)) : List (P × String) :=
  L.foldl (fun d ps => dictSet (f ps.1) ps.2 d) d

theorem namedLabels_ok (umap : List (P × P)) (f : P → P) (L : List (P × String))
    (hum : ∀ ps ∈ L, umap.lookup ps.1 = some (f ps.1)) :
    namedLabels umap L = .ok (namedFold f L []) :=
  namedLabels_ok_aux umap f L hum []

theorem namedFold_cons (f : P → P) (ps : P × String) (L : List (P × String)) (d : List (P × String)) :
    namedFold f (ps :: L) d = namedFold f L (dictSet (f ps.1) ps.2 d) := rfl

theorem namedFold_append (f : P → P) (L₁ L₂ : List (P × String)) (d : List (P × String)) :
    namedFold f (L₁ ++ L₂) d = namedFold f L₂ (namedFold f L₁ d) := by
  unfold namedFold; rw [List.foldl_append]

/-- invariant of the comprehension: injective, and every name comes from a symbol -/
structure NInv (f : P → P) (S : List (P × String)) (d : List (P × String)) : Prop where
  inj : InjLookup d
  src : ∀ r a, d.lookup r = some a → ∃ ps ∈ S, f ps.1 = r ∧ ps.2 = a

theorem NInv.fold {f : P → P} {all : List (P × String)}
    (hwf : ∀ ps ∈ all, ∀ ps' ∈ all, ps.2 = ps'.2 → f ps.1 = f ps'.1)
    (L : List (P × String)) {S : List (P × String)} {d : List (P × String)}
    (hS : ∀ ps ∈ S, ps ∈ all) (hL : ∀ ps ∈ L, ps ∈ all) (I : NInv f S d) :
    NInv f (S ++ L) (namedFold f L d) := by
  induction L generalizing S d with
  | nil => simpa [namedFold] using I
  | cons ps L ih =>
    rw [namedFold_cons]
    have hps : ps ∈ all := hL ps List.mem_cons_self
    have I' : NInv f (S ++ [ps]) (dictSet (f ps.1) ps.2 d) := by
      constructor
      · intro r r' a hr hr'
        rw [lookup_dictSet] at hr hr'
        by_cases h1 : r = f ps.1
        · by_cases h2 : r' = f ps.1
          · rw [h1, h2]
          · simp only [h1, if_true, h2, if_false] at hr hr'
            obtain ⟨ps', hps', hf, ha⟩ := I.src r' a hr'
            have hid : ps'.2 = ps.2 := by rw [ha]; exact (Option.some.inj hr).symm
            have := hwf ps' (hS ps' hps') ps hps hid
            exact absurd (hf ▸ this) h2
        · by_cases h2 : r' = f ps.1
          · simp only [h1, if_false, h2, if_true] at hr hr'
            obtain ⟨ps', hps', hf, ha⟩ := I.src r a hr
            have hid : ps'.2 = ps.2 := by rw [ha]; exact (Option.some.inj hr').symm
            have := hwf ps' (hS ps' hps') ps hps hid
            exact absurd (hf ▸ this) h1
          · simp only [h1, if_false, h2] at hr hr'
            exact I.inj r r' a hr hr'
      · intro r a h
        rw [lookup_dictSet] at h
        by_cases h1 : r = f ps.1
        · simp only [h1, if_true] at h
          exact ⟨ps, by simp, h1.symm, Option.some.inj h⟩
        · simp only [h1, if_false] at h
          obtain ⟨ps', hps', h'⟩ := I.src r a h
          exact ⟨ps', by simp [hps'], h'⟩
    have := ih (S := S ++ [ps]) (fun x hx => by
        rcases List.mem_append.mp hx with h | h
        · exact hS x h
        · rw [List.mem_singleton.mp h]; exact hps)
      (fun x hx => hL x (List.mem_cons_of_mem _ hx)) I'
    simpa [List.append_assoc] using this

theorem NInv.nil (f : P → P) : NInv f [] ([] : List (P × String)) :=
  ⟨fun r r' a h => by simp at h, fun r a h => by simp at h⟩

/-- later symbols on other representatives do not touch an entry -/
theorem namedFold_lookup_of_ne (f : P → P) (L : List (P × String)) (d : List (P × String)) (k : P)
    (h : ∀ ps ∈ L, f ps.1 ≠ k) : (namedFold f L d).lookup k = d.lookup k := by
  induction L generalizing d with
  | nil => rfl
  | cons ps L ih =>
    rw [namedFold_cons, ih _ (fun x hx => h x (List.mem_cons_of_mem _ hx)), lookup_dictSet]
    have : ¬ k = f ps.1 := fun e => h ps List.mem_cons_self e.symm
    simp [this]

/-! ### numerals for the unlabelled representatives -/

theorem numberStep_fst (acc : List (P × String) × Nat) (p : P) :
    ∃ s, (numberStep acc p).1 = dictSet p s acc.1 ∧ s ∉ acc.1.map Prod.snd := by
  refine ⟨_, rfl, ?_⟩
  have := nextFree_fresh (acc.1.map (·.2)) acc.2
  simpa using this

/-- invariant of the numbering loop -/
structure NumInv (named : List (P × String)) (doneL : List P) (l : List (P × String)) : Prop where
  ext : ∀ r a, named.lookup r = some a → l.lookup r = some a
  inj : InjLookup l
  tot : ∀ p ∈ doneL, (l.lookup p).isSome

theorem NumInv.fold {named : List (P × String)} (L : List P) (hL : ∀ p ∈ L, named.lookup p = none)
    {doneL : List P} {acc : List (P × String) × Nat} (I : NumInv named doneL acc.1) :
    NumInv named (doneL ++ L) (L.foldl numberStep acc).1 := by
  induction L generalizing doneL acc with
  | nil => simpa using I
  | cons p L ih =>
    rw [List.foldl_cons]
    obtain ⟨s, hs, hfresh⟩ := numberStep_fst acc p
    have hp0 : named.lookup p = none := hL p List.mem_cons_self
    have I' : NumInv named (doneL ++ [p]) (numberStep acc p).1 := by
      rw [hs]
      constructor
      · intro r a h
        rw [lookup_dictSet]
        have : ¬ r = p := fun e => by rw [e, hp0] at h; cases h
        simp only [this, if_false]
        exact I.ext r a h
      · intro r r' a hr hr'
        rw [lookup_dictSet] at hr hr'
        by_cases h1 : r = p
        · by_cases h2 : r' = p
          · rw [h1, h2]
          · simp only [h1, if_true, h2, if_false] at hr hr'
            have : a = s := (Option.some.inj hr).symm
            exact absurd (this ▸ lookup_mem_vals hr') hfresh
        · by_cases h2 : r' = p
          · simp only [h1, if_false, h2, if_true] at hr hr'
            have : a = s := (Option.some.inj hr').symm
            exact absurd (this ▸ lookup_mem_vals hr) hfresh
          · simp only [h1, h2, if_false] at hr hr'
            exact I.inj r r' a hr hr'
      · intro q hq
        rw [lookup_dictSet]
        by_cases hqp : q = p
        · simp [hqp]
        · simp only [hqp, if_false]
          rcases List.mem_append.mp hq with hq | hq
          · exact I.tot q hq
          · exact absurd (List.mem_singleton.mp hq) hqp
    have := ih (doneL := doneL ++ [p]) (fun q hq => hL q (List.mem_cons_of_mem _ hq)) I'
    simpa [List.append_assoc] using this

theorem numberUnlabeled_spec (named : List (P × String)) (hinj : InjLookup named) (unl : List P)
    (hunl : ∀ p ∈ unl, named.lookup p = none) : NumInv named unl (numberUnlabeled named unl) := by
  have I0 : NumInv named [] (named, named.length + 1).1 :=
    ⟨fun _ _ h => h, hinj, fun p hp => by cases hp⟩
  simpa [numberUnlabeled] using NumInv.fold unl hunl I0

/-! ### the label map of a drawing -/

/-- what the parser theorems need from the labelled-node symbols: they sit on terminals, and
two symbols carrying the same name sit on the same electrical node -/
structure NodeSymsWF (ws : List (P × P)) (all : List P) (nodeSyms : List (P × String)) : Prop where
  on_terminal : ∀ ps ∈ nodeSyms, ps.1 ∈ all
  same_name : ∀ ps ∈ nodeSyms, ∀ ps' ∈ nodeSyms, ps.2 = ps'.2 → Joined ws ps.1 ps'.1

theorem umap_lookup (ws : List (P × P)) {ord : SetOrd P} (hord : ord.Valid) {all : List P} {p : P} (hp : p ∈ all) :
    (uniqueNodeMapping ws ord all).lookup p = some (urep ws (uniqueNodes ws ord all) p) := by
  rw [uniqueNodeMapping_eq, lookup_map_self]; simp [hord.mem_all.mpr hp]

/-- summary of `node_label_mapping` for a well-formed drawing -/
structure LabelsOK (ws : List (P × P)) (ord : SetOrd P) (all : List P) (nodeSyms : List (P × String))
    (labels : List (P × String)) : Prop where
  eq : nodeLabelMapping ws ord all nodeSyms = .ok labels
  inj : InjLookup labels
  tot : ∀ r ∈ uniqueNodes ws ord all, (labels.lookup r).isSome
  named : ∀ r a, (namedFold (urep ws (uniqueNodes ws ord all)) nodeSyms []).lookup r = some a →
    labels.lookup r = some a

theorem labels_ok (ws : List (P × P)) {ord : SetOrd P} (hord : ord.Valid) {all : List P}
    (hall : all.Nodup) {nodeSyms : List (P × String)} (hwf : NodeSymsWF ws all nodeSyms) :
    ∃ labels, LabelsOK ws ord all nodeSyms labels := by
  have U := uniqueNodes_ok ws hord hall
  let f := urep ws (uniqueNodes ws ord all)
  have hnamed : namedLabels (uniqueNodeMapping ws ord all) nodeSyms = .ok (namedFold f nodeSyms []) :=
    namedLabels_ok _ f nodeSyms (fun ps hps => umap_lookup ws hord (hwf.on_terminal ps hps))
  have hWF : ∀ ps ∈ nodeSyms, ∀ ps' ∈ nodeSyms, ps.2 = ps'.2 → f ps.1 = f ps'.1 := by
    intro ps hps ps' hps' hid
    exact (urep_eq_iff U (hwf.on_terminal ps hps) (hwf.on_terminal ps' hps')).mpr
      (hwf.same_name ps hps ps' hps' hid)
  have NI : NInv f ([] ++ nodeSyms) (namedFold f nodeSyms []) :=
    NInv.fold hWF nodeSyms (fun _ h => by cases h) (fun _ h => h) (NInv.nil f)
  let named := namedFold f nodeSyms []
  let unl := (ord.uniq (uniqueNodes ws ord all)).filter fun p => (named.lookup p).isNone
  have hunl : ∀ p ∈ unl, named.lookup p = none := by
    intro p hp
    have := (List.mem_filter.mp hp).2
    cases h : named.lookup p with
    | none => rfl
    | some a => simp [h] at this
  have NU := numberUnlabeled_spec named NI.inj unl hunl
  refine ⟨numberUnlabeled named unl, ?_, NU.inj, ?_, NU.ext⟩
  · unfold nodeLabelMapping
    rw [hnamed]
    rfl
  · intro r hr
    cases h : named.lookup r with
    | some a => rw [NU.ext r a h]; rfl
    | none =>
      apply NU.tot
      simp only [unl, List.mem_filter]
      exact ⟨hord.mem_uniq.mpr hr, by simp [h]⟩

theorem lookupLabel_ok {umap : List (P × P)} {labels : List (P × String)} {p r : P} {a : String}
    (hu : umap.lookup p = some r) (hl : labels.lookup r = some a) :
    lookupLabel umap (.ok labels) p = .ok a := by
  unfold lookupLabel
  simp [hu, hl, bind, Except.bind, pure, Except.pure]

/-- `_get_node_index` succeeds on every terminal, and two terminals get the same name iff they
are joined by wires -/
theorem getNodeIndex_spec (ws : List (P × P)) {ord : SetOrd P} (hord : ord.Valid) {all : List P}
    (hall : all.Nodup) {nodeSyms : List (P × String)} (hwf : NodeSymsWF ws all nodeSyms) :
    ∃ lab : P → String,
      (∀ p ∈ all, getNodeIndex ws ord all nodeSyms p = .ok (lab p)) ∧
      (∀ p ∈ all, ∀ q ∈ all, (lab p = lab q ↔ Joined ws p q)) := by
  have U := uniqueNodes_ok ws hord hall
  obtain ⟨labels, L⟩ := labels_ok ws hord hall hwf
  let f := urep ws (uniqueNodes ws ord all)
  refine ⟨fun p => ((labels.lookup (f p)).getD ""), ?_, ?_⟩
  · intro p hp
    unfold getNodeIndex
    rw [L.eq]
    have := L.tot (f p) (urep_spec U hp).1
    cases h : labels.lookup (f p) with
    | some a =>
      show lookupLabel _ _ p = .ok ((labels.lookup (f p)).getD "")
      rw [h]; exact lookupLabel_ok (umap_lookup ws hord hp) h
    | none => simp [h] at this
  · intro p hp q hq
    have hp' := L.tot (f p) (urep_spec U hp).1
    have hq' := L.tot (f q) (urep_spec U hq).1
    cases h1 : labels.lookup (f p) with
    | none => simp [h1] at hp'
    | some a =>
      cases h2 : labels.lookup (f q) with
      | none => simp [h2] at hq'
      | some b =>
        simp only [h1, h2, Option.getD_some]
        constructor
        · intro hab
          exact (urep_eq_iff U hp hq).mp (L.inj _ _ a h1 (hab ▸ h2))
        · intro hj
          have : f p = f q := (urep_eq_iff U hp hq).mpr hj
          rw [this] at h1
          rw [h1] at h2
          exact Option.some.inj h2

/-- a node / ground symbol names the node it sits on (the last symbol on a node wins) -/
theorem getNodeIndex_named (ws : List (P × P)) {ord : SetOrd P} (hord : ord.Valid) {all : List P}
    (hall : all.Nodup) {pre post : List (P × String)} {ps : P × String}
    (hwf : NodeSymsWF ws all (pre ++ ps :: post))
    (hlast : ∀ ps' ∈ post, ¬ Joined ws ps.1 ps'.1) :
    getNodeIndex ws ord all (pre ++ ps :: post) ps.1 = .ok ps.2 := by
  have U := uniqueNodes_ok ws hord hall
  obtain ⟨labels, L⟩ := labels_ok ws hord hall hwf
  let f := urep ws (uniqueNodes ws ord all)
  have hps : ps.1 ∈ all := hwf.on_terminal ps (by simp)
  have hnamed : (namedFold f (pre ++ ps :: post) []).lookup (f ps.1) = some ps.2 := by
    rw [namedFold_append, namedFold_cons, namedFold_lookup_of_ne, lookup_dictSet]
    · simp
    · intro ps' hps' heq
      have hps'a : ps'.1 ∈ all := hwf.on_terminal ps' (by simp [hps'])
      exact hlast ps' hps' ((urep_eq_iff U hps hps'a).mp heq.symm)
  unfold getNodeIndex
  rw [L.eq]
  exact lookupLabel_ok (umap_lookup ws hord hps) (L.named (f ps.1) ps.2 hnamed)

end CC.Draw
