/-
  CC.Proofs.NetBasics — structural facts about the network model: label lists are
  duplicate-free and complete, `network[id]` finds the branch, the alphabetically sorted
  source lists are permutations of the filtered branch lists.
-/
import CC.Proofs.ListSum
import CC.Spec.Circuit
import Mathlib.Data.List.Perm.Basic
import Mathlib.Data.List.Nodup
set_option linter.unusedSectionVars false

namespace CC
variable {L K : Type} [DecidableEq L] [LabelOrd L] [Field K] [DecidableEq K]

/-! ### dedupL / sortL -/

theorem mem_dedupL {α : Type} [DecidableEq α] {a : α} {l : List α} : a ∈ dedupL l ↔ a ∈ l := by
  induction l with
  | nil => simp [dedupL]
  | cons b l ih =>
    unfold dedupL
    by_cases h : b ∈ l
    · simp only [h, if_true, ih, List.mem_cons]
      constructor
      · intro h'; exact Or.inr h'
      · rintro (rfl | h') <;> assumption
    · simp only [h, if_false, List.mem_cons, ih]

theorem nodup_dedupL {α : Type} [DecidableEq α] (l : List α) : (dedupL l).Nodup := by
  induction l with
  | nil => simp [dedupL]
  | cons b l ih =>
    unfold dedupL
    by_cases h : b ∈ l
    · simpa [h] using ih
    · simp only [h, if_false, List.nodup_cons, mem_dedupL, not_false_eq_true, ih, and_self]

theorem dedupL_eq_self {α : Type} [DecidableEq α] {l : List α} (h : l.Nodup) : dedupL l = l := by
  induction l with
  | nil => simp [dedupL]
  | cons b l ih =>
    have := List.nodup_cons.mp h
    unfold dedupL
    simp [this.1, ih this.2]

theorem dedupL_length_eq_iff {α : Type} [DecidableEq α] (l : List α) :
    (dedupL l).length = l.length ↔ l.Nodup := by
  induction l with
  | nil => simp [dedupL]
  | cons b l ih =>
    unfold dedupL
    have hle : ∀ l' : List α, (dedupL l').length ≤ l'.length := by
      intro l'; induction l' with
      | nil => simp [dedupL]
      | cons c l' ih' => unfold dedupL; split <;> simp <;> omega
    by_cases h : b ∈ l
    · simp only [h, if_true, List.length_cons, List.nodup_cons, not_true_eq_false, false_and, iff_false]
      have := hle l; omega
    · simp only [h, if_false, List.length_cons, List.nodup_cons, not_false_eq_true, true_and]
      rw [← ih]; omega

theorem sortL_perm {α : Type} [LabelOrd α] (l : List α) : (sortL l).Perm l :=
  List.mergeSort_perm l _

theorem mem_sortL {α : Type} [LabelOrd α] {a : α} {l : List α} : a ∈ sortL l ↔ a ∈ l :=
  (sortL_perm l).mem_iff

theorem nodup_sortL {α : Type} [LabelOrd α] {l : List α} : (sortL l).Nodup ↔ l.Nodup :=
  (sortL_perm l).nodup_iff

/-! ### well-formed networks -/

/-- what `Network.__post_init__` accepts, plus: no branch connects a node to itself (the third field is
no longer needed by the C01 theorems since the self-loop repair of node_analysis.py — see
CC/Properties/C01SelfLoop.lean — and is kept because the statements of C01–C06, C09–C12, C16 carry it) -/
structure Net.WF (N : Net L K) : Prop where
  ids_nodup : N.ids.Nodup
  zero_mem : N.zero ∈ N.nodeLabels
  no_self_loop : ∀ b ∈ N.branches, b.n1 ≠ b.n2

theorem Net.check_ok_iff (N : Net L K) :
    N.check = .ok () ↔ N.zero ∈ N.nodeLabels ∧ N.ids.Nodup := by
  unfold Net.check
  by_cases h1 : N.zero ∈ N.nodeLabels
  · simp only [h1, not_true_eq_false, if_false, true_and]
    have : N.branches.length = N.ids.length := by simp [Net.ids]
    by_cases h2 : (dedupL N.ids).length = N.branches.length
    · simp only [h2, ne_eq, not_true_eq_false, if_false, true_iff]
      exact (dedupL_length_eq_iff _).mp (this ▸ h2)
    · simp only [ne_eq, h2, not_false_eq_true, if_true, reduceCtorEq, false_iff]
      intro h; exact h2 (this ▸ (dedupL_length_eq_iff _).mpr h)
  · simp [h1]

theorem mem_nodeLabels (N : Net L K) (m : L) :
    m ∈ N.nodeLabels ↔ (N.branches = [] ∧ m = N.zero) ∨ (∃ b ∈ N.branches, b.n1 = m ∨ b.n2 = m) := by
  unfold Net.nodeLabels
  cases hb : N.branches with
  | nil => simp
  | cons b bs =>
    simp only [List.isEmpty_cons, Bool.false_eq_true, if_false, mem_sortL, mem_dedupL,
      List.mem_append, List.mem_map, reduceCtorEq, false_and, false_or]
    constructor
    · rintro (⟨c, hc, rfl⟩ | ⟨c, hc, rfl⟩)
      · exact ⟨c, hc, Or.inl rfl⟩
      · exact ⟨c, hc, Or.inr rfl⟩
    · rintro ⟨c, hc, (rfl | rfl)⟩
      · exact Or.inl ⟨c, hc, rfl⟩
      · exact Or.inr ⟨c, hc, rfl⟩

theorem nodeLabels_nodup (N : Net L K) : N.nodeLabels.Nodup := by
  unfold Net.nodeLabels
  split
  · simp
  · exact nodup_sortL.mpr (nodup_dedupL _)

theorem n1_mem_labels (N : Net L K) {b : Branch L K} (hb : b ∈ N.branches) : b.n1 ∈ N.nodeLabels :=
  (mem_nodeLabels N _).mpr (Or.inr ⟨b, hb, Or.inl rfl⟩)

theorem n2_mem_labels (N : Net L K) {b : Branch L K} (hb : b ∈ N.branches) : b.n2 ∈ N.nodeLabels :=
  (mem_nodeLabels N _).mpr (Or.inr ⟨b, hb, Or.inr rfl⟩)

theorem mem_nodes_iff (N : Net L K) (m : L) :
    m ∈ N.nodes ↔ m ∈ N.nodeLabels ∧ m ≠ N.zero := by
  simp [Net.nodes]

theorem nodes_nodup (N : Net L K) : N.nodes.Nodup :=
  (nodeLabels_nodup N).filter _

/-- the labels the Spec quantifies over are exactly the code's `node_labels` -/
theorem mem_allLabels_iff (N : Net L K) (hz : N.zero ∈ N.nodeLabels) (m : L) :
    m ∈ N.allLabels ↔ m ∈ N.nodeLabels := by
  unfold Net.allLabels
  simp only [List.mem_cons, List.mem_append, List.mem_map]
  rw [mem_nodeLabels]
  constructor
  · rintro (rfl | ⟨c, hc, rfl⟩ | ⟨c, hc, rfl⟩)
    · exact (mem_nodeLabels N _).mp hz
    · exact Or.inr ⟨c, hc, Or.inl rfl⟩
    · exact Or.inr ⟨c, hc, Or.inr rfl⟩
  · rintro (⟨_, rfl⟩ | ⟨c, hc, (rfl | rfl)⟩)
    · exact Or.inl rfl
    · exact Or.inr (Or.inl ⟨c, hc, rfl⟩)
    · exact Or.inr (Or.inr ⟨c, hc, rfl⟩)

/-! ### `network[id]` -/

theorem find?_reverse_of_nodup {l : List (Branch L K)} (h : (l.map (·.id)).Nodup)
    {b : Branch L K} (hb : b ∈ l) : l.reverse.find? (·.id = b.id) = some b := by
  induction l with
  | nil => simp at hb
  | cons c l ih =>
    simp only [List.map_cons, List.nodup_cons, List.mem_map, not_exists, not_and] at h
    rw [List.reverse_cons, List.find?_append]
    rcases List.mem_cons.mp hb with rfl | hb'
    · have : l.reverse.find? (fun x => decide (x.id = b.id)) = none := by
        rw [List.find?_eq_none]
        intro x hx; simp only [decide_eq_true_eq]
        intro hxe; exact h.1 x (List.mem_reverse.mp hx) hxe
      simp [this]
    · rw [ih h.2 hb']; simp

theorem get?_of_mem (N : Net L K) (h : N.ids.Nodup) {b : Branch L K} (hb : b ∈ N.branches) :
    N.get? b.id = some b :=
  find?_reverse_of_nodup h hb

theorem get?_some_mem (N : Net L K) {id : String} {b : Branch L K} (h : N.get? id = some b) :
    b ∈ N.branches ∧ b.id = id := by
  unfold Net.get? at h
  have h1 := List.mem_of_find?_eq_some h
  have h2 := List.find?_some h
  exact ⟨List.mem_reverse.mp h1, by simpa using h2⟩

/-- with unique ids, looking up the ids of a sub-list of branches returns that sub-list -/
theorem byIds_map_id (N : Net L K) (h : N.ids.Nodup) (l : List (Branch L K))
    (hl : ∀ b ∈ l, b ∈ N.branches) : N.byIds (l.map (·.id)) = l := by
  unfold Net.byIds
  induction l with
  | nil => simp
  | cons b l ih =>
    have hb := get?_of_mem N h (hl b (List.mem_cons_self ..))
    simp only [List.map_cons, List.filterMap_cons, hb]
    rw [ih (fun c hc => hl c (List.mem_cons_of_mem _ hc))]

theorem byIds_sort_perm (N : Net L K) (h : N.ids.Nodup) (l : List (Branch L K))
    (hl : ∀ b ∈ l, b ∈ N.branches) : (N.byIds (sortL (l.map (·.id)))).Perm l := by
  have hp : (N.byIds (sortL (l.map (·.id)))).Perm (N.byIds (l.map (·.id))) := by
    unfold Net.byIds
    exact (sortL_perm _).filterMap _
  rw [byIds_map_id N h l hl] at hp
  exact hp

theorem vsSorted_perm (N : Net L K) (h : N.ids.Nodup) : N.vsSorted.Perm N.vs :=
  byIds_sort_perm N h N.vs (fun _ hb => (List.mem_filter.mp hb).1)

theorem csSorted_perm (N : Net L K) (h : N.ids.Nodup) : N.csSorted.Perm N.cs :=
  byIds_sort_perm N h N.cs (fun _ hb => (List.mem_filter.mp hb).1)

theorem vsIds_nodup (N : Net L K) (h : N.ids.Nodup) : N.vsIds.Nodup := by
  unfold Net.vsIds
  rw [nodup_sortL]
  unfold Net.vs
  exact (List.Nodup.sublist ((List.filter_sublist).map _) h)

end CC
