/-
  CC.Proofs.Bridge — from the list-shaped matrix equation `matVec mnaA x = mnaB` that the
  code builds (and the driver evaluates) to the label-indexed row equations.
-/
import CC.Proofs.KCL
set_option linter.unusedSectionVars false

namespace CC
variable {L K : Type} [DecidableEq L] [LabelOrd L] [Field K] [DecidableEq K]

theorem idxOf?_cons_ne {α : Type} [DecidableEq α] {a b : α} (l : List α) (h : b ≠ a) :
    idxOf? a (b :: l) = (idxOf? a l).map (· + 1) := by
  simp [idxOf?, h]

theorem idxOf?_of_mem {α : Type} [DecidableEq α] {a : α} {l : List α} (h : a ∈ l) :
    ∃ k, idxOf? a l = some k ∧ k < l.length ∧ l[k]? = some a := by
  induction l with
  | nil => simp at h
  | cons b l ih =>
    by_cases hb : b = a
    · exact ⟨0, by simp [idxOf?, hb], by simp, by simp [hb]⟩
    · have : a ∈ l := by
        rcases List.mem_cons.mp h with rfl | h'
        · exact absurd rfl hb
        · exact h'
      obtain ⟨k, hk, hlt, hget⟩ := ih this
      exact ⟨k + 1, by simp [idxOf?, hb, hk], by simp; omega, by simpa using hget⟩

theorem idxOf?_none_of_not_mem {α : Type} [DecidableEq α] {a : α} {l : List α} (h : a ∉ l) :
    idxOf? a l = none := by
  induction l with
  | nil => rfl
  | cons b l ih =>
    have hb : b ≠ a := fun e => h (e ▸ List.mem_cons_self ..)
    have : a ∉ l := fun e => h (List.mem_cons_of_mem _ e)
    simp [idxOf?, hb, ih this]

/-- reading a vector back through the index map of a duplicate-free label list -/
theorem map_getD_idx {α : Type} [DecidableEq α] (l : List α) (hl : l.Nodup) (x : List K)
    (hx : x.length = l.length) (off : Nat) (pre : List K) (hpre : pre.length = off) :
    l.map (fun a => (pre ++ x).getD (off + (idxOf? a l).getD 0) 0) = x := by
  induction l generalizing x off pre with
  | nil => cases x <;> simp_all
  | cons b l ih =>
    cases x with
    | nil => simp at hx
    | cons c x =>
      have hnd := List.nodup_cons.mp hl
      simp only [List.map_cons, List.cons.injEq]
      constructor
      · simp [idxOf?, ← hpre]
      · have := ih hnd.2 x (by simpa using hx) (off + 1) (pre ++ [c]) (by simp [hpre])
        refine Eq.trans ?_ this
        apply List.map_congr_left
        intro a ha
        have hba : b ≠ a := fun e => hnd.1 (e ▸ ha)
        obtain ⟨k, hk, _, _⟩ := idxOf?_of_mem ha
        have e1 : pre ++ c :: x = pre ++ [c] ++ x := by simp
        have e2 : off + ((idxOf? a (b :: l)).getD 0) = off + 1 + (idxOf? a l).getD 0 := by
          simp [idxOf?, hba, hk]; omega
        rw [e1, e2]

/-- the label-indexed reading of a solution vector -/
def Net.solOf (N : Net L K) (x : List K) : Sol L K where
  phi := fun n => x.getD ((idxOf? n N.nodes).getD 0) 0
  ivs := fun id => x.getD (N.nodes.length + (idxOf? id N.vsIds).getD 0) 0

theorem byIds_map_id_eq (N : Net L K) (h : N.ids.Nodup) (ids : List String)
    (hall : ∀ id ∈ ids, ∃ b ∈ N.branches, b.id = id) : (N.byIds ids).map (·.id) = ids := by
  unfold Net.byIds
  induction ids with
  | nil => simp
  | cons id ids ih =>
    obtain ⟨b, hb, rfl⟩ := hall _ (List.mem_cons_self ..)
    simp only [List.filterMap_cons, get?_of_mem N h hb, List.map_cons]
    rw [ih (fun i hi => hall i (List.mem_cons_of_mem _ hi))]

theorem vsSorted_ids (N : Net L K) (h : N.ids.Nodup) : N.vsSorted.map (·.id) = N.vsIds := by
  apply byIds_map_id_eq N h
  intro id hid
  have : id ∈ N.vs.map (·.id) := mem_sortL.mp hid
  obtain ⟨b, hb, rfl⟩ := List.mem_map.mp this
  exact ⟨b, (List.mem_filter.mp hb).1, rfl⟩

theorem vsSorted_length (N : Net L K) (h : N.ids.Nodup) : N.vsSorted.length = N.vsIds.length := by
  rw [← vsSorted_ids N h]; simp

/-- a vector of the right length is the packing of its own label-indexed reading -/
theorem pack_solOf (N : Net L K) (h : N.ids.Nodup) (x : List K)
    (hx : x.length = N.nodes.length + N.vsIds.length) :
    x = N.nodes.map (N.solOf x).phi ++ N.vsSorted.map (fun b => (N.solOf x).ivs b.id) := by
  have hsplit : x = x.take N.nodes.length ++ x.drop N.nodes.length := (List.take_append_drop _ _).symm
  have h1 : N.nodes.map (N.solOf x).phi = x.take N.nodes.length := by
    have := map_getD_idx (K := K) N.nodes (nodes_nodup N) (x.take N.nodes.length)
      (by simp; omega) 0 [] rfl
    simp only [List.nil_append, Nat.zero_add] at this
    rw [← this]
    apply List.map_congr_left
    intro n hn
    obtain ⟨k, hk, hlt, _⟩ := idxOf?_of_mem hn
    simp only [Net.solOf, hk, Option.getD_some]
    rw [List.getD_eq_getElem?_getD, List.getD_eq_getElem?_getD, List.getElem?_take_of_lt hlt]
  have h2 : N.vsSorted.map (fun b => (N.solOf x).ivs b.id) = x.drop N.nodes.length := by
    have := map_getD_idx (K := K) N.vsIds (vsIds_nodup N h) (x.drop N.nodes.length)
      (by simp; omega) N.nodes.length (x.take N.nodes.length) (by simp; omega)
    rw [List.take_append_drop] at this
    rw [← this]
    conv_rhs => rw [← vsSorted_ids N h]
    rw [List.map_map]
    apply List.map_congr_left
    intro b _
    simp only [Function.comp_apply, Net.solOf, vsSorted_ids N h]
  rw [h1, h2]; exact hsplit

/-- packing of a label-indexed solution into the code's vector layout -/
def Net.pack (N : Net L K) (s : Sol L K) : List K :=
  N.nodes.map s.phi ++ N.vsSorted.map (fun b => s.ivs b.id)

theorem pack_length (N : Net L K) (h : N.ids.Nodup) (s : Sol L K) :
    (N.pack s).length = N.nodes.length + N.vsIds.length := by
  simp [Net.pack, vsSorted_length N h]

/-- **Bridge (packed form).** -/
theorem matVec_pack_iff (N : Net L K) (s : Sol L K) :
    matVec N.mnaA (N.pack s) = N.mnaB ↔
      (∀ n ∈ N.nodes, N.rowNode s n = N.rhsNode n) ∧
      (∀ b ∈ N.vsSorted, N.rowVS s b = b.e.Vval) := by
  have hrowN : ∀ i, dotL ((N.nodes.map fun j => N.Yentry i j) ++ (N.vsSorted.map fun b => b.dir i)) (N.pack s)
      = N.rowNode s i := by
    intro i
    unfold Net.pack
    rw [dotL_append _ _ _ _ (by simp), dotL_map_map, dotL_map_map]
    rfl
  have hrowV : ∀ b : Branch L K, dotL ((N.nodes.map fun j => b.dir j) ++ (N.vsSorted.map fun _ => (0 : K))) (N.pack s)
      = N.rowVS s b := by
    intro b
    unfold Net.pack
    rw [dotL_append _ _ _ _ (by simp), dotL_map_map, dotL_zeros]
    simp [Net.rowVS]
  unfold matVec Net.mnaA Net.mnaB
  rw [List.map_append, List.map_map, List.map_map]
  constructor
  · intro heq
    obtain ⟨e1, e2⟩ := List.append_inj heq (by simp)
    constructor
    · intro n hn
      have := List.map_inj_left.mp e1 n hn
      simp only [Function.comp_apply] at this
      rw [hrowN] at this; exact this
    · intro b hb
      have := List.map_inj_left.mp e2 b hb
      simp only [Function.comp_apply] at this
      rw [hrowV] at this; exact this
  · rintro ⟨r1, r2⟩
    congr 1
    · apply List.map_congr_left; intro n hn
      simp only [Function.comp_apply]; rw [hrowN]; exact r1 n hn
    · apply List.map_congr_left; intro b hb
      simp only [Function.comp_apply]; rw [hrowV]; exact r2 b hb

/-- **Bridge.**  The list-shaped matrix equation holds iff every node row and every
voltage-source row holds for the label-indexed reading of the vector. -/
theorem matVec_iff_rows (N : Net L K) (h : N.ids.Nodup) (x : List K)
    (hx : x.length = N.nodes.length + N.vsIds.length) :
    matVec N.mnaA x = N.mnaB ↔
      (∀ n ∈ N.nodes, N.rowNode (N.solOf x) n = N.rhsNode n) ∧
      (∀ b ∈ N.vsSorted, N.rowVS (N.solOf x) b = b.e.Vval) := by
  have hp : x = N.pack (N.solOf x) := pack_solOf N h x hx
  conv_lhs => rw [hp]
  exact matVec_pack_iff N (N.solOf x)

end CC
