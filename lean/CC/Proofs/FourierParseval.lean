/-
  CC.Proofs.FourierParseval — Parseval's identity for a bounded measurable real function whose
  Fourier coefficients are given by an amplitude/phase sequence (via Mathlib's
  `hasSum_sq_fourierCoeffOn`).
-/
import CC.Proofs.FourierWave
import Mathlib.Analysis.Fourier.AddCircle
import Mathlib.MeasureTheory.Function.Floor

namespace CC.Fourier
open MeasureTheory Complex

/-- our `coeff` is Mathlib's `fourierCoeffOn` on `(0, T]` -/
theorem fourierCoeffOn_eq_coeff (f : ℝ → ℝ) (T : ℝ) (hT : 0 < T) (n : ℤ) :
    fourierCoeffOn hT (fun t => ((f t : ℝ) : ℂ)) n = coeff f T n := by
  rw [fourierCoeffOn_eq_integral, coeff_eq]
  simp only [fourier_coe_apply, sub_zero, smul_eq_mul, Complex.real_smul]
  congr 1
  · push_cast; rfl
  · apply intervalIntegral.integral_congr
    intro t _
    simp only
    rw [mul_comm]
    congr 2
    unfold cexpo
    push_cast
    ring

theorem parseval_of_coeff (f : ℝ → ℝ) (T : ℝ) (hT : 0 < T) (hm : Measurable f) (C : ℝ)
    (hb : ∀ t, |f t| ≤ C) (amp : ℕ → ℝ) (h0 : ‖coeff f T 0‖ = |amp 0|)
    (hn : ∀ n : ℕ, 1 ≤ n → ‖coeff f T n‖ = |amp n| / 2) :
    HasSum (fun n : ℕ => if n = 0 then amp 0 ^ 2 else amp n ^ 2 / 2)
      ((1 / T) * ∫ t in (0:ℝ)..T, f t ^ 2) := by
  have hL2 : MemLp (fun t => ((f t : ℝ) : ℂ)) 2 (volume.restrict (Set.Ioc 0 T)) := by
    refine MemLp.of_bound (Complex.measurable_ofReal.comp hm).aestronglyMeasurable C ?_
    filter_upwards with t
    simpa using hb t
  have hP := hasSum_sq_fourierCoeffOn hT hL2
  simp only [fourierCoeffOn_eq_coeff f T hT] at hP
  -- the value
  have hval : (T - 0)⁻¹ • ∫ x in (0:ℝ)..T, ‖((f x : ℝ) : ℂ)‖ ^ 2 = (1 / T) * ∫ t in (0:ℝ)..T, f t ^ 2 := by
    simp [sq_abs]
  rw [hval] at hP
  set g : ℤ → ℝ := fun i => ‖coeff f T i‖ ^ 2 with hg
  have hsymm : ∀ n : ℕ, g (-(n : ℤ)) = g n := by
    intro n
    simp only [hg]
    rw [coeff_neg, Complex.norm_conj]
  -- split the sum over ℤ into the sum over ℕ
  have hnat : Summable (fun n : ℕ => g n) := hP.summable.comp_injective Nat.cast_injective
  obtain ⟨s1, hs1⟩ := hnat
  have hs2 : HasSum (fun n : ℕ => g ((n + 1 : ℕ) : ℤ)) (s1 - g 0) := by
    have := (hasSum_nat_add_iff' (f := fun n : ℕ => g n) 1).mpr hs1
    simpa using this
  have hpair := hP.nat_add_neg_add_one
  have hpair' : HasSum (fun n : ℕ => g n + g ((n + 1 : ℕ) : ℤ)) ((1 / T) * ∫ t in (0:ℝ)..T, f t ^ 2) := by
    convert hpair using 2 with n
    rw [← hsymm (n + 1)]; push_cast; ring_nf
  have htot : (1 / T) * ∫ t in (0:ℝ)..T, f t ^ 2 = s1 + (s1 - g 0) :=
    hpair'.unique (hs1.add hs2)
  rw [← hasSum_nat_add_iff' 1]
  simp only [Finset.range_one, Finset.sum_singleton, if_true, Nat.add_eq_zero_iff, one_ne_zero, and_false,
    if_false]
  have hg0 : g 0 = amp 0 ^ 2 := by
    simp only [hg]; rw [h0, sq_abs]
  have hgn : ∀ n : ℕ, g ((n + 1 : ℕ) : ℤ) = amp (n + 1) ^ 2 / 4 := by
    intro n
    simp only [hg]
    rw [hn (n + 1) (by omega), div_pow, sq_abs]; norm_num
  have key : HasSum (fun n : ℕ => amp (n + 1) ^ 2 / 2) (2 * (s1 - g 0)) := by
    have h := hs2.mul_left 2
    have e : (fun n : ℕ => 2 * g ((n + 1 : ℕ) : ℤ)) = fun n : ℕ => amp (n + 1) ^ 2 / 2 := by
      funext n; rw [hgn n]; ring
    rwa [e] at h
  have e2 : (1 / T * ∫ t in (0:ℝ)..T, f t ^ 2) - amp 0 ^ 2 = 2 * (s1 - g 0) := by
    rw [htot, hg0]; ring
  rw [e2]
  exact key


/-! ### the generated time functions are measurable and bounded -/

theorem measurable_fmodR (T : ℝ) : Measurable fun u : ℝ => fmodR u T := by
  unfold fmodR
  have h1 : Measurable fun u : ℝ => (⌊u / T⌋ : ℤ) := (measurable_id.div_const T).floor
  have h2 : Measurable fun u : ℝ => ((⌊u / T⌋ : ℤ) : ℝ) := (measurable_from_top).comp h1
  exact measurable_id.sub (measurable_const.mul h2)

theorem measurable_plFun (T a1 b1 a2 b2 : ℝ) : Measurable (plFun T a1 b1 a2 b2) := by
  unfold plFun
  exact Measurable.ite (measurableSet_lt measurable_id measurable_const) (by fun_prop) (by fun_prop)

theorem abs_lin_le (a b u T : ℝ) (h0 : 0 ≤ u) (h1 : u < T) : |a + b * u| ≤ |a| + |b| * T := by
  calc |a + b * u| ≤ |a| + |b * u| := abs_add_le _ _
    _ = |a| + |b| * u := by rw [abs_mul, abs_of_nonneg h0]
    _ ≤ |a| + |b| * T := by
      have := mul_le_mul_of_nonneg_left h1.le (abs_nonneg b)
      linarith

theorem abs_plFun_le (T a1 b1 a2 b2 u : ℝ) (h0 : 0 ≤ u) (h1 : u < T) :
    |plFun T a1 b1 a2 b2 u| ≤ |a1| + |b1| * T + (|a2| + |b2| * T) := by
  have hT : 0 < T := lt_of_le_of_lt h0 h1
  have e1 := abs_lin_le a1 b1 u T h0 h1
  have e2 := abs_lin_le a2 b2 u T h0 h1
  have p1 : 0 ≤ |a1| + |b1| * T := by positivity
  have p2 : 0 ≤ |a2| + |b2| * T := by positivity
  unfold plFun
  split_ifs <;> linarith

theorem measurable_bounded_timeR (w : Gen.Fourier.WaveObj ℝ) (hT : 0 < w.period) :
    Measurable (timeR w) ∧ ∃ C, ∀ t, |timeR w t| ≤ C := by
  obtain ⟨cls, T, A, φ, off⟩ := w
  simp only at hT
  cases cls
  · rw [timeR_const]
    refine ⟨by unfold linFun; fun_prop, |A|, fun t => ?_⟩
    simp [linFun]
  · rw [timeR_cos]
    refine ⟨by fun_prop, |A| + |off|, fun t => ?_⟩
    calc |A * Real.cos (2 * Real.pi / T * t + φ) + off| ≤ |A * Real.cos (2 * Real.pi / T * t + φ)| + |off| := abs_add_le _ _
      _ ≤ |A| + |off| := by
        rw [abs_mul]
        have := mul_le_mul_of_nonneg_left (Real.abs_cos_le_one (2 * Real.pi / T * t + φ)) (abs_nonneg A)
        linarith
  · rw [timeR_sin]
    refine ⟨by fun_prop, |A| + |off|, fun t => ?_⟩
    calc |A * Real.cos (2 * Real.pi / T * t + (-Real.pi / 2 + φ)) + off|
        ≤ |A * Real.cos (2 * Real.pi / T * t + (-Real.pi / 2 + φ))| + |off| := abs_add_le _ _
      _ ≤ |A| + |off| := by
        rw [abs_mul]
        have := mul_le_mul_of_nonneg_left (Real.abs_cos_le_one (2 * Real.pi / T * t + (-Real.pi / 2 + φ))) (abs_nonneg A)
        linarith
  · rw [timeR_rect]
    exact ⟨(measurable_plFun _ _ _ _ _).comp ((measurable_fmodR T).comp (by fun_prop)), _,
      fun t => abs_plFun_le _ _ _ _ _ _ (fmodR_nonneg _ _ hT) (fmodR_lt _ _ hT)⟩
  · rw [timeR_tri]
    exact ⟨(measurable_plFun _ _ _ _ _).comp ((measurable_fmodR T).comp (by fun_prop)), _,
      fun t => abs_plFun_le _ _ _ _ _ _ (fmodR_nonneg _ _ hT) (fmodR_lt _ _ hT)⟩
  · rw [timeR_saw]
    have hm : Measurable (linFun (-A + off) (2 * A / T)) := by unfold linFun; fun_prop
    exact ⟨hm.comp ((measurable_fmodR T).comp (by fun_prop)), _,
      fun t => abs_lin_le _ _ _ _ (fmodR_nonneg _ _ hT) (fmodR_lt _ _ hT)⟩

end CC.Fourier
