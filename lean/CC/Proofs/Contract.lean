/-
  CC.Proofs.Contract — short-circuit contraction (`remove_short_circuit_elements`) preserves
  every solution of the circuit equations, for any number of shorts (chains, stars,
  parallel shorts, shorts touching the reference node), and is complete: no non-exempt short
  is left.  The loop contracts the first pair and renames the remaining pairs along with the
  branches (`contractAll`).
  Key observation: in any solution of the original network the two ends of every short are at
  the same potential; a renaming `an → rn` with `φ(an) = φ(rn)` preserves the circuit
  equations and keeps the remaining pairs equipotential.
-/
import CC.Proofs.SpecLemmas
import CC.Model.Transform
set_option linter.unusedSectionVars false

namespace CC
variable {L K : Type} [DecidableEq L] [LabelOrd L] [Field K] [DecidableEq K]

/-- the two list comprehensions of the loop body -/
def ren1 (an rn : L) (b : Branch L K) : Branch L K := if b.n1 = an then { b with n1 := rn } else b
def ren2 (an rn : L) (b : Branch L K) : Branch L K := if b.n2 = an then { b with n2 := rn } else b
def ren (an rn : L) (b : Branch L K) : Branch L K := ren2 an rn (ren1 an rn b)

theorem contractStep_eq (bs : List (Branch L K)) (an rn : L) :
    contractStep bs an rn = ((bs.map (ren an rn)).filter fun b => b.n1 ≠ b.n2) := by
  unfold contractStep
  simp only [List.map_map]
  rfl

theorem ren_id (an rn : L) (b : Branch L K) : (ren an rn b).id = b.id := by
  unfold ren ren1 ren2; by_cases h1 : b.n1 = an <;> by_cases h2 : b.n2 = an <;> simp [h1, h2]
theorem ren_e (an rn : L) (b : Branch L K) : (ren an rn b).e = b.e := by
  unfold ren ren1 ren2; by_cases h1 : b.n1 = an <;> by_cases h2 : b.n2 = an <;> simp [h1, h2]
theorem ren_ty (an rn : L) (b : Branch L K) : (ren an rn b).ty = b.ty := by
  unfold ren ren1 ren2; by_cases h1 : b.n1 = an <;> by_cases h2 : b.n2 = an <;> simp [h1, h2]
theorem ren_n1 (an rn : L) (b : Branch L K) : (ren an rn b).n1 = if b.n1 = an then rn else b.n1 := by
  unfold ren ren1 ren2; by_cases h1 : b.n1 = an <;> by_cases h2 : b.n2 = an <;> simp [h1, h2]
theorem ren_n2 (an rn : L) (b : Branch L K) : (ren an rn b).n2 = if b.n2 = an then rn else b.n2 := by
  unfold ren ren1 ren2; by_cases h1 : b.n1 = an <;> by_cases h2 : b.n2 = an <;> simp [h1, h2]

theorem pot_ren (R : Report L K) (an rn : L) (hp : R.pot an = R.pot rn) (b : Branch L K) :
    R.pot (ren an rn b).n1 = R.pot b.n1 ∧ R.pot (ren an rn b).n2 = R.pot b.n2 := by
  rw [ren_n1, ren_n2]
  constructor
  · by_cases h : b.n1 = an
    · simp [h, hp]
    · simp [h]
  · by_cases h : b.n2 = an
    · simp [h, hp]
    · simp [h]

theorem incidence_ren (an rn : L) (hne : an ≠ rn) (b : Branch L K) (n : L) :
    incidence (ren an rn b) n =
      if n = an then 0 else if n = rn then incidence b rn + incidence b an else incidence b n := by
  unfold incidence
  rw [ren_n1, ren_n2]
  by_cases h1 : b.n1 = an <;> by_cases h2 : b.n2 = an <;> by_cases hna : n = an <;>
    by_cases hnr : n = rn <;> simp_all [eq_comm] <;> (try ring_nf) <;> simp_all [eq_comm]

theorem sum_filter_noloop (bs : List (Branch L K)) (n : L) (f : Branch L K → K) :
    ((bs.filter fun b => b.n1 ≠ b.n2).map fun b => incidence b n * f b).sum
      = (bs.map fun b => incidence b n * f b).sum := by
  rw [sum_filter_eq_sum_ite]
  apply congrArg; apply List.map_congr_left
  intro b _
  by_cases h : b.n1 = b.n2
  · have : incidence b n = 0 := by unfold incidence; rw [h]; ring
    simp [h, this]
  · simp [h]

/-- one renaming step preserves the circuit equations -/
theorem step_sound (bs : List (Branch L K)) (z : L) (R : Report L K) (an rn : L)
    (hp : R.pot an = R.pot rn) (h : CircuitEqsAll bs z R) :
    CircuitEqsAll (contractStep bs an rn) z R := by
  rw [contractStep_eq]
  have hmem : ∀ b' ∈ ((bs.map (ren an rn)).filter fun b => b.n1 ≠ b.n2), ∃ b ∈ bs, b' = ren an rn b := by
    intro b' hb'
    obtain ⟨b, hb, rfl⟩ := List.mem_map.mp (List.mem_filter.mp hb').1
    exact ⟨b, hb, rfl⟩
  refine ⟨h.ref_zero, ?_, ?_, ?_⟩
  · intro b' hb'
    obtain ⟨b, hb, rfl⟩ := hmem b' hb'
    have := h.volt b hb
    unfold voltResidual at this ⊢
    rw [ren_id, (pot_ren R an rn hp b).1, (pot_ren R an rn hp b).2]; exact this
  · intro b' hb'
    obtain ⟨b, hb, rfl⟩ := hmem b' hb'
    rw [ren_id, ren_e]; exact h.law b hb
  · intro n
    unfold kclResidual
    simp only
    rw [sum_filter_noloop (bs.map (ren an rn)) n (fun b => b.e.physCurrent (R.i b.id)), List.map_map]
    by_cases hne : an = rn
    · subst hne
      have hid : ∀ b : Branch L K, ren an an b = b := by
        intro b; unfold ren ren1 ren2
        by_cases h1 : b.n1 = an <;> by_cases h2 : b.n2 = an <;> simp [h1, h2] <;> (cases b; simp_all)
      have := h.kcl n
      unfold kclResidual at this
      simpa [Function.comp_def, hid] using this
    · have e : ∀ b : Branch L K, ((fun b => incidence b n * b.e.physCurrent (R.i b.id)) ∘ ren an rn) b
          = (if n = an then 0 else if n = rn then incidence b rn + incidence b an else incidence b n)
              * b.e.physCurrent (R.i b.id) := by
        intro b
        simp only [Function.comp_apply, ren_id, ren_e, incidence_ren an rn hne]
      rw [List.map_congr_left (fun b _ => e b)]
      have k1 := h.kcl rn; have k2 := h.kcl an; have k3 := h.kcl n
      unfold kclResidual at k1 k2 k3
      simp only at k1 k2 k3
      by_cases hna : n = an
      · simp [hna]
      · by_cases hnr : n = rn
        · simp only [hna, hnr, if_false, if_true, add_mul, List.sum_map_add]
          have hne' : rn ≠ an := fun e => hne e.symm
          simp only [hne', if_false]
          have : (bs.map fun b => (incidence b rn + incidence b an) * b.e.physCurrent (R.i b.id))
              = bs.map fun b => incidence b rn * b.e.physCurrent (R.i b.id)
                  + incidence b an * b.e.physCurrent (R.i b.id) := by
            apply List.map_congr_left; intro b _; ring
          rw [this, List.sum_map_add, k1, k2, add_zero]
        · simp only [hna, hnr, if_false]; exact k3

theorem ren_key (an rn : L) (b : Branch L K) : (ren an rn b).key = b.key := by
  unfold Branch.key; rw [ren_id, ren_ty, ren_e]

theorem orient_pot (z : L) (R : Report L K) (p : L × L) (h : R.pot p.1 = R.pot p.2) :
    R.pot (orient z p).1 = R.pot (orient z p).2 := by
  unfold orient; by_cases hz : p.1 = z
  · simp [hz]; rw [← h, hz]
  · simp [hz, h]

theorem renPair_pot (R : Report L K) (an rn : L) (hp : R.pot an = R.pot rn) (q : L × L)
    (h : R.pot q.1 = R.pot q.2) : R.pot (renPair an rn q).1 = R.pot (renPair an rn q).2 := by
  unfold renPair
  by_cases h1 : q.1 = an <;> by_cases h2 : q.2 = an <;> simp_all

theorem contractAll_nil (z : L) (bs : List (Branch L K)) : contractAll z [] bs = bs := by
  rw [contractAll]

theorem contractAll_cons (z : L) (p : L × L) (ps : List (L × L)) (bs : List (Branch L K)) :
    contractAll z (p :: ps) bs =
      contractAll z (ps.map (renPair (orient z p).1 (orient z p).2)) (contractStep bs (orient z p).1 (orient z p).2) := by
  rw [contractAll]

/-- induction principle of the loop: a property of `(pairs, branches)` that survives one step
(contract the first pair, rename the remaining ones) holds at the end -/
theorem contractAll_ind (z : L) (Inv : List (L × L) → List (Branch L K) → Prop)
    (step : ∀ p ps bs, Inv (p :: ps) bs →
      Inv (ps.map (renPair (orient z p).1 (orient z p).2)) (contractStep bs (orient z p).1 (orient z p).2)) :
    ∀ (n : Nat) (pairs : List (L × L)) (bs : List (Branch L K)), pairs.length = n → Inv pairs bs →
      Inv [] (contractAll z pairs bs) := by
  intro n
  induction n with
  | zero =>
    intro pairs bs hl h
    have : pairs = [] := List.length_eq_zero_iff.mp hl
    subst this; rw [contractAll_nil]; exact h
  | succ n ih =>
    intro pairs bs hl h
    cases pairs with
    | nil => simp at hl
    | cons p ps =>
      rw [contractAll_cons]
      exact ih _ _ (by simpa using hl) (step p ps bs h)

/-- the whole loop preserves the circuit equations: the pairs that remain stay equipotential,
because a renaming only replaces `an` by `rn` with `R.pot an = R.pot rn` -/
theorem contractAll_sound (pairs : List (L × L)) (bs : List (Branch L K)) (z : L) (R : Report L K)
    (h : CircuitEqsAll bs z R) (hp : ∀ p ∈ pairs, R.pot p.1 = R.pot p.2) :
    CircuitEqsAll (contractAll z pairs bs) z R := by
  refine (contractAll_ind z (fun ps bs => CircuitEqsAll bs z R ∧ ∀ p ∈ ps, R.pot p.1 = R.pot p.2) ?_
    pairs.length pairs bs rfl ⟨h, hp⟩).1
  rintro p ps bs ⟨hc, hq⟩
  have h0 := orient_pot z R p (hq p (List.mem_cons_self ..))
  refine ⟨step_sound bs z R _ _ h0 hc, ?_⟩
  intro q' hq'
  obtain ⟨q, hqm, rfl⟩ := List.mem_map.mp hq'
  exact renPair_pot R _ _ h0 q (hq q (List.mem_cons_of_mem _ hqm))

/-- every branch of the contracted list is a branch of the original list with the same
identifier, type and record, its terminals moved only within equipotential nodes -/
theorem contractAll_survivors (pairs : List (L × L)) (bs : List (Branch L K)) (z : L) (R : Report L K)
    (hp : ∀ p ∈ pairs, R.pot p.1 = R.pot p.2) :
    ∀ b' ∈ contractAll z pairs bs, ∃ b ∈ bs,
      b'.id = b.id ∧ b'.ty = b.ty ∧ b'.e = b.e ∧ R.pot b'.n1 = R.pot b.n1 ∧ R.pot b'.n2 = R.pot b.n2 := by
  refine (contractAll_ind z (fun ps bs' => (∀ p ∈ ps, R.pot p.1 = R.pot p.2) ∧ ∀ b' ∈ bs', ∃ b ∈ bs,
      b'.id = b.id ∧ b'.ty = b.ty ∧ b'.e = b.e ∧ R.pot b'.n1 = R.pot b.n1 ∧ R.pot b'.n2 = R.pot b.n2) ?_
    pairs.length pairs bs rfl ⟨hp, fun b' hb' => ⟨b', hb', rfl, rfl, rfl, rfl, rfl⟩⟩).2
  rintro p ps bs1 ⟨hq, hs⟩
  have h0 := orient_pot z R p (hq p (List.mem_cons_self ..))
  refine ⟨?_, ?_⟩
  · intro q' hq'
    obtain ⟨q, hqm, rfl⟩ := List.mem_map.mp hq'
    exact renPair_pot R _ _ h0 q (hq q (List.mem_cons_of_mem _ hqm))
  · intro b' hb'
    rw [contractStep_eq] at hb'
    obtain ⟨b1, hb1, rfl⟩ := List.mem_map.mp (List.mem_filter.mp hb').1
    obtain ⟨b, hb, h1, h2, h3, h4, h5⟩ := hs b1 hb1
    have hpp := pot_ren R _ _ h0 b1
    exact ⟨b, hb, by rw [ren_id, h1], by rw [ren_ty, h2], by rw [ren_e, h3],
      by rw [hpp.1, h4], by rw [hpp.2, h5]⟩

/-- **completeness of the loop**: if every branch with property `P` (of its element: name, type,
record) has its terminal pair, in one order or the other, in the list of pairs, then no branch with
property `P` is left at the end — it was contracted into a self-loop and dropped -/
theorem contractAll_complete (P : ElemKey K → Prop) (pairs : List (L × L)) (bs : List (Branch L K)) (z : L)
    (hcov : ∀ b ∈ bs, P b.key → (b.n1, b.n2) ∈ pairs ∨ (b.n2, b.n1) ∈ pairs) :
    ∀ b' ∈ contractAll z pairs bs, ¬ P b'.key := by
  have := contractAll_ind z (fun ps bs' => ∀ b ∈ bs', P b.key → (b.n1, b.n2) ∈ ps ∨ (b.n2, b.n1) ∈ ps) ?_
    pairs.length pairs bs rfl hcov
  · intro b' hb' hP
    rcases this b' hb' hP with h | h <;> simp at h
  intro p ps bs1 hc b' hb' hP
  rw [contractStep_eq] at hb'
  obtain ⟨hbm, hloop⟩ := List.mem_filter.mp hb'
  obtain ⟨b, hb, rfl⟩ := List.mem_map.mp hbm
  rw [ren_key] at hP
  simp only [ne_eq, decide_eq_true_eq, ren_n1, ren_n2] at hloop
  have horient : orient z p = p ∨ orient z p = (p.2, p.1) := by
    unfold orient; by_cases hz : p.1 = z <;> simp [hz]
  have hmem : ∀ q : L × L, q ∈ ps → renPair (orient z p).1 (orient z p).2 q ∈
      ps.map (renPair (orient z p).1 (orient z p).2) := fun q hq => List.mem_map.mpr ⟨q, hq, rfl⟩
  rw [ren_n1, ren_n2]
  rcases hc b hb hP with h | h
  · rcases List.mem_cons.mp h with h | h
    · exfalso; apply hloop
      rcases horient with ho | ho <;> rw [ho] <;> rw [← h] <;> simp
    · exact Or.inl (hmem _ h)
  · rcases List.mem_cons.mp h with h | h
    · exfalso; apply hloop
      rcases horient with ho | ho <;> rw [ho] <;> rw [← h] <;> simp
    · exact Or.inr (hmem _ h)

/-- in a solution of the network the two ends of every contracted short are equipotential -/
theorem shortPairs_equipotential (N : Net L K) (keep : List (ElemKey K)) (R : Report L K)
    (h : CircuitEqs N R) : ∀ p ∈ shortPairs N keep, R.pot p.1 = R.pot p.2 := by
  intro p hpm
  unfold shortPairs at hpm
  obtain ⟨b, hb, rfl⟩ := List.mem_map.mp hpm
  obtain ⟨hbm, hsh⟩ := List.mem_filter.mp hb
  have hshort : b.e.isShort = true := by
    simp only [Bool.and_eq_true] at hsh; exact hsh.1
  have hv := h.volt b hbm
  have hl := h.law b hbm
  unfold voltResidual at hv
  have hv0 : R.v b.id = 0 := by
    cases he : b.e with
    | norton Z V =>
      rw [he] at hshort hl
      simp only [Elem.isShort, Bool.and_eq_true, decide_eq_true_eq] at hshort
      simp only [Elem.lawResidual, hshort.2, if_true, hshort.1, sub_zero] at hl
      exact hl
    | thevenin Y I => rw [he] at hshort; simp [Elem.isShort] at hshort
  rw [hv0] at hv
  have : R.pot b.n1 = R.pot b.n2 := by linear_combination -hv
  by_cases hz : b.n1 ≠ N.zero
  · simp [hz, this]
  · simp [hz, this]

end CC
