/-
  CC.Proofs.StateCircuit — the per-sample network of C12 (`sampleNet`: capacitor k ↦ ideal
  current source `C_k·ẋ_k`, inductor k ↦ ideal voltage source `L_k·ẋ_k`, sources at their
  instantaneous values) has the SAME nodal matrix as the `w = 0` network, so C01's soundness
  theorem applies to it: a vector that solves `Ã y = (right-hand side of the sample network)`
  reports potentials, voltages and currents that satisfy Kirchhoff's laws and every element law
  of the circuit at that sample.
-/
import CC.Properties.C01
import CC.Spec.StateSpace
set_option linter.unusedSectionVars false

namespace CC
section
variable {L K : Type} [DecidableEq L] [LabelOrd L] [Field K] [DecidableEq K]

/-- an element substitution that keeps "is an ideal voltage source" and the finite admittance -/
def KeepsStructure (N : Net L K) (f : Branch L K → Elem K) : Prop :=
  ∀ b ∈ N.branches, (f b).isIdealVS = b.e.isIdealVS ∧ (f b).Yfin = b.e.Yfin

theorem mapElems_ids (N : Net L K) (f : Branch L K → Elem K) : (N.mapElems f).ids = N.ids := by
  simp [Net.mapElems, Net.ids, Function.comp_def]

theorem mapElems_nodeLabels (N : Net L K) (f : Branch L K → Elem K) :
    (N.mapElems f).nodeLabels = N.nodeLabels := by
  simp [Net.mapElems, Net.nodeLabels, Function.comp_def]

theorem mapElems_nodes (N : Net L K) (f : Branch L K → Elem K) : (N.mapElems f).nodes = N.nodes := by
  unfold Net.nodes; rw [mapElems_nodeLabels]; rfl

theorem mapElems_wf (N : Net L K) (f : Branch L K → Elem K) (wf : N.WF) : (N.mapElems f).WF where
  ids_nodup := by rw [mapElems_ids]; exact wf.ids_nodup
  zero_mem := by rw [mapElems_nodeLabels]; exact wf.zero_mem
  no_self_loop := by
    intro b hb
    simp only [Net.mapElems, List.mem_map] at hb
    obtain ⟨b0, hb0, rfl⟩ := hb
    exact wf.no_self_loop b0 hb0

theorem mapElems_vs (N : Net L K) (f : Branch L K → Elem K) (hk : KeepsStructure N f) :
    (N.mapElems f).vs = N.vs.map fun b => { b with e := f b } := by
  unfold Net.vs Net.mapElems
  simp only [List.filter_map]
  congr 1
  apply List.filter_congr
  intro b hb
  simp [Function.comp, (hk b hb).1]

theorem mapElems_vsIds (N : Net L K) (f : Branch L K → Elem K) (hk : KeepsStructure N f) :
    (N.mapElems f).vsIds = N.vsIds := by
  unfold Net.vsIds; rw [mapElems_vs N f hk]; simp [Function.comp_def]

theorem mapElems_get? (N : Net L K) (f : Branch L K → Elem K) (id : String) :
    (N.mapElems f).get? id = (N.get? id).map fun b => { b with e := f b } := by
  unfold Net.get? Net.mapElems
  simp only [← List.map_reverse, List.find?_map, Function.comp_def]

theorem mapElems_vsSorted (N : Net L K) (f : Branch L K → Elem K) (hk : KeepsStructure N f) :
    (N.mapElems f).vsSorted = N.vsSorted.map fun b => { b with e := f b } := by
  unfold Net.vsSorted Net.byIds
  rw [mapElems_vsIds N f hk, List.map_filterMap]
  congr 1
  funext x
  exact mapElems_get? N f x

theorem mapElems_nonVS (N : Net L K) (f : Branch L K → Elem K) (hk : KeepsStructure N f) :
    (N.mapElems f).nonVS = N.nonVS.map fun b => { b with e := f b } := by
  unfold Net.nonVS Net.mapElems
  simp only [List.filter_map]
  congr 1
  apply List.filter_congr
  intro b hb
  simp [Function.comp, (hk b hb).1]

theorem mem_nonVS (N : Net L K) {b : Branch L K} (h : b ∈ N.nonVS) : b ∈ N.branches :=
  (List.mem_filter.mp h).1

theorem mapElems_Yentry (N : Net L K) (f : Branch L K → Elem K) (hk : KeepsStructure N f) (i j : L) :
    (N.mapElems f).Yentry i j = N.Yentry i j := by
  unfold Net.Yentry
  rw [mapElems_nonVS N f hk]
  have key : ∀ (p : Branch L K → Bool) (hp : ∀ b, p { b with e := f b } = p b),
      (((N.nonVS.map fun b => { b with e := f b }).filter p).map (·.e.Yfin)).sum
        = ((N.nonVS.filter p).map (·.e.Yfin)).sum := by
    intro p hp
    rw [List.filter_map, List.map_map]
    have : (N.nonVS.filter (p ∘ fun b => { b with e := f b })) = N.nonVS.filter p :=
      List.filter_congr fun b _ => hp b
    rw [this]
    congr 1
    apply List.map_congr_left
    intro b hb
    exact (hk b (mem_nonVS N (List.mem_filter.mp hb).1)).2
  by_cases h : i = j
  · simp only [h, if_true]
    exact key _ (fun b => rfl)
  · simp only [h, if_false]
    rw [key _ (fun b => rfl)]

theorem mapElems_mnaA (N : Net L K) (f : Branch L K → Elem K) (hk : KeepsStructure N f) :
    (N.mapElems f).mnaA = N.mnaA := by
  unfold Net.mnaA
  rw [mapElems_nodes, mapElems_vsSorted N f hk]
  simp only [List.map_map, Function.comp_def, mapElems_Yentry N f hk, Branch.dir]

/-- **C01 applied to a substituted network.**  If the elements are replaced in a way that keeps
the nodal matrix (same ideal voltage sources, same finite admittances) then a solution of
`Ã y = (right-hand side of the substituted network)` reports a solution of the substituted
network's circuit equations. -/
theorem substituted_is_circuit (N : Net L K) (f : Branch L K → Elem K) (hk : KeepsStructure N f)
    (wf : N.WF) (y : List K) (hy : y.length = N.nodes.length + N.vsIds.length)
    (h : matVec N.mnaA y = (N.mapElems f).mnaB) :
    CircuitEqs (N.mapElems f) ((N.mapElems f).reportOf y) := by
  have := C01_sound (N.mapElems f) y (mapElems_wf N f wf)
    (by rw [mapElems_nodes, mapElems_vsIds N f hk]; exact hy)
    (by rw [mapElems_mnaA N f hk]; exact h)
  exact this.2.2

/-! ### the per-sample network keeps the structure -/

theorem setSource_keeps (sources : List String) (u : List K) (b : Branch L K) :
    (setSource sources u b).isIdealVS = b.e.isIdealVS ∧ (setSource sources u b).Yfin = b.e.Yfin := by
  unfold setSource
  cases idxOf? b.id sources with
  | none => exact ⟨rfl, rfl⟩
  | some k => cases b.e <;> exact ⟨rfl, rfl⟩

/-- capacitors are open circuits and inductors short circuits in the `w = 0` network -/
def ReactivePlaceholders (N : Net L K) (cvals lvals : ValDict K) : Prop :=
  (∀ b ∈ N.branches, b.id ∈ cvals.keys → b.e = .thevenin 0 0)
  ∧ (∀ b ∈ N.branches, b.id ∈ lvals.keys → b.e = .norton 0 0)

theorem idxOf?_some_mem {α : Type} [DecidableEq α] {a : α} {l : List α} {k : Nat} (h : idxOf? a l = some k) :
    a ∈ l := by
  by_contra hn
  rw [idxOf?_none_of_not_mem hn] at h
  cases h

theorem sampleNet_keeps (N : Net L K) (cvals lvals : ValDict K) (sources : List String) (u xdot : List K)
    (hp : ReactivePlaceholders N cvals lvals) :
    KeepsStructure N fun b =>
      match idxOf? b.id cvals.keys with
      | some k => .thevenin 0 (cvals.vals.getD k 0 * xdot.getD k 0)
      | none =>
        match idxOf? b.id lvals.keys with
        | some k => .norton 0 (lvals.vals.getD k 0 * xdot.getD (cvals.length + k) 0)
        | none => setSource sources u b := by
  intro b hb
  beta_reduce
  cases hc : idxOf? b.id cvals.keys with
  | some k =>
    have := hp.1 b hb (idxOf?_some_mem hc)
    simp [this, Elem.isIdealVS, Elem.Yfin]
  | none =>
    cases hl : idxOf? b.id lvals.keys with
    | some k =>
      have := hp.2 b hb (idxOf?_some_mem hl)
      simp [this, Elem.isIdealVS, Elem.Yfin]
    | none => exact setSource_keeps sources u b

/-- **C12, the sample network is solved.**  For the `w = 0` network of an RLC circuit (capacitors
open, inductors shorted, distinct ids, no self-loops): any vector `y` with
`Ã y = mnaB (sampleNet … u ẋ)` reports potentials, voltages and currents that satisfy the reference
condition, Kirchhoff's voltage law, every element law (capacitor current `C_k·ẋ_k`, inductor voltage
`L_k·ẋ_k`, sources at `u`, resistors) and Kirchhoff's current law at every node of the circuit at
that sample. -/
theorem sample_is_circuit (N : Net L K) (cvals lvals : ValDict K) (sources : List String) (u xdot y : List K)
    (wf : N.WF) (hp : ReactivePlaceholders N cvals lvals)
    (hy : y.length = N.nodes.length + N.vsIds.length)
    (h : matVec N.mnaA y = (sampleNet N cvals lvals sources u xdot).mnaB) :
    CircuitEqs (sampleNet N cvals lvals sources u xdot) ((sampleNet N cvals lvals sources u xdot).reportOf y) :=
  substituted_is_circuit N _ (sampleNet_keeps N cvals lvals sources u xdot hp) wf y hy h

end
end CC
