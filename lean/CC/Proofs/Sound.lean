/-
  CC.Proofs.Sound — the accessor functions of the model, applied to any vector that
  satisfies the matrix equation, report a solution of the circuit equations.
-/
import CC.Proofs.Bridge
set_option linter.unusedSectionVars false

namespace CC
variable {L K : Type} [DecidableEq L] [LabelOrd L] [Field K] [DecidableEq K]

/-- branch voltage in terms of the label-indexed solution -/
def Net.vOf (N : Net L K) (s : Sol L K) (b : Branch L K) : K := N.pot s b.n1 - N.pot s b.n2

/-- the four-way case split of `get_current`, label-indexed -/
def Net.curOf (N : Net L K) (s : Sol L K) (b : Branch L K) : K :=
  if b.e.isIdealVS then s.ivs b.id
  else if b.e.isIdealCS then b.e.Ival
  else if b.e.isCS then -(b.e.Ival + N.vOf s b / b.e.Zfin)
  else N.vOf s b / b.e.Zfin

/-- the report assembled from the accessors -/
def Net.reportOf (N : Net L K) (x : List K) : Report L K :=
  let s := N.solOf x
  { pot := fun n => N.pot s n
    v := fun id => match N.get? id with | some b => N.vOf s b | none => 0
    i := fun id => match N.get? id with | some b => N.curOf s b | none => 0 }

theorem potential_ok (N : Net L K) (x : List K) (n : L) (hn : n ∈ N.nodeLabels) :
    N.potential x n = .ok (N.pot (N.solOf x) n) := by
  unfold Net.potential Net.pot
  by_cases hz : n = N.zero
  · simp [hz]
  · have : n ∈ N.nodes := (mem_nodes_iff N n).mpr ⟨hn, hz⟩
    obtain ⟨k, hk, _, _⟩ := idxOf?_of_mem this
    simp [hz, hk, Net.solOf]

theorem voltage_ok (N : Net L K) (x : List K) (hids : N.ids.Nodup) (b : Branch L K)
    (hb : b ∈ N.branches) : N.voltage x b.id = .ok (N.vOf (N.solOf x) b) := by
  unfold Net.voltage
  rw [get?_of_mem N hids hb]
  simp only [potential_ok N x _ (n1_mem_labels N hb), potential_ok N x _ (n2_mem_labels N hb)]
  rfl

theorem id_mem_vsIds_iff (N : Net L K) (hids : N.ids.Nodup) (b : Branch L K) (hb : b ∈ N.branches) :
    b.id ∈ N.vsIds ↔ b.e.isIdealVS = true := by
  unfold Net.vsIds
  rw [mem_sortL, List.mem_map]
  constructor
  · rintro ⟨c, hc, hcid⟩
    obtain ⟨hcm, hcv⟩ := List.mem_filter.mp hc
    have : c = b := by
      have h1 := get?_of_mem N hids hcm
      have h2 := get?_of_mem N hids hb
      rw [hcid] at h1; rw [h1] at h2; exact Option.some.inj h2
    exact this ▸ hcv
  · intro hv; exact ⟨b, List.mem_filter.mpr ⟨hb, hv⟩, rfl⟩

theorem current_ok (N : Net L K) (x : List K) (hids : N.ids.Nodup) (b : Branch L K)
    (hb : b ∈ N.branches) : N.current x b.id = .ok (N.curOf (N.solOf x) b) := by
  unfold Net.current Net.curOf
  by_cases hv : b.e.isIdealVS = true
  · have := (id_mem_vsIds_iff N hids b hb).mpr hv
    obtain ⟨k, hk, _, _⟩ := idxOf?_of_mem this
    simp [hk, hv, Net.solOf]
  · have hnot : b.id ∉ N.vsIds := fun h => hv ((id_mem_vsIds_iff N hids b hb).mp h)
    rw [idxOf?_none_of_not_mem hnot, get?_of_mem N hids hb]
    simp only [hv, Bool.false_eq_true, if_false]
    by_cases h1 : b.e.isIdealCS = true
    · simp [h1]
    · simp only [h1, Bool.false_eq_true, if_false]
      by_cases h2 : b.e.isCS = true
      · simp only [h2, if_true, voltage_ok N x hids b hb]; rfl
      · simp only [h2, Bool.false_eq_true, if_false, voltage_ok N x hids b hb]; rfl

/-! ### element laws -/

theorem law_of_rows (N : Net L K) (s : Sol L K) (b : Branch L K)
    (hvs : b.e.isIdealVS = true → N.vOf s b = b.e.Vval) :
    b.e.lawResidual (N.vOf s b) (N.curOf s b) = 0 := by
  unfold Net.curOf
  cases he : b.e with
  | norton Z V =>
    by_cases hZ : Z = 0
    · have := hvs (by simp [he, Elem.isIdealVS, hZ])
      simp [Elem.lawResidual, hZ, this, he, Elem.Vval]
    · by_cases hV : V = 0
      · simp [Elem.lawResidual, Elem.isIdealVS, Elem.isIdealCS, Elem.isCS, Elem.Ival, Elem.Zfin, hZ, hV]
        field_simp; ring
      · have : V / Z ≠ 0 := div_ne_zero hV hZ
        simp [Elem.lawResidual, Elem.isIdealVS, Elem.isIdealCS, Elem.isCS, Elem.Ival, Elem.Zfin, hZ, hV, this]
        field_simp; ring
  | thevenin Y I =>
    by_cases hY : Y = 0
    · simp [Elem.lawResidual, Elem.isIdealVS, Elem.isIdealCS, Elem.Ival, hY]
    · by_cases hI : I = 0
      · simp [Elem.lawResidual, Elem.isIdealVS, Elem.isIdealCS, Elem.isCS, Elem.Ival, Elem.Zfin, hY, hI]
        ring
      · simp [Elem.lawResidual, Elem.isIdealVS, Elem.isIdealCS, Elem.isCS, Elem.Ival, Elem.Zfin, hY, hI]
        ring

/-- the reported current, turned into the physical first→second direction, is the
current the matrix equation balances -/
theorem phys_curOf (N : Net L K) (s : Sol L K) (b : Branch L K) :
    b.e.physCurrent (N.curOf s b) = N.J s b := by
  unfold Net.curOf Net.J Elem.physCurrent Elem.isLossy Elem.kind
  cases he : b.e with
  | norton Z V =>
    by_cases hZ : Z = 0
    · simp [Elem.isIdealVS, hZ]
    · by_cases hV : V = 0
      · simp [Elem.isIdealVS, Elem.isIdealCS, Elem.isCS, Elem.Ival, Elem.Zfin, Elem.Yfin, hZ, hV, Net.vOf]
        field_simp
      · have : V / Z ≠ 0 := div_ne_zero hV hZ
        simp [Elem.isIdealVS, Elem.isIdealCS, Elem.isCS, Elem.Ival, Elem.Zfin, Elem.Yfin, hZ, hV, this, Net.vOf]
        field_simp; ring
  | thevenin Y I =>
    by_cases hY : Y = 0
    · simp [Elem.isIdealVS, Elem.isIdealCS, Elem.Ival, Elem.Yfin, hY]
    · by_cases hI : I = 0
      · simp [Elem.isIdealVS, Elem.isIdealCS, Elem.isCS, Elem.Ival, Elem.Zfin, Elem.Yfin, hY, hI, Net.vOf]
        ring
      · simp [Elem.isIdealVS, Elem.isIdealCS, Elem.isCS, Elem.Ival, Elem.Zfin, Elem.Yfin, hY, hI, Net.vOf]
        ring

/-! ### Kirchhoff's current law at the reference node -/

/-- the Spec's incidence and the code's `voltage_source_direction` are the same function
(since the self-loop repair: +1 at the first terminal minus 1 at the second) -/
theorem incidence_eq_dir_all (b : Branch L K) (n : L) : incidence b n = b.dir n := rfl

theorem incidence_eq_dir (b : Branch L K) (n : L) (h : b.n1 ≠ b.n2) : incidence b n = b.dir n :=
  incidence_eq_dir_all b n

theorem sum_incidence_labels (N : Net L K) (b : Branch L K) (hb : b ∈ N.branches) :
    (N.nodeLabels.map fun n => incidence b n).sum = 0 := by
  unfold incidence
  have hnd := nodeLabels_nodup N
  have e : ∀ n : L, ((if b.n1 = n then (1 : K) else 0) - (if b.n2 = n then (1 : K) else 0))
      = (if n = b.n1 then (1 : K) else 0) + (if n = b.n2 then (-1 : K) else 0) := by
    intro n
    have c1 : (n = b.n1) ↔ (b.n1 = n) := eq_comm
    have c2 : (n = b.n2) ↔ (b.n2 = n) := eq_comm
    simp only [c1, c2]
    by_cases h1 : b.n1 = n <;> by_cases h2 : b.n2 = n <;> simp [h1, h2, sub_eq_add_neg]
  simp only [e, List.sum_map_add]
  rw [sum_single hnd, sum_single hnd]
  simp [n1_mem_labels N hb, n2_mem_labels N hb]

theorem sum_labels_split (N : Net L K) (hz : N.zero ∈ N.nodeLabels) (f : L → K) :
    (N.nodeLabels.map f).sum = f N.zero + (N.nodes.map f).sum := by
  rw [sum_split_filter N.nodeLabels (fun n => decide (n = N.zero))]
  congr 1
  · rw [sum_filter_eq_sum_ite]
    have : (N.nodeLabels.map fun a => if decide (a = N.zero) = true then f a else 0)
        = N.nodeLabels.map fun a => if a = N.zero then f N.zero else 0 := by
      apply List.map_congr_left; intro a _
      by_cases h : a = N.zero <;> simp [h]
    rw [this, sum_single (nodeLabels_nodup N)]
    simp [hz]
  · unfold Net.nodes
    congr 2
    apply List.filter_congr; intro a _; simp

/-- total current leaving all labels is identically zero, whatever the branch currents -/
theorem sum_kcl_all_labels (N : Net L K) (J : Branch L K → K) :
    (N.nodeLabels.map fun n => (N.branches.map fun b => incidence b n * J b).sum).sum = 0 := by
  rw [sum_map_comm]
  apply List.sum_eq_zero
  intro y hy
  obtain ⟨b, hb, rfl⟩ := List.mem_map.mp hy
  rw [List.sum_map_mul_right, sum_incidence_labels N b hb, zero_mul]

end CC
