/-
  CC.Proofs.DrawDeclarative2 — the model function `declarative` (CC/Model/DrawIO.lean) as a whole.

  * `construct_congr`: the symbol constructor of the interpretive model reads its keyword
    arguments only through `lookup` at the keys the class (and its ancestors inside Elements.py)
    names — its own parameters, the parameters its field assignments mention, `name`, `reverse`.
    Two keyword lists that agree there build the same symbol (or raise the same error), whatever
    else they contain and in whatever order.  Generic over the generated class table.
  * `declStep` / `declFrom`: `declarative` is a left fold; it is restated element by element and
    the restatement is proved equal to the model function.
  * the list-level facts used by CC/Properties/C15Declarative.lean.
-/
import CC.Proofs.DrawDeclarative
import CC.Proofs.DrawParser
import Mathlib.Tactic.SplitIfs
set_option linter.unusedSectionVars false
set_option linter.unusedSimpArgs false
set_option linter.unusedVariables false
namespace CC.Draw

/-! ### keyword lists that agree on a set of keys -/

/-- the two dictionaries give the same answer to `lookup` at every key of `S` -/
def AgreeOn (S : List String) (a b : List (String × Val)) : Prop := ∀ k ∈ S, a.lookup k = b.lookup k

theorem AgreeOn.refl (S : List String) (a : List (String × Val)) : AgreeOn S a a := fun _ _ => rfl

theorem AgreeOn.mono {S T : List String} {a b : List (String × Val)} (h : AgreeOn T a b) (hs : ∀ k ∈ S, k ∈ T) :
    AgreeOn S a b := fun k hk => h k (hs k hk)

theorem AgreeOn.dictSet {S : List String} {a b : List (String × Val)} (h : AgreeOn S a b) (k : String) (v : Val) :
    AgreeOn S (dictSet k v a) (dictSet k v b) := by
  intro k' hk'
  rw [lookup_dictSet, lookup_dictSet, h k' hk']

/-- both fail with the same error, or both succeed with dictionaries that agree on `S` -/
def ERel (S : List String) : Except Err (List (String × Val)) → Except Err (List (String × Val)) → Prop
  | .ok a, .ok b => AgreeOn S a b
  | .error e, .error f => e = f
  | _, _ => False

theorem ERel.bind {S T : List String} {x y : Except Err (List (String × Val))}
    {f g : List (String × Val) → Except Err (List (String × Val))}
    (h : ERel S x y) (hfg : ∀ a b, AgreeOn S a b → ERel T (f a) (g b)) : ERel T (x >>= f) (y >>= g) := by
  cases x with
  | error e => cases y with
    | error e' => change e = e' at h; subst h; change e = e; rfl
    | ok b => simp [ERel] at h
  | ok a => cases y with
    | error e' => simp [ERel] at h
    | ok b => exact hfg a b h

/-! ### which keys a class reads -/

def FExpr.keys : FExpr → List String
  | .param p => [p]
  | .negIfRev p => [p]
  | .other _ => []

/-- keys one class of the chain reads: its named parameters, the parameters its field
assignments mention, the parameter of its `sin` shift -/
def ElemClass.ownKeys (c : ElemClass) : List String :=
  c.params.map (·.1) ++ c.fields.flatMap (fun fe => fe.2.keys) ++
    (match c.sinShift with
     | some (_, _, some (p, _)) => [p]
     | _ => [])

/-- keys `construct` reads for class `c` -/
def usedKeys (c : ElemClass) : List String :=
  "name" :: "reverse" :: (classChain c).flatMap ElemClass.ownKeys

theorem ownKeys_sub {c k : ElemClass} (hk : k ∈ classChain c) : ∀ x ∈ k.ownKeys, x ∈ usedKeys c := by
  intro x hx
  unfold usedKeys
  exact List.mem_cons_of_mem _ (List.mem_cons_of_mem _ (List.mem_flatMap.mpr ⟨k, hk, hx⟩))

/-! ### `bindParams` -/

theorem bindParams_fold_congr (S : List String) (kw1 kw2 : List (String × Val)) (hkw : AgreeOn S kw1 kw2)
    (ps : List (String × Bool × Option Val)) (hps : ∀ p ∈ ps, p.1 ∈ S) :
    ∀ acc1 acc2, AgreeOn S acc1 acc2 →
      ERel S
        (ps.foldlM (fun env (p : String × Bool × Option Val) =>
          match kw1.lookup p.1, p.2.2 with
          | some v, _ => pure (dictSet p.1 v env)
          | none, some d => pure (dictSet p.1 d env)
          | none, none => throw Err.typeError) acc1)
        (ps.foldlM (fun env (p : String × Bool × Option Val) =>
          match kw2.lookup p.1, p.2.2 with
          | some v, _ => pure (dictSet p.1 v env)
          | none, some d => pure (dictSet p.1 d env)
          | none, none => throw Err.typeError) acc2) := by
  induction ps with
  | nil => intro acc1 acc2 h; simpa [List.foldlM, pure, Except.pure, ERel] using h
  | cons p ps ih =>
    intro acc1 acc2 h
    have hp : p.1 ∈ S := hps p List.mem_cons_self
    have ih' := ih (fun q hq => hps q (List.mem_cons_of_mem _ hq))
    simp only [List.foldlM_cons]
    rw [← hkw p.1 hp]
    cases h1 : kw1.lookup p.1 with
    | some v => exact ih' _ _ (h.dictSet p.1 v)
    | none =>
      cases h2 : p.2.2 with
      | some d => exact ih' _ _ (h.dictSet p.1 d)
      | none => simp [ERel, bind, Except.bind, throw, throwThe, MonadExceptOf.throw]

theorem bindParams_congr (S : List String) (c : ElemClass) (hc : ∀ p ∈ c.params, p.1 ∈ S)
    (kw1 kw2 : List (String × Val)) (h : AgreeOn S kw1 kw2) : ERel S (bindParams c kw1) (bindParams c kw2) := by
  unfold bindParams
  exact bindParams_fold_congr S kw1 kw2 h c.params hc kw1 kw2 h

theorem chainBind_congr (S : List String) (chain : List ElemClass) (hc : ∀ k ∈ chain, ∀ p ∈ k.params, p.1 ∈ S) :
    ∀ kw1 kw2, AgreeOn S kw1 kw2 →
      ERel S (chain.foldlM (fun env k => bindParams k env) kw1) (chain.foldlM (fun env k => bindParams k env) kw2) := by
  induction chain with
  | nil => intro kw1 kw2 h; simpa [List.foldlM, pure, Except.pure, ERel] using h
  | cons k ks ih =>
    intro kw1 kw2 h
    simp only [List.foldlM_cons]
    exact ERel.bind (bindParams_congr S k (hc k List.mem_cons_self) kw1 kw2 h)
      (fun a b hab => ih (fun k' hk' => hc k' (List.mem_cons_of_mem _ hk')) a b hab)

/-! ### the rest of `construct`, in three named parts -/

theorem foldlM_congr_mem {α β : Type} (f g : β → α → Except Err β) (l : List α)
    (h : ∀ x ∈ l, ∀ a, f a x = g a x) : ∀ a, l.foldlM f a = l.foldlM g a := by
  induction l with
  | nil => intro a; rfl
  | cons x xs ih =>
    intro a
    simp only [List.foldlM_cons, h x List.mem_cons_self a]
    congr 1
    funext a'
    exact ih (fun y hy => h y (List.mem_cons_of_mem _ hy)) a'

/-- the field assignments of the class bodies -/
def fieldsOf (chain : List ElemClass) (env : List (String × Val)) (revParam : Bool) : Except Err (List (String × Val)) :=
  chain.reverse.foldlM (fun acc k =>
      k.fields.foldlM (fun acc (fe : String × FExpr) => do
        match ← evalF env revParam fe.2 with
        | some v => pure (dictSet fe.1 v acc)
        | none => pure acc) acc) ([] : List (String × Val))

/-- `if self._sin: self._phi -= …` -/
def shifted (π : Rat) (chain : List ElemClass) (env fields : List (String × Val)) : Except Err (List (String × Val)) :=
  chain.foldlM (fun acc k =>
      match k.sinShift with
      | some (flag, fld, degAlt) =>
        if truthy (lookupD acc flag (.bool false)) then
          let amount : Rat := match degAlt with
            | some (p, n) => if truthy (lookupD env p (.bool false)) then n else π / 2
            | none => π / 2
          match acc.lookup fld with
          | some (.num z) => pure (dictSet fld (.num (z - ⟨amount, 0⟩)) acc)
          | _ => throw Err.typeError
        else pure acc
      | none => pure acc) fields

/-- properties, attributes, `name` / `is_reverse` / `node_id` of the finished symbol -/
def finish (cls : String) (c : ElemClass) (nameVal revKw : Val) (fields : List (String × Val)) : Except Err SymObj := do
  let props := (classChain c).reverse.foldl (fun acc k =>
      k.props.foldl (fun acc (pe : String × PExpr) =>
        match evalP fields pe.2 with
        | some v => dictSet pe.1 v acc
        | none => acc.filter (·.1 ≠ pe.1)) acc) ([] : List (String × Val))
  let attrs := fields.foldl (fun acc (fv : String × Val) =>
      if fv.1.startsWith "_" then acc else dictSet fv.1 fv.2 acc) props
  let nameKw := match nameVal with | .str s => s | _ => ""
  let name := match props.lookup "name" with | some (.str s) => s | _ => nameKw
  let rev := match props.lookup "is_reverse" with
    | some (.bool b) => b
    | _ => truthy revKw
  let nodeId := match attrs.lookup "node_id" with | some (.str s) => s | _ => ""
  if !c.named then throw Err.attributeError
  pure { cls := cls, name := name, rev := rev, nodeId := nodeId,
         attrs := attrs.filter fun kv => kv.1 ≠ "name" ∧ kv.1 ≠ "is_reverse" ∧ kv.1 ≠ "type" ∧ kv.1 ≠ "node_id" }

/-- `construct` after its parameters are bound -/
def constructRest (π : Rat) (cls : String) (c : ElemClass) (revKw : Val) (env : List (String × Val)) : Except Err SymObj := do
  let fields ← fieldsOf (classChain c) env (truthy (lookupD env "reverse" (.bool false)))
  let fields ← shifted π (classChain c) env fields
  finish cls c (lookupD env "name" (.str "")) revKw fields

theorem construct_eq (π : Rat) (cls : String) (c : ElemClass) (hc : classInfo cls = some c) (kw : List (String × Val)) :
    construct π cls kw =
      ((classChain c).foldlM (fun env k => bindParams k env) kw >>=
        constructRest π cls c (lookupD kw "reverse" (.bool false))) := by
  unfold construct
  simp only [hc]
  rfl

theorem construct_unknown (π : Rat) (cls : String) (hc : classInfo cls = none) (kw : List (String × Val)) :
    construct π cls kw = .error Err.unknownKind := by
  unfold construct
  simp only [hc]
  rfl

theorem evalF_congr (S : List String) (env1 env2 : List (String × Val)) (h : AgreeOn S env1 env2) (r : Bool)
    (fe : FExpr) (hfe : ∀ x ∈ fe.keys, x ∈ S) : evalF env1 r fe = evalF env2 r fe := by
  cases fe with
  | param p => simp only [evalF, h p (hfe p (by simp [FExpr.keys]))]
  | negIfRev p => simp only [evalF, h p (hfe p (by simp [FExpr.keys]))]
  | other s => rfl

theorem lookupD_congr {S : List String} {env1 env2 : List (String × Val)} (h : AgreeOn S env1 env2) {k : String}
    (hk : k ∈ S) (d : Val) : lookupD env1 k d = lookupD env2 k d := by
  unfold lookupD; rw [h k hk]

theorem constructRest_congr (π : Rat) (cls : String) (c : ElemClass) (revKw : Val) (env1 env2 : List (String × Val))
    (h : AgreeOn (usedKeys c) env1 env2) : constructRest π cls c revKw env1 = constructRest π cls c revKw env2 := by
  have hname : "name" ∈ usedKeys c := by simp [usedKeys]
  have hrev : "reverse" ∈ usedKeys c := by simp [usedKeys]
  have h1 : ∀ r, fieldsOf (classChain c) env1 r = fieldsOf (classChain c) env2 r := by
    intro r
    unfold fieldsOf
    apply foldlM_congr_mem
    intro k hk acc
    apply foldlM_congr_mem
    intro fe hfe acc'
    have hk' : k ∈ classChain c := List.mem_reverse.mp hk
    rw [evalF_congr (usedKeys c) env1 env2 h r fe.2 (fun x hx => ownKeys_sub hk' x (by
      unfold ElemClass.ownKeys
      exact List.mem_append_left _ (List.mem_append_right _ (List.mem_flatMap.mpr ⟨fe, hfe, hx⟩))))]
  have h2 : ∀ f, shifted π (classChain c) env1 f = shifted π (classChain c) env2 f := by
    intro f
    unfold shifted
    apply foldlM_congr_mem
    intro k hk acc
    cases hs : k.sinShift with
    | none => rfl
    | some t =>
      obtain ⟨flag, fld, degAlt⟩ := t
      cases degAlt with
      | none => rfl
      | some pn =>
        obtain ⟨p, n⟩ := pn
        have hp : p ∈ usedKeys c := ownKeys_sub hk p (by
          unfold ElemClass.ownKeys
          rw [hs]
          exact List.mem_append_right _ (by simp))
        simp only [lookupD_congr h hp]
  unfold constructRest
  rw [lookupD_congr h hrev, lookupD_congr h hname, h1]
  congr 1
  funext f
  rw [h2]

/-- **the constructor reads its keywords by `lookup` at the class's keys only**: keyword lists
that agree on `usedKeys c` build the same symbol or raise the same error -/
theorem construct_congr (π : Rat) (cls : String) (c : ElemClass) (hc : classInfo cls = some c)
    (kw1 kw2 : List (String × Val)) (h : AgreeOn (usedKeys c) kw1 kw2) : construct π cls kw1 = construct π cls kw2 := by
  rw [construct_eq π cls c hc, construct_eq π cls c hc]
  have hrev : "reverse" ∈ usedKeys c := by simp [usedKeys]
  rw [lookupD_congr h hrev]
  have hb := chainBind_congr (usedKeys c) (classChain c) (fun k hk p hp => ownKeys_sub hk p.1 (by
      unfold ElemClass.ownKeys
      exact List.mem_append_left _ (List.mem_append_left _ (List.mem_map.mpr ⟨p, hp, rfl⟩)))) kw1 kw2 h
  generalize (classChain c).foldlM (fun env k => bindParams k env) kw1 = x at hb
  generalize (classChain c).foldlM (fun env k => bindParams k env) kw2 = y at hb
  cases x with
  | error e => cases y with
    | error e' => simp only [ERel] at hb; subst hb; rfl
    | ok b => simp [ERel] at hb
  | ok a => cases y with
    | error e' => simp [ERel] at hb
    | ok b => exact constructRest_congr π cls c _ a b hb

/-! ### `declarative`, element by element -/

/-- the keys of a description that `schematic.py` itself interprets -/
def placeKeys : List String := ["type", "direction", "length", "place_after"]

/-- `element_handlers[type]` applied to the description: the class that is instantiated -/
def handlerClass (h : DeclHandler) (e : List (String × Val)) : String :=
  match h.clsIfName with
  | some c => if (e.lookup "name").isSome then c else h.cls
  | none => h.cls

/-- `element_factory`'s defaults added to a keyword list -/
def withDefaults (e : List (String × Val)) : List (String × Val) :=
  Gen.declFactoryDefaults.foldl (fun kw d => if (kw.lookup d.1).isSome then kw else kw ++ [d]) e

/-- the keywords of the corresponding programmatic constructor call: the description without
the placement keys (with `element_factory`'s `name=''`, `reverse=False` when absent) -/
def ctorKw (e : List (String × Val)) : List (String × Val) :=
  withDefaults (e.filter fun kv => !placeKeys.contains kv.1)

/-- the direction method the entry asks for (`""`: none) -/
def entryMethod (e : List (String × Val)) : String :=
  (Gen.declDirections.lookup (match e.lookup "direction" with | some (.str d) => d | _ => "")).getD ""

/-- the entry's `length` (default 1) -/
def entryLen (e : List (String × Val)) : Rat := match e.lookup "length" with | some (.num z) => z.re | _ => 1

/-- `apply_position`: index of the first earlier element named by `place_after` -/
def entryAfter (names : List String) (e : List (String × Val)) : Except Err (Option Nat) :=
  match e.lookup "place_after" with
  | none | some .none => pure none
  | some (.str l) =>
    match names.findIdx? (· = l) with
    | some i => pure (some i)
    | none => throw Err.valueError
  | some _ => throw Err.valueError

/-- one iteration of the loop of `declarative`: the placement and the name of the new symbol -/
def declStep (π : Rat) (unit : Rat) (names : List String) (e : List (String × Val)) : Except Err (Placement × String) := do
  let typ ← match e.lookup "type" with
    | some (.str t) => pure t
    | some _ => throw Err.unknownKind
    | none => throw (Err.other "MissingArgument")
  let h ← match Gen.declHandlers.find? (·.typ = typ) with
    | some h => pure h
    | none => throw Err.unknownKind
  let obj ← match construct π (handlerClass h e) (withDefaults e) with
    | .ok o => pure o
    | .error Err.typeError => throw (Err.other "MissingArgument")
    | .error err => throw err
  if entryMethod e ≠ "" ∧ oneTerminal (handlerClass h e) ∧ Gen.declOneTerminalPlain = false then throw Err.typeError
  let after ← entryAfter names e
  pure ({ cls := handlerClass h e, kwargs := withDefaults e, method := entryMethod e, length := entryLen e * unit,
          plain := oneTerminal (handlerClass h e), after := after }, obj.name)

/-- `declarative` as a recursion over the description list; `names` = names of the symbols built so far -/
def declFrom (π : Rat) (unit : Rat) : List String → List (List (String × Val)) → Except Err (List Placement)
  | _, [] => pure []
  | names, e :: es => do
    let r ← declStep π unit names e
    let ps ← declFrom π unit (names ++ [r.2]) es
    pure (r.1 :: ps)

theorem declarative_fold (π : Rat) (unit : Rat) (elems : List (List (String × Val))) :
    declarative π unit elems =
      (elems.foldlM (fun (acc : List Placement × List String) e => do
          let r ← declStep π unit acc.2 e
          pure (acc.1 ++ [r.1], acc.2 ++ [r.2])) (([] : List Placement), ([] : List String)) >>= fun res => pure res.1) := by
  unfold declarative
  congr 2
  funext acc e
  simp only [declStep, handlerClass, withDefaults, entryMethod, entryLen, entryAfter]
  cases e.lookup "type" with
  | none => rfl
  | some v =>
    cases v with
    | str t =>
      simp only [pure_bind]
      cases Gen.declHandlers.find? (·.typ = t) with
      | none => rfl
      | some h =>
        simp only [pure_bind]
        generalize construct π _ _ = r
        cases r with
        | error err => cases err <;> rfl
        | ok o =>
          simp only [pure_bind]
          simp only [show Gen.declOneTerminalPlain = true from rfl, Bool.true_eq_false, and_false, if_false, pure_bind]
          cases e.lookup "place_after" with
          | none => rfl
          | some w =>
            cases w with
            | str l =>
              simp only [pure_bind]
              cases List.findIdx? (· = l) acc.2 <;> rfl
            | _ => rfl
    | _ => rfl

theorem fold_declFrom (π : Rat) (unit : Rat) (elems : List (List (String × Val))) :
    ∀ (ps : List Placement) (names : List String),
      (elems.foldlM (fun (acc : List Placement × List String) e => do
          let r ← declStep π unit acc.2 e
          pure (acc.1 ++ [r.1], acc.2 ++ [r.2])) (ps, names) >>= fun res => pure res.1) =
      (declFrom π unit names elems >>= fun qs => pure (ps ++ qs)) := by
  induction elems with
  | nil => intro ps names; simp [List.foldlM, declFrom, pure, Except.pure, bind, Except.bind]
  | cons e es ih =>
    intro ps names
    simp only [List.foldlM_cons, declFrom]
    cases hs : declStep π unit names e with
    | error x => rfl
    | ok r =>
      simp only [bind, Except.bind, pure, Except.pure] at ih ⊢
      rw [ih]
      cases declFrom π unit (names ++ [r.2]) es with
      | error x => rfl
      | ok qs => simp

/-- the model function is the element-by-element recursion -/
theorem declarative_eq_declFrom (π : Rat) (unit : Rat) (elems : List (List (String × Val))) :
    declarative π unit elems = declFrom π unit [] elems := by
  rw [declarative_fold, fold_declFrom]
  cases declFrom π unit [] elems with
  | error x => rfl
  | ok qs => simp [bind, Except.bind, pure, Except.pure]

/-! ### what one entry produces -/

/-- the placement `p` and symbol name `n` that entry `e` must produce when the symbols built so
far are named `names` -/
def EntrySpec (π : Rat) (unit : Rat) (names : List String) (e : List (String × Val)) (p : Placement) (n : String) : Prop :=
  ∃ t h o a, e.lookup "type" = some (.str t) ∧ Gen.declHandlers.find? (·.typ = t) = some h ∧
    construct π (handlerClass h e) (withDefaults e) = .ok o ∧ entryAfter names e = .ok a ∧
    p = { cls := handlerClass h e, kwargs := withDefaults e, method := entryMethod e, length := entryLen e * unit,
          plain := oneTerminal (handlerClass h e), after := a } ∧ n = o.name

theorem declStep_ok {π unit : Rat} {names : List String} {e : List (String × Val)} {r : Placement × String}
    (h : declStep π unit names e = .ok r) : EntrySpec π unit names e r.1 r.2 := by
  unfold declStep at h
  cases h1 : e.lookup "type" with
  | none => simp [h1, throw, throwThe, MonadExceptOf.throw, bind, Except.bind] at h
  | some v =>
    cases v with
    | str t =>
      simp only [h1, pure_bind] at h
      cases h2 : Gen.declHandlers.find? (·.typ = t) with
      | none => simp [h2, throw, throwThe, MonadExceptOf.throw, bind, Except.bind] at h
      | some hd =>
        simp only [h2, pure_bind] at h
        cases h3 : construct π (handlerClass hd e) (withDefaults e) with
        | error err => cases err <;> simp [h3, throw, throwThe, MonadExceptOf.throw, bind, Except.bind] at h
        | ok o =>
          simp only [h3, pure_bind, show Gen.declOneTerminalPlain = true from rfl, Bool.true_eq_false, and_false, if_false] at h
          cases h4 : entryAfter names e with
          | error err => simp [h4, bind, Except.bind] at h
          | ok a =>
            simp only [h4, pure_bind, pure, Except.pure, bind, Except.bind, Except.ok.injEq] at h
            subst h
            exact ⟨t, hd, o, a, h1, h2, h3, h4, rfl, rfl⟩
    | _ => simp [h1, throw, throwThe, MonadExceptOf.throw, bind, Except.bind] at h

theorem declStep_of_spec {π unit : Rat} {names : List String} {e : List (String × Val)} {p : Placement} {n : String}
    (h : EntrySpec π unit names e p n) : declStep π unit names e = .ok (p, n) := by
  obtain ⟨t, hd, o, a, h1, h2, h3, h4, hp, hn⟩ := h
  subst hp; subst hn
  unfold declStep
  simp only [h1, h2, h3, h4, pure_bind, show Gen.declOneTerminalPlain = true from rfl, Bool.true_eq_false, and_false, if_false]
  rfl

/-- unknown `type` ⇒ `UnknownCircuitElement`, whatever was built before -/
theorem declStep_unknown {π unit : Rat} {names : List String} {e : List (String × Val)} {t : String}
    (h1 : e.lookup "type" = some (.str t)) (h2 : Gen.declHandlers.find? (·.typ = t) = none) :
    declStep π unit names e = .error Err.unknownKind := by
  unfold declStep
  simp only [h1, h2, pure_bind]
  rfl

/-- no `type` key ⇒ `MissingArgument` -/
theorem declStep_untyped {π unit : Rat} {names : List String} {e : List (String × Val)}
    (h1 : e.lookup "type" = none) : declStep π unit names e = .error (Err.other "MissingArgument") := by
  unfold declStep
  simp only [h1]
  rfl

/-- entries and placements correspond one to one, in order; the names of the symbols built so far are threaded through -/
inductive DeclRel (π : Rat) (unit : Rat) : List String → List (List (String × Val)) → List Placement → List String → Prop
  | nil (names : List String) : DeclRel π unit names [] [] names
  | cons {names out : List String} {e : List (String × Val)} {es : List (List (String × Val))} {p : Placement} {ps : List Placement}
      (n : String) : EntrySpec π unit names e p n → DeclRel π unit (names ++ [n]) es ps out → DeclRel π unit names (e :: es) (p :: ps) out

theorem declFrom_ok (π unit : Rat) : ∀ (elems : List (List (String × Val))) (names : List String) (ps : List Placement),
    declFrom π unit names elems = .ok ps → ∃ out, DeclRel π unit names elems ps out := by
  intro elems
  induction elems with
  | nil =>
    intro names ps h
    simp only [declFrom, pure, Except.pure, Except.ok.injEq] at h
    subst h; exact ⟨names, DeclRel.nil names⟩
  | cons e es ih =>
    intro names ps h
    unfold declFrom at h
    cases hs : declStep π unit names e with
    | error x => simp [hs, bind, Except.bind] at h
    | ok r =>
      cases hq : declFrom π unit (names ++ [r.2]) es with
      | error x => simp [hs, hq, bind, Except.bind] at h
      | ok qs =>
        simp only [hs, hq, bind, Except.bind, pure, Except.pure, Except.ok.injEq] at h
        subst h
        obtain ⟨out, hr⟩ := ih _ _ hq
        exact ⟨out, DeclRel.cons r.2 (declStep_ok hs) hr⟩

theorem declFrom_of_rel {π unit : Rat} {names out : List String} {elems : List (List (String × Val))} {ps : List Placement}
    (h : DeclRel π unit names elems ps out) : declFrom π unit names elems = .ok ps := by
  induction h with
  | nil names => rfl
  | cons n hs _ ih =>
    unfold declFrom
    simp only [declStep_of_spec hs, ih, bind, Except.bind, pure, Except.pure]

theorem DeclRel.length {π unit : Rat} {names out : List String} {elems : List (List (String × Val))} {ps : List Placement}
    (h : DeclRel π unit names elems ps out) : ps.length = elems.length := by
  induction h with
  | nil names => rfl
  | cons n hs _ ih => simp [ih]

/-- after a prefix that builds, the recursion continues with the rest -/
theorem declFrom_append {π unit : Rat} {names out : List String} {pre : List (List (String × Val))} {ps : List Placement}
    (h : DeclRel π unit names pre ps out) (rest : List (List (String × Val))) :
    declFrom π unit names (pre ++ rest) = (declFrom π unit out rest >>= fun qs => pure (ps ++ qs)) := by
  induction h with
  | nil names =>
    simp only [List.nil_append]
    cases hq : declFrom π unit names rest with
    | error x => rfl
    | ok qs => simp [bind, Except.bind, pure, Except.pure]
  | @cons names out e es p ps n hs _ ih =>
    simp only [List.cons_append, declFrom, declStep_of_spec hs]
    simp only [bind, Except.bind, pure, Except.pure] at ih ⊢
    rw [ih]
    cases hq : declFrom π unit out rest with
    | error x => rfl
    | ok qs => simp

/-! ### the placement keys do not reach the constructor -/

/-- table check: every class a handler can build exists, reads none of the placement keys, and reads the keys `element_factory` defaults -/
def declFrameOK : Bool :=
  Gen.declHandlers.all fun h => (h.cls :: h.clsIfName.toList).all fun cls =>
    match classInfo cls with
    | some c => placeKeys.all (fun k => !(usedKeys c).contains k) && Gen.declFactoryDefaults.all (fun d => (usedKeys c).contains d.1)
    | none => false

theorem declFrameOK_true : declFrameOK = true := by decide +kernel

theorem lookup_filter_key (p : String → Bool) (l : List (String × Val)) (k : String) :
    (l.filter fun kv => p kv.1).lookup k = if p k then l.lookup k else none := by
  induction l with
  | nil => simp
  | cons kv l ih =>
    obtain ⟨k₀, v₀⟩ := kv
    by_cases hp : p k₀ = true
    · simp only [List.filter_cons, hp, if_true]
      by_cases hk : k = k₀
      · subst hk; simp [List.lookup, hp]
      · have : (k == k₀) = false := by simp [hk]
        simp only [List.lookup, this, ih]
    · have hp' : p k₀ = false := by simpa using hp
      simp only [List.filter_cons, hp', Bool.false_eq_true, if_false, ih]
      by_cases hk : k = k₀
      · subst hk; simp [hp']
      · have : (k == k₀) = false := by simp [hk]
        simp only [List.lookup, this]

theorem withDefaults_agree (S : List String) (ds : List (String × Val)) (hds : ∀ d ∈ ds, d.1 ∈ S) :
    ∀ a b, AgreeOn S a b →
      AgreeOn S (ds.foldl (fun kw d => if (kw.lookup d.1).isSome then kw else kw ++ [d]) a)
                (ds.foldl (fun kw d => if (kw.lookup d.1).isSome then kw else kw ++ [d]) b) := by
  induction ds with
  | nil => intro a b h; exact h
  | cons d ds ih =>
    intro a b h
    simp only [List.foldl_cons]
    apply ih (fun d' hd' => hds d' (List.mem_cons_of_mem _ hd'))
    rw [h d.1 (hds d List.mem_cons_self)]
    split
    · exact h
    · intro k hk
      rw [List.lookup_append, List.lookup_append, h k hk]

/-- the description with and without its placement keys agree on every key the class reads -/
theorem ctorKw_agree (S : List String) (hS : ∀ k ∈ placeKeys, k ∉ S) (hd : ∀ d ∈ Gen.declFactoryDefaults, d.1 ∈ S)
    (e : List (String × Val)) : AgreeOn S (withDefaults e) (ctorKw e) := by
  unfold ctorKw withDefaults
  apply withDefaults_agree S _ hd
  intro k hk
  rw [lookup_filter_key (fun k => !placeKeys.contains k)]
  have : placeKeys.contains k = false := by
    cases hc : placeKeys.contains k with
    | false => rfl
    | true => exact absurd (List.contains_iff_mem.mp hc) (fun hm => hS k hm hk)
  simp only [this, Bool.not_false, if_true]

theorem handlerClass_mem (h : DeclHandler) (e : List (String × Val)) : handlerClass h e ∈ h.cls :: h.clsIfName.toList := by
  unfold handlerClass
  cases h.clsIfName with
  | none => simp
  | some c => by_cases hn : (e.lookup "name").isSome = true <;> simp [hn]

/-- **frame**: for every handler and every description, the constructor call of the declarative
path (whole description + defaults) builds the symbol of the programmatic call (constructor
keywords only) — any keys, any order, any values -/
theorem declarative_frame (π : Rat) (h : DeclHandler) (hh : h ∈ Gen.declHandlers) (e : List (String × Val)) :
    construct π (handlerClass h e) (withDefaults e) = construct π (handlerClass h e) (ctorKw e) := by
  have hT := declFrameOK_true
  unfold declFrameOK at hT
  have h1 := List.all_eq_true.mp hT h hh
  have h2 := List.all_eq_true.mp h1 _ (handlerClass_mem h e)
  cases hc : classInfo (handlerClass h e) with
  | none => simp [hc] at h2
  | some c =>
    simp only [hc, Bool.and_eq_true, List.all_eq_true, Bool.not_eq_true', List.contains_iff_mem] at h2
    apply construct_congr π _ c hc
    apply ctorKw_agree
    · intro k hk hm
      have := h2.1 k hk
      rw [List.contains_iff_mem.mpr hm] at this
      cases this
    · intro d hd
      exact h2.2 d hd

end CC.Draw
