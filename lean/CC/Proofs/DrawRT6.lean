/-
  CC.Proofs.DrawRT6 — per-class facts (B), (F), (S) of CC/Proofs/DrawRoundTrip.lean, by symbolic
  evaluation of the interpretive model with the generated tables unfolded.  GENERATED SHAPE:
  one `rt_`/`fx_`/`sh_`/`stable_` group per class and keyword layout.
-/
import CC.Proofs.DrawRoundTrip
set_option linter.unusedSectionVars false
set_option linter.unusedSimpArgs false
set_option linter.unusedVariables false
namespace CC.Draw
section
attribute [local simp] RoundTrips FixedAfter ShellKept shell elemComp ownCirc reloadFrom reloadElem DElem.toSym construct classInfo
    Gen.elemClasses classChain bindParams evalF evalP compOfSym ctorValue
    lookupD truthy dictSet List.lookup List.find? negVal Gen.translatorMap Gen.translators runCases runCase
    nodeTuple evalV Sym.getAttr Gen.ctors applyCtor evalC valNeg valNonPos dictifyElement userParams serializeVal undictifyDElem
    undictifyKwargs combineToComplex Gen.loaderTypes dictUpdate bind Except.bind pure Except.pure List.mapM List.mapM.loop List.foldlM
    forIn Gen.undictifySteps List.contains List.elem Gen.knownWavetypes GQ.neg_def GQ.eta GQ.im_zero GQ.re_zero GQ.mk_zero GQ.mk_eq_zero
    Functor.map Except.map throw throwThe MonadExceptOf.throw

set_option maxRecDepth 8000
set_option maxHeartbeats 400000

theorem rt_Resistor (π : Rat) (z : GQ) (him : z.im = 0) (hpos : ¬ z.re < 0) (rev : Bool) (name : String) (a b : Pt) :
    RoundTrips π ⟨"Resistor", [("R", .num z), ("name", .str name), ("reverse", .bool rev)], a, b⟩ := by
  intro la lb la' lb'
  by_cases h0 : z = 0
  · subst h0; cases rev <;> simp
  · cases rev <;> simp [h0, him, hpos]

theorem fx_Resistor (π : Rat) (z : GQ) (him : z.im = 0) (hpos : ¬ z.re < 0) (rev : Bool) (name : String) (a b : Pt) :
    FixedAfter π ⟨"Resistor", [("R", .num z), ("name", .str name), ("reverse", .bool rev)], a, b⟩ := by
  intro la lb la' lb'
  by_cases h0 : z = 0
  · subst h0; cases rev <;> simp
  · cases rev <;> simp [h0, him, hpos]

theorem sh_Resistor (π : Rat) (z : GQ) (him : z.im = 0) (hpos : ¬ z.re < 0) (rev : Bool) (name : String) (a b : Pt) :
    ShellKept π ⟨"Resistor", [("R", .num z), ("name", .str name), ("reverse", .bool rev)], a, b⟩ := by
  intro la lb
  by_cases h0 : z = 0
  · subst h0; cases rev <;> simp
  · cases rev <;> simp [h0, him, hpos]

theorem stable_Resistor (π : Rat) (z : GQ) (him : z.im = 0) (hpos : ¬ z.re < 0) (rev : Bool) (name : String) (a b : Pt) :
    ElemStable π ⟨"Resistor", [("R", .num z), ("name", .str name), ("reverse", .bool rev)], a, b⟩ :=
  ⟨rt_Resistor π z him hpos rev name a b, fx_Resistor π z him hpos rev name a b, sh_Resistor π z him hpos rev name a b⟩

theorem rt_Conductance (π : Rat) (z : GQ) (him : z.im = 0) (hpos : ¬ z.re < 0) (rev : Bool) (name : String) (a b : Pt) :
    RoundTrips π ⟨"Conductance", [("G", .num z), ("name", .str name), ("reverse", .bool rev)], a, b⟩ := by
  intro la lb la' lb'
  by_cases h0 : z = 0
  · subst h0; cases rev <;> simp
  · cases rev <;> simp [h0, him, hpos]

theorem fx_Conductance (π : Rat) (z : GQ) (him : z.im = 0) (hpos : ¬ z.re < 0) (rev : Bool) (name : String) (a b : Pt) :
    FixedAfter π ⟨"Conductance", [("G", .num z), ("name", .str name), ("reverse", .bool rev)], a, b⟩ := by
  intro la lb la' lb'
  by_cases h0 : z = 0
  · subst h0; cases rev <;> simp
  · cases rev <;> simp [h0, him, hpos]

theorem sh_Conductance (π : Rat) (z : GQ) (him : z.im = 0) (hpos : ¬ z.re < 0) (rev : Bool) (name : String) (a b : Pt) :
    ShellKept π ⟨"Conductance", [("G", .num z), ("name", .str name), ("reverse", .bool rev)], a, b⟩ := by
  intro la lb
  by_cases h0 : z = 0
  · subst h0; cases rev <;> simp
  · cases rev <;> simp [h0, him, hpos]

theorem stable_Conductance (π : Rat) (z : GQ) (him : z.im = 0) (hpos : ¬ z.re < 0) (rev : Bool) (name : String) (a b : Pt) :
    ElemStable π ⟨"Conductance", [("G", .num z), ("name", .str name), ("reverse", .bool rev)], a, b⟩ :=
  ⟨rt_Conductance π z him hpos rev name a b, fx_Conductance π z him hpos rev name a b, sh_Conductance π z him hpos rev name a b⟩

theorem rt_Capacitor (π : Rat) (z : GQ) (him : z.im = 0) (hpos : ¬ z.re < 0) (rev : Bool) (name : String) (a b : Pt) :
    RoundTrips π ⟨"Capacitor", [("C", .num z), ("name", .str name), ("reverse", .bool rev)], a, b⟩ := by
  intro la lb la' lb'
  cases rev <;> simp [him, hpos]

theorem fx_Capacitor (π : Rat) (z : GQ) (him : z.im = 0) (hpos : ¬ z.re < 0) (rev : Bool) (name : String) (a b : Pt) :
    FixedAfter π ⟨"Capacitor", [("C", .num z), ("name", .str name), ("reverse", .bool rev)], a, b⟩ := by
  intro la lb la' lb'
  cases rev <;> simp [him, hpos]

theorem sh_Capacitor (π : Rat) (z : GQ) (him : z.im = 0) (hpos : ¬ z.re < 0) (rev : Bool) (name : String) (a b : Pt) :
    ShellKept π ⟨"Capacitor", [("C", .num z), ("name", .str name), ("reverse", .bool rev)], a, b⟩ := by
  intro la lb
  cases rev <;> simp [him, hpos]

theorem stable_Capacitor (π : Rat) (z : GQ) (him : z.im = 0) (hpos : ¬ z.re < 0) (rev : Bool) (name : String) (a b : Pt) :
    ElemStable π ⟨"Capacitor", [("C", .num z), ("name", .str name), ("reverse", .bool rev)], a, b⟩ :=
  ⟨rt_Capacitor π z him hpos rev name a b, fx_Capacitor π z him hpos rev name a b, sh_Capacitor π z him hpos rev name a b⟩

theorem rt_Inductance (π : Rat) (z : GQ) (him : z.im = 0) (hpos : ¬ z.re < 0) (rev : Bool) (name : String) (a b : Pt) :
    RoundTrips π ⟨"Inductance", [("L", .num z), ("name", .str name), ("reverse", .bool rev)], a, b⟩ := by
  intro la lb la' lb'
  cases rev <;> simp [him, hpos]

theorem fx_Inductance (π : Rat) (z : GQ) (him : z.im = 0) (hpos : ¬ z.re < 0) (rev : Bool) (name : String) (a b : Pt) :
    FixedAfter π ⟨"Inductance", [("L", .num z), ("name", .str name), ("reverse", .bool rev)], a, b⟩ := by
  intro la lb la' lb'
  cases rev <;> simp [him, hpos]

theorem sh_Inductance (π : Rat) (z : GQ) (him : z.im = 0) (hpos : ¬ z.re < 0) (rev : Bool) (name : String) (a b : Pt) :
    ShellKept π ⟨"Inductance", [("L", .num z), ("name", .str name), ("reverse", .bool rev)], a, b⟩ := by
  intro la lb
  cases rev <;> simp [him, hpos]

theorem stable_Inductance (π : Rat) (z : GQ) (him : z.im = 0) (hpos : ¬ z.re < 0) (rev : Bool) (name : String) (a b : Pt) :
    ElemStable π ⟨"Inductance", [("L", .num z), ("name", .str name), ("reverse", .bool rev)], a, b⟩ :=
  ⟨rt_Inductance π z him hpos rev name a b, fx_Inductance π z him hpos rev name a b, sh_Inductance π z him hpos rev name a b⟩

theorem rt_Impedance (π : Rat) (r i : Rat) (rev : Bool) (name : String) (a b : Pt) :
    RoundTrips π ⟨"Impedance", [("Z", .num ⟨r, i⟩), ("name", .str name), ("reverse", .bool rev)], a, b⟩ := by
  intro la lb la' lb'
  by_cases hr : r = 0 <;> by_cases hi : i = 0 <;> cases rev <;> simp [hr, hi]

theorem fx_Impedance (π : Rat) (r i : Rat) (rev : Bool) (name : String) (a b : Pt) :
    FixedAfter π ⟨"Impedance", [("Z", .num ⟨r, i⟩), ("name", .str name), ("reverse", .bool rev)], a, b⟩ := by
  intro la lb la' lb'
  by_cases hr : r = 0 <;> by_cases hi : i = 0 <;> cases rev <;> simp [hr, hi]

theorem sh_Impedance (π : Rat) (r i : Rat) (rev : Bool) (name : String) (a b : Pt) :
    ShellKept π ⟨"Impedance", [("Z", .num ⟨r, i⟩), ("name", .str name), ("reverse", .bool rev)], a, b⟩ := by
  intro la lb
  by_cases hr : r = 0 <;> by_cases hi : i = 0 <;> cases rev <;> simp [hr, hi]

theorem stable_Impedance (π : Rat) (r i : Rat) (rev : Bool) (name : String) (a b : Pt) :
    ElemStable π ⟨"Impedance", [("Z", .num ⟨r, i⟩), ("name", .str name), ("reverse", .bool rev)], a, b⟩ :=
  ⟨rt_Impedance π r i rev name a b, fx_Impedance π r i rev name a b, sh_Impedance π r i rev name a b⟩

theorem rt_Ground (π : Rat)  (name : String) (a b : Pt) :
    RoundTrips π ⟨"Ground", [("name", .str name)], a, b⟩ := by
  intro la lb la' lb'
  simp

theorem fx_Ground (π : Rat)  (name : String) (a b : Pt) :
    FixedAfter π ⟨"Ground", [("name", .str name)], a, b⟩ := by
  intro la lb la' lb'
  simp

theorem sh_Ground (π : Rat)  (name : String) (a b : Pt) :
    ShellKept π ⟨"Ground", [("name", .str name)], a, b⟩ := by
  intro la lb
  simp

theorem stable_Ground (π : Rat)  (name : String) (a b : Pt) :
    ElemStable π ⟨"Ground", [("name", .str name)], a, b⟩ :=
  ⟨rt_Ground π  name a b, fx_Ground π  name a b, sh_Ground π  name a b⟩

theorem rt_Line (π : Rat) (rev : Bool) (name : String) (a b : Pt) :
    RoundTrips π ⟨"Line", [("reverse", .bool rev)], a, b⟩ := by
  intro la lb la' lb'
  cases rev <;> simp

theorem fx_Line (π : Rat) (rev : Bool) (name : String) (a b : Pt) :
    FixedAfter π ⟨"Line", [("reverse", .bool rev)], a, b⟩ := by
  intro la lb la' lb'
  cases rev <;> simp

theorem sh_Line (π : Rat) (rev : Bool) (name : String) (a b : Pt) :
    ShellKept π ⟨"Line", [("reverse", .bool rev)], a, b⟩ := by
  intro la lb
  cases rev <;> simp

theorem stable_Line (π : Rat) (rev : Bool) (name : String) (a b : Pt) :
    ElemStable π ⟨"Line", [("reverse", .bool rev)], a, b⟩ :=
  ⟨rt_Line π rev name a b, fx_Line π rev name a b, sh_Line π rev name a b⟩

end
end CC.Draw
