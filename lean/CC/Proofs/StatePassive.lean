/-
  CC.Proofs.StatePassive — the structure `C11_lyapunov` assumes, proved for the executable model:
  (i)  `Jn·DQ = −DQ·J`  (capacitor columns of `DQ` live in node rows, inductor columns in
       voltage-source rows);
  (ii) `yᵀ(Jn·Ã)y = Σ_b Yfin_b·(φ(n1) − φ(n2))² ≥ 0` when no branch has a negative conductance
       (the voltage-source cross terms cancel, the admittance part regroups branch by branch).
-/
import CC.Proofs.StatePhasor
import Mathlib.Algebra.Order.Field.Basic
set_option linter.unusedSectionVars false

namespace CC
open Matrix Mx

section quad
variable {L K : Type} [DecidableEq L] [LabelOrd L] [Field K] [DecidableEq K]

theorem matVec_mnaA_pack (N : Net L K) (s : Sol L K) :
    matVec N.mnaA (N.pack s) = N.nodes.map (N.rowNode s) ++ N.vsSorted.map (N.rowVS s) := by
  have hrowN : ∀ i, dotL ((N.nodes.map fun j => N.Yentry i j) ++ (N.vsSorted.map fun b => b.dir i)) (N.pack s)
      = N.rowNode s i := by
    intro i
    unfold Net.pack
    rw [dotL_append _ _ _ _ (by simp), dotL_map_map, dotL_map_map]
    rfl
  have hrowV : ∀ b : Branch L K, dotL ((N.nodes.map fun j => b.dir j) ++ (N.vsSorted.map fun _ => (0 : K))) (N.pack s)
      = N.rowVS s b := by
    intro b
    unfold Net.pack
    rw [dotL_append _ _ _ _ (by simp), dotL_map_map, dotL_zeros]
    simp [Net.rowVS]
  unfold matVec Net.mnaA
  rw [List.map_append, List.map_map, List.map_map]
  congr 1
  · exact List.map_congr_left fun n _ => hrowN n
  · exact List.map_congr_left fun b _ => hrowV b

/-- the signed quadratic form of the nodal matrix, branch by branch -/
theorem signed_form_list (N : Net L K) (s : Sol L K) (hsl : ∀ b ∈ N.branches, b.n1 ≠ b.n2) :
    dotL (N.nodes.map s.phi ++ N.vsSorted.map fun b => -(s.ivs b.id)) (matVec N.mnaA (N.pack s))
      = (N.nonVS.map fun b => b.e.Yfin * ((N.pot s b.n1 - N.pot s b.n2) * (N.pot s b.n1 - N.pot s b.n2))).sum := by
  rw [matVec_mnaA_pack, dotL_append _ _ _ _ (by simp), dotL_map_map, dotL_map_map]
  -- admittance part of each node row, branch by branch
  have hY : ∀ n ∈ N.nodes, (N.nodes.map fun m => N.Yentry n m * s.phi m).sum
      = (N.nonVS.map fun b => b.dir n * (b.e.Yfin * (N.pot s b.n1 - N.pot s b.n2))).sum := by
    intro n hn
    have : ∀ m, N.Yentry n m * s.phi m = (N.nonVS.map fun b => g n b m * s.phi m).sum := by
      intro m; rw [Yentry_eq, ← List.sum_map_mul_right]
    simp only [this]
    rw [sum_map_comm]
    apply congrArg; apply List.map_congr_left
    intro b hb
    have hb' : b ∈ N.branches := (List.mem_filter.mp hb).1
    exact row_branch N s n hn b hb' (hsl b hb')
  have h1 : (N.nodes.map fun n => s.phi n * N.rowNode s n).sum
      = (N.nodes.map fun n => (N.nonVS.map fun b => s.phi n * (b.dir n * (b.e.Yfin * (N.pot s b.n1 - N.pot s b.n2)))).sum).sum
        + (N.nodes.map fun n => (N.vsSorted.map fun b => s.phi n * (b.dir n * s.ivs b.id)).sum).sum := by
    rw [← List.sum_map_add]
    congr 1
    apply List.map_congr_left
    intro n hn
    unfold Net.rowNode
    rw [hY n hn, mul_add, List.sum_map_mul_left, List.sum_map_mul_left]
  have h2 : (N.vsSorted.map fun b => -(s.ivs b.id) * N.rowVS s b).sum
      = -(N.nodes.map fun n => (N.vsSorted.map fun b => s.phi n * (b.dir n * s.ivs b.id)).sum).sum := by
    rw [sum_map_comm, neg_sum_map]
    congr 1
    apply List.map_congr_left
    intro b _
    unfold Net.rowVS
    rw [← List.sum_map_mul_left, neg_sum_map]
    congr 1
    apply List.map_congr_left
    intro n _
    ring
  rw [h1, h2, sum_map_comm]
  have h3 : (N.nonVS.map fun b => (N.nodes.map fun n =>
        s.phi n * (b.dir n * (b.e.Yfin * (N.pot s b.n1 - N.pot s b.n2)))).sum)
      = N.nonVS.map fun b => b.e.Yfin * ((N.pot s b.n1 - N.pot s b.n2) * (N.pot s b.n1 - N.pot s b.n2)) := by
    apply List.map_congr_left
    intro b hb
    have hb' : b ∈ N.branches := (List.mem_filter.mp hb).1
    have hv := rowVS_eq N s b hb' (hsl b hb')
    unfold Net.rowVS at hv
    have : (N.nodes.map fun n => s.phi n * (b.dir n * (b.e.Yfin * (N.pot s b.n1 - N.pot s b.n2)))).sum
        = (b.e.Yfin * (N.pot s b.n1 - N.pot s b.n2)) * (N.nodes.map fun m => b.dir m * s.phi m).sum := by
      rw [← List.sum_map_mul_left]
      congr 1
      apply List.map_congr_left
      intro n _
      ring
    rw [this, hv]; ring
  rw [h3]; ring

theorem dotProduct_eq_dotL {n : Nat} (f g : Fin n → K) : f ⬝ᵥ g = dotL (List.ofFn f) (List.ofFn g) := by
  unfold dotL dotProduct
  have : List.zipWith (fun x1 x2 => x1 * x2) (List.ofFn f) (List.ofFn g) = List.ofFn (fun i => f i * g i) := by
    apply List.ext_getElem
    · simp
    · intro i h1 h2; simp
  rw [this, List.sum_ofFn]

theorem zipWith_replicate_mul (c : K) (l : List K) (n : Nat) (hl : l.length = n) :
    List.zipWith (· * ·) (List.replicate n c) l = l.map (c * ·) := by
  apply List.ext_getElem
  · simp [hl]
  · intro i h1 h2; simp

/-- the signed vector `Jn·y` as a list, when `y` is the packing of a label-indexed solution -/
theorem signed_ofFn (N : Net L K) (hids : N.ids.Nodup) (y : Fin N.nY → K) :
    List.ofFn (fun i : Fin N.nY => (if (i : Nat) < N.nN then (1 : K) else -1) * y i)
      = N.nodes.map (N.solOf (List.ofFn y)).phi
        ++ N.vsSorted.map fun b => -((N.solOf (List.ofFn y)).ivs b.id) := by
  have hlen : (List.ofFn y).length = N.nodes.length + N.vsIds.length := by simp only [List.length_ofFn]; rfl
  have hp := pack_solOf N hids (List.ofFn y) hlen
  have hz : List.ofFn (fun i : Fin N.nY => (if (i : Nat) < N.nN then (1 : K) else -1) * y i)
      = List.zipWith (· * ·) (List.replicate N.nN (1 : K) ++ List.replicate N.nV (-1)) (List.ofFn y) := by
    apply List.ext_getElem
    · simp only [List.length_ofFn, List.length_zipWith, List.length_append, List.length_replicate]
      unfold Net.nY; omega
    · intro i h1 h2
      have hi : i < N.nY := by simpa using h1
      by_cases hlt : i < N.nN
      · simp [hlt, List.getElem_append_left]
      · have hge : N.nN ≤ i := Nat.le_of_not_lt hlt
        simp [hlt, List.getElem_append_right, hge]
  rw [hz]
  conv_lhs => rw [hp]
  rw [List.zipWith_append (by simp [Net.nN]), zipWith_replicate_mul _ _ _ (by simp [Net.nN]),
    zipWith_replicate_mul _ _ _ (by simp [Net.nV, vsSorted_length N hids])]
  simp [List.map_map, Function.comp_def]

theorem ssDQ_cap_vsrow_zero (N : Net L K) (cvals lvals : ValDict K) {Delta : List (List K)}
    (hD : ssDelta N cvals = .ok Delta) {i k : Nat} (hi : i < N.nY) (hge : N.nN ≤ i) (hk : k < cvals.length) :
    Mx.get (ssDQ N cvals lvals Delta) i k = 0 := by
  have hks : k < ssNStates N cvals lvals := by unfold ssNStates; omega
  have hnone : N.nodes[i]? = none := List.getElem?_eq_none (by unfold Net.nN at hge; omega)
  rw [get_ssDQ N cvals lvals Delta hi hks, if_pos hk, get_Delta hD, hnone]
  cases cvals.keys[k]? <;> simp

theorem ssDQ_ind_noderow_zero (N : Net L K) (cvals lvals : ValDict K) (Delta : List (List K)) (hids : N.ids.Nodup)
    {i k : Nat} (hi : i < N.nN) (hk : cvals.length ≤ k) (hks : k < ssNStates N cvals lvals) :
    Mx.get (ssDQ N cvals lvals Delta) i k = 0 := by
  have hiy : i < N.nY := by unfold Net.nY; omega
  have hi' : i < N.nodes.length := hi
  have hj : k - cvals.length < (ssColsL N lvals).length := by unfold ssNStates at hks; omega
  rw [get_ssDQ N cvals lvals Delta hiy hks, if_neg (by omega), get_ssQ, List.getElem?_eq_getElem hi']
  have hc : (ssColsL N lvals).getD (k - cvals.length) 0 ∈ ssColsL N lvals := by
    rw [List.getD_eq_getElem?_getD, List.getElem?_eq_getElem hj]; exact List.getElem_mem hj
  have := colsL_ge N lvals hc
  simp only
  rw [List.getElem?_eq_none (by rw [csSorted_length N hids]; exact this)]

/-- **(i) signature identity** `Jn·DQ = −DQ·J`: capacitor columns of `DQ` live in node rows, inductor
columns in voltage-source rows -/
theorem model_signature (N : Net L K) (cvals lvals : ValDict K) {Delta : List (List K)} (hids : N.ids.Nodup)
    (hD : ssDelta N cvals = .ok Delta) :
    (diagonal fun i : Fin N.nY => if (i : Nat) < N.nN then (1 : K) else -1)
        * toM N.nY (ssNStates N cvals lvals) (ssDQ N cvals lvals Delta)
      = -(toM N.nY (ssNStates N cvals lvals) (ssDQ N cvals lvals Delta)
          * diagonal fun k : Fin (ssNStates N cvals lvals) => if (k : Nat) < cvals.length then (-1 : K) else 1) := by
  ext i k
  rw [Matrix.neg_apply, diagonal_mul, mul_diagonal, toM_apply]
  by_cases hk : (k : Nat) < cvals.length
  · by_cases hi : (i : Nat) < N.nN
    · simp [hk, hi]
    · rw [ssDQ_cap_vsrow_zero N cvals lvals hD i.2 (Nat.le_of_not_lt hi) hk]; simp
  · by_cases hi : (i : Nat) < N.nN
    · rw [ssDQ_ind_noderow_zero N cvals lvals Delta hids hi (Nat.le_of_not_lt hk) k.2]; simp
    · simp [hk, hi]

end quad

section ordered
variable {L F : Type} [DecidableEq L] [LabelOrd L] [Field F] [LinearOrder F] [IsStrictOrderedRing F]

/-- **(ii) the resistive form is non-negative**: for a network without negative conductances,
`yᵀ(Jn·Ã)y = Σ_b Yfin_b·(Δφ_b)² ≥ 0` for every `y` (`Jn = diag(+1 on node rows, −1 on
voltage-source rows)`) -/
theorem model_passive (N : Net L F) (wf : N.WF) (hpos : ∀ b ∈ N.branches, 0 ≤ b.e.Yfin) (y : Fin N.nY → F) :
    0 ≤ y ⬝ᵥ ((diagonal fun i : Fin N.nY => if (i : Nat) < N.nN then (1 : F) else -1)
              * toM N.nY N.nY N.mnaA) *ᵥ y := by
  have hids := wf.ids_nodup
  have hlen : (List.ofFn y).length = N.nodes.length + N.vsIds.length := by simp only [List.length_ofFn]; rfl
  set s := N.solOf (List.ofFn y) with hs
  have hpack : List.ofFn y = N.pack s := pack_solOf N hids (List.ofFn y) hlen
  have e1 : y ⬝ᵥ ((diagonal fun i : Fin N.nY => if (i : Nat) < N.nN then (1 : F) else -1)
              * toM N.nY N.nY N.mnaA) *ᵥ y
      = (fun i : Fin N.nY => (if (i : Nat) < N.nN then (1 : F) else -1) * y i) ⬝ᵥ (toM N.nY N.nY N.mnaA *ᵥ y) := by
    rw [← mulVec_mulVec]
    simp only [dotProduct, mulVec_diagonal]
    apply Finset.sum_congr rfl
    intro i _; ring
  have e2 : List.ofFn (toM N.nY N.nY N.mnaA *ᵥ y) = matVec N.mnaA (N.pack s) := by
    rw [← hpack, matVec_eq_ofFn (mnaA_shape N hids) (by simp), vecOf_ofFn]
  rw [e1, dotProduct_eq_dotL, e2, signed_ofFn N hids y, signed_form_list N s wf.no_self_loop]
  apply List.sum_nonneg
  intro x hx
  obtain ⟨b, hb, rfl⟩ := List.mem_map.mp hx
  exact mul_nonneg (hpos b (List.mem_filter.mp hb).1) (mul_self_nonneg _)

/-- `W·Λ⁻¹ = J`: `C_k·(1/(−C_k)) = −1`, `L_k·(1/L_k) = +1` -/
theorem W_mul_invLambda (cvals lvals : ValDict F) (ns : Nat)
    (hlen : (ssLambda cvals lvals).length = ns) (hnz : ∀ v ∈ ssLambda cvals lvals, v ≠ 0) :
    (diagonal fun k : Fin ns => (cvals.vals ++ lvals.vals).getD k 0)
        * (diagonal fun k : Fin ns => (ssInvLambda cvals lvals).getD k 0)
      = diagonal fun k : Fin ns => if (k : Nat) < cvals.length then (-1 : F) else 1 := by
  rw [diagonal_mul_diagonal]
  congr 1
  funext k
  have hk : (k : Nat) < (ssLambda cvals lvals).length := hlen ▸ k.2
  have hinv : (ssInvLambda cvals lvals).getD k 0 = 1 / (ssLambda cvals lvals).getD k 0 := by
    simp [ssInvLambda, List.getD_eq_getElem?_getD, hk]
  have hne : (ssLambda cvals lvals).getD k 0 ≠ 0 := by
    rw [List.getD_eq_getElem?_getD, List.getElem?_eq_getElem hk]
    exact hnz _ (List.getElem_mem hk)
  rw [hinv]
  by_cases hc : (k : Nat) < cvals.length
  · have hl := lambda_getD_cap cvals lvals hc
    have hw : (cvals.vals ++ lvals.vals).getD k 0 = cvals.vals.getD k 0 := by
      have : (k : Nat) < cvals.vals.length := by simpa [ValDict.vals] using hc
      simp [List.getD_eq_getElem?_getD, List.getElem?_append_left this]
    rw [if_pos hc, hw, hl]
    rw [hl] at hne
    have hc0 : cvals.vals.getD k 0 ≠ 0 := fun e => hne (by rw [e, neg_zero])
    field_simp
  · have hge : cvals.length ≤ (k : Nat) := Nat.le_of_not_lt hc
    obtain ⟨j, hj⟩ : ∃ j, (k : Nat) = cvals.length + j := ⟨k - cvals.length, by omega⟩
    have hl := lambda_getD_ind cvals lvals j
    have hw : (cvals.vals ++ lvals.vals).getD (cvals.length + j) 0 = lvals.vals.getD j 0 := by
      have : cvals.vals.length = cvals.length := by simp [ValDict.vals]
      simp [List.getD_eq_getElem?_getD, List.getElem?_append_right (by rw [this]; omega : cvals.vals.length ≤ cvals.length + j), this]
    rw [if_neg hc, hj, hw, hl]
    rw [hj, hl] at hne
    field_simp

/-- **C11 for the executable model.**  For the `w = 0` network of an RLC + ideal-source circuit without
negative conductances, any certificates and non-zero C, L: the state matrix `A` the model returns
satisfies `xᵀ(W A + Aᵀ W)x ≤ 0` for every `x`, `W = diag(C…, L…)` in dictionary order. -/
theorem model_lyapunov {N : Net L F} {cvals lvals : ValDict F} {Ainv S Delta : List (List F)} {m : SSMats F}
    (h : RLC N cvals lvals) (hD : ssDelta N cvals = .ok Delta)
    (hm : stateSpaceMatrices N cvals lvals Ainv S = .ok m)
    (hc : ModelCert id N cvals lvals Ainv S Delta)
    (hpos : ∀ b ∈ N.branches, 0 ≤ b.e.Yfin) (x : Fin (ssNStates N cvals lvals) → F) :
    let W : Matrix (Fin (ssNStates N cvals lvals)) (Fin (ssNStates N cvals lvals)) F :=
      diagonal fun k => (cvals.vals ++ lvals.vals).getD k 0
    let A := toM (ssNStates N cvals lvals) (ssNStates N cvals lvals) m.A
    x ⬝ᵥ (W * A + Aᵀ * W) *ᵥ x ≤ 0 := by
  intro W A
  have hids := h.wf.ids_nodup
  obtain ⟨Delta', hD', hl, rfl⟩ := stateSpaceMatrices_ok hm
  rw [hD] at hD'; cases hD'
  obtain ⟨eA, _, _, _⟩ := ssCore_toM N.nY (ssNStates N cvals lvals) (ssNInputs N lvals)
    (ssInvLambda cvals lvals) (ssDQ N cvals lvals Delta) (ssQS N lvals) Ainv S
  have hlen : (ssLambda cvals lvals).length = ssNStates N cvals lvals := by
    rw [ssLambda_length]; show _ = cvals.length + (ssColsL N lvals).length; rw [hl]
  have hA := hc.hA
  have hS := hc.hS
  rw [ssAtilde_id] at hA
  have hs : (toM N.nY N.nY N.mnaA)ᵀ = toM N.nY N.nY N.mnaA := by
    have := Atilde_symm id rfl N N.nY; rwa [ssAtilde_id] at this
  have := StateAlg.lyapunov (Li := diagonal fun k : Fin (ssNStates N cvals lvals) => (ssInvLambda cvals lvals).getD k 0)
    hA hs hS (diagonal_transpose _) (W_mul_invLambda cvals lvals _ hlen hc.hnz)
    (model_signature N cvals lvals hids hD) (model_passive N h.wf hpos) x
  simp only [A, eA]
  exact this

end ordered
end CC
