/-
  CC.Proofs.RoundLemmas — nearest-integer facts about `roundHalfEven` (the model of `np.round`)
  and the link between the code's gate `|w/w0 − n| > w_res/w0` and the distance `|w − n·w0|`.
-/
import Mathlib.Algebra.Order.Field.Rat
import Mathlib.Algebra.Order.Field.Basic
import Mathlib.Tactic.Linarith
import Mathlib.Tactic.FieldSimp
import Mathlib.Tactic.Ring
import CC.Proofs.CircuitLemmas
namespace CC

theorem absQ_eq_abs (q : Rat) : absQ q = |q| := by
  unfold absQ
  split
  · rename_i h; rw [abs_of_neg h]
  · rename_i h; rw [abs_of_nonneg (not_lt.mp h)]

theorem dist_eq_abs (a b : Rat) : Spec.dist a b = |a - b| := by
  rw [← absQ_sub_eq_dist, absQ_eq_abs]

/-- the code compares in units of the fundamental; that is the same as comparing frequencies -/
theorem dist_mul_iff (w w0 wres : Rat) (m : Int) (h0 : 0 < w0) :
    Spec.dist w (m * w0) ≤ wres ↔ absQ (w / w0 - m) ≤ wres / w0 := by
  rw [dist_eq_abs, absQ_eq_abs, le_div_iff₀ h0]
  have : w - m * w0 = (w / w0 - m) * w0 := by field_simp
  rw [this, abs_mul, abs_of_pos h0]

theorem floor_frac (x : Rat) : 0 ≤ x - (x.floor : Rat) ∧ x - (x.floor : Rat) < 1 := by
  have h1 := Rat.floor_le x
  have h2 := Rat.lt_floor_add_one x
  have : ((x.floor + 1 : Int) : Rat) = (x.floor : Rat) + 1 := by push_cast; ring
  rw [this] at h2
  constructor <;> linarith

/-- `np.round` picks the floor or the floor plus one, whichever is nearer (even on a tie) -/
theorem round_cases (x : Rat) :
    (x - (x.floor : Rat) < 1 / 2 ∧ roundHalfEven x = x.floor) ∨
    (1 / 2 < x - (x.floor : Rat) ∧ roundHalfEven x = x.floor + 1) ∨
    (x - (x.floor : Rat) = 1 / 2 ∧ (roundHalfEven x = x.floor ∨ roundHalfEven x = x.floor + 1)) := by
  unfold roundHalfEven
  by_cases h1 : x - (x.floor : Rat) < 1 / 2
  · left; exact ⟨h1, by simp only [if_pos h1]⟩
  · by_cases h2 : 1 / 2 < x - (x.floor : Rat)
    · right; left; exact ⟨h2, by simp only [if_neg h1, if_pos h2]⟩
    · right; right
      have : x - (x.floor : Rat) = 1 / 2 := le_antisymm (not_lt.mp h2) (not_lt.mp h1)
      refine ⟨this, ?_⟩
      simp only [if_neg h1, if_neg h2]
      split
      · left; rfl
      · right; rfl

/-- distance of `x` to its rounded value -/
theorem round_dist (x : Rat) :
    absQ (x - (roundHalfEven x : Rat)) = min (x - (x.floor : Rat)) (1 - (x - (x.floor : Rat))) := by
  obtain ⟨h0, h1⟩ := floor_frac x
  rw [absQ_eq_abs]
  rcases round_cases x with ⟨hd, hr⟩ | ⟨hd, hr⟩ | ⟨hd, hr | hr⟩
  · rw [hr, abs_of_nonneg h0, min_eq_left]; linarith
  · rw [hr]; push_cast
    rw [abs_of_nonpos (by linarith), min_eq_right (by linarith)]; ring
  · rw [hr, abs_of_nonneg h0, min_eq_left]; linarith
  · rw [hr]; push_cast
    rw [abs_of_nonpos (by linarith), min_eq_right (by linarith)]; ring

/-- no integer is nearer to `x` than `np.round(x)` -/
theorem round_nearest (x : Rat) (m : Int) : absQ (x - (roundHalfEven x : Rat)) ≤ absQ (x - m) := by
  obtain ⟨h0, h1⟩ := floor_frac x
  rw [round_dist, absQ_eq_abs]
  rcases le_or_gt m x.floor with hm | hm
  · have : (m : Rat) ≤ (x.floor : Rat) := by exact_mod_cast hm
    rw [abs_of_nonneg (by linarith)]
    exact le_trans (min_le_left _ _) (by linarith)
  · have : (x.floor : Rat) + 1 ≤ (m : Rat) := by exact_mod_cast hm
    rw [abs_of_nonpos (by linarith)]
    exact le_trans (min_le_right _ _) (by linarith)

/-- with a resolution finer than half the fundamental, the harmonic the specification selects
is the one the code selects -/
theorem harmonicIndex_eq (w w0 wres : Rat) (h0 : 0 < w0) (hres : 2 * wres < w0) :
    Spec.harmonicIndex? w w0 wres =
      if wres / w0 < absQ (w / w0 - (roundHalfEven (w / w0) : Rat)) then none else some (roundHalfEven (w / w0)) := by
  have hρ : wres / w0 < 1 / 2 := by rw [div_lt_iff₀ h0]; linarith
  obtain ⟨hd0, hd1⟩ := floor_frac (w / w0)
  unfold Spec.harmonicIndex?
  simp only
  have e1 := dist_mul_iff w w0 wres (w / w0).floor h0
  have e2 := dist_mul_iff w w0 wres ((w / w0).floor + 1) h0
  have c2 : (((w / w0).floor + 1 : Int) : Rat) = ((w / w0).floor : Rat) + 1 := by push_cast; ring
  rw [c2] at e2
  simp only [e1, e2, round_dist]
  have a1 : absQ (w / w0 - ((w / w0).floor : Rat)) = w / w0 - ((w / w0).floor : Rat) := by
    rw [absQ_eq_abs, abs_of_nonneg hd0]
  have a2 : absQ (w / w0 - (((w / w0).floor : Rat) + 1)) = 1 - (w / w0 - ((w / w0).floor : Rat)) := by
    rw [absQ_eq_abs, abs_of_nonpos (by linarith)]; ring
  rw [a1, a2]
  rcases round_cases (w / w0) with ⟨hd, hr⟩ | ⟨hd, hr⟩ | ⟨hd, hr⟩
  · rw [hr, min_eq_left (by linarith)]
    by_cases hc : w / w0 - ((w / w0).floor : Rat) ≤ wres / w0
    · simp [hc, not_lt.mpr hc]
    · have : ¬ (1 - (w / w0 - ((w / w0).floor : Rat)) ≤ wres / w0) := by intro; linarith
      simp [hc, this, not_le.mp hc]
  · rw [hr, min_eq_right (by linarith)]
    have hc1 : ¬ (w / w0 - ((w / w0).floor : Rat) ≤ wres / w0) := by intro; linarith
    by_cases hc : 1 - (w / w0 - ((w / w0).floor : Rat)) ≤ wres / w0
    · simp [hc1, hc, not_lt.mpr hc]
    · simp [hc1, hc, not_le.mp hc]
  · have hc1 : ¬ (w / w0 - ((w / w0).floor : Rat) ≤ wres / w0) := by intro; linarith
    have hc2 : ¬ (1 - (w / w0 - ((w / w0).floor : Rat)) ≤ wres / w0) := by intro; linarith
    have : wres / w0 < min (w / w0 - ((w / w0).floor : Rat)) (1 - (w / w0 - ((w / w0).floor : Rat))) := by
      rw [hd]; norm_num; linarith
    simp [hc1, hc2, this]

end CC
