/-
  CC.Proofs.PortLemmas — helper lemmas for property C06 (spec level).

  `EqsInj bs z R inj`: the report `R` satisfies reference, voltage and element-law equations
  of the branch list `bs`, and at every node `n` the current leaving `n` through the
  branches of `bs` equals the current `inj n` injected into `n` from outside.  Attaching
  a branch to a network is the same as injecting its current at its terminals; the
  equations of source-free branch lists are linear in `(R, inj)`; the difference of two
  solutions of a network with sources solves the source-free network.
-/
import CC.Proofs.Complete
import CC.Proofs.SpecLemmas
import CC.Spec.Port
set_option linter.unusedSectionVars false
set_option linter.unusedVariables false

namespace CC
variable {L K : Type} [DecidableEq L] [LabelOrd L] [Field K] [DecidableEq K]

/-- the branch list with every independent source set to zero -/
def zs (bs : List (Branch L K)) : List (Branch L K) :=
  bs.map fun b => { b with e := b.e.zeroSources }

theorem port_zeroSources_branches (N : Net L K) : N.zeroSources.branches = zs N.branches := rfl

theorem zeroSources_idem (e : Elem K) : e.zeroSources.zeroSources = e.zeroSources := by
  cases e <;> rfl

theorem port_zs_idem (bs : List (Branch L K)) : zs (zs bs) = zs bs := by
  simp [zs, List.map_map, Function.comp_def, zeroSources_idem]

/-- current `J` injected into `a` and drawn from `b` -/
def injAB (a b : L) (J : K) : L → K :=
  fun n => (if a = n then J else 0) - (if b = n then J else 0)

structure EqsInj (bs : List (Branch L K)) (z : L) (R : Report L K) (inj : L → K) : Prop where
  ref_zero : R.pot z = 0
  volt : ∀ b ∈ bs, voltResidual R b = 0
  law : ∀ b ∈ bs, b.e.lawResidual (R.v b.id) (R.i b.id) = 0
  kcl : ∀ n, (bs.map fun b => incidence b n * b.e.physCurrent (R.i b.id)).sum = inj n

theorem circuitEqsAll_iff_eqsInj (bs : List (Branch L K)) (z : L) (R : Report L K) :
    CircuitEqsAll bs z R ↔ EqsInj bs z R (fun _ => 0) := by
  constructor
  · intro h; exact ⟨h.ref_zero, h.volt, h.law, fun n => h.kcl n⟩
  · intro h; exact ⟨h.ref_zero, h.volt, h.law, fun n => h.kcl n⟩

/-- attaching a branch = injecting its current at its terminals -/
theorem eqsInj_append_iff (bs : List (Branch L K)) (x : Branch L K) (z : L) (R : Report L K)
    (inj : L → K) :
    EqsInj (bs ++ [x]) z R inj ↔
      EqsInj bs z R (fun n => inj n - incidence x n * x.e.physCurrent (R.i x.id)) ∧
      voltResidual R x = 0 ∧ x.e.lawResidual (R.v x.id) (R.i x.id) = 0 := by
  constructor
  · intro h
    refine ⟨⟨h.ref_zero, fun b hb => h.volt b (List.mem_append_left _ hb),
      fun b hb => h.law b (List.mem_append_left _ hb), fun n => ?_⟩,
      h.volt x (by simp), h.law x (by simp)⟩
    have := h.kcl n
    simp only [List.map_append, List.sum_append, List.map_cons, List.map_nil, List.sum_cons,
      List.sum_nil, add_zero] at this
    linear_combination this
  · rintro ⟨h, hv, hl⟩
    refine ⟨h.ref_zero, ?_, ?_, fun n => ?_⟩
    · intro b hb
      rcases List.mem_append.mp hb with hb | hb
      · exact h.volt b hb
      · simp only [List.mem_singleton] at hb; subst hb; exact hv
    · intro b hb
      rcases List.mem_append.mp hb with hb | hb
      · exact h.law b hb
      · simp only [List.mem_singleton] at hb; subst hb; exact hl
    · have := h.kcl n
      simp only [List.map_append, List.sum_append, List.map_cons, List.map_nil, List.sum_cons,
        List.sum_nil, add_zero]
      linear_combination this

theorem eqsInj_congr {bs : List (Branch L K)} {z : L} {R : Report L K} {inj inj' : L → K}
    (h : EqsInj bs z R inj) (e : ∀ n, inj n = inj' n) : EqsInj bs z R inj' :=
  ⟨h.ref_zero, h.volt, h.law, fun n => (h.kcl n).trans (e n)⟩

/-! ### source-free branch lists are linear -/

theorem zs_not_lossy (e : Elem K) (i : K) : e.zeroSources.physCurrent i = i := by
  unfold Elem.physCurrent; rw [zeroSources_not_lossy]; simp

theorem law_zs_lin (e : Elem K) (a c v1 v2 i1 i2 : K) :
    e.zeroSources.lawResidual (a * v1 + c * v2) (a * i1 + c * i2)
      = a * e.zeroSources.lawResidual v1 i1 + c * e.zeroSources.lawResidual v2 i2 := by
  cases e with
  | norton Z V => by_cases hZ : Z = 0 <;> simp [Elem.zeroSources, Elem.lawResidual, hZ] <;> ring
  | thevenin Y I => by_cases hY : Y = 0 <;> simp [Elem.zeroSources, Elem.lawResidual, hY] <;> ring

def Report.lin (a c : K) (R S : Report L K) : Report L K where
  pot := fun n => a * R.pot n + c * S.pot n
  v := fun id => a * R.v id + c * S.v id
  i := fun id => a * R.i id + c * S.i id

theorem eqsInj_zs_lin (bs : List (Branch L K)) (z : L) (a c : K) (R S : Report L K)
    (inj1 inj2 : L → K) (h1 : EqsInj (zs bs) z R inj1) (h2 : EqsInj (zs bs) z S inj2) :
    EqsInj (zs bs) z (Report.lin a c R S) (fun n => a * inj1 n + c * inj2 n) := by
  refine ⟨?_, ?_, ?_, ?_⟩
  · simp [Report.lin, h1.ref_zero, h2.ref_zero]
  · intro b hb
    have e1 := h1.volt b hb; have e2 := h2.volt b hb
    unfold voltResidual at *
    simp only [Report.lin]
    linear_combination a * e1 + c * e2
  · intro b' hb'
    have e1 := h1.law b' hb'; have e2 := h2.law b' hb'
    obtain ⟨b, hb, rfl⟩ := List.mem_map.mp hb'
    simp only [Report.lin] at *
    rw [law_zs_lin, e1, e2]; ring
  · intro n
    have e1 := h1.kcl n; have e2 := h2.kcl n
    simp only [zs, List.map_map, Function.comp_def, zs_not_lossy] at e1 e2 ⊢
    rw [← e1, ← e2, ← List.sum_map_mul_left, ← List.sum_map_mul_left, ← List.sum_map_add]
    apply congrArg; apply List.map_congr_left; intro b _
    simp only [Report.lin]; ring

/-! ### the difference of two solutions solves the source-free network -/

theorem eqsInj_diff (N : Net L K) (hids : N.ids.Nodup) (R S : Report L K) (inj1 inj2 : L → K)
    (h1 : EqsInj N.branches N.zero R inj1) (h2 : EqsInj N.branches N.zero S inj2) :
    EqsInj (zs N.branches) N.zero (Report.diff N R S) (fun n => inj1 n - inj2 n) := by
  refine ⟨?_, ?_, ?_, ?_⟩
  · simp [Report.diff, h1.ref_zero, h2.ref_zero]
  · intro b' hb'
    obtain ⟨b, hb, rfl⟩ := List.mem_map.mp hb'
    have e1 := h1.volt b hb; have e2 := h2.volt b hb
    unfold voltResidual at *
    simp only [Report.diff]
    linear_combination e1 - e2
  · intro b' hb'
    obtain ⟨b, hb, rfl⟩ := List.mem_map.mp hb'
    simp only [Report.diff, get?_of_mem N hids hb]
    exact law_diff b.e _ _ _ _ (h1.law b hb) (h2.law b hb)
  · intro n
    have e1 := h1.kcl n; have e2 := h2.kcl n
    have : ((zs N.branches).map fun b => incidence b n * b.e.physCurrent ((Report.diff N R S).i b.id))
        = N.branches.map fun b => incidence b n * b.e.physCurrent (R.i b.id)
            - incidence b n * b.e.physCurrent (S.i b.id) := by
      simp only [zs, List.map_map]
      apply List.map_congr_left
      intro b hb
      simp only [Function.comp_apply, Report.diff, get?_of_mem N hids hb]
      rw [phys_diff]
      have : incidence ({ b with e := b.e.zeroSources } : Branch L K) n = incidence b n := rfl
      rw [this]; ring
    rw [this, sum_map_sub', e1, e2]

end CC

namespace CC
variable {L K : Type} [DecidableEq L] [LabelOrd L] [Field K] [DecidableEq K]

/-! ### the probe network -/

theorem port_zs_ids (bs : List (Branch L K)) : (zs bs).map (·.id) = bs.map (·.id) := by
  simp [zs, List.map_map, Function.comp_def]

theorem probe_iff (N : Net L K) (pid : String) (a b : L) (J : K) (R : Report L K) :
    CircuitEqs (probeNet N pid a b J) R ↔
      EqsInj (zs N.branches) N.zero R (injAB a b (R.i pid)) ∧ R.i pid = J ∧
        R.v pid = R.pot b - R.pot a := by
  rw [← circuitEqsAll_iff, circuitEqsAll_iff_eqsInj]
  show EqsInj (zs N.branches ++ [probeBranch pid a b J]) N.zero R _ ↔ _
  rw [eqsInj_append_iff]
  have hph : (probeBranch pid a b J : Branch L K).e.physCurrent (R.i pid) = R.i pid := by
    simp [probeBranch, Elem.physCurrent, Elem.isLossy, Elem.kind]
  have hlaw : (probeBranch pid a b J : Branch L K).e.lawResidual (R.v pid) (R.i pid) = R.i pid - J := by
    simp [probeBranch, Elem.lawResidual]
  have hvolt : voltResidual R (probeBranch pid a b J : Branch L K) = R.v pid - (R.pot b - R.pot a) := rfl
  have hinj : ∀ n, (0 : K) - incidence (probeBranch pid a b J : Branch L K) n *
      (probeBranch pid a b J : Branch L K).e.physCurrent (R.i (probeBranch pid a b J : Branch L K).id)
        = injAB a b (R.i pid) n := by
    intro n
    have : (probeBranch pid a b J : Branch L K).id = pid := rfl
    rw [this, hph]
    simp only [incidence, probeBranch, injAB]
    by_cases h1 : a = n <;> by_cases h2 : b = n <;> simp [h1, h2]
  have hid : (probeBranch pid a b J : Branch L K).id = pid := rfl
  rw [hid, hlaw, hvolt]
  constructor
  · rintro ⟨h, hv, hl⟩
    exact ⟨eqsInj_congr h hinj, sub_eq_zero.mp hl, sub_eq_zero.mp hv⟩
  · rintro ⟨h, hi, hv⟩
    exact ⟨eqsInj_congr h (fun n => (hinj n).symm), sub_eq_zero.mpr hv, sub_eq_zero.mpr hi⟩

/-- overwrite the entries of the test source -/
def Report.setProbe (R : Report L K) (pid : String) (v i : K) : Report L K where
  pot := R.pot
  v := fun id => if id = pid then v else R.v id
  i := fun id => if id = pid then i else R.i id

theorem eqsInj_setProbe {bs : List (Branch L K)} {z : L} {R : Report L K} {inj : L → K}
    (pid : String) (hp : pid ∉ bs.map (·.id)) (v i : K) (h : EqsInj bs z R inj) :
    EqsInj bs z (R.setProbe pid v i) inj := by
  have hne : ∀ b ∈ bs, b.id ≠ pid := fun b hb e => hp (e ▸ List.mem_map_of_mem hb)
  refine ⟨h.ref_zero, ?_, ?_, ?_⟩
  · intro b hb
    have := h.volt b hb
    unfold voltResidual at *
    simpa [Report.setProbe, hne b hb] using this
  · intro b hb
    have := h.law b hb
    simpa [Report.setProbe, hne b hb] using this
  · intro n
    rw [← h.kcl n]
    apply congrArg; apply List.map_congr_left; intro b hb
    simp [Report.setProbe, hne b hb]

/-- a solution of the source-free branch list with the test current injected gives a
solution of the probe network -/
theorem probe_of_eqsInj (N : Net L K) (pid : String) (hp : pid ∉ N.ids) (a b : L) (J : K)
    (R : Report L K) (h : EqsInj (zs N.branches) N.zero R (injAB a b J)) :
    CircuitEqs (probeNet N pid a b J) (R.setProbe pid (R.pot b - R.pot a) J) := by
  rw [probe_iff]
  have hp' : pid ∉ (zs N.branches).map (·.id) := by rw [port_zs_ids]; exact hp
  refine ⟨?_, by simp [Report.setProbe], by simp [Report.setProbe]⟩
  have : (R.setProbe pid (R.pot b - R.pot a) J).i pid = J := by simp [Report.setProbe]
  rw [this]
  exact eqsInj_setProbe pid hp' _ _ h

theorem probeNet_zeroSources (N : Net L K) (pid : String) (a b : L) (J : K) :
    (probeNet N pid a b J).zeroSources = probeNet N pid a b 0 := by
  have h1 : (probeNet N pid a b J).zeroSources.branches
      = zs (zs N.branches) ++ [probeBranch pid a b 0] := by
    simp [probeNet, Net.zeroSources, zs, probeBranch, Elem.zeroSources]
  have h2 : (probeNet N pid a b (0 : K)).branches = zs N.branches ++ [probeBranch pid a b 0] := rfl
  have h3 : (probeNet N pid a b J).zeroSources.zero = (probeNet N pid a b (0 : K)).zero := rfl
  rw [port_zs_idem] at h1
  cases hA : (probeNet N pid a b J).zeroSources with
  | mk br z =>
    cases hB : probeNet N pid a b (0 : K) with
    | mk br' z' =>
      rw [hA] at h1 h3; rw [hB] at h2 h3
      simp only at h1 h2 h3
      rw [h1, h2, h3]

theorem mem_allLabels_probe (N : Net L K) (pid : String) (a b : L) (J : K) :
    a ∈ (probeNet N pid a b J).allLabels ∧ b ∈ (probeNet N pid a b J).allLabels := by
  simp [Net.allLabels, probeNet, probeBranch]

/-- **uniqueness of the port voltage** in a well-posed probe network -/
theorem port_unique (N : Net L K) (pid : String) (hp : pid ∉ N.ids) (a b : L)
    (hw : WellPosed (probeNet N pid a b 1)) (J : K) (R S : Report L K)
    (h1 : EqsInj (zs N.branches) N.zero R (injAB a b J))
    (h2 : EqsInj (zs N.branches) N.zero S (injAB a b J)) :
    R.pot a - R.pot b = S.pot a - S.pot b := by
  have hD := eqsInj_zs_lin N.branches N.zero 1 (-1) R S _ _ h1 h2
  have hD0 : EqsInj (zs N.branches) N.zero (Report.lin 1 (-1) R S) (injAB a b 0) := by
    apply eqsInj_congr hD
    intro n; simp [injAB]
  have hP := probe_of_eqsInj N pid hp a b 0 _ hD0
  rw [← probeNet_zeroSources N pid a b 1] at hP
  obtain ⟨hpot, _⟩ := hw _ hP
  obtain ⟨ha, hb⟩ := mem_allLabels_probe N pid a b (1 : K)
  have e1 := hpot a ha
  have e2 := hpot b hb
  simp only [Report.setProbe, Report.lin, Report.zeroRep] at e1 e2
  linear_combination e1 - e2

theorem eqsInj_zero (bs : List (Branch L K)) (z : L) :
    EqsInj (zs bs) z (Report.zeroRep : Report L K) (fun _ => 0) := by
  refine ⟨rfl, ?_, ?_, ?_⟩
  · intro b _; simp [voltResidual, Report.zeroRep]
  · intro b' hb'
    obtain ⟨b, _, rfl⟩ := List.mem_map.mp hb'
    cases he : b.e with
    | norton Z V => by_cases hZ : Z = 0 <;> simp [Elem.zeroSources, Elem.lawResidual, Report.zeroRep, hZ]
    | thevenin Y I => by_cases hY : Y = 0 <;> simp [Elem.zeroSources, Elem.lawResidual, Report.zeroRep, hY]
  · intro n
    apply List.sum_eq_zero
    intro y hy
    obtain ⟨b, _, rfl⟩ := List.mem_map.mp hy
    simp [Elem.physCurrent, Report.zeroRep]

/-- potentials shifted by a constant: a change of the reference node -/
def Report.portShift (R : Report L K) (c : K) : Report L K where
  pot := fun n => R.pot n - c
  v := R.v
  i := R.i

theorem eqsInj_shift {bs : List (Branch L K)} {z : L} {R : Report L K} {inj : L → K} (g : L)
    (h : EqsInj bs z R inj) : EqsInj bs g (R.portShift (R.pot g)) inj := by
  refine ⟨by simp [Report.portShift], ?_, h.law, h.kcl⟩
  intro b hb
  have := h.volt b hb
  unfold voltResidual at *
  simp only [Report.portShift]
  linear_combination this

end CC
