/-
  CC.Proofs.StateRows — the OUTPUT ROWS of the executable state-space model
  (`NSSM.cRowPotential / cRowVoltage / cRowCurrent` and their `dRow*` partners,
  CC/Model/StateSpace.lean) applied to a state `x` and an input `u` deliver the accessor report
  `(sampleNet …).reportOf y` read from the output vector `y = C x + D u` (`ẋ = A x + B u`).
  Pure list algebra on the rows + the case split of `c_row_current` against the four-way case
  split of `get_current` on the per-sample network.  Only the SHAPES of `A, B, C, D` are used
  (`model_dims`), not the certificate equations.
-/
import CC.Proofs.StatePhasor
set_option linter.unusedSectionVars false

namespace CC
open Mx

section lists
variable {K : Type} [Field K]

theorem rows_dotL_nil_left (x : List K) : dotL ([] : List K) x = 0 := by simp [dotL]

theorem rows_dotL_cons (a b : K) (r x : List K) : dotL (a :: r) (b :: x) = a * b + dotL r x := by
  simp [dotL]

/-- `(p − q)·x = p·x − q·x` for rows of equal length -/
theorem rows_dotL_vecSub (p q x : List K) (h : p.length = q.length) :
    dotL (Mx.vecSub p q) x = dotL p x - dotL q x := by
  induction p generalizing q x with
  | nil =>
    cases q with
    | nil => simp [Mx.vecSub, dotL]
    | cons b q => simp at h
  | cons a p ih =>
    cases q with
    | nil => simp at h
    | cons b q =>
      have hl : p.length = q.length := by simpa using h
      cases x with
      | nil => simp [Mx.vecSub, dotL]
      | cons c x =>
        have e : Mx.vecSub (a :: p) (b :: q) = (a - b) :: Mx.vecSub p q := by simp [Mx.vecSub]
        rw [e, rows_dotL_cons, rows_dotL_cons, rows_dotL_cons, ih q x hl]
        ring

/-- `(c·r)·x = c·(r·x)` -/
theorem rows_dotL_vecScale (c : K) (r x : List K) : dotL (Mx.vecScale c r) x = c * dotL r x := by
  induction r generalizing x with
  | nil => simp [Mx.vecScale, dotL]
  | cons a r ih =>
    cases x with
    | nil => simp [Mx.vecScale, dotL]
    | cons b x =>
      have e : Mx.vecScale c (a :: r) = (c * a) :: Mx.vecScale c r := by simp [Mx.vecScale]
      rw [e, rows_dotL_cons, rows_dotL_cons, ih x]
      ring

/-- `(r / z)·x = (r·x) / z` -/
theorem rows_dotL_map_div (z : K) (r x : List K) : dotL (r.map (· / z)) x = dotL r x / z := by
  induction r generalizing x with
  | nil => simp [dotL]
  | cons a r ih =>
    cases x with
    | nil => simp [dotL]
    | cons b x =>
      rw [List.map_cons, rows_dotL_cons, rows_dotL_cons, ih x]
      ring

theorem rows_dotL_map_zero (r x : List K) : dotL (r.map fun _ => (0 : K)) x = 0 := by
  induction r generalizing x with
  | nil => simp [dotL]
  | cons a r ih =>
    cases x with
    | nil => simp [dotL]
    | cons b x => rw [List.map_cons, rows_dotL_cons, ih x]; ring

theorem rows_dotL_zeroVec_left (n : Nat) (x : List K) : dotL (Mx.zeroVec n : List K) x = 0 := by
  have : (Mx.zeroVec n : List K) = (List.replicate n (0 : K)).map fun _ => (0 : K) := by
    simp [Mx.zeroVec]
  rw [this, rows_dotL_map_zero]

/-- the unit row `e_k` picks the `k`-th entry -/
theorem rows_dotL_unit [DecidableEq K] (n k : Nat) (hk : k < n) (u : List K) (hu : u.length = n) :
    dotL ((List.range n).map fun t => if t = k then (1 : K) else 0) u = u.getD k 0 := by
  rw [dotL_range_map n _ u hu]
  have : (fun j => (if j = k then (1 : K) else 0) * u.getD j 0)
      = fun j => if j = k then u.getD j 0 else 0 := by
    funext j; by_cases h : j = k <;> simp [h]
  rw [this, sumTo_single n k hk]

/-- entry `k` of `M₁ x + M₂ u` is `row_k(M₁)·x + row_k(M₂)·u` -/
theorem rows_getD_vecAdd_matVec (M1 M2 : List (List K)) (x u : List K) (k : Nat)
    (h1 : k < M1.length) (h2 : k < M2.length) :
    (Mx.vecAdd (matVec M1 x) (matVec M2 u)).getD k 0 = dotL (M1.getD k []) x + dotL (M2.getD k []) u := by
  simp [Mx.vecAdd, matVec, List.getD_eq_getElem?_getD, h1, h2]

end lists

section main
variable {L K : Type} [DecidableEq L] [LabelOrd L] [Field K] [DecidableEq K]

/-- the report of a substituted network (same nodes, same terminals) reads its potentials from the
ORIGINAL network's node map -/
theorem rows_report_pot (N : Net L K) (f : Branch L K → Elem K) (y : List K) (n : L) :
    ((N.mapElems f).reportOf y).pot n = N.pot (N.solOf y) n := by
  show (N.mapElems f).pot ((N.mapElems f).solOf y) n = _
  unfold Net.pot Net.solOf
  rw [mapElems_nodes]
  rfl

/-- … and its branch voltages are differences of those potentials -/
theorem rows_report_v (N : Net L K) (f : Branch L K → Elem K) (hids : N.ids.Nodup) (y : List K)
    {b : Branch L K} (hb : b ∈ N.branches) :
    ((N.mapElems f).reportOf y).v b.id = N.pot (N.solOf y) b.n1 - N.pot (N.solOf y) b.n2 := by
  have hP : (N.mapElems f).ids.Nodup := by rw [mapElems_ids]; exact hids
  have hb' : ({ b with e := f b } : Branch L K) ∈ (N.mapElems f).branches := by
    simp only [Net.mapElems, List.mem_map]; exact ⟨b, hb, rfl⟩
  have := reportOf_v (N.mapElems f) y hP hb'
  simp only at this
  rw [this]
  exact congrArg₂ (· - ·) (rows_report_pot N f y b.n1) (rows_report_pot N f y b.n2)

/-- `nodal_state_space_model` succeeds exactly with the record of the four matrices and its arguments -/
theorem rows_model_ok {N : Net L K} {cvals lvals : ValDict K} {Ainv S : List (List K)} {m : NSSM L K}
    (hm : nodalStateSpaceModel N cvals lvals Ainv S = .ok m) :
    ∃ mats, stateSpaceMatrices N cvals lvals Ainv S = .ok mats ∧ m = ⟨mats, N, cvals, lvals⟩ := by
  unfold nodalStateSpaceModel at hm
  cases hs : stateSpaceMatrices N cvals lvals Ainv S with
  | error e => rw [hs] at hm; cases hm
  | ok mats => rw [hs] at hm; cases hm; exact ⟨mats, rfl, rfl⟩

/-- **potential rows.**  For a node label `n` of the network the two rows exist, have the widths of
`x` and `u`, and `row_c·x + row_d·u` is the potential the accessor reads from `y = C x + D u`
(`0` for the reference node). -/
theorem rows_potential {N : Net L K} {cvals lvals : ValDict K} {Ainv S : List (List K)} {mats : SSMats K}
    (hm : stateSpaceMatrices N cvals lvals Ainv S = .ok mats) (x u : List K) (n : L) (hn : n ∈ N.nodeLabels) :
    ∃ rc rd, (⟨mats, N, cvals, lvals⟩ : NSSM L K).cRowPotential n = .ok rc
      ∧ (⟨mats, N, cvals, lvals⟩ : NSSM L K).dRowPotential n = .ok rd
      ∧ rc.length = cvals.length + lvals.length ∧ rd.length = ssNInputs N lvals
      ∧ dotL rc x + dotL rd u
          = N.pot (N.solOf (Mx.vecAdd (matVec mats.C x) (matVec mats.D u))) n := by
  obtain ⟨hA, _, hC, hD⟩ := model_dims hm
  by_cases hz : n = N.zero
  · subst hz
    refine ⟨_, _, rowForPotential_reference (⟨mats, N, cvals, lvals⟩ : NSSM L K) _ _,
      rowForPotential_reference (⟨mats, N, cvals, lvals⟩ : NSSM L K) _ _, ?_, ?_, ?_⟩
    · simp [Mx.zeroVec, NSSM.nStates, hA.1]
    · simp [Mx.zeroVec, NSSM.nInputs]
    · rw [rows_dotL_zeroVec_left, rows_dotL_zeroVec_left]
      simp [Net.pot]
  · have hmem : n ∈ N.nodes := (mem_nodes_iff N n).mpr ⟨hn, hz⟩
    obtain ⟨k, hk, hlt, _⟩ := idxOf?_of_mem hmem
    have hkC : k < mats.C.length := by rw [hC.1]; unfold Net.nY Net.nN; omega
    have hkD : k < mats.D.length := by rw [hD.1]; unfold Net.nY Net.nN; omega
    refine ⟨_, _, rowForPotential_mapped (⟨mats, N, cvals, lvals⟩ : NSSM L K) n _ _ k hk,
      rowForPotential_mapped (⟨mats, N, cvals, lvals⟩ : NSSM L K) n _ _ k hk, ?_, ?_, ?_⟩
    · apply hC.2
      rw [List.getD_eq_getElem?_getD, List.getElem?_eq_getElem hkC]; exact List.getElem_mem hkC
    · apply hD.2
      rw [List.getD_eq_getElem?_getD, List.getElem?_eq_getElem hkD]; exact List.getElem_mem hkD
    · rw [← rows_getD_vecAdd_matVec _ _ _ _ _ hkC hkD]
      simp [Net.pot, hz, Net.solOf, hk]

/-- a row of `M` inside the matrix has the row width -/
theorem rows_getD_length {M : List (List K)} {r c : Nat} (hM : IsShape M r c) {k : Nat} (hk : k < r) :
    (M.getD k []).length = c := by
  have hk' : k < M.length := by rw [hM.1]; exact hk
  apply hM.2
  rw [List.getD_eq_getElem?_getD, List.getElem?_eq_getElem hk']; exact List.getElem_mem hk'

/-- **voltage rows.**  For a branch of the network the two rows exist and `row_c·x + row_d·u` is the
difference of the two terminal potentials read from `y = C x + D u` (first minus second terminal). -/
theorem rows_voltage {N : Net L K} {cvals lvals : ValDict K} {Ainv S : List (List K)} {mats : SSMats K}
    (hids : N.ids.Nodup) (hm : stateSpaceMatrices N cvals lvals Ainv S = .ok mats) (x u : List K)
    (b : Branch L K) (hb : b ∈ N.branches) :
    ∃ rc rd, (⟨mats, N, cvals, lvals⟩ : NSSM L K).cRowVoltage b.id = .ok rc
      ∧ (⟨mats, N, cvals, lvals⟩ : NSSM L K).dRowVoltage b.id = .ok rd
      ∧ dotL rc x + dotL rd u
          = N.pot (N.solOf (Mx.vecAdd (matVec mats.C x) (matVec mats.D u))) b.n1
            - N.pot (N.solOf (Mx.vecAdd (matVec mats.C x) (matVec mats.D u))) b.n2 := by
  obtain ⟨p1, q1, hp1, hq1, lp1, lq1, e1⟩ := rows_potential hm x u b.n1 (n1_mem_labels N hb)
  obtain ⟨p2, q2, hp2, hq2, lp2, lq2, e2⟩ := rows_potential hm x u b.n2 (n2_mem_labels N hb)
  have hg : (⟨mats, N, cvals, lvals⟩ : NSSM L K).net.get? b.id = some b := get?_of_mem N hids hb
  refine ⟨Mx.vecSub p1 p2, Mx.vecSub q1 q2, ?_, ?_, ?_⟩
  · unfold NSSM.cRowVoltage
    rw [hg]
    simp only [hp1, hp2]
    rfl
  · unfold NSSM.dRowVoltage
    rw [hg]
    simp only [hq1, hq2]
    rfl
  · rw [rows_dotL_vecSub _ _ _ (lp1.trans lp2.symm), rows_dotL_vecSub _ _ _ (lq1.trans lq2.symm), ← e1, ← e2]
    ring

theorem rows_idxOf?_none_of_not_mem' {α : Type} [DecidableEq α] {a : α} {l : List α} (h : idxOf? a l = none) : a ∉ l := by
  intro hm
  obtain ⟨k, hk, _, _⟩ := idxOf?_of_mem hm
  rw [h] at hk; cases hk

/-- **current rows.**  For a branch of the `w = 0` network of an RLC + ideal-source circuit the two rows
exist and `row_c·x + row_d·u` is the current that `get_current` reports on the per-sample network from
`y = C x + D u`, `ẋ = A x + B u`: capacitor `k` ↦ `C_k·ẋ_k`; ideal voltage source / inductor ↦ its
entry of `y`; current source ↦ its input `u_k`; every other branch ↦ `(φ₁ − φ₂)/Z` (an open circuit: 0). -/
theorem rows_current {N : Net L K} {cvals lvals : ValDict K} {Ainv S : List (List K)} {mats : SSMats K}
    (h : RLC N cvals lvals) (hm : stateSpaceMatrices N cvals lvals Ainv S = .ok mats) (x u : List K)
    (hu : u.length = ssNInputs N lvals) (b : Branch L K) (hb : b ∈ N.branches) :
    ∃ rc rd, (⟨mats, N, cvals, lvals⟩ : NSSM L K).cRowCurrent b.id = .ok rc
      ∧ (⟨mats, N, cvals, lvals⟩ : NSSM L K).dRowCurrent b.id = .ok rd
      ∧ dotL rc x + dotL rd u
          = ((sampleNet N cvals lvals (ssSources N lvals) u
                (Mx.vecAdd (matVec mats.A x) (matVec mats.B u))).reportOf
              (Mx.vecAdd (matVec mats.C x) (matVec mats.D u))).i b.id := by
  have hids := h.wf.ids_nodup
  obtain ⟨hA, hB, hC, hD⟩ := model_dims hm
  generalize hy : Mx.vecAdd (matVec mats.C x) (matVec mats.D u) = y
  generalize hxd : Mx.vecAdd (matVec mats.A x) (matVec mats.B u) = xdot
  have hk : KeepsStructure N (sampleElem cvals lvals (ssSources N lvals) u xdot) :=
    sampleNet_keeps N cvals lvals (ssSources N lvals) u xdot h.placeholders
  rw [sampleNet_eq]
  have hP : (N.mapElems (sampleElem cvals lvals (ssSources N lvals) u xdot)).ids.Nodup := by
    rw [mapElems_ids]; exact hids
  have hb' : ({ b with e := sampleElem cvals lvals (ssSources N lvals) u xdot b } : Branch L K)
      ∈ (N.mapElems (sampleElem cvals lvals (ssSources N lvals) u xdot)).branches := by
    simp only [Net.mapElems, List.mem_map]; exact ⟨b, hb, rfl⟩
  have hR := reportOf_i _ y hP hb'
  simp only at hR
  rw [hR, Net.curOf, solOf_mapElems N _ hk]
  have hg : N.get? b.id = some b := get?_of_mem N hids hb
  cases hc : idxOf? b.id cvals.keys with
  | some k =>
    have hkl : k < cvals.length := by have := idxOf?_lt hc; simpa [ValDict.keys] using this
    have hfe : sampleElem cvals lvals (ssSources N lvals) u xdot b
        = .thevenin 0 (cvals.vals.getD k 0 * xdot.getD k 0) := by unfold sampleElem; rw [hc]
    refine ⟨Mx.vecScale (cvals.vals.getD k 0) (mats.A.getD k []), Mx.vecScale (cvals.vals.getD k 0) (mats.B.getD k []), ?_, ?_, ?_⟩
    · simp only [NSSM.cRowCurrent, hc]
    · simp only [NSSM.dRowCurrent, hc]
    · simp only [hfe, Elem.isIdealVS, Elem.isIdealCS, Elem.Ival, decide_true, Bool.false_eq_true, if_false, if_true]
      rw [rows_dotL_vecScale, rows_dotL_vecScale, ← hxd,
        rows_getD_vecAdd_matVec _ _ _ _ _ (by rw [hA.1]; omega) (by rw [hB.1]; omega)]
      ring
  | none =>
    cases hv : idxOf? b.id N.vsIds with
    | some k =>
      have hkv : k < N.vsIds.length := idxOf?_lt hv
      have hvs : b.e.isIdealVS = true := (id_mem_vsIds_iff N hids b hb).mp (idxOf?_some_mem hv)
      have hfv : (sampleElem cvals lvals (ssSources N lvals) u xdot b).isIdealVS = true := by
        rw [(hk b hb).1]; exact hvs
      refine ⟨mats.C.getD (k + N.nN) [], mats.D.getD (k + N.nN) [], ?_, ?_, ?_⟩
      · simp only [NSSM.cRowCurrent, hc, hv]
      · simp only [NSSM.dRowCurrent, hc, hv]
      · simp only [hfv, if_true, Net.solOf, hv, Option.getD_some]
        rw [← hy, rows_getD_vecAdd_matVec _ _ _ _ _ (by rw [hC.1]; unfold Net.nY Net.nV Net.nN; omega)
          (by rw [hD.1]; unfold Net.nY Net.nV Net.nN; omega)]
        simp only [Net.nN, Nat.add_comm]
    | none =>
      have hnv : b.id ∉ N.vsIds := rows_idxOf?_none_of_not_mem' hv
      have hnvs : b.e.isIdealVS = false := by
        cases hh : b.e.isIdealVS with
        | false => rfl
        | true => exact absurd ((id_mem_vsIds_iff N hids b hb).mpr hh) hnv
      have hnl : idxOf? b.id lvals.keys = none :=
        idxOf?_none_of_not_mem fun hm' => hnv (h.indKeys _ hm')
      have hfe : sampleElem cvals lvals (ssSources N lvals) u xdot b = setSource (ssSources N lvals) u b := by
        unfold sampleElem; rw [hc, hnl]
      have hfv : (setSource (ssSources N lvals) u b).isIdealVS = false := by
        rw [(setSource_keeps (ssSources N lvals) u b).1]; exact hnvs
      by_cases hcs : b.id ∈ N.csIds
      · obtain ⟨k, hkc, hklt, _⟩ := idxOf?_of_mem hcs
        obtain ⟨I, hI⟩ := cs_form ((id_mem_csIds_iff N hids b hb).mp hcs) (h.notLossy b hb)
        have hsrc : idxOf? b.id (ssSources N lvals) = some k := by
          unfold ssSources; rw [idxOf?_append_left _ hcs]; exact hkc
        have hset : setSource (ssSources N lvals) u b = .thevenin 0 (u.getD k 0) := by
          unfold setSource; rw [hsrc, hI]
        have hkn : k < ssNInputs N lvals := by
          rw [sources_length]; unfold ssSources; rw [List.length_append]; omega
        have hcont : N.csIds.contains b.id = true := by simpa using hcs
        refine ⟨Mx.zeroVec (⟨mats, N, cvals, lvals⟩ : NSSM L K).nStates,
          (List.range (ssNInputs N lvals)).map fun t => if t = k then (1 : K) else 0, ?_, ?_, ?_⟩
        · simp only [NSSM.cRowCurrent, hc, hv, hcont, if_true]
        · simp only [NSSM.dRowCurrent, hc, hv, hkc, NSSM.nInputs, hkn, if_true]
        · rw [rows_dotL_zeroVec_left, rows_dotL_unit _ _ hkn u hu]
          simp only [hfe, hset, Elem.isIdealVS, Elem.isIdealCS, Elem.Ival, decide_true, Bool.false_eq_true,
            if_false, if_true]
          ring
      · have hnc : idxOf? b.id N.csIds = none := idxOf?_none_of_not_mem hcs
        have hcont : N.csIds.contains b.id = false := by simpa using hcs
        have hncs : b.e.isCS = false := by
          cases hh : b.e.isCS with
          | false => rfl
          | true => exact absurd ((id_mem_csIds_iff N hids b hb).mpr hh) hcs
        have hsrc : idxOf? b.id (ssSources N lvals) = none := by
          apply idxOf?_none_of_not_mem
          unfold ssSources
          intro hm'
          rcases List.mem_append.mp hm' with h1 | h1
          · exact hcs h1
          · exact hnv (List.mem_filter.mp h1).1
        have hset : setSource (ssSources N lvals) u b = b.e := by
          unfold setSource; rw [hsrc]
        obtain ⟨p1, q1, hp1, hq1, lp1, lq1, e1⟩ := rows_potential hm x u b.n1 (n1_mem_labels N hb)
        obtain ⟨p2, q2, hp2, hq2, lp2, lq2, e2⟩ := rows_potential hm x u b.n2 (n2_mem_labels N hb)
        rw [hy] at e1 e2
        have hvof : (N.mapElems (sampleElem cvals lvals (ssSources N lvals) u xdot)).vOf (N.solOf y)
              { b with e := sampleElem cvals lvals (ssSources N lvals) u xdot b }
            = (dotL p1 x + dotL q1 u) - (dotL p2 x + dotL q2 u) := by
          rw [e1, e2]; rfl
        refine ⟨divByZ b.e (Mx.vecSub p1 p2), divByZ b.e (Mx.vecSub q1 q2), ?_, ?_, ?_⟩
        · simp only [NSSM.cRowCurrent, hc, hv, hcont, Bool.false_eq_true, if_false, hg, hp1, hp2]
          rfl
        · simp only [NSSM.dRowCurrent, hc, hv, hnc, hg, hq1, hq2]
          rfl
        · rw [hvof]
          simp only [hfe, hset]
          have s1 := rows_dotL_vecSub p1 p2 x (lp1.trans lp2.symm)
          have s2 := rows_dotL_vecSub q1 q2 u (lq1.trans lq2.symm)
          cases he : b.e with
          | norton Z V =>
            have hz : Z ≠ 0 := by simpa [he, Elem.isIdealVS] using hnvs
            have hcs0 : (Elem.norton Z V).isCS = false := he ▸ hncs
            simp only [divByZ, rows_dotL_map_div, s1, s2, Elem.isIdealVS, Elem.isIdealCS, hcs0, Elem.Zfin,
              hz, decide_false, Bool.false_eq_true, if_false]
            ring
          | thevenin Y I =>
            have hcs0 : (Elem.thevenin Y I).isCS = false := he ▸ hncs
            have hI : I = 0 := by
              by_contra hne
              simp [Elem.isCS, Elem.Ival, hne] at hcs0
            by_cases hY : Y = 0
            · simp only [divByZ, hY, if_true, rows_dotL_map_zero, Elem.isIdealVS, Elem.isIdealCS, Elem.Ival,
                decide_true, Bool.false_eq_true, if_false, hI]
              ring
            · simp only [divByZ, hY, if_false, rows_dotL_map_div, s1, s2, Elem.isIdealVS, Elem.isIdealCS, hcs0,
                Elem.Zfin, decide_false, Bool.false_eq_true]
              ring

/-! ### the list form and the `Fin`-vector form of `C x + D u` -/

/-- the shapes of the four matrices with the state dimension written as `ssNStates` (as the `Fin`-indexed
theorems `C10_transfer`, `C12_sample_circuit` write it) -/
theorem rows_dims {N : Net L K} {cvals lvals : ValDict K} {Ainv S : List (List K)} {mats : SSMats K}
    (hm : stateSpaceMatrices N cvals lvals Ainv S = .ok mats) :
    IsShape mats.A (ssNStates N cvals lvals) (ssNStates N cvals lvals)
    ∧ IsShape mats.B (ssNStates N cvals lvals) (ssNInputs N lvals)
    ∧ IsShape mats.C N.nY (ssNStates N cvals lvals) ∧ IsShape mats.D N.nY (ssNInputs N lvals) := by
  obtain ⟨Delta, _, _, rfl⟩ := stateSpaceMatrices_ok hm
  simp only [ssCore]
  exact ⟨isShape_ofFn _ _ _, isShape_ofFn _ _ _, isShape_ofFn _ _ _, isShape_ofFn _ _ _⟩

open Matrix in
theorem rows_vecAdd_matVec_ofFn {r a c : Nat} {M1 M2 : List (List K)} (h1 : IsShape M1 r a) (h2 : IsShape M2 r c)
    (x : Fin a → K) (u : Fin c → K) :
    Mx.vecAdd (matVec M1 (List.ofFn x)) (matVec M2 (List.ofFn u))
      = List.ofFn (toM r a M1 *ᵥ x + toM r c M2 *ᵥ u) := by
  rw [matVec_eq_ofFn h1 (by simp), matVec_eq_ofFn h2 (by simp), vecOf_ofFn, vecOf_ofFn, vecAdd_ofFn]

end main

end CC
