/-
  CC.Proofs.GQField — the driver's Gaussian rationals `CC.GQ` (CC/Num.lean) form a field
  with exactly the operations the native driver executes.  Hence every theorem stated for
  an arbitrary `Field K` applies verbatim to what the driver computes.
-/
import CC.Num
import Mathlib.Algebra.Field.Defs
import Mathlib.Algebra.Order.Field.Rat
import Mathlib.Tactic.Ring
import Mathlib.Tactic.FieldSimp
import Mathlib.Tactic.Linarith
import Mathlib.Tactic.Positivity

namespace CC.GQ

@[ext] theorem ext' {a b : GQ} (h1 : a.re = b.re) (h2 : a.im = b.im) : a = b := by
  cases a; cases b; simp_all

@[simp] theorem re_zero : (0 : GQ).re = 0 := rfl
@[simp] theorem im_zero : (0 : GQ).im = 0 := rfl
@[simp] theorem re_one : (1 : GQ).re = 1 := rfl
@[simp] theorem im_one : (1 : GQ).im = 0 := rfl
@[simp] theorem re_add (a b : GQ) : (a + b).re = a.re + b.re := rfl
@[simp] theorem im_add (a b : GQ) : (a + b).im = a.im + b.im := rfl
@[simp] theorem re_neg (a : GQ) : (-a).re = -a.re := rfl
@[simp] theorem im_neg (a : GQ) : (-a).im = -a.im := rfl
@[simp] theorem re_sub (a b : GQ) : (a - b).re = a.re - b.re := rfl
@[simp] theorem im_sub (a b : GQ) : (a - b).im = a.im - b.im := rfl
@[simp] theorem re_mul (a b : GQ) : (a * b).re = a.re * b.re - a.im * b.im := rfl
@[simp] theorem im_mul (a b : GQ) : (a * b).im = a.re * b.im + a.im * b.re := rfl
@[simp] theorem re_inv (a : GQ) : (a⁻¹).re = a.re / a.normSq := rfl
@[simp] theorem im_inv (a : GQ) : (a⁻¹).im = -a.im / a.normSq := rfl

theorem normSq_pos {a : GQ} (h : a ≠ 0) : 0 < a.normSq := by
  unfold normSq
  by_contra hn
  have h0 : a.re * a.re + a.im * a.im ≤ 0 := not_lt.mp hn
  have hr : a.re = 0 := by nlinarith [mul_self_nonneg a.re, mul_self_nonneg a.im]
  have hi : a.im = 0 := by nlinarith [mul_self_nonneg a.re, mul_self_nonneg a.im]
  exact h (ext' hr hi)

instance : CommRing GQ where
  add_assoc a b c := by ext <;> simp <;> ring
  zero_add a := by ext <;> simp
  add_zero a := by ext <;> simp
  add_comm a b := by ext <;> simp <;> ring
  neg_add_cancel a := by ext <;> simp
  sub_eq_add_neg a b := by ext <;> simp <;> ring
  mul_assoc a b c := by ext <;> simp <;> ring
  one_mul a := by ext <;> simp
  mul_one a := by ext <;> simp
  left_distrib a b c := by ext <;> simp <;> ring
  right_distrib a b c := by ext <;> simp <;> ring
  mul_comm a b := by ext <;> simp <;> ring
  zero_mul a := by ext <;> simp
  mul_zero a := by ext <;> simp
  nsmul := nsmulRec
  zsmul := zsmulRec

instance : Field GQ where
  exists_pair_ne := ⟨0, 1, by intro h; have := congrArg GQ.re h; simp at this⟩
  mul_inv_cancel a h := by
    have hp := normSq_pos h
    have hne : a.normSq ≠ 0 := ne_of_gt hp
    ext
    · simp only [re_mul, re_inv, im_inv, re_one]
      field_simp
      unfold normSq; ring
    · simp only [im_mul, re_inv, im_inv, im_one]
      field_simp
      ring
  inv_zero := by ext <;> simp [normSq]
  div_eq_mul_inv a b := rfl
  nnqsmul := _
  qsmul := _

/-- the field structure uses the very operations of CC/Num.lean -/
example (a b : GQ) : a / b = a * b⁻¹ := rfl

end CC.GQ
