/-
  CC.Proofs.PortGen — the generated model of `open_circuit_impedance` / `element_impedance`
  (CC/Gen/Port.lean, translated from the AST of node_analysis.py on every run) equals the
  hand-written model CC/Model/Port.lean, step by step.
-/
import CC.Gen.Port
import CC.Model.Port
import CC.Proofs.TransformersGen
import CC.Proofs.PortImpl
import CC.Proofs.Bridge
set_option linter.unusedSectionVars false
set_option linter.unusedSimpArgs false

namespace CC.PortGen
open CC CC.Gen.Core CC.Gen.Transformers CC.Py

variable {L K : Type} [DecidableEq L] [LabelOrd L] [Field K] [DecidableEq K]

/-! ### idioms of CC/Model/PortBase.lean against the helper functions of CC/Model/Port.lean -/

theorem maskSelect_eq_selectL {α : Type} (ks : List Bool) (xs : List α) :
    Py.maskSelect ks xs = selectL ks xs := by
  induction ks generalizing xs with
  | nil => cases xs <;> rfl
  | cons k ks ih =>
    cases xs with
    | nil => cases k <;> rfl
    | cons x xs => cases k <;> simp [Py.maskSelect, selectL, ih]

theorem countNonzero_take (keep : List Bool) (i : Nat) :
    Py.countNonzero (Py.sliceTo keep i) = countBefore keep i := rfl

theorem selectL_length {α : Type} (ks : List Bool) (xs : List α) (h : ks.length = xs.length) :
    (selectL ks xs).length = Py.countNonzero ks := by
  induction ks generalizing xs with
  | nil => cases xs <;> rfl
  | cons k ks ih =>
    cases xs with
    | nil => simp at h
    | cons x xs =>
      have h' : ks.length = xs.length := by simpa using h
      cases k <;> simp [selectL, Py.countNonzero, ih xs h']

theorem keepMask_length (n : Nat) (A : List (List K)) : (keepMask n A).length = n := by
  simp [keepMask]

theorem subMatrix_length (keep : List Bool) (A : List (List K)) (h : keep.length = A.length) :
    (subMatrix keep A).length = Py.countNonzero keep := by
  simp [subMatrix, selectL_length keep A h]

theorem anyAxis0_eq_keepMask (r c : Nat) (A : List (List K)) :
    Py.Mat.anyAxis0 (⟨r, c, A⟩ : Py.Mat K) = keepMask c A := by
  simp [Py.Mat.anyAxis0, Py.Mat.col, Py.vecAny, keepMask, List.any_map, Function.comp_def]

theorem not_vecAny_col (r c : Nat) (A : List (List K)) (j : Nat) :
    (!(Py.vecAny (Py.Mat.col (⟨r, c, A⟩ : Py.Mat K) j))) = colZero A j := by
  simp only [Py.Mat.col, Py.vecAny, colZero, List.any_map, Function.comp_def]
  rw [Bool.eq_iff_iff]
  simp [List.all_eq_true, List.any_eq_true]

theorem ix_eq_subMatrix (r c : Nat) (A : List (List K)) (keep : List Bool) :
    Py.Mat.ix (⟨r, c, A⟩ : Py.Mat K) keep keep
      = ⟨Py.countNonzero keep, Py.countNonzero keep, subMatrix keep A⟩ := by
  simp only [Py.Mat.ix, subMatrix, maskSelect_eq_selectL]
  congr 1
  apply List.map_congr_left
  intro x _
  exact maskSelect_eq_selectL keep x

theorem set_zeros_eq_unitVec (m i : Nat) :
    (Py.zerosVec m : List K).set i 1 = unitVec m i := by
  apply List.ext_getElem
  · simp [Py.zerosVec, unitVec]
  · intro k h1 h2
    simp only [Py.zerosVec, unitVec, List.getElem_set, List.getElem_replicate, List.getElem_map,
      List.getElem_range]
    by_cases hk : i = k
    · simp [hk]
    · have : ¬ k = i := fun h => hk h.symm
      simp [hk, this]

theorem anyL_between (N : Net L K) (a b : L) :
    Py.anyL ((Network.branches_between N a b).map fun br => is_ideal_voltage_source br.e)
      = (N.branchesBetween a b).any (·.e.isIdealVS) := by
  rw [gen_branches_between]
  simp only [Py.anyL, Net.branchesBetween, List.any_map, Function.comp_def, gen_isIdealVS]

/-! ### transformers.py: the two models of `switch_ground_node` / `remove_element` -/

theorem switchGround_eq (N : Net L K) (g : L) : switchGround N g = N.switchGround g := by
  unfold switchGround Net.mk? Net.switchGround
  cases h : (⟨N.branches, g⟩ : Net L K).check with
  | error e => simp [h, bind, Except.bind]
  | ok u => simp [h, bind, Except.bind, pure, Except.pure]

theorem removeFirst_eq_erase {α : Type} [DecidableEq α] (x : α) (l : List α) :
    removeFirst x l = l.erase x := by
  induction l with
  | nil => rfl
  | cons a l ih =>
    by_cases h : a = x
    · simp [removeFirst, h]
    · simp [removeFirst, h, List.erase_cons_tail, ih]

theorem removeElement_eq (N : Net L K) (id : String) : removeElement N id = N.removeElement id := by
  unfold removeElement Net.removeElement Net.mk?
  cases hg : N.get? id with
  | none => rfl
  | some b =>
    simp only [removeFirst_eq_erase]
    cases h : (⟨N.branches.erase b, N.zero⟩ : Net L K).check with
    | error e => simp [h, bind, Except.bind]
    | ok u => simp [h, bind, Except.bind, pure, Except.pure]

theorem switchGround_ids {N N' : Net L K} {g : L} (h : N.switchGround g = .ok N') : N'.ids.Nodup :=
  ((Net.check_ok_iff N').mp (switchGround_ok h).2).2

/-! ### the nested helper `isolated` -/

theorem gen_isolated [LawfulLabelOrd L] (N : Net L K) (node ground : L) :
    Gen.Port.isolated N node ground = N.isolated node ground := by
  unfold Gen.Port.isolated Net.isolated
  rw [gen_switchGround, switchGround_eq]
  cases h : N.switchGround ground with
  | error e => rfl
  | ok Ng =>
    have hids := switchGround_ids h
    simp only [bind, Except.bind, Py.LabelMapping.getitem, gen_nodes]
    cases hi : idxOf? node Ng.nodes with
    | none => rfl
    | some i =>
      simp only [gen_mnaA Ng hids, not_vecAny_col, pure, Except.pure]

/-! ### `open_circuit_impedance` -/

/-- the Python value the hand model's result stands for: a number, or `np.inf`
(`Err.other "Infinite"` in the hand model, whose values are field elements) -/
def portValue : Except Err K → Except Err (Py.XVal K)
  | .ok z => .ok (.fin z)
  | .error (.other "Infinite") => .ok .inf
  | .error e => .error e

/-- the solver of the hand model (on the list of rows) behind a solver on arrays with a shape:
the arrays `open_circuit_impedance` hands over are square -/
def rowsSolver (solve : Py.Mat K → List K → Option (List K)) : List (List K) → List K → Option (List K) :=
  fun A e => solve ⟨A.length, A.length, A⟩ e

/-- lines 95-102 on the re-referenced network -/
theorem gen_port_tail [LawfulLabelOrd L] (solve : Py.Mat K → List K → Option (List K)) (N' : Net L K)
    (hids : N'.ids.Nodup) (a : L) :
    (do
      let r5 ← nodal_analysis_coefficient_matrix N'
      let k6 ← (alphabetic_node_mapper N').getitem a
      let unit_current ← Py.setItem (Py.zerosVec (Py.Mat.ix r5 (Py.Mat.anyAxis0 r5) (Py.Mat.anyAxis0 r5)).nrows)
        (Py.countNonzero (Py.sliceTo (Py.Mat.anyAxis0 r5) k6)) 1
      let x7 ← Py.linalgSolve solve (Py.Mat.ix r5 (Py.Mat.anyAxis0 r5) (Py.Mat.anyAxis0 r5)) unit_current
      let z8 ← Py.getItem x7 (Py.countNonzero (Py.sliceTo (Py.Mat.anyAxis0 r5) k6))
      pure (Py.XVal.fin z8) : Except Err (Py.XVal K))
    = portValue (match N'.portSys a with
        | .error e => .error e
        | .ok .early => .ok 0
        | .ok .infinite => .error (.other "Infinite")
        | .ok (.sys _ _ A e i1) =>
          match rowsSolver solve A e with
          | none => .error .singular
          | some x =>
            match x[i1]? with
            | none => .error .keyError
            | some z => .ok z) := by
  have hlen : N'.mnaA.length = N'.nodes.length + N'.vsIds.length := by
    rw [mnaA_length, vsSorted_length N' hids]
  rw [gen_mnaA N' hids]
  unfold Net.portSys
  simp only [bind, Except.bind, Py.LabelMapping.getitem, gen_nodes, anyAxis0_eq_keepMask, ← hlen,
    ix_eq_subMatrix, countNonzero_take]
  cases hi : idxOf? a N'.nodes with
  | none => rfl
  | some i =>
    have hsub := subMatrix_length (keepMask N'.mnaA.length N'.mnaA) N'.mnaA (keepMask_length _ _)
    simp only [Py.setItem, Py.zerosVec, List.length_replicate, ← hsub]
    by_cases hlt : countBefore (keepMask N'.mnaA.length N'.mnaA) i
        < (subMatrix (keepMask N'.mnaA.length N'.mnaA) N'.mnaA).length
    · simp only [hlt, if_true]
      have hu := set_zeros_eq_unitVec (K := K) (subMatrix (keepMask N'.mnaA.length N'.mnaA) N'.mnaA).length
        (countBefore (keepMask N'.mnaA.length N'.mnaA) i)
      simp only [Py.zerosVec] at hu
      simp only [hu, Py.linalgSolve, rowsSolver]
      cases hs : solve ⟨_, _, subMatrix (keepMask N'.mnaA.length N'.mnaA) N'.mnaA⟩
          (unitVec (subMatrix (keepMask N'.mnaA.length N'.mnaA) N'.mnaA).length
            (countBefore (keepMask N'.mnaA.length N'.mnaA) i)) with
      | none => rfl
      | some x =>
        simp only [Py.getItem]
        cases x[countBefore (keepMask N'.mnaA.length N'.mnaA) i]? <;> rfl
    · simp only [hlt, if_false]
      rfl

theorem portValue_error {e : Err} (h : e ≠ .other "Infinite") :
    portValue (K := K) (.error e) = .error e := by
  unfold portValue
  split
  · rename_i heq; cases heq
  · rename_i heq; cases heq; exact absurd rfl h
  · rename_i heq; cases heq; rfl

theorem check_err {N : Net L K} {e : Err} (h : N.check = .error e) : e ≠ .other "Infinite" ∧ e ≠ .singular := by
  unfold Net.check at h
  split at h
  · cases h; exact ⟨nofun, nofun⟩
  · split at h
    · cases h; exact ⟨nofun, nofun⟩
    · cases h

theorem switchGround_err {N : Net L K} {g : L} {e : Err} (h : N.switchGround g = .error e) :
    e ≠ .other "Infinite" ∧ e ≠ .singular := by
  unfold Net.switchGround at h
  cases hc : ({ N with zero := g } : Net L K).check with
  | error e' =>
    simp only [hc, bind, Except.bind] at h
    cases h
    exact check_err hc
  | ok u => simp [hc, bind, Except.bind, pure, Except.pure] at h

theorem isolated_err {N : Net L K} {a g : L} {e : Err} (h : N.isolated a g = .error e) :
    e ≠ .other "Infinite" := by
  unfold Net.isolated at h
  cases hs : N.switchGround g with
  | error e' =>
    simp only [hs] at h
    cases h
    exact (switchGround_err hs).1
  | ok Ng =>
    simp only [hs] at h
    cases hi : idxOf? a Ng.nodes with
    | none => simp only [hi] at h; cases h; intro h; cases h
    | some i => simp [hi] at h

/-- `open_circuit_impedance`, whole function -/
theorem gen_open_circuit_impedance [LawfulLabelOrd L] (solve : Py.Mat K → List K → Option (List K))
    (N : Net L K) (n1 n2 : L) :
    Gen.Port.open_circuit_impedance solve N n1 n2
      = portValue (N.openCircuitImpedance (rowsSolver solve) n1 n2) := by
  unfold Gen.Port.open_circuit_impedance Net.openCircuitImpedance Net.portPre
  by_cases h12 : n1 = n2
  · simp only [h12, if_true]; rfl
  · simp only [h12, if_false, anyL_between]
    cases hany : (N.branchesBetween n1 n2).any (·.e.isIdealVS) with
    | true => simp only [if_true]; rfl
    | false =>
      have e1 : (if n1 = N.zero then (n2, n1) else (n1, n2)).1 = if n1 = N.zero then n2 else n1 := by
        split <;> rfl
      have e2 : (if n1 = N.zero then (n2, n1) else (n1, n2)).2 = if n1 = N.zero then n1 else n2 := by
        split <;> rfl
      simp only [Bool.false_eq_true, if_false, gen_is_zero_node, decide_eq_true_eq, gen_isolated, e1, e2]
      generalize (if n1 = N.zero then n2 else n1) = a
      generalize (if n1 = N.zero then n1 else n2) = b
      cases h1 : N.isolated a b with
      | error e => exact (portValue_error (isolated_err h1)).symm
      | ok r1 =>
        cases r1 with
        | true => rfl
        | false =>
          simp only [bind, Except.bind, Bool.false_eq_true, if_false]
          cases h2 : N.isolated b a with
          | error e => exact (portValue_error (isolated_err h2)).symm
          | ok r2 =>
            cases r2 with
            | true => rfl
            | false =>
              simp only [Bool.false_eq_true, if_false, gen_switchGround, switchGround_eq]
              cases h3 : N.switchGround b with
              | error e => exact (portValue_error (switchGround_err h3).1).symm
              | ok N' => exact gen_port_tail solve N' (switchGround_ids h3) a

/-! ### `element_impedance` -/

theorem removeElement_err {N : Net L K} {id : String} {e : Err} (h : N.removeElement id = .error e) :
    e ≠ .other "Infinite" := by
  unfold Net.removeElement at h
  cases hg : N.get? id with
  | none => simp only [hg] at h; cases h; nofun
  | some b =>
    simp only [hg] at h
    cases hc : ({ N with branches := N.branches.erase b } : Net L K).check with
    | error e' =>
      simp only [hc, bind, Except.bind] at h
      cases h
      exact (check_err hc).1
    | ok u => simp [hc, bind, Except.bind, pure, Except.pure] at h

theorem gen_element_impedance [LawfulLabelOrd L] (solve : Py.Mat K → List K → Option (List K))
    (N : Net L K) (id : String) :
    Gen.Port.element_impedance solve N id = portValue (N.elementImpedance (rowsSolver solve) id) := by
  unfold Gen.Port.element_impedance Net.elementImpedance
  rw [gen_removeElement, removeElement_eq, gen_getitem]
  cases hr : N.removeElement id with
  | error e => exact (portValue_error (removeElement_err hr)).symm
  | ok N' =>
    cases hg : N.get? id with
    | none => rfl
    | some b =>
      simp only [bind, Except.bind, gen_open_circuit_impedance]

/-! ### nothing is lost in `portValue` -/

/-- back from the Python value to the hand model's result type -/
def ofPortValue : Except Err (Py.XVal K) → Except Err K
  | .ok (.fin z) => .ok z
  | .ok .inf => .error (.other "Infinite")
  | .ok .nan => .error (.other "NaN")
  | .error e => .error e

theorem ofPortValue_portValue (r : Except Err K) : ofPortValue (portValue r) = r := by
  cases r with
  | ok z => rfl
  | error e =>
    by_cases h : e = .other "Infinite"
    · subst h; rfl
    · rw [portValue_error h]; rfl

theorem rowsSolver_rows (solve : List (List K) → List K → Option (List K)) :
    rowsSolver (fun M b => solve M.rows b) = solve := rfl

end CC.PortGen
