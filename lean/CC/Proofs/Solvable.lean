/-
  CC.Proofs.Solvable — the matrix of a well-posed network has a trivial kernel
  (non-singularity in kernel form): the source-free network has the same matrix and a zero
  right-hand side, and its only solution is zero.
-/
import CC.Properties.C01
set_option linter.unusedSectionVars false

namespace CC
variable {L K : Type} [DecidableEq L] [LabelOrd L] [Field K] [DecidableEq K]

/-- the branch with its source value removed -/
def Branch.zs (b : Branch L K) : Branch L K := { b with e := b.e.zeroSources }

theorem zeroSources_branches (N : Net L K) : N.zeroSources.branches = N.branches.map Branch.zs := rfl

@[simp] theorem zs_isIdealVS (e : Elem K) : e.zeroSources.isIdealVS = e.isIdealVS := by
  cases e <;> rfl
@[simp] theorem zs_Yfin (e : Elem K) : e.zeroSources.Yfin = e.Yfin := by cases e <;> rfl
@[simp] theorem zs_Ival (e : Elem K) : e.zeroSources.Ival = 0 := by
  cases e with
  | norton Z V => by_cases h : Z = 0 <;> simp [Elem.zeroSources, Elem.Ival, h]
  | thevenin Y I => rfl
@[simp] theorem zs_Vval (e : Elem K) : e.zeroSources.Vval = 0 := by
  cases e with
  | norton Z V => rfl
  | thevenin Y I => by_cases h : Y = 0 <;> simp [Elem.zeroSources, Elem.Vval, h]
theorem zs_idem (e : Elem K) : e.zeroSources.zeroSources = e.zeroSources := by cases e <;> rfl

theorem zs_nodeLabels (N : Net L K) : N.zeroSources.nodeLabels = N.nodeLabels := by
  unfold Net.nodeLabels
  simp [zeroSources_branches, List.map_map, Function.comp_def, Branch.zs, Net.zeroSources]

theorem zs_nodes (N : Net L K) : N.zeroSources.nodes = N.nodes := by
  unfold Net.nodes; rw [zs_nodeLabels]; rfl

theorem zs_ids (N : Net L K) : N.zeroSources.ids = N.ids := by
  simp [Net.ids, zeroSources_branches, List.map_map, Function.comp_def, Branch.zs]

theorem zs_wf (N : Net L K) (wf : N.WF) : N.zeroSources.WF := by
  refine ⟨by rw [zs_ids]; exact wf.ids_nodup, by rw [zs_nodeLabels]; exact wf.zero_mem, ?_⟩
  intro b' hb'
  rw [zeroSources_branches] at hb'
  obtain ⟨b, hb, rfl⟩ := List.mem_map.mp hb'
  exact wf.no_self_loop b hb

theorem zs_vs (N : Net L K) : N.zeroSources.vs = N.vs.map Branch.zs := by
  unfold Net.vs
  rw [zeroSources_branches, List.filter_map]
  congr 1
  apply List.filter_congr; intro b _; simp [Branch.zs]
theorem zs_nonVS (N : Net L K) : N.zeroSources.nonVS = N.nonVS.map Branch.zs := by
  unfold Net.nonVS
  rw [zeroSources_branches, List.filter_map]
  congr 1
  apply List.filter_congr; intro b _; simp [Branch.zs]

theorem zs_vsIds (N : Net L K) : N.zeroSources.vsIds = N.vsIds := by
  unfold Net.vsIds
  rw [zs_vs, List.map_map]; rfl

theorem zs_cs_nil (N : Net L K) : N.zeroSources.cs = [] := by
  unfold Net.cs
  rw [List.filter_eq_nil_iff]
  intro b hb
  rw [zeroSources_branches] at hb
  obtain ⟨c, _, rfl⟩ := List.mem_map.mp hb
  simp [Elem.isCS, Branch.zs]

theorem zs_get? (N : Net L K) (id : String) : N.zeroSources.get? id = (N.get? id).map Branch.zs := by
  unfold Net.get?
  rw [zeroSources_branches, ← List.map_reverse, List.find?_map]
  rfl

theorem zs_byIds (N : Net L K) (ids : List String) :
    N.zeroSources.byIds ids = (N.byIds ids).map Branch.zs := by
  unfold Net.byIds
  rw [List.map_filterMap]
  congr 1
  funext id
  exact zs_get? N id

theorem zs_vsSorted (N : Net L K) : N.zeroSources.vsSorted = N.vsSorted.map Branch.zs := by
  unfold Net.vsSorted; rw [zs_vsIds, zs_byIds]

theorem zs_Yentry (N : Net L K) (i j : L) : N.zeroSources.Yentry i j = N.Yentry i j := by
  unfold Net.Yentry
  rw [zs_nonVS]
  by_cases h : i = j
  · simp only [h, if_true, List.filter_map, List.map_map]
    congr 2
    funext b; simp [Branch.zs]
  · simp only [h, if_false, List.filter_map, List.map_map]
    congr 3
    funext b; simp [Branch.zs]

theorem zs_mnaA (N : Net L K) : N.zeroSources.mnaA = N.mnaA := by
  unfold Net.mnaA
  rw [zs_nodes, zs_vsSorted]
  simp only [List.map_map, zs_Yentry]
  rfl

theorem zs_mnaB (N : Net L K) : N.zeroSources.mnaB = N.mnaB.map fun _ => (0 : K) := by
  unfold Net.mnaB
  rw [zs_nodes, zs_vsSorted]
  have h1 : ∀ n, N.zeroSources.rhsNode n = 0 := by
    intro n
    unfold Net.rhsNode Net.csSorted Net.csIds
    rw [zs_cs_nil]; simp [Net.byIds, sortL]
  simp only [h1, List.map_map, List.map_append]
  congr 1
  apply List.map_congr_left
  intro b _
  simp [Branch.zs]

theorem zs_wellPosed (N : Net L K) (hw : WellPosed N) : WellPosed N.zeroSources := by
  intro R hR
  have e : N.zeroSources.zeroSources = N.zeroSources := by
    unfold Net.zeroSources
    simp [List.map_map, Function.comp_def, zs_idem]
  rw [e] at hR
  have := hw R hR
  constructor
  · intro n hn
    apply this.1 n
    simpa [Net.allLabels, Net.zeroSources, List.map_map, Function.comp_def] using hn
  · intro b' hb'
    rw [zeroSources_branches] at hb'
    obtain ⟨b, hb, rfl⟩ := List.mem_map.mp hb'
    exact this.2 b hb

theorem dotL_zeros_right (r : List K) (n : Nat) : dotL r (List.replicate n (0 : K)) = 0 := by
  unfold dotL
  induction r generalizing n with
  | nil => simp
  | cons a r ih =>
    cases n with
    | zero => simp
    | succ n => simp [List.replicate_succ, ih n]

theorem matVec_zeros (A : List (List K)) (n : Nat) :
    matVec A (List.replicate n (0 : K)) = A.map fun _ => (0 : K) := by
  unfold matVec
  apply List.map_congr_left
  intro r _
  exact dotL_zeros_right r n

end CC

namespace CC
variable {L K : Type} [DecidableEq L] [LabelOrd L] [Field K] [DecidableEq K]

/-- **C01 (non-singularity, kernel form).**  For a well-posed valid network the matrix the
code builds has a trivial kernel: the only vector it maps to zero is the zero vector.  The
matrix is square, so in exact arithmetic the system always has its (unique) solution and
the code never takes the singular-matrix fallback branch. -/
theorem C01_solvable (N : Net L K) (wf : N.WF) (hw : WellPosed N) (x : List K)
    (hx : x.length = N.nodes.length + N.vsIds.length)
    (h : matVec N.mnaA x = N.mnaB.map fun _ => (0 : K)) :
    x = List.replicate x.length (0 : K) := by
  have wfz := zs_wf N wf
  have hwz := zs_wellPosed N hw
  have hlen : x.length = N.zeroSources.nodes.length + N.zeroSources.vsIds.length := by
    rw [zs_nodes, zs_vsIds]; exact hx
  have h1 : matVec N.zeroSources.mnaA x = N.zeroSources.mnaB := by
    rw [zs_mnaA, zs_mnaB]; exact h
  have h2 : matVec N.zeroSources.mnaA (List.replicate x.length (0 : K)) = N.zeroSources.mnaB := by
    rw [matVec_zeros, zs_mnaA, zs_mnaB]
    have : N.mnaA.length = N.mnaB.length := by
      simp [Net.mnaA, Net.mnaB]
    apply List.ext_getElem
    · simp [this]
    · intro i h1 h2; simp
  exact C01_matrix_unique N.zeroSources wfz hwz x _ hlen (by simp [hlen]) h1 h2

/-- the matrix is square: `nodes + voltage sources` rows, each of that length -/
theorem C01_square (N : Net L K) :
    N.mnaA.length = N.nodes.length + N.vsSorted.length ∧
    ∀ r ∈ N.mnaA, r.length = N.nodes.length + N.vsSorted.length := by
  constructor
  · simp [Net.mnaA]
  · intro r hr
    simp only [Net.mnaA, List.mem_append, List.mem_map] at hr
    rcases hr with ⟨i, _, rfl⟩ | ⟨b, _, rfl⟩ <;> simp

end CC
