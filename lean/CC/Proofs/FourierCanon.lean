/-
  CC.Proofs.FourierCanon — coefficients of the canonical pieces: pure harmonics
  (cos / sin / constant), a linear ramp over one period, and a function that is
  piecewise linear on the two half periods (strict `<` at `T/2`, as in the code).
-/
import CC.Proofs.FourierInt

namespace CC.Fourier
open Complex Real intervalIntegral MeasureTheory

/-- `∫₀ᵀ exp(−2πi·m·t/T) dt = T·[m = 0]` -/
theorem integral_cexp_cexpo (T : ℝ) (hT : T ≠ 0) (m : ℤ) :
    ∫ t in (0:ℝ)..T, cexp (cexpo T m * t) = if m = 0 then (T : ℂ) else 0 := by
  split_ifs with hm
  · subst hm
    simp [cexpo]
  · rw [integral_exp_mul_complex (cexpo_ne_zero T hT m hm), cexp_cexpo_period T hT m]
    simp

theorem cexpo_add (T : ℝ) (m k : ℤ) : cexpo T (m + k) = cexpo T m + cexpo T k := by
  unfold cexpo; push_cast; ring

/-- coefficient of `A·cos(2π/T·t + φ) + off` -/
theorem coeff_cos (T A φ off : ℝ) (hT : T ≠ 0) (n : ℤ) :
    coeff (fun t => A * Real.cos (2 * π / T * t + φ) + off) T n
      = (A / 2 : ℂ) * cexp (φ * I) * (if n - 1 = 0 then 1 else 0)
        + (A / 2 : ℂ) * cexp (-φ * I) * (if n + 1 = 0 then 1 else 0)
        + (off : ℂ) * (if n = 0 then 1 else 0) := by
  have hT' : (T : ℂ) ≠ 0 := by exact_mod_cast hT
  rw [coeff_eq]
  have hpt : ∀ t : ℝ, ((A * Real.cos (2 * π / T * t + φ) + off : ℝ) : ℂ) * cexp (cexpo T n * t)
      = (A / 2 : ℂ) * cexp (φ * I) * cexp (cexpo T (n - 1) * t)
        + (A / 2 : ℂ) * cexp (-φ * I) * cexp (cexpo T (n + 1) * t)
        + (off : ℂ) * cexp (cexpo T n * t) := by
    intro t
    have e1 : cexp (((2 * π / T * t + φ : ℝ) : ℂ) * I) * cexp (cexpo T n * t)
        = cexp (φ * I) * cexp (cexpo T (n - 1) * t) := by
      rw [← Complex.exp_add, ← Complex.exp_add]; congr 1
      unfold cexpo; push_cast; field_simp; ring
    have e2 : cexp (-((2 * π / T * t + φ : ℝ) : ℂ) * I) * cexp (cexpo T n * t)
        = cexp (-φ * I) * cexp (cexpo T (n + 1) * t) := by
      rw [← Complex.exp_add, ← Complex.exp_add]; congr 1
      unfold cexpo; push_cast; field_simp; ring
    rw [Complex.ofReal_add, Complex.ofReal_mul, Complex.ofReal_cos, Complex.cos]
    calc ((A : ℂ) * ((cexp (((2 * π / T * t + φ : ℝ) : ℂ) * I) + cexp (-((2 * π / T * t + φ : ℝ) : ℂ) * I)) / 2) + off)
          * cexp (cexpo T n * t)
        = (A / 2 : ℂ) * (cexp (((2 * π / T * t + φ : ℝ) : ℂ) * I) * cexp (cexpo T n * t))
          + (A / 2 : ℂ) * (cexp (-((2 * π / T * t + φ : ℝ) : ℂ) * I) * cexp (cexpo T n * t))
          + (off : ℂ) * cexp (cexpo T n * t) := by ring
      _ = _ := by rw [e1, e2]; ring
  simp_rw [hpt]
  have hi : ∀ (k : ℂ) (m : ℤ), IntervalIntegrable (fun t : ℝ => k * cexp (cexpo T m * t)) volume 0 T := by
    intro k m; apply Continuous.intervalIntegrable; fun_prop
  rw [intervalIntegral.integral_add ((hi _ _).add (hi _ _)) (hi _ _),
    intervalIntegral.integral_add (hi _ _) (hi _ _)]
  simp only [intervalIntegral.integral_const_mul, integral_cexp_cexpo T hT]
  split_ifs <;> field_simp <;> ring

/-- the ramp `a + b·u` -/
def linFun (a b : ℝ) : ℝ → ℝ := fun u => a + b * u

/-- coefficient of the ramp `a + b·u` over one period -/
theorem coeff_lin (T a b : ℝ) (hT : T ≠ 0) (n : ℤ) (hn : n ≠ 0) :
    coeff (linFun a b) T n = (b : ℂ) / cexpo T n := by
  have hT' : (T : ℂ) ≠ 0 := by exact_mod_cast hT
  have hc := cexpo_ne_zero T hT n hn
  rw [coeff_eq]
  unfold linFun
  have : ∀ u : ℝ, ((a + b * u : ℝ) : ℂ) * cexp (cexpo T n * u)
      = ((a : ℂ) + (b : ℂ) * u) * cexp (cexpo T n * u) := by intro u; push_cast; ring
  simp_rw [this]
  rw [integral_linear_mul_cexp _ hc, cexp_cexpo_period T hT n]
  simp only [Complex.ofReal_zero, mul_zero, Complex.exp_zero]
  field_simp
  ring

/-- `∫ₐᵇ (α + βu) du` -/
theorem integral_linear (α β : ℂ) (a b : ℝ) :
    ∫ u in a..b, (α + β * (u : ℂ)) = (α * b + β * b ^ 2 / 2) - (α * a + β * a ^ 2 / 2) := by
  have hderiv : ∀ x ∈ Set.uIcc a b,
      HasDerivAt (fun u : ℝ => α * (u : ℂ) + β * (u : ℂ) ^ 2 / 2) (α + β * x) x := by
    intro x _
    have hx : HasDerivAt (fun u : ℝ => (u : ℂ)) 1 x := by
      simpa using (hasDerivAt_id x).ofReal_comp
    have h3 : HasDerivAt (fun u : ℝ => α * (u : ℂ) + β * (u : ℂ) ^ 2 / 2)
        (α * 1 + β * (2 * (x : ℂ) ^ (2 - 1) * 1) / 2) x :=
      (hx.const_mul α).add (((hx.pow 2).const_mul β).div_const 2)
    refine h3.congr_deriv ?_
    simp; ring
  rw [integral_eq_sub_of_hasDerivAt hderiv]
  apply Continuous.intervalIntegrable
  fun_prop

theorem coeff_lin_zero (T a b : ℝ) (hT : T ≠ 0) :
    coeff (linFun a b) T 0 = (a : ℂ) + (b : ℂ) * T / 2 := by
  have hT' : (T : ℂ) ≠ 0 := by exact_mod_cast hT
  rw [coeff_eq]
  unfold linFun
  have : ∀ u : ℝ, ((a + b * u : ℝ) : ℂ) * cexp (cexpo T 0 * u)
      = ((a : ℂ) + (b : ℂ) * u) := by intro u; simp [cexpo]
  simp_rw [this]
  rw [integral_linear]
  simp only [Complex.ofReal_zero]
  field_simp
  ring

/-- splitting an integral over one period at `T/2` (strict `<`, as in the code) -/
theorem integral_split_half (r1 r2 : ℝ → ℝ) (e : ℝ → ℂ) (T : ℝ) (hT : 0 < T)
    (h1 : Continuous fun u : ℝ => (r1 u : ℂ) * e u) (h2 : Continuous fun u : ℝ => (r2 u : ℂ) * e u) :
    ∫ u in (0:ℝ)..T, (((if u < T / 2 then r1 u else r2 u : ℝ)) : ℂ) * e u
      = (∫ u in (0:ℝ)..(T / 2), (r1 u : ℂ) * e u) + ∫ u in (T / 2)..T, (r2 u : ℂ) * e u := by
  have hle1 : (0:ℝ) ≤ T / 2 := by linarith
  have hle2 : T / 2 ≤ T := by linarith
  have e1 : Set.EqOn (fun u : ℝ => (r1 u : ℂ) * e u)
      (fun u : ℝ => (((if u < T / 2 then r1 u else r2 u : ℝ)) : ℂ) * e u) (Set.uIoo 0 (T / 2)) := by
    intro x hx
    rw [Set.uIoo_of_le hle1] at hx
    simp [hx.2]
  have e2 : Set.EqOn (fun u : ℝ => (r2 u : ℂ) * e u)
      (fun u : ℝ => (((if u < T / 2 then r1 u else r2 u : ℝ)) : ℂ) * e u) (Set.uIoo (T / 2) T) := by
    intro x hx
    rw [Set.uIoo_of_le hle2] at hx
    have : ¬ x < T / 2 := not_lt.mpr hx.1.le
    simp [this]
  rw [integral_congr_uIoo e1, integral_congr_uIoo e2]
  exact (integral_add_adjacent_intervals ((h1.intervalIntegrable _ _).congr_uIoo e1)
    ((h2.intervalIntegrable _ _).congr_uIoo e2)).symm

/-- `a1 + b1·u` on `[0, T/2)`, `a2 + b2·u` from `T/2` on -/
noncomputable def plFun (T a1 b1 a2 b2 : ℝ) : ℝ → ℝ :=
  fun u => if u < T / 2 then a1 + b1 * u else a2 + b2 * u

/-- coefficient (`n ≠ 0`) of a function that is `a1 + b1·u` on `[0, T/2)` and
`a2 + b2·u` on `[T/2, T)` -/
theorem coeff_pl (T a1 b1 a2 b2 : ℝ) (hT : 0 < T) (n : ℤ) (hn : n ≠ 0) :
    coeff (plFun T a1 b1 a2 b2) T n
      = (1 / T : ℂ) *
        (((-1) ^ n * (((a1 : ℂ) + b1 * (T / 2)) / cexpo T n - b1 / cexpo T n ^ 2)
            - ((a1 : ℂ) / cexpo T n - b1 / cexpo T n ^ 2))
         + ((((a2 : ℂ) + b2 * T) / cexpo T n - b2 / cexpo T n ^ 2)
            - (-1) ^ n * (((a2 : ℂ) + b2 * (T / 2)) / cexpo T n - b2 / cexpo T n ^ 2))) := by
  have hc := cexpo_ne_zero T hT.ne' n hn
  rw [coeff_eq]
  unfold plFun
  rw [integral_split_half (fun u => a1 + b1 * u) (fun u => a2 + b2 * u) (fun u => cexp (cexpo T n * u)) T hT
    (by fun_prop) (by fun_prop)]
  have c1 : ∀ u : ℝ, ((a1 + b1 * u : ℝ) : ℂ) * cexp (cexpo T n * u)
      = ((a1 : ℂ) + (b1 : ℂ) * u) * cexp (cexpo T n * u) := by intro u; push_cast; ring
  have c2 : ∀ u : ℝ, ((a2 + b2 * u : ℝ) : ℂ) * cexp (cexpo T n * u)
      = ((a2 : ℂ) + (b2 : ℂ) * u) * cexp (cexpo T n * u) := by intro u; push_cast; ring
  simp_rw [c1, c2]
  rw [integral_linear_mul_cexp _ hc, integral_linear_mul_cexp _ hc, cexp_cexpo_period T hT.ne' n,
    cexp_cexpo_half T hT.ne' n]
  simp only [Complex.ofReal_zero, mul_zero, Complex.exp_zero, Complex.ofReal_div, Complex.ofReal_ofNat]
  ring

theorem coeff_pl_zero (T a1 b1 a2 b2 : ℝ) (hT : 0 < T) :
    coeff (plFun T a1 b1 a2 b2) T 0
      = ((a1 : ℂ) + a2) / 2 + (b1 : ℂ) * T / 8 + 3 * (b2 : ℂ) * T / 8 := by
  have hT' : (T : ℂ) ≠ 0 := by exact_mod_cast hT.ne'
  rw [coeff_eq]
  unfold plFun
  rw [integral_split_half (fun u => a1 + b1 * u) (fun u => a2 + b2 * u) (fun u => cexp (cexpo T 0 * u)) T hT
    (by fun_prop) (by fun_prop)]
  have c1 : ∀ u : ℝ, ((a1 + b1 * u : ℝ) : ℂ) * cexp (cexpo T 0 * u)
      = ((a1 : ℂ) + (b1 : ℂ) * u) := by intro u; simp [cexpo]
  have c2 : ∀ u : ℝ, ((a2 + b2 * u : ℝ) : ℂ) * cexp (cexpo T 0 * u)
      = ((a2 : ℂ) + (b2 : ℂ) * u) := by intro u; simp [cexpo]
  simp_rw [c1, c2]
  rw [integral_linear, integral_linear]
  simp only [Complex.ofReal_zero, Complex.ofReal_div, Complex.ofReal_ofNat]
  field_simp
  ring

/-- the coefficient of a real function at `−n` is the conjugate of the one at `n` -/
theorem coeff_neg (f : ℝ → ℝ) (T : ℝ) (n : ℤ) :
    coeff f T (-n) = (starRingEnd ℂ) (coeff f T n) := by
  rw [coeff_eq, coeff_eq, map_mul]
  have h1 : (starRingEnd ℂ) (1 / (T : ℂ)) = 1 / (T : ℂ) := by
    rw [map_div₀, map_one, Complex.conj_ofReal]
  have h2 : (starRingEnd ℂ) (∫ t in (0:ℝ)..T, ((f t : ℝ) : ℂ) * cexp (cexpo T n * t))
      = ∫ t in (0:ℝ)..T, (starRingEnd ℂ) (((f t : ℝ) : ℂ) * cexp (cexpo T n * t)) := by
    simp only [intervalIntegral, map_sub, integral_conj]
  rw [h1, h2]
  congr 1
  apply intervalIntegral.integral_congr
  intro t _
  simp only [map_mul, Complex.conj_ofReal, ← Complex.exp_conj]
  congr 2
  unfold cexpo
  simp only [map_neg, map_div₀, map_mul, Complex.conj_ofReal, Complex.conj_I, map_ofNat, map_intCast]
  push_cast
  ring

end CC.Fourier
