/-
  CC.Proofs.StateInvariance — helper lemmas for CC/Properties/C03State.lean.

  (1) `stateNet`: the circuit with every capacitor replaced by an ideal voltage source of strength
      `x_k` (its state) and every inductor by an ideal current source of strength `x_{nc+k}`, sources at
      `u`.  `state_circuit`: for EVERY state `x` and input `u` the sample report of the executable model
      (`y = C x + D u` read through the accessors) solves the circuit equations of that network
      (`x = DQᵀ y` + the two column lemmas `dqT_cap`, `dqT_ind`).
  (2) element substitutions (`phasorElem`, `stateElem`) commute with the four C03 transformations
      (renaming, listing order, terminal reversal, reference node) as soon as the two settings supply
      the same data for the same (renamed) identifier — `lookupVal` lookups, with the sign rule for
      reversed elements.
-/
import CC.Proofs.StatePhasor
import CC.Properties.C03
set_option linter.unusedSectionVars false

namespace CC
open Matrix Mx

/-! ### lookups by identifier -/

section lookup
variable {K : Type} [Field K] [DecidableEq K]

/-- the value supplied for identifier `id`: position of `id` in `keys`, entry of `vals` at that position -/
def lookupVal (keys : List String) (vals : List K) (id : String) : Option K :=
  (idxOf? id keys).map fun k => vals.getD k 0

/-- sign rule: the quantity of a reversed element is negated -/
def sgn (c : Bool) (v : K) : K := if c then -v else v

/-- the element record seen from the other terminal, if `c` -/
def Elem.rev (c : Bool) (e : Elem K) : Elem K := if c then e.reversed else e

def Elem.withSource : Elem K → K → Elem K
  | .norton Z _, v => .norton Z v
  | .thevenin Y _, v => .thevenin Y v

end lookup

section subst
variable {L L' K : Type} [DecidableEq L] [LabelOrd L] [DecidableEq L'] [LabelOrd L'] [Field K] [DecidableEq K]

theorem setSource_eq (sources : List String) (u : List K) (b : Branch L K) :
    setSource sources u b
      = match lookupVal sources u b.id with
        | some v => b.e.withSource v
        | none => b.e := by
  unfold setSource lookupVal
  cases idxOf? b.id sources with
  | none => rfl
  | some k => cases b.e <;> rfl

/-- `setSource` under renaming of the id and (optional) reversal of the record -/
theorem setSource_rel (c : Bool) {src src' : List String} {u u' : List K} (b : Branch L K) (b' : Branch L' K)
    (hid : lookupVal src' u' b'.id = (lookupVal src u b.id).map (sgn c)) (he : b'.e = Elem.rev c b.e) :
    setSource src' u' b' = Elem.rev c (setSource src u b) := by
  rw [setSource_eq, setSource_eq, hid, he]
  cases lookupVal src u b.id with
  | none => rfl
  | some v =>
    cases c <;> cases b.e <;> simp [Elem.rev, sgn, Elem.reversed, Elem.withSource]

/-- a substitution of the reactive elements by id, sources at `u` -/
def reactSubst (capE indE : String → Option (Elem K)) (sources : List String) (u : List K) (b : Branch L K) : Elem K :=
  match capE b.id with
  | some e => e
  | none =>
    match indE b.id with
    | some e => e
    | none => setSource sources u b

theorem reactSubst_rel (c : Bool) {capE indE capE' indE' : String → Option (Elem K)}
    {src src' : List String} {u u' : List K} (b : Branch L K) (b' : Branch L' K)
    (hc : capE' b'.id = (capE b.id).map (Elem.rev c)) (hl : indE' b'.id = (indE b.id).map (Elem.rev c))
    (hs : setSource src' u' b' = Elem.rev c (setSource src u b)) :
    reactSubst capE' indE' src' u' b' = Elem.rev c (reactSubst capE indE src u b) := by
  unfold reactSubst
  rw [hc, hl]
  cases capE b.id <;> cases indE b.id <;> simp [hs]

theorem phasorElem_eq_subst (cv lv : ValDict K) (src : List String) (u : List K) (s : K) (b : Branch L K) :
    phasorElem cv lv src u s b
      = reactSubst (fun id => (lookupVal cv.keys cv.vals id).map fun c => .thevenin (s * c) 0)
          (fun id => (lookupVal lv.keys lv.vals id).map fun l => .norton (s * l) 0) src u b := by
  unfold phasorElem reactSubst lookupVal
  beta_reduce
  cases idxOf? b.id cv.keys with
  | some k => rfl
  | none =>
    cases idxOf? b.id lv.keys with
    | some k => rfl
    | none => rfl

/-- the circuit with its states imposed: capacitor `k` ↦ ideal voltage source `x_k`, inductor `k` ↦
ideal current source `x_{nc+k}` (first → second terminal), sources at `u` -/
def stateElem (cvals lvals : ValDict K) (sources : List String) (u x : List K) (b : Branch L K) : Elem K :=
  match idxOf? b.id cvals.keys with
  | some k => .norton 0 (x.getD k 0)
  | none =>
    match idxOf? b.id lvals.keys with
    | some k => .thevenin 0 (x.getD (cvals.length + k) 0)
    | none => setSource sources u b

theorem stateElem_eq_subst (cv lv : ValDict K) (src : List String) (u x : List K) (b : Branch L K) :
    stateElem cv lv src u x b
      = reactSubst (fun id => (lookupVal cv.keys x id).map fun v => .norton 0 v)
          (fun id => (lookupVal lv.keys (x.drop cv.length) id).map fun i => .thevenin 0 i) src u b := by
  unfold stateElem reactSubst lookupVal
  beta_reduce
  cases idxOf? b.id cv.keys with
  | some k => rfl
  | none =>
    cases idxOf? b.id lv.keys with
    | some k => simp [List.getD_eq_getElem?_getD, List.getElem?_drop]
    | none => rfl

/-! ### the two settings supply the same data -/

/-- same capacitances / inductances for the same (renamed) element -/
structure SameValues (τ : String → String) (N : Net L K) (cv lv cv' lv' : ValDict K) : Prop where
  cap : ∀ b ∈ N.branches, lookupVal cv'.keys cv'.vals (τ b.id) = lookupVal cv.keys cv.vals b.id
  ind : ∀ b ∈ N.branches, lookupVal lv'.keys lv'.vals (τ b.id) = lookupVal lv.keys lv.vals b.id

/-- same source amplitude for the same (renamed) source, negated for a reversed source -/
def SameInput (τ : String → String) (f : String → Bool) (N : Net L K) (src : List String) (u : List K)
    (src' : List String) (u' : List K) : Prop :=
  ∀ b ∈ N.branches, lookupVal src' u' (τ b.id) = (lookupVal src u b.id).map (sgn (f b.id))

/-- same state for the same (renamed) reactive element — capacitor voltage, inductor current —, negated
for a reversed element: the induced state map -/
structure SameState (τ : String → String) (f : String → Bool) (N : Net L K) (cv lv cv' lv' : ValDict K)
    (x x' : List K) : Prop where
  cap : ∀ b ∈ N.branches, lookupVal cv'.keys x' (τ b.id) = (lookupVal cv.keys x b.id).map (sgn (f b.id))
  ind : ∀ b ∈ N.branches, lookupVal lv'.keys (x'.drop cv'.length) (τ b.id)
          = (lookupVal lv.keys (x.drop cv.length) b.id).map (sgn (f b.id))

theorem phasorElem_rel (τ : String → String) (f : String → Bool) {N : Net L K} {cv lv cv' lv' : ValDict K}
    {src src' : List String} {u u' : List K} (s : K)
    (hv : SameValues τ N cv lv cv' lv') (hu : SameInput τ f N src u src' u')
    (b : Branch L K) (hb : b ∈ N.branches) (b' : Branch L' K) (hid : b'.id = τ b.id)
    (he : b'.e = Elem.rev (f b.id) b.e) :
    phasorElem cv' lv' src' u' s b' = Elem.rev (f b.id) (phasorElem cv lv src u s b) := by
  rw [phasorElem_eq_subst, phasorElem_eq_subst]
  apply reactSubst_rel
  · simp only [hid, hv.cap b hb, Option.map_map]
    congr 1; funext c
    cases f b.id <;> simp [Elem.rev, Elem.reversed]
  · simp only [hid, hv.ind b hb, Option.map_map]
    congr 1; funext c
    cases f b.id <;> simp [Elem.rev, Elem.reversed]
  · exact setSource_rel _ b b' (by rw [hid]; exact hu b hb) he

theorem stateElem_rel (τ : String → String) (f : String → Bool) {N : Net L K} {cv lv cv' lv' : ValDict K}
    {src src' : List String} {u u' x x' : List K}
    (hx : SameState τ f N cv lv cv' lv' x x') (hu : SameInput τ f N src u src' u')
    (b : Branch L K) (hb : b ∈ N.branches) (b' : Branch L' K) (hid : b'.id = τ b.id)
    (he : b'.e = Elem.rev (f b.id) b.e) :
    stateElem cv' lv' src' u' x' b' = Elem.rev (f b.id) (stateElem cv lv src u x b) := by
  rw [stateElem_eq_subst, stateElem_eq_subst]
  apply reactSubst_rel
  · simp only [hid, hx.cap b hb, Option.map_map]
    congr 1; funext c
    cases f b.id <;> simp [Elem.rev, Elem.reversed, sgn]
  · simp only [hid, hx.ind b hb, Option.map_map]
    congr 1; funext c
    cases f b.id <;> simp [Elem.rev, Elem.reversed, sgn]
  · exact setSource_rel _ b b' (by rw [hid]; exact hu b hb) he

/-! ### element substitutions commute with the transformations -/

theorem mapElems_rename (σ : L → L') (τ : String → String) (N : Net L K) (g : Branch L K → Elem K)
    (g' : Branch L' K → Elem K) (h : ∀ b ∈ N.branches, g' (b.rename σ τ) = g b) :
    (N.rename σ τ).mapElems g' = (N.mapElems g).rename σ τ := by
  unfold Net.mapElems Net.rename
  simp only [List.map_map]
  congr 1
  apply List.map_congr_left
  intro b hb
  simp only [Function.comp_apply, h b hb]
  rfl

theorem mapElems_flip (f : String → Bool) (N : Net L K) (g g' : Branch L K → Elem K)
    (h : ∀ b ∈ N.branches, g' (b.flip f) = Elem.rev (f b.id) (g b)) :
    (N.flip f).mapElems g' = (N.mapElems g).flip f := by
  unfold Net.mapElems Net.flip
  simp only [List.map_map]
  congr 1
  apply List.map_congr_left
  intro b hb
  simp only [Function.comp_apply, h b hb]
  unfold Branch.flip Elem.rev
  by_cases hf : f b.id = true
  · simp [hf]
  · simp [hf]

theorem mapElems_perm (N N' : Net L K) (g g' : Branch L K → Elem K) (hp : N.branches.Perm N'.branches)
    (h : ∀ b ∈ N.branches, g' b = g b) :
    (N.mapElems g).branches.Perm (N'.mapElems g').branches := by
  unfold Net.mapElems
  simp only
  have : N.branches.map (fun b => ({ b with e := g b } : Branch L K))
      = N.branches.map (fun b => ({ b with e := g' b } : Branch L K)) := by
    apply List.map_congr_left
    intro b hb
    rw [h b hb]
  rw [this]
  exact hp.map _

theorem mapElems_branches_congr (N N' : Net L K) (g g' : Branch L K → Elem K) (hbr : N'.branches = N.branches)
    (h : ∀ b ∈ N.branches, g' b = g b) :
    (N'.mapElems g').branches = (N.mapElems g).branches := by
  unfold Net.mapElems
  simp only [hbr]
  apply List.map_congr_left
  intro b hb
  rw [h b hb]

/-- change of the reference node at the level of the circuit equations (same proof as
`C16_switch_ground`, for any two networks with the same branches) -/
theorem circuitEqs_reref (M M' : Net L K) (hbr : M'.branches = M.branches) (R : Report L K)
    (h : CircuitEqs M R) : CircuitEqs M' (R.shift (R.pot M'.zero)) := by
  rw [← circuitEqsAll_iff]
  have hA := (circuitEqsAll_iff M R).mpr h
  rw [hbr]
  refine ⟨by simp [Report.shift], ?_, hA.law, ?_⟩
  · intro b hb
    have := hA.volt b hb
    unfold voltResidual at this ⊢
    simp only [Report.shift]
    linear_combination this
  · intro n
    have := hA.kcl n
    unfold kclResidual at this ⊢
    exact this

end subst

/-! ### the sample report solves the circuit with the states imposed -/

section state
variable {L K : Type} [DecidableEq L] [LabelOrd L] [Field K] [DecidableEq K]

theorem stateElem_notLossy {N : Net L K} {cvals lvals : ValDict K} (h : RLC N cvals lvals) (u x : List K)
    {b : Branch L K} (hb : b ∈ N.branches) :
    (stateElem cvals lvals (ssSources N lvals) u x b).isLossy = false := by
  unfold stateElem
  cases hc : idxOf? b.id cvals.keys with
  | some k => simp [Elem.isLossy, Elem.kind]
  | none =>
    cases hl : idxOf? b.id lvals.keys with
    | some k => simp [Elem.isLossy, Elem.kind]
    | none => exact setSource_notLossy h _ hb

theorem sampleElem_notLossy {N : Net L K} {cvals lvals : ValDict K} (h : RLC N cvals lvals) (u xdot : List K)
    {b : Branch L K} (hb : b ∈ N.branches) :
    (sampleElem cvals lvals (ssSources N lvals) u xdot b).isLossy = false := by
  unfold sampleElem
  cases hc : idxOf? b.id cvals.keys with
  | some k => simp [Elem.isLossy, Elem.kind]
  | none =>
    cases hl : idxOf? b.id lvals.keys with
    | some k => simp [Elem.isLossy, Elem.kind]
    | none => exact setSource_notLossy h _ hb

/-- **Every sample carries its state.**  For every state `x` and input `u` the report read from
`y = C x + D u` solves the circuit equations of the circuit in which capacitor `k` is an ideal voltage
source of strength `x_k` and inductor `k` an ideal current source of strength `x_{nc+k}`: the reported
capacitor voltages and inductor currents ARE the state, Kirchhoff's laws and the laws of all other
elements hold. -/
theorem state_circuit {N : Net L K} {cvals lvals : ValDict K} {Ainv S Delta : List (List K)}
    {m : SSMats K} (h : RLC N cvals lvals) (hD : ssDelta N cvals = .ok Delta)
    (hm : stateSpaceMatrices N cvals lvals Ainv S = .ok m)
    (hc : ModelCert id N cvals lvals Ainv S Delta)
    (x : Fin (ssNStates N cvals lvals) → K) (u : Fin (ssNInputs N lvals) → K) :
    let y := toM N.nY (ssNStates N cvals lvals) m.C *ᵥ x + toM N.nY (ssNInputs N lvals) m.D *ᵥ u
    let xdot := toM (ssNStates N cvals lvals) (ssNStates N cvals lvals) m.A *ᵥ x
                + toM (ssNStates N cvals lvals) (ssNInputs N lvals) m.B *ᵥ u
    let P := sampleNet N cvals lvals (ssSources N lvals) (List.ofFn u) (List.ofFn xdot)
    CircuitEqs (N.mapElems (stateElem cvals lvals (ssSources N lvals) (List.ofFn u) (List.ofFn x)))
      (P.reportOf (List.ofFn y)) := by
  intro y xdot P
  have hids := h.wf.ids_nodup
  have hP : CircuitEqs P (P.reportOf (List.ofFn y)) := model_sample_circuit h hD hm hc x u
  have hxy : (toM N.nY (ssNStates N cvals lvals) (ssDQ N cvals lvals Delta))ᵀ *ᵥ y = x :=
    (model_sample_system id hD hm hc x u).2
  have hkP := sampleNet_keeps N cvals lvals (ssSources N lvals) (List.ofFn u) (List.ofFn xdot) h.placeholders
  refine circuitEqs_transfer N (sampleElem cvals lvals (ssSources N lvals) (List.ofFn u) (List.ofFn xdot)) _ _
    ?_ ?_ ?_ hP
  · intro b hb; exact sampleElem_notLossy h _ _ hb
  · intro b hb; exact stateElem_notLossy h _ _ hb
  · intro b hb
    have hxk : ∀ k (hk : k < ssNStates N cvals lvals), (List.ofFn x).getD k 0
        = sumTo N.nY (fun i => Mx.get (ssDQ N cvals lvals Delta) i k * (List.ofFn y).getD i 0) := by
      intro k hk
      have e1 : (List.ofFn x).getD k 0 = x ⟨k, hk⟩ := by
        simp [List.getD_eq_getElem?_getD, hk]
      rw [e1]
      conv_lhs => rw [← hxy]
      rw [sumTo_eq]
      simp only [Matrix.mulVec, dotProduct, Matrix.transpose_apply, toM_apply]
      apply Finset.sum_congr rfl
      intro i _
      simp [List.getD_eq_getElem?_getD]
    unfold sampleElem stateElem
    cases hc' : idxOf? b.id cvals.keys with
    | some k =>
      have hklt : k < cvals.keys.length := idxOf?_lt hc'
      have hk : k < cvals.length := by simpa [ValDict.keys] using hklt
      have hks : k < ssNStates N cvals lvals := by unfold ssNStates; omega
      obtain ⟨k', hk', _, hget⟩ := idxOf?_of_mem (idxOf?_some_mem hc')
      rw [hc'] at hk'; cases hk'
      have hv : (P.reportOf (List.ofFn y)).v b.id
          = N.pot (N.solOf (List.ofFn y)) b.n1 - N.pot (N.solOf (List.ofFn y)) b.n2 :=
        report_v_mapElems N _ hkP hids (List.ofFn y) hb
      have hx := dqT_cap N cvals lvals hids hD (List.ofFn y) hk hb hget (h.wf.no_self_loop b hb)
      intro _
      simp only [Elem.lawResidual, if_true, hxk k hks, hx, ← hv, sub_self]
    | none =>
      cases hl : idxOf? b.id lvals.keys with
      | some k =>
        have hklt : k < lvals.keys.length := idxOf?_lt hl
        have hks : cvals.length + k < ssNStates N cvals lvals := by
          unfold ssNStates; rw [colsL_length N lvals h.indKeys]; omega
        obtain ⟨k', hk', _, hget⟩ := idxOf?_of_mem (idxOf?_some_mem hl)
        rw [hl] at hk'; cases hk'
        have hbid : lvals.keys[k] = b.id := by
          rw [List.getElem?_eq_getElem hklt] at hget; exact Option.some.inj hget
        have hvs : b.e.isIdealVS = true := by
          rw [h.indShort b hb (idxOf?_some_mem hl)]; simp [Elem.isIdealVS]
        have hi : (P.reportOf (List.ofFn y)).i b.id = (N.solOf (List.ofFn y)).ivs b.id :=
          report_i_vs_mapElems N _ hkP hids (List.ofFn y) hb hvs
        have hx := dqT_ind N cvals lvals Delta hids h.indKeys (List.ofFn y) hklt
        rw [hbid] at hx
        intro _
        simp only [Elem.lawResidual, if_true, hxk _ hks, hx, ← hi, sub_self]
      | none => exact fun hlaw => hlaw

end state
end CC
