/-
  CC.Proofs.LoadLemmas — helper lemmas for C17 / C20 (Mathlib-free).
-/
import CC.Model.Load
import CC.Spec.Load
namespace CC.Load
open CC.Gen.Load CC.Spec.Load

theorem GQ.ext' {a b : GQ} (h1 : a.re = b.re) (h2 : a.im = b.im) : a = b := by
  cases a; cases b; simp_all

/-- `complex(x, y)` of two real numbers -/
theorem cart_value (x y : Rat) : (⟨x, 0⟩ : GQ) + GQ.j * ⟨y, 0⟩ = ⟨x, y⟩ := by
  apply GQ.ext' <;> simp [GQ.add_def, GQ.mul_def, GQ.j] <;> grind

/-- `r * complex(c, s)` for a real `r` -/
theorem polar_value (a c s : Rat) : (⟨a, 0⟩ : GQ) * ⟨c, s⟩ = ⟨a * c, a * s⟩ := by
  apply GQ.ext' <;> simp [GQ.mul_def] <;> grind

/-! ### dictionary operations -/

theorem Obj.find_del_self (o : Obj) (k : String) : Obj.find (Obj.del o k) k = none := by
  induction o with
  | nil => simp [Obj.del, Obj.find]
  | cons p r ih =>
    obtain ⟨k', v⟩ := p
    by_cases h : k' = k <;> simp [Obj.del, Obj.find, h, ih]

theorem Obj.find_del_ne (o : Obj) (k k2 : String) (h : k2 ≠ k) :
    Obj.find (Obj.del o k) k2 = Obj.find o k2 := by
  induction o with
  | nil => simp [Obj.del, Obj.find]
  | cons p r ih =>
    obtain ⟨k', v⟩ := p
    by_cases h1 : k' = k <;> by_cases h2 : k' = k2 <;> simp_all [Obj.del, Obj.find]

theorem Obj.find_put_ne (o : Obj) (k k2 : String) (v : J) (h : k2 ≠ k) :
    Obj.find (Obj.put o k v) k2 = Obj.find o k2 := by
  induction o with
  | nil => simp [Obj.put, Obj.find]; intro e; exact absurd e.symm h
  | cons p r ih =>
    obtain ⟨k', x⟩ := p
    by_cases h1 : k' = k <;> by_cases h2 : k' = k2 <;> simp_all [Obj.put, Obj.find]

/-- re-assigning the value a key already has leaves the dictionary as it is -/
theorem Obj.put_same (o : Obj) (k : String) (v : J) (h : Obj.find o k = some v) : Obj.put o k v = o := by
  induction o with
  | nil => simp [Obj.find] at h
  | cons p r ih =>
    obtain ⟨k', x⟩ := p
    by_cases h1 : k' = k
    · subst h1; simp [Obj.find] at h; simp [Obj.put, h]
    · simp [Obj.find, h1] at h; simp [Obj.put, h1, ih h]

end CC.Load