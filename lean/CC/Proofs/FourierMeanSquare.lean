/-
  CC.Proofs.FourierMeanSquare — mean-square convergence of the amplitude/phase reconstruction
  `a₀ + Σ_{1≤n≤N} aₙ·cos(2πn·t/T + φₙ)` to a bounded measurable function whose Fourier
  coefficients are `a₀` and `aₙ/2·exp(jφₙ)`: Parseval (FourierParseval.lean) applied to the
  difference `f − S_N`, whose coefficients vanish up to order `N`.
-/
import CC.Proofs.FourierParseval

namespace CC.Fourier
open MeasureTheory Complex Real Filter

/-- coefficient of a pure harmonic of integer frequency `k` -/
theorem coeff_cosk (T A φ : ℝ) (hT : T ≠ 0) (k n : ℤ) :
    coeff (fun t => A * Real.cos (2 * π * k / T * t + φ)) T n
      = (A / 2 : ℂ) * cexp (φ * I) * (if n - k = 0 then 1 else 0)
        + (A / 2 : ℂ) * cexp (-φ * I) * (if n + k = 0 then 1 else 0) := by
  have hT' : (T : ℂ) ≠ 0 := by exact_mod_cast hT
  rw [coeff_eq]
  have hpt : ∀ t : ℝ, ((A * Real.cos (2 * π * k / T * t + φ) : ℝ) : ℂ) * cexp (cexpo T n * t)
      = (A / 2 : ℂ) * cexp (φ * I) * cexp (cexpo T (n - k) * t)
        + (A / 2 : ℂ) * cexp (-φ * I) * cexp (cexpo T (n + k) * t) := by
    intro t
    have e1 : cexp (((2 * π * k / T * t + φ : ℝ) : ℂ) * I) * cexp (cexpo T n * t)
        = cexp (φ * I) * cexp (cexpo T (n - k) * t) := by
      rw [← Complex.exp_add, ← Complex.exp_add]; congr 1
      unfold cexpo; push_cast; field_simp; ring
    have e2 : cexp (-((2 * π * k / T * t + φ : ℝ) : ℂ) * I) * cexp (cexpo T n * t)
        = cexp (-φ * I) * cexp (cexpo T (n + k) * t) := by
      rw [← Complex.exp_add, ← Complex.exp_add]; congr 1
      unfold cexpo; push_cast; field_simp; ring
    rw [Complex.ofReal_mul, Complex.ofReal_cos, Complex.cos]
    calc ((A : ℂ) * ((cexp (((2 * π * k / T * t + φ : ℝ) : ℂ) * I) + cexp (-((2 * π * k / T * t + φ : ℝ) : ℂ) * I)) / 2))
          * cexp (cexpo T n * t)
        = (A / 2 : ℂ) * (cexp (((2 * π * k / T * t + φ : ℝ) : ℂ) * I) * cexp (cexpo T n * t))
          + (A / 2 : ℂ) * (cexp (-((2 * π * k / T * t + φ : ℝ) : ℂ) * I) * cexp (cexpo T n * t)) := by ring
      _ = _ := by rw [e1, e2]; ring
  simp_rw [hpt]
  have hi : ∀ (c : ℂ) (m : ℤ), IntervalIntegrable (fun t : ℝ => c * cexp (cexpo T m * t)) volume 0 T := by
    intro c m; apply Continuous.intervalIntegrable; fun_prop
  rw [intervalIntegral.integral_add (hi _ _) (hi _ _)]
  simp only [intervalIntegral.integral_const_mul, integral_cexp_cexpo T hT]
  split_ifs <;> field_simp <;> ring

/-- the reconstruction up to order `N` -/
noncomputable def partialSum (T : ℝ) (a φ : ℕ → ℝ) (N : ℕ) (t : ℝ) : ℝ :=
  a 0 + ∑ n ∈ Finset.Icc 1 N, a n * Real.cos (2 * π * n / T * t + φ n)

theorem continuous_partialSum (T : ℝ) (a φ : ℕ → ℝ) (N : ℕ) : Continuous (partialSum T a φ N) := by
  unfold partialSum; fun_prop

theorem abs_partialSum_le (T : ℝ) (a φ : ℕ → ℝ) (N : ℕ) (t : ℝ) :
    |partialSum T a φ N t| ≤ |a 0| + ∑ n ∈ Finset.Icc 1 N, |a n| := by
  unfold partialSum
  refine (abs_add_le _ _).trans (add_le_add le_rfl ?_)
  refine (Finset.abs_sum_le_sum_abs _ _).trans (Finset.sum_le_sum fun n _ => ?_)
  rw [abs_mul]
  have := mul_le_mul_of_nonneg_left (Real.abs_cos_le_one (2 * π * n / T * t + φ n)) (abs_nonneg (a n))
  linarith

/-- the coefficients of the reconstruction -/
theorem coeff_partialSum (T : ℝ) (hT : T ≠ 0) (a φ : ℕ → ℝ) (N m : ℕ) :
    coeff (partialSum T a φ N) T m
      = if m = 0 then (a 0 : ℂ) else if m ≤ N then ((a m / 2 : ℝ) : ℂ) * cexp (I * (φ m : ℂ)) else 0 := by
  have hT' : (T : ℂ) ≠ 0 := by exact_mod_cast hT
  have hsplit : ∀ t : ℝ, ((partialSum T a φ N t : ℝ) : ℂ) * cexp (cexpo T m * t)
      = ((linFun (a 0) 0 t : ℝ) : ℂ) * cexp (cexpo T m * t)
        + ∑ n ∈ Finset.Icc 1 N, ((a n * Real.cos (2 * π * (n : ℤ) / T * t + φ n) : ℝ) : ℂ) * cexp (cexpo T m * t) := by
    intro t
    simp only [partialSum, linFun, Complex.ofReal_add, Complex.ofReal_sum, add_mul, Finset.sum_mul, zero_mul,
      add_zero, Int.cast_natCast]
  rw [coeff_eq]
  simp_rw [hsplit]
  rw [intervalIntegral.integral_add (by apply Continuous.intervalIntegrable; unfold linFun; fun_prop)
    (by apply Continuous.intervalIntegrable; fun_prop),
    intervalIntegral.integral_finsetSum (fun n _ => by apply Continuous.intervalIntegrable; fun_prop),
    mul_add, Finset.mul_sum]
  have hterm : ∀ n : ℕ, (1 / T : ℂ) * ∫ t in (0:ℝ)..T,
      ((a n * Real.cos (2 * π * (n : ℤ) / T * t + φ n) : ℝ) : ℂ) * cexp (cexpo T m * t)
      = coeff (fun t => a n * Real.cos (2 * π * (n : ℤ) / T * t + φ n)) T m := fun n => rfl
  have hconst : (1 / T : ℂ) * ∫ t in (0:ℝ)..T, ((linFun (a 0) 0 t : ℝ) : ℂ) * cexp (cexpo T m * t)
      = coeff (linFun (a 0) 0) T m := rfl
  simp_rw [hterm, hconst, coeff_cosk T _ _ hT]
  by_cases hm : m = 0
  · subst hm
    rw [Nat.cast_zero, coeff_lin_zero T _ _ hT]
    have : ∀ n ∈ Finset.Icc 1 N, ((a n / 2 : ℂ)) * cexp ((φ n : ℂ) * I) * (if (0 : ℤ) - (n : ℤ) = 0 then 1 else 0)
        + (a n / 2 : ℂ) * cexp (-(φ n : ℂ) * I) * (if (0 : ℤ) + (n : ℤ) = 0 then 1 else 0) = 0 := by
      intro n hn
      have h1 : 1 ≤ n := (Finset.mem_Icc.mp hn).1
      have hn0 : n ≠ 0 := by omega
      simp [hn0]
    rw [Finset.sum_congr rfl this]
    simp
  · have hm0 : (m : ℤ) ≠ 0 := by omega
    rw [coeff_lin T _ _ hT m hm0]
    have : ∀ n ∈ Finset.Icc 1 N, ((a n / 2 : ℂ)) * cexp ((φ n : ℂ) * I) * (if (m : ℤ) - (n : ℤ) = 0 then 1 else 0)
        + (a n / 2 : ℂ) * cexp (-(φ n : ℂ) * I) * (if (m : ℤ) + (n : ℤ) = 0 then 1 else 0)
        = if n = m then ((a m / 2 : ℝ) : ℂ) * cexp (I * (φ m : ℂ)) else 0 := by
      intro n hn
      have e2 : ¬ ((m : ℤ) + (n : ℤ) = 0) := by omega
      by_cases hnm : n = m
      · subst hnm; simp [mul_comm, hm]
      · have e1 : ¬ ((m : ℤ) - (n : ℤ) = 0) := by omega
        simp [e1, e2, hnm]
    rw [Finset.sum_congr rfl this, Finset.sum_ite_eq']
    simp only [hm, if_false, Finset.mem_Icc]
    by_cases hmN : m ≤ N
    · have : 1 ≤ m ∧ m ≤ N := ⟨by omega, hmN⟩
      simp [this, hmN]
    · have : ¬ (1 ≤ m ∧ m ≤ N) := fun h => hmN h.2
      simp [this, hmN]

/-- products of a bounded measurable function with a harmonic are interval integrable -/
theorem intervalIntegrable_mul_cexp (f : ℝ → ℝ) (hm : Measurable f) (C : ℝ) (hb : ∀ t, |f t| ≤ C)
    (c : ℂ) (a b : ℝ) : IntervalIntegrable (fun t : ℝ => ((f t : ℝ) : ℂ) * cexp (c * t)) volume a b := by
  have hc : Continuous fun t : ℝ => cexp (c * t) := by fun_prop
  have hmeas : Measurable fun t : ℝ => ((f t : ℝ) : ℂ) := Complex.measurable_ofReal.comp hm
  have hbdd : IntervalIntegrable (fun t : ℝ => ((f t : ℝ) : ℂ)) volume a b := by
    rw [intervalIntegrable_iff]
    refine IntegrableOn.of_bound ?_ hmeas.aestronglyMeasurable C ?_
    · rw [Set.uIoc]; exact measure_Ioc_lt_top
    · filter_upwards with t; simpa using hb t
  exact hbdd.mul_continuousOn hc.continuousOn

theorem mean_square_of_coeff (f : ℝ → ℝ) (T : ℝ) (hT : 0 < T) (hm : Measurable f) (C : ℝ)
    (hb : ∀ t, |f t| ≤ C) (a φ : ℕ → ℝ) (h0 : coeff f T 0 = (a 0 : ℂ))
    (hn : ∀ n : ℕ, 1 ≤ n → coeff f T n = ((a n / 2 : ℝ) : ℂ) * cexp (I * (φ n : ℂ))) :
    Tendsto (fun N : ℕ => ∫ t in (0:ℝ)..T, (f t - partialSum T a φ N t) ^ 2) atTop (nhds 0) := by
  -- Parseval for `f`
  set term : ℕ → ℝ := fun n => if n = 0 then a 0 ^ 2 else a n ^ 2 / 2 with hterm
  have hnorm : ∀ n : ℕ, 1 ≤ n → ‖coeff f T n‖ = |a n| / 2 := by
    intro n h1
    rw [hn n h1, norm_mul, Complex.norm_real, mul_comm I, Complex.norm_exp_ofReal_mul_I, mul_one,
      Real.norm_eq_abs, abs_div, abs_two]
  have hPf : HasSum term ((1 / T) * ∫ t in (0:ℝ)..T, f t ^ 2) :=
    parseval_of_coeff f T hT hm C hb a (by rw [h0]; simp [Complex.norm_real]) hnorm
  -- the identity for every `N`
  have hN : ∀ N : ℕ, (1 / T) * ∫ t in (0:ℝ)..T, (f t - partialSum T a φ N t) ^ 2
      = ((1 / T) * ∫ t in (0:ℝ)..T, f t ^ 2) - ∑ i ∈ Finset.range (N + 1), term i := by
    intro N
    set g : ℝ → ℝ := fun t => f t - partialSum T a φ N t with hg
    have hgm : Measurable g := hm.sub (continuous_partialSum T a φ N).measurable
    have hgb : ∀ t, |g t| ≤ C + (|a 0| + ∑ n ∈ Finset.Icc 1 N, |a n|) := by
      intro t
      calc |g t| ≤ |f t| + |partialSum T a φ N t| := abs_sub _ _
        _ ≤ _ := add_le_add (hb t) (abs_partialSum_le T a φ N t)
    have hcoeff : ∀ m : ℕ, coeff g T m = coeff f T m - coeff (partialSum T a φ N) T m := by
      intro m
      rw [coeff_eq, coeff_eq, coeff_eq, ← mul_sub, ← intervalIntegral.integral_sub
        (intervalIntegrable_mul_cexp f hm C hb _ _ _)
        (by apply Continuous.intervalIntegrable; have := continuous_partialSum T a φ N; fun_prop)]
      congr 1
      apply intervalIntegral.integral_congr
      intro t _
      simp only [hg]; push_cast; ring
    set a' : ℕ → ℝ := fun n => if n ≤ N then 0 else a n with ha'
    have hg0 : ‖coeff g T 0‖ = |a' 0| := by
      have := hcoeff 0
      rw [Nat.cast_zero] at this
      rw [this, h0]
      have := coeff_partialSum T hT.ne' a φ N 0
      rw [Nat.cast_zero] at this
      rw [this]; simp [ha']
    have hgn : ∀ n : ℕ, 1 ≤ n → ‖coeff g T n‖ = |a' n| / 2 := by
      intro n h1
      have hne : n ≠ 0 := by omega
      rw [hcoeff n, coeff_partialSum T hT.ne' a φ N n, hn n h1]
      by_cases hnN : n ≤ N
      · simp [ha', hnN, hne]
      · simp only [ha', hnN, hne, if_false, sub_zero]
        rw [← hn n h1]; exact hnorm n h1
    have hPg := parseval_of_coeff g T hT hgm _ hgb a' hg0 hgn
    -- compare the two sums beyond N
    have hshift_g := (hasSum_nat_add_iff' (N + 1)).mpr hPg
    have hshift_f := (hasSum_nat_add_iff' (N + 1)).mpr hPf
    have hzero : ∑ i ∈ Finset.range (N + 1), (if i = 0 then a' 0 ^ 2 else a' i ^ 2 / 2) = 0 := by
      apply Finset.sum_eq_zero
      intro i hi
      have : i ≤ N := by have := Finset.mem_range.mp hi; omega
      have h0N : (0 : ℕ) ≤ N := Nat.zero_le N
      simp [ha', this, h0N]
    have hfun : (fun n : ℕ => if n + (N + 1) = 0 then a' 0 ^ 2 else a' (n + (N + 1)) ^ 2 / 2)
        = fun n : ℕ => term (n + (N + 1)) := by
      funext n
      have h1 : ¬ (n + (N + 1) = 0) := by omega
      have h2 : ¬ (n + (N + 1) ≤ N) := by omega
      simp [hterm, ha', h1, h2]
    rw [hzero, sub_zero, hfun] at hshift_g
    exact hshift_g.unique hshift_f
  -- conclude
  have hlim : Tendsto (fun N : ℕ => ((1 / T) * ∫ t in (0:ℝ)..T, f t ^ 2) - ∑ i ∈ Finset.range (N + 1), term i)
      atTop (nhds 0) := by
    have h1 := (hPf.tendsto_sum_nat).comp (tendsto_add_atTop_nat 1)
    have h2 := (tendsto_const_nhds (x := (1 / T) * ∫ t in (0:ℝ)..T, f t ^ 2)).sub h1
    simpa using h2
  have hfinal : (fun N : ℕ => ∫ t in (0:ℝ)..T, (f t - partialSum T a φ N t) ^ 2)
      = fun N : ℕ => T * (((1 / T) * ∫ t in (0:ℝ)..T, f t ^ 2) - ∑ i ∈ Finset.range (N + 1), term i) := by
    funext N
    rw [← hN N]; field_simp
  rw [hfinal]
  simpa using hlim.const_mul T

end CC.Fourier
