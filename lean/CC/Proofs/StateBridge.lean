/-
  CC.Proofs.StateBridge — transports the list-matrix operations of CC/Model/StateSpace.lean
  (`Mx.*`, explicit dimensions) to Mathlib's `Matrix (Fin r) (Fin c) K`, so that the algebra of
  CC/Proofs/StateAlgebra.lean applies to what the model (and the driver) computes.
-/
import CC.Model.StateSpace
import CC.Proofs.StateAlgebra
import Mathlib.Algebra.BigOperators.Fin

set_option linter.unusedSectionVars false

namespace CC.Mx
open Matrix

variable {K : Type} [Field K]

/-- the `r × c` matrix read from a list of rows -/
def toM (r c : Nat) (M : List (List K)) : Matrix (Fin r) (Fin c) K := fun i j => get M i j

@[simp] theorem toM_apply (r c : Nat) (M : List (List K)) (i : Fin r) (j : Fin c) :
    toM r c M i j = get M i j := rfl

theorem get_ofFn {r c : Nat} (f : Nat → Nat → K) {i j : Nat} (hi : i < r) (hj : j < c) :
    get (ofFn r c f) i j = f i j := by
  simp [get, ofFn, List.getD_eq_getElem?_getD, hi, hj]

theorem sumTo_eq (n : Nat) (f : Nat → K) : sumTo n f = ∑ k : Fin n, f k := by
  induction n with
  | zero => simp [sumTo]
  | succ n ih =>
    rw [Fin.sum_univ_castSucc]
    simp only [sumTo, List.range_succ, List.map_append, List.sum_append, List.map_cons, List.map_nil,
      List.sum_cons, List.sum_nil, add_zero, Fin.val_castSucc, Fin.val_last] at ih ⊢
    rw [ih]

theorem toM_mul (r p c : Nat) (A B : List (List K)) :
    toM r c (mul r p c A B) = toM r p A * toM p c B := by
  ext i j
  simp only [toM_apply, mul, get_ofFn _ i.2 j.2, sumTo_eq, Matrix.mul_apply]

theorem toM_transpose (r c : Nat) (A : List (List K)) : toM r c (transpose r c A) = (toM c r A)ᵀ := by
  ext i j
  simp only [toM_apply, transpose, get_ofFn _ i.2 j.2, Matrix.transpose_apply]

theorem toM_sub (r c : Nat) (A B : List (List K)) : toM r c (sub r c A B) = toM r c A - toM r c B := by
  ext i j
  simp only [toM_apply, sub, get_ofFn _ i.2 j.2, Matrix.sub_apply]

theorem toM_neg (r c : Nat) (A : List (List K)) : toM r c (neg r c A) = -toM r c A := by
  ext i j
  simp only [toM_apply, neg, get_ofFn _ i.2 j.2, Matrix.neg_apply]

theorem toM_diagMul (r c : Nat) (d : List K) (A : List (List K)) :
    toM r c (diagMul r c d A) = Matrix.diagonal (fun i : Fin r => d.getD i 0) * toM r c A := by
  ext i j
  simp only [toM_apply, diagMul, get_ofFn _ i.2 j.2, Matrix.diagonal_mul]

theorem toM_one (n : Nat) : toM n n (one n : List (List K)) = 1 := by
  ext i j
  simp only [toM_apply, one, get_ofFn _ i.2 j.2, Matrix.one_apply, Fin.ext_iff]

/-- what the driver checks (`Mx.mul … = Mx.one …`) is the certificate equation on `Matrix` -/
theorem toM_mul_eq_one {n : Nat} {A B : List (List K)} (h : mul n n n A B = one n) :
    toM n n A * toM n n B = 1 := by
  rw [← toM_mul, h, toM_one]

theorem ofFn_length (r c : Nat) (f : Nat → Nat → K) : (ofFn r c f).length = r := by
  simp [ofFn]

theorem ofFn_row_length (r c : Nat) (f : Nat → Nat → K) : ∀ row ∈ ofFn r c f, row.length = c := by
  intro row h
  simp only [ofFn, List.mem_map, List.mem_range] at h
  obtain ⟨i, _, rfl⟩ := h
  simp

end CC.Mx
