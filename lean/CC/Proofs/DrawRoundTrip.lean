/-
  CC.Proofs.DrawRoundTrip — one save/load cycle of a single drawing element on the interpretive
  model (CC/Model/DrawIO.lean over the generated tables): definitions and the consequences of
  the per-class facts, which are proved by symbolic evaluation in CC/Proofs/DrawRT*.lean for
  every persistable symbol class and *all* values, flags, names and anchors:

    (B) the reloaded element translates to the same component, for any terminal names  `RoundTrips`
    (F) reloading a reloaded element changes nothing                                   `Idempotent`
    (S) class, anchors, name, reversal flag and node id are kept                       `ShellKept`
-/
import CC.Proofs.DrawIO
set_option linter.unusedSectionVars false
set_option linter.unusedSimpArgs false
set_option linter.unusedVariables false
namespace CC.Draw

/-- the component a single drawing element translates to, for given terminal names -/
def elemComp (π : Rat) (d : DElem) (nodes : List String) : Except Err (Option Component) := do
  let s ← d.toSym π
  compOfSym π s nodes

/-- the circuit section that consists of one element's own component -/
def ownCirc : Option Component → List (String × List (String × Val))
  | some k => [(k.id, k.value)]
  | none => []

/-- save the element with circuit section `k` (its own component, if it has one) and load it -/
def reloadFrom (π : Rat) (d : DElem) (k : Option Component) : Except Err DElem := do
  let saved ← dictifyElement π d
  undictifyDElem (ownCirc k) saved

/-- save the element (with its own component as the circuit section) and load it again -/
def reloadElem (π : Rat) (d : DElem) (nodes : List String) : Except Err DElem := do
  let k ← elemComp π d nodes
  reloadFrom π d k

/-- what the parser sees of an element besides its translator attributes -/
def shell (π : Rat) (d : DElem) : String × Pt × Pt × Option (String × Bool × String) :=
  (d.cls, d.start, d.stop, match d.toSym π with | .ok s => some (s.name, s.rev, s.nodeId) | .error _ => none)

def RoundTrips (π : Rat) (d : DElem) : Prop :=
  ∀ la lb la' lb' : String,
    (do let k ← elemComp π d [la, lb]; let d' ← reloadFrom π d k; elemComp π d' [la', lb']) =
    (do let _ ← elemComp π d [la, lb]; elemComp π d [la', lb'])

def Idempotent (π : Rat) (d : DElem) : Prop :=
  ∀ la lb : String, (do reloadElem π (← reloadElem π d [la, lb]) [la, lb]) = reloadElem π d [la, lb]

def ShellKept (π : Rat) (d : DElem) : Prop :=
  ∀ la lb : String, (do let d' ← reloadElem π d [la, lb]; pure (shell π d') : Except Err _) =
    (do let _ ← elemComp π d [la, lb]; pure (shell π d))

/-- a reloaded element is a fixed point of further save/load cycles, whatever terminal names
it is translated with -/
def FixedAfter (π : Rat) (d : DElem) : Prop :=
  ∀ la lb la' lb' : String,
    (do let k ← elemComp π d [la, lb]; let d' ← reloadFrom π d k
        let k' ← elemComp π d' [la', lb']; reloadFrom π d' k') =
    (do let k ← elemComp π d [la, lb]; let d' ← reloadFrom π d k
        let _ ← elemComp π d' [la', lb']; pure d')

structure ElemStable (π : Rat) (d : DElem) : Prop where
  roundtrip : RoundTrips π d
  fixed : FixedAfter π d
  shell : ShellKept π d

theorem ElemStable.idempotent {π : Rat} {d : DElem} (h : ElemStable π d) : Idempotent π d := by
  intro la lb
  have hF := h.fixed la lb la lb
  have hB := h.roundtrip la lb la lb
  unfold reloadElem
  cases hk : elemComp π d [la, lb] with
  | error e => simp [hk, bind, Except.bind]
  | ok k =>
    simp only [hk, bind, Except.bind] at hF hB ⊢
    cases hd : reloadFrom π d k with
    | error e => simp [hd]
    | ok d' =>
      simp only [hd] at hF hB ⊢
      rw [hB] at hF
      simp only [pure, Except.pure] at hF
      rw [hB]; exact hF

/-- `n` save/load cycles of one element -/
def reloadN (π : Rat) (nodes : List String) : Nat → DElem → Except Err DElem
  | 0, d => pure d
  | n + 1, d => do reloadElem π (← reloadN π nodes n d) nodes

theorem reloadN_succ_eq {π : Rat} {d : DElem} (h : Idempotent π d) (la lb : String) (n : Nat) :
    reloadN π [la, lb] (n + 1) d = reloadElem π d [la, lb] := by
  induction n with
  | zero => simp [reloadN, bind, Except.bind, pure, Except.pure]
  | succ n ih =>
    show (do reloadElem π (← reloadN π [la, lb] (n + 1) d) [la, lb]) = _
    rw [ih]; exact h la lb

theorem roundtrip_same_nodes {π : Rat} {d : DElem} (h : RoundTrips π d) (la lb : String) :
    (do elemComp π (← reloadElem π d [la, lb]) [la, lb]) = elemComp π d [la, lb] := by
  have := h la lb la lb
  unfold reloadElem
  cases hk : elemComp π d [la, lb] with
  | error e => simp [hk, bind, Except.bind]
  | ok k =>
    simp only [hk, bind, Except.bind] at this ⊢
    exact this

/-- any positive number of cycles gives the component of the original element -/
theorem elem_cycles_stable {π : Rat} {d : DElem} (h : ElemStable π d) (n : Nat) (la lb : String) :
    (do elemComp π (← reloadN π [la, lb] (n + 1) d) [la, lb]) = elemComp π d [la, lb] := by
  rw [reloadN_succ_eq h.idempotent]; exact roundtrip_same_nodes h.roundtrip la lb

theorem GQ.im_zero : (0 : GQ).im = 0 := rfl
theorem GQ.re_zero : (0 : GQ).re = 0 := rfl
theorem GQ.mk_zero : (⟨0, 0⟩ : GQ) = 0 := rfl
theorem GQ.mk_eq_zero (r i : Rat) : ((⟨r, i⟩ : GQ) = 0) = (r = 0 ∧ i = 0) := by
  simp [GQ.zero_def]
theorem GQ.eta (z : GQ) : (⟨z.re, z.im⟩ : GQ) = z := rfl

end CC.Draw
