/-
  CC.Proofs.DrawRoundTrip — one save/load cycle of a single drawing element, evaluated
  symbolically on the interpretive model (CC/Model/DrawIO.lean over the generated tables):
  for every persistable symbol class and *all* values, reversal flags, names and anchors

    (B) the reloaded element translates to the same component        `RoundTrips`
    (F) reloading a reloaded element changes nothing                  `Idempotent`
    (S) class, anchors, name, reversal flag and node id are kept      `ShellKept`

  and hence any number of cycles gives the same component (`elem_cycles_stable`).
  The element is saved together with its own translated component as the circuit section
  (`reloadElem`); lifting this to whole drawings (the circuit section of a drawing is looked
  up by element name) is `C15_roundtrip_statement`, still open.

  The proofs unfold the generated tables: when /repo changes a constructor, a translator, a
  component constructor or the loader table, they are re-checked against the new tables.
-/
import CC.Proofs.DrawIO
set_option linter.unusedSectionVars false
set_option linter.unusedSimpArgs false
set_option linter.unusedVariables false
namespace CC.Draw

/-- the component a single drawing element translates to, for given terminal names -/
def elemComp (π : Rat) (d : DElem) (nodes : List String) : Except Err (Option Component) := do
  let s ← d.toSym π
  match Gen.translatorMap.lookup s.cls with
  | none => throw Err.unknownKind
  | some f =>
    match Gen.translators.lookup f with
    | none => throw (Err.other "translator missing")
    | some cases => runCases π s nodes cases

/-- save the element (with its own component as the circuit section) and load it again -/
def reloadElem (π : Rat) (d : DElem) (nodes : List String) : Except Err DElem := do
  let c ← elemComp π d nodes
  let saved ← dictifyElement π d
  let circ := match c with | some k => [(k.id, k.value)] | none => []
  undictifyDElem circ saved

/-- what the parser sees of an element besides its translator attributes -/
def shell (π : Rat) (d : DElem) : String × Pt × Pt × Option (String × Bool × String) :=
  (d.cls, d.start, d.stop, match d.toSym π with | .ok s => some (s.name, s.rev, s.nodeId) | .error _ => none)

def RoundTrips (π : Rat) (d : DElem) : Prop :=
  ∀ la lb : String, (do elemComp π (← reloadElem π d [la, lb]) [la, lb]) = elemComp π d [la, lb]

def Idempotent (π : Rat) (d : DElem) : Prop :=
  ∀ la lb : String, (do reloadElem π (← reloadElem π d [la, lb]) [la, lb]) = reloadElem π d [la, lb]

def ShellKept (π : Rat) (d : DElem) : Prop :=
  ∀ la lb : String, (do let d' ← reloadElem π d [la, lb]; pure (shell π d') : Except Err _) =
    (do let _ ← elemComp π d [la, lb]; pure (shell π d))

structure ElemStable (π : Rat) (d : DElem) : Prop where
  roundtrip : RoundTrips π d
  idempotent : Idempotent π d
  shell : ShellKept π d

/-- `n` save/load cycles of one element -/
def reloadN (π : Rat) (nodes : List String) : Nat → DElem → Except Err DElem
  | 0, d => pure d
  | n + 1, d => do reloadElem π (← reloadN π nodes n d) nodes

theorem reloadN_succ_eq {π : Rat} {d : DElem} (h : Idempotent π d) (la lb : String) (n : Nat) :
    reloadN π [la, lb] (n + 1) d = reloadElem π d [la, lb] := by
  induction n with
  | zero => simp [reloadN, bind, Except.bind, pure, Except.pure]
  | succ n ih =>
    show (do reloadElem π (← reloadN π [la, lb] (n + 1) d) [la, lb]) = _
    rw [ih]; exact h la lb

/-- any positive number of cycles gives the component of the original element -/
theorem elem_cycles_stable {π : Rat} {d : DElem} (h : ElemStable π d) (n : Nat) (la lb : String) :
    (do elemComp π (← reloadN π [la, lb] (n + 1) d) [la, lb]) = elemComp π d [la, lb] := by
  rw [reloadN_succ_eq h.idempotent]; exact h.roundtrip la lb

theorem GQ.im_zero : (0 : GQ).im = 0 := rfl
theorem GQ.re_zero : (0 : GQ).re = 0 := rfl
theorem GQ.mk_zero : (⟨0, 0⟩ : GQ) = 0 := rfl
theorem GQ.mk_eq_zero (r i : Rat) : ((⟨r, i⟩ : GQ) = 0) = (r = 0 ∧ i = 0) := by
  simp [GQ.zero_def]
theorem GQ.eta (z : GQ) : (⟨z.re, z.im⟩ : GQ) = z := rfl

section
attribute [local simp] RoundTrips Idempotent ShellKept shell elemComp reloadElem DElem.toSym construct classInfo
    Gen.elemClasses classChain bindParams evalF evalP
    lookupD truthy dictSet List.lookup List.find? negVal Gen.translatorMap Gen.translators runCases runCase
    nodeTuple evalV Sym.getAttr Gen.ctors applyCtor evalC valNeg dictifyElement userParams serializeVal undictifyDElem
    undictifyKwargs combineToComplex Gen.loaderTypes dictUpdate bind Except.bind pure Except.pure List.mapM List.mapM.loop List.foldlM
    forIn Gen.knownWavetypes GQ.neg_def GQ.eta GQ.im_zero GQ.re_zero GQ.mk_zero GQ.mk_eq_zero Functor.map Except.map throw throwThe MonadExceptOf.throw

set_option maxRecDepth 8000
set_option maxHeartbeats 400000

theorem rt_VoltageSource (π : Rat) (z : GQ) (rev : Bool) (name : String) (a b : Pt) :
    RoundTrips π ⟨"VoltageSource", [("V", .num z), ("name", .str name), ("reverse", .bool rev)], a, b⟩ := by
  intro la lb
  cases rev <;> simp

theorem fx_VoltageSource (π : Rat) (z : GQ) (rev : Bool) (name : String) (a b : Pt) :
    Idempotent π ⟨"VoltageSource", [("V", .num z), ("name", .str name), ("reverse", .bool rev)], a, b⟩ := by
  intro la lb
  cases rev <;> simp

theorem sh_VoltageSource (π : Rat) (z : GQ) (rev : Bool) (name : String) (a b : Pt) :
    ShellKept π ⟨"VoltageSource", [("V", .num z), ("name", .str name), ("reverse", .bool rev)], a, b⟩ := by
  intro la lb
  cases rev <;> simp

theorem stable_VoltageSource (π : Rat) (z : GQ) (rev : Bool) (name : String) (a b : Pt) :
    ElemStable π ⟨"VoltageSource", [("V", .num z), ("name", .str name), ("reverse", .bool rev)], a, b⟩ :=
  ⟨rt_VoltageSource π z rev name a b, fx_VoltageSource π z rev name a b, sh_VoltageSource π z rev name a b⟩

theorem rt_CurrentSource (π : Rat) (z : GQ) (rev : Bool) (name : String) (a b : Pt) :
    RoundTrips π ⟨"CurrentSource", [("I", .num z), ("name", .str name), ("reverse", .bool rev)], a, b⟩ := by
  intro la lb
  cases rev <;> simp

theorem fx_CurrentSource (π : Rat) (z : GQ) (rev : Bool) (name : String) (a b : Pt) :
    Idempotent π ⟨"CurrentSource", [("I", .num z), ("name", .str name), ("reverse", .bool rev)], a, b⟩ := by
  intro la lb
  cases rev <;> simp

theorem sh_CurrentSource (π : Rat) (z : GQ) (rev : Bool) (name : String) (a b : Pt) :
    ShellKept π ⟨"CurrentSource", [("I", .num z), ("name", .str name), ("reverse", .bool rev)], a, b⟩ := by
  intro la lb
  cases rev <;> simp

theorem stable_CurrentSource (π : Rat) (z : GQ) (rev : Bool) (name : String) (a b : Pt) :
    ElemStable π ⟨"CurrentSource", [("I", .num z), ("name", .str name), ("reverse", .bool rev)], a, b⟩ :=
  ⟨rt_CurrentSource π z rev name a b, fx_CurrentSource π z rev name a b, sh_CurrentSource π z rev name a b⟩

theorem rt_ComplexVoltageSource (π : Rat) (z : GQ) (rev : Bool) (name : String) (a b : Pt) :
    RoundTrips π ⟨"ComplexVoltageSource", [("V", .num z), ("name", .str name), ("reverse", .bool rev)], a, b⟩ := by
  intro la lb
  by_cases h0 : z.im = 0 <;> cases rev <;> simp [h0]

theorem fx_ComplexVoltageSource (π : Rat) (z : GQ) (rev : Bool) (name : String) (a b : Pt) :
    Idempotent π ⟨"ComplexVoltageSource", [("V", .num z), ("name", .str name), ("reverse", .bool rev)], a, b⟩ := by
  intro la lb
  by_cases h0 : z.im = 0 <;> cases rev <;> simp [h0]

theorem sh_ComplexVoltageSource (π : Rat) (z : GQ) (rev : Bool) (name : String) (a b : Pt) :
    ShellKept π ⟨"ComplexVoltageSource", [("V", .num z), ("name", .str name), ("reverse", .bool rev)], a, b⟩ := by
  intro la lb
  by_cases h0 : z.im = 0 <;> cases rev <;> simp [h0]

theorem stable_ComplexVoltageSource (π : Rat) (z : GQ) (rev : Bool) (name : String) (a b : Pt) :
    ElemStable π ⟨"ComplexVoltageSource", [("V", .num z), ("name", .str name), ("reverse", .bool rev)], a, b⟩ :=
  ⟨rt_ComplexVoltageSource π z rev name a b, fx_ComplexVoltageSource π z rev name a b, sh_ComplexVoltageSource π z rev name a b⟩

theorem rt_ComplexCurrentSource_reversed (π : Rat) (z : GQ) (name : String) (a b : Pt) :
    RoundTrips π ⟨"ComplexCurrentSource", [("I", .num z), ("name", .str name), ("reverse", .bool true)], a, b⟩ := by
  intro la lb
  by_cases h0 : z.im = 0 <;> simp [h0]

theorem fx_ComplexCurrentSource_reversed (π : Rat) (z : GQ) (name : String) (a b : Pt) :
    Idempotent π ⟨"ComplexCurrentSource", [("I", .num z), ("name", .str name), ("reverse", .bool true)], a, b⟩ := by
  intro la lb
  by_cases h0 : z.im = 0 <;> simp [h0]

theorem sh_ComplexCurrentSource_reversed (π : Rat) (z : GQ) (name : String) (a b : Pt) :
    ShellKept π ⟨"ComplexCurrentSource", [("I", .num z), ("name", .str name), ("reverse", .bool true)], a, b⟩ := by
  intro la lb
  by_cases h0 : z.im = 0 <;> simp [h0]

theorem stable_ComplexCurrentSource_reversed (π : Rat) (z : GQ) (name : String) (a b : Pt) :
    ElemStable π ⟨"ComplexCurrentSource", [("I", .num z), ("name", .str name), ("reverse", .bool true)], a, b⟩ :=
  ⟨rt_ComplexCurrentSource_reversed π z name a b, fx_ComplexCurrentSource_reversed π z name a b, sh_ComplexCurrentSource_reversed π z name a b⟩

theorem rt_ACVoltageSource (π : Rat) (v w phi : GQ) (hv : v.im = 0) (hw : w.im = 0) (hw0 : ¬ w.re < 0) (hp : phi.im = 0) (rev : Bool) (name : String) (a b : Pt) :
    RoundTrips π ⟨"ACVoltageSource", [("V", .num v), ("w", .num w), ("phi", .num phi), ("name", .str name), ("reverse", .bool rev)], a, b⟩ := by
  intro la lb
  cases rev <;> simp [hv, hw, hw0, hp]

theorem fx_ACVoltageSource (π : Rat) (v w phi : GQ) (hv : v.im = 0) (hw : w.im = 0) (hw0 : ¬ w.re < 0) (hp : phi.im = 0) (rev : Bool) (name : String) (a b : Pt) :
    Idempotent π ⟨"ACVoltageSource", [("V", .num v), ("w", .num w), ("phi", .num phi), ("name", .str name), ("reverse", .bool rev)], a, b⟩ := by
  intro la lb
  cases rev <;> simp [hv, hw, hw0, hp]

theorem sh_ACVoltageSource (π : Rat) (v w phi : GQ) (hv : v.im = 0) (hw : w.im = 0) (hw0 : ¬ w.re < 0) (hp : phi.im = 0) (rev : Bool) (name : String) (a b : Pt) :
    ShellKept π ⟨"ACVoltageSource", [("V", .num v), ("w", .num w), ("phi", .num phi), ("name", .str name), ("reverse", .bool rev)], a, b⟩ := by
  intro la lb
  cases rev <;> simp [hv, hw, hw0, hp]

theorem stable_ACVoltageSource (π : Rat) (v w phi : GQ) (hv : v.im = 0) (hw : w.im = 0) (hw0 : ¬ w.re < 0) (hp : phi.im = 0) (rev : Bool) (name : String) (a b : Pt) :
    ElemStable π ⟨"ACVoltageSource", [("V", .num v), ("w", .num w), ("phi", .num phi), ("name", .str name), ("reverse", .bool rev)], a, b⟩ :=
  ⟨rt_ACVoltageSource π v w phi hv hw hw0 hp rev name a b, fx_ACVoltageSource π v w phi hv hw hw0 hp rev name a b, sh_ACVoltageSource π v w phi hv hw hw0 hp rev name a b⟩

theorem rt_ACCurrentSource (π : Rat) (v w phi : GQ) (hv : v.im = 0) (hw : w.im = 0) (hw0 : ¬ w.re < 0) (hp : phi.im = 0) (rev : Bool) (name : String) (a b : Pt) :
    RoundTrips π ⟨"ACCurrentSource", [("I", .num v), ("w", .num w), ("phi", .num phi), ("name", .str name), ("reverse", .bool rev)], a, b⟩ := by
  intro la lb
  cases rev <;> simp [hv, hw, hw0, hp]

theorem fx_ACCurrentSource (π : Rat) (v w phi : GQ) (hv : v.im = 0) (hw : w.im = 0) (hw0 : ¬ w.re < 0) (hp : phi.im = 0) (rev : Bool) (name : String) (a b : Pt) :
    Idempotent π ⟨"ACCurrentSource", [("I", .num v), ("w", .num w), ("phi", .num phi), ("name", .str name), ("reverse", .bool rev)], a, b⟩ := by
  intro la lb
  cases rev <;> simp [hv, hw, hw0, hp]

theorem sh_ACCurrentSource (π : Rat) (v w phi : GQ) (hv : v.im = 0) (hw : w.im = 0) (hw0 : ¬ w.re < 0) (hp : phi.im = 0) (rev : Bool) (name : String) (a b : Pt) :
    ShellKept π ⟨"ACCurrentSource", [("I", .num v), ("w", .num w), ("phi", .num phi), ("name", .str name), ("reverse", .bool rev)], a, b⟩ := by
  intro la lb
  cases rev <;> simp [hv, hw, hw0, hp]

theorem stable_ACCurrentSource (π : Rat) (v w phi : GQ) (hv : v.im = 0) (hw : w.im = 0) (hw0 : ¬ w.re < 0) (hp : phi.im = 0) (rev : Bool) (name : String) (a b : Pt) :
    ElemStable π ⟨"ACCurrentSource", [("I", .num v), ("w", .num w), ("phi", .num phi), ("name", .str name), ("reverse", .bool rev)], a, b⟩ :=
  ⟨rt_ACCurrentSource π v w phi hv hw hw0 hp rev name a b, fx_ACCurrentSource π v w phi hv hw hw0 hp rev name a b, sh_ACCurrentSource π v w phi hv hw hw0 hp rev name a b⟩

theorem rt_RectVoltageSource (π : Rat) (v w phi : GQ) (hv : v.im = 0) (hw : w.im = 0) (hw0 : ¬ w.re < 0) (hp : phi.im = 0) (rev : Bool) (name : String) (a b : Pt) :
    RoundTrips π ⟨"RectVoltageSource", [("V", .num v), ("w", .num w), ("phi", .num phi), ("name", .str name), ("reverse", .bool rev)], a, b⟩ := by
  intro la lb
  cases rev <;> simp [hv, hw, hw0, hp]

theorem fx_RectVoltageSource (π : Rat) (v w phi : GQ) (hv : v.im = 0) (hw : w.im = 0) (hw0 : ¬ w.re < 0) (hp : phi.im = 0) (rev : Bool) (name : String) (a b : Pt) :
    Idempotent π ⟨"RectVoltageSource", [("V", .num v), ("w", .num w), ("phi", .num phi), ("name", .str name), ("reverse", .bool rev)], a, b⟩ := by
  intro la lb
  cases rev <;> simp [hv, hw, hw0, hp]

theorem sh_RectVoltageSource (π : Rat) (v w phi : GQ) (hv : v.im = 0) (hw : w.im = 0) (hw0 : ¬ w.re < 0) (hp : phi.im = 0) (rev : Bool) (name : String) (a b : Pt) :
    ShellKept π ⟨"RectVoltageSource", [("V", .num v), ("w", .num w), ("phi", .num phi), ("name", .str name), ("reverse", .bool rev)], a, b⟩ := by
  intro la lb
  cases rev <;> simp [hv, hw, hw0, hp]

theorem stable_RectVoltageSource (π : Rat) (v w phi : GQ) (hv : v.im = 0) (hw : w.im = 0) (hw0 : ¬ w.re < 0) (hp : phi.im = 0) (rev : Bool) (name : String) (a b : Pt) :
    ElemStable π ⟨"RectVoltageSource", [("V", .num v), ("w", .num w), ("phi", .num phi), ("name", .str name), ("reverse", .bool rev)], a, b⟩ :=
  ⟨rt_RectVoltageSource π v w phi hv hw hw0 hp rev name a b, fx_RectVoltageSource π v w phi hv hw hw0 hp rev name a b, sh_RectVoltageSource π v w phi hv hw hw0 hp rev name a b⟩

theorem rt_RectCurrentSource (π : Rat) (v w phi : GQ) (hv : v.im = 0) (hw : w.im = 0) (hw0 : ¬ w.re < 0) (hp : phi.im = 0) (rev : Bool) (name : String) (a b : Pt) :
    RoundTrips π ⟨"RectCurrentSource", [("I", .num v), ("w", .num w), ("phi", .num phi), ("name", .str name), ("reverse", .bool rev)], a, b⟩ := by
  intro la lb
  cases rev <;> simp [hv, hw, hw0, hp]

theorem fx_RectCurrentSource (π : Rat) (v w phi : GQ) (hv : v.im = 0) (hw : w.im = 0) (hw0 : ¬ w.re < 0) (hp : phi.im = 0) (rev : Bool) (name : String) (a b : Pt) :
    Idempotent π ⟨"RectCurrentSource", [("I", .num v), ("w", .num w), ("phi", .num phi), ("name", .str name), ("reverse", .bool rev)], a, b⟩ := by
  intro la lb
  cases rev <;> simp [hv, hw, hw0, hp]

theorem sh_RectCurrentSource (π : Rat) (v w phi : GQ) (hv : v.im = 0) (hw : w.im = 0) (hw0 : ¬ w.re < 0) (hp : phi.im = 0) (rev : Bool) (name : String) (a b : Pt) :
    ShellKept π ⟨"RectCurrentSource", [("I", .num v), ("w", .num w), ("phi", .num phi), ("name", .str name), ("reverse", .bool rev)], a, b⟩ := by
  intro la lb
  cases rev <;> simp [hv, hw, hw0, hp]

theorem stable_RectCurrentSource (π : Rat) (v w phi : GQ) (hv : v.im = 0) (hw : w.im = 0) (hw0 : ¬ w.re < 0) (hp : phi.im = 0) (rev : Bool) (name : String) (a b : Pt) :
    ElemStable π ⟨"RectCurrentSource", [("I", .num v), ("w", .num w), ("phi", .num phi), ("name", .str name), ("reverse", .bool rev)], a, b⟩ :=
  ⟨rt_RectCurrentSource π v w phi hv hw hw0 hp rev name a b, fx_RectCurrentSource π v w phi hv hw hw0 hp rev name a b, sh_RectCurrentSource π v w phi hv hw hw0 hp rev name a b⟩

theorem rt_Resistor (π : Rat) (z : GQ) (him : z.im = 0) (hpos : ¬ z.re < 0) (rev : Bool) (name : String) (a b : Pt) :
    RoundTrips π ⟨"Resistor", [("R", .num z), ("name", .str name), ("reverse", .bool rev)], a, b⟩ := by
  intro la lb
  by_cases h0 : z = 0
  · subst h0; cases rev <;> simp
  · cases rev <;> simp [h0, him, hpos]

theorem fx_Resistor (π : Rat) (z : GQ) (him : z.im = 0) (hpos : ¬ z.re < 0) (rev : Bool) (name : String) (a b : Pt) :
    Idempotent π ⟨"Resistor", [("R", .num z), ("name", .str name), ("reverse", .bool rev)], a, b⟩ := by
  intro la lb
  by_cases h0 : z = 0
  · subst h0; cases rev <;> simp
  · cases rev <;> simp [h0, him, hpos]

theorem sh_Resistor (π : Rat) (z : GQ) (him : z.im = 0) (hpos : ¬ z.re < 0) (rev : Bool) (name : String) (a b : Pt) :
    ShellKept π ⟨"Resistor", [("R", .num z), ("name", .str name), ("reverse", .bool rev)], a, b⟩ := by
  intro la lb
  by_cases h0 : z = 0
  · subst h0; cases rev <;> simp
  · cases rev <;> simp [h0, him, hpos]

theorem stable_Resistor (π : Rat) (z : GQ) (him : z.im = 0) (hpos : ¬ z.re < 0) (rev : Bool) (name : String) (a b : Pt) :
    ElemStable π ⟨"Resistor", [("R", .num z), ("name", .str name), ("reverse", .bool rev)], a, b⟩ :=
  ⟨rt_Resistor π z him hpos rev name a b, fx_Resistor π z him hpos rev name a b, sh_Resistor π z him hpos rev name a b⟩

theorem rt_Conductance (π : Rat) (z : GQ) (him : z.im = 0) (hpos : ¬ z.re < 0) (rev : Bool) (name : String) (a b : Pt) :
    RoundTrips π ⟨"Conductance", [("G", .num z), ("name", .str name), ("reverse", .bool rev)], a, b⟩ := by
  intro la lb
  by_cases h0 : z = 0
  · subst h0; cases rev <;> simp
  · cases rev <;> simp [h0, him, hpos]

theorem fx_Conductance (π : Rat) (z : GQ) (him : z.im = 0) (hpos : ¬ z.re < 0) (rev : Bool) (name : String) (a b : Pt) :
    Idempotent π ⟨"Conductance", [("G", .num z), ("name", .str name), ("reverse", .bool rev)], a, b⟩ := by
  intro la lb
  by_cases h0 : z = 0
  · subst h0; cases rev <;> simp
  · cases rev <;> simp [h0, him, hpos]

theorem sh_Conductance (π : Rat) (z : GQ) (him : z.im = 0) (hpos : ¬ z.re < 0) (rev : Bool) (name : String) (a b : Pt) :
    ShellKept π ⟨"Conductance", [("G", .num z), ("name", .str name), ("reverse", .bool rev)], a, b⟩ := by
  intro la lb
  by_cases h0 : z = 0
  · subst h0; cases rev <;> simp
  · cases rev <;> simp [h0, him, hpos]

theorem stable_Conductance (π : Rat) (z : GQ) (him : z.im = 0) (hpos : ¬ z.re < 0) (rev : Bool) (name : String) (a b : Pt) :
    ElemStable π ⟨"Conductance", [("G", .num z), ("name", .str name), ("reverse", .bool rev)], a, b⟩ :=
  ⟨rt_Conductance π z him hpos rev name a b, fx_Conductance π z him hpos rev name a b, sh_Conductance π z him hpos rev name a b⟩

theorem rt_Capacitor (π : Rat) (z : GQ) (him : z.im = 0) (hpos : ¬ z.re < 0) (rev : Bool) (name : String) (a b : Pt) :
    RoundTrips π ⟨"Capacitor", [("C", .num z), ("name", .str name), ("reverse", .bool rev)], a, b⟩ := by
  intro la lb
  cases rev <;> simp [him, hpos]

theorem fx_Capacitor (π : Rat) (z : GQ) (him : z.im = 0) (hpos : ¬ z.re < 0) (rev : Bool) (name : String) (a b : Pt) :
    Idempotent π ⟨"Capacitor", [("C", .num z), ("name", .str name), ("reverse", .bool rev)], a, b⟩ := by
  intro la lb
  cases rev <;> simp [him, hpos]

theorem sh_Capacitor (π : Rat) (z : GQ) (him : z.im = 0) (hpos : ¬ z.re < 0) (rev : Bool) (name : String) (a b : Pt) :
    ShellKept π ⟨"Capacitor", [("C", .num z), ("name", .str name), ("reverse", .bool rev)], a, b⟩ := by
  intro la lb
  cases rev <;> simp [him, hpos]

theorem stable_Capacitor (π : Rat) (z : GQ) (him : z.im = 0) (hpos : ¬ z.re < 0) (rev : Bool) (name : String) (a b : Pt) :
    ElemStable π ⟨"Capacitor", [("C", .num z), ("name", .str name), ("reverse", .bool rev)], a, b⟩ :=
  ⟨rt_Capacitor π z him hpos rev name a b, fx_Capacitor π z him hpos rev name a b, sh_Capacitor π z him hpos rev name a b⟩

theorem rt_Inductance (π : Rat) (z : GQ) (him : z.im = 0) (hpos : ¬ z.re < 0) (rev : Bool) (name : String) (a b : Pt) :
    RoundTrips π ⟨"Inductance", [("L", .num z), ("name", .str name), ("reverse", .bool rev)], a, b⟩ := by
  intro la lb
  cases rev <;> simp [him, hpos]

theorem fx_Inductance (π : Rat) (z : GQ) (him : z.im = 0) (hpos : ¬ z.re < 0) (rev : Bool) (name : String) (a b : Pt) :
    Idempotent π ⟨"Inductance", [("L", .num z), ("name", .str name), ("reverse", .bool rev)], a, b⟩ := by
  intro la lb
  cases rev <;> simp [him, hpos]

theorem sh_Inductance (π : Rat) (z : GQ) (him : z.im = 0) (hpos : ¬ z.re < 0) (rev : Bool) (name : String) (a b : Pt) :
    ShellKept π ⟨"Inductance", [("L", .num z), ("name", .str name), ("reverse", .bool rev)], a, b⟩ := by
  intro la lb
  cases rev <;> simp [him, hpos]

theorem stable_Inductance (π : Rat) (z : GQ) (him : z.im = 0) (hpos : ¬ z.re < 0) (rev : Bool) (name : String) (a b : Pt) :
    ElemStable π ⟨"Inductance", [("L", .num z), ("name", .str name), ("reverse", .bool rev)], a, b⟩ :=
  ⟨rt_Inductance π z him hpos rev name a b, fx_Inductance π z him hpos rev name a b, sh_Inductance π z him hpos rev name a b⟩

theorem rt_Impedance (π : Rat) (r i : Rat) (rev : Bool) (name : String) (a b : Pt) :
    RoundTrips π ⟨"Impedance", [("Z", .num ⟨r, i⟩), ("name", .str name), ("reverse", .bool rev)], a, b⟩ := by
  intro la lb
  by_cases hr : r = 0 <;> by_cases hi : i = 0 <;> cases rev <;> simp [hr, hi]

theorem fx_Impedance (π : Rat) (r i : Rat) (rev : Bool) (name : String) (a b : Pt) :
    Idempotent π ⟨"Impedance", [("Z", .num ⟨r, i⟩), ("name", .str name), ("reverse", .bool rev)], a, b⟩ := by
  intro la lb
  by_cases hr : r = 0 <;> by_cases hi : i = 0 <;> cases rev <;> simp [hr, hi]

theorem sh_Impedance (π : Rat) (r i : Rat) (rev : Bool) (name : String) (a b : Pt) :
    ShellKept π ⟨"Impedance", [("Z", .num ⟨r, i⟩), ("name", .str name), ("reverse", .bool rev)], a, b⟩ := by
  intro la lb
  by_cases hr : r = 0 <;> by_cases hi : i = 0 <;> cases rev <;> simp [hr, hi]

theorem stable_Impedance (π : Rat) (r i : Rat) (rev : Bool) (name : String) (a b : Pt) :
    ElemStable π ⟨"Impedance", [("Z", .num ⟨r, i⟩), ("name", .str name), ("reverse", .bool rev)], a, b⟩ :=
  ⟨rt_Impedance π r i rev name a b, fx_Impedance π r i rev name a b, sh_Impedance π r i rev name a b⟩

theorem rt_Ground (π : Rat)  (name : String) (a b : Pt) :
    RoundTrips π ⟨"Ground", [("name", .str name)], a, b⟩ := by
  intro la lb
  simp

theorem fx_Ground (π : Rat)  (name : String) (a b : Pt) :
    Idempotent π ⟨"Ground", [("name", .str name)], a, b⟩ := by
  intro la lb
  simp

theorem sh_Ground (π : Rat)  (name : String) (a b : Pt) :
    ShellKept π ⟨"Ground", [("name", .str name)], a, b⟩ := by
  intro la lb
  simp

theorem stable_Ground (π : Rat)  (name : String) (a b : Pt) :
    ElemStable π ⟨"Ground", [("name", .str name)], a, b⟩ :=
  ⟨rt_Ground π  name a b, fx_Ground π  name a b, sh_Ground π  name a b⟩

theorem rt_Line (π : Rat) (rev : Bool) (name : String) (a b : Pt) :
    RoundTrips π ⟨"Line", [("reverse", .bool rev)], a, b⟩ := by
  intro la lb
  cases rev <;> simp

theorem fx_Line (π : Rat) (rev : Bool) (name : String) (a b : Pt) :
    Idempotent π ⟨"Line", [("reverse", .bool rev)], a, b⟩ := by
  intro la lb
  cases rev <;> simp

theorem sh_Line (π : Rat) (rev : Bool) (name : String) (a b : Pt) :
    ShellKept π ⟨"Line", [("reverse", .bool rev)], a, b⟩ := by
  intro la lb
  cases rev <;> simp

theorem stable_Line (π : Rat) (rev : Bool) (name : String) (a b : Pt) :
    ElemStable π ⟨"Line", [("reverse", .bool rev)], a, b⟩ :=
  ⟨rt_Line π rev name a b, fx_Line π rev name a b, sh_Line π rev name a b⟩

end

end CC.Draw
