/-
  CC.Proofs.TransformersGen — the generated model of Network/transformers.py
  (CC/Gen/Transformers.lean, translated from the Python AST on every run) equals the hand-written
  model CC/Model/Transform.lean, function by function.
-/
import CC.Gen.Transformers
import CC.Model.Transform
import CC.Properties.C01Gen
set_option linter.unusedSectionVars false
set_option linter.unusedSimpArgs false

namespace CC
open CC.Gen.Core CC.Gen.Transformers CC.Py

variable {L K : Type} [DecidableEq L] [LabelOrd L] [Field K] [DecidableEq K]

/-- an element object (generated reading: a triple) as the exemption list of the hand model sees it -/
def ElemKey.ofElt (el : Py.Elt K) : ElemKey K := ⟨el.1, el.2.1, el.2.2⟩

theorem ElemKey.ofElt_injective : Function.Injective (ElemKey.ofElt (K := K)) := by
  rintro ⟨a, b, c⟩ ⟨a', b', c'⟩ h
  simp only [ElemKey.ofElt, ElemKey.mk.injEq] at h
  obtain ⟨rfl, rfl, rfl⟩ := h
  rfl

theorem ElemKey.ofElt_element (b : Branch L K) : ElemKey.ofElt (Py.element b) = b.key := rfl

/-- `b.element in keep` under dataclass equality is the hand model's `keep.contains b.key` -/
theorem gen_mem_keep (b : Branch L K) (keep : List (Py.Elt K)) :
    decide (Py.element b ∈ keep) = (keep.map ElemKey.ofElt).contains b.key := by
  rw [← ElemKey.ofElt_element, Bool.eq_iff_iff]
  simp only [decide_eq_true_eq, List.contains_iff_mem, List.mem_map]
  constructor
  · intro h; exact ⟨_, h, rfl⟩
  · rintro ⟨x, hx, he⟩; rwa [← ElemKey.ofElt_injective he]

theorem gen_not_mem_keep (b : Branch L K) (keep : List (Py.Elt K)) :
    decide (Py.element b ∉ keep) = !((keep.map ElemKey.ofElt).contains b.key) := by
  rw [← gen_mem_keep]; simp

/-- `Network(branches, zero)` -/
theorem gen_construct (bs : List (Branch L K)) (z : L) :
    Py.construct Gen.Core.Network.post_init bs z = Net.mk? bs z := by
  unfold Py.construct Net.mk?
  rw [gen_check]
  rfl

theorem gen_mkBranch_n1 (b : Branch L K) (rn : L) : Py.mkBranch rn b.n2 (Py.element b) = { b with n1 := rn } := rfl
theorem gen_mkBranch_n2 (b : Branch L K) (rn : L) : Py.mkBranch b.n1 rn (Py.element b) = { b with n2 := rn } := rfl

/-- `l.remove(x)` of an element that occurs: the hand model's `removeFirst` -/
theorem gen_listRemove {α : Type} [DecidableEq α] (x : α) (l : List α) (h : x ∈ l) :
    Py.listRemove x l = .ok (removeFirst x l) := by
  induction l with
  | nil => simp at h
  | cons a l ih =>
    by_cases ha : a = x
    · simp [Py.listRemove, removeFirst, ha]
    · have : x ∈ l := by
        rcases List.mem_cons.1 h with h' | h'
        · exact absurd h'.symm ha
        · exact h'
      simp [Py.listRemove, removeFirst, ha, ih this]

theorem gen_is_zero_node (N : Net L K) (n : L) : Gen.Transformers.Network.is_zero_node N n = decide (n = N.zero) := rfl

theorem gen_switchGround (N : Net L K) (g : L) : switch_ground_node N g = switchGround N g := by
  simp only [switch_ground_node, switchGround, gen_construct]

theorem gen_removeElement (N : Net L K) (id : String) : remove_element N id = removeElement N id := by
  unfold remove_element removeElement
  rw [gen_getitem]
  cases h : N.get? id with
  | none => rfl
  | some b =>
    have hb := (get?_some_mem N h).1
    simp only [bind, Except.bind, gen_listRemove b N.branches hb, gen_construct]

theorem gen_removeOpen (N : Net L K) : remove_open_circuit_elements N = removeOpen N := by
  simp only [remove_open_circuit_elements, removeOpen, gen_construct, gen_isOpen]

theorem gen_contractStep (bs : List (Branch L K)) (an rn : L) :
    (((bs.map fun b => if decide (b.n1 = an) then Py.mkBranch rn b.n2 (Py.element b) else b).map
        fun b => if decide (b.n2 = an) then Py.mkBranch b.n1 rn (Py.element b) else b).filter
        fun b => decide (b.n1 ≠ b.n2)) = contractStep bs an rn := by
  simp only [contractStep, gen_mkBranch_n1, gen_mkBranch_n2, decide_eq_true_eq]

theorem gen_shortPairs (N : Net L K) (keep : List (Py.Elt K)) :
    ((N.branches.filter fun b => is_short_circuit b.e && decide (Py.element b ∉ keep)).map fun vs =>
        if (!(Gen.Transformers.Network.is_zero_node N vs.n1)) then (vs.n1, vs.n2) else (vs.n2, vs.n1))
      = shortPairs N (keep.map ElemKey.ofElt) := by
  simp only [shortPairs, gen_isShort, gen_not_mem_keep, gen_is_zero_node]
  congr 1
  funext vs
  by_cases h : vs.n1 = N.zero <;> simp [h]

/-- one pass of the generated loop in terms of the hand model: `pairs[k]`, orientation by the
reference-node rule, contraction step, renaming of the pair list -/
def loopPass (z : L) (acc : List (Branch L K) × List (L × L)) (k : Nat) :
    Except Err (List (Branch L K) × List (L × L)) :=
  match acc.2[k]? with
  | some p => .ok (contractStep acc.1 (orient z p).1 (orient z p).2, acc.2.map (renPair (orient z p).1 (orient z p).2))
  | none => .error .keyError

/-- the indexed loop `for k in range(len(pairs))`, which renames the *whole* pair list in every
pass, is the recursion `contractAll` over the pairs that remain: `pairs[k]` never raises (the
list keeps its length) and the passes never look at the pairs already used -/
theorem gen_loop_aux {β : Type} (z : L)
    (f : List (Branch L K) × List (L × L) → Nat → Except Err (List (Branch L K) × List (L × L)))
    (hf : ∀ acc k, f acc k = loopPass z acc k) (g : List (Branch L K) → Except Err β) :
    ∀ (n : Nat) (rest done : List (L × L)) (bs : List (Branch L K)), rest.length = n →
      ((List.range' done.length n).foldlM f (bs, done ++ rest) >>= fun acc => g acc.1)
        = g (contractAll z rest bs) := by
  intro n
  induction n with
  | zero =>
    intro rest done bs hl
    have : rest = [] := List.length_eq_zero_iff.mp hl
    subst this
    rw [contractAll]
    rfl
  | succ n ih =>
    intro rest done bs hl
    cases rest with
    | nil => simp at hl
    | cons p ps =>
      have hidx : (done ++ p :: ps)[done.length]? = some p := by simp
      rw [contractAll, List.range'_succ, List.foldlM_cons, hf, loopPass]
      simp only [hidx]
      have hm : (done ++ p :: ps).map (renPair (orient z p).1 (orient z p).2)
          = (done.map (renPair (orient z p).1 (orient z p).2) ++ [renPair (orient z p).1 (orient z p).2 p])
            ++ ps.map (renPair (orient z p).1 (orient z p).2) := by simp
      have hlen : done.length + 1
          = (done.map (renPair (orient z p).1 (orient z p).2) ++ [renPair (orient z p).1 (orient z p).2 p]).length := by simp
      rw [hm, hlen]
      exact ih _ _ _ (by simpa using hl)

theorem gen_loop {β : Type} (z : L)
    (f : List (Branch L K) × List (L × L) → Nat → Except Err (List (Branch L K) × List (L × L)))
    (hf : ∀ acc k, f acc k = loopPass z acc k) (g : List (Branch L K) → Except Err β)
    (pairs : List (L × L)) (bs : List (Branch L K)) :
    ((List.range pairs.length).foldlM f (bs, pairs) >>= fun acc => g acc.1) = g (contractAll z pairs bs) := by
  have := gen_loop_aux z f hf g pairs.length pairs [] bs rfl
  simpa [List.range_eq_range'] using this

theorem gen_removeShort (N : Net L K) (keep : List (Py.Elt K)) :
    remove_short_circuit_elements N keep = removeShort N (keep.map ElemKey.ofElt) := by
  unfold remove_short_circuit_elements removeShort
  refine (gen_loop N.zero _ ?_ (fun bs => Py.construct Gen.Core.Network.post_init bs N.zero) _ _).trans ?_
  · intro acc k
    simp only [loopPass, Py.listIndex, gen_contractStep, gen_is_zero_node]
    cases acc.2[k]? with
    | none => rfl
    | some p =>
      simp only [bind, Except.bind, pure, Except.pure, orient, renPair, decide_eq_true_eq]
      by_cases hz : p.1 = N.zero <;> simp [hz, contractStep, renPair, gen_mkBranch_n1, gen_mkBranch_n2]
  · rw [gen_construct, gen_shortPairs]

theorem gen_zeroInVoltage (b : Branch L K) :
    Py.mkBranch b.n1 b.n2 (impedance b.id (Py.XVal.toNum (Gen.Core.Elem.Z b.e))) = zeroInVoltage b := by
  simp only [impedance, Py.mkBranch, zeroInVoltage, gen_Zfin]

theorem gen_zeroInCurrent (b : Branch L K) :
    Py.mkBranch b.n1 b.n2 (admittance b.id (Py.XVal.toNum (Gen.Core.Elem.Y b.e))) = zeroInCurrent b := by
  simp only [admittance, Py.mkBranch, zeroInCurrent, gen_Yfin]

theorem gen_shortCircuitifyVS (N : Net L K) (keep : List (Py.Elt K)) :
    short_circuitify_voltage_sources N keep = shortCircuitifyVS N (keep.map ElemKey.ofElt) := by
  unfold short_circuitify_voltage_sources shortCircuitifyVS
  simp only [gen_construct, gen_zeroInVoltage, gen_mem_keep, gen_isVSrc]
  congr 2
  funext b
  cases (keep.map ElemKey.ofElt).contains b.key <;> cases b.e.isVSrc <;> simp

theorem gen_openCircuitifyCS (N : Net L K) (keep : List (Py.Elt K)) :
    open_circuitify_current_sources N keep = openCircuitifyCS N (keep.map ElemKey.ofElt) := by
  unfold open_circuitify_current_sources openCircuitifyCS
  simp only [gen_construct, gen_zeroInCurrent, gen_mem_keep, gen_isCS]
  congr 2
  funext b
  cases (keep.map ElemKey.ofElt).contains b.key <;> cases b.e.isCS <;> simp

theorem gen_removeIdealCS (N : Net L K) (keep : List (Py.Elt K)) :
    remove_ideal_current_sources N keep = removeIdealCS N (keep.map ElemKey.ofElt) := by
  unfold remove_ideal_current_sources removeIdealCS
  rw [gen_openCircuitifyCS]
  congr 1
  funext r
  exact gen_removeOpen r

theorem gen_removeIdealVS (N : Net L K) (keep : List (Py.Elt K)) :
    remove_ideal_voltage_sources N keep = removeIdealVS N (keep.map ElemKey.ofElt) := by
  unfold remove_ideal_voltage_sources removeIdealVS
  rw [gen_shortCircuitifyVS]
  congr 1
  funext r
  exact gen_removeShort r keep

theorem gen_passiveNetwork (N : Net L K) (keep : List (Py.Elt K)) :
    passive_network N keep = passiveNetwork N (keep.map ElemKey.ofElt) := by
  unfold passive_network passiveNetwork
  rw [gen_removeIdealCS]
  congr 1
  funext r
  exact gen_removeIdealVS r keep

/-- where the zeroing functions pass an element property to a factory, it is a number: a
voltage source has a finite `Z`, a current source a finite `Y` -/
theorem gen_finite_zeroing (e : Elem K) :
    (is_voltage_source e = true → (Gen.Core.Elem.Z e).isFin = true) ∧
    (is_current_source e = true → (Gen.Core.Elem.Y e).isFin = true) := by
  constructor
  · intro h
    cases e with
    | norton Z V => rfl
    | thevenin Y I =>
      by_cases hy : Y = 0 <;>
        simp_all [is_voltage_source, Gen.Core.Elem.V, Gen.Core.Elem.Z, TheveninElement.V, TheveninElement.Z, XVal.absGt0, XVal.isFin]
  · intro h
    cases e with
    | thevenin Y I => rfl
    | norton Z V =>
      by_cases hz : Z = 0 <;>
        simp_all [is_current_source, Gen.Core.Elem.I, Gen.Core.Elem.Y, NortenElement.I, NortenElement.Y, XVal.absGt0, XVal.isFin]

end CC
