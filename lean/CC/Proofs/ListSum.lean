/-
  CC.Proofs.ListSum — list-sum helper lemmas over a field (shared by C01–C06, C16).
-/
import Mathlib.Algebra.Field.Defs
import Mathlib.Algebra.BigOperators.Group.List.Basic
import Mathlib.Algebra.BigOperators.Ring.List
import Mathlib.Tactic.Ring
import Mathlib.Tactic.FieldSimp
import Mathlib.Tactic.LinearCombination
import CC.Model.MNA

namespace CC
variable {L K : Type} [DecidableEq L] [Field K]

theorem sum_map_comm {α β : Type} (l1 : List α) (l2 : List β) (f : α → β → K) :
    (l1.map fun a => (l2.map fun b => f a b).sum).sum
      = (l2.map fun b => (l1.map fun a => f a b).sum).sum := by
  induction l1 with
  | nil => simp
  | cons a l1 ih => simp [ih, List.sum_map_add]

theorem sum_filter_eq_sum_ite {α : Type} (l : List α) (p : α → Bool) (f : α → K) :
    ((l.filter p).map f).sum = (l.map fun a => if p a then f a else 0).sum := by
  induction l with
  | nil => simp
  | cons a l ih => by_cases h : p a <;> simp [List.filter, h, ih]

/-- sum over a nodup list of a function supported on a single point -/
theorem sum_single {l : List L} (hl : l.Nodup) (a : L) (c : K) :
    (l.map fun m => if m = a then c else 0).sum = if a ∈ l then c else 0 := by
  induction l with
  | nil => simp
  | cons x l ih =>
    have hx : x ∉ l := (List.nodup_cons.mp hl).1
    have hl' := (List.nodup_cons.mp hl).2
    by_cases hxa : x = a
    · subst hxa; simp [ih hl', hx]
    · have : a ≠ x := fun h => hxa h.symm
      simp [ih hl', hxa, this]

/-- sum over a nodup list of a function supported on two distinct points -/
theorem sum_two {l : List L} (hl : l.Nodup) (a b : L) (hab : a ≠ b) (c d : K) (f : L → K) :
    (l.map fun m => (if m = a then c else if m = b then d else 0) * f m).sum
      = (if a ∈ l then c * f a else 0) + (if b ∈ l then d * f b else 0) := by
  have h1 : ∀ m, (if m = a then c else if m = b then d else 0) * f m
      = (if m = a then c * f a else 0) + (if m = b then d * f b else 0) := by
    intro m
    by_cases h : m = a
    · subst h; simp [hab]
    · by_cases h' : m = b
      · subst h'; simp [h]
      · simp [h, h']
  simp only [h1, List.sum_map_add]
  rw [sum_single hl, sum_single hl]

theorem neg_sum_map {α : Type} (l : List α) (f : α → K) :
    -(l.map f).sum = (l.map fun a => - f a).sum := by
  induction l with
  | nil => simp
  | cons a l ih => simp [← ih]; ring

theorem sum_split_filter {α : Type} (l : List α) (p : α → Bool) (f : α → K) :
    (l.map f).sum = ((l.filter p).map f).sum + ((l.filter (fun a => !p a)).map f).sum := by
  induction l with
  | nil => simp
  | cons a l ih => by_cases h : p a <;> simp [List.filter, h, ih] <;> ring

theorem sum_map_perm {α : Type} {l1 l2 : List α} (h : l1.Perm l2) (f : α → K) :
    (l1.map f).sum = (l2.map f).sum :=
  (h.map f).sum_eq

/-! ### dot products -/

theorem dotL_nil_left (x : List K) : dotL ([] : List K) x = 0 := by simp [dotL]

theorem dotL_cons (a : K) (r : List K) (b : K) (x : List K) :
    dotL (a :: r) (b :: x) = a * b + dotL r x := by simp [dotL]

theorem dotL_map_map {α : Type} (l : List α) (f g : α → K) :
    dotL (l.map f) (l.map g) = (l.map fun m => f m * g m).sum := by
  induction l with
  | nil => simp [dotL]
  | cons a l ih => simp [dotL_cons, ih]

theorem dotL_append (r1 r2 x1 x2 : List K) (h : r1.length = x1.length) :
    dotL (r1 ++ r2) (x1 ++ x2) = dotL r1 x1 + dotL r2 x2 := by
  induction r1 generalizing x1 with
  | nil =>
    cases x1 with
    | nil => simp [dotL]
    | cons b x1 => simp at h
  | cons a r1 ih =>
    cases x1 with
    | nil => simp at h
    | cons b x1 =>
      simp only [List.cons_append, dotL_cons]
      rw [ih x1 (by simpa using h)]; ring

theorem dotL_zeros {α : Type} (l : List α) (x : List K) : dotL (l.map fun _ => (0 : K)) x = 0 := by
  induction l generalizing x with
  | nil => simp [dotL]
  | cons a l ih =>
    cases x with
    | nil => simp [dotL]
    | cons b x =>
      have := ih x
      simp only [List.map_cons, dotL_cons, this]; ring

end CC
