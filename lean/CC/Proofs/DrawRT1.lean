/-
  CC.Proofs.DrawRT1 — per-class facts (B), (F), (S) of CC/Proofs/DrawRoundTrip.lean, by symbolic
  evaluation of the interpretive model with the generated tables unfolded.  GENERATED SHAPE:
  one `rt_`/`fx_`/`sh_`/`stable_` group per class and keyword layout.
-/
import CC.Proofs.DrawRoundTrip
set_option linter.unusedSectionVars false
set_option linter.unusedSimpArgs false
set_option linter.unusedVariables false
namespace CC.Draw
section
attribute [local simp] RoundTrips FixedAfter ShellKept shell elemComp ownCirc reloadFrom reloadElem DElem.toSym construct classInfo
    Gen.elemClasses classChain bindParams evalF evalP compOfSym ctorValue
    lookupD truthy dictSet List.lookup List.find? negVal Gen.translatorMap Gen.translators runCases runCase
    nodeTuple evalV Sym.getAttr Gen.ctors applyCtor evalC valNeg valNonPos dictifyElement userParams serializeVal undictifyDElem
    undictifyKwargs combineToComplex Gen.loaderTypes dictUpdate bind Except.bind pure Except.pure List.mapM List.mapM.loop List.foldlM
    forIn Gen.undictifySteps List.contains List.elem Gen.knownWavetypes GQ.neg_def GQ.eta GQ.im_zero GQ.re_zero GQ.mk_zero GQ.mk_eq_zero
    Functor.map Except.map throw throwThe MonadExceptOf.throw

set_option maxRecDepth 8000
set_option maxHeartbeats 400000

theorem rt_VoltageSource (π : Rat) (z : GQ) (rev : Bool) (name : String) (a b : Pt) :
    RoundTrips π ⟨"VoltageSource", [("V", .num z), ("name", .str name), ("reverse", .bool rev)], a, b⟩ := by
  intro la lb la' lb'
  cases rev <;> simp

theorem fx_VoltageSource (π : Rat) (z : GQ) (rev : Bool) (name : String) (a b : Pt) :
    FixedAfter π ⟨"VoltageSource", [("V", .num z), ("name", .str name), ("reverse", .bool rev)], a, b⟩ := by
  intro la lb la' lb'
  cases rev <;> simp

theorem sh_VoltageSource (π : Rat) (z : GQ) (rev : Bool) (name : String) (a b : Pt) :
    ShellKept π ⟨"VoltageSource", [("V", .num z), ("name", .str name), ("reverse", .bool rev)], a, b⟩ := by
  intro la lb
  cases rev <;> simp

theorem stable_VoltageSource (π : Rat) (z : GQ) (rev : Bool) (name : String) (a b : Pt) :
    ElemStable π ⟨"VoltageSource", [("V", .num z), ("name", .str name), ("reverse", .bool rev)], a, b⟩ :=
  ⟨rt_VoltageSource π z rev name a b, fx_VoltageSource π z rev name a b, sh_VoltageSource π z rev name a b⟩

theorem rt_CurrentSource (π : Rat) (z : GQ) (rev : Bool) (name : String) (a b : Pt) :
    RoundTrips π ⟨"CurrentSource", [("I", .num z), ("name", .str name), ("reverse", .bool rev)], a, b⟩ := by
  intro la lb la' lb'
  cases rev <;> simp

theorem fx_CurrentSource (π : Rat) (z : GQ) (rev : Bool) (name : String) (a b : Pt) :
    FixedAfter π ⟨"CurrentSource", [("I", .num z), ("name", .str name), ("reverse", .bool rev)], a, b⟩ := by
  intro la lb la' lb'
  cases rev <;> simp

theorem sh_CurrentSource (π : Rat) (z : GQ) (rev : Bool) (name : String) (a b : Pt) :
    ShellKept π ⟨"CurrentSource", [("I", .num z), ("name", .str name), ("reverse", .bool rev)], a, b⟩ := by
  intro la lb
  cases rev <;> simp

theorem stable_CurrentSource (π : Rat) (z : GQ) (rev : Bool) (name : String) (a b : Pt) :
    ElemStable π ⟨"CurrentSource", [("I", .num z), ("name", .str name), ("reverse", .bool rev)], a, b⟩ :=
  ⟨rt_CurrentSource π z rev name a b, fx_CurrentSource π z rev name a b, sh_CurrentSource π z rev name a b⟩

theorem rt_ComplexVoltageSource (π : Rat) (z : GQ) (rev : Bool) (name : String) (a b : Pt) :
    RoundTrips π ⟨"ComplexVoltageSource", [("V", .num z), ("name", .str name), ("reverse", .bool rev)], a, b⟩ := by
  intro la lb la' lb'
  by_cases h0 : z.im = 0 <;> cases rev <;> simp [h0]

theorem fx_ComplexVoltageSource (π : Rat) (z : GQ) (rev : Bool) (name : String) (a b : Pt) :
    FixedAfter π ⟨"ComplexVoltageSource", [("V", .num z), ("name", .str name), ("reverse", .bool rev)], a, b⟩ := by
  intro la lb la' lb'
  by_cases h0 : z.im = 0 <;> cases rev <;> simp [h0]

theorem sh_ComplexVoltageSource (π : Rat) (z : GQ) (rev : Bool) (name : String) (a b : Pt) :
    ShellKept π ⟨"ComplexVoltageSource", [("V", .num z), ("name", .str name), ("reverse", .bool rev)], a, b⟩ := by
  intro la lb
  by_cases h0 : z.im = 0 <;> cases rev <;> simp [h0]

theorem stable_ComplexVoltageSource (π : Rat) (z : GQ) (rev : Bool) (name : String) (a b : Pt) :
    ElemStable π ⟨"ComplexVoltageSource", [("V", .num z), ("name", .str name), ("reverse", .bool rev)], a, b⟩ :=
  ⟨rt_ComplexVoltageSource π z rev name a b, fx_ComplexVoltageSource π z rev name a b, sh_ComplexVoltageSource π z rev name a b⟩

theorem rt_ComplexCurrentSource (π : Rat) (z : GQ) (rev : Bool) (name : String) (a b : Pt) :
    RoundTrips π ⟨"ComplexCurrentSource", [("I", .num z), ("name", .str name), ("reverse", .bool rev)], a, b⟩ := by
  intro la lb la' lb'
  by_cases h0 : z.im = 0 <;> cases rev <;> simp [h0]

theorem fx_ComplexCurrentSource (π : Rat) (z : GQ) (rev : Bool) (name : String) (a b : Pt) :
    FixedAfter π ⟨"ComplexCurrentSource", [("I", .num z), ("name", .str name), ("reverse", .bool rev)], a, b⟩ := by
  intro la lb la' lb'
  by_cases h0 : z.im = 0 <;> cases rev <;> simp [h0]

theorem sh_ComplexCurrentSource (π : Rat) (z : GQ) (rev : Bool) (name : String) (a b : Pt) :
    ShellKept π ⟨"ComplexCurrentSource", [("I", .num z), ("name", .str name), ("reverse", .bool rev)], a, b⟩ := by
  intro la lb
  by_cases h0 : z.im = 0 <;> cases rev <;> simp [h0]

theorem stable_ComplexCurrentSource (π : Rat) (z : GQ) (rev : Bool) (name : String) (a b : Pt) :
    ElemStable π ⟨"ComplexCurrentSource", [("I", .num z), ("name", .str name), ("reverse", .bool rev)], a, b⟩ :=
  ⟨rt_ComplexCurrentSource π z rev name a b, fx_ComplexCurrentSource π z rev name a b, sh_ComplexCurrentSource π z rev name a b⟩

end
end CC.Draw
