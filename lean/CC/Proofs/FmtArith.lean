/-
  CC.Proofs.FmtArith — arithmetic facts about the primitives of the formatting model
  (`pow10`, `qabs`, `rhe`, `trunc`) in Mathlib's vocabulary.
-/
import Mathlib.Data.Rat.Floor
import Mathlib.Algebra.Order.Floor.Ring
import Mathlib.Tactic.Linarith
import Mathlib.Tactic.Ring
import Mathlib.Tactic.FieldSimp
import Mathlib.Tactic.NormNum
import Mathlib.Tactic.Positivity
import CC.Model.FmtBase

namespace CC.Fmt

theorem floor_eq (x : ℚ) : x.floor = ⌊x⌋ := rfl

theorem pow10_eq_zpow (e : ℤ) : pow10 e = (10 : ℚ) ^ e := by
  unfold pow10
  split
  · rename_i h
    obtain ⟨n, rfl⟩ := Int.eq_ofNat_of_zero_le h
    simp
  · rename_i h
    have h' : e < 0 := by omega
    obtain ⟨n, hn⟩ := Int.exists_eq_neg_ofNat (le_of_lt h')
    subst hn
    simp

theorem pow10_pos (e : ℤ) : 0 < pow10 e := by
  rw [pow10_eq_zpow]; exact zpow_pos (by norm_num) e

theorem pow10_add (a b : ℤ) : pow10 (a + b) = pow10 a * pow10 b := by
  simp only [pow10_eq_zpow]; exact zpow_add₀ (by norm_num) a b

theorem pow10_sub (a b : ℤ) : pow10 (a - b) = pow10 a / pow10 b := by
  simp only [pow10_eq_zpow]; exact zpow_sub₀ (by norm_num) a b

theorem pow10_zero : pow10 0 = 1 := by simp [pow10_eq_zpow]

theorem pow10_natCast (n : ℕ) : pow10 (n : ℤ) = (10 : ℚ) ^ n := by simp [pow10_eq_zpow]

theorem pow10_le_pow10 {a b : ℤ} (h : a ≤ b) : pow10 a ≤ pow10 b := by
  simp only [pow10_eq_zpow]; exact zpow_le_zpow_right₀ (by norm_num) h

theorem pow10_lt_pow10 {a b : ℤ} (h : a < b) : pow10 a < pow10 b := by
  simp only [pow10_eq_zpow]; exact zpow_lt_zpow_right₀ (by norm_num) h

theorem qabs_eq_abs (x : ℚ) : qabs x = |x| := by
  unfold qabs
  split
  · rename_i h; rw [abs_of_neg h]
  · rename_i h; rw [abs_of_nonneg (not_lt.mp h)]

theorem rhe_def (x : ℚ) : rhe x =
    if x - (⌊x⌋ : ℚ) < 1 / 2 then ⌊x⌋ else if 1 / 2 < x - (⌊x⌋ : ℚ) then ⌊x⌋ + 1
    else if ⌊x⌋ % 2 = 0 then ⌊x⌋ else ⌊x⌋ + 1 := rfl

/-- round-half-even is a nearest-integer rounding -/
theorem rhe_spec (x : ℚ) : |((rhe x : ℤ) : ℚ) - x| ≤ 1 / 2 := by
  have h1 : ((⌊x⌋ : ℤ) : ℚ) ≤ x := Int.floor_le x
  have h2 : x < (⌊x⌋ : ℚ) + 1 := Int.lt_floor_add_one x
  rw [rhe_def]
  split_ifs with ha hb hc
  · rw [abs_le]; constructor <;> linarith
  · push_cast; rw [abs_le]; constructor <;> linarith
  · have : x - (⌊x⌋ : ℚ) = 1 / 2 := le_antisymm (not_lt.mp hb) (not_lt.mp ha)
    rw [abs_le]; constructor <;> linarith
  · have : x - (⌊x⌋ : ℚ) = 1 / 2 := le_antisymm (not_lt.mp hb) (not_lt.mp ha)
    push_cast; rw [abs_le]; constructor <;> linarith

theorem rhe_nonneg {x : ℚ} (h : 0 ≤ x) : 0 ≤ rhe x := by
  have hf : 0 ≤ ⌊x⌋ := Int.floor_nonneg.mpr h
  rw [rhe_def]; split_ifs <;> omega

/-- rounding is monotone with respect to integers: an integer below `x` stays below -/
theorem le_rhe_of_le {x : ℚ} {k : ℤ} (h : (k : ℚ) ≤ x) : k ≤ rhe x := by
  have hf : k ≤ ⌊x⌋ := Int.le_floor.mpr h
  rw [rhe_def]; split_ifs <;> omega

theorem rhe_le_of_le {x : ℚ} {k : ℤ} (h : x ≤ (k : ℚ)) : rhe x ≤ k := by
  have h1 : ((⌊x⌋ : ℤ) : ℚ) ≤ x := Int.floor_le x
  have hf : ⌊x⌋ ≤ k := by exact_mod_cast (le_trans h1 h)
  rw [rhe_def]
  split_ifs with ha hb hc
  · exact hf
  · rcases lt_or_eq_of_le hf with hlt | heq
    · omega
    · exfalso; rw [heq] at hb; linarith
  · exact hf
  · rcases lt_or_eq_of_le hf with hlt | heq
    · omega
    · exfalso; rw [heq] at ha; linarith

theorem rhe_intCast (k : ℤ) : rhe (k : ℚ) = k :=
  le_antisymm (rhe_le_of_le le_rfl) (le_rhe_of_le le_rfl)

end CC.Fmt

namespace CC.Fmt

/-- a real number within less than 1/2 of an integer rounds to that integer -/
theorem rhe_eq_of_near {x : ℚ} {k : ℤ} (h : |x - (k : ℚ)| < 1 / 2) : rhe x = k := by
  have h1 := rhe_spec x
  rw [abs_lt] at h
  rw [abs_le] at h1
  have hlt : ((rhe x : ℤ) : ℚ) - (k : ℚ) < 1 := by linarith
  have hgt : -1 < ((rhe x : ℤ) : ℚ) - (k : ℚ) := by linarith
  have h2 : rhe x - k < 1 := by exact_mod_cast hlt
  have h3 : -1 < rhe x - k := by exact_mod_cast hgt
  omega

theorem pow10_succ (a : ℤ) : pow10 (a + 1) = 10 * pow10 a := by
  rw [pow10_add, mul_comm]; simp [pow10_eq_zpow]

theorem pow10_pred (a : ℤ) : pow10 (a - 1) = pow10 a / 10 := by
  rw [pow10_sub]; simp [pow10_eq_zpow]

theorem pow10_natCast' (n : ℕ) : pow10 (n : ℤ) = ((10 ^ n : ℕ) : ℚ) := by
  rw [pow10_natCast]; push_cast; rfl

theorem pow10_one_le {a : ℤ} (h : 0 ≤ a) : 1 ≤ pow10 a := by
  have := pow10_le_pow10 h; rwa [pow10_zero] at this

theorem pow10_le_one {a : ℤ} (h : a ≤ 0) : pow10 a ≤ 1 := by
  have := pow10_le_pow10 h; rwa [pow10_zero] at this

end CC.Fmt
