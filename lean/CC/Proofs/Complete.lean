/-
  CC.Proofs.Complete — every solution of the circuit equations satisfies the code's matrix
  equation (nothing is lost by the voltage-source rows or the index maps), and the circuit
  equations of a well-posed network have at most one solution.
-/
import CC.Proofs.Sound
set_option linter.unusedSectionVars false

namespace CC
variable {L K : Type} [DecidableEq L] [LabelOrd L] [Field K] [DecidableEq K]

/-- the label-indexed solution read off a report -/
def Report.toSol (R : Report L K) : Sol L K := ⟨R.pot, R.i⟩

theorem pot_toSol (N : Net L K) (R : Report L K) (h0 : R.pot N.zero = 0) (n : L) :
    N.pot R.toSol n = R.pot n := by
  unfold Net.pot Report.toSol
  by_cases hz : n = N.zero
  · simp [hz, h0]
  · simp [hz]

/-- for a report that satisfies (E1)–(E3), the current the matrix balances is the reported
current in physical direction -/
theorem J_of_laws (N : Net L K) (R : Report L K) (h0 : R.pot N.zero = 0) (b : Branch L K)
    (hv : voltResidual R b = 0) (hl : b.e.lawResidual (R.v b.id) (R.i b.id) = 0) :
    N.J R.toSol b = b.e.physCurrent (R.i b.id) := by
  have hvv : R.v b.id = R.pot b.n1 - R.pot b.n2 := sub_eq_zero.mp hv
  unfold Net.J Elem.physCurrent Elem.isLossy Elem.kind
  rw [pot_toSol N R h0, pot_toSol N R h0, ← hvv]
  cases he : b.e with
  | norton Z V =>
    rw [he] at hl
    by_cases hZ : Z = 0
    · simp [Elem.isIdealVS, hZ, Report.toSol]
    · by_cases hV : V = 0
      · simp only [Elem.lawResidual, hZ, hV, if_true, if_false] at hl
        have : R.v b.id = Z * R.i b.id := sub_eq_zero.mp hl
        simp [Elem.isIdealVS, Elem.Yfin, Elem.Ival, hZ, hV, this]
      · simp only [Elem.lawResidual, hZ, hV, if_false] at hl
        simp [Elem.isIdealVS, Elem.Yfin, Elem.Ival, hZ, hV]
        field_simp
        linear_combination hl
  | thevenin Y I =>
    rw [he] at hl
    by_cases hY : Y = 0
    · simp only [Elem.lawResidual, hY, if_true] at hl
      simp [Elem.isIdealVS, Elem.Yfin, Elem.Ival, hY, sub_eq_zero.mp hl]
    · by_cases hI : I = 0
      · simp only [Elem.lawResidual, hY, hI, if_true, if_false] at hl
        simp [Elem.isIdealVS, Elem.Yfin, Elem.Ival, hY, hI, sub_eq_zero.mp hl]
      · simp only [Elem.lawResidual, hY, hI, if_false] at hl
        simp [Elem.isIdealVS, Elem.Yfin, Elem.Ival, hY, hI]
        linear_combination hl

/-- completeness without any hypothesis on self-loops (what `Network.__post_init__` checks suffices) -/
theorem complete_rows_all (N : Net L K) (R : Report L K) (hids : N.ids.Nodup)
    (hzm : N.zero ∈ N.nodeLabels) (hR : CircuitEqs N R) :
    matVec N.mnaA (N.pack R.toSol) = N.mnaB := by
  rw [matVec_pack_iff]
  constructor
  · intro n hn
    have hk := kcl_identity_all N R.toSol hids n hn
    have hn' : n ∈ N.allLabels :=
      (mem_allLabels_iff N hzm n).mpr ((mem_nodes_iff N n).mp hn).1
    have h0 : (N.branches.map fun b => b.dir n * N.J R.toSol b).sum = 0 := by
      rw [← hR.kcl n hn']
      unfold kclResidual
      apply congrArg; apply List.map_congr_left
      intro b hb
      rw [J_of_laws N R hR.ref_zero b (hR.volt b hb) (hR.law b hb), incidence_eq_dir_all b n]
    rw [h0] at hk
    exact (sub_eq_zero.mp hk.symm)
  · intro b hb
    have hbm : b ∈ N.vs := (vsSorted_perm N hids).mem_iff.mp hb
    obtain ⟨hbb, hvs⟩ := List.mem_filter.mp hbm
    rw [rowVS_eq_all N R.toSol b hbb, pot_toSol N R hR.ref_zero,
      pot_toSol N R hR.ref_zero]
    have hv : R.v b.id = R.pot b.n1 - R.pot b.n2 := sub_eq_zero.mp (hR.volt b hbb)
    have hl := hR.law b hbb
    cases he : b.e with
    | norton Z V =>
      rw [he] at hl hvs
      have hZ : Z = 0 := by simpa [Elem.isIdealVS] using hvs
      simp only [Elem.lawResidual, hZ, if_true] at hl
      rw [← hv, sub_eq_zero.mp hl]; rfl
    | thevenin Y I => rw [he] at hvs; simp [Elem.isIdealVS] at hvs

theorem complete_rows (N : Net L K) (R : Report L K) (wf : N.WF) (hR : CircuitEqs N R) :
    matVec N.mnaA (N.pack R.toSol) = N.mnaB :=
  complete_rows_all N R wf.ids_nodup wf.zero_mem hR

theorem sum_map_sub' {α : Type} (l : List α) (f g : α → K) :
    (l.map fun a => f a - g a).sum = (l.map f).sum - (l.map g).sum := by
  induction l with
  | nil => simp
  | cons a l ih => simp [ih]; ring

/-! ### uniqueness at the level of the Spec -/

theorem zeroSources_not_lossy (e : Elem K) : e.zeroSources.isLossy = false := by
  cases e with
  | norton Z V => by_cases hZ : Z = 0 <;> simp [Elem.zeroSources, Elem.isLossy, Elem.kind, hZ]
  | thevenin Y I => by_cases hY : Y = 0 <;> simp [Elem.zeroSources, Elem.isLossy, Elem.kind, hY]

/-- difference of two reports, with the current of a lossy source turned into the passive
direction its source-free counterpart uses -/
def Report.diff (N : Net L K) (R S : Report L K) : Report L K where
  pot := fun n => R.pot n - S.pot n
  v := fun id => R.v id - S.v id
  i := fun id => match N.get? id with
    | some b => if b.e.isLossy then -(R.i id - S.i id) else R.i id - S.i id
    | none => 0

theorem law_diff (e : Elem K) (v1 i1 v2 i2 : K)
    (h1 : e.lawResidual v1 i1 = 0) (h2 : e.lawResidual v2 i2 = 0) :
    e.zeroSources.lawResidual (v1 - v2) (if e.isLossy then -(i1 - i2) else i1 - i2) = 0 := by
  cases e with
  | norton Z V =>
    by_cases hZ : Z = 0
    · simp only [Elem.lawResidual, hZ, if_true] at h1 h2
      simp [Elem.zeroSources, Elem.lawResidual, hZ]
      linear_combination h1 - h2
    · by_cases hV : V = 0
      · simp only [Elem.lawResidual, hZ, hV, if_true, if_false] at h1 h2
        simp [Elem.zeroSources, Elem.lawResidual, Elem.isLossy, Elem.kind, hZ, hV]
        linear_combination h1 - h2
      · simp only [Elem.lawResidual, hZ, hV, if_false] at h1 h2
        simp [Elem.zeroSources, Elem.lawResidual, Elem.isLossy, Elem.kind, hZ, hV]
        linear_combination h1 - h2
  | thevenin Y I =>
    by_cases hY : Y = 0
    · simp only [Elem.lawResidual, hY, if_true] at h1 h2
      simp [Elem.zeroSources, Elem.lawResidual, Elem.isLossy, Elem.kind, hY]
      linear_combination h1 - h2
    · by_cases hI : I = 0
      · simp only [Elem.lawResidual, hY, hI, if_true, if_false] at h1 h2
        simp [Elem.zeroSources, Elem.lawResidual, Elem.isLossy, Elem.kind, hY, hI]
        linear_combination h1 - h2
      · simp only [Elem.lawResidual, hY, hI, if_false] at h1 h2
        simp [Elem.zeroSources, Elem.lawResidual, Elem.isLossy, Elem.kind, hY, hI]
        linear_combination -h1 + h2

theorem phys_diff (e : Elem K) (i1 i2 : K) :
    e.zeroSources.physCurrent (if e.isLossy then -(i1 - i2) else i1 - i2)
      = e.physCurrent i1 - e.physCurrent i2 := by
  unfold Elem.physCurrent
  rw [zeroSources_not_lossy]
  by_cases h : e.isLossy = true <;> simp [h] <;> ring

theorem unique_of_wellposed (N : Net L K) (hids : N.ids.Nodup) (hw : WellPosed N)
    (R S : Report L K) (hR : CircuitEqs N R) (hS : CircuitEqs N S) : R.AgreeOn N S := by
  have hD : CircuitEqs N.zeroSources (Report.diff N R S) := by
    have hbr : ∀ b' ∈ N.zeroSources.branches, ∃ b ∈ N.branches,
        b' = { b with e := b.e.zeroSources } := by
      intro b' hb'
      simp only [Net.zeroSources, List.mem_map] at hb'
      obtain ⟨b, hb, rfl⟩ := hb'
      exact ⟨b, hb, rfl⟩
    refine ⟨?_, ?_, ?_, ?_⟩
    · simp [Report.diff, Net.zeroSources, hR.ref_zero, hS.ref_zero]
    · intro b' hb'
      obtain ⟨b, hb, rfl⟩ := hbr b' hb'
      have h1 := hR.volt b hb; have h2 := hS.volt b hb
      unfold voltResidual at *
      simp only [Report.diff]
      linear_combination h1 - h2
    · intro b' hb'
      obtain ⟨b, hb, rfl⟩ := hbr b' hb'
      simp only [Report.diff, get?_of_mem N hids hb]
      exact law_diff b.e _ _ _ _ (hR.law b hb) (hS.law b hb)
    · intro n hn
      have hn' : n ∈ N.allLabels := by
        simpa [Net.allLabels, Net.zeroSources, List.map_map, Function.comp_def] using hn
      have h1 := hR.kcl n hn'; have h2 := hS.kcl n hn'
      unfold kclResidual at *
      have : (N.zeroSources.branches.map fun b => incidence b n * b.e.physCurrent ((Report.diff N R S).i b.id))
          = N.branches.map fun b => incidence b n * b.e.physCurrent (R.i b.id)
              - incidence b n * b.e.physCurrent (S.i b.id) := by
        simp only [Net.zeroSources, List.map_map]
        apply List.map_congr_left
        intro b hb
        simp only [Function.comp_apply, Report.diff, get?_of_mem N hids hb]
        rw [phys_diff]
        have : incidence ({ b with e := b.e.zeroSources } : Branch L K) n = incidence b n := rfl
        rw [this]; ring
      rw [this, sum_map_sub', h1, h2, sub_zero]
  have hz := hw _ hD
  constructor
  · intro n hn
    have := hz.1 n hn
    simp only [Report.diff, Report.zeroRep] at this
    exact sub_eq_zero.mp this
  · intro b hb
    obtain ⟨hv, hi⟩ := hz.2 b hb
    simp only [Report.diff, Report.zeroRep, get?_of_mem N hids hb] at hv hi
    refine ⟨sub_eq_zero.mp hv, ?_⟩
    by_cases hl : b.e.isLossy = true
    · simp only [hl, if_true, neg_eq_zero] at hi; exact sub_eq_zero.mp hi
    · simp only [hl, Bool.false_eq_true, if_false] at hi; exact sub_eq_zero.mp hi

end CC
