/-
  CC.Proofs.PortImpl — helper lemmas for the code-level theorem of C06: on a network without
  ideal voltage sources in which nothing is pruned, the matrix that `open_circuit_impedance`
  inverts is the nodal matrix of the probe network, and a column of its inverse is a solution
  of that network's equations (through the lead's `C01_sound`).
-/
import CC.Proofs.PortLemmas
import CC.Properties.C01
import CC.Model.Port
set_option linter.unusedSectionVars false
set_option linter.unusedVariables false

namespace CC
variable {L K : Type} [DecidableEq L] [LabelOrd L] [Field K] [DecidableEq K]

/-! ### small facts about `zeroSources` and the probe branch -/

theorem zeroSources_isIdealVS (e : Elem K) : e.zeroSources.isIdealVS = e.isIdealVS := by
  cases e <;> rfl

theorem zeroSources_Yfin (e : Elem K) : e.zeroSources.Yfin = e.Yfin := by
  cases e <;> rfl

theorem zeroSources_Ival (e : Elem K) : e.zeroSources.Ival = 0 := by
  cases e with
  | norton Z V => by_cases hZ : Z = 0 <;> simp [Elem.zeroSources, Elem.Ival, hZ]
  | thevenin Y I => simp [Elem.zeroSources, Elem.Ival]

theorem sortL_nil {α : Type} [LabelOrd α] : sortL ([] : List α) = [] := by simp [sortL]
theorem sortL_singleton {α : Type} [LabelOrd α] (a : α) : sortL [a] = [a] := by simp [sortL]

theorem idxOf?_getElem {α : Type} [DecidableEq α] (l : List α) (hl : l.Nodup) (k : Nat) (hk : k < l.length) :
    idxOf? l[k] l = some k := by
  induction l generalizing k with
  | nil => simp at hk
  | cons b l ih =>
    have hnd := List.nodup_cons.mp hl
    cases k with
    | zero => simp [idxOf?]
    | succ k =>
      have hk' : k < l.length := by simpa using hk
      have hne : b ≠ l[k] := fun e => hnd.1 (e ▸ List.getElem_mem hk')
      simp only [List.getElem_cons_succ]
      rw [idxOf?_cons_ne l hne, ih hnd.2 k hk']
      rfl

theorem idxOf?_inj {α : Type} [DecidableEq α] {l : List α} {a b : α} {k : Nat}
    (ha : idxOf? a l = some k) (hb : idxOf? b l = some k) : a = b := by
  induction l generalizing k with
  | nil => simp [idxOf?] at ha
  | cons c l ih =>
    by_cases hca : c = a
    · by_cases hcb : c = b
      · rw [← hca, ← hcb]
      · simp [idxOf?, hca] at ha
        subst ha
        rw [idxOf?_cons_ne l hcb] at hb
        cases h : idxOf? b l <;> simp [h] at hb
    · rw [idxOf?_cons_ne l hca] at ha
      by_cases hcb : c = b
      · simp [idxOf?, hcb] at hb
        subst hb
        cases h : idxOf? a l <;> simp [h] at ha
      · rw [idxOf?_cons_ne l hcb] at hb
        cases h1 : idxOf? a l with
        | none => simp [h1] at ha
        | some k1 =>
          cases h2 : idxOf? b l with
          | none => simp [h2] at hb
          | some k2 =>
            simp [h1] at ha; simp [h2] at hb
            exact ih h1 (by rw [h2]; congr 1; omega)

/-- a column of `Z`, read through the index map of the node list -/
def colFun (nodes : List L) (Z : List (List K)) (i : Nat) : L → K :=
  fun m => (Z.getD ((idxOf? m nodes).getD 0) []).getD i 0

theorem colL_eq_map (nodes : List L) (hn : nodes.Nodup) (Z : List (List K)) (hZ : Z.length = nodes.length)
    (i : Nat) : colL Z i = nodes.map (colFun nodes Z i) := by
  apply List.ext_getElem
  · simp [colL, hZ]
  · intro k h1 h2
    have hk : k < nodes.length := by simpa using h2
    simp only [colL, List.getElem_map, colFun]
    rw [idxOf?_getElem nodes hn k hk]
    simp only [Option.getD_some]
    have hkZ : k < Z.length := by omega
    simp [List.getD_eq_getElem?_getD, List.getElem?_eq_getElem hkZ]


/-- the probe network on the network's own reference node -/
abbrev probeM (P : Net L K) (pid : String) (a : L) : Net L K := probeNet P pid a P.zero 1

theorem probeM_branches (P : Net L K) (pid : String) (a : L) :
    (probeM P pid a).branches = zs P.branches ++ [probeBranch pid a P.zero 1] := rfl

theorem probeM_vs (P : Net L K) (pid : String) (a : L)
    (hvs : ∀ b ∈ P.branches, b.e.isIdealVS = false) : (probeM P pid a).vs = [] := by
  unfold Net.vs
  rw [List.filter_eq_nil_iff]
  intro b hb
  rw [probeM_branches] at hb
  rcases List.mem_append.mp hb with hb | hb
  · obtain ⟨c, hc, rfl⟩ := List.mem_map.mp hb
    simp [zeroSources_isIdealVS, hvs c hc]
  · simp only [List.mem_singleton] at hb; subst hb
    simp [probeBranch, Elem.isIdealVS]

theorem probeM_vsSorted (P : Net L K) (pid : String) (a : L)
    (hvs : ∀ b ∈ P.branches, b.e.isIdealVS = false) : (probeM P pid a).vsSorted = [] := by
  simp [Net.vsSorted, Net.vsIds, probeM_vs P pid a hvs, sortL_nil, Net.byIds]

theorem probeM_nonVS (P : Net L K) (pid : String) (a : L)
    (hvs : ∀ b ∈ P.branches, b.e.isIdealVS = false) :
    (probeM P pid a).nonVS = (probeM P pid a).branches := by
  unfold Net.nonVS
  rw [List.filter_eq_self]
  intro b hb
  rw [probeM_branches] at hb
  rcases List.mem_append.mp hb with hb | hb
  · obtain ⟨c, hc, rfl⟩ := List.mem_map.mp hb
    simp [zeroSources_isIdealVS, hvs c hc]
  · simp only [List.mem_singleton] at hb; subst hb
    simp [probeBranch, Elem.isIdealVS]

theorem nonVS_self (P : Net L K) (hvs : ∀ b ∈ P.branches, b.e.isIdealVS = false) :
    P.nonVS = P.branches := by
  unfold Net.nonVS
  rw [List.filter_eq_self]
  intro b hb; simp [hvs b hb]

theorem probeM_Yentry (P : Net L K) (pid : String) (a : L)
    (hvs : ∀ b ∈ P.branches, b.e.isIdealVS = false) (n m : L) :
    (probeM P pid a).Yentry n m = P.Yentry n m := by
  unfold Net.Yentry
  rw [probeM_nonVS P pid a hvs, nonVS_self P hvs, probeM_branches]
  have key : ∀ p : Branch L K → Bool, (∀ b : Branch L K, p { b with e := b.e.zeroSources } = p b) →
      (((zs P.branches ++ [probeBranch pid a P.zero 1]).filter p).map (fun b : Branch L K => b.e.Yfin)).sum
        = ((P.branches.filter p).map (fun b : Branch L K => b.e.Yfin)).sum := by
    intro p hp
    rw [sum_filter_eq_sum_ite, sum_filter_eq_sum_ite, List.map_append, List.sum_append]
    have h1 : (List.map (fun b => if p b = true then b.e.Yfin else 0) [probeBranch pid a P.zero (1 : K)]).sum = 0 := by
      simp [probeBranch, Elem.Yfin]
    rw [h1, add_zero]
    simp only [zs, List.map_map]
    apply congrArg; apply List.map_congr_left; intro b _
    simp only [Function.comp_apply, hp b, zeroSources_Yfin]
  by_cases h : n = m
  · simp only [h, if_true]
    exact key (fun b => decide (b.n1 = m ∨ b.n2 = m)) (fun b => rfl)
  · simp only [h, if_false]
    rw [key (fun b => decide ((b.n1 = n ∧ b.n2 = m) ∨ (b.n1 = m ∧ b.n2 = n))) (fun b => rfl)]

theorem probeM_ids (P : Net L K) (pid : String) (a : L) :
    (probeM P pid a).ids = P.ids ++ [pid] := by
  simp [Net.ids, probeM_branches, port_zs_ids, probeBranch]

theorem probeM_ids_nodup (P : Net L K) (pid : String) (a : L) (hids : P.ids.Nodup) (hp : pid ∉ P.ids) :
    (probeM P pid a).ids.Nodup := by
  rw [probeM_ids]
  exact List.nodup_append.mpr ⟨hids, by simp, by
    intro x hx y hy; simp only [List.mem_singleton] at hy; subst hy; exact fun e => hp (e ▸ hx)⟩

theorem probeM_cs (P : Net L K) (pid : String) (a : L) :
    (probeM P pid a).cs = [probeBranch pid a P.zero 1] := by
  unfold Net.cs
  rw [probeM_branches, List.filter_append]
  have h1 : (zs P.branches).filter (fun b => b.e.isCS) = [] := by
    rw [List.filter_eq_nil_iff]
    intro b hb
    obtain ⟨c, hc, rfl⟩ := List.mem_map.mp hb
    simp [Elem.isCS, zeroSources_Ival]
  rw [h1]
  simp [probeBranch, Elem.isCS, Elem.Ival]

theorem probeM_csSorted (P : Net L K) (pid : String) (a : L) (hids : P.ids.Nodup) (hp : pid ∉ P.ids) :
    (probeM P pid a).csSorted = [probeBranch pid a P.zero 1] := by
  have hmem : (probeBranch pid a P.zero (1 : K) : Branch L K) ∈ (probeM P pid a).branches := by
    rw [probeM_branches]; simp
  have := get?_of_mem (probeM P pid a) (probeM_ids_nodup P pid a hids hp) hmem
  have hid : (probeBranch pid a P.zero (1 : K) : Branch L K).id = pid := rfl
  rw [hid] at this
  simp [Net.csSorted, Net.csIds, probeM_cs, sortL_singleton, Net.byIds, probeBranch, this]

theorem probeM_rhsNode (P : Net L K) (pid : String) (a : L) (hids : P.ids.Nodup) (hp : pid ∉ P.ids)
    (ha : a ≠ P.zero) (n : L) :
    (probeM P pid a).rhsNode n = if a = n then 1 else 0 := by
  unfold Net.rhsNode
  rw [probeM_csSorted P pid a hids hp]
  have hz : (probeM P pid a).zero = P.zero := rfl
  simp only [List.map_cons, List.map_nil, List.sum_cons, List.sum_nil, add_zero, Net.Qentry, probeBranch,
    Elem.Ival, hz, mul_one]
  by_cases h : a = n
  · subst h; simp [ha]
  · have hz0 : ¬ (P.zero = n ∧ P.zero ≠ P.zero) := fun e => e.2 rfl
    simp [h, hz0]

theorem probeM_mem_nodeLabels (P : Net L K) (pid : String) (a : L) (ha : a ∈ P.nodeLabels)
    (hz : P.zero ∈ P.nodeLabels) (m : L) :
    m ∈ (probeM P pid a).nodeLabels ↔ m ∈ P.nodeLabels := by
  rw [mem_nodeLabels, mem_nodeLabels, probeM_branches]
  have hne : zs P.branches ++ [probeBranch pid a P.zero (1 : K)] ≠ [] := by simp
  constructor
  · rintro (⟨h, _⟩ | ⟨b, hb, hm⟩)
    · exact absurd h hne
    · rcases List.mem_append.mp hb with hb | hb
      · obtain ⟨c, hc, rfl⟩ := List.mem_map.mp hb
        exact Or.inr ⟨c, hc, hm⟩
      · simp only [List.mem_singleton] at hb; subst hb
        simp only [probeBranch] at hm
        rcases hm with rfl | rfl
        · exact (mem_nodeLabels P _).mp hz
        · exact (mem_nodeLabels P _).mp ha
  · rintro (⟨h, rfl⟩ | ⟨b, hb, hm⟩)
    · exact Or.inr ⟨probeBranch pid a P.zero 1, by simp, Or.inl rfl⟩
    · exact Or.inr ⟨{ b with e := b.e.zeroSources }, List.mem_append_left _ (List.mem_map.mpr ⟨b, hb, rfl⟩), hm⟩

theorem probeM_nodes_perm (P : Net L K) (pid : String) (a : L) (ha : a ∈ P.nodeLabels)
    (hz : P.zero ∈ P.nodeLabels) : (probeM P pid a).nodes.Perm P.nodes := by
  rw [List.perm_ext_iff_of_nodup (nodes_nodup _) (nodes_nodup _)]
  intro m
  rw [mem_nodes_iff, mem_nodes_iff, probeM_mem_nodeLabels P pid a ha hz]
  rfl

theorem probeM_wf (P : Net L K) (pid : String) (a : L) (hids : P.ids.Nodup) (hp : pid ∉ P.ids)
    (ha : a ∈ P.nodeLabels) (hz : P.zero ∈ P.nodeLabels) (haz : a ≠ P.zero)
    (hsl : ∀ b ∈ P.branches, b.n1 ≠ b.n2) : (probeM P pid a).WF := by
  refine ⟨probeM_ids_nodup P pid a hids hp, ?_, ?_⟩
  · exact (probeM_mem_nodeLabels P pid a ha hz _).mpr hz
  · intro b hb
    rw [probeM_branches] at hb
    rcases List.mem_append.mp hb with hb | hb
    · obtain ⟨c, hc, rfl⟩ := List.mem_map.mp hb
      exact hsl c hc
    · simp only [List.mem_singleton] at hb; subst hb
      exact fun e => haz e.symm

theorem nodeAdmittance_getD (P : Net L K) (k : Nat) (n : L) (hk : P.nodes[k]? = some n) :
    P.nodeAdmittance.getD k [] = P.nodes.map fun m => P.Yentry n m := by
  unfold Net.nodeAdmittance
  rw [List.getD_eq_getElem?_getD, List.getElem?_map, hk]
  rfl

/-- row `n` of the nodal matrix times column `i` of a right inverse -/
theorem row_inverse (P : Net L K) (Z : List (List K)) (hZ : IsInverseL P.nodeAdmittance Z)
    (i : Nat) (hi : i < P.nodes.length) (n : L) (hn : n ∈ P.nodes) :
    (P.nodes.map fun m => P.Yentry n m * colFun P.nodes Z i m).sum
      = if idxOf? n P.nodes = some i then 1 else 0 := by
  obtain ⟨k, hk, hlt, hget⟩ := idxOf?_of_mem hn
  have hlen : P.nodeAdmittance.length = P.nodes.length := by simp [Net.nodeAdmittance]
  have h := hZ.2 k i (by omega) (by omega)
  rw [nodeAdmittance_getD P k n hget, colL_eq_map P.nodes (nodes_nodup P) Z (by rw [hZ.1, hlen]) i,
    dotL_map_map] at h
  rw [h, hk]
  by_cases e : k = i <;> simp [e]

/-- **a column of the inverse solves the probe network** -/
theorem impl_solution (P : Net L K) (pid : String) (a : L) (hids : P.ids.Nodup) (hp : pid ∉ P.ids)
    (hsl : ∀ b ∈ P.branches, b.n1 ≠ b.n2) (hvs : ∀ b ∈ P.branches, b.e.isIdealVS = false)
    (hz : P.zero ∈ P.nodeLabels) (i : Nat) (hai : idxOf? a P.nodes = some i)
    (Z : List (List K)) (hZ : IsInverseL P.nodeAdmittance Z) :
    ∃ R : Report L K, CircuitEqs (probeNet P pid a P.zero 1) R ∧
      R.pot a - R.pot P.zero = (Z.getD i []).getD i 0 := by
  have ha : a ∈ P.nodes := by
    by_contra hna
    rw [idxOf?_none_of_not_mem hna] at hai; cases hai
  obtain ⟨haL, haz⟩ := (mem_nodes_iff P a).mp ha
  obtain ⟨k, hk, hilt, _⟩ := idxOf?_of_mem ha
  have hik : k = i := by rw [hk] at hai; exact Option.some.inj hai
  subst hik
  set M := probeM P pid a with hM
  have wf : M.WF := probeM_wf P pid a hids hp haL hz haz hsl
  let s : Sol L K := ⟨colFun P.nodes Z k, fun _ => 0⟩
  have hperm := probeM_nodes_perm P pid a haL hz
  have rows : ∀ n ∈ M.nodes, M.rowNode s n = M.rhsNode n := by
    intro n hn
    have hnP : n ∈ P.nodes := hperm.mem_iff.mp hn
    unfold Net.rowNode
    rw [probeM_vsSorted P pid a hvs, probeM_rhsNode P pid a hids hp haz]
    simp only [List.map_nil, List.sum_nil, add_zero]
    have e1 : (M.nodes.map fun m => M.Yentry n m * s.phi m)
        = M.nodes.map fun m => P.Yentry n m * colFun P.nodes Z k m := by
      apply List.map_congr_left; intro m _
      rw [probeM_Yentry P pid a hvs]
    rw [e1, sum_map_perm hperm, row_inverse P Z hZ k hilt n hnP]
    by_cases e : a = n
    · subst e; simp [hk]
    · have : idxOf? n P.nodes ≠ some k := fun h => e (idxOf?_inj hk h)
      simp [e, this]
  have hmat : matVec M.mnaA (M.pack s) = M.mnaB := by
    rw [matVec_pack_iff]
    refine ⟨rows, ?_⟩
    intro b hb
    rw [probeM_vsSorted P pid a hvs] at hb
    simp at hb
  have hsound := (C01_sound M (M.pack s) wf (pack_length M wf.ids_nodup s) hmat).2.2
  refine ⟨_, hsound, ?_⟩
  -- the potential of `a` read back from the packed vector
  have hx := pack_solOf M wf.ids_nodup (M.pack s) (pack_length M wf.ids_nodup s)
  have hphi : ∀ m ∈ M.nodes, (M.solOf (M.pack s)).phi m = s.phi m := by
    have h1 : M.nodes.map s.phi = M.nodes.map (M.solOf (M.pack s)).phi := by
      have := hx
      unfold Net.pack at this
      exact (List.append_inj this (by simp)).1
    intro m hm
    exact (List.map_inj_left.mp h1 m hm).symm
  have haM : a ∈ M.nodes := hperm.mem_iff.mpr ha
  have hMz : M.zero = P.zero := rfl
  have hz0 : (M.reportOf (M.pack s)).pot P.zero = 0 := by
    have := hsound.ref_zero
    rw [hMz] at this; exact this
  have hpa : (M.reportOf (M.pack s)).pot a = s.phi a := by
    simp only [Net.reportOf, Net.pot, hMz, haz, if_false]
    exact hphi a haM
  rw [hz0, hpa, sub_zero]
  simp only [s, colFun, hk, Option.getD_some]

theorem probe_flip (N : Net L K) (pid : String) (hp : pid ∉ N.ids) (a b : L) (R : Report L K)
    (hR : CircuitEqs (probeNet N pid a b 1) R) :
    ∃ S : Report L K, CircuitEqs (probeNet N pid b a 1) S ∧ ∀ n, S.pot n = - R.pot n := by
  obtain ⟨h1, e1, _⟩ := (probe_iff N pid a b 1 R).mp hR
  rw [e1] at h1
  have h2 := eqsInj_zs_lin N.branches N.zero (-1) 0 R R _ _ h1 h1
  have h3 : EqsInj (zs N.branches) N.zero (Report.lin (-1) 0 R R) (injAB b a 1) := by
    apply eqsInj_congr h2
    intro n; simp only [injAB]; ring
  refine ⟨_, probe_of_eqsInj N pid hp b a 1 _ h3, fun n => ?_⟩
  simp [Report.setProbe, Report.lin]

theorem probe_move (M : Net L K) (pid : String) (a b g : L) (R : Report L K)
    (hR : CircuitEqs (probeNet M pid a b 1) R) :
    CircuitEqs (probeNet { M with zero := g } pid a b 1) (R.portShift (R.pot g)) := by
  obtain ⟨h1, e1, e2⟩ := (probe_iff M pid a b 1 R).mp hR
  rw [probe_iff]
  refine ⟨eqsInj_shift g h1, e1, ?_⟩
  simp only [Report.portShift]; rw [e2]; ring

theorem diagAt_ok {Z : List (List K)} {i : Nat} {z : K} (h : diagAt Z i = .ok z) :
    (Z.getD i []).getD i 0 = z := by
  unfold diagAt at h
  cases h1 : Z[i]? with
  | none => rw [h1] at h; cases h
  | some r =>
    rw [h1] at h
    cases h2 : r[i]? with
    | none => simp [h2] at h
    | some w =>
      simp only [h2] at h
      cases h
      simp [List.getD_eq_getElem?_getD, h1, h2]

/-- what `portPre` has established when it hands a matrix to `inv` -/
theorem portPre_mat {N : Net L K} {n1 n2 : L} {N' : Net L K} {Y : List (List K)} {a : L}
    (h : N.portPre n1 n2 = .ok (.mat N' Y a)) :
    n1 ≠ n2 ∧ N' = { N with zero := if n1 = N.zero then n1 else n2 } ∧ N'.check = .ok () ∧
      a = (if n1 = N.zero then n2 else n1) := by
  unfold Net.portPre at h
  by_cases h12 : n1 = n2
  · simp [h12] at h
  · simp only [h12, if_false] at h
    by_cases hany : (N.branchesBetween n1 n2).any (·.e.isIdealVS) = true
    · simp [hany] at h
    · simp only [hany, Bool.false_eq_true, if_false] at h
      unfold Net.switchGround at h
      cases hc : ({ N with zero := if n1 = N.zero then n1 else n2 } : Net L K).check with
      | error e => simp [hc, bind, Except.bind] at h
      | ok u =>
        simp only [hc, bind, Except.bind, pure, Except.pure] at h
        cases h
        exact ⟨h12, rfl, hc, rfl⟩

theorem portPre_early {N : Net L K} {n1 n2 : L} (h : N.portPre n1 n2 = .ok .early)
    (hvs : ∀ b ∈ N.branches, b.e.isIdealVS = false) : n1 = n2 := by
  unfold Net.portPre at h
  by_contra h12
  simp only [h12, if_false] at h
  by_cases hany : (N.branchesBetween n1 n2).any (·.e.isIdealVS) = true
  · obtain ⟨x, hx, hx2⟩ := List.any_eq_true.mp hany
    have := hvs x (List.mem_filter.mp hx).1
    rw [this] at hx2; cases hx2
  · simp only [hany, Bool.false_eq_true, if_false] at h
    unfold Net.switchGround at h
    cases hc : ({ N with zero := if n1 = N.zero then n1 else n2 } : Net L K).check with
    | error e => simp [hc, bind, Except.bind] at h
    | ok u => simp [hc, bind, Except.bind, pure, Except.pure] at h

end CC
