/-
  CC.Proofs.PortImpl — helper lemmas for the code-level theorem of C06: on a network without
  ideal voltage sources in which nothing is pruned, the matrix that `open_circuit_impedance`
  solves is the MNA matrix of the probe network, and its solution is a solution
  of that network's equations (through the lead's `C01_sound`).
-/
import CC.Proofs.PortLemmas
import CC.Properties.C01
import CC.Model.Port
set_option linter.unusedSectionVars false
set_option linter.unusedVariables false

namespace CC
variable {L K : Type} [DecidableEq L] [LabelOrd L] [Field K] [DecidableEq K]

/-! ### small facts about `zeroSources` and the probe branch -/

theorem zeroSources_isIdealVS (e : Elem K) : e.zeroSources.isIdealVS = e.isIdealVS := by
  cases e <;> rfl

theorem zeroSources_Yfin (e : Elem K) : e.zeroSources.Yfin = e.Yfin := by
  cases e <;> rfl

theorem zeroSources_Ival (e : Elem K) : e.zeroSources.Ival = 0 := by
  cases e with
  | norton Z V => by_cases hZ : Z = 0 <;> simp [Elem.zeroSources, Elem.Ival, hZ]
  | thevenin Y I => simp [Elem.zeroSources, Elem.Ival]

theorem sortL_nil {α : Type} [LabelOrd α] : sortL ([] : List α) = [] := by simp [sortL]
theorem sortL_singleton {α : Type} [LabelOrd α] (a : α) : sortL [a] = [a] := by simp [sortL]

theorem idxOf?_getElem {α : Type} [DecidableEq α] (l : List α) (hl : l.Nodup) (k : Nat) (hk : k < l.length) :
    idxOf? l[k] l = some k := by
  induction l generalizing k with
  | nil => simp at hk
  | cons b l ih =>
    have hnd := List.nodup_cons.mp hl
    cases k with
    | zero => simp [idxOf?]
    | succ k =>
      have hk' : k < l.length := by simpa using hk
      have hne : b ≠ l[k] := fun e => hnd.1 (e ▸ List.getElem_mem hk')
      simp only [List.getElem_cons_succ]
      rw [idxOf?_cons_ne l hne, ih hnd.2 k hk']
      rfl

theorem idxOf?_inj {α : Type} [DecidableEq α] {l : List α} {a b : α} {k : Nat}
    (ha : idxOf? a l = some k) (hb : idxOf? b l = some k) : a = b := by
  induction l generalizing k with
  | nil => simp [idxOf?] at ha
  | cons c l ih =>
    by_cases hca : c = a
    · by_cases hcb : c = b
      · rw [← hca, ← hcb]
      · simp [idxOf?, hca] at ha
        subst ha
        rw [idxOf?_cons_ne l hcb] at hb
        cases h : idxOf? b l <;> simp [h] at hb
    · rw [idxOf?_cons_ne l hca] at ha
      by_cases hcb : c = b
      · simp [idxOf?, hcb] at hb
        subst hb
        cases h : idxOf? a l <;> simp [h] at ha
      · rw [idxOf?_cons_ne l hcb] at hb
        cases h1 : idxOf? a l with
        | none => simp [h1] at ha
        | some k1 =>
          cases h2 : idxOf? b l with
          | none => simp [h2] at hb
          | some k2 =>
            simp [h1] at ha; simp [h2] at hb
            exact ih h1 (by rw [h2]; congr 1; omega)

/-- the probe network on the network's own reference node -/
abbrev probeM (P : Net L K) (pid : String) (a : L) : Net L K := probeNet P pid a P.zero 1

theorem probeM_branches (P : Net L K) (pid : String) (a : L) :
    (probeM P pid a).branches = zs P.branches ++ [probeBranch pid a P.zero 1] := rfl

theorem probeM_ids (P : Net L K) (pid : String) (a : L) :
    (probeM P pid a).ids = P.ids ++ [pid] := by
  simp [Net.ids, probeM_branches, port_zs_ids, probeBranch]

theorem probeM_ids_nodup (P : Net L K) (pid : String) (a : L) (hids : P.ids.Nodup) (hp : pid ∉ P.ids) :
    (probeM P pid a).ids.Nodup := by
  rw [probeM_ids]
  exact List.nodup_append.mpr ⟨hids, by simp, by
    intro x hx y hy; simp only [List.mem_singleton] at hy; subst hy; exact fun e => hp (e ▸ hx)⟩

theorem probeM_cs (P : Net L K) (pid : String) (a : L) :
    (probeM P pid a).cs = [probeBranch pid a P.zero 1] := by
  unfold Net.cs
  rw [probeM_branches, List.filter_append]
  have h1 : (zs P.branches).filter (fun b => b.e.isCS) = [] := by
    rw [List.filter_eq_nil_iff]
    intro b hb
    obtain ⟨c, hc, rfl⟩ := List.mem_map.mp hb
    simp [Elem.isCS, zeroSources_Ival]
  rw [h1]
  simp [probeBranch, Elem.isCS, Elem.Ival]

theorem probeM_csSorted (P : Net L K) (pid : String) (a : L) (hids : P.ids.Nodup) (hp : pid ∉ P.ids) :
    (probeM P pid a).csSorted = [probeBranch pid a P.zero 1] := by
  have hmem : (probeBranch pid a P.zero (1 : K) : Branch L K) ∈ (probeM P pid a).branches := by
    rw [probeM_branches]; simp
  have := get?_of_mem (probeM P pid a) (probeM_ids_nodup P pid a hids hp) hmem
  have hid : (probeBranch pid a P.zero (1 : K) : Branch L K).id = pid := rfl
  rw [hid] at this
  simp [Net.csSorted, Net.csIds, probeM_cs, sortL_singleton, Net.byIds, probeBranch, this]

theorem probeM_rhsNode (P : Net L K) (pid : String) (a : L) (hids : P.ids.Nodup) (hp : pid ∉ P.ids)
    (ha : a ≠ P.zero) (n : L) :
    (probeM P pid a).rhsNode n = if a = n then 1 else 0 := by
  unfold Net.rhsNode
  rw [probeM_csSorted P pid a hids hp]
  have hz : (probeM P pid a).zero = P.zero := rfl
  simp only [List.map_cons, List.map_nil, List.sum_cons, List.sum_nil, add_zero, Net.Qentry, probeBranch,
    Elem.Ival, hz, mul_one]
  by_cases h : a = n
  · subst h; simp [ha]
  · have hz0 : ¬ (P.zero = n ∧ P.zero ≠ P.zero) := fun e => e.2 rfl
    simp [h, hz0]

theorem probeM_mem_nodeLabels (P : Net L K) (pid : String) (a : L) (ha : a ∈ P.nodeLabels)
    (hz : P.zero ∈ P.nodeLabels) (m : L) :
    m ∈ (probeM P pid a).nodeLabels ↔ m ∈ P.nodeLabels := by
  rw [mem_nodeLabels, mem_nodeLabels, probeM_branches]
  have hne : zs P.branches ++ [probeBranch pid a P.zero (1 : K)] ≠ [] := by simp
  constructor
  · rintro (⟨h, _⟩ | ⟨b, hb, hm⟩)
    · exact absurd h hne
    · rcases List.mem_append.mp hb with hb | hb
      · obtain ⟨c, hc, rfl⟩ := List.mem_map.mp hb
        exact Or.inr ⟨c, hc, hm⟩
      · simp only [List.mem_singleton] at hb; subst hb
        simp only [probeBranch] at hm
        rcases hm with rfl | rfl
        · exact (mem_nodeLabels P _).mp hz
        · exact (mem_nodeLabels P _).mp ha
  · rintro (⟨h, rfl⟩ | ⟨b, hb, hm⟩)
    · exact Or.inr ⟨probeBranch pid a P.zero 1, by simp, Or.inl rfl⟩
    · exact Or.inr ⟨{ b with e := b.e.zeroSources }, List.mem_append_left _ (List.mem_map.mpr ⟨b, hb, rfl⟩), hm⟩

theorem probeM_nodes_perm (P : Net L K) (pid : String) (a : L) (ha : a ∈ P.nodeLabels)
    (hz : P.zero ∈ P.nodeLabels) : (probeM P pid a).nodes.Perm P.nodes := by
  rw [List.perm_ext_iff_of_nodup (nodes_nodup _) (nodes_nodup _)]
  intro m
  rw [mem_nodes_iff, mem_nodes_iff, probeM_mem_nodeLabels P pid a ha hz]
  rfl

theorem probeM_wf (P : Net L K) (pid : String) (a : L) (hids : P.ids.Nodup) (hp : pid ∉ P.ids)
    (ha : a ∈ P.nodeLabels) (hz : P.zero ∈ P.nodeLabels) (haz : a ≠ P.zero)
    (hsl : ∀ b ∈ P.branches, b.n1 ≠ b.n2) : (probeM P pid a).WF := by
  refine ⟨probeM_ids_nodup P pid a hids hp, ?_, ?_⟩
  · exact (probeM_mem_nodeLabels P pid a ha hz _).mpr hz
  · intro b hb
    rw [probeM_branches] at hb
    rcases List.mem_append.mp hb with hb | hb
    · obtain ⟨c, hc, rfl⟩ := List.mem_map.mp hb
      exact hsl c hc
    · simp only [List.mem_singleton] at hb; subst hb
      exact fun e => haz e.symm

theorem probe_flip (N : Net L K) (pid : String) (hp : pid ∉ N.ids) (a b : L) (R : Report L K)
    (hR : CircuitEqs (probeNet N pid a b 1) R) :
    ∃ S : Report L K, CircuitEqs (probeNet N pid b a 1) S ∧ ∀ n, S.pot n = - R.pot n := by
  obtain ⟨h1, e1, _⟩ := (probe_iff N pid a b 1 R).mp hR
  rw [e1] at h1
  have h2 := eqsInj_zs_lin N.branches N.zero (-1) 0 R R _ _ h1 h1
  have h3 : EqsInj (zs N.branches) N.zero (Report.lin (-1) 0 R R) (injAB b a 1) := by
    apply eqsInj_congr h2
    intro n; simp only [injAB]; ring
  refine ⟨_, probe_of_eqsInj N pid hp b a 1 _ h3, fun n => ?_⟩
  simp [Report.setProbe, Report.lin]

theorem probe_move (M : Net L K) (pid : String) (a b g : L) (R : Report L K)
    (hR : CircuitEqs (probeNet M pid a b 1) R) :
    CircuitEqs (probeNet { M with zero := g } pid a b 1) (R.portShift (R.pot g)) := by
  obtain ⟨h1, e1, e2⟩ := (probe_iff M pid a b 1 R).mp hR
  rw [probe_iff]
  refine ⟨eqsInj_shift g h1, e1, ?_⟩
  simp only [Report.portShift]; rw [e2]; ring


/-! ### the MNA matrix of the probe network is the MNA matrix of the network -/

/-- the branch with its source zeroed -/
abbrev zsB (b : Branch L K) : Branch L K := { b with e := b.e.zeroSources }

theorem probeM_vs (P : Net L K) (pid : String) (a : L) : (probeM P pid a).vs = P.vs.map zsB := by
  unfold Net.vs
  rw [probeM_branches, List.filter_append]
  have h1 : [probeBranch pid a P.zero (1 : K)].filter (fun b : Branch L K => b.e.isIdealVS) = [] := by
    simp [probeBranch, Elem.isIdealVS]
  rw [h1, List.append_nil, zs, List.filter_map]
  congr 1
  apply List.filter_congr
  intro b _
  simp [zeroSources_isIdealVS]

theorem probeM_vsIds (P : Net L K) (pid : String) (a : L) : (probeM P pid a).vsIds = P.vsIds := by
  unfold Net.vsIds
  rw [probeM_vs, List.map_map]
  rfl

theorem probeM_get? (P : Net L K) (pid : String) (a : L) (hids : P.ids.Nodup) (hp : pid ∉ P.ids)
    {b : Branch L K} (hb : b ∈ P.branches) : (probeM P pid a).get? b.id = some (zsB b) := by
  have hmem : zsB b ∈ (probeM P pid a).branches := by
    rw [probeM_branches]; exact List.mem_append_left _ (List.mem_map.mpr ⟨b, hb, rfl⟩)
  exact get?_of_mem (probeM P pid a) (probeM_ids_nodup P pid a hids hp) hmem

theorem probeM_vsSorted (P : Net L K) (pid : String) (a : L) (hids : P.ids.Nodup) (hp : pid ∉ P.ids) :
    (probeM P pid a).vsSorted = P.vsSorted.map zsB := by
  unfold Net.vsSorted
  rw [probeM_vsIds]
  unfold Net.byIds
  have hall : ∀ id ∈ P.vsIds, ∃ b ∈ P.branches, b.id = id := by
    intro id hid
    have : id ∈ P.vs.map (·.id) := mem_sortL.mp hid
    obtain ⟨b, hb, rfl⟩ := List.mem_map.mp this
    exact ⟨b, (List.mem_filter.mp hb).1, rfl⟩
  generalize P.vsIds = ids at hall
  induction ids with
  | nil => simp
  | cons id ids ih =>
    obtain ⟨b, hb, rfl⟩ := hall _ (List.mem_cons_self ..)
    simp only [List.filterMap_cons, get?_of_mem P hids hb, probeM_get? P pid a hids hp hb, List.map_cons]
    rw [ih (fun i hi => hall i (List.mem_cons_of_mem _ hi))]

theorem probeM_Yentry (P : Net L K) (pid : String) (a : L) (n m : L) :
    (probeM P pid a).Yentry n m = P.Yentry n m := by
  have hnv : (probeM P pid a).nonVS = zs P.nonVS ++ [probeBranch pid a P.zero 1] := by
    unfold Net.nonVS
    rw [probeM_branches, List.filter_append]
    have h1 : [probeBranch pid a P.zero (1 : K)].filter (fun b : Branch L K => !b.e.isIdealVS)
        = [probeBranch pid a P.zero 1] := by simp [probeBranch, Elem.isIdealVS]
    rw [h1, zs, zs, List.filter_map]
    congr 2
    apply List.filter_congr
    intro b _
    simp [zeroSources_isIdealVS]
  unfold Net.Yentry
  rw [hnv]
  have key : ∀ p : Branch L K → Bool, (∀ b : Branch L K, p { b with e := b.e.zeroSources } = p b) →
      (((zs P.nonVS ++ [probeBranch pid a P.zero 1]).filter p).map (fun b : Branch L K => b.e.Yfin)).sum
        = ((P.nonVS.filter p).map (fun b : Branch L K => b.e.Yfin)).sum := by
    intro p hp
    rw [sum_filter_eq_sum_ite, sum_filter_eq_sum_ite, List.map_append, List.sum_append]
    have h1 : (List.map (fun b => if p b = true then b.e.Yfin else 0) [probeBranch pid a P.zero (1 : K)]).sum = 0 := by
      simp [probeBranch, Elem.Yfin]
    rw [h1, add_zero]
    simp only [zs, List.map_map]
    apply congrArg; apply List.map_congr_left; intro b _
    simp only [Function.comp_apply, hp b, zeroSources_Yfin]
  by_cases h : n = m
  · simp only [h, if_true]
    exact key (fun b => decide ((b.n1 = m ∨ b.n2 = m) ∧ b.n1 ≠ b.n2)) (fun b => rfl)
  · simp only [h, if_false]
    rw [key (fun b => decide ((b.n1 = n ∧ b.n2 = m) ∨ (b.n1 = m ∧ b.n2 = n))) (fun b => rfl)]

/-- node rows of the probe network = node rows of the network (same label-indexed unknowns) -/
theorem probeM_rowNode (P : Net L K) (pid : String) (a : L) (hids : P.ids.Nodup) (hp : pid ∉ P.ids)
    (ha : a ∈ P.nodeLabels) (hz : P.zero ∈ P.nodeLabels) (s : Sol L K) (n : L) :
    (probeM P pid a).rowNode s n = P.rowNode s n := by
  unfold Net.rowNode
  rw [probeM_vsSorted P pid a hids hp, List.map_map]
  congr 1
  have e1 : ((probeM P pid a).nodes.map fun m => (probeM P pid a).Yentry n m * s.phi m)
      = (probeM P pid a).nodes.map fun m => P.Yentry n m * s.phi m := by
    apply List.map_congr_left; intro m _; rw [probeM_Yentry]
  rw [e1]
  exact sum_map_perm (probeM_nodes_perm P pid a ha hz) _

theorem probeM_rowVS (P : Net L K) (pid : String) (a : L) (ha : a ∈ P.nodeLabels)
    (hz : P.zero ∈ P.nodeLabels) (s : Sol L K) (b : Branch L K) :
    (probeM P pid a).rowVS s (zsB b) = P.rowVS s b := by
  unfold Net.rowVS
  exact sum_map_perm (probeM_nodes_perm P pid a ha hz) _

/-! ### rows of the matrix–vector product -/

theorem matVec_pack_rows (N : Net L K) (s : Sol L K) :
    matVec N.mnaA (N.pack s)
      = (N.nodes.map fun n => N.rowNode s n) ++ (N.vsSorted.map fun b => N.rowVS s b) := by
  have hrowN : ∀ i, dotL ((N.nodes.map fun j => N.Yentry i j) ++ (N.vsSorted.map fun b => b.dir i)) (N.pack s)
      = N.rowNode s i := by
    intro i
    unfold Net.pack
    rw [dotL_append _ _ _ _ (by simp), dotL_map_map, dotL_map_map]
    rfl
  have hrowV : ∀ b : Branch L K, dotL ((N.nodes.map fun j => b.dir j) ++ (N.vsSorted.map fun _ => (0 : K))) (N.pack s)
      = N.rowVS s b := by
    intro b
    unfold Net.pack
    rw [dotL_append _ _ _ _ (by simp), dotL_map_map, dotL_zeros]
    simp [Net.rowVS]
  unfold matVec Net.mnaA
  rw [List.map_append, List.map_map, List.map_map]
  congr 1
  · apply List.map_congr_left; intro n _; simp only [Function.comp_apply]; rw [hrowN]
  · apply List.map_congr_left; intro b _; simp only [Function.comp_apply]; rw [hrowV]

theorem unitVec_split (nodes : List L) (hn : nodes.Nodup) {β : Type} (vs : List β) (i : Nat)
    (hi : i < nodes.length) :
    (unitVec (nodes.length + vs.length) i : List K)
      = (nodes.map fun n => if idxOf? n nodes = some i then (1 : K) else 0) ++ vs.map fun _ => (0 : K) := by
  apply List.ext_getElem
  · simp [unitVec]
  · intro k h1 h2
    simp only [unitVec, List.getElem_map, List.getElem_range]
    by_cases hk : k < nodes.length
    · rw [List.getElem_append_left (by simpa using hk)]
      simp only [List.getElem_map]
      rw [idxOf?_getElem nodes hn k hk]
      by_cases e : k = i <;> simp [e]
    · rw [List.getElem_append_right (by simpa using hk)]
      have : k ≠ i := by omega
      simp [this]

/-- **the solution of the unit-injection MNA system solves the probe network** (ideal voltage
sources anywhere are fine) -/
theorem impl_solution (P : Net L K) (pid : String) (a : L) (hids : P.ids.Nodup) (hp : pid ∉ P.ids)
    (hsl : ∀ b ∈ P.branches, b.n1 ≠ b.n2) (hz : P.zero ∈ P.nodeLabels)
    (i : Nat) (hai : idxOf? a P.nodes = some i) (x : List K)
    (hx : x.length = P.nodes.length + P.vsIds.length)
    (hsol : matVec P.mnaA x = unitVec (P.nodes.length + P.vsIds.length) i) :
    ∃ R : Report L K, CircuitEqs (probeNet P pid a P.zero 1) R ∧
      R.pot a - R.pot P.zero = x.getD i 0 := by
  have ha : a ∈ P.nodes := by
    by_contra hna
    rw [idxOf?_none_of_not_mem hna] at hai; cases hai
  obtain ⟨haL, haz⟩ := (mem_nodes_iff P a).mp ha
  obtain ⟨k, hk, hilt, _⟩ := idxOf?_of_mem ha
  have hik : k = i := by rw [hk] at hai; exact Option.some.inj hai
  subst hik
  set M := probeM P pid a with hM
  have wf : M.WF := probeM_wf P pid a hids hp haL hz haz hsl
  set s := P.solOf x with hs
  -- the rows of the network's own system
  have hrows : (P.nodes.map fun n => P.rowNode s n) ++ (P.vsSorted.map fun b => P.rowVS s b)
      = (P.nodes.map fun n => if idxOf? n P.nodes = some k then (1 : K) else 0)
        ++ P.vsSorted.map fun _ => (0 : K) := by
    have hpx : P.pack s = x := (pack_solOf P hids x hx).symm
    rw [← matVec_pack_rows, hpx, hsol, ← vsSorted_length P hids]
    exact unitVec_split P.nodes (nodes_nodup P) P.vsSorted k hilt
  obtain ⟨r1, r2⟩ := List.append_inj hrows (by simp)
  have hperm := probeM_nodes_perm P pid a haL hz
  have rowsN : ∀ n ∈ M.nodes, M.rowNode s n = M.rhsNode n := by
    intro n hn
    have hnP : n ∈ P.nodes := hperm.mem_iff.mp hn
    rw [probeM_rowNode P pid a hids hp haL hz, probeM_rhsNode P pid a hids hp haz]
    have := List.map_inj_left.mp r1 n hnP
    rw [this]
    by_cases e : a = n
    · subst e; simp [hk]
    · have : idxOf? n P.nodes ≠ some k := fun h => e (idxOf?_inj hk h)
      simp [e, this]
  have rowsV : ∀ b ∈ M.vsSorted, M.rowVS s b = b.e.Vval := by
    intro b' hb'
    rw [probeM_vsSorted P pid a hids hp] at hb'
    obtain ⟨b, hb, rfl⟩ := List.mem_map.mp hb'
    rw [probeM_rowVS P pid a haL hz]
    have := List.map_inj_left.mp r2 b hb
    rw [this]
    have hvs : b.e.isIdealVS = true := by
      have : b ∈ P.vs := (vsSorted_perm P hids).mem_iff.mp hb
      exact (List.mem_filter.mp this).2
    cases he : b.e with
    | thevenin Y I => rw [he] at hvs; simp [Elem.isIdealVS] at hvs
    | norton Z V => simp [Elem.zeroSources, Elem.Vval, he]
  have hmat : matVec M.mnaA (M.pack s) = M.mnaB := (matVec_pack_iff M s).mpr ⟨rowsN, rowsV⟩
  have hsound := (C01_sound M (M.pack s) wf (pack_length M wf.ids_nodup s) hmat).2.2
  refine ⟨_, hsound, ?_⟩
  have hx' := pack_solOf M wf.ids_nodup (M.pack s) (pack_length M wf.ids_nodup s)
  have hphi : ∀ m ∈ M.nodes, (M.solOf (M.pack s)).phi m = s.phi m := by
    have h1 : M.nodes.map s.phi = M.nodes.map (M.solOf (M.pack s)).phi := by
      have := hx'
      unfold Net.pack at this
      exact (List.append_inj this (by simp)).1
    intro m hm
    exact (List.map_inj_left.mp h1 m hm).symm
  have haM : a ∈ M.nodes := hperm.mem_iff.mpr ha
  have hMz : M.zero = P.zero := rfl
  have hz0 : (M.reportOf (M.pack s)).pot P.zero = 0 := by
    have := hsound.ref_zero
    rw [hMz] at this; exact this
  have hpa : (M.reportOf (M.pack s)).pot a = s.phi a := by
    simp only [Net.reportOf, Net.pot, hMz, haz, if_false]
    exact hphi a haM
  rw [hz0, hpa, sub_zero]
  simp only [hs, Net.solOf, hk, Option.getD_some]

/-! ### masks that keep everything -/

theorem selectL_all_true {α : Type} (keep : List Bool) (l : List α) (hk : keep.all id = true)
    (hl : keep.length = l.length) : selectL keep l = l := by
  induction keep generalizing l with
  | nil => cases l with
    | nil => rfl
    | cons x xs => simp at hl
  | cons k ks ih =>
    cases l with
    | nil => simp at hl
    | cons x xs =>
      simp only [List.all_cons, Bool.and_eq_true, id] at hk
      obtain ⟨rfl, hks⟩ := hk
      simp only [selectL]
      rw [ih xs hks (by simpa using hl)]

theorem countBefore_all_true (keep : List Bool) (hk : keep.all id = true) (i : Nat) (hi : i ≤ keep.length) :
    countBefore keep i = i := by
  unfold countBefore
  have : (keep.take i).filter id = keep.take i := by
    rw [List.filter_eq_self]
    intro b hb
    have := List.all_eq_true.mp hk b (List.mem_of_mem_take hb)
    simpa using this
  rw [this, List.length_take]; omega

theorem mnaA_length (N : Net L K) : N.mnaA.length = N.nodes.length + N.vsSorted.length := by
  simp [Net.mnaA]

theorem mnaA_row_length (N : Net L K) : ∀ r ∈ N.mnaA, r.length = N.nodes.length + N.vsSorted.length := by
  intro r hr
  unfold Net.mnaA at hr
  rcases List.mem_append.mp hr with h | h
  · obtain ⟨i, _, rfl⟩ := List.mem_map.mp h; simp
  · obtain ⟨b, _, rfl⟩ := List.mem_map.mp h; simp

theorem subMatrix_all_true (N : Net L K) (keep : List Bool) (hk : keep.all id = true)
    (hl : keep.length = N.mnaA.length) : subMatrix keep N.mnaA = N.mnaA := by
  unfold subMatrix
  rw [selectL_all_true keep _ hk hl]
  conv_rhs => rw [← List.map_id N.mnaA]
  apply List.map_congr_left
  intro r hr
  rw [selectL_all_true keep r hk (by rw [hl, mnaA_length, mnaA_row_length N r hr])]
  rfl

theorem keepMask_length (n : Nat) (A : List (List K)) : (keepMask n A).length = n := by
  simp [keepMask]

/-! ### what `portPre` has established -/

theorem portSys_sys {P : Net L K} {a : L} {N' : Net L K} {keep : List Bool} {A : List (List K)}
    {e : List K} {i1 : Nat} (h : P.portSys a = .ok (.sys N' keep A e i1)) :
    N' = P ∧ keep = keepMask P.mnaA.length P.mnaA ∧ A = subMatrix keep P.mnaA ∧
      (∃ i, idxOf? a P.nodes = some i ∧ i1 = countBefore keep i) ∧ e = unitVec A.length i1 ∧
      i1 < A.length := by
  unfold Net.portSys at h
  cases hidx : idxOf? a P.nodes with
  | none => simp [hidx] at h
  | some i =>
    simp only [hidx] at h
    by_cases hlt : countBefore (keepMask P.mnaA.length P.mnaA) i
        < (subMatrix (keepMask P.mnaA.length P.mnaA) P.mnaA).length
    · simp only [hlt, if_true] at h
      cases h
      exact ⟨rfl, rfl, rfl, ⟨i, rfl, rfl⟩, rfl, hlt⟩
    · simp [hlt] at h

theorem portSys_not_early {P : Net L K} {a : L} : P.portSys a ≠ .ok .early := by
  unfold Net.portSys
  cases idxOf? a P.nodes with
  | none => simp
  | some i =>
    simp only
    split <;> simp

/-- unfolding of `portPre` past the early returns -/
theorem portPre_unfold {N : Net L K} {n1 n2 : L} (h12 : n1 ≠ n2)
    (hany : ¬ (N.branchesBetween n1 n2).any (·.e.isIdealVS) = true) :
    N.portPre n1 n2 =
      match N.isolated (if n1 = N.zero then n2 else n1) (if n1 = N.zero then n1 else n2) with
      | .error e => .error e
      | .ok true => .ok .infinite
      | .ok false =>
        match N.isolated (if n1 = N.zero then n1 else n2) (if n1 = N.zero then n2 else n1) with
        | .error e => .error e
        | .ok true => .ok .infinite
        | .ok false =>
          match N.switchGround (if n1 = N.zero then n1 else n2) with
          | .error e => .error e
          | .ok N' => N'.portSys (if n1 = N.zero then n2 else n1) := by
  unfold Net.portPre
  simp only [h12, if_false, hany, Bool.false_eq_true]
  rfl

theorem switchGround_ok {N N' : Net L K} {g : L} (h : N.switchGround g = .ok N') :
    N' = { N with zero := g } ∧ N'.check = .ok () := by
  unfold Net.switchGround at h
  cases hc : ({ N with zero := g } : Net L K).check with
  | error e => simp [hc, bind, Except.bind] at h
  | ok u =>
    simp only [hc, bind, Except.bind, pure, Except.pure] at h
    cases h
    exact ⟨rfl, hc⟩

/-- what `portPre` has established when it hands a system to `solve` -/
theorem portPre_sys {N : Net L K} {n1 n2 : L} {N' : Net L K} {keep : List Bool} {A : List (List K)}
    {e : List K} {i1 : Nat} (h : N.portPre n1 n2 = .ok (.sys N' keep A e i1)) :
    n1 ≠ n2 ∧ N' = { N with zero := if n1 = N.zero then n1 else n2 } ∧ N'.check = .ok () ∧
      N'.portSys (if n1 = N.zero then n2 else n1) = .ok (.sys N' keep A e i1) := by
  have h12 : n1 ≠ n2 := by
    intro e12; unfold Net.portPre at h; simp [e12] at h
  have hany : ¬ (N.branchesBetween n1 n2).any (·.e.isIdealVS) = true := by
    intro ha; unfold Net.portPre at h; simp [h12, ha] at h
  rw [portPre_unfold h12 hany] at h
  cases h1 : N.isolated (if n1 = N.zero then n2 else n1) (if n1 = N.zero then n1 else n2) with
  | error e => rw [h1] at h; cases h
  | ok b1 =>
    rw [h1] at h
    cases b1 with
    | true => cases h
    | false =>
      simp only at h
      cases h2 : N.isolated (if n1 = N.zero then n1 else n2) (if n1 = N.zero then n2 else n1) with
      | error e => rw [h2] at h; cases h
      | ok b2 =>
        rw [h2] at h
        cases b2 with
        | true => cases h
        | false =>
          simp only at h
          cases h3 : N.switchGround (if n1 = N.zero then n1 else n2) with
          | error e => rw [h3] at h; cases h
          | ok N'' =>
            rw [h3] at h
            simp only at h
            obtain ⟨hN, hc⟩ := switchGround_ok h3
            have := (portSys_sys h).1
            subst this
            exact ⟨h12, hN, hc, h⟩

theorem portPre_early {N : Net L K} {n1 n2 : L} (h : N.portPre n1 n2 = .ok .early) :
    N.portIsEarly n1 n2 = true := by
  unfold Net.portIsEarly
  by_cases h12 : n1 = n2
  · simp [h12]
  · by_cases hany : (N.branchesBetween n1 n2).any (·.e.isIdealVS) = true
    · simp [hany]
    · exfalso
      rw [portPre_unfold h12 hany] at h
      cases h1 : N.isolated (if n1 = N.zero then n2 else n1) (if n1 = N.zero then n1 else n2) with
      | error e => rw [h1] at h; cases h
      | ok b1 =>
        rw [h1] at h
        cases b1 with
        | true => cases h
        | false =>
          simp only at h
          cases h2 : N.isolated (if n1 = N.zero then n1 else n2) (if n1 = N.zero then n2 else n1) with
          | error e => rw [h2] at h; cases h
          | ok b2 =>
            rw [h2] at h
            cases b2 with
            | true => cases h
            | false =>
              simp only at h
              cases h3 : N.switchGround (if n1 = N.zero then n1 else n2) with
              | error e => rw [h3] at h; cases h
              | ok N'' => rw [h3] at h; exact portSys_not_early h

/-- `portPre` answers `infinite` exactly when one port node's column is zero in the MNA matrix
referenced to the other port node -/
theorem portPre_infinite {N : Net L K} {n1 n2 : L} (h : N.portPre n1 n2 = .ok .infinite) :
    n1 ≠ n2 ∧ ∃ a g : L, ((a = n1 ∧ g = n2) ∨ (a = n2 ∧ g = n1)) ∧ N.isolated a g = .ok true := by
  have h12 : n1 ≠ n2 := by
    intro e12; unfold Net.portPre at h; simp [e12] at h
  have hany : ¬ (N.branchesBetween n1 n2).any (·.e.isIdealVS) = true := by
    intro ha; unfold Net.portPre at h; simp [h12, ha] at h
  refine ⟨h12, ?_⟩
  rw [portPre_unfold h12 hany] at h
  cases h1 : N.isolated (if n1 = N.zero then n2 else n1) (if n1 = N.zero then n1 else n2) with
  | error e => rw [h1] at h; cases h
  | ok b1 =>
    cases b1 with
    | true =>
      by_cases hz : n1 = N.zero
      · simp only [hz, if_true] at h1; exact ⟨n2, n1, Or.inr ⟨rfl, rfl⟩, by rw [hz]; exact h1⟩
      · simp only [hz, if_false] at h1; exact ⟨n1, n2, Or.inl ⟨rfl, rfl⟩, h1⟩
    | false =>
      rw [h1] at h
      simp only at h
      cases h2 : N.isolated (if n1 = N.zero then n1 else n2) (if n1 = N.zero then n2 else n1) with
      | error e => rw [h2] at h; cases h
      | ok b2 =>
        cases b2 with
        | true =>
          by_cases hz : n1 = N.zero
          · simp only [hz, if_true] at h2; exact ⟨n1, n2, Or.inl ⟨rfl, rfl⟩, by rw [hz]; exact h2⟩
          · simp only [hz, if_false] at h2; exact ⟨n2, n1, Or.inr ⟨rfl, rfl⟩, h2⟩
        | false =>
          rw [h2] at h
          simp only at h
          cases h3 : N.switchGround (if n1 = N.zero then n1 else n2) with
          | error e => rw [h3] at h; cases h
          | ok N'' =>
            rw [h3] at h
            simp only at h
            unfold Net.portSys at h
            cases hi : idxOf? (if n1 = N.zero then n2 else n1) N''.nodes with
            | none => simp [hi] at h
            | some i => simp only [hi] at h; split at h <;> cases h


theorem Yentry_symm (N : Net L K) (i j : L) : N.Yentry i j = N.Yentry j i := by
  unfold Net.Yentry
  by_cases h : i = j
  · subst h; rfl
  · have h' : ¬ j = i := fun e => h e.symm
    simp only [h, h', if_false]
    congr 3
    apply List.filter_congr
    intro b _
    simp only [decide_eq_decide]
    constructor <;> (rintro (h1 | h1) <;> [exact Or.inr h1; exact Or.inl h1])

/-- a zero column of the MNA matrix is a zero row: the node's own equation has no unknown in it -/
theorem rowNode_zero_of_colZero (P : Net L K) (hids : P.ids.Nodup) (a : L) (i : Nat)
    (hi : idxOf? a P.nodes = some i) (hc : colZero P.mnaA i = true) (s : Sol L K) :
    P.rowNode s a = 0 := by
  have ha : a ∈ P.nodes := by
    by_contra hna; rw [idxOf?_none_of_not_mem hna] at hi; cases hi
  obtain ⟨k, hk, hlt, hget⟩ := idxOf?_of_mem ha
  have hik : k = i := by rw [hk] at hi; exact Option.some.inj hi
  subst hik
  have hall := List.all_eq_true.mp hc
  have hY : ∀ m ∈ P.nodes, P.Yentry m a = 0 := by
    intro m hm
    have hr : ((P.nodes.map fun j => P.Yentry m j) ++ (P.vsSorted.map fun b => b.dir m)) ∈ P.mnaA := by
      unfold Net.mnaA; exact List.mem_append_left _ (List.mem_map.mpr ⟨m, hm, rfl⟩)
    have := hall _ hr
    simp only [decide_eq_true_eq] at this
    rw [List.getD_eq_getElem?_getD, List.getElem?_append_left (by simpa using hlt), List.getElem?_map, hget] at this
    simpa using this
  have hB : ∀ b ∈ P.vsSorted, b.dir a = 0 := by
    intro b hb
    have hr : ((P.nodes.map fun j => b.dir j) ++ (P.vsSorted.map fun _ => (0 : K))) ∈ P.mnaA := by
      unfold Net.mnaA; exact List.mem_append_right _ (List.mem_map.mpr ⟨b, hb, rfl⟩)
    have := hall _ hr
    simp only [decide_eq_true_eq] at this
    rw [List.getD_eq_getElem?_getD, List.getElem?_append_left (by simpa using hlt), List.getElem?_map, hget] at this
    simpa using this
  unfold Net.rowNode
  have h1 : (P.nodes.map fun m => P.Yentry a m * s.phi m).sum = 0 := by
    apply List.sum_eq_zero
    intro y hy
    obtain ⟨m, hm, rfl⟩ := List.mem_map.mp hy
    rw [Yentry_symm, hY m hm, zero_mul]
  have h2 : (P.vsSorted.map fun b => b.dir a * s.ivs b.id).sum = 0 := by
    apply List.sum_eq_zero
    intro y hy
    obtain ⟨b, hb, rfl⟩ := List.mem_map.mp hy
    rw [hB b hb, zero_mul]
  rw [h1, h2, add_zero]

/-- an isolated port node: the unit-current problem on the network referenced to the other port node
has no solution -/
theorem isolated_no_solution (N : Net L K) (pid : String) (hp : pid ∉ N.ids) (hids : N.ids.Nodup)
    (hsl : ∀ b ∈ N.branches, b.n1 ≠ b.n2) (a g : L) (hag : a ≠ g) (h : N.isolated a g = .ok true)
    (R : Report L K) : ¬ CircuitEqs (probeNet { N with zero := g } pid a g 1) R := by
  intro hR
  unfold Net.isolated at h
  cases hsw : N.switchGround g with
  | error e => rw [hsw] at h; cases h
  | ok Ng =>
    rw [hsw] at h
    simp only at h
    obtain ⟨hNg, hcheck⟩ := switchGround_ok hsw
    cases hi : idxOf? a Ng.nodes with
    | none => rw [hi] at h; cases h
    | some i =>
      rw [hi] at h
      simp only [Except.ok.injEq] at h
      have hids' : Ng.ids.Nodup := by rw [hNg]; exact hids
      have hp' : pid ∉ Ng.ids := by rw [hNg]; exact hp
      have hsl' : ∀ b ∈ Ng.branches, b.n1 ≠ b.n2 := by rw [hNg]; exact hsl
      have hzero : Ng.zero ∈ Ng.nodeLabels := ((Net.check_ok_iff Ng).mp hcheck).1
      have hz : Ng.zero = g := by rw [hNg]
      have ha : a ∈ Ng.nodes := by
        by_contra hna; rw [idxOf?_none_of_not_mem hna] at hi; cases hi
      obtain ⟨haL, haz⟩ := (mem_nodes_iff Ng a).mp ha
      have hR' : CircuitEqs (probeM Ng pid a) R := by
        show CircuitEqs (probeNet Ng pid a Ng.zero 1) R
        rw [hz, hNg]; exact hR
      have wf := probeM_wf Ng pid a hids' hp' haL hzero haz hsl'
      have hmat := C01_complete (probeM Ng pid a) R wf hR'
      obtain ⟨rows, _⟩ := (matVec_pack_iff (probeM Ng pid a) R.toSol).mp hmat
      have haM : a ∈ (probeM Ng pid a).nodes := (probeM_nodes_perm Ng pid a haL hzero).mem_iff.mpr ha
      have := rows a haM
      rw [probeM_rowNode Ng pid a hids' hp' haL hzero, probeM_rhsNode Ng pid a hids' hp' haz,
        rowNode_zero_of_colZero Ng hids' a i hi h] at this
      simp at this

end CC
