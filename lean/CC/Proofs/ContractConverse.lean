/-
  CC.Proofs.ContractConverse — the CONVERSE of short-circuit contraction (`contractAll` of
  CC/Model/Transform.lean, the loop of `remove_short_circuit_elements`):

    every solution of the circuit equations of the contracted branch list extends to a solution of the
    original branch list.

  Potentials: `pot x := pot' (σ x)` (σ = `sigmaAll z ps`, CC/Proofs/ContractShape.lean); surviving branches
  keep voltage and current; a dropped branch (a contracted short, or a branch that became a self-loop) gets
  voltage 0.  The CURRENTS of the dropped branches are chosen by induction along the contraction steps:
  at the step `an → rn` every branch dropped by that step that is not the short itself gets its
  zero-voltage current (`Elem.zeroCur`: 0 for an impedance / admittance / short, `I` for an ideal current
  source, `-V/Z` resp. `-I` for a lossy source), and ONE short between `an` and `rn` gets the current that
  balances Kirchhoff's current law at `an` (minus the sum of the other currents leaving `an`); KCL at `rn` then
  holds because the contracted list satisfies KCL at the merged node.  The shorts chosen at the steps with
  `an ≠ rn` form a spanning forest of the short-circuit graph.

  The hypothesis that cannot be dropped: every dropped branch must be consistent at zero voltage
  (`Elem.ZeroVoltOK`: `∃ i, lawResidual e 0 i = 0`).  It fails exactly for an ideal voltage source with
  `V ≠ 0` (`Elem.zeroVoltOK_iff`) — such a source parallel to a chain of shorts makes the original
  unsolvable, while the contracted list (without it) may well be solvable.

    step_converse         one contraction step
    contractAll_converse  the whole loop
-/
import CC.Proofs.ContractShape
import CC.Proofs.Linear
set_option linter.unusedSectionVars false
set_option linter.unusedVariables false

namespace CC
variable {L K : Type} [DecidableEq L] [LabelOrd L] [Field K] [DecidableEq K]

/-! ### consistency at zero voltage -/

/-- the reported current of an element held at voltage 0 (any value would do for `Z = 0`) -/
def Elem.zeroCur : Elem K → K
  | .norton Z V => if Z = 0 then 0 else if V = 0 then 0 else -V / Z
  | .thevenin Y I => if Y = 0 then I else if I = 0 then 0 else -I

/-- the element law can be met at voltage 0 -/
def Elem.ZeroVoltOK (e : Elem K) : Prop := ∃ i, e.lawResidual 0 i = 0

theorem Elem.zeroCur_law_of (e : Elem K) (h : ∀ V, e = .norton 0 V → V = 0) :
    e.lawResidual 0 e.zeroCur = 0 := by
  cases e with
  | norton Z V =>
    by_cases hZ : Z = 0
    · subst hZ
      have := h V rfl
      subst this
      simp [Elem.lawResidual]
    · by_cases hV : V = 0
      · simp [Elem.lawResidual, Elem.zeroCur, hZ, hV]
      · simp only [Elem.lawResidual, Elem.zeroCur, hZ, hV, if_false]
        field_simp
        ring
  | thevenin Y I =>
    by_cases hY : Y = 0
    · simp [Elem.lawResidual, Elem.zeroCur, hY]
    · by_cases hI : I = 0
      · simp [Elem.lawResidual, Elem.zeroCur, hY, hI]
      · simp [Elem.lawResidual, Elem.zeroCur, hY, hI]

/-- **the only element that is inconsistent at zero voltage is an ideal voltage source with `V ≠ 0`** -/
theorem Elem.zeroVoltOK_iff (e : Elem K) : e.ZeroVoltOK ↔ ∀ V, e = .norton 0 V → V = 0 := by
  constructor
  · rintro ⟨i, hi⟩ V rfl
    simpa [Elem.lawResidual] using hi
  · intro h; exact ⟨_, e.zeroCur_law_of h⟩

theorem Elem.zeroCur_law (e : Elem K) (h : e.ZeroVoltOK) : e.lawResidual 0 e.zeroCur = 0 :=
  e.zeroCur_law_of (e.zeroVoltOK_iff.mp h)

/-- every source-free element (impedance, admittance, short circuit, open circuit) is consistent at zero
voltage -/
theorem Elem.zeroVoltOK_of_sourceFree (e : Elem K) (h : e.zeroSources = e) : e.ZeroVoltOK := by
  rw [Elem.zeroVoltOK_iff]
  rintro V rfl
  simpa [Elem.zeroSources] using h.symm

theorem Elem.zeroVoltOK_zeroSources (e : Elem K) : e.zeroSources.ZeroVoltOK :=
  Elem.zeroVoltOK_of_sourceFree _ (by cases e <;> rfl)

/-- every Thevenin record (current source, admittance, open circuit) is consistent at zero voltage -/
theorem Elem.zeroVoltOK_thevenin (Y I : K) : (Elem.thevenin Y I).ZeroVoltOK := by
  rw [Elem.zeroVoltOK_iff]; intro V h; cases h

theorem Elem.zeroVoltOK_of_Z_ne (Z V : K) (h : Z ≠ 0) : (Elem.norton Z V).ZeroVoltOK := by
  rw [Elem.zeroVoltOK_iff]; intro V' h'; cases h'; exact absurd rfl h

/-! ### small list facts -/

theorem eq_of_id_eq {bs : List (Branch L K)} (hid : (bs.map (·.id)).Nodup) {b c : Branch L K}
    (hb : b ∈ bs) (hc : c ∈ bs) (h : b.id = c.id) : b = c := by
  have h1 := findId_of_mem hid hb
  have h2 := findId_of_mem hid hc
  rw [h] at h1
  exact Option.some.inj (h1.symm.trans h2)

theorem sum_ite_id (bs : List (Branch L K)) (hid : (bs.map (·.id)).Nodup) (s : Branch L K) (hs : s ∈ bs)
    (d : K) : (bs.map fun b => if b.id = s.id then d else 0).sum = d := by
  induction bs with
  | nil => simp at hs
  | cons c l ih =>
    simp only [List.map_cons, List.nodup_cons, List.mem_map, not_exists, not_and] at hid
    rw [List.map_cons, List.sum_cons]
    rcases List.mem_cons.mp hs with rfl | hs'
    · have : (l.map fun b => if b.id = s.id then d else 0).sum = 0 := by
        apply List.sum_eq_zero
        intro y hy
        obtain ⟨b, hb, rfl⟩ := List.mem_map.mp hy
        rw [if_neg (hid.1 b hb)]
      rw [this]; simp
    · have hne : c.id ≠ s.id := fun e => hid.1 s hs' e.symm
      rw [if_neg hne, ih hid.2 hs', zero_add]

theorem incidence_loop (b : Branch L K) (h : b.n1 = b.n2) (n : L) : incidence b n = 0 := by
  unfold incidence; rw [h]; ring

theorem renNode_self (an x : L) : renNode an an x = x := by
  unfold renNode; by_cases h : x = an <;> simp [h]

theorem contractStep_eq' (bs : List (Branch L K)) (an rn : L) :
    contractStep bs an rn = ((bs.map (Branch.mapNodes (renNode an rn))).filter fun b => b.n1 ≠ b.n2) := by
  rw [contractStep_eq]
  congr 1
  exact List.map_congr_left fun b _ => ren_eq_mapNodes an rn b

theorem mem_contractStep (bs : List (Branch L K)) (an rn : L) (b' : Branch L K) :
    b' ∈ contractStep bs an rn ↔
      ∃ b ∈ bs, b' = b.mapNodes (renNode an rn) ∧ renNode an rn b.n1 ≠ renNode an rn b.n2 := by
  rw [contractStep_eq', List.mem_filter, List.mem_map]
  constructor
  · rintro ⟨⟨b, hb, rfl⟩, hc⟩
    exact ⟨b, hb, rfl, of_decide_eq_true hc⟩
  · rintro ⟨b, hb, rfl, hc⟩
    exact ⟨⟨b, hb, rfl⟩, decide_eq_true hc⟩

/-! ### the extension of a report by zero-voltage values on the dropped branches -/

/-- potentials pulled back along the renaming `ρ`; a branch of `bs` whose renamed terminals coincide gets
voltage 0 and its zero-voltage current; everything else as in `R'` -/
def extRep (bs : List (Branch L K)) (ρ : L → L) (R' : Report L K) : Report L K where
  pot := fun x => R'.pot (ρ x)
  v := fun id => match findId bs id with
    | some b => if ρ b.n1 = ρ b.n2 then 0 else R'.v id
    | none => R'.v id
  i := fun id => match findId bs id with
    | some b => if ρ b.n1 = ρ b.n2 then b.e.zeroCur else R'.i id
    | none => R'.i id

theorem extRep_v {bs : List (Branch L K)} (hid : (bs.map (·.id)).Nodup) (ρ : L → L) (R' : Report L K)
    {b : Branch L K} (hb : b ∈ bs) :
    (extRep bs ρ R').v b.id = if ρ b.n1 = ρ b.n2 then 0 else R'.v b.id := by
  simp only [extRep, findId_of_mem hid hb]

theorem extRep_i {bs : List (Branch L K)} (hid : (bs.map (·.id)).Nodup) (ρ : L → L) (R' : Report L K)
    {b : Branch L K} (hb : b ∈ bs) :
    (extRep bs ρ R').i b.id = if ρ b.n1 = ρ b.n2 then b.e.zeroCur else R'.i b.id := by
  simp only [extRep, findId_of_mem hid hb]

/-- (E2) and (E3) hold on every branch of the un-contracted list for the zero-voltage extension -/
theorem step_ext_volt_law (bs : List (Branch L K)) (z an rn : L) (R' : Report L K)
    (hid : (bs.map (·.id)).Nodup)
    (hd : ∀ b ∈ bs, renNode an rn b.n1 = renNode an rn b.n2 → b.e.ZeroVoltOK)
    (h : CircuitEqsAll (contractStep bs an rn) z R') :
    ∀ b ∈ bs, voltResidual (extRep bs (renNode an rn) R') b = 0 ∧
      b.e.lawResidual ((extRep bs (renNode an rn) R').v b.id) ((extRep bs (renNode an rn) R').i b.id) = 0 := by
  intro b hb
  rw [extRep_v hid _ _ hb, extRep_i hid _ _ hb]
  unfold voltResidual
  rw [extRep_v hid _ _ hb]
  by_cases hD : renNode an rn b.n1 = renNode an rn b.n2
  · rw [if_pos hD, if_pos hD]
    refine ⟨?_, Elem.zeroCur_law _ (hd b hb hD)⟩
    show 0 - (R'.pot (renNode an rn b.n1) - R'.pot (renNode an rn b.n2)) = 0
    rw [hD]; ring
  · rw [if_neg hD, if_neg hD]
    have hm : b.mapNodes (renNode an rn) ∈ contractStep bs an rn :=
      (mem_contractStep bs an rn _).mpr ⟨b, hb, rfl, hD⟩
    exact ⟨h.volt (b.mapNodes (renNode an rn)) hm, h.law (b.mapNodes (renNode an rn)) hm⟩

/-- (E4) of the contracted list, read on the un-contracted list with the extended currents -/
theorem step_ext_kcl (bs : List (Branch L K)) (z an rn : L) (R' : Report L K)
    (hid : (bs.map (·.id)).Nodup) (h : CircuitEqsAll (contractStep bs an rn) z R') (n : L) :
    (bs.map fun b => incidence (b.mapNodes (renNode an rn)) n *
      b.e.physCurrent ((extRep bs (renNode an rn) R').i b.id)).sum = 0 := by
  have := h.kcl n
  unfold kclResidual at this
  simp only at this
  rw [contractStep_eq', sum_filter_noloop (bs.map (Branch.mapNodes (renNode an rn))) n
    (fun b => b.e.physCurrent (R'.i b.id)), List.map_map] at this
  rw [← this]
  apply congrArg
  apply List.map_congr_left
  intro b hb
  simp only [Function.comp_apply, mapNodes_id', mapNodes_e]
  by_cases hD : renNode an rn b.n1 = renNode an rn b.n2
  · rw [incidence_loop (b.mapNodes (renNode an rn)) hD n, zero_mul, zero_mul]
  · rw [extRep_i hid _ _ hb, if_neg hD]

/-- changing the current of one non-lossy branch whose current was 0 -/
theorem kcl_update (bs : List (Branch L K)) (z : L) (R0 : Report L K) (s : Branch L K)
    (hid : (bs.map (·.id)).Nodup) (hs : s ∈ bs) (hl : s.e.isLossy = false) (h0 : R0.i s.id = 0)
    (I : K) (n : L) :
    kclResidual ⟨bs, z⟩ { R0 with i := fun id => if id = s.id then I else R0.i id } n =
      kclResidual ⟨bs, z⟩ R0 n + incidence s n * I := by
  unfold kclResidual
  simp only
  have hphys : ∀ x : K, s.e.physCurrent x = x := by
    intro x; unfold Elem.physCurrent; rw [hl]; rfl
  have e : ∀ b ∈ bs, incidence b n * b.e.physCurrent (if b.id = s.id then I else R0.i b.id) =
      incidence b n * b.e.physCurrent (R0.i b.id) + (if b.id = s.id then incidence s n * I else 0) := by
    intro b hb
    by_cases hbs : b.id = s.id
    · have : b = s := eq_of_id_eq hid hb hs hbs
      subst this
      rw [if_pos rfl, if_pos rfl, hphys, h0, hphys, mul_zero, zero_add]
    · rw [if_neg hbs, if_neg hbs, add_zero]
  rw [List.map_congr_left e, List.sum_map_add, sum_ite_id bs hid s hs]

/-! ### one contraction step -/

/-- **one contraction step, converse.**  `bs` a branch list with distinct identifiers, `an → rn` a renaming
step that does not rename the reference node (`an = z → rn = z`), and — unless `an = rn` — a genuine short
circuit (`V = 0`, `Z = 0`) of `bs` between `an` and `rn`.  If every branch dropped by the step (renamed
terminals coincide) is consistent at zero voltage, then every solution `R'` of the circuit equations of
`contractStep bs an rn` extends to a solution `R` of the circuit equations of `bs`:
potentials `R.pot x = R'.pot (renNode an rn x)`, voltage and current of every surviving branch unchanged.
(The dropped branches get voltage 0 — forced by (E2) — and the currents described at the head of the file.) -/
theorem step_converse (bs : List (Branch L K)) (z an rn : L) (R' : Report L K)
    (hid : (bs.map (·.id)).Nodup) (hz : an = z → rn = z)
    (hs : an = rn ∨ ∃ s ∈ bs, s.e = .norton 0 0 ∧ ((s.n1 = an ∧ s.n2 = rn) ∨ (s.n1 = rn ∧ s.n2 = an)))
    (hd : ∀ b ∈ bs, renNode an rn b.n1 = renNode an rn b.n2 → b.e.ZeroVoltOK)
    (h : CircuitEqsAll (contractStep bs an rn) z R') :
    ∃ R : Report L K, CircuitEqsAll bs z R ∧ (∀ x, R.pot x = R'.pot (renNode an rn x)) ∧
      ∀ b' ∈ contractStep bs an rn, R.v b'.id = R'.v b'.id ∧ R.i b'.id = R'.i b'.id := by
  have hvl := step_ext_volt_law bs z an rn R' hid hd h
  have hk := step_ext_kcl bs z an rn R' hid h
  have hz0 : R'.pot (renNode an rn z) = 0 := by
    have : renNode an rn z = z := by
      unfold renNode
      by_cases hza : z = an
      · rw [if_pos hza]; exact hz hza.symm
      · rw [if_neg hza]
    rw [this]; exact h.ref_zero
  have hsurv0 : ∀ b' ∈ contractStep bs an rn, ∃ b ∈ bs, b'.id = b.id ∧
      renNode an rn b.n1 ≠ renNode an rn b.n2 ∧
      (extRep bs (renNode an rn) R').v b'.id = R'.v b'.id ∧
      (extRep bs (renNode an rn) R').i b'.id = R'.i b'.id := by
    intro b' hb'
    obtain ⟨b, hb, rfl, hD⟩ := (mem_contractStep bs an rn b').mp hb'
    refine ⟨b, hb, rfl, hD, ?_, ?_⟩
    · show (extRep bs (renNode an rn) R').v b.id = R'.v b.id
      rw [extRep_v hid _ _ hb, if_neg hD]
    · show (extRep bs (renNode an rn) R').i b.id = R'.i b.id
      rw [extRep_i hid _ _ hb, if_neg hD]
  by_cases hne : an = rn
  · -- nothing is renamed: only self-loops are dropped
    subst hne
    refine ⟨extRep bs (renNode an an) R', ⟨hz0, fun b hb => (hvl b hb).1, fun b hb => (hvl b hb).2, ?_⟩,
      fun _ => rfl, fun b' hb' => ?_⟩
    · intro n
      have := hk n
      unfold kclResidual
      simp only
      rw [← this]
      apply congrArg; apply List.map_congr_left
      intro b _
      have : incidence (b.mapNodes (renNode an an)) n = incidence b n := by
        unfold incidence
        rw [mapNodes_n1, mapNodes_n2, renNode_self, renNode_self]
      rw [this]
    · obtain ⟨_, _, _, _, h1, h2⟩ := hsurv0 b' hb'
      exact ⟨h1, h2⟩
  · have hne' : rn ≠ an := fun e => hne e.symm
    obtain ⟨s, hsm, hse, hsn⟩ := hs.resolve_left hne
    set R0 := extRep bs (renNode an rn) R' with hR0
    -- the short itself is dropped, its extended current is 0
    have hDs : renNode an rn s.n1 = renNode an rn s.n2 := by
      rcases hsn with ⟨e1, e2⟩ | ⟨e1, e2⟩ <;> rw [e1, e2] <;> simp [renNode]
    have hs0 : R0.i s.id = 0 := by
      rw [hR0, extRep_i hid _ _ hsm, if_pos hDs, hse]; simp [Elem.zeroCur]
    have hsv0 : R0.v s.id = 0 := by
      rw [hR0, extRep_v hid _ _ hsm, if_pos hDs]
    have hsl : s.e.isLossy = false := by rw [hse]; simp [Elem.isLossy, Elem.kind]
    -- incidences of the short
    have hA : incidence s an * incidence s an = (1 : K) := by
      rcases hsn with ⟨e1, e2⟩ | ⟨e1, e2⟩ <;> unfold incidence <;> rw [e1, e2] <;> simp [hne']
    have hB : incidence s rn * incidence s an = (-1 : K) := by
      rcases hsn with ⟨e1, e2⟩ | ⟨e1, e2⟩ <;> unfold incidence <;> rw [e1, e2] <;> simp [hne, hne']
    have hC : ∀ n, n ≠ an → n ≠ rn → incidence s n = (0 : K) := by
      intro n h1 h2
      have h1' : an ≠ n := fun e => h1 e.symm
      have h2' : rn ≠ n := fun e => h2 e.symm
      rcases hsn with ⟨e1, e2⟩ | ⟨e1, e2⟩ <;> unfold incidence <;> rw [e1, e2] <;> simp [h1', h2']
    -- KCL of the zero-voltage extension: fine away from `an`, `rn`; the two residuals cancel
    have hk' : ∀ n, (bs.map fun b =>
        (if n = an then 0 else if n = rn then incidence b rn + incidence b an else incidence b n) *
          b.e.physCurrent (R0.i b.id)).sum = 0 := by
      intro n
      refine Eq.trans ?_ (hk n)
      apply congrArg; apply List.map_congr_left
      intro b _
      rw [← ren_eq_mapNodes, incidence_ren an rn hne]
    have hK0 : ∀ n, n ≠ an → n ≠ rn → kclResidual ⟨bs, z⟩ R0 n = 0 := by
      intro n h1 h2
      have := hk' n
      simp only [if_neg h1, if_neg h2] at this
      exact this
    have hK1 : kclResidual ⟨bs, z⟩ R0 rn + kclResidual ⟨bs, z⟩ R0 an = 0 := by
      have := hk' rn
      simp only [if_neg hne', if_true] at this
      unfold kclResidual
      simp only
      rw [← List.sum_map_add, ← this]
      apply congrArg; apply List.map_congr_left
      intro b _; ring
    -- the current through the short balances KCL at `an`
    let I : K := -(incidence s an) * kclResidual ⟨bs, z⟩ R0 an
    refine ⟨{ R0 with i := fun id => if id = s.id then I else R0.i id },
      ⟨hz0, fun b hb => (hvl b hb).1, ?_, ?_⟩, fun _ => rfl, ?_⟩
    · intro b hb
      show b.e.lawResidual (R0.v b.id) (if b.id = s.id then I else R0.i b.id) = 0
      by_cases hbs : b.id = s.id
      · have : b = s := eq_of_id_eq hid hb hsm hbs
        subst this
        rw [hse, hsv0]; simp [Elem.lawResidual]
      · rw [if_neg hbs]; exact (hvl b hb).2
    · intro n
      rw [kcl_update bs z R0 s hid hsm hsl hs0 I n]
      by_cases h1 : n = an
      · subst h1
        show kclResidual ⟨bs, z⟩ R0 n + incidence s n * (-(incidence s n) * kclResidual ⟨bs, z⟩ R0 n) = 0
        linear_combination (-(kclResidual ⟨bs, z⟩ R0 n)) * hA
      · by_cases h2 : n = rn
        · subst h2
          show kclResidual ⟨bs, z⟩ R0 n + incidence s n * (-(incidence s an) * kclResidual ⟨bs, z⟩ R0 an) = 0
          linear_combination hK1 - (kclResidual ⟨bs, z⟩ R0 an) * hB
        · rw [hK0 n h1 h2, hC n h1 h2]; ring
    · intro b' hb'
      obtain ⟨b, hb, hid', hD, h1, h2⟩ := hsurv0 b' hb'
      refine ⟨h1, ?_⟩
      show (if b'.id = s.id then I else R0.i b'.id) = R'.i b'.id
      have : b'.id ≠ s.id := by
        intro e
        have : b = s := eq_of_id_eq hid hb hsm (hid'.symm.trans e)
        subst this
        exact hD hDs
      rw [if_neg this]; exact h2

/-! ### the whole loop -/

/-- the pair is trivial, or a genuine short circuit (`V = 0`, `Z = 0`) of `bs` lies between its ends -/
def PairShort (bs : List (Branch L K)) (p : L × L) : Prop :=
  p.1 = p.2 ∨ ∃ s ∈ bs, s.e = .norton 0 0 ∧ ((s.n1 = p.1 ∧ s.n2 = p.2) ∨ (s.n1 = p.2 ∧ s.n2 = p.1))

theorem contractStep_ids_nodup (bs : List (Branch L K)) (an rn : L) (hid : (bs.map (·.id)).Nodup) :
    ((contractStep bs an rn).map (·.id)).Nodup := by
  rw [contractStep_eq']
  have h1 : ((bs.map (Branch.mapNodes (renNode an rn))).map (·.id)) = bs.map (·.id) := by
    rw [List.map_map]; rfl
  have h2 := (List.filter_sublist (l := bs.map (Branch.mapNodes (renNode an rn)))
    (p := fun b => decide (b.n1 ≠ b.n2))).map (·.id)
  rw [h1] at h2
  exact h2.nodup hid

theorem pairShort_step (bs : List (Branch L K)) (an rn : L) (q : L × L) (h : PairShort bs q) :
    PairShort (contractStep bs an rn) (renPair an rn q) := by
  have hq : renPair an rn q = (renNode an rn q.1, renNode an rn q.2) := rfl
  rw [hq]
  by_cases he : renNode an rn q.1 = renNode an rn q.2
  · exact Or.inl he
  · right
    rcases h with h | ⟨s, hs, hse, hsn⟩
    · exact absurd (by rw [h]) he
    · refine ⟨s.mapNodes (renNode an rn), (mem_contractStep bs an rn _).mpr ⟨s, hs, rfl, ?_⟩, hse, ?_⟩
      · rcases hsn with ⟨e1, e2⟩ | ⟨e1, e2⟩ <;> rw [e1, e2]
        · exact he
        · exact fun e => he e.symm
      · rcases hsn with ⟨e1, e2⟩ | ⟨e1, e2⟩
        · left; exact ⟨by rw [mapNodes_n1, e1], by rw [mapNodes_n2, e2]⟩
        · right; exact ⟨by rw [mapNodes_n1, e1], by rw [mapNodes_n2, e2]⟩

theorem contractAll_ids (z : L) (ps : List (L × L)) (bs : List (Branch L K)) :
    ∀ b' ∈ contractAll z ps bs, ∃ b ∈ bs, b'.id = b.id := by
  intro b' hb'
  obtain ⟨b, hb, hid, _⟩ := contractAll_survivors ps bs z (Report.zeroRep (L := L) (K := K))
    (fun _ _ => rfl) b' hb'
  exact ⟨b, hb, hid⟩

theorem contractAll_converse_aux (z : L) : ∀ (n : Nat) (ps : List (L × L)) (bs : List (Branch L K)),
    ps.length = n → (bs.map (·.id)).Nodup → (∀ p ∈ ps, PairShort bs p) →
    (∀ b ∈ bs, sigmaAll z ps b.n1 = sigmaAll z ps b.n2 → b.e.ZeroVoltOK) →
    ∀ R' : Report L K, CircuitEqsAll (contractAll z ps bs) z R' →
    ∃ R : Report L K, CircuitEqsAll bs z R ∧ (∀ x, R.pot x = R'.pot (sigmaAll z ps x)) ∧
      ∀ b' ∈ contractAll z ps bs, R.v b'.id = R'.v b'.id ∧ R.i b'.id = R'.i b'.id := by
  intro n
  induction n with
  | zero =>
    intro ps bs hl _ _ _ R' h
    have : ps = [] := List.length_eq_zero_iff.mp hl
    subst this
    rw [contractAll_nil] at h
    exact ⟨R', h, fun x => by rw [sigmaAll_nil], fun _ _ => ⟨rfl, rfl⟩⟩
  | succ n ih =>
    intro ps bs hl hid hps hd R'' h
    cases ps with
    | nil => simp at hl
    | cons p ps =>
      rw [contractAll_cons] at h
      have hid1 := contractStep_ids_nodup bs (orient z p).1 (orient z p).2 hid
      have hps1 : ∀ q' ∈ ps.map (renPair (orient z p).1 (orient z p).2),
          PairShort (contractStep bs (orient z p).1 (orient z p).2) q' := by
        intro q' hq'
        obtain ⟨q, hq, rfl⟩ := List.mem_map.mp hq'
        exact pairShort_step bs _ _ q (hps q (List.mem_cons_of_mem _ hq))
      have hd1 : ∀ b1 ∈ contractStep bs (orient z p).1 (orient z p).2,
          sigmaAll z (ps.map (renPair (orient z p).1 (orient z p).2)) b1.n1 =
            sigmaAll z (ps.map (renPair (orient z p).1 (orient z p).2)) b1.n2 → b1.e.ZeroVoltOK := by
        intro b1 hb1 he
        obtain ⟨b, hb, rfl, _⟩ := (mem_contractStep bs _ _ b1).mp hb1
        rw [mapNodes_n1, mapNodes_n2, ← sigmaAll_cons, ← sigmaAll_cons] at he
        exact hd b hb he
      obtain ⟨R', hR', hpot', hsurv'⟩ := ih _ _ (by simpa using hl) hid1 hps1 hd1 R'' h
      -- the step
      have hs : (orient z p).1 = (orient z p).2 ∨ ∃ s ∈ bs, s.e = .norton 0 0 ∧
          ((s.n1 = (orient z p).1 ∧ s.n2 = (orient z p).2) ∨ (s.n1 = (orient z p).2 ∧ s.n2 = (orient z p).1)) := by
        rcases hps p (List.mem_cons_self ..) with h0 | ⟨s, hs, hse, hsn⟩
        · left; rcases orient_cases z p with ho | ho <;> rw [ho]
          · exact h0
          · exact h0.symm
        · right
          refine ⟨s, hs, hse, ?_⟩
          rcases orient_cases z p with ho | ho <;> rw [ho]
          · exact hsn
          · exact hsn.symm
      have hdS : ∀ b ∈ bs, renNode (orient z p).1 (orient z p).2 b.n1 = renNode (orient z p).1 (orient z p).2 b.n2 →
          b.e.ZeroVoltOK := by
        intro b hb he
        refine hd b hb ?_
        rw [sigmaAll_cons, sigmaAll_cons, he]
      obtain ⟨R, hR, hpot, hsurv⟩ := step_converse bs z _ _ R' hid (orient_absorbs_zero z p) hs hdS hR'
      refine ⟨R, hR, fun x => ?_, fun b' hb' => ?_⟩
      · rw [hpot, hpot', sigmaAll_cons]
      · rw [contractAll_cons] at hb'
        obtain ⟨b1, hb1, hide⟩ := contractAll_ids z _ _ b' hb'
        have := hsurv b1 hb1
        rw [← hide] at this
        exact ⟨this.1.trans (hsurv' b' hb').1, this.2.trans (hsurv' b' hb').2⟩

/-- **the contraction loop, converse.**  `bs` a branch list with distinct identifiers, `ps` a pair list in
which every pair is trivial or has a genuine short circuit (`V = 0`, `Z = 0`) of `bs` between its ends
(`PairShort`).  If — in case anything is contracted at all — every branch of `bs` whose renamed terminals
coincide (σ = `sigmaAll z ps`; these are exactly the branches the loop drops, `contractAll_eq`) is consistent
at zero voltage, then every solution `R'` of the circuit equations of `contractAll z ps bs` extends to a
solution `R` of the circuit equations of `bs` with `R.pot x = R'.pot (σ x)` for every label `x`, and with the
voltage and the current of every branch of the contracted list unchanged.  Proved by induction along the
contraction steps (`step_converse`). -/
theorem contractAll_converse (z : L) (ps : List (L × L)) (bs : List (Branch L K))
    (hid : (bs.map (·.id)).Nodup) (hps : ∀ p ∈ ps, PairShort bs p)
    (hd : ps ≠ [] → ∀ b ∈ bs, sigmaAll z ps b.n1 = sigmaAll z ps b.n2 → b.e.ZeroVoltOK)
    (R' : Report L K) (h : CircuitEqsAll (contractAll z ps bs) z R') :
    ∃ R : Report L K, CircuitEqsAll bs z R ∧ (∀ x, R.pot x = R'.pot (sigmaAll z ps x)) ∧
      ∀ b' ∈ contractAll z ps bs, R.v b'.id = R'.v b'.id ∧ R.i b'.id = R'.i b'.id := by
  by_cases he : ps = []
  · subst he
    rw [contractAll_nil] at h
    exact ⟨R', h, fun x => by rw [sigmaAll_nil], fun _ _ => ⟨rfl, rfl⟩⟩
  · exact contractAll_converse_aux z ps.length ps bs rfl hid hps (hd he) R' h

/-- in the extension every dropped branch has voltage 0 (forced by (E2)) -/
theorem converse_dropped_voltage (z : L) (ps : List (L × L)) (bs : List (Branch L K)) (R R' : Report L K)
    (hR : CircuitEqsAll bs z R) (hpot : ∀ x, R.pot x = R'.pot (sigmaAll z ps x))
    (b : Branch L K) (hb : b ∈ bs) (he : sigmaAll z ps b.n1 = sigmaAll z ps b.n2) : R.v b.id = 0 := by
  have := hR.volt b hb
  unfold voltResidual at this
  rw [hpot, hpot, he] at this
  linear_combination this

end CC
