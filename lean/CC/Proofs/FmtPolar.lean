/-
  CC.Proofs.FmtPolar — the fixed-notation text `f'{x:.nf}'` (`fixedFmt`) read back by `parseFixed`,
  the characters a `ScientificFloat` text can contain, and the composite reader `parsePolar` on a
  rendered polar text.  Helper lemmas for `CC.Properties.C18Polar` (round 5).
-/
import CC.Proofs.FmtArith
import CC.Proofs.FmtRender

namespace CC.Fmt
open CC.Gen.Fmt

/-! ### fixed notation -/

/-- the natural number whose digits `f'{x:.nf}'` prints (after the sign): `|x|·10^n` rounded half-even -/
def fixedK (x : ℚ) (n : ℕ) : ℕ := (rhe (qabs x * ((10 ^ n : ℕ) : ℚ))).toNat

theorem fixedFmt_eq (x : ℚ) (n : ℕ) :
    fixedFmt x n = (if decide (x < 0) then ['-'] else []) ++ natDigits (fixedK x n / 10 ^ n)
      ++ (if n = 0 then [] else '.' :: zeroPad n (fixedK x n % 10 ^ n)) := rfl

theorem fixedK_cast (x : ℚ) (n : ℕ) :
    ((fixedK x n : ℕ) : ℚ) = ((rhe (qabs x * ((10 ^ n : ℕ) : ℚ)) : ℤ) : ℚ) := by
  have h0 : 0 ≤ qabs x * ((10 ^ n : ℕ) : ℚ) := by
    rw [qabs_eq_abs]; exact mul_nonneg (abs_nonneg x) (by positivity)
  have h := rhe_nonneg h0
  unfold fixedK
  have : (((rhe (qabs x * ((10 ^ n : ℕ) : ℚ))).toNat : ℕ) : ℤ) = rhe (qabs x * ((10 ^ n : ℕ) : ℚ)) :=
    Int.toNat_of_nonneg h
  exact_mod_cast congrArg (fun z : ℤ => (z : ℚ)) this

/-- the number a fixed-notation text denotes -/
def fixedValue (x : ℚ) (n : ℕ) : ℚ := (if x < 0 then -1 else 1) * ((fixedK x n : ℚ) / ((10 ^ n : ℕ) : ℚ))

/-- the reader `parseFixed` on the text `f'{x:.nf}'` returns sign · K / 10^n, for every `x` and `n` -/
theorem parseFixed_fixedFmt (x : ℚ) (n : ℕ) : parseFixed (fixedFmt x n) = some (fixedValue x n) := by
  have hP : 0 < 10 ^ n := by positivity
  have hF : fixedK x n % 10 ^ n < 10 ^ n := Nat.mod_lt _ hP
  have h := parseMant_render (decide (x < 0)) (fixedK x n / 10 ^ n) (fixedK x n % 10 ^ n) n hF (rest := []) trivial
  rw [List.append_nil] at h
  rw [fixedFmt_eq]
  unfold parseFixed
  rw [h]
  simp only [decide_eq_true_eq]
  unfold fixedValue
  congr 2
  have hdm := Nat.div_add_mod (fixedK x n) (10 ^ n)
  have hPq : ((10 ^ n : ℕ) : ℚ) ≠ 0 := by positivity
  by_cases hn : n = 0
  · subst hn
    simp
  · simp only [hn, ↓reduceIte]
    rw [eq_div_iff hPq, add_mul, div_mul_cancel₀ _ hPq]
    have : ((10 ^ n * (fixedK x n / 10 ^ n) + fixedK x n % 10 ^ n : ℕ) : ℚ) = (fixedK x n : ℚ) := by
      exact_mod_cast congrArg (fun z : ℕ => (z : ℚ)) hdm
    rw [← this]; push_cast; ring

/-- the denoted number is within half a unit of the `n`-th decimal of `x` -/
theorem fixedValue_near (x : ℚ) (n : ℕ) : |fixedValue x n - x| ≤ 1 / (2 * ((10 ^ n : ℕ) : ℚ)) := by
  have hN : (0 : ℚ) < ((10 ^ n : ℕ) : ℚ) := by positivity
  have h := rhe_spec (qabs x * ((10 ^ n : ℕ) : ℚ))
  unfold fixedValue
  rw [fixedK_cast]
  set R : ℚ := ((rhe (qabs x * ((10 ^ n : ℕ) : ℚ)) : ℤ) : ℚ) with hR
  have key : |R / ((10 ^ n : ℕ) : ℚ) - qabs x| ≤ 1 / (2 * ((10 ^ n : ℕ) : ℚ)) := by
    have : R / ((10 ^ n : ℕ) : ℚ) - qabs x = (R - qabs x * ((10 ^ n : ℕ) : ℚ)) / ((10 ^ n : ℕ) : ℚ) := by
      field_simp
    rw [this, abs_div, abs_of_pos hN, div_le_iff₀ hN]
    calc _ ≤ 1 / 2 := h
      _ = 1 / (2 * ((10 ^ n : ℕ) : ℚ)) * ((10 ^ n : ℕ) : ℚ) := by field_simp
  rw [qabs_eq_abs] at key
  by_cases hx : x < 0
  · rw [if_pos hx]
    rw [abs_of_neg hx] at key
    have : -1 * (R / ((10 ^ n : ℕ) : ℚ)) - x = -(R / ((10 ^ n : ℕ) : ℚ) - -x) := by ring
    rw [this, abs_neg]; exact key
  · rw [if_neg hx]
    rw [abs_of_nonneg (not_lt.mp hx)] at key
    rw [one_mul]; exact key

/-- the sign of the denoted number is never opposite to the sign of `x` -/
theorem fixedValue_sign (x : ℚ) (n : ℕ) : (0 ≤ x → 0 ≤ fixedValue x n) ∧ (x < 0 → fixedValue x n ≤ 0) := by
  have hq : (0 : ℚ) ≤ (fixedK x n : ℚ) / ((10 ^ n : ℕ) : ℚ) := by positivity
  unfold fixedValue
  constructor
  · intro h; rw [if_neg (not_lt.mpr h), one_mul]; exact hq
  · intro h; rw [if_pos h]; linarith

/-! ### characters of the texts -/

/-- the characters of a mantissa / exponent: digits, `-`, `.` -/
def NumCh (c : Char) : Prop := isDigit c = true ∨ c = '-' ∨ c = '.'

theorem natDigits_numCh (n : ℕ) : ∀ c ∈ natDigits n, NumCh c :=
  fun c hc => Or.inl ((natDigits_spec n).1 c hc)

theorem zeroPad_numCh (w n : ℕ) : ∀ c ∈ zeroPad w n, NumCh c := by
  intro c hc
  unfold zeroPad at hc
  rw [List.mem_append] at hc
  rcases hc with h | h
  · rw [List.mem_replicate] at h; rw [h.2]; exact Or.inl (by decide)
  · exact natDigits_numCh n c h

theorem intStr_numCh (i : ℤ) : ∀ c ∈ intStr i, NumCh c := by
  intro c hc
  unfold intStr at hc
  split at hc
  · rcases List.mem_cons.mp hc with h | h
    · exact Or.inr (Or.inl h)
    · exact natDigits_numCh _ c h
  · exact natDigits_numCh _ c hc

theorem fracPart_numCh (post F : ℕ) : ∀ c ∈ (if post = 0 then [] else '.' :: zeroPad post F), NumCh c := by
  intro c h
  by_cases hp : post = 0
  · simp [hp] at h
  · rw [if_neg hp] at h
    rcases List.mem_cons.mp h with h | h
    · exact Or.inr (Or.inr h)
    · exact zeroPad_numCh _ _ c h

theorem fixedFmt_numCh (x : ℚ) (n : ℕ) : ∀ c ∈ fixedFmt x n, NumCh c := by
  intro c hc
  rw [fixedFmt_eq] at hc
  simp only [List.mem_append] at hc
  rcases hc with (h | h) | h
  · by_cases hx : x < 0
    · simp [hx] at h; exact Or.inr (Or.inl h)
    · simp [hx] at h
  · exact natDigits_numCh _ c h
  · exact fracPart_numCh _ _ c h

theorem mantissaText_numCh (m3 : ℚ) (p : ℕ) : ∀ c ∈ mantissaText m3 p, NumCh c := by
  intro c hc
  unfold mantissaText at hc
  simp only [List.mem_append] at hc
  rcases hc with h | h
  · exact intStr_numCh _ c h
  · exact fracPart_numCh _ _ c h

theorem Table.get_chars : ∀ (T : Table) (k : ℤ) (c : Char), c ∈ T.get k → ∃ p ∈ T, c ∈ p.2 := by
  intro T
  induction T with
  | nil => intro k c h; simp [Table.get, List.lookup] at h
  | cons a t ih =>
    intro k c h
    obtain ⟨k0, s0⟩ := a
    by_cases hk : k = k0
    · subst hk
      simp only [Table.get, List.lookup, beq_self_eq_true, Option.getD_some] at h
      exact ⟨(k, s0), by simp, h⟩
    · have hne : (k == k0) = false := by simpa using hk
      simp only [Table.get, List.lookup, hne] at h
      obtain ⟨p, hp, hc⟩ := ih k c h
      exact ⟨p, List.mem_cons_of_mem _ hp, hc⟩

/-- a character that occurs neither in the unit nor in a prefix of the table, and that is not
one of the characters of a number (`0-9 - . e ∞`) -/
def Foreign (ch : Char) (c : SFCfg) : Prop :=
  ¬ NumCh ch ∧ ch ≠ 'e' ∧ ch ≠ '∞' ∧ ch ∉ c.unit ∧ ∀ p ∈ c.table, ch ∉ p.2

/-- a `ScientificFloat` text contains no foreign character — for every value -/
theorem not_mem_str {ch : Char} {c : SFCfg} (h : Foreign ch c) (v : ℚ) : ch ∉ c.str v := by
  obtain ⟨hnum, he, hinf, hunit, htab⟩ := h
  have hminus : ch ≠ '-' := fun e => hnum (Or.inr (Or.inl e))
  intro hmem
  unfold SFCfg.str at hmem
  simp only at hmem
  split at hmem
  · split at hmem
    · simp [sf_str_inf_pos] at hmem; exact hinf hmem
    · simp [sf_str_inf_neg] at hmem
      rcases hmem with h | h
      · exact hminus h
      · exact hinf h
  · simp only [List.mem_append] at hmem
    rcases hmem with ((h | h) | h) | h
    · exact hnum (mantissaText_numCh _ _ ch h)
    · unfold sf_exp_extension at h
      split at h
      · simp at h
      · rcases List.mem_append.mp h with h | h
        · simp at h; exact he h
        · exact hnum (intStr_numCh _ ch h)
    · unfold sf_exp_prefix at h
      split at h
      · simp at h
      · split at h
        · obtain ⟨p, hp, hc⟩ := Table.get_chars _ _ _ h; exact htab p hp hc
        · split at h
          · obtain ⟨p, hp, hc⟩ := Table.get_chars _ _ _ h; exact htab p hp hc
          · split at h
            · obtain ⟨p, hp, hc⟩ := Table.get_chars _ _ _ h; exact htab p hp hc
            · simp at h
    · exact hunit h

/-! ### the reader of composite texts on a separator -/

theorem splitOn1_append (c : Char) : ∀ (l r : List Char), c ∉ l → splitOn1 c (l ++ c :: r) = some (l, r) := by
  intro l
  induction l with
  | nil => intro r _; simp [splitOn1]
  | cons d t ih =>
    intro r h
    have hd : d ≠ c := fun e => h (by simp [e])
    have ht : c ∉ t := fun e => h (by simp [e])
    simp only [List.cons_append, splitOn1, hd, ↓reduceIte, ih r ht, Option.map_some]

theorem splitOn1_none (c : Char) : ∀ (l : List Char), c ∉ l → splitOn1 c l = none := by
  intro l
  induction l with
  | nil => intro _; rfl
  | cons d t ih =>
    intro h
    have hd : d ≠ c := fun e => h (by simp [e])
    have ht : c ∉ t := fun e => h (by simp [e])
    simp only [splitOn1, hd, ↓reduceIte, ih ht, Option.map_none]

theorem numCh_ne_deg {c : Char} (h : NumCh c) : c ≠ '°' := by
  rcases h with h | h | h
  · intro e; subst e; revert h; decide
  · rw [h]; decide
  · rw [h]; decide

theorem numCh_ne_angle {c : Char} (h : NumCh c) : c ≠ '∠' := by
  rcases h with h | h | h
  · intro e; subst e; revert h; decide
  · rw [h]; decide
  · rw [h]; decide

/-- the polar reader on `magnitude ∠ angle` (radians: no degree sign) -/
theorem parsePolar_rad (unit l : List Char) (t : Text) (hl : '∠' ∉ l) (hp : parseBack unit l = some t)
    (x : ℚ) (n : ℕ) :
    parsePolar unit (l ++ ['∠'] ++ fixedFmt x n) = some (t, some (fixedValue x n), false) := by
  unfold parsePolar
  rw [List.append_assoc, List.singleton_append, splitOn1_append _ _ _ hl]
  simp only [hp]
  have hne : ∀ rr, (fixedFmt x n).reverse ≠ '°' :: rr := by
    intro rr e
    have : '°' ∈ (fixedFmt x n).reverse := by rw [e]; simp
    rw [List.mem_reverse] at this
    exact numCh_ne_deg (fixedFmt_numCh x n _ this) rfl
  split
  · rename_i rr heq; exact absurd heq (hne rr)
  · simp only [parseFixed_fixedFmt, Option.map_some]

/-- the polar reader on `magnitude ∠ angle °` (degrees) -/
theorem parsePolar_deg (unit l : List Char) (t : Text) (hl : '∠' ∉ l) (hp : parseBack unit l = some t)
    (x : ℚ) (n : ℕ) :
    parsePolar unit (l ++ ['∠'] ++ fixedFmt x n ++ ['°']) = some (t, some (fixedValue x n), true) := by
  unfold parsePolar
  rw [List.append_assoc, List.append_assoc, List.singleton_append, splitOn1_append _ _ _ hl]
  simp only [hp, List.reverse_append, List.reverse_cons, List.reverse_nil, List.nil_append, List.singleton_append,
    List.reverse_reverse, parseFixed_fixedFmt, Option.map_some]

/-- the polar reader on a bare magnitude (angle omitted) -/
theorem parsePolar_bare (unit l : List Char) (t : Text) (hl : '∠' ∉ l) (hp : parseBack unit l = some t) :
    parsePolar unit l = some (t, none, false) := by
  unfold parsePolar
  rw [splitOn1_none _ _ hl]
  simp only [hp, Option.map_some]

end CC.Fmt
