/-
  CC.Proofs.DrawClosure — the wire closure of the drawing parser
  (`_get_equal_electrical_potential_nodes`, model `CC.Draw.eqp`) computes exactly the class of
  a point under "joined by a chain of wires" (`CC.Draw.Joined`): termination within the
  fuel, soundness, completeness.  Core Lean only.
-/
import CC.Model.Draw
import CC.Spec.Draw
set_option linter.unusedSectionVars false
namespace CC.Draw
variable {P : Type} [DecidableEq P]

/-! ### `Joined` is an equivalence relation that only depends on the set of wires -/

theorem Joined.trans {ws : List (P × P)} {p q r : P} (h₁ : Joined ws p q) (h₂ : Joined ws q r) :
    Joined ws p r := by
  induction h₂ with
  | refl => exact h₁
  | wire _ hw ih => exact Joined.wire ih hw

theorem Joined.single {ws : List (P × P)} {a b : P} (h : (a, b) ∈ ws ∨ (b, a) ∈ ws) : Joined ws a b :=
  Joined.wire (Joined.refl a) h

theorem Joined.symm {ws : List (P × P)} {p q : P} (h : Joined ws p q) : Joined ws q p := by
  induction h with
  | refl => exact Joined.refl _
  | wire _ hw ih => exact Joined.trans (Joined.single hw.symm) ih

theorem Joined.mono {ws ws' : List (P × P)} (hsub : ∀ w, w ∈ ws → w ∈ ws') {p q : P}
    (h : Joined ws p q) : Joined ws' p q := by
  induction h with
  | refl => exact Joined.refl _
  | wire _ hw ih =>
    exact Joined.wire ih (hw.elim (fun h => Or.inl (hsub _ h)) (fun h => Or.inr (hsub _ h)))

/-! ### set operations -/

theorem mem_sadd {a x : P} {l : List P} : x ∈ sadd a l ↔ x = a ∨ x ∈ l := by
  unfold sadd
  split
  · constructor
    · exact Or.inr
    · rintro (rfl | h)
      · assumption
      · exact h
  · simp

theorem sadd_of_mem {a : P} {l : List P} (h : a ∈ l) : sadd a l = l := by
  simp [sadd, h]

theorem sadd_of_not_mem {a : P} {l : List P} (h : a ∉ l) : sadd a l = a :: l := by
  simp [sadd, h]

theorem length_sadd_ge (a : P) (l : List P) : l.length ≤ (sadd a l).length := by
  unfold sadd; split <;> simp

theorem nodup_sadd {a : P} {l : List P} (h : l.Nodup) : (sadd a l).Nodup := by
  unfold sadd
  split
  · exact h
  · exact List.nodup_cons.mpr ⟨by assumption, h⟩

/-! ### one step / one sweep of the loop -/

/-- the body of `for line in self.line_elements` -/
def stp (S : List P) (w : P × P) : List P :=
  if w.1 ∈ S then sadd w.2 S else if w.2 ∈ S then sadd w.1 S else S

theorem sweep_eq_foldl (ws : List (P × P)) (S : List P) : sweep ws S = ws.foldl stp S := rfl

theorem sweep_nil (S : List P) : sweep ([] : List (P × P)) S = S := rfl

theorem sweep_cons (w : P × P) (ws : List (P × P)) (S : List P) :
    sweep (w :: ws) S = sweep ws (stp S w) := rfl

theorem subset_stp {S : List P} {w : P × P} {x : P} (h : x ∈ S) : x ∈ stp S w := by
  unfold stp
  split
  · exact mem_sadd.mpr (Or.inr h)
  · split
    · exact mem_sadd.mpr (Or.inr h)
    · exact h

theorem length_stp_ge (S : List P) (w : P × P) : S.length ≤ (stp S w).length := by
  unfold stp
  split
  · exact length_sadd_ge _ _
  · split
    · exact length_sadd_ge _ _
    · exact Nat.le_refl _

theorem nodup_stp {S : List P} {w : P × P} (h : S.Nodup) : (stp S w).Nodup := by
  unfold stp
  split
  · exact nodup_sadd h
  · split
    · exact nodup_sadd h
    · exact h

/-- a step that does not grow the set leaves it unchanged and the wire does not leave it -/
theorem stp_fix {S : List P} {w : P × P} (h : (stp S w).length = S.length) :
    stp S w = S ∧ (w.1 ∈ S ↔ w.2 ∈ S) := by
  unfold stp at h ⊢
  by_cases h1 : w.1 ∈ S
  · simp only [h1, if_true] at h ⊢
    by_cases h2 : w.2 ∈ S
    · exact ⟨sadd_of_mem h2, by simp [h2]⟩
    · rw [sadd_of_not_mem h2] at h; simp at h
  · simp only [h1, if_false] at h ⊢
    by_cases h2 : w.2 ∈ S
    · simp only [h2, if_true] at h
      rw [sadd_of_not_mem h1] at h; simp at h
    · simp [h2]

theorem subset_sweep (ws : List (P × P)) {S : List P} {x : P} (h : x ∈ S) : x ∈ sweep ws S := by
  induction ws generalizing S with
  | nil => exact h
  | cons w ws ih => rw [sweep_cons]; exact ih (subset_stp h)

theorem length_sweep_ge (ws : List (P × P)) (S : List P) : S.length ≤ (sweep ws S).length := by
  induction ws generalizing S with
  | nil => exact Nat.le_refl _
  | cons w ws ih => rw [sweep_cons]; exact Nat.le_trans (length_stp_ge S w) (ih _)

theorem nodup_sweep (ws : List (P × P)) {S : List P} (h : S.Nodup) : (sweep ws S).Nodup := by
  induction ws generalizing S with
  | nil => exact h
  | cons w ws ih => rw [sweep_cons]; exact ih (nodup_stp h)

/-- the set is closed under the wires -/
def Closed (ws : List (P × P)) (S : List P) : Prop := ∀ w ∈ ws, (w.1 ∈ S ↔ w.2 ∈ S)

/-- a sweep that does not grow the set leaves it unchanged, and the set is closed -/
theorem sweep_fix (ws : List (P × P)) {S : List P} (h : (sweep ws S).length = S.length) :
    sweep ws S = S ∧ Closed ws S := by
  induction ws generalizing S with
  | nil => exact ⟨rfl, fun w hw => by cases hw⟩
  | cons w ws ih =>
    rw [sweep_cons] at h ⊢
    have h1 : (stp S w).length = S.length :=
      Nat.le_antisymm (h ▸ length_sweep_ge ws (stp S w)) (length_stp_ge S w)
    obtain ⟨hs, hw⟩ := stp_fix h1
    rw [hs] at h ⊢
    obtain ⟨hs', hc⟩ := ih h
    refine ⟨hs', ?_⟩
    intro w' hw'
    rcases List.mem_cons.mp hw' with rfl | hw'
    · exact hw
    · exact hc w' hw'

/-- everything a sweep adds is an end point of a wire -/
theorem sweep_subset_pts (ws : List (P × P)) {S : List P} {x : P} (h : x ∈ sweep ws S) :
    x ∈ S ∨ ∃ w ∈ ws, x = w.1 ∨ x = w.2 := by
  induction ws generalizing S with
  | nil => exact Or.inl h
  | cons w ws ih =>
    rw [sweep_cons] at h
    rcases ih h with h | ⟨w', hw', hx⟩
    · unfold stp at h
      split at h
      · rcases mem_sadd.mp h with rfl | h
        · exact Or.inr ⟨w, List.mem_cons_self, Or.inr rfl⟩
        · exact Or.inl h
      · split at h
        · rcases mem_sadd.mp h with rfl | h
          · exact Or.inr ⟨w, List.mem_cons_self, Or.inl rfl⟩
          · exact Or.inl h
        · exact Or.inl h
    · exact Or.inr ⟨w', List.mem_cons_of_mem _ hw', hx⟩

/-! ### soundness: everything in the closure is joined to the start -/

theorem stp_sound {ws : List (P × P)} {p : P} {S : List P} {w : P × P} (hw : w ∈ ws)
    (hS : ∀ x ∈ S, Joined ws p x) : ∀ x ∈ stp S w, Joined ws p x := by
  intro x hx
  unfold stp at hx
  split at hx
  · rename_i h1
    rcases mem_sadd.mp hx with rfl | hx
    · exact Joined.wire (hS _ h1) (Or.inl hw)
    · exact hS _ hx
  · split at hx
    · rename_i h2
      rcases mem_sadd.mp hx with rfl | hx
      · exact Joined.wire (hS _ h2) (Or.inr hw)
      · exact hS _ hx
    · exact hS _ hx

theorem sweep_sound_aux {ws : List (P × P)} {p : P} (l : List (P × P)) (hl : ∀ w ∈ l, w ∈ ws)
    {S : List P} (hS : ∀ x ∈ S, Joined ws p x) : ∀ x ∈ sweep l S, Joined ws p x := by
  induction l generalizing S with
  | nil => exact hS
  | cons w l ih =>
    rw [sweep_cons]
    exact ih (fun w' hw' => hl w' (List.mem_cons_of_mem _ hw'))
      (stp_sound (hl w List.mem_cons_self) hS)

theorem closureFuel_sound {ws : List (P × P)} {p : P} (n : Nat) {S : List P}
    (hS : ∀ x ∈ S, Joined ws p x) : ∀ x ∈ closureFuel n ws S, Joined ws p x := by
  induction n generalizing S with
  | zero => exact hS
  | succ n ih =>
    have h' := sweep_sound_aux (p := p) ws (fun _ h => h) hS
    unfold closureFuel
    simp only
    split
    · exact ih h'
    · exact h'

/-! ### termination within the fuel and completeness -/

/-- the end points of all wires -/
def wirePts (ws : List (P × P)) : List P := ws.flatMap fun w => [w.1, w.2]

theorem length_wirePts (ws : List (P × P)) : (wirePts ws).length = 2 * ws.length := by
  induction ws with
  | nil => rfl
  | cons w ws ih => simp [wirePts, List.flatMap_cons] at ih ⊢; omega

theorem mem_wirePts {ws : List (P × P)} {x : P} : x ∈ wirePts ws ↔ ∃ w ∈ ws, x = w.1 ∨ x = w.2 := by
  simp [wirePts, List.mem_flatMap]

/-- a duplicate-free set inside `{p} ∪ wire end points` has at most `2·|ws| + 1` elements -/
theorem length_le_bound {ws : List (P × P)} {p : P} {S : List P} (hn : S.Nodup)
    (hsub : ∀ x ∈ S, x = p ∨ x ∈ wirePts ws) : S.length ≤ closureBound ws := by
  have : S ⊆ p :: wirePts ws := by
    intro x hx
    rcases hsub x hx with rfl | h
    · exact List.mem_cons_self
    · exact List.mem_cons_of_mem _ h
  have h := List.Nodup.length_le_of_subset hn this
  simp [length_wirePts] at h
  unfold closureBound; omega

/-- with enough fuel the loop stops because a sweep found nothing new: the result is closed -/
theorem closureFuel_closed {ws : List (P × P)} {p : P} (n : Nat) {S : List P} (hn : S.Nodup)
    (hsub : ∀ x ∈ S, x = p ∨ x ∈ wirePts ws) (hfuel : closureBound ws < S.length + n) :
    Closed ws (closureFuel n ws S) := by
  induction n generalizing S with
  | zero =>
    have := length_le_bound hn hsub
    omega
  | succ n ih =>
    have hn' := nodup_sweep ws hn
    have hsub' : ∀ x ∈ sweep ws S, x = p ∨ x ∈ wirePts ws := by
      intro x hx
      rcases sweep_subset_pts ws hx with h | h
      · exact hsub x h
      · exact Or.inr (mem_wirePts.mpr h)
    unfold closureFuel
    simp only
    split
    · rename_i hlt
      exact ih hn' hsub' (by omega)
    · rename_i hnlt
      have heq : (sweep ws S).length = S.length :=
        Nat.le_antisymm (Nat.not_lt.mp hnlt) (length_sweep_ge ws S)
      obtain ⟨hs, hc⟩ := sweep_fix ws heq
      rw [hs]; exact hc

theorem subset_closureFuel (n : Nat) (ws : List (P × P)) {S : List P} {x : P} (h : x ∈ S) :
    x ∈ closureFuel n ws S := by
  induction n generalizing S with
  | zero => exact h
  | succ n ih =>
    unfold closureFuel
    simp only
    split
    · exact ih (subset_sweep ws h)
    · exact subset_sweep ws h

theorem closed_complete {ws : List (P × P)} {S : List P} (hc : Closed ws S) {p q : P} (hp : p ∈ S)
    (h : Joined ws p q) : q ∈ S := by
  induction h with
  | refl => exact hp
  | wire _ hw ih =>
    rcases hw with hw | hw
    · exact (hc _ hw).mp ih
    · exact (hc _ hw).mpr ih

/-- the loop of `_get_equal_electrical_potential_nodes` ends because a sweep found nothing new
(never because the fuel ran out): the result is closed under the wires -/
theorem eqp_closed (ws : List (P × P)) (p : P) : Closed ws (eqp ws p) := by
  unfold eqp
  refine closureFuel_closed (p := p) _ (by simp) ?_ ?_
  · intro x hx; exact Or.inl (List.mem_singleton.mp hx)
  · simp [closureBound]

/-- **closure theorem**: `q ∈ _get_equal_electrical_potential_nodes(p)` iff `q` coincides with
`p` or is joined to it by a chain of wires -/
theorem mem_eqp_iff (ws : List (P × P)) (p q : P) : q ∈ eqp ws p ↔ Joined ws p q := by
  constructor
  · intro h
    exact closureFuel_sound (p := p) _ (fun x hx => by
      rw [List.mem_singleton.mp hx]; exact Joined.refl p) q h
  · intro h
    exact closed_complete (eqp_closed ws p) (subset_closureFuel _ _ (List.mem_singleton_self p)) h

/-- more fuel changes nothing: the loop has already stopped -/
theorem closureFuel_stable {ws : List (P × P)} (n : Nat) {S : List P}
    (h : (sweep ws S).length = S.length) : closureFuel (n + 1) ws S = S := by
  unfold closureFuel
  simp only
  have := (sweep_fix ws h).1
  rw [this]; simp

theorem nodup_closureFuel (n : Nat) (ws : List (P × P)) {S : List P} (h : S.Nodup) :
    (closureFuel n ws S).Nodup := by
  induction n generalizing S with
  | zero => exact h
  | succ n ih =>
    unfold closureFuel
    simp only
    split
    · exact ih (nodup_sweep ws h)
    · exact nodup_sweep ws h

theorem nodup_eqp (ws : List (P × P)) (p : P) : (eqp ws p).Nodup :=
  nodup_closureFuel _ _ (by simp)

end CC.Draw
