/-
  CC.Proofs.FmtRender — the reader `parseBack` applied to the text assembled by
  `ScientificFloat.__str__`: digit strings (`natDigits`, `zeroPad`), `takeNat`, `parseMant`,
  `parseExp`, `parseTail`.
-/
import Mathlib.Tactic.IntervalCases
import CC.Proofs.FmtDigits
import CC.Proofs.FmtTable
import CC.Model.Fmt
import CC.Spec.Fmt

namespace CC.Fmt

/-! ### digits of a natural number -/

theorem natDigitsAux_eq : ∀ (n f : ℕ) (acc : List Char), n < f → natDigitsAux f n acc = natDigits n ++ acc := by
  intro n
  induction n using Nat.strong_induction_on with
  | _ n ih =>
    intro f acc hf
    obtain ⟨f', rfl⟩ : ∃ f', f = f' + 1 := ⟨f - 1, by omega⟩
    by_cases h10 : n < 10
    · have e1 : natDigitsAux (f' + 1) n acc = digitChar n :: acc := by simp [natDigitsAux, h10]
      have e2 : natDigits n = [digitChar n] := by simp [natDigits, natDigitsAux, h10]
      rw [e1, e2]; rfl
    · have hq : n / 10 < n := by omega
      have e1 : natDigitsAux (f' + 1) n acc = natDigitsAux f' (n / 10) (digitChar (n % 10) :: acc) := by
        simp [natDigitsAux, h10]
      have e2 : natDigits n = natDigitsAux n (n / 10) [digitChar (n % 10)] := by
        simp [natDigits, natDigitsAux, h10]
      rw [e1, e2, ih (n / 10) hq f' _ (by omega), ih (n / 10) hq n _ hq]
      simp

theorem natDigits_lt10 {n : ℕ} (h : n < 10) : natDigits n = [digitChar n] := by
  simp [natDigits, natDigitsAux, h]

theorem natDigits_ge10 {n : ℕ} (h : 10 ≤ n) : natDigits n = natDigits (n / 10) ++ [digitChar (n % 10)] := by
  have h10 : ¬ n < 10 := by omega
  have e2 : natDigits n = natDigitsAux n (n / 10) [digitChar (n % 10)] := by
    simp [natDigits, natDigitsAux, h10]
  rw [e2, natDigitsAux_eq (n / 10) n _ (by omega)]

theorem digitChar_spec {d : ℕ} (h : d < 10) : isDigit (digitChar d) = true ∧ digitVal (digitChar d) = d := by
  interval_cases d <;> decide

/-- value of a digit string read after `acc` -/
def digVal (ds : List Char) (acc : ℕ) : ℕ := ds.foldl (fun a c => a * 10 + digitVal c) acc

theorem digVal_append (a b : List Char) (acc : ℕ) : digVal (a ++ b) acc = digVal b (digVal a acc) := by
  simp [digVal, List.foldl_append]

theorem natDigits_spec (n : ℕ) :
    (∀ c ∈ natDigits n, isDigit c = true) ∧ (∀ acc, digVal (natDigits n) acc = acc * 10 ^ (natDigits n).length + n)
    ∧ 1 ≤ (natDigits n).length := by
  induction n using Nat.strong_induction_on with
  | _ n ih =>
    by_cases h10 : n < 10
    · rw [natDigits_lt10 h10]
      obtain ⟨a, b⟩ := digitChar_spec h10
      refine ⟨by simpa using a, ?_, by simp⟩
      intro acc; simp [digVal, b]
    · have hge : 10 ≤ n := by omega
      obtain ⟨a, b, c⟩ := ih (n / 10) (by omega)
      obtain ⟨a', b'⟩ := digitChar_spec (Nat.mod_lt n (by norm_num : 0 < 10))
      rw [natDigits_ge10 hge]
      refine ⟨?_, ?_, by simp⟩
      · intro ch hch
        rw [List.mem_append] at hch
        rcases hch with h | h
        · exact a ch h
        · simp at h; rw [h]; exact a'
      · intro acc
        rw [digVal_append, b acc]
        simp only [digVal, List.foldl_cons, List.foldl_nil, b', List.length_append, List.length_cons,
          List.length_nil, zero_add, pow_succ]
        have := Nat.div_add_mod n 10
        nlinarith [this]

theorem natDigits_length_le : ∀ (k n : ℕ), 1 ≤ k → n < 10 ^ k → (natDigits n).length ≤ k := by
  intro k
  induction k with
  | zero => intro n h; omega
  | succ k ih =>
    intro n _ hn
    by_cases h10 : n < 10
    · rw [natDigits_lt10 h10]; simp
    · have hge : 10 ≤ n := by omega
      rw [natDigits_ge10 hge]
      simp only [List.length_append, List.length_cons, List.length_nil, zero_add]
      have hk : 1 ≤ k := by
        by_contra h0
        have : k = 0 := by omega
        subst this; simp at hn; omega
      have : n / 10 < 10 ^ k := by rw [pow_succ] at hn; omega
      have := ih (n / 10) hk this
      omega

/-- a text that does not continue a number: empty, or its first character is neither a digit,
nor a decimal point, nor the exponent letter -/
def NoNum (s : List Char) : Prop :=
  match s with
  | [] => True
  | c :: _ => isDigit c = false ∧ c ≠ '.' ∧ c ≠ 'e'

theorem takeNat_digits : ∀ (ds : List Char), (∀ c ∈ ds, isDigit c = true) → ∀ (rest : List Char) (acc k : ℕ),
    takeNat (ds ++ rest) acc k = takeNat rest (digVal ds acc) (k + ds.length) := by
  intro ds
  induction ds with
  | nil => intro _ rest acc k; simp [digVal]
  | cons d t ih =>
    intro h rest acc k
    have hd : isDigit d = true := h d (by simp)
    have ht : ∀ c ∈ t, isDigit c = true := fun c hc => h c (by simp [hc])
    simp only [List.cons_append, takeNat, hd, ↓reduceIte]
    rw [ih ht]
    simp only [digVal, List.foldl_cons, List.length_cons]
    congr 1; omega

theorem takeNat_stop {rest : List Char} (h : ∀ c t, rest = c :: t → isDigit c = false) (acc k : ℕ) :
    takeNat rest acc k = (acc, k, rest) := by
  cases rest with
  | nil => rfl
  | cons c t => simp [takeNat, h c t rfl]

theorem takeNat_natDigits (n : ℕ) {rest : List Char} (h : ∀ c t, rest = c :: t → isDigit c = false) (acc k : ℕ) :
    takeNat (natDigits n ++ rest) acc k = (acc * 10 ^ (natDigits n).length + n, k + (natDigits n).length, rest) := by
  obtain ⟨a, b, _⟩ := natDigits_spec n
  rw [takeNat_digits _ a, takeNat_stop h, b]

theorem digVal_zeros (z acc : ℕ) : digVal (List.replicate z '0') acc = acc * 10 ^ z := by
  induction z generalizing acc with
  | zero => simp [digVal]
  | succ z ih =>
    rw [List.replicate_succ]
    simp only [digVal, List.foldl_cons] at ih ⊢
    rw [ih]
    have : digitVal '0' = 0 := by decide
    rw [this, pow_succ]; ring

/-- `f'{n:0{w}d}'` read back: `w` digits with value `n` -/
theorem takeNat_zeroPad {w n : ℕ} (hw : 1 ≤ w) (hn : n < 10 ^ w) {rest : List Char}
    (h : ∀ c t, rest = c :: t → isDigit c = false) :
    takeNat (zeroPad w n ++ rest) 0 0 = (n, w, rest) := by
  obtain ⟨a, b, c⟩ := natDigits_spec n
  have hlen := natDigits_length_le w n hw hn
  unfold zeroPad
  simp only [List.append_assoc]
  have hz : ∀ ch ∈ List.replicate (w - (natDigits n).length) '0', isDigit ch = true := by
    intro ch hch; rw [List.mem_replicate] at hch; rw [hch.2]; decide
  rw [takeNat_digits _ hz, takeNat_digits _ a, takeNat_stop h, digVal_zeros, b]
  simp only [zero_mul, zero_add, List.length_replicate]
  congr 2; omega

end CC.Fmt

namespace CC.Fmt

/-- a text that does not continue a mantissa: empty, or its first character is neither a digit
nor a decimal point -/
def NoDigDot (s : List Char) : Prop :=
  match s with
  | [] => True
  | c :: _ => isDigit c = false ∧ c ≠ '.'

theorem NoNum.noDigDot {s : List Char} (h : NoNum s) : NoDigDot s := by
  cases s with
  | nil => trivial
  | cons c t => exact ⟨h.1, h.2.1⟩

theorem NoNum.not_digit {rest : List Char} (h : NoNum rest) : ∀ c t, rest = c :: t → isDigit c = false := by
  intro c t e; subst e; exact h.1

theorem NoDigDot.not_digit {rest : List Char} (h : NoDigDot rest) : ∀ c t, rest = c :: t → isDigit c = false := by
  intro c t e; subst e; exact h.1

theorem natDigits_cons (n : ℕ) : ∃ c cs, natDigits n = c :: cs ∧ isDigit c = true := by
  obtain ⟨a, _, l⟩ := natDigits_spec n
  cases hd : natDigits n with
  | nil => rw [hd] at l; simp at l
  | cons c cs => exact ⟨c, cs, rfl, a c (by rw [hd]; simp)⟩

theorem isDigit_ne {c : Char} (h : isDigit c = true) : c ≠ '-' ∧ c ≠ '.' ∧ c ≠ 'e' ∧ c ≠ '∞' := by
  refine ⟨?_, ?_, ?_, ?_⟩ <;> (intro e; subst e; revert h; decide)

/-- the reader on a rendered unsigned mantissa -/
theorem parseUnsigned_render (ip F post : ℕ) (hF : F < 10 ^ post) {rest : List Char} (hrest : NoDigDot rest) :
    parseUnsigned (natDigits ip ++ ((if post = 0 then [] else '.' :: zeroPad post F) ++ rest))
      = some (ip, if post = 0 then 0 else F, post, rest) := by
  obtain ⟨_, _, hlen⟩ := natDigits_spec ip
  have hl : (natDigits ip).length ≠ 0 := by omega
  by_cases hp : post = 0
  · subst hp
    simp only [↓reduceIte, List.nil_append]
    unfold parseUnsigned
    rw [takeNat_natDigits ip hrest.not_digit 0 0]
    simp only [zero_mul, zero_add, hl, ↓reduceIte]
    cases rest with
    | nil => rfl
    | cons r rs =>
      have hr : r ≠ '.' := hrest.2
      split
      · rename_i t heq; simp at heq; exact absurd heq.1 hr
      · rfl
  · simp only [hp, ↓reduceIte]
    have hdot : ∀ ch t, ('.' :: zeroPad post F ++ rest) = ch :: t → isDigit ch = false := by
      intro ch t e; simp at e; rw [← e.1]; decide
    unfold parseUnsigned
    rw [takeNat_natDigits ip hdot 0 0]
    simp only [zero_mul, zero_add, hl, ↓reduceIte, List.cons_append]
    rw [takeNat_zeroPad (by omega) hF hrest.not_digit]
    simp [hp]

/-- the reader on a rendered signed mantissa -/
theorem parseMant_render (neg : Bool) (ip F post : ℕ) (hF : F < 10 ^ post) {rest : List Char} (hrest : NoDigDot rest) :
    parseMant ((if neg then ['-'] else []) ++ natDigits ip ++ (if post = 0 then [] else '.' :: zeroPad post F) ++ rest)
      = some (neg, ip, if post = 0 then 0 else F, post, rest) := by
  have hU := parseUnsigned_render ip F post hF hrest
  cases neg with
  | true =>
    simp only [↓reduceIte, List.cons_append, List.nil_append, List.append_assoc]
    unfold parseMant
    simp only [hU, Option.map_some]
  | false =>
    obtain ⟨c, cs, hc, hcd⟩ := natDigits_cons ip
    have hne := (isDigit_ne hcd).1
    simp only [Bool.false_eq_true, ↓reduceIte, List.nil_append, List.append_assoc]
    unfold parseMant
    split
    · rename_i t heq; rw [hc] at heq; simp at heq; exact absurd heq.1 hne
    · simp only [hU, Option.map_some]


/-! ### exponent, prefix, unit -/

theorem parseExp_none {tl : List Char} (h : NoNum tl) : parseExp tl = (0, tl) := by
  cases tl with
  | nil => rfl
  | cons c t =>
    have hc : c ≠ 'e' := h.2.2
    unfold parseExp
    split
    · rename_i heq; simp at heq; exact absurd heq.1 hc
    · rename_i heq; simp at heq; exact absurd heq.1 hc
    · rfl

theorem parseExp_render (r : ℤ) (hr : r ≠ 0) {tl : List Char} (h : NoNum tl) :
    parseExp ('e' :: intStr r ++ tl) = (r, tl) := by
  obtain ⟨_, _, hlen⟩ := natDigits_spec r.natAbs
  have hl : (natDigits r.natAbs).length ≠ 0 := by omega
  unfold intStr
  by_cases hneg : r < 0
  · simp only [hneg, ↓reduceIte, List.cons_append]
    unfold parseExp
    simp only [takeNat_natDigits r.natAbs h.not_digit 0 0, zero_mul, zero_add, hl, ↓reduceIte]
    congr 1; omega
  · simp only [hneg, ↓reduceIte]
    obtain ⟨c, cs, hc, hcd⟩ := natDigits_cons r.natAbs
    have hne := (isDigit_ne hcd).1
    have htake := takeNat_natDigits r.natAbs h.not_digit 0 0
    unfold parseExp
    split
    · rename_i t heq
      rw [hc] at heq; simp at heq; exact absurd heq.1 hne
    · rename_i t hnot heq
      have : t = natDigits r.natAbs ++ tl := by simp at heq; exact heq.symm
      subst this
      simp only [htake, zero_mul, zero_add, hl, ↓reduceIte]
      congr 1; omega
    · rename_i h1 h2; exact absurd rfl (h2 _)

theorem parseTail_unit (unit : List Char) : parseTail unit unit = some 0 := by simp [parseTail]

theorem parseTail_prefix (unit : List Char) (c : Char) : parseTail unit (c :: unit) = siExp c := by
  have : c :: unit ≠ unit := by
    intro h; have := congrArg List.length h; simp at this
  simp [parseTail, this]

theorem siExp_noNum {c : Char} {k : ℤ} (h : siExp c = some k) (unit : List Char) : NoNum (c :: unit) := by
  unfold siExp at h
  split_ifs at h with h1 h2 h3 h4 h5 h6 h7 h8 h9 <;> first | (subst_vars; exact ⟨by decide, by decide, by decide⟩) | exact absurd h (by simp)


/-- **the reader on a rendered number**: sign, integer digits, optional `.` and zero-padded
fraction digits, optional `e<int>`, optional SI prefix letter, unit -/
theorem parseBack_render (unit : List Char) (hunit : NoNum unit) (neg : Bool) (ip F post : ℕ) (hF : F < 10 ^ post)
    (r : ℤ) (pfx : List Char) (k : ℤ) (hpfx : (pfx = [] ∧ k = 0) ∨ ∃ c, pfx = [c] ∧ siExp c = some k) :
    parseBack unit ((if neg then ['-'] else []) ++ natDigits ip ++ (if post = 0 then [] else '.' :: zeroPad post F)
        ++ ((if r = 0 then [] else 'e' :: intStr r) ++ (pfx ++ unit)))
      = some (.num { neg := neg, intPart := ip, fracNum := if post = 0 then 0 else F, fracLen := post,
                     expE := r, pfxKey := k }) := by
  have htl : NoNum (pfx ++ unit) := by
    rcases hpfx with ⟨h, _⟩ | ⟨c, h, hc⟩
    · rw [h]; exact hunit
    · rw [h]; exact siExp_noNum hc unit
  have hrest : NoDigDot ((if r = 0 then [] else 'e' :: intStr r) ++ (pfx ++ unit)) := by
    by_cases hr : r = 0
    · simp only [hr, ↓reduceIte, List.nil_append]; exact htl.noDigDot
    · simp only [hr, ↓reduceIte, List.cons_append]; exact ⟨by decide, by decide⟩
  have hM := parseMant_render neg ip F post hF hrest
  obtain ⟨c, cs, hc, hcd⟩ := natDigits_cons ip
  obtain ⟨n1, n2, n3, n4⟩ := isDigit_ne hcd
  have hE : parseExp ((if r = 0 then [] else 'e' :: intStr r) ++ (pfx ++ unit)) = (r, pfx ++ unit) := by
    by_cases hr : r = 0
    · simp only [hr, ↓reduceIte, List.nil_append]; exact parseExp_none htl
    · simp only [hr, ↓reduceIte]; exact parseExp_render r hr htl
  have hT : parseTail unit (pfx ++ unit) = some k := by
    rcases hpfx with ⟨h, hk⟩ | ⟨c, h, hc⟩
    · rw [h, hk]; exact parseTail_unit unit
    · rw [h]; simp only [List.cons_append, List.nil_append]; rw [parseTail_prefix, hc]
  unfold parseBack
  have hinf1 : ((if neg then ['-'] else []) ++ natDigits ip ++ (if post = 0 then [] else '.' :: zeroPad post F)
        ++ ((if r = 0 then [] else 'e' :: intStr r) ++ (pfx ++ unit))) ≠ ['∞'] := by
    rw [hc]; cases neg <;> simp <;> intro h <;> simp_all
  have hinf2 : ((if neg then ['-'] else []) ++ natDigits ip ++ (if post = 0 then [] else '.' :: zeroPad post F)
        ++ ((if r = 0 then [] else 'e' :: intStr r) ++ (pfx ++ unit))) ≠ ['-', '∞'] := by
    rw [hc]; cases neg <;> simp <;> intro h <;> simp_all
  rw [if_neg hinf1, if_neg hinf2, hM]
  simp only [hE, hT]


/-! ### the mantissa text of `ScientificFloat.__str__` -/

/-- for a scaled mantissa `m3` with `|m3| ≥ 1` whose `post` decimals are exact (`|m3|·10^post`
is a natural number, `post = p - #digits ⌊|m3|⌋`), the mantissa text is: sign, the digits of
`⌊|m3|⌋`, and (if `post > 0`) a point and the zero-padded `post` fraction digits -/
theorem mantissaText_render (m3 : ℚ) (p : ℕ) (h1 : 1 ≤ |m3|)
    (hN : ∃ N : ℕ, |m3| * ((10 ^ (p - numDigits ⌊|m3|⌋.toNat) : ℕ) : ℚ) = (N : ℚ)) :
    ∃ F : ℕ, F < 10 ^ (p - numDigits ⌊|m3|⌋.toNat)
      ∧ mantissaText m3 p = (if decide (m3 < 0) then ['-'] else []) ++ natDigits ⌊|m3|⌋.toNat
          ++ (if p - numDigits ⌊|m3|⌋.toNat = 0 then [] else '.' :: zeroPad (p - numDigits ⌊|m3|⌋.toNat) F)
      ∧ ((⌊|m3|⌋.toNat : ℕ) : ℚ)
          + (((if p - numDigits ⌊|m3|⌋.toNat = 0 then 0 else F : ℕ)) : ℚ) / ((10 ^ (p - numDigits ⌊|m3|⌋.toNat) : ℕ) : ℚ)
          = |m3| := by
  obtain ⟨N, hN⟩ := hN
  set am := |m3| with ham
  set ip := ⌊am⌋.toNat with hip
  set post := p - numDigits ip with hpost
  have hfl1 : (1 : ℤ) ≤ ⌊am⌋ := Int.le_floor.mpr (by simpa using h1)
  have hipz : ((ip : ℕ) : ℤ) = ⌊am⌋ := Int.toNat_of_nonneg (by omega)
  have hipq : ((ip : ℕ) : ℚ) = ((⌊am⌋ : ℤ) : ℚ) := by exact_mod_cast congrArg (fun z : ℤ => (z : ℚ)) hipz
  have hP : (0 : ℚ) < ((10 ^ post : ℕ) : ℚ) := by positivity
  have hfl_le : ((⌊am⌋ : ℤ) : ℚ) ≤ am := Int.floor_le am
  have hfl_lt : am < ((⌊am⌋ : ℤ) : ℚ) + 1 := Int.lt_floor_add_one am
  -- the fraction digits
  have hge : ip * 10 ^ post ≤ N := by
    have : ((ip * 10 ^ post : ℕ) : ℚ) ≤ (N : ℚ) := by
      rw [← hN]; push_cast; rw [hipq]
      have := mul_le_mul_of_nonneg_right hfl_le (le_of_lt hP)
      push_cast at this; exact this
    exact_mod_cast this
  refine ⟨N - ip * 10 ^ post, ?_, ?_, ?_⟩
  · have : ((N : ℕ) : ℚ) < ((ip * 10 ^ post + 10 ^ post : ℕ) : ℚ) := by
      rw [← hN]; push_cast; rw [hipq]
      have := mul_lt_mul_of_pos_right hfl_lt hP
      push_cast at this; linarith
    have : N < ip * 10 ^ post + 10 ^ post := by exact_mod_cast this
    omega
  · -- the text
    have hq : qabs m3 = am := qabs_eq_abs m3
    have hnot : ¬ (am < 1) := not_lt.mpr h1
    have hfrac : frac am * pow10 (post : ℤ) = (((N - ip * 10 ^ post : ℕ) : ℤ) : ℚ) := by
      unfold frac
      rw [floor_eq, pow10_natCast', sub_mul, hN, ← hipq]
      push_cast [Nat.cast_sub hge]
      ring
    have htr : trunc m3 = if m3 < 0 then -(ip : ℤ) else (ip : ℤ) := by
      unfold trunc
      by_cases hneg : m3 < 0
      · simp only [hneg, ↓reduceIte, floor_eq]
        rw [hipz, ham, abs_of_neg hneg]
      · simp only [hneg, ↓reduceIte, floor_eq]
        rw [hipz, ham, abs_of_nonneg (not_lt.mp hneg)]
    have hipos : 0 < ip := by omega
    -- the printed decimals are exact, so rounding to them changes nothing
    have hr : roundTo m3 post = m3 := by
      unfold roundTo
      have hp10 : pow10 (post : ℤ) = ((10 ^ post : ℕ) : ℚ) := pow10_natCast' post
      have hP' : pow10 (post : ℤ) ≠ 0 := ne_of_gt (pow10_pos _)
      by_cases hneg : m3 < 0
      · have habs : am = -m3 := by rw [ham]; exact abs_of_neg hneg
        have e : m3 * pow10 (post : ℤ) = (((-(N : ℤ)) : ℤ) : ℚ) := by
          rw [hp10]; rw [habs] at hN; push_cast at hN ⊢; linarith
        rw [e, rhe_intCast, ← e]; field_simp
      · have habs : am = m3 := by rw [ham]; exact abs_of_nonneg (not_lt.mp hneg)
        have e : m3 * pow10 (post : ℤ) = (((N : ℤ)) : ℚ) := by
          rw [hp10]; rw [habs] at hN; push_cast at hN ⊢; linarith
        rw [e, rhe_intCast, ← e]; field_simp
    unfold mantissaText
    simp only [hq, hnot, ↓reduceIte, floor_eq, ← hip, ← hpost, hr, hfrac, rhe_intCast, Int.toNat_natCast, htr]
    congr 1
    unfold intStr
    by_cases hneg : m3 < 0
    · have : (-(ip : ℤ)) < 0 := by omega
      have hne : ip ≠ 0 := by omega
      simp [hneg, hne]
    · have : ¬ ((ip : ℤ) < 0) := by omega
      simp [hneg, this]
  · by_cases hp0 : post = 0
    · have hF0 : N - ip * 10 ^ post = 0 := by
        have : ((N : ℕ) : ℚ) < ((ip * 10 ^ post + 10 ^ post : ℕ) : ℚ) := by
          rw [← hN]; push_cast; rw [hipq]
          have := mul_lt_mul_of_pos_right hfl_lt hP
          push_cast at this; linarith
        have : N < ip * 10 ^ post + 10 ^ post := by exact_mod_cast this
        rw [hp0] at this ⊢; simp at this ⊢; omega
      have hNeq : N = ip * 10 ^ post := by omega
      simp only [hp0, ↓reduceIte, Nat.cast_zero, zero_div, add_zero]
      rw [hp0] at hN hNeq
      simp at hN hNeq
      rw [hN, hNeq]
    · simp only [hp0, ↓reduceIte]
      rw [Nat.cast_sub hge, sub_div, ← hN]
      push_cast
      field_simp
      ring

end CC.Fmt
