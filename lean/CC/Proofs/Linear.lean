/-
  CC.Proofs.Linear — the circuit equations are linear in the independent sources.
  Stated over a fixed *skeleton* (topology, identifiers, immittances) with the source value
  of every branch given by a function of its identifier; in physical-current form the
  element laws are affine, uniformly for passive elements and linear sources.
-/
import CC.Proofs.SpecLemmas
set_option linter.unusedSectionVars false

namespace CC
variable {L K : Type} [DecidableEq L] [Field K] [DecidableEq K]

/-- potentials, voltages and *physical* first→second currents -/
structure PhysReport (L K : Type) where
  pot : L → K
  v : String → K
  J : String → K

/-- element law in terms of the physical current: affine, the same formula whether or not
the source value vanishes -/
def Elem.physLaw (e : Elem K) (v J : K) : K :=
  match e with
  | .norton Z V => if Z = 0 then v - V else v + V - Z * J
  | .thevenin Y I => if Y = 0 then J - I else J - Y * v - I

structure PhysEqs (bs : List (Branch L K)) (zero : L) (P : PhysReport L K) : Prop where
  ref_zero : P.pot zero = 0
  volt : ∀ b ∈ bs, P.v b.id = P.pot b.n1 - P.pot b.n2
  law : ∀ b ∈ bs, b.e.physLaw (P.v b.id) (P.J b.id) = 0
  kcl : ∀ n, (bs.map fun b => incidence b n * P.J b.id).sum = 0

theorem physLaw_zero_iff (e : Elem K) (v i : K) :
    e.physLaw v (e.physCurrent i) = 0 ↔ e.lawResidual v i = 0 := by
  unfold Elem.physLaw Elem.lawResidual Elem.physCurrent Elem.isLossy Elem.kind
  cases e with
  | norton Z V =>
    by_cases hZ : Z = 0
    · simp [hZ]
    · by_cases hV : V = 0
      · simp [hZ, hV]
      · simp only [hZ, hV, if_false, if_true]
        constructor <;> intro h <;> linear_combination h
  | thevenin Y I =>
    by_cases hY : Y = 0
    · simp [hY]
    · by_cases hI : I = 0
      · simp only [hY, hI, if_false, if_true, sub_zero, Bool.false_eq_true]
      · simp only [hY, hI, if_false, if_true]
        constructor <;> intro h <;> linear_combination -h

theorem physCurrent_invol (e : Elem K) (i : K) : e.physCurrent (e.physCurrent i) = i := by
  unfold Elem.physCurrent; by_cases h : e.isLossy = true <;> simp [h]

/-- branch lookup by identifier in a plain list (last one wins, as `network[id]`) -/
def findId (bs : List (Branch L K)) (id : String) : Option (Branch L K) :=
  bs.reverse.find? (·.id = id)

theorem findId_of_mem {bs : List (Branch L K)} (h : (bs.map (·.id)).Nodup) {b : Branch L K}
    (hb : b ∈ bs) : findId bs b.id = some b := by
  unfold findId
  induction bs with
  | nil => simp at hb
  | cons c l ih =>
    simp only [List.map_cons, List.nodup_cons, List.mem_map, not_exists, not_and] at h
    rw [List.reverse_cons, List.find?_append]
    rcases List.mem_cons.mp hb with rfl | hb'
    · have : l.reverse.find? (fun x => decide (x.id = b.id)) = none := by
        rw [List.find?_eq_none]
        intro x hx; simp only [decide_eq_true_eq]
        intro hxe; exact h.1 x (List.mem_reverse.mp hx) hxe
      simp [this]
    · rw [ih h.2 hb']; simp

/-- reported currents ↦ physical currents -/
def Report.toPhys (bs : List (Branch L K)) (R : Report L K) : PhysReport L K where
  pot := R.pot
  v := R.v
  J := fun id => match findId bs id with
    | some b => b.e.physCurrent (R.i id)
    | none => 0

/-- physical currents ↦ reported currents (generator direction for linear sources) -/
def PhysReport.toReport (bs : List (Branch L K)) (P : PhysReport L K) : Report L K where
  pot := P.pot
  v := P.v
  i := fun id => match findId bs id with
    | some b => b.e.physCurrent (P.J id)
    | none => 0

theorem physEqs_of_circuitEqs (bs : List (Branch L K)) (z : L) (hids : (bs.map (·.id)).Nodup)
    (R : Report L K) (h : CircuitEqsAll bs z R) : PhysEqs bs z (R.toPhys bs) := by
  refine ⟨h.ref_zero, ?_, ?_, ?_⟩
  · intro b hb
    have := h.volt b hb
    unfold voltResidual at this
    simp only [Report.toPhys]; linear_combination this
  · intro b hb
    simp only [Report.toPhys, findId_of_mem hids hb]
    exact (physLaw_zero_iff _ _ _).mpr (h.law b hb)
  · intro n
    have := h.kcl n
    unfold kclResidual at this
    simp only at this
    rw [← this]
    apply congrArg; apply List.map_congr_left
    intro b hb
    simp only [Report.toPhys, findId_of_mem hids hb]

theorem circuitEqs_of_physEqs (bs : List (Branch L K)) (z : L) (hids : (bs.map (·.id)).Nodup)
    (P : PhysReport L K) (h : PhysEqs bs z P) : CircuitEqsAll bs z (P.toReport bs) := by
  refine ⟨h.ref_zero, ?_, ?_, ?_⟩
  · intro b hb
    unfold voltResidual
    simp only [PhysReport.toReport]
    rw [h.volt b hb]; ring
  · intro b hb
    simp only [PhysReport.toReport, findId_of_mem hids hb]
    rw [← physLaw_zero_iff, physCurrent_invol]; exact h.law b hb
  · intro n
    unfold kclResidual
    simp only
    rw [← h.kcl n]
    apply congrArg; apply List.map_congr_left
    intro b hb
    simp only [PhysReport.toReport, findId_of_mem hids hb, physCurrent_invol]

/-! ### source assignment over a fixed skeleton -/

/-- replace the source value of a record, keeping its immittance -/
def Elem.setSrc : Elem K → K → Elem K
  | .norton Z _, s => .norton Z s
  | .thevenin Y _, s => .thevenin Y s

/-- the skeleton `bs` with the source value of each branch given by `src` of its identifier -/
def withSrc (bs : List (Branch L K)) (src : String → K) : List (Branch L K) :=
  bs.map fun b => { b with e := b.e.setSrc (src b.id) }

theorem physLaw_setSrc_lin (e : Elem K) (a c s1 s2 v1 v2 J1 J2 : K) :
    (e.setSrc (a * s1 + c * s2)).physLaw (a * v1 + c * v2) (a * J1 + c * J2)
      = a * (e.setSrc s1).physLaw v1 J1 + c * (e.setSrc s2).physLaw v2 J2 := by
  cases e with
  | norton Z V => by_cases hZ : Z = 0 <;> simp [Elem.setSrc, Elem.physLaw, hZ] <;> ring
  | thevenin Y I => by_cases hY : Y = 0 <;> simp [Elem.setSrc, Elem.physLaw, hY] <;> ring

def PhysReport.lin (a c : K) (P1 P2 : PhysReport L K) : PhysReport L K where
  pot := fun n => a * P1.pot n + c * P2.pot n
  v := fun id => a * P1.v id + c * P2.v id
  J := fun id => a * P1.J id + c * P2.J id

/-- **Linearity.**  Solutions combine linearly with the sources. -/
theorem physEqs_lin (bs : List (Branch L K)) (z : L) (a c : K) (s1 s2 : String → K)
    (P1 P2 : PhysReport L K) (h1 : PhysEqs (withSrc bs s1) z P1) (h2 : PhysEqs (withSrc bs s2) z P2) :
    PhysEqs (withSrc bs fun id => a * s1 id + c * s2 id) z (PhysReport.lin a c P1 P2) := by
  have m1 : ∀ b ∈ bs, ({ b with e := b.e.setSrc (s1 b.id) } : Branch L K) ∈ withSrc bs s1 :=
    fun b hb => List.mem_map.mpr ⟨b, hb, rfl⟩
  have m2 : ∀ b ∈ bs, ({ b with e := b.e.setSrc (s2 b.id) } : Branch L K) ∈ withSrc bs s2 :=
    fun b hb => List.mem_map.mpr ⟨b, hb, rfl⟩
  refine ⟨?_, ?_, ?_, ?_⟩
  · simp [PhysReport.lin, h1.ref_zero, h2.ref_zero]
  · intro b' hb'
    obtain ⟨b, hb, rfl⟩ := List.mem_map.mp hb'
    have e1 := h1.volt _ (m1 b hb); have e2 := h2.volt _ (m2 b hb)
    simp only at e1 e2
    simp only [PhysReport.lin]
    rw [e1, e2]; ring
  · intro b' hb'
    obtain ⟨b, hb, rfl⟩ := List.mem_map.mp hb'
    have e1 := h1.law _ (m1 b hb); have e2 := h2.law _ (m2 b hb)
    simp only at e1 e2
    simp only [PhysReport.lin]
    rw [physLaw_setSrc_lin, e1, e2]; ring
  · intro n
    have e1 := h1.kcl n; have e2 := h2.kcl n
    simp only [withSrc, List.map_map] at e1 e2 ⊢
    have : (bs.map ((fun b : Branch L K => incidence b n * (PhysReport.lin a c P1 P2).J b.id) ∘
          fun b => { b with e := b.e.setSrc (a * s1 b.id + c * s2 b.id) }))
        = bs.map fun b => a * (incidence b n * P1.J b.id) + c * (incidence b n * P2.J b.id) := by
      apply List.map_congr_left; intro b _
      simp only [Function.comp_apply, PhysReport.lin]
      have : incidence ({ b with e := b.e.setSrc (a * s1 b.id + c * s2 b.id) } : Branch L K) n = incidence b n := rfl
      rw [this]; ring
    rw [this, List.sum_map_add, List.sum_map_mul_left, List.sum_map_mul_left]
    have f1 : (bs.map fun b => incidence b n * P1.J b.id).sum = 0 := by
      rw [← e1]; apply congrArg; apply List.map_congr_left; intro b _; rfl
    have f2 : (bs.map fun b => incidence b n * P2.J b.id).sum = 0 := by
      rw [← e2]; apply congrArg; apply List.map_congr_left; intro b _; rfl
    rw [f1, f2]; ring

theorem withSrc_ids (bs : List (Branch L K)) (s : String → K) :
    (withSrc bs s).map (·.id) = bs.map (·.id) := by
  simp [withSrc, Function.comp_def]

end CC
