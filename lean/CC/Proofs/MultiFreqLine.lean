/-
  CC.Proofs.MultiFreqLine — helper lemmas for the round-5 theorems of property C09
  (CC/Properties/C09Line.lean):
    * indexing of `List.mapM` in `Except` (the per-frequency lists of solution.py);
    * the frequency list of a single periodic source: `harmonicList` is already sorted and separated,
      so `sortQ` and the merge loop leave it alone; the harmonic index the translator rounds at `k·w0`;
    * the trigonometric finite-sum identities over ℝ/ℂ behind "the time function of a periodic
      source's own voltage is the truncated Fourier series".
-/
import CC.Proofs.MultiFreqLemmas
import CC.Proofs.CircuitLemmas
import CC.Proofs.RoundLemmas
import CC.Proofs.FourierMeanSquare
import Mathlib.Data.List.Forall2
set_option linter.unusedSectionVars false
set_option linter.unusedVariables false

namespace CC

/-! ### `List.mapM` in `Except`, by position -/

theorem forall₂_index {α β : Type} {R : α → β → Prop} {l : List α} {bs : List β} (h : List.Forall₂ R l bs) :
    bs.length = l.length ∧ ∀ k (hk : k < l.length) (hk' : k < bs.length), R l[k] bs[k] := by
  induction h with
  | nil => exact ⟨rfl, fun k hk => absurd hk (by simp)⟩
  | cons hab _ ih =>
    refine ⟨by simp [ih.1], ?_⟩
    intro k hk hk'
    cases k with
    | zero => exact hab
    | succ k => exact ih.2 k (by simpa using hk) (by simpa using hk')

/-- a successful `[f(a) for a in l]`: as long as `l`, and entry `k` is `f(l[k])` -/
theorem mapM_ok_index {α β ε : Type} (f : α → Except ε β) {l : List α} {bs : List β} (h : l.mapM f = .ok bs) :
    bs.length = l.length ∧ ∀ k (hk : k < l.length) (hk' : k < bs.length), f l[k] = .ok bs[k] :=
  forall₂_index (mapM_ok_forall₂ f l bs h)

theorem mapM_congr_except {α β ε : Type} (f g : α → Except ε β) (l : List α) (h : ∀ a ∈ l, f a = g a) :
    l.mapM f = l.mapM g := by
  induction l with
  | nil => rfl
  | cons a l ih =>
    rw [List.mapM_cons, List.mapM_cons, h a (List.mem_cons_self ..), ih fun b hb => h b (List.mem_cons_of_mem _ hb)]

/-- `[g(y) for y in [f(a) for a in l]]` -/
theorem mapM_bind_map {α β γ ε : Type} (f : α → Except ε β) (g : β → γ) (l : List α) :
    (l.mapM f >>= fun ys => pure (ys.map g)) = l.mapM fun a => f a >>= fun y => pure (g y) := by
  induction l with
  | nil => rfl
  | cons a l ih =>
    rw [List.mapM_cons, List.mapM_cons, ← ih]
    cases f a <;> cases l.mapM f <;> simp [bind, Except.bind, pure, Except.pure]

/-! ### the frequency list of a single periodic source -/

theorem insertQ_of_le_all (a : ℚ) (l : List ℚ) (h : ∀ b ∈ l, a ≤ b) : insertQ a l = a :: l := by
  cases l with
  | nil => rfl
  | cons b l => simp [insertQ, h b (List.mem_cons_self ..)]

/-- `sorted` leaves a sorted list alone -/
theorem sortQ_of_sorted (l : List ℚ) (h : l.Pairwise (· ≤ ·)) : sortQ l = l := by
  induction l with
  | nil => rfl
  | cons a l ih =>
    obtain ⟨ha, hl⟩ := List.pairwise_cons.mp h
    show insertQ a (sortQ l) = a :: l
    rw [ih hl, insertQ_of_le_all a l ha]

theorem mergeFrom_of_separated (wres : ℚ) (l : List ℚ) (h : l.Pairwise (fun a b => wres < b - a)) :
    ∀ last, (∀ w ∈ l, wres < w - last) → mergeFrom wres last l = l := by
  induction l with
  | nil => intro _ _; rfl
  | cons a l ih =>
    intro last hlast
    obtain ⟨ha, hl⟩ := List.pairwise_cons.mp h
    have : a - last > wres := hlast a (List.mem_cons_self ..)
    simp only [mergeFrom, this, if_true]
    rw [ih hl a ha]

/-- the merge loop keeps every entry of a list whose entries are more than the resolution apart -/
theorem mergeRes_of_separated (wres : ℚ) (l : List ℚ) (h : l.Pairwise (fun a b => wres < b - a)) :
    mergeRes wres l = l := by
  cases l with
  | nil => rfl
  | cons a l =>
    obtain ⟨ha, hl⟩ := List.pairwise_cons.mp h
    show a :: mergeFrom wres a l = a :: l
    rw [mergeFrom_of_separated wres l hl a ha]

theorem harmonicList_pairwise (w0 wmax : ℚ) (R : ℚ → ℚ → Prop)
    (hR : ∀ i j : ℕ, i < j → R (w0 * (i : ℚ)) (w0 * (j : ℚ))) : (harmonicList w0 wmax).Pairwise R := by
  unfold harmonicList
  rw [List.pairwise_map]
  exact List.Pairwise.imp (fun {i j} hij => hR i j hij) List.pairwise_lt_range

/-- the harmonics `0, w0, 2·w0, …` of a positive fundamental are more than `w_res < w0` apart -/
theorem harmonicList_separated (w0 wmax wres : ℚ) (hres : wres < w0) (h0 : 0 < w0) :
    (harmonicList w0 wmax).Pairwise (fun a b => wres < b - a) := by
  apply harmonicList_pairwise
  intro i j hij
  have h1 : (i : ℚ) + 1 ≤ (j : ℚ) := by exact_mod_cast hij
  nlinarith

theorem harmonicList_sorted (w0 wmax : ℚ) (h0 : 0 < w0) : (harmonicList w0 wmax).Pairwise (· ≤ ·) := by
  apply harmonicList_pairwise
  intro i j hij
  have h1 : (i : ℚ) ≤ (j : ℚ) := by exact_mod_cast hij.le
  nlinarith

theorem harmonicList_length (w0 wmax : ℚ) : (harmonicList w0 wmax).length = ((wmax / w0).floor + 1).toNat := by
  simp [harmonicList]

theorem harmonicList_getElem (w0 wmax : ℚ) (k : ℕ) (hk : k < (harmonicList w0 wmax).length) :
    (harmonicList w0 wmax)[k] = w0 * (k : ℚ) := by
  simp [harmonicList]

theorem allFrequencies_none (wmax : ℚ) (cs : List FComp) (h : ∀ c ∈ cs, c.w = none) :
    allFrequencies wmax cs = .ok [] := by
  induction cs with
  | nil => rfl
  | cons c cs ih =>
    have hc : c.frequencies wmax = .ok [] := by simp [FComp.frequencies, h c (List.mem_cons_self ..)]
    simp [allFrequencies, hc, ih fun d hd => h d (List.mem_cons_of_mem _ hd)]

/-- **the frequency list of a circuit whose only component with a frequency is one periodic source**
with fundamental `w0 > 0`, for a resolution `w_res < w0`: `frequency_components` returns exactly the
harmonics `k·w0`, `k = 0 … ⌊w_max/w0⌋`, in this order — nothing merged, nothing dropped. -/
theorem frequencyComponents_single_periodic (pre post : List FComp) (src : FComp) (w0 wmax wres : ℚ)
    (hpre : ∀ c ∈ pre, c.w = none) (hpost : ∀ c ∈ post, c.w = none)
    (hp : src.isPeriodic = true) (hw : src.w = some w0) (h0 : 0 < w0) (hres : wres < w0) :
    frequencyComponents (pre ++ src :: post) wmax wres = .ok (harmonicList w0 wmax) := by
  have hsrc : src.frequencies wmax = .ok (harmonicList w0 wmax) := by
    simp [FComp.frequencies, hw, hp, h0.ne']
  have hall : allFrequencies wmax (pre ++ src :: post) = .ok (harmonicList w0 wmax) := by
    induction pre with
    | nil => simp [allFrequencies, hsrc, allFrequencies_none wmax post hpost]
    | cons c pre ih =>
      have hc : c.frequencies wmax = .ok [] := by simp [FComp.frequencies, hpre c (List.mem_cons_self ..)]
      simp [allFrequencies, hc, ih fun d hd => hpre d (List.mem_cons_of_mem _ hd)]
  unfold frequencyComponents
  rw [hall]
  simp only
  rw [sortQ_of_sorted _ (harmonicList_sorted w0 wmax h0),
    mergeRes_of_separated _ _ (harmonicList_separated w0 wmax wres hres h0)]

/-! ### the harmonic the translator selects at the listed frequency `k·w0` -/

theorem roundHalfEven_intCast (m : ℤ) : roundHalfEven (m : ℚ) = m := by
  have h := round_nearest (m : ℚ) m
  rw [sub_self, absQ_eq_abs, absQ_eq_abs, abs_zero] at h
  have h2 : ((m : ℚ) - (roundHalfEven (m : ℚ) : ℚ)) = 0 := abs_eq_zero.mp (le_antisymm h (abs_nonneg _))
  have h3 : (m : ℚ) = ((roundHalfEven (m : ℚ) : ℤ) : ℚ) := by linarith
  exact_mod_cast h3.symm

theorem harmonic_div (w0 : ℚ) (h0 : w0 ≠ 0) (k : ℕ) : w0 * (k : ℚ) / w0 = ((k : ℤ) : ℚ) := by
  push_cast; field_simp

/-- at the listed frequency `k·w0` the translator rounds to the harmonic `k` … -/
theorem roundHalfEven_harmonic (w0 : ℚ) (h0 : w0 ≠ 0) (k : ℕ) : roundHalfEven (w0 * (k : ℚ) / w0) = (k : ℤ) := by
  rw [harmonic_div w0 h0 k, roundHalfEven_intCast]

/-- … and its gate `|w/w0 − n| > w_res/w0` is off (the source is active) for every `w_res ≥ 0` -/
theorem gate_harmonic (w0 wres : ℚ) (h0 : 0 < w0) (hres : 0 ≤ wres) (k : ℕ) :
    ¬ wres / w0 < absQ (w0 * (k : ℚ) / w0 - (roundHalfEven (w0 * (k : ℚ) / w0) : ℚ)) := by
  rw [roundHalfEven_harmonic w0 h0.ne' k, harmonic_div w0 h0.ne' k, sub_self, absQ_eq_abs, abs_zero, not_lt]
  exact div_nonneg hres h0.le

/-! ### trigonometric finite sums over ℝ / ℂ -/

open Complex in
/-- one harmonic: `Re(A·e^{jφ}·e^{jθ}) = (A cos φ)·cos θ + (−A sin φ)·sin θ = A·cos(θ + φ)` -/
theorem re_harmonic_term (A φ θ : ℝ) :
    ((A : ℂ) * exp (φ * I) * exp (θ * I)).re = (A * Real.cos φ) * Real.cos θ + (-A * Real.sin φ) * Real.sin θ
    ∧ ((A : ℂ) * exp (φ * I) * exp (θ * I)).re = A * Real.cos (θ + φ) := by
  have h : ((A : ℂ) * exp (φ * I) * exp (θ * I)).re = A * Real.cos (θ + φ) := by
    rw [mul_assoc, ← Complex.exp_add, ← add_mul, ← ofReal_add, re_ofReal_mul, exp_ofReal_mul_I_re, add_comm]
  refine ⟨?_, h⟩
  rw [h, Real.cos_add]; ring

/-- `Σ_{k=0}^{N} f k = f 0 + Σ_{n=1}^{N} f n` -/
theorem sum_range_succ_eq_zero_add_Icc (f : ℕ → ℝ) (N : ℕ) :
    ∑ k ∈ Finset.range (N + 1), f k = f 0 + ∑ n ∈ Finset.Icc 1 N, f n := by
  rw [Finset.sum_range_succ', add_comm]
  congr 1
  rw [Finset.range_eq_Ico, Finset.sum_Ico_add' (fun n => f n) 0 N 1]
  rfl

end CC
