/-
  CC.Proofs.DrawInvariance — lifting of the `Joined` lemmas of CC/Proofs/DrawSpec.lean to the
  *translated circuit* of the drawing model (CC/Model/Draw.lean):

    a second drawing whose terminals correspond to those of the first one through a point map
    `g` that respects "is a parser node" and "joined by wires" is translated to the same
    components with node names changed by a renaming `ρ` that is injective on the names used
    (`labelOf_transport`, `translateSym_transport`, `mapM_transport`, `mkCircuit_rename`).

  Instances: an injective coordinate map (`circuitTranslator_moved`), a wire split through an
  unused point (`circuitTranslator_split`), a permutation of the symbol list
  (`circuitTranslator_perm`).  Both drawings may be read with *different* set iteration
  orders `ord`, `ord'` (the Python sets of the second drawing hash different floats).
-/
import CC.Proofs.DrawTables
import CC.Proofs.DrawSpec
import Mathlib.Data.List.Perm.Basic
import Mathlib.Data.List.Forall2
import Mathlib.Algebra.Field.Rat
set_option linter.unusedSectionVars false
set_option linter.unusedSimpArgs false
set_option linter.unusedVariables false
namespace CC.Draw

/-! ### renaming of node names in components and circuits -/

def renameComp (ρ : String → String) (c : Component) : Component := { c with nodes := c.nodes.map ρ }

/-- the circuit with every node name sent through `ρ`: components in the same order, ids, kinds,
values kept, terminal order kept; the reference node renamed (the empty circuit has the
placeholder reference node `""`, which is kept). -/
def renameCircuit (ρ : String → String) (c : Circuit) : Circuit :=
  { components := c.components.map (renameComp ρ),
    groundNode := if c.components = [] then c.groundNode else ρ c.groundNode }

/-- `Except.map` spelled out -/
def emap {α β : Type} (f : α → β) : Except Err α → Except Err β
  | .ok a => .ok (f a)
  | .error e => .error e

@[simp] theorem emap_ok {α β : Type} (f : α → β) (a : α) : emap f (.ok a : Except Err α) = .ok (f a) := rfl
@[simp] theorem emap_error {α β : Type} (f : α → β) (e : Err) : emap f (.error e : Except Err α) = .error e := rfl

/-! ### the drawing hypotheses -/

/-- no node name is used on two different electrical nodes (`CC.C13_DrawingWF`) -/
def NamesOK (syms : List Sym) : Prop :=
  ∀ ps ∈ nodeSymsOf syms, ∀ ps' ∈ nodeSymsOf syms, ps.2 = ps'.2 → Joined (wiresOf syms) ps.1 ps'.1

/-- every (rounded) terminal of every symbol of the drawing -/
def termPts (syms : List Sym) : List Pt := syms.flatMap fun s => [s.n1, s.n2]

theorem mem_termPts {syms : List Sym} {p : Pt} : p ∈ termPts syms ↔ ∃ s ∈ syms, p = s.n1 ∨ p = s.n2 := by
  unfold termPts
  simp [List.mem_flatMap]

theorem allNodes_sub_termPts {syms : List Sym} {p : Pt} (h : p ∈ allNodes syms) : p ∈ termPts syms := by
  unfold allNodes at h
  simp only [mem_toSet, List.mem_append, List.mem_map, List.mem_filter] at h
  rw [mem_termPts]
  rcases h with ((⟨s, ⟨hs, _⟩, rfl⟩ | ⟨s, ⟨hs, _⟩, rfl⟩) | ⟨s, ⟨hs, _⟩, rfl⟩) | ⟨s, ⟨hs, _⟩, rfl⟩
  · exact ⟨s, hs, Or.inl rfl⟩
  · exact ⟨s, hs, Or.inr rfl⟩
  · exact ⟨s, hs, Or.inl rfl⟩
  · exact ⟨s, hs, Or.inr rfl⟩

/-! ### the naming of a well-formed drawing -/

/-- `labelOf` of a well-formed drawing: a total naming on the parser nodes that realises the
wire partition, `KeyError` elsewhere -/
theorem labelOf_spec {ord : SetOrd Pt} (hord : ord.Valid) (syms : List Sym) (hwf : NamesOK syms) :
    ∃ lab : Pt → String,
      (∀ p ∈ allNodes syms, labelOf ord syms p = .ok (lab p)) ∧
      (∀ p, p ∉ allNodes syms → labelOf ord syms p = .error Err.keyError) ∧
      Realises (wiresOf syms) (allNodes syms) lab := by
  have hT : nodeClassesNamed = true := by decide
  have hW : NodeSymsWF (wiresOf syms) (allNodes syms) (nodeSymsOf syms) := ⟨nodeSyms_on_terminal hT syms, hwf⟩
  obtain ⟨lab, h1, h2⟩ := getNodeIndex_spec (wiresOf syms) hord (nodup_allNodes syms) hW
  obtain ⟨labels, L⟩ := labels_ok (wiresOf syms) hord (nodup_allNodes syms) hW
  refine ⟨lab, h1, ?_, h2⟩
  intro p hp
  unfold labelOf getNodeIndex
  rw [L.eq]
  unfold lookupLabel
  have : (uniqueNodeMapping (wiresOf syms) ord (allNodes syms)).lookup p = none := by
    rw [uniqueNodeMapping_eq, lookup_map_self]
    simp [hord.mem_all, hp]
  simp [this, bind, Except.bind, throw, throwThe, MonadExceptOf.throw]

/-- two namings that induce corresponding partitions differ by a renaming that is injective on
the names used -/
theorem exists_renaming {P Q : Type} (T : List P) (lab : P → String) (lab' : Q → String) (g : P → Q)
    (h : ∀ p ∈ T, ∀ q ∈ T, (lab p = lab q ↔ lab' (g p) = lab' (g q))) :
    ∃ ρ : String → String, (∀ p ∈ T, lab' (g p) = ρ (lab p)) ∧
      (∀ a ∈ T.map lab, ∀ b ∈ T.map lab, ρ a = ρ b → a = b) := by
  classical
  let ρ : String → String := fun a =>
    match T.find? (fun p => decide (lab p = a)) with
    | some p => lab' (g p)
    | none => a
  have hρ : ∀ p ∈ T, ρ (lab p) = lab' (g p) := by
    intro p hp
    show (match T.find? (fun q => decide (lab q = lab p)) with | some q => lab' (g q) | none => lab p) = _
    cases hf : T.find? (fun q => decide (lab q = lab p)) with
    | none =>
      have := List.find?_eq_none.mp hf p hp
      simp at this
    | some q =>
      have hq : q ∈ T := List.mem_of_find?_eq_some hf
      have hl : lab q = lab p := by simpa using List.find?_some hf
      exact (h q hq p hp).mp hl
  refine ⟨ρ, fun p hp => (hρ p hp).symm, ?_⟩
  intro a ha b hb hab
  obtain ⟨p, hp, rfl⟩ := List.mem_map.mp ha
  obtain ⟨q, hq, rfl⟩ := List.mem_map.mp hb
  rw [hρ p hp, hρ q hq] at hab
  exact (h p hp q hq).mpr hab

/-- **transport of the naming.**  `g` sends the points `T` of the first drawing to points of the
second one such that parser nodes correspond to parser nodes and "joined" corresponds to
"joined".  Then the second naming is the first one followed by a renaming `ρ`, injective on the
names of the first drawing (on points outside the parser nodes both lookups raise `KeyError`). -/
theorem labelOf_transport {ord ord' : SetOrd Pt} (hord : ord.Valid) (hord' : ord'.Valid)
    (syms syms' : List Sym) (hwf : NamesOK syms) (hwf' : NamesOK syms') (g : Pt → Pt) (T : List Pt)
    (hall : ∀ p ∈ allNodes syms, p ∈ T)
    (hmem : ∀ p ∈ T, (g p ∈ allNodes syms' ↔ p ∈ allNodes syms))
    (hj : ∀ p ∈ allNodes syms, ∀ q ∈ allNodes syms,
      (Joined (wiresOf syms') (g p) (g q) ↔ Joined (wiresOf syms) p q)) :
    ∃ (ρ : String → String) (lab : Pt → String),
      (∀ p ∈ allNodes syms, labelOf ord syms p = .ok (lab p)) ∧
      (∀ a ∈ (allNodes syms).map lab, ∀ b ∈ (allNodes syms).map lab, ρ a = ρ b → a = b) ∧
      (∀ p ∈ T, labelOf ord' syms' (g p) = emap ρ (labelOf ord syms p)) := by
  obtain ⟨lab, h1, h2, h3⟩ := labelOf_spec hord syms hwf
  obtain ⟨lab', h1', h2', h3'⟩ := labelOf_spec hord' syms' hwf'
  have hmem' : ∀ p ∈ allNodes syms, g p ∈ allNodes syms' := fun p hp => (hmem p (hall p hp)).mpr hp
  obtain ⟨ρ, hρ, hinj⟩ := exists_renaming (allNodes syms) lab lab' g (by
    intro p hp q hq
    rw [h3 p hp q hq, h3' (g p) (hmem' p hp) (g q) (hmem' q hq)]
    exact (hj p hp q hq).symm)
  refine ⟨ρ, lab, h1, hinj, ?_⟩
  intro p hp
  by_cases hpa : p ∈ allNodes syms
  · rw [h1 p hpa, h1' (g p) (hmem' p hpa), emap_ok, hρ p hpa]
  · rw [h2 p hpa, h2' (g p) (fun h => hpa ((hmem p hp).mp h))]
    rfl

/-! ### the translators only copy terminal names -/

/-- the two symbols agree on everything the translators read besides the terminals -/
def SameShell (s s' : Sym) : Prop :=
  s'.cls = s.cls ∧ s'.name = s.name ∧ s'.rev = s.rev ∧ s'.nodeId = s.nodeId ∧ s'.attrs = s.attrs

theorem SameShell.refl (s : Sym) : SameShell s s := ⟨rfl, rfl, rfl, rfl, rfl⟩

theorem getAttr_shell {s s' : Sym} (h : s'.attrs = s.attrs) (a : String) : s'.getAttr a = s.getAttr a := by
  unfold Sym.getAttr; rw [h]

theorem evalV_shell (π : Rat) {s s' : Sym} (ha : s'.attrs = s.attrs) (hr : s'.rev = s.rev) :
    ∀ e : VExpr, evalV π s' e = evalV π s e
  | .attr a => by simp only [evalV, getAttr_shell ha]
  | .re e => by simp only [evalV, evalV_shell π ha hr e]
  | .neg e => by simp only [evalV, evalV_shell π ha hr e]
  | .ifNotRev t f => by simp only [evalV, hr, evalV_shell π ha hr t, evalV_shell π ha hr f]
  | .degConv a flag => by simp only [evalV, getAttr_shell ha]
  | .lit r => rfl
  | .inf => rfl
  | .str t => rfl

theorem nodeTuple_map (ρ : String → String) (spec : NodeSpec) (rev : Bool) (nodes : List String) :
    nodeTuple spec rev (nodes.map ρ) = emap (List.map ρ) (nodeTuple spec rev nodes) := by
  cases spec <;> cases nodes with
  | nil => rfl
  | cons a t =>
    cases t with
    | nil => rfl
    | cons b u => cases rev <;> rfl

/-- a produced node tuple is not empty -/
theorem nodeTuple_ne_nil {spec : NodeSpec} {rev : Bool} {nodes ns : List String}
    (h : nodeTuple spec rev nodes = .ok ns) : ns ≠ [] := by
  cases spec <;> cases nodes with
  | nil => cases h
  | cons a t =>
    cases t with
    | nil => first | (cases h; done) | (cases h; simp)
    | cons b u => cases rev <;> cases h <;> simp

theorem applyCtor_map (ρ : String → String) (c : CtorSpec) (id : String) (nodes : List String)
    (args : List (String × Val)) :
    applyCtor c id (nodes.map ρ) args = emap (renameComp ρ) (applyCtor c id nodes args) := by
  unfold applyCtor
  cases ctorValue c args <;> rfl

theorem applyCtor_nodes {c : CtorSpec} {id : String} {nodes : List String} {args : List (String × Val)}
    {k : Component} (h : applyCtor c id nodes args = .ok k) : k.nodes = nodes := by
  unfold applyCtor at h
  cases hv : ctorValue c args with
  | error e => rw [hv] at h; cases h
  | ok v => rw [hv] at h; cases h; rfl

def argsOf (π : Rat) (s : Sym) (c : TrCase) : Except Err (List (String × Val)) :=
  c.args.mapM fun (kv : String × VExpr) => do pure (kv.1, ← evalV π s kv.2)

def ctorStep (cn id : String) (ns : List String) (args : List (String × Val)) : Except Err (Option Component) :=
  match Gen.ctors.find? (·.name = cn) with
  | none => throw (Err.other "constructor missing from the generated table")
  | some spec => some <$> applyCtor spec id ns args

theorem runCase_eq (π : Rat) (s : Sym) (nodes : List String) (c : TrCase) :
    runCase π s nodes c = match c.ctor with
      | none => .ok none
      | some cn =>
        match nodeTuple c.nodes s.rev nodes with
        | .error e => .error e
        | .ok ns =>
          match argsOf π s c with
          | .error e => .error e
          | .ok args => ctorStep cn s.name ns args := by
  unfold runCase
  cases c.ctor with
  | none => rfl
  | some cn =>
    show (nodeTuple c.nodes s.rev nodes >>= fun ns => argsOf π s c >>= fun args => ctorStep cn s.name ns args) = _
    cases nodeTuple c.nodes s.rev nodes with
    | error e => rfl
    | ok ns =>
      show (argsOf π s c >>= fun args => ctorStep cn s.name ns args) = _
      cases argsOf π s c <;> rfl

theorem argsOf_shell (π : Rat) {s s' : Sym} (ha : s'.attrs = s.attrs) (hr : s'.rev = s.rev) (c : TrCase) :
    argsOf π s' c = argsOf π s c := by
  unfold argsOf
  simp only [evalV_shell π ha hr]

theorem ctorStep_map (ρ : String → String) (cn id : String) (ns : List String) (args : List (String × Val)) :
    ctorStep cn id (ns.map ρ) args = emap (Option.map (renameComp ρ)) (ctorStep cn id ns args) := by
  unfold ctorStep
  cases Gen.ctors.find? (·.name = cn) with
  | none => rfl
  | some spec =>
    simp only [applyCtor_map]
    cases applyCtor spec id ns args <;> rfl

theorem ctorStep_nodes {cn id : String} {ns : List String} {args : List (String × Val)} {k : Component}
    (h : ctorStep cn id ns args = .ok (some k)) : k.nodes = ns := by
  unfold ctorStep at h
  cases hf : Gen.ctors.find? (·.name = cn) with
  | none => rw [hf] at h; cases h
  | some spec =>
    rw [hf] at h
    simp only at h
    cases hk : applyCtor spec id ns args with
    | error e => rw [hk] at h; cases h
    | ok k' =>
      rw [hk] at h
      cases h
      exact applyCtor_nodes hk

theorem runCase_transport (π : Rat) (ρ : String → String) {s s' : Sym} (hs : SameShell s s')
    (nodes : List String) (c : TrCase) :
    runCase π s' (nodes.map ρ) c = emap (Option.map (renameComp ρ)) (runCase π s nodes c) := by
  obtain ⟨hc, hn, hr, _, ha⟩ := hs
  rw [runCase_eq, runCase_eq]
  cases c.ctor with
  | none => rfl
  | some cn =>
    simp only [hr, hn, nodeTuple_map, argsOf_shell π ha hr]
    cases nodeTuple c.nodes s.rev nodes with
    | error e => rfl
    | ok ns =>
      simp only [emap_ok]
      cases argsOf π s c with
      | error e => rfl
      | ok args => exact ctorStep_map ρ cn s.name ns args

theorem runCase_nodes_ne_nil {π : Rat} {s : Sym} {nodes : List String} {c : TrCase} {k : Component}
    (h : runCase π s nodes c = .ok (some k)) : k.nodes ≠ [] := by
  rw [runCase_eq] at h
  cases hc : c.ctor with
  | none => rw [hc] at h; cases h
  | some cn =>
    rw [hc] at h
    simp only at h
    cases hn : nodeTuple c.nodes s.rev nodes with
    | error e => rw [hn] at h; cases h
    | ok ns =>
      rw [hn] at h
      simp only at h
      cases ha : argsOf π s c with
      | error e => rw [ha] at h; cases h
      | ok args =>
        rw [ha] at h
        simp only at h
        rw [ctorStep_nodes h]
        exact nodeTuple_ne_nil hn

theorem runCases_transport (π : Rat) (ρ : String → String) {s s' : Sym} (hs : SameShell s s')
    (nodes : List String) : ∀ cases : List TrCase,
    runCases π s' (nodes.map ρ) cases = emap (Option.map (renameComp ρ)) (runCases π s nodes cases)
  | [] => rfl
  | c :: cs => by
    unfold runCases
    cases c.guard with
    | none => exact runCase_transport π ρ hs nodes c
    | some am =>
      obtain ⟨a, m⟩ := am
      simp only [getAttr_shell hs.2.2.2.2, bind, Except.bind]
      cases s.getAttr a with
      | error e => rfl
      | ok v =>
        simp only
        by_cases hv : v = .str m
        · simp only [hv, if_true]; exact runCase_transport π ρ hs nodes c
        · simp only [hv, if_false]; exact runCases_transport π ρ hs nodes cs

theorem runCases_nodes_ne_nil {π : Rat} {s : Sym} {nodes : List String} {k : Component} :
    ∀ {cases : List TrCase}, runCases π s nodes cases = .ok (some k) → k.nodes ≠ []
  | [], h => by cases h
  | c :: cs, h => by
    unfold runCases at h
    cases hg : c.guard with
    | none => rw [hg] at h; exact runCase_nodes_ne_nil h
    | some am =>
      obtain ⟨a, m⟩ := am
      rw [hg] at h
      simp only [bind, Except.bind] at h
      cases hv : s.getAttr a with
      | error e => rw [hv] at h; cases h
      | ok v =>
        rw [hv] at h
        simp only at h
        by_cases hvm : v = .str m
        · simp only [hvm, if_true] at h; exact runCase_nodes_ne_nil h
        · simp only [hvm, if_false] at h; exact runCases_nodes_ne_nil h

/-- a translator copies the terminal names it is given and reads nothing else of them -/
theorem compOfSym_transport (π : Rat) (ρ : String → String) {s s' : Sym} (hs : SameShell s s')
    (nodes : List String) :
    compOfSym π s' (nodes.map ρ) = emap (Option.map (renameComp ρ)) (compOfSym π s nodes) := by
  unfold compOfSym
  rw [hs.1]
  cases Gen.translatorMap.lookup s.cls with
  | none => rfl
  | some f =>
    simp only
    cases Gen.translators.lookup f with
    | none => rfl
    | some cases => exact runCases_transport π ρ hs nodes cases

theorem compOfSym_nodes_ne_nil {π : Rat} {s : Sym} {nodes : List String} {k : Component}
    (h : compOfSym π s nodes = .ok (some k)) : k.nodes ≠ [] := by
  unfold compOfSym at h
  cases h1 : Gen.translatorMap.lookup s.cls with
  | none => rw [h1] at h; cases h
  | some f =>
    rw [h1] at h
    simp only at h
    cases h2 : Gen.translators.lookup f with
    | none => rw [h2] at h; cases h
    | some cases => rw [h2] at h; exact runCases_nodes_ne_nil h

theorem remapKE_emap {α β : Type} (f : α → β) (x : Except Err α) : remapKE (emap f x) = emap f (remapKE x) := by
  cases x with
  | ok a => rfl
  | error e => cases e <;> rfl

theorem mapM_pair' (L : Pt → Except Err String) (a b : Pt) :
    [a, b].mapM L = (do let x ← L a; let y ← L b; pure [x, y]) := by
  simp [List.mapM_cons]

/-- **transport of one symbol.** -/
theorem translateSym_transport (π : Rat) (L L' : Pt → Except Err String) (ρ : String → String)
    {s s' : Sym} (hs : SameShell s s') (h1 : L' s'.n1 = emap ρ (L s.n1)) (h2 : L' s'.n2 = emap ρ (L s.n2)) :
    translateSym π L' s' = emap (Option.map (renameComp ρ)) (translateSym π L s) := by
  unfold translateSym
  rw [hs.1, mapM_pair', mapM_pair', h1, h2]
  cases Gen.translatorMap.lookup s.cls with
  | none => rfl
  | some f =>
    simp only
    rw [← remapKE_emap]
    congr 1
    cases L s.n1 with
    | error e => rfl
    | ok la =>
      cases L s.n2 with
      | error e => rfl
      | ok lb =>
        simp only [emap_ok, bind, Except.bind, pure, Except.pure]
        exact compOfSym_transport π ρ hs [la, lb]

theorem remapKE_ok' {α : Type} {x : Except Err α} {c : α} (h : remapKE x = .ok c) : x = .ok c := by
  unfold remapKE at h
  split at h
  · cases h
  · exact h

theorem translateSym_nodes_ne_nil {π : Rat} {L : Pt → Except Err String} {s : Sym} {k : Component}
    (h : translateSym π L s = .ok (some k)) : k.nodes ≠ [] := by
  unfold translateSym at h
  rw [mapM_pair'] at h
  cases hl : Gen.translatorMap.lookup s.cls with
  | none => rw [hl] at h; cases h
  | some f =>
    rw [hl] at h
    simp only at h
    have h := remapKE_ok' h
    cases h1 : L s.n1 with
    | error e => simp [h1, bind, Except.bind] at h
    | ok la =>
      cases h2 : L s.n2 with
      | error e => simp [h1, h2, bind, Except.bind] at h
      | ok lb =>
        simp only [h1, h2, bind, Except.bind, pure, Except.pure] at h
        exact compOfSym_nodes_ne_nil h

/-! ### lists of symbols -/

theorem forall2_mem {α β : Type} {R : α → β → Prop} {l : List α} {l' : List β} (h : List.Forall₂ R l l') :
    List.Forall₂ (fun a b => a ∈ l ∧ R a b) l l' := by
  induction h with
  | nil => exact .nil
  | cons hab _ ih =>
    exact .cons ⟨List.mem_cons_self, hab⟩ (ih.imp fun a b h => ⟨List.mem_cons_of_mem _ h.1, h.2⟩)

theorem mapM_cons' {α β : Type} (f : α → Except Err β) (a : α) (l : List α) :
    (a :: l).mapM f = (match f a with
      | .error e => .error e
      | .ok b => match l.mapM f with
        | .error e => .error e
        | .ok bs => .ok (b :: bs)) := by
  rw [List.mapM_cons]
  show (f a >>= fun b => l.mapM f >>= fun bs => pure (b :: bs)) = _
  cases f a with
  | error e => rfl
  | ok b =>
    show (l.mapM f >>= fun bs => pure (b :: bs)) = _
    cases l.mapM f <;> rfl

theorem mapM_forall2 {α β : Type} (F F' : α → Except Err β) (φ : β → β) {R : α → α → Prop}
    {l l' : List α} (hl : List.Forall₂ R l l') (hF : ∀ a a', R a a' → F' a' = emap φ (F a)) :
    l'.mapM F' = emap (List.map φ) (l.mapM F) := by
  induction hl with
  | nil => rfl
  | cons hab _ ih =>
    rw [mapM_cons', mapM_cons', hF _ _ hab, ih]
    cases F _ with
    | error e => rfl
    | ok b =>
      simp only [emap_ok]
      cases List.mapM F _ <;> rfl

theorem mapM_append' {α β : Type} (f : α → Except Err β) (l₁ l₂ : List α) :
    (l₁ ++ l₂).mapM f = (match l₁.mapM f with
      | .error e => .error e
      | .ok bs => match l₂.mapM f with
        | .error e => .error e
        | .ok cs => .ok (bs ++ cs)) := by
  induction l₁ with
  | nil =>
    show l₂.mapM f = match (pure [] : Except Err (List β)) with | .error e => .error e | .ok bs => _
    show l₂.mapM f = match l₂.mapM f with | .error e => .error e | .ok cs => .ok ([] ++ cs)
    cases l₂.mapM f <;> rfl
  | cons a l ih =>
    rw [List.cons_append, mapM_cons', mapM_cons', ih]
    cases f a with
    | error e => rfl
    | ok b =>
      simp only
      cases l.mapM f with
      | error e => rfl
      | ok bs =>
        simp only
        cases l₂.mapM f <;> rfl

theorem filterMap_id_map (ρ : String → String) (cs : List (Option Component)) :
    (cs.map (Option.map (renameComp ρ))).filterMap id = (cs.filterMap id).map (renameComp ρ) := by
  induction cs with
  | nil => rfl
  | cons c cs ih =>
    cases c with
    | none => exact ih
    | some k =>
      show renameComp ρ k :: List.filterMap id (List.map (Option.map (renameComp ρ)) cs) = renameComp ρ k :: _
      rw [ih]

/-! ### `Circuit.__post_init__` -/

/-- the part of `mkCircuit` after the first component and the ground components were found -/
def finishCircuit (d : String) (gs : List String) (cs : List Component) : Except Err Circuit :=
  match gs with
  | _ :: _ :: _ => throw Err.multipleGrounds
  | _ =>
    let gn := match gs with | g :: _ => g | [] => d
    if (toSet (cs.map (·.id))).length ≠ cs.length then throw Err.ambiguousIds
    else pure ⟨cs, gn⟩

def groundsOf (cs : List Component) : List String := (cs.filter (·.type = "ground")).map fun c => c.nodes.headD ""

theorem mkCircuit_cons (c0 : Component) (rest : List Component) :
    mkCircuit (c0 :: rest) = finishCircuit (c0.nodes.headD "") (groundsOf (c0 :: rest)) (c0 :: rest) := rfl

theorem headD_map (ρ : String → String) {l : List String} (h : l ≠ []) : (l.map ρ).headD "" = ρ (l.headD "") := by
  cases l with
  | nil => exact absurd rfl h
  | cons a t => rfl

theorem groundsOf_map (ρ : String → String) (cs : List Component) (h : ∀ c ∈ cs, c.nodes ≠ []) :
    groundsOf (cs.map (renameComp ρ)) = (groundsOf cs).map ρ := by
  unfold groundsOf
  induction cs with
  | nil => rfl
  | cons c cs ih =>
    have ih := ih (fun c' hc' => h c' (List.mem_cons_of_mem _ hc'))
    have hc := h c List.mem_cons_self
    simp only [List.map_cons, List.filter_cons]
    have : (renameComp ρ c).type = c.type := rfl
    rw [this]
    by_cases hg : c.type = "ground"
    · simp only [hg, decide_true, if_true, List.map_cons, ih]
      congr 1
      exact headD_map ρ hc
    · simp only [hg, decide_false, Bool.false_eq_true, if_false, ih]

theorem ids_map (ρ : String → String) (cs : List Component) :
    (cs.map (renameComp ρ)).map (·.id) = cs.map (·.id) := by
  simp [List.map_map, Function.comp_def, renameComp]

theorem finishCircuit_map (ρ : String → String) (d : String) (gs : List String) (cs : List Component)
    (hne : cs ≠ []) :
    finishCircuit (ρ d) (gs.map ρ) (cs.map (renameComp ρ)) = emap (renameCircuit ρ) (finishCircuit d gs cs) := by
  unfold finishCircuit
  rw [ids_map, List.length_map]
  rcases gs with _ | ⟨g, _ | ⟨g', t⟩⟩
  · simp only [List.map_nil]
    by_cases hid : (toSet (cs.map (·.id))).length ≠ cs.length
    · rw [if_pos hid, if_pos hid]; rfl
    · rw [if_neg hid, if_neg hid]
      show Except.ok _ = emap (renameCircuit ρ) (Except.ok _)
      simp only [emap_ok, renameCircuit, hne, if_false]
  · simp only [List.map_cons, List.map_nil]
    by_cases hid : (toSet (cs.map (·.id))).length ≠ cs.length
    · rw [if_pos hid, if_pos hid]; rfl
    · rw [if_neg hid, if_neg hid]
      show Except.ok _ = emap (renameCircuit ρ) (Except.ok _)
      simp only [emap_ok, renameCircuit, hne, if_false]
  · rfl

/-- **`Circuit.__post_init__` commutes with a renaming of nodes** (every component has a
terminal): same error, or the renamed circuit whose reference node is the renamed reference
node -/
theorem mkCircuit_rename (ρ : String → String) (cs : List Component) (h : ∀ c ∈ cs, c.nodes ≠ []) :
    mkCircuit (cs.map (renameComp ρ)) = emap (renameCircuit ρ) (mkCircuit cs) := by
  cases cs with
  | nil => rfl
  | cons c0 rest =>
    rw [List.map_cons, mkCircuit_cons, mkCircuit_cons, ← List.map_cons, groundsOf_map ρ _ h]
    have : (renameComp ρ c0).nodes.headD "" = ρ (c0.nodes.headD "") := headD_map ρ (h c0 List.mem_cons_self)
    rw [this]
    exact finishCircuit_map ρ _ _ _ (by simp)

/-- successful translations have a terminal -/
theorem mapM_translate_nodes_ne_nil {π : Rat} {L : Pt → Except Err String} {syms : List Sym}
    {cs : List (Option Component)} (h : syms.mapM (translateSym π L) = .ok cs) :
    ∀ c ∈ cs.filterMap id, c.nodes ≠ [] := by
  induction syms generalizing cs with
  | nil =>
    have : cs = [] := by cases h; rfl
    subst this; intro c hc; cases hc
  | cons s syms ih =>
    rw [mapM_cons'] at h
    cases h1 : translateSym π L s with
    | error e => rw [h1] at h; cases h
    | ok k =>
      rw [h1] at h
      simp only at h
      cases h2 : syms.mapM (translateSym π L) with
      | error e => rw [h2] at h; cases h
      | ok ks =>
        rw [h2] at h
        cases h
        intro c hc
        cases k with
        | none => exact ih h2 c (by simpa using hc)
        | some k0 =>
          simp only [List.filterMap_cons, id] at hc
          rcases List.mem_cons.mp hc with rfl | hc
          · exact translateSym_nodes_ne_nil h1
          · exact ih h2 c hc

/-- the translation of a drawing as a function of the symbol translations -/
theorem circuitTranslator_eq (π : Rat) (ord : SetOrd Pt) (syms : List Sym) :
    circuitTranslator π ord syms = (match syms.mapM (translateSym π (labelOf ord syms)) with
      | .error e => .error e
      | .ok cs => mkCircuit (cs.filterMap id)) := by
  show (syms.mapM (translateSym π (labelOf ord syms)) >>= fun cs => mkCircuit (cs.filterMap id)) = _
  cases syms.mapM (translateSym π (labelOf ord syms)) <;> rfl

/-- **from the component lists to the circuits**: if the symbol translations of the second
drawing are those of the first with node names sent through `ρ`, so are the circuits -/
theorem circuitTranslator_of_mapM (π : Rat) (ord ord' : SetOrd Pt) (syms syms' : List Sym) (ρ : String → String)
    (h : emap (fun cs => cs.filterMap id) (syms'.mapM (translateSym π (labelOf ord' syms'))) =
      emap (fun cs => (cs.filterMap id).map (renameComp ρ)) (syms.mapM (translateSym π (labelOf ord syms)))) :
    circuitTranslator π ord' syms' = emap (renameCircuit ρ) (circuitTranslator π ord syms) := by
  rw [circuitTranslator_eq, circuitTranslator_eq]
  cases h1 : syms.mapM (translateSym π (labelOf ord syms)) with
  | error e =>
    rw [h1] at h
    cases h2 : syms'.mapM (translateSym π (labelOf ord' syms')) with
    | error e' => rw [h2] at h; simp only [emap_error] at h; cases h; rfl
    | ok cs' => rw [h2] at h; cases h
  | ok cs =>
    rw [h1] at h
    cases h2 : syms'.mapM (translateSym π (labelOf ord' syms')) with
    | error e' => rw [h2] at h; cases h
    | ok cs' =>
      rw [h2] at h
      simp only [emap_ok] at h
      have h := Except.ok.inj h
      simp only
      rw [h]
      exact mkCircuit_rename ρ _ (mapM_translate_nodes_ne_nil h1)

/-! ### characterisation of `all_nodes` -/

theorem mem_allNodes_iff {syms : List Sym} {p : Pt} :
    p ∈ allNodes syms ↔ ∃ s ∈ syms, (s.hasName = true ∨ s.isLine = true) ∧ (p = s.n1 ∨ p = s.n2) := by
  unfold allNodes
  simp only [mem_toSet, List.mem_append, List.mem_map, List.mem_filter]
  constructor
  · rintro (((⟨s, ⟨hs, hn⟩, rfl⟩ | ⟨s, ⟨hs, hn⟩, rfl⟩) | ⟨s, ⟨hs, hn⟩, rfl⟩) | ⟨s, ⟨hs, hn⟩, rfl⟩)
    · exact ⟨s, hs, Or.inl hn, Or.inl rfl⟩
    · exact ⟨s, hs, Or.inl hn, Or.inr rfl⟩
    · exact ⟨s, hs, Or.inr hn, Or.inl rfl⟩
    · exact ⟨s, hs, Or.inr hn, Or.inr rfl⟩
  · rintro ⟨s, hs, hn | hn, rfl | rfl⟩
    · exact Or.inl (Or.inl (Or.inl ⟨s, ⟨hs, hn⟩, rfl⟩))
    · exact Or.inl (Or.inl (Or.inr ⟨s, ⟨hs, hn⟩, rfl⟩))
    · exact Or.inl (Or.inr ⟨s, ⟨hs, hn⟩, rfl⟩)
    · exact Or.inr ⟨s, ⟨hs, hn⟩, rfl⟩

theorem mem_wiresOf_iff {syms : List Sym} {w : Pt × Pt} :
    w ∈ wiresOf syms ↔ ∃ s ∈ syms, s.isLine = true ∧ w = (s.n1, s.n2) := by
  unfold wiresOf
  simp only [List.mem_map, List.mem_filter]
  constructor
  · rintro ⟨s, ⟨hs, hl⟩, rfl⟩; exact ⟨s, hs, hl, rfl⟩
  · rintro ⟨s, hs, hl, rfl⟩; exact ⟨s, ⟨hs, hl⟩, rfl⟩

theorem mem_nodeSymsOf_iff {syms : List Sym} {ps : Pt × String} :
    ps ∈ nodeSymsOf syms ↔ ∃ s ∈ syms, s.isNode = true ∧ ps = (s.n1, s.nodeId) := by
  unfold nodeSymsOf
  simp only [List.mem_map, List.mem_filter]
  constructor
  · rintro ⟨s, ⟨hs, hl⟩, rfl⟩; exact ⟨s, hs, hl, rfl⟩
  · rintro ⟨s, hs, hl, rfl⟩; exact ⟨s, ⟨hs, hl⟩, rfl⟩

theorem SameShell.isLine {s s' : Sym} (h : SameShell s s') : s'.isLine = s.isLine := by
  unfold Sym.isLine; rw [h.1]
theorem SameShell.hasName {s s' : Sym} (h : SameShell s s') : s'.hasName = s.hasName := by
  unfold Sym.hasName; rw [h.1]
theorem SameShell.isNode {s s' : Sym} (h : SameShell s s') : s'.isNode = s.isNode := by
  unfold Sym.isNode; rw [h.1]

/-! ### instance 1: the drawing moved by a coordinate map -/

/-- `s'` is the symbol `s` with its (rounded) terminals moved by `g` -/
def MovedBy (g : Pt → Pt) (s s' : Sym) : Prop := SameShell s s' ∧ s'.n1 = g s.n1 ∧ s'.n2 = g s.n2

/-- `syms'` is the drawing `syms`, symbol by symbol in the same order, with all (rounded)
terminals moved by `g` -/
def MappedBy (g : Pt → Pt) (syms syms' : List Sym) : Prop := List.Forall₂ (MovedBy g) syms syms'

/-- `g` is injective on the terminals of the drawing -/
def InjOnTerms (g : Pt → Pt) (syms : List Sym) : Prop :=
  ∀ x ∈ termPts syms, ∀ y ∈ termPts syms, g x = g y → x = y

theorem MappedBy.exists_fwd {g : Pt → Pt} {syms syms' : List Sym} (h : MappedBy g syms syms') :
    ∀ s ∈ syms, ∃ s' ∈ syms', MovedBy g s s' := by
  induction h with
  | nil => intro s hs; cases hs
  | cons hab _ ih =>
    intro s hs
    rcases List.mem_cons.mp hs with rfl | hs
    · exact ⟨_, List.mem_cons_self, hab⟩
    · obtain ⟨s', hs', hm⟩ := ih s hs
      exact ⟨s', List.mem_cons_of_mem _ hs', hm⟩

theorem MappedBy.exists_bwd {g : Pt → Pt} {syms syms' : List Sym} (h : MappedBy g syms syms') :
    ∀ s' ∈ syms', ∃ s ∈ syms, MovedBy g s s' := by
  induction h with
  | nil => intro s hs; cases hs
  | cons hab _ ih =>
    intro s hs
    rcases List.mem_cons.mp hs with rfl | hs
    · exact ⟨_, List.mem_cons_self, hab⟩
    · obtain ⟨s', hs', hm⟩ := ih s hs
      exact ⟨s', List.mem_cons_of_mem _ hs', hm⟩

theorem MappedBy.wiresOf {g : Pt → Pt} {syms syms' : List Sym} (h : MappedBy g syms syms') :
    wiresOf syms' = mapWires g (wiresOf syms) := by
  unfold CC.Draw.wiresOf mapWires
  induction h with
  | nil => rfl
  | cons hab _ ih =>
    simp only [List.filter_cons, hab.1.isLine]
    split
    · simp only [List.map_cons, ih, hab.2.1, hab.2.2]
    · exact ih

theorem MappedBy.nodeSymsOf {g : Pt → Pt} {syms syms' : List Sym} (h : MappedBy g syms syms') :
    nodeSymsOf syms' = (nodeSymsOf syms).map fun ps => (g ps.1, ps.2) := by
  unfold CC.Draw.nodeSymsOf
  induction h with
  | nil => rfl
  | cons hab _ ih =>
    simp only [List.filter_cons, hab.1.isNode]
    split
    · simp only [List.map_cons, ih, hab.2.1, hab.1.2.2.2.1]
    · exact ih

theorem MappedBy.mem_allNodes {g : Pt → Pt} {syms syms' : List Sym} (h : MappedBy g syms syms') {q : Pt} :
    q ∈ allNodes syms' ↔ ∃ p ∈ allNodes syms, q = g p := by
  constructor
  · intro hq
    obtain ⟨s', hs', hk, hq⟩ := mem_allNodes_iff.mp hq
    obtain ⟨s, hs, hm⟩ := h.exists_bwd s' hs'
    rw [hm.1.hasName, hm.1.isLine] at hk
    rcases hq with rfl | rfl
    · exact ⟨s.n1, mem_allNodes_iff.mpr ⟨s, hs, hk, Or.inl rfl⟩, hm.2.1⟩
    · exact ⟨s.n2, mem_allNodes_iff.mpr ⟨s, hs, hk, Or.inr rfl⟩, hm.2.2⟩
  · rintro ⟨p, hp, rfl⟩
    obtain ⟨s, hs, hk, hp⟩ := mem_allNodes_iff.mp hp
    obtain ⟨s', hs', hm⟩ := h.exists_fwd s hs
    rw [← hm.1.hasName, ← hm.1.isLine] at hk
    rcases hp with rfl | rfl
    · exact mem_allNodes_iff.mpr ⟨s', hs', hk, Or.inl hm.2.1.symm⟩
    · exact mem_allNodes_iff.mpr ⟨s', hs', hk, Or.inr hm.2.2.symm⟩

theorem MappedBy.namesOK {g : Pt → Pt} {syms syms' : List Sym} (h : MappedBy g syms syms') (hwf : NamesOK syms) :
    NamesOK syms' := by
  intro ps hps qs hqs hid
  rw [h.nodeSymsOf] at hps hqs
  obtain ⟨ps0, hps0, rfl⟩ := List.mem_map.mp hps
  obtain ⟨qs0, hqs0, rfl⟩ := List.mem_map.mp hqs
  rw [h.wiresOf]
  exact Joined.map g (hwf ps0 hps0 qs0 hqs0 hid)

/-- how the translation of the whole symbol list follows from the transport of the naming -/
theorem mapM_of_labels (π : Rat) (L L' : Pt → Except Err String) (ρ : String → String) (g : Pt → Pt)
    {syms syms' : List Sym} (h : MappedBy g syms syms')
    (hL : ∀ p ∈ termPts syms, L' (g p) = emap ρ (L p)) :
    syms'.mapM (translateSym π L') = emap (List.map (Option.map (renameComp ρ))) (syms.mapM (translateSym π L)) := by
  refine mapM_forall2 _ _ _ (forall2_mem h) ?_
  intro s s' ⟨hs, hm⟩
  refine translateSym_transport π L L' ρ hm.1 ?_ ?_
  · rw [hm.2.1]; exact hL _ (mem_termPts.mpr ⟨s, hs, Or.inl rfl⟩)
  · rw [hm.2.2]; exact hL _ (mem_termPts.mpr ⟨s, hs, Or.inr rfl⟩)

theorem emap_filterMap_of_map (ρ : String → String) {x' x : Except Err (List (Option Component))}
    (h : x' = emap (List.map (Option.map (renameComp ρ))) x) :
    emap (fun cs => cs.filterMap id) x' = emap (fun cs => (cs.filterMap id).map (renameComp ρ)) x := by
  subst h
  cases x with
  | error e => rfl
  | ok cs => simp only [emap_ok, filterMap_id_map]

/-- **moved drawing.**  See `CC.C13_moved`. -/
theorem circuitTranslator_moved (π : Rat) {ord ord' : SetOrd Pt} (hord : ord.Valid) (hord' : ord'.Valid)
    (g : Pt → Pt) (syms syms' : List Sym) (hm : MappedBy g syms syms') (hinj : InjOnTerms g syms)
    (hwf : NamesOK syms) :
    ∃ (ρ : String → String) (lab : Pt → String),
      (∀ p ∈ allNodes syms, labelOf ord syms p = .ok (lab p)) ∧
      (∀ a ∈ (allNodes syms).map lab, ∀ b ∈ (allNodes syms).map lab, ρ a = ρ b → a = b) ∧
      (∀ p ∈ termPts syms, labelOf ord' syms' (g p) = emap ρ (labelOf ord syms p)) ∧
      circuitTranslator π ord' syms' = emap (renameCircuit ρ) (circuitTranslator π ord syms) := by
  have hwf' := hm.namesOK hwf
  obtain ⟨ρ, lab, h1, h2, h3⟩ := labelOf_transport hord hord' syms syms' hwf hwf' g (termPts syms)
    (fun p hp => allNodes_sub_termPts hp)
    (by
      intro p hp
      rw [hm.mem_allNodes]
      constructor
      · rintro ⟨p0, hp0, he⟩
        rw [hinj p hp p0 (allNodes_sub_termPts hp0) he]; exact hp0
      · intro h; exact ⟨p, h, rfl⟩)
    (by
      intro p hp q hq
      rw [hm.wiresOf]
      exact joined_map_iff (D := fun x => x ∈ allNodes syms)
        (fun x y hx hy => hinj x (allNodes_sub_termPts hx) y (allNodes_sub_termPts hy))
        (wires_sub_allNodes syms) hp hq)
  refine ⟨ρ, lab, h1, h2, h3, ?_⟩
  exact circuitTranslator_of_mapM π ord ord' syms syms' ρ
    (emap_filterMap_of_map ρ (mapM_of_labels π _ _ ρ g hm h3))

/-! ### instance 2: a wire split at an unused point -/

theorem translateSym_line (π : Rat) (L : Pt → Except Err String) {s : Sym} (h : s.cls = "Line") {a b : String}
    (h1 : L s.n1 = .ok a) (h2 : L s.n2 = .ok b) : translateSym π L s = .ok none := by
  have hl : Gen.translatorMap.lookup "Line" = some "none_translator" := by decide
  have ht : Gen.translators.lookup "none_translator" =
      some [{ guard := none, ctor := none, nodes := .pair, args := [] }] := by decide
  have hc : compOfSym π s [a, b] = .ok none := by
    unfold compOfSym
    rw [h, hl]
    simp only [ht, runCases, runCase]
    rfl
  unfold translateSym
  rw [mapM_pair', h1, h2, h, hl]
  show remapKE (compOfSym π s [a, b]) = _
  rw [hc]
  rfl

theorem mapM_congr_emap {α β : Type} (F F' : α → Except Err β) (φ : β → β) (l : List α)
    (h : ∀ a ∈ l, F' a = emap φ (F a)) : l.mapM F' = emap (List.map φ) (l.mapM F) := by
  induction l with
  | nil => rfl
  | cons a l ih =>
    rw [mapM_cons', mapM_cons', h a List.mem_cons_self, ih (fun b hb => h b (List.mem_cons_of_mem _ hb))]
    cases F a with
    | error e => rfl
    | ok b =>
      simp only [emap_ok]
      cases List.mapM F l <;> rfl

/-- `syms'` is `syms` with the wire `l` replaced by the two wires `l₁ : l.n1 — c` and `l₂ : c — l.n2` -/
structure SplitAt (c : Pt) (pre post : List Sym) (l l₁ l₂ : Sym) : Prop where
  line : l.cls = "Line"
  line₁ : l₁.cls = "Line"
  line₂ : l₂.cls = "Line"
  a₁ : l₁.n1 = l.n1
  c₁ : l₁.n2 = c
  c₂ : l₂.n1 = c
  b₂ : l₂.n2 = l.n2

theorem isLine_of_cls {s : Sym} (h : s.cls = "Line") : s.isLine = true := by
  unfold Sym.isLine; simp [h]

theorem not_isNode_of_line {s : Sym} (h : s.cls = "Line") : s.isNode = false := by
  unfold Sym.isNode; rw [h]; decide

theorem wiresOf_append (l₁ l₂ : List Sym) : wiresOf (l₁ ++ l₂) = wiresOf l₁ ++ wiresOf l₂ := by
  unfold wiresOf; rw [List.filter_append, List.map_append]

theorem wiresOf_cons_line {s : Sym} (h : s.cls = "Line") (l : List Sym) :
    wiresOf (s :: l) = (s.n1, s.n2) :: wiresOf l := by
  unfold wiresOf
  rw [List.filter_cons, isLine_of_cls h]
  rfl

theorem nodeSymsOf_append (l₁ l₂ : List Sym) : nodeSymsOf (l₁ ++ l₂) = nodeSymsOf l₁ ++ nodeSymsOf l₂ := by
  unfold nodeSymsOf; rw [List.filter_append, List.map_append]

theorem nodeSymsOf_cons_line {s : Sym} (h : s.cls = "Line") (l : List Sym) :
    nodeSymsOf (s :: l) = nodeSymsOf l := by
  unfold nodeSymsOf
  rw [List.filter_cons, not_isNode_of_line h]
  rfl

/-- **wire split.**  See `CC.C13_split`. -/
theorem circuitTranslator_split (π : Rat) {ord ord' : SetOrd Pt} (hord : ord.Valid) (hord' : ord'.Valid)
    (c : Pt) (pre post : List Sym) (l l₁ l₂ : Sym) (hs : SplitAt c pre post l l₁ l₂)
    (hfresh : c ∉ termPts (pre ++ l :: post)) (hwf : NamesOK (pre ++ l :: post)) :
    ∃ (ρ : String → String) (lab : Pt → String),
      (∀ p ∈ allNodes (pre ++ l :: post), labelOf ord (pre ++ l :: post) p = .ok (lab p)) ∧
      (∀ a ∈ (allNodes (pre ++ l :: post)).map lab, ∀ b ∈ (allNodes (pre ++ l :: post)).map lab, ρ a = ρ b → a = b) ∧
      (∀ p ∈ termPts (pre ++ l :: post),
        labelOf ord' (pre ++ l₁ :: l₂ :: post) p = emap ρ (labelOf ord (pre ++ l :: post) p)) ∧
      circuitTranslator π ord' (pre ++ l₁ :: l₂ :: post) =
        emap (renameCircuit ρ) (circuitTranslator π ord (pre ++ l :: post)) := by
  have hW : wiresOf (pre ++ l :: post) = wiresOf pre ++ (l.n1, l.n2) :: wiresOf post := by
    rw [wiresOf_append, wiresOf_cons_line hs.line]
  have hW' : wiresOf (pre ++ l₁ :: l₂ :: post) = wiresOf pre ++ (l.n1, c) :: (c, l.n2) :: wiresOf post := by
    rw [wiresOf_append, wiresOf_cons_line hs.line₁, wiresOf_cons_line hs.line₂, hs.a₁, hs.c₁, hs.c₂, hs.b₂]
  have hN' : nodeSymsOf (pre ++ l₁ :: l₂ :: post) = nodeSymsOf (pre ++ l :: post) := by
    rw [nodeSymsOf_append, nodeSymsOf_append, nodeSymsOf_cons_line hs.line₁, nodeSymsOf_cons_line hs.line₂,
      nodeSymsOf_cons_line hs.line]
  have hF : FreshPt c (wiresOf (pre ++ l :: post)) := by
    intro w hw
    have := wires_sub_allNodes _ w hw
    exact ⟨fun h => hfresh (allNodes_sub_termPts (h ▸ this.1)), fun h => hfresh (allNodes_sub_termPts (h ▸ this.2))⟩
  have hA : ∀ p, p ∈ allNodes (pre ++ l₁ :: l₂ :: post) ↔ p ∈ allNodes (pre ++ l :: post) ∨ p = c := by
    intro p
    simp only [mem_allNodes_iff, List.mem_append, List.mem_cons]
    constructor
    · rintro ⟨s, (hs' | rfl | rfl | hs'), hk, hp⟩
      · exact Or.inl ⟨s, Or.inl hs', hk, hp⟩
      · rcases hp with rfl | rfl
        · exact Or.inl ⟨l, Or.inr (Or.inl rfl), Or.inr (isLine_of_cls hs.line), Or.inl hs.a₁⟩
        · exact Or.inr hs.c₁
      · rcases hp with rfl | rfl
        · exact Or.inr hs.c₂
        · exact Or.inl ⟨l, Or.inr (Or.inl rfl), Or.inr (isLine_of_cls hs.line), Or.inr hs.b₂⟩
      · exact Or.inl ⟨s, Or.inr (Or.inr hs'), hk, hp⟩
    · rintro (⟨s, (hs' | rfl | hs'), hk, hp⟩ | rfl)
      · exact ⟨s, Or.inl hs', hk, hp⟩
      · rcases hp with rfl | rfl
        · exact ⟨l₁, Or.inr (Or.inl rfl), Or.inr (isLine_of_cls hs.line₁), Or.inl hs.a₁.symm⟩
        · exact ⟨l₂, Or.inr (Or.inr (Or.inl rfl)), Or.inr (isLine_of_cls hs.line₂), Or.inr hs.b₂.symm⟩
      · exact ⟨s, Or.inr (Or.inr (Or.inr hs')), hk, hp⟩
      · exact ⟨l₁, Or.inr (Or.inl rfl), Or.inr (isLine_of_cls hs.line₁), Or.inr hs.c₁.symm⟩
  have hwf' : NamesOK (pre ++ l₁ :: l₂ :: post) := by
    intro ps hps qs hqs hid
    rw [hN'] at hps hqs
    have := hwf ps hps qs hqs hid
    rw [hW] at this
    rw [hW']
    exact joined_split_bwd this
  have hne : ∀ p ∈ termPts (pre ++ l :: post), p ≠ c := fun p hp h => hfresh (h ▸ hp)
  obtain ⟨ρ, lab, h1, h2, h3⟩ := labelOf_transport hord hord' (pre ++ l :: post) (pre ++ l₁ :: l₂ :: post)
    hwf hwf' id (termPts (pre ++ l :: post))
    (fun p hp => allNodes_sub_termPts hp)
    (by
      intro p hp
      rw [id, hA]
      exact ⟨fun h => h.resolve_right (hne p hp), Or.inl⟩)
    (by
      intro p hp q hq
      rw [id, id, hW, hW']
      rw [hW] at hF
      exact joined_split_iff hF (hne p (allNodes_sub_termPts hp)) (hne q (allNodes_sub_termPts hq)))
  refine ⟨ρ, lab, h1, h2, h3, ?_⟩
  apply circuitTranslator_of_mapM
  -- the symbols before and after the wire translate alike; the wires give no component
  have hpre := mapM_congr_emap (translateSym π (labelOf ord (pre ++ l :: post)))
    (translateSym π (labelOf ord' (pre ++ l₁ :: l₂ :: post))) (Option.map (renameComp ρ)) pre (by
      intro s hs'
      refine translateSym_transport π _ _ ρ (SameShell.refl s) ?_ ?_
      · exact h3 _ (mem_termPts.mpr ⟨s, by simp [hs'], Or.inl rfl⟩)
      · exact h3 _ (mem_termPts.mpr ⟨s, by simp [hs'], Or.inr rfl⟩))
  have hpost := mapM_congr_emap (translateSym π (labelOf ord (pre ++ l :: post)))
    (translateSym π (labelOf ord' (pre ++ l₁ :: l₂ :: post))) (Option.map (renameComp ρ)) post (by
      intro s hs'
      refine translateSym_transport π _ _ ρ (SameShell.refl s) ?_ ?_
      · exact h3 _ (mem_termPts.mpr ⟨s, by simp [hs'], Or.inl rfl⟩)
      · exact h3 _ (mem_termPts.mpr ⟨s, by simp [hs'], Or.inr rfl⟩))
  have hl1 : l.n1 ∈ allNodes (pre ++ l :: post) :=
    mem_allNodes_iff.mpr ⟨l, by simp, Or.inr (isLine_of_cls hs.line), Or.inl rfl⟩
  have hl2 : l.n2 ∈ allNodes (pre ++ l :: post) :=
    mem_allNodes_iff.mpr ⟨l, by simp, Or.inr (isLine_of_cls hs.line), Or.inr rfl⟩
  have tl : translateSym π (labelOf ord (pre ++ l :: post)) l = .ok none :=
    translateSym_line π _ hs.line (h1 _ hl1) (h1 _ hl2)
  obtain ⟨lab', k1', _, _⟩ := labelOf_spec hord' _ hwf'
  have tl1 : translateSym π (labelOf ord' (pre ++ l₁ :: l₂ :: post)) l₁ = .ok none :=
    translateSym_line π _ hs.line₁ (k1' _ ((hA _).mpr (Or.inl (hs.a₁ ▸ hl1)))) (k1' _ ((hA _).mpr (Or.inr hs.c₁)))
  have tl2 : translateSym π (labelOf ord' (pre ++ l₁ :: l₂ :: post)) l₂ = .ok none :=
    translateSym_line π _ hs.line₂ (k1' _ ((hA _).mpr (Or.inr hs.c₂))) (k1' _ ((hA _).mpr (Or.inl (hs.b₂ ▸ hl2))))
  rw [mapM_append', mapM_append', mapM_cons', mapM_cons', mapM_cons', hpre, hpost, tl, tl1, tl2]
  cases pre.mapM (translateSym π (labelOf ord (pre ++ l :: post))) with
  | error e => rfl
  | ok cs₁ =>
    simp only [emap_ok]
    cases post.mapM (translateSym π (labelOf ord (pre ++ l :: post))) with
    | error e => rfl
    | ok cs₂ =>
      simp only [emap_ok]
      congr 1
      simp only [List.filterMap_append, List.filterMap_cons, id, List.map_append]
      exact congrArg₂ (· ++ ·) (filterMap_id_map ρ cs₁) (filterMap_id_map ρ cs₂)

/-! ### instance 3: the symbols listed in another order -/

theorem mapM_perm_ok {α β : Type} (F : α → Except Err β) {l l' : List α} (h : l.Perm l') :
    ∀ {r : List β}, l.mapM F = .ok r → ∃ r', l'.mapM F = .ok r' ∧ r.Perm r' := by
  induction h with
  | nil => intro r hr; exact ⟨r, hr, List.Perm.refl _⟩
  | cons a _ ih =>
    intro r hr
    rw [mapM_cons'] at hr ⊢
    cases ha : F a with
    | error e => rw [ha] at hr; cases hr
    | ok b =>
      rw [ha] at hr
      simp only at hr ⊢
      rename_i l₁ l₂ _
      cases hl : l₁.mapM F with
      | error e => rw [hl] at hr; cases hr
      | ok bs =>
        rw [hl] at hr
        obtain ⟨bs', hbs', hp⟩ := ih hl
        rw [hbs']
        cases hr
        exact ⟨b :: bs', rfl, hp.cons b⟩
  | swap a a' l =>
    intro r hr
    rw [mapM_cons', mapM_cons'] at hr ⊢
    cases ha : F a with
    | error e => rw [ha] at hr; cases hf : F a' <;> rw [hf] at hr <;> cases hr
    | ok b =>
      cases ha' : F a' with
      | error e => rw [ha'] at hr; cases hr
      | ok b' =>
        rw [ha, ha'] at hr
        simp only at hr ⊢
        cases hl : l.mapM F with
        | error e => rw [hl] at hr; cases hr
        | ok bs =>
          rw [hl] at hr
          cases hr
          exact ⟨b :: b' :: bs, rfl, List.Perm.swap b b' bs⟩
  | trans _ _ ih₁ ih₂ =>
    intro r hr
    obtain ⟨r₁, h₁, p₁⟩ := ih₁ hr
    obtain ⟨r₂, h₂, p₂⟩ := ih₂ h₁
    exact ⟨r₂, h₂, p₁.trans p₂⟩

theorem toSet_length_perm {l l' : List String} (h : l.Perm l') : (toSet l).length = (toSet l').length :=
  List.Perm.length_eq ((List.perm_ext_iff_of_nodup (nodup_toSet l) (nodup_toSet l')).mpr fun a => by
    rw [mem_toSet, mem_toSet]; exact h.mem_iff)

theorem finishCircuit_ok {d : String} {gs : List String} {cs : List Component} {C : Circuit}
    (h : finishCircuit d gs cs = .ok C) :
    C.components = cs ∧ (toSet (cs.map (·.id))).length = cs.length ∧
      ((gs = [] ∧ C.groundNode = d) ∨ ∃ g, gs = [g] ∧ C.groundNode = g) := by
  unfold finishCircuit at h
  rcases gs with _ | ⟨g, _ | ⟨g', t⟩⟩
  · simp only at h
    by_cases hid : (toSet (cs.map (·.id))).length ≠ cs.length
    · rw [if_pos hid] at h; cases h
    · rw [if_neg hid] at h; cases h
      exact ⟨rfl, not_not.mp hid, Or.inl ⟨rfl, rfl⟩⟩
  · simp only at h
    by_cases hid : (toSet (cs.map (·.id))).length ≠ cs.length
    · rw [if_pos hid] at h; cases h
    · rw [if_neg hid] at h; cases h
      exact ⟨rfl, not_not.mp hid, Or.inr ⟨g, rfl, rfl⟩⟩
  · cases h

theorem finishCircuit_nil {d : String} {cs : List Component}
    (hid : (toSet (cs.map (·.id))).length = cs.length) : finishCircuit d [] cs = .ok ⟨cs, d⟩ := by
  unfold finishCircuit
  simp only
  rw [if_neg (not_not.mpr hid)]; rfl

theorem finishCircuit_single {d g : String} {cs : List Component}
    (hid : (toSet (cs.map (·.id))).length = cs.length) : finishCircuit d [g] cs = .ok ⟨cs, g⟩ := by
  unfold finishCircuit
  simp only
  rw [if_neg (not_not.mpr hid)]; rfl

theorem groundsOf_perm {cs cs' : List Component} (h : cs.Perm cs') : (groundsOf cs).Perm (groundsOf cs') :=
  (h.filter _).map _

/-- `Circuit.__post_init__` on a permuted component list: accepted iff the original is; same
components in the new order; the same reference node **when there is a ground component**
(otherwise the reference node is the first terminal of the first component, which depends on
the order) -/
theorem mkCircuit_perm {cs cs' : List Component} {C : Circuit} (h : cs.Perm cs') (hC : mkCircuit cs = .ok C) :
    ∃ C', mkCircuit cs' = .ok C' ∧ C'.components = cs' ∧ C.components = cs ∧
      ((∃ k ∈ cs, k.type = "ground") → C'.groundNode = C.groundNode) := by
  cases cs with
  | nil =>
    have : cs' = [] := List.Perm.eq_nil (h.symm)
    subst this
    cases hC
    exact ⟨⟨[], ""⟩, rfl, rfl, rfl, fun _ => rfl⟩
  | cons c0 rest =>
    cases cs' with
    | nil => exact absurd (List.Perm.eq_nil h) (by simp)
    | cons c0' rest' =>
      rw [mkCircuit_cons] at hC ⊢
      obtain ⟨hc, hid, hg⟩ := finishCircuit_ok hC
      have hid' : (toSet ((c0' :: rest').map (·.id))).length = (c0' :: rest').length := by
        rw [← toSet_length_perm (h.map _), hid]; exact h.length_eq
      have hgp := groundsOf_perm h
      rcases hg with ⟨hg, hgn⟩ | ⟨g, hg, hgn⟩
      · have hg' : groundsOf (c0' :: rest') = [] := by rw [hg] at hgp; exact List.Perm.eq_nil hgp.symm
        rw [hg']
        refine ⟨_, finishCircuit_nil hid', rfl, hc, ?_⟩
        rintro ⟨k, hk, hkt⟩
        exfalso
        have : k.nodes.headD "" ∈ groundsOf (c0 :: rest) := by
          unfold groundsOf
          exact List.mem_map.mpr ⟨k, List.mem_filter.mpr ⟨hk, by simp [hkt]⟩, rfl⟩
        rw [hg] at this; cases this
      · have hg' : groundsOf (c0' :: rest') = [g] := by
          rw [hg] at hgp; exact List.perm_singleton.mp hgp.symm
        rw [hg']
        refine ⟨_, finishCircuit_single hid', rfl, hc, ?_⟩
        intro _
        rw [hgn]

/-- **permuted drawing.**  See `CC.C13_perm`. -/
theorem circuitTranslator_perm (π : Rat) {ord ord' : SetOrd Pt} (hord : ord.Valid) (hord' : ord'.Valid)
    (syms syms' : List Sym) (hp : syms.Perm syms') (hwf : NamesOK syms) :
    ∃ (ρ : String → String) (lab : Pt → String),
      (∀ p ∈ allNodes syms, labelOf ord syms p = .ok (lab p)) ∧
      (∀ a ∈ (allNodes syms).map lab, ∀ b ∈ (allNodes syms).map lab, ρ a = ρ b → a = b) ∧
      (∀ p ∈ termPts syms, labelOf ord' syms' p = emap ρ (labelOf ord syms p)) ∧
      (∀ C, circuitTranslator π ord syms = .ok C →
        ∃ C', circuitTranslator π ord' syms' = .ok C' ∧
          C'.components.Perm (C.components.map (renameComp ρ)) ∧
          ((∃ k ∈ C.components, k.type = "ground") → C'.groundNode = ρ C.groundNode)) := by
  have hA : ∀ p, p ∈ allNodes syms' ↔ p ∈ allNodes syms := by
    intro p
    simp only [mem_allNodes_iff]
    constructor
    · rintro ⟨s, hs, h⟩; exact ⟨s, hp.mem_iff.mpr hs, h⟩
    · rintro ⟨s, hs, h⟩; exact ⟨s, hp.mem_iff.mp hs, h⟩
  have hWp : (wiresOf syms).Perm (wiresOf syms') := (hp.filter _).map _
  have hwf' : NamesOK syms' := by
    intro ps hps qs hqs hid
    have hN : (nodeSymsOf syms).Perm (nodeSymsOf syms') := (hp.filter _).map _
    exact (joined_perm hWp).mp (hwf ps (hN.mem_iff.mpr hps) qs (hN.mem_iff.mpr hqs) hid)
  obtain ⟨ρ, lab, h1, h2, h3⟩ := labelOf_transport hord hord' syms syms' hwf hwf' id (termPts syms)
    (fun p hp => allNodes_sub_termPts hp)
    (fun p _ => by rw [id]; exact hA p)
    (fun p _ q _ => by rw [id, id]; exact (joined_perm hWp).symm)
  refine ⟨ρ, lab, h1, h2, h3, ?_⟩
  intro C hC
  rw [circuitTranslator_eq] at hC ⊢
  cases hr : syms.mapM (translateSym π (labelOf ord syms)) with
  | error e => rw [hr] at hC; cases hC
  | ok r =>
    rw [hr] at hC
    simp only at hC
    obtain ⟨r', hr', hrp⟩ := mapM_perm_ok _ hp hr
    have h' := mapM_congr_emap (translateSym π (labelOf ord syms)) (translateSym π (labelOf ord' syms'))
      (Option.map (renameComp ρ)) syms' (by
        intro s hs'
        have hs : s ∈ syms := hp.mem_iff.mpr hs'
        refine translateSym_transport π _ _ ρ (SameShell.refl s) ?_ ?_
        · exact h3 _ (mem_termPts.mpr ⟨s, hs, Or.inl rfl⟩)
        · exact h3 _ (mem_termPts.mpr ⟨s, hs, Or.inr rfl⟩))
    rw [h', hr']
    simp only [emap_ok]
    rw [filterMap_id_map]
    have hren := mkCircuit_rename ρ _ (mapM_translate_nodes_ne_nil hr)
    rw [hC, emap_ok] at hren
    have hperm : ((r.filterMap id).map (renameComp ρ)).Perm ((r'.filterMap id).map (renameComp ρ)) :=
      (hrp.filterMap id).map _
    obtain ⟨C', hC', hc', hc, hg⟩ := mkCircuit_perm hperm hren
    refine ⟨C', hC', ?_, ?_⟩
    · rw [hc']
      have : (renameCircuit ρ C).components = C.components.map (renameComp ρ) := rfl
      rw [← this, hc]
      exact hperm.symm
    · rintro ⟨k, hk, hkt⟩
      have hCc : C.components ≠ [] := fun h => by rw [h] at hk; cases hk
      have hk' : renameComp ρ k ∈ (r.filterMap id).map (renameComp ρ) := by
        rw [← hc]; exact List.mem_map.mpr ⟨k, hk, rfl⟩
      rw [hg ⟨renameComp ρ k, hk', hkt⟩]
      show (if C.components = [] then C.groundNode else ρ C.groundNode) = _
      rw [if_neg hCc]

/-! ### node names of the components are names of terminals -/

theorem nodeTuple_sub {spec : NodeSpec} {rev : Bool} {nodes ns : List String}
    (h : nodeTuple spec rev nodes = .ok ns) : ∀ n ∈ ns, n ∈ nodes := by
  cases spec <;> cases nodes with
  | nil => cases h
  | cons a t =>
    cases t with
    | nil => first | (cases h; done) | (cases h; simp)
    | cons b u => cases rev <;> cases h <;> simp

theorem runCase_nodes_sub {π : Rat} {s : Sym} {nodes : List String} {c : TrCase} {k : Component}
    (h : runCase π s nodes c = .ok (some k)) : ∀ n ∈ k.nodes, n ∈ nodes := by
  rw [runCase_eq] at h
  cases hc : c.ctor with
  | none => rw [hc] at h; cases h
  | some cn =>
    rw [hc] at h
    simp only at h
    cases hn : nodeTuple c.nodes s.rev nodes with
    | error e => rw [hn] at h; cases h
    | ok ns =>
      rw [hn] at h
      simp only at h
      cases ha : argsOf π s c with
      | error e => rw [ha] at h; cases h
      | ok args =>
        rw [ha] at h
        simp only at h
        rw [ctorStep_nodes h]
        exact nodeTuple_sub hn

theorem runCases_nodes_sub {π : Rat} {s : Sym} {nodes : List String} {k : Component} :
    ∀ {cases : List TrCase}, runCases π s nodes cases = .ok (some k) → ∀ n ∈ k.nodes, n ∈ nodes
  | [], h => by cases h
  | c :: cs, h => by
    unfold runCases at h
    cases hg : c.guard with
    | none => rw [hg] at h; exact runCase_nodes_sub h
    | some am =>
      obtain ⟨a, m⟩ := am
      rw [hg] at h
      simp only [bind, Except.bind] at h
      cases hv : s.getAttr a with
      | error e => rw [hv] at h; cases h
      | ok v =>
        rw [hv] at h
        simp only at h
        by_cases hvm : v = .str m
        · simp only [hvm, if_true] at h; exact runCase_nodes_sub h
        · simp only [hvm, if_false] at h; exact runCases_nodes_sub h

theorem compOfSym_nodes_sub {π : Rat} {s : Sym} {nodes : List String} {k : Component}
    (h : compOfSym π s nodes = .ok (some k)) : ∀ n ∈ k.nodes, n ∈ nodes := by
  unfold compOfSym at h
  cases h1 : Gen.translatorMap.lookup s.cls with
  | none => rw [h1] at h; cases h
  | some f =>
    rw [h1] at h
    simp only at h
    cases h2 : Gen.translators.lookup f with
    | none => rw [h2] at h; cases h
    | some cases => rw [h2] at h; exact runCases_nodes_sub h

/-- every node name of a translated component is the name the naming gives to one of the two
terminals of its symbol -/
theorem translateSym_nodes_sub {π : Rat} {L : Pt → Except Err String} {s : Sym} {k : Component}
    (h : translateSym π L s = .ok (some k)) : ∀ n ∈ k.nodes, L s.n1 = .ok n ∨ L s.n2 = .ok n := by
  unfold translateSym at h
  rw [mapM_pair'] at h
  cases hl : Gen.translatorMap.lookup s.cls with
  | none => rw [hl] at h; cases h
  | some f =>
    rw [hl] at h
    simp only at h
    have h := remapKE_ok' h
    cases h1 : L s.n1 with
    | error e => simp [h1, bind, Except.bind] at h
    | ok la =>
      cases h2 : L s.n2 with
      | error e => simp [h1, h2, bind, Except.bind] at h
      | ok lb =>
        simp only [h1, h2, bind, Except.bind, pure, Except.pure] at h
        intro n hn
        have := compOfSym_nodes_sub h n hn
        simp only [List.mem_cons, List.not_mem_nil, or_false] at this
        rcases this with rfl | rfl
        · exact Or.inl rfl
        · exact Or.inr rfl

theorem mapM_translate_nodes_sub {π : Rat} {L : Pt → Except Err String} {syms : List Sym}
    {cs : List (Option Component)} (h : syms.mapM (translateSym π L) = .ok cs) :
    ∀ c ∈ cs.filterMap id, ∀ n ∈ c.nodes, ∃ p, L p = .ok n := by
  induction syms generalizing cs with
  | nil =>
    have : cs = [] := by cases h; rfl
    subst this; intro c hc; cases hc
  | cons s syms ih =>
    rw [mapM_cons'] at h
    cases h1 : translateSym π L s with
    | error e => rw [h1] at h; cases h
    | ok k =>
      rw [h1] at h
      simp only at h
      cases h2 : syms.mapM (translateSym π L) with
      | error e => rw [h2] at h; cases h
      | ok ks =>
        rw [h2] at h
        cases h
        intro c hc
        cases k with
        | none => exact ih h2 c (by simpa using hc)
        | some k0 =>
          simp only [List.filterMap_cons, id] at hc
          rcases List.mem_cons.mp hc with rfl | hc
          · intro n hn
            rcases translateSym_nodes_sub h1 n hn with h | h
            · exact ⟨_, h⟩
            · exact ⟨_, h⟩
          · exact ih h2 c hc

theorem mkCircuit_ok {cs : List Component} {C : Circuit} (h : mkCircuit cs = .ok C) :
    C.components = cs ∧ (cs ≠ [] → ∃ c ∈ cs, C.groundNode = c.nodes.headD "") := by
  cases cs with
  | nil => cases h; exact ⟨rfl, fun h => absurd rfl h⟩
  | cons c0 rest =>
    rw [mkCircuit_cons] at h
    obtain ⟨hc, _, hg⟩ := finishCircuit_ok h
    refine ⟨hc, fun _ => ?_⟩
    rcases hg with ⟨_, hgn⟩ | ⟨g, hg, hgn⟩
    · exact ⟨c0, List.mem_cons_self, hgn⟩
    · have : g ∈ groundsOf (c0 :: rest) := by rw [hg]; simp
      unfold groundsOf at this
      obtain ⟨c, hc', rfl⟩ := List.mem_map.mp this
      exact ⟨c, (List.mem_filter.mp hc').1, hgn⟩

/-- **the names in the circuit are names of parser nodes**: every node name of every component
of the translated circuit, and its reference node, is `lab p` for a parser node `p` -/
theorem circuit_names_sub (π : Rat) {ord : SetOrd Pt} (hord : ord.Valid) (syms : List Sym) (hwf : NamesOK syms)
    (lab : Pt → String) (hlab : ∀ p ∈ allNodes syms, labelOf ord syms p = .ok (lab p))
    {C : Circuit} (hC : circuitTranslator π ord syms = .ok C) :
    (∀ c ∈ C.components, ∀ n ∈ c.nodes, n ∈ (allNodes syms).map lab) ∧
      (C.components ≠ [] → C.groundNode ∈ (allNodes syms).map lab) := by
  obtain ⟨lab0, k1, k2, _⟩ := labelOf_spec hord syms hwf
  have hL : ∀ p n, labelOf ord syms p = .ok n → n ∈ (allNodes syms).map lab := by
    intro p n hp
    by_cases hpa : p ∈ allNodes syms
    · rw [hlab p hpa] at hp
      cases hp
      exact List.mem_map.mpr ⟨p, hpa, rfl⟩
    · rw [k2 p hpa] at hp; cases hp
  rw [circuitTranslator_eq] at hC
  cases hr : syms.mapM (translateSym π (labelOf ord syms)) with
  | error e => rw [hr] at hC; cases hC
  | ok r =>
    rw [hr] at hC
    simp only at hC
    obtain ⟨hc, hg⟩ := mkCircuit_ok hC
    have hsub := mapM_translate_nodes_sub hr
    have hne := mapM_translate_nodes_ne_nil hr
    rw [hc]
    refine ⟨?_, ?_⟩
    · intro c hc' n hn
      obtain ⟨p, hp⟩ := hsub c hc' n hn
      exact hL p n hp
    · intro hcs
      obtain ⟨c, hc', hgn⟩ := hg hcs
      rw [hgn]
      have : c.nodes.headD "" ∈ c.nodes := by
        cases hcn : c.nodes with
        | nil => exact absurd hcn (hne c hc')
        | cons a t => simp
      obtain ⟨p, hp⟩ := hsub c hc' _ this
      exact hL p _ hp

/-! ### coordinate maps: translation, quarter turns, change of unit -/

theorem Pt.ext' {p q : Pt} (hx : p.x = q.x) (hy : p.y = q.y) : p = q := by
  cases p; cases q; simp only [Pt.mk.injEq]; exact ⟨hx, hy⟩

/-- translation by the vector `(a, b)` -/
def Pt.shift (a b : Rat) (p : Pt) : Pt := ⟨p.x + a, p.y + b⟩
/-- rotation by a quarter turn about the origin -/
def Pt.quarter (p : Pt) : Pt := ⟨-p.y, p.x⟩
/-- change of the drawing unit by the factor `k` -/
def Pt.scale (k : Rat) (p : Pt) : Pt := ⟨k * p.x, k * p.y⟩

theorem Pt.shift_injective (a b : Rat) : Function.Injective (Pt.shift a b) := by
  intro p q h
  unfold Pt.shift at h
  simp only [Pt.mk.injEq] at h
  exact Pt.ext' (add_right_cancel h.1) (add_right_cancel h.2)

theorem Pt.quarter_injective : Function.Injective Pt.quarter := by
  intro p q h
  unfold Pt.quarter at h
  simp only [Pt.mk.injEq] at h
  exact Pt.ext' h.2 (neg_injective h.1)

/-- any number of quarter turns -/
theorem Pt.quarter_iterate_injective (n : Nat) : Function.Injective (Pt.quarter^[n]) :=
  Pt.quarter_injective.iterate n

theorem Pt.scale_injective {k : Rat} (hk : k ≠ 0) : Function.Injective (Pt.scale k) := by
  intro p q h
  unfold Pt.scale at h
  simp only [Pt.mk.injEq] at h
  exact Pt.ext' (mul_left_cancel₀ hk h.1) (mul_left_cancel₀ hk h.2)

/-- integer translation, as the instance asked for in the property text -/
theorem Pt.shift_int_injective (a b : Int) : Function.Injective (Pt.shift (a : Rat) (b : Rat)) :=
  Pt.shift_injective _ _

/-- non-zero integer scaling -/
theorem Pt.scale_int_injective {k : Int} (hk : k ≠ 0) : Function.Injective (Pt.scale (k : Rat)) :=
  Pt.scale_injective (by exact_mod_cast hk)

theorem injOnTerms_of_injective {g : Pt → Pt} (h : Function.Injective g) (syms : List Sym) : InjOnTerms g syms :=
  fun _ _ _ _ e => h e

/-- the drawing with every raw anchor sent through `t` -/
def moveRaw (t : Pt → Pt) (s : Sym) : Sym := { s with start := t s.start, stop := t s.stop }

/-- the link between a transformation `t` of the raw anchors and a map `g` of the rounded
terminals: *rounding after `t` is `g` after rounding*, on the anchors of the drawing.  This is
the fact about float geometry that the theorems assume (it holds with `g = t` whenever `t` maps
the rounding grid to itself exactly, e.g. for the identity). -/
def RoundCommutes (t g : Pt → Pt) (syms : List Sym) : Prop :=
  ∀ s ∈ syms, roundPt (t s.start) = g (roundPt s.start) ∧ roundPt (t s.stop) = g (roundPt s.stop)

theorem mappedBy_moveRaw {t g : Pt → Pt} {syms : List Sym} (h : RoundCommutes t g syms) :
    MappedBy g syms (syms.map (moveRaw t)) := by
  unfold MappedBy
  induction syms with
  | nil => exact .nil
  | cons s l ih =>
    refine .cons ⟨⟨rfl, rfl, rfl, rfl, rfl⟩, (h s List.mem_cons_self).1, (h s List.mem_cons_self).2⟩
      (ih (fun s' hs' => h s' (List.mem_cons_of_mem _ hs')))

/-! ### reading the translated circuit as a network -/

/-- the network a translated circuit stands for, under a reading `elem` of one component as an
electrical record (type string, element).  The reading is applied to the component *with its
node list erased*, so it cannot depend on node names; components without exactly two terminals
(the ground symbol's) and components the reading rejects contribute no branch.  `elem` is a
parameter: the theorems hold for every such reading (the library's own is the transformer table
of group Circuit). -/
def netOf {K : Type} (elem : Component → Option (String × Elem K)) (C : Circuit) : Net String K :=
  { branches := C.components.filterMap fun c =>
      match c.nodes, elem { c with nodes := [] } with
      | [a, b], some te => some { n1 := a, n2 := b, id := c.id, ty := te.1, e := te.2 }
      | _, _ => none,
    zero := C.groundNode }

end CC.Draw
