/-
  CC.Proofs.CircuitLemmas — helper lemmas of group Circuit (C07, C02, C19):
  value-dictionary lookups, `List.mapM` in `Except`, `dedupL`, `absQ` / `dist`,
  nearest-integer facts about `roundHalfEven`.
-/
import Mathlib.Data.List.Forall2
import CC.Model.Circuit
import CC.Spec.Phasor
namespace CC

/-! ### value dictionaries -/

theorem float_of_lookup {c : Component} {k : String} {q : Rat} (h : c.value.lookup k = some (.num q)) :
    c.float k = .ok q := by
  simp [Component.float, Component.get?, h]

theorem num?_of_lookup {c : Component} {k : String} {q : Rat} (h : c.value.lookup k = some (.num q)) :
    Spec.num? c k = some q := by
  simp [Spec.num?, h]

theorem str?_of_lookup {c : Component} {k : String} {s : String} (h : c.value.lookup k = some (.str s)) :
    Spec.str? c k = some s := by
  simp [Spec.str?, h]

theorem lookup_of_num? {c : Component} {k : String} {q : Rat} (h : Spec.num? c k = some q) :
    c.value.lookup k = some (.num q) := by
  unfold Spec.num? at h
  split at h <;> simp_all

theorem lookup_of_str? {c : Component} {k : String} {s : String} (h : Spec.str? c k = some s) :
    c.value.lookup k = some (.str s) := by
  unfold Spec.str? at h
  split at h <;> simp_all

/-! ### `List.mapM` in `Except` -/

theorem mapM_ok_forall₂ {α β ε : Type} (f : α → Except ε β) :
    ∀ (l : List α) (bs : List β), l.mapM f = .ok bs → List.Forall₂ (fun a b => f a = .ok b) l bs := by
  intro l
  induction l with
  | nil => intro bs h; simp [pure, Except.pure] at h; subst h; exact .nil
  | cons a l ih =>
    intro bs h
    rw [List.mapM_cons] at h
    cases hfa : f a with
    | error e => simp [hfa, bind, Except.bind] at h
    | ok b =>
      cases hl : l.mapM f with
      | error e => simp [hfa, hl, bind, Except.bind] at h
      | ok bs' =>
        simp [hfa, hl, bind, Except.bind, pure, Except.pure] at h
        subst h
        exact .cons hfa (ih bs' hl)

/-- `mapM` fails as soon as one element fails, wherever it is in the list -/
theorem mapM_error_of_mem {α β ε : Type} (f : α → Except ε β) (l : List α) (a : α) (ha : a ∈ l)
    (e : ε) (hf : f a = .error e) : ∃ e', l.mapM f = .error e' := by
  induction l with
  | nil => cases ha
  | cons x l ih =>
    rw [List.mapM_cons]
    cases hfx : f x with
    | error e' => exact ⟨e', by simp [bind, Except.bind]⟩
    | ok b =>
      have ha' : a ∈ l := by
        rcases List.mem_cons.mp ha with h | h
        · subst h; rw [hf] at hfx; cases hfx
        · exact h
      obtain ⟨e', he'⟩ := ih ha'
      exact ⟨e', by simp [he', bind, Except.bind]⟩

/-- the error of a failing `mapM` is the error of the first failing element -/
theorem mapM_error_first {α β ε : Type} (f : α → Except ε β) (pre : List α) (a : α) (post : List α)
    (e : ε) (hpre : ∀ x ∈ pre, ∃ b, f x = .ok b) (hf : f a = .error e) :
    (pre ++ a :: post).mapM f = .error e := by
  induction pre with
  | nil => simp [List.mapM_cons, hf, bind, Except.bind]
  | cons x pre ih =>
    obtain ⟨b, hb⟩ := hpre x (List.mem_cons_self ..)
    have := ih (fun y hy => hpre y (List.mem_cons_of_mem _ hy))
    simp [List.mapM_cons, hb, this, bind, Except.bind]

theorem mapM_ok_of_forall {α β ε : Type} (f : α → Except ε β) (l : List α)
    (h : ∀ x ∈ l, ∃ b, f x = .ok b) : ∃ bs, l.mapM f = .ok bs := by
  induction l with
  | nil => exact ⟨[], rfl⟩
  | cons x l ih =>
    obtain ⟨b, hb⟩ := h x (List.mem_cons_self ..)
    obtain ⟨bs, hbs⟩ := ih (fun y hy => h y (List.mem_cons_of_mem _ hy))
    exact ⟨b :: bs, by simp [List.mapM_cons, hb, hbs, bind, Except.bind, pure, Except.pure]⟩

theorem forall₂_map_eq {α β γ : Type} {R : α → β → Prop} {g : β → γ} {h : α → γ}
    (hR : ∀ a b, R a b → g b = h a) : ∀ {l : List α} {bs : List β}, List.Forall₂ R l bs → bs.map g = l.map h := by
  intro l bs hf
  induction hf with
  | nil => rfl
  | cons hab _ ih => simp [hR _ _ hab, ih]

/-! ### `forM` in `Except` -/

theorem forM_ok_of_forall {α ε : Type} (f : α → Except ε Unit) (l : List α)
    (h : ∀ x ∈ l, f x = .ok ()) : forM l f = .ok () := by
  induction l with
  | nil => rfl
  | cons x l ih =>
    simp [List.forM_cons, h x (List.mem_cons_self ..), ih (fun y hy => h y (List.mem_cons_of_mem _ hy)),
      bind, Except.bind]

theorem forM_error_of_mem {α ε : Type} (f : α → Except ε Unit) (l : List α) (a : α) (ha : a ∈ l)
    (e : ε) (hf : f a = .error e) : ∃ e', forM l f = .error e' := by
  induction l with
  | nil => cases ha
  | cons x l ih =>
    cases hfx : f x with
    | error e' => exact ⟨e', by simp [List.forM_cons, hfx, bind, Except.bind]⟩
    | ok u =>
      have ha' : a ∈ l := by
        rcases List.mem_cons.mp ha with h | h
        · subst h; rw [hf] at hfx; cases hfx
        · exact h
      obtain ⟨e', he'⟩ := ih ha'
      exact ⟨e', by simp [List.forM_cons, hfx, he', bind, Except.bind]⟩

/-! ### `dedupL` -/

theorem circ_dedupL_length_le {α : Type} [DecidableEq α] (l : List α) : (dedupL l).length ≤ l.length := by
  induction l with
  | nil => simp [dedupL]
  | cons a l ih =>
    unfold dedupL
    split
    · exact Nat.le_succ_of_le ih
    · simpa using ih

/-- `len(set(ids)) == len(ids)` exactly when the ids are pairwise distinct -/
theorem circ_dedupL_length_eq_iff {α : Type} [DecidableEq α] (l : List α) :
    (dedupL l).length = l.length ↔ l.Nodup := by
  induction l with
  | nil => simp [dedupL]
  | cons a l ih =>
    unfold dedupL
    split
    · rename_i hmem
      have := circ_dedupL_length_le l
      constructor
      · intro h; simp at h; omega
      · intro h; exact absurd hmem (List.nodup_cons.mp h).1
    · rename_i hmem
      simp [List.nodup_cons, hmem, ih]

/-! ### `absQ`, `dist` -/

theorem absQ_sub_eq_dist (a b : Rat) : absQ (a - b) = Spec.dist a b := by
  unfold absQ Spec.dist
  split <;> split <;> grind

theorem absQ_nonneg (a : Rat) : 0 ≤ absQ a := by
  unfold absQ; split <;> grind

theorem absQ_zero : absQ 0 = 0 := by decide

theorem dist_self (a : Rat) : Spec.dist a a = 0 := by
  unfold Spec.dist; split <;> grind

end CC
