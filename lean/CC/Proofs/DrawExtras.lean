/-
  CC.Proofs.DrawExtras — save ∘ load of drawing elements that carry extra, opaque keywords
  (placement parameters `d`, `l`, `at`, `label`, … — keys the symbol class does not read).

  * `Merge a ex l`: the keyword list `l` is an interleaving of `a` and `ex` (both in their own
    order).  Every dictionary operation of `dictify_element` / `undictify_element`
    (`userParams`, `serializeVal`, `dictSet`, `dictUpdate`, `combineToComplex`) maps an
    interleaving of `a` and `ex` to an interleaving of *its result on `a`* and the extras —
    provided it touches no key of `ex`; the only thing that happens to the extras themselves is
    `nextEx`: `None` values are dropped, values without serialiser (complex) become `None`.
  * `ExtOf ex x y`: the element `x` is the element `y` with extras `ex` merged in.
  * `saveLoad_ext` / `cycles_ext`: `saveLoad` / `cycles` of a drawing with extras succeed exactly
    when they do on the drawing without, raise the same error otherwise, and the results are
    again related (extras `nextEx ex`).
-/
import CC.Proofs.DrawDeclarative2
import CC.Proofs.DrawLift
set_option linter.unusedSectionVars false
set_option linter.unusedSimpArgs false
set_option linter.unusedVariables false
namespace CC.Draw

/-! ### interleavings of keyword lists -/

/-- `l` is an interleaving of `a` and `ex` -/
inductive Merge : List (String × Val) → List (String × Val) → List (String × Val) → Prop
  | nil : Merge [] [] []
  | left (x : String × Val) {a ex l : List (String × Val)} : Merge a ex l → Merge (x :: a) ex (x :: l)
  | right (x : String × Val) {a ex l : List (String × Val)} : Merge a ex l → Merge a (x :: ex) (x :: l)

/-- `k` is no key of `ex` -/
def NoKey (k : String) (ex : List (String × Val)) : Prop := ∀ kv ∈ ex, kv.1 ≠ k

theorem NoKey.tail {k : String} {x : String × Val} {ex : List (String × Val)} (h : NoKey k (x :: ex)) : NoKey k ex :=
  fun kv hkv => h kv (List.mem_cons_of_mem _ hkv)

theorem NoKey.filter {k : String} {ex : List (String × Val)} (h : NoKey k ex) (p : String × Val → Bool) :
    NoKey k (ex.filter p) := fun kv hkv => h kv (List.mem_filter.mp hkv).1

theorem Merge.append (a ex : List (String × Val)) : Merge a ex (a ++ ex) := by
  induction a with
  | nil =>
    induction ex with
    | nil => exact .nil
    | cons b bs ih => exact .right b ih
  | cons x xs ih => exact .left x ih

theorem Merge.nil_ex {a l : List (String × Val)} (h : Merge a [] l) : l = a := by
  generalize he : ([] : List (String × Val)) = ex at h
  induction h with
  | nil => rfl
  | left x _ ih => rw [ih he]
  | right x _ _ => cases he

theorem Merge.lookup {a ex l : List (String × Val)} (h : Merge a ex l) (k : String) (hk : NoKey k ex) :
    l.lookup k = a.lookup k := by
  induction h with
  | nil => rfl
  | left x _ ih =>
    obtain ⟨k₀, v₀⟩ := x
    rw [List.lookup_cons, List.lookup_cons, ih hk]
  | right x _ ih =>
    obtain ⟨k₀, v₀⟩ := x
    have hne : k₀ ≠ k := hk (k₀, v₀) List.mem_cons_self
    have hb : (k == k₀) = false := by simp [Ne.symm hne]
    rw [List.lookup_cons, hb]
    exact ih hk.tail

theorem Merge.set {a ex l : List (String × Val)} (h : Merge a ex l) (k : String) (v : Val) (hk : NoKey k ex) :
    Merge (dictSet k v a) ex (dictSet k v l) := by
  induction h with
  | nil => exact .left (k, v) .nil
  | @left x a ex l h ih =>
    obtain ⟨k₀, v₀⟩ := x
    by_cases h0 : k₀ = k
    · subst h0
      simp only [dictSet, ↓reduceIte]
      exact .left _ h
    · simp only [dictSet, h0, ↓reduceIte]
      exact .left _ (ih hk)
  | @right x a ex l h ih =>
    obtain ⟨k₀, v₀⟩ := x
    have hne : k₀ ≠ k := hk (k₀, v₀) List.mem_cons_self
    simp only [dictSet, hne, ↓reduceIte]
    exact .right _ (ih hk.tail)

theorem Merge.filter {a ex l : List (String × Val)} (h : Merge a ex l) (p : String × Val → Bool) :
    Merge (a.filter p) (ex.filter p) (l.filter p) := by
  induction h with
  | nil => exact .nil
  | left x _ ih =>
    simp only [List.filter_cons]
    split
    · exact .left x ih
    · exact ih
  | right x _ ih =>
    simp only [List.filter_cons]
    split
    · exact .right x ih
    · exact ih

theorem Merge.map {a ex l : List (String × Val)} (h : Merge a ex l) (f : String × Val → String × Val) :
    Merge (a.map f) (ex.map f) (l.map f) := by
  induction h with
  | nil => exact .nil
  | left x _ ih => exact .left _ ih
  | right x _ ih => exact .right _ ih

theorem Merge.update {ex : List (String × Val)} (m : List (String × Val)) (hm : ∀ kv ∈ m, NoKey kv.1 ex) :
    ∀ a l, Merge a ex l → Merge (dictUpdate a m) ex (dictUpdate l m) := by
  induction m with
  | nil => intro a l h; exact h
  | cons kv m ih =>
    intro a l h
    unfold dictUpdate
    simp only [List.foldl_cons]
    exact ih (fun kv' h' => hm kv' (List.mem_cons_of_mem _ h')) _ _ (h.set kv.1 kv.2 (hm kv List.mem_cons_self))

theorem filter_key_self {k : String} {ex : List (String × Val)} (h : NoKey k ex) :
    ex.filter (fun kv => decide (kv.1 ≠ k)) = ex :=
  List.filter_eq_self.mpr (fun kv hkv => by simpa using h kv hkv)

/-! ### what one save / load cycle does to the extras -/

/-- the extras after one cycle: `None` values are not user parameters; values without a
serialiser (complex numbers) are stored as `None` -/
def nextEx (ex : List (String × Val)) : List (String × Val) :=
  (ex.filter (fun kv => decide (kv.2 ≠ .none))).map fun kv => (kv.1, serializeVal kv.2)

theorem NoKey.next {k : String} {ex : List (String × Val)} (h : NoKey k ex) : NoKey k (nextEx ex) := by
  intro kv hkv
  unfold nextEx at hkv
  obtain ⟨kv', hm, rfl⟩ := List.mem_map.mp hkv
  exact h kv' (List.mem_filter.mp hm).1

/-- values that a cycle stores and returns unchanged: everything but `None` and numbers with an imaginary part -/
def valKept : Val → Bool
  | .none => false
  | .num z => decide (z.im = 0)
  | _ => true

theorem valKept_iff (v : Val) : valKept v = true ↔ (v ≠ .none ∧ serializeVal v = v) := by
  cases v with
  | num z =>
    by_cases hz : z.im = 0 <;> simp [valKept, serializeVal, hz]
  | _ => simp [valKept, serializeVal]

theorem nextEx_self {ex : List (String × Val)} (h : ∀ kv ∈ ex, valKept kv.2 = true) : nextEx ex = ex := by
  induction ex with
  | nil => rfl
  | cons kv ex ih =>
    have h1 := (valKept_iff kv.2).mp (h kv List.mem_cons_self)
    have h2 := ih (fun kv' h' => h kv' (List.mem_cons_of_mem _ h'))
    unfold nextEx at h2 ⊢
    simp only [List.filter_cons, h1.1, ne_eq, not_false_eq_true, decide_true, ↓reduceIte, List.map_cons, h1.2, h2]

theorem Merge.userParams {a ex l : List (String × Val)} (h : Merge a ex l) (c : ElemClass) (hr : NoKey "reverse" ex) :
    Merge (userParams c a) (ex.filter (fun kv => decide (kv.2 ≠ .none))) (userParams c l) := by
  have hl : lookupD l "reverse" (.bool false) = lookupD a "reverse" (.bool false) := by
    unfold lookupD; rw [h.lookup _ hr]
  have hf := h.filter (fun kv => decide (kv.2 ≠ .none))
  unfold CC.Draw.userParams
  simp only [hl]
  split
  · exact hf.set _ _ (hr.filter _)
  · split
    · exact hf.set _ _ (hr.filter _)
    · exact hf

/-! ### keys the extras must avoid -/

/-- keys of the value dictionaries of the component constructors (they come back as keywords on load) -/
def ctorValueKeys : List String := Gen.ctors.flatMap fun k => k.values.map (·.1)

/-- keys `combine_to_complex` reads, removes and writes -/
def combineKeys : List String :=
  Gen.loaderTypes.flatMap fun lt => match lt.combine with | some (a, b, z) => [a, b, z] | none => []

/-- keys `undictify_element` sets itself -/
def reservedKeys : List String := ["name", "reverse", "deg", "sin"] ++ ctorValueKeys ++ combineKeys

/-- no extra has a key that the class reads or that the loader writes -/
def KeysOK (c : ElemClass) (ex : List (String × Val)) : Prop := ∀ k ∈ usedKeys c ++ reservedKeys, NoKey k ex

/-- the same, decidable -/
def keysOK (c : ElemClass) (ex : List (String × Val)) : Bool := ex.all fun kv => !(usedKeys c ++ reservedKeys).contains kv.1

theorem keysOK_iff (c : ElemClass) (ex : List (String × Val)) : keysOK c ex = true ↔ KeysOK c ex := by
  unfold keysOK KeysOK NoKey
  simp only [List.all_eq_true, Bool.not_eq_true', List.contains_eq_mem, decide_eq_false_iff_not]
  constructor
  · intro h k hk kv hkv heq
    exact h kv hkv (heq ▸ hk)
  · intro h kv hkv hm
    exact h kv.1 hm kv hkv rfl

theorem KeysOK.next {c : ElemClass} {ex : List (String × Val)} (h : KeysOK c ex) : KeysOK c (nextEx ex) :=
  fun k hk => (h k hk).next

theorem KeysOK.used {c : ElemClass} {ex : List (String × Val)} (h : KeysOK c ex) {k : String} (hk : k ∈ usedKeys c) :
    NoKey k ex := h k (List.mem_append_left _ hk)

theorem KeysOK.reserved {c : ElemClass} {ex : List (String × Val)} (h : KeysOK c ex) {k : String} (hk : k ∈ reservedKeys) :
    NoKey k ex := h k (List.mem_append_right _ hk)

/-! ### elements with extras -/

/-- the element `x` is the persistable element `y` with the extras `ex` merged into its keywords -/
structure ExtOf (ex : List (String × Val)) (x y : DElem) : Prop where
  cls : x.cls = y.cls
  start : x.start = y.start
  stop : x.stop = y.stop
  kw : Merge y.kwargs ex x.kwargs
  pers : y.cls ∈ persistableClasses
  keys : ∀ c, classInfo y.cls = some c → KeysOK c ex

/-- the saved element `sx` is the saved element `sy` with the extras `ex` merged into its user parameters -/
structure SExtOf (ex : List (String × Val)) (sx sy : SavedElem) : Prop where
  typ : sx.typ = sy.typ
  name : sx.name = sy.name
  rev : sx.rev = sy.rev
  start : sx.start = sy.start
  stop : sx.stop = sy.stop
  kw : Merge sy.userparams ex sx.userparams
  cls : ∃ n c, n ∈ persistableClasses ∧ classInfo n = some c ∧ sy.typ = c.typ ∧ KeysOK c ex

/-- both fail with the same error, or both succeed with related results -/
def XRel {α β : Type} (R : α → β → Prop) : Except Err α → Except Err β → Prop
  | .ok a, .ok b => R a b
  | .error e, .error f => e = f
  | _, _ => False

theorem XRel.ok_left {α β : Type} {R : α → β → Prop} {x : Except Err α} {y : Except Err β} {a : α}
    (h : XRel R x y) (hx : x = .ok a) : ∃ b, y = .ok b ∧ R a b := by
  subst hx
  cases y with
  | error e => exact h.elim
  | ok b => exact ⟨b, rfl, h⟩

theorem XRel.ok_right {α β : Type} {R : α → β → Prop} {x : Except Err α} {y : Except Err β} {b : β}
    (h : XRel R x y) (hy : y = .ok b) : ∃ a, x = .ok a ∧ R a b := by
  subst hy
  cases x with
  | error e => exact h.elim
  | ok a => exact ⟨a, rfl, h⟩

theorem construct_ext (π : Rat) {ex : List (String × Val)} {x y : DElem} (h : ExtOf ex x y) :
    construct π x.cls x.kwargs = construct π y.cls y.kwargs := by
  rw [h.cls]
  cases hc : classInfo y.cls with
  | none => rw [construct_unknown π _ hc, construct_unknown π _ hc]
  | some c =>
    apply construct_congr π _ c hc
    intro k hk
    exact h.kw.lookup k ((h.keys c hc).used hk)

/-- **extras do not reach the symbol** -/
theorem toSym_ext (π : Rat) {ex : List (String × Val)} {x y : DElem} (h : ExtOf ex x y) :
    x.toSym π = y.toSym π := by
  unfold DElem.toSym
  rw [construct_ext π h, h.cls, h.start, h.stop]

theorem dictify_ext (π : Rat) {ex : List (String × Val)} {x y : DElem} (h : ExtOf ex x y) :
    XRel (SExtOf (nextEx ex)) (dictifyElement π x) (dictifyElement π y) := by
  unfold dictifyElement
  rw [construct_ext π h, h.cls]
  cases construct π y.cls y.kwargs with
  | error e => exact rfl
  | ok o =>
    cases hc : classInfo y.cls with
    | none => exact rfl
    | some c =>
      have hk := h.keys c hc
      have hrev : NoKey "reverse" ex := hk.reserved (by simp [reservedKeys])
      have hm := (h.kw.userParams c hrev).map (fun kv => (kv.1, serializeVal kv.2))
      exact ⟨rfl, rfl, rfl, h.start, h.stop, hm, y.cls, c, h.pers, hc, rfl, hk.next⟩

/-! ### load -/

/-- the keywords of the re-created element before `combine_to_complex` -/
def loadKw (circ : List (String × List (String × Val))) (name : String) (rev : Bool) (up : List (String × Val)) :
    List (String × Val) :=
  let kw := dictSet "name" (.str name) up
  let kw := dictSet "reverse" (.bool rev) kw
  match (circ.reverse).lookup name with
  | some vals =>
    let kw := dictUpdate kw vals
    if Gen.undictifySteps.contains "clear_flags_if_phi" && (vals.lookup "phi").isSome then
      dictSet "sin" (.bool false) (dictSet "deg" (.bool false) kw)
    else kw
  | none => kw

theorem undictifyKwargs_eq (circ : List (String × List (String × Val))) (s : SavedElem) :
    undictifyKwargs circ s =
      (match Gen.loaderTypes.find? (·.typ = s.typ) with
       | none => pure ("Element", loadKw circ s.name s.rev s.userparams)
       | some lt =>
         match lt.combine with
         | none => pure (lt.cls, loadKw circ s.name s.rev s.userparams)
         | some (reK, imK, zK) => do pure (lt.cls, ← combineToComplex reK imK zK (loadKw circ s.name s.rev s.userparams))) := by
  rfl

theorem mem_of_lookup_some {V : Type} (l : List (String × V)) (k : String) (v : V) (h : l.lookup k = some v) : (k, v) ∈ l := by
  induction l with
  | nil => simp at h
  | cons kv l ih =>
    obtain ⟨k₀, v₀⟩ := kv
    rw [List.lookup_cons] at h
    by_cases hk : k = k₀
    · subst hk
      simp at h
      subst h
      exact List.mem_cons_self
    · have hb : (k == k₀) = false := by simp [hk]
      rw [hb] at h
      exact List.mem_cons_of_mem _ (ih h)

/-- the value dictionaries of the circuit section use constructor value keys only -/
def CircOK (circ : List (String × List (String × Val))) : Prop := ∀ e ∈ circ, ∀ kv ∈ e.2, kv.1 ∈ ctorValueKeys

theorem loadKw_merge {circ : List (String × List (String × Val))} (hcirc : CircOK circ) (name : String) (rev : Bool)
    {c : ElemClass} {ex a l : List (String × Val)} (hk : KeysOK c ex) (h : Merge a ex l) :
    Merge (loadKw circ name rev a) ex (loadKw circ name rev l) := by
  have hname : NoKey "name" ex := hk.reserved (by simp [reservedKeys])
  have hrev : NoKey "reverse" ex := hk.reserved (by simp [reservedKeys])
  have hdeg : NoKey "deg" ex := hk.reserved (by simp [reservedKeys])
  have hsin : NoKey "sin" ex := hk.reserved (by simp [reservedKeys])
  have h1 := (h.set "name" (.str name) hname).set "reverse" (.bool rev) hrev
  unfold loadKw
  cases hl : circ.reverse.lookup name with
  | none => exact h1
  | some vals =>
    have hv : ∀ kv ∈ vals, NoKey kv.1 ex := by
      intro kv hkv
      have hm := mem_of_lookup_some _ _ _ hl
      have := hcirc (name, vals) (List.mem_reverse.mp hm) kv hkv
      exact hk.reserved (by
        unfold reservedKeys
        exact List.mem_append_left _ (List.mem_append_right _ this))
    have h2 := Merge.update vals hv _ _ h1
    simp only
    split
    · exact (h2.set "deg" _ hdeg).set "sin" _ hsin
    · exact h2

theorem XRel_bind2 {α β : Type} {R : α → β → Prop} (P Q : Except Err Rat) (F : Rat → Rat → α) (G : Rat → Rat → β)
    (h : ∀ r i, R (F r i) (G r i)) :
    XRel R (do let re ← P; let im ← Q; pure (F re im)) (do let re ← P; let im ← Q; pure (G re im)) := by
  cases P with
  | error e => exact rfl
  | ok re =>
    cases Q with
    | error e => exact rfl
    | ok im => exact h re im

theorem combine_ext {ex a l : List (String × Val)} (h : Merge a ex l) (reK imK zK : String)
    (hre : NoKey reK ex) (him : NoKey imK ex) (hz : NoKey zK ex) :
    XRel (fun l' a' => Merge a' ex l') (combineToComplex reK imK zK l) (combineToComplex reK imK zK a) := by
  have hm' : ∀ v, Merge (dictSet zK v ((a.filter (fun kv => decide (kv.1 ≠ reK))).filter (fun kv => decide (kv.1 ≠ imK))))
      ex (dictSet zK v ((l.filter (fun kv => decide (kv.1 ≠ reK))).filter (fun kv => decide (kv.1 ≠ imK)))) := by
    intro v
    have := (h.filter (fun kv => decide (kv.1 ≠ reK))).filter (fun kv => decide (kv.1 ≠ imK))
    rw [filter_key_self hre, filter_key_self him] at this
    exact this.set zK _ hz
  unfold combineToComplex
  simp only [h.lookup reK hre, h.lookup imK him]
  exact XRel_bind2 (R := fun l' a' => Merge a' ex l') _ _
    (fun re im => dictSet zK (.num ⟨re, im⟩) ((l.filter (fun kv => decide (kv.1 ≠ reK))).filter (fun kv => decide (kv.1 ≠ imK))))
    (fun re im => dictSet zK (.num ⟨re, im⟩) ((a.filter (fun kv => decide (kv.1 ≠ reK))).filter (fun kv => decide (kv.1 ≠ imK))))
    (fun re im => hm' _)

theorem loader_of_persistable :
    ∀ n ∈ persistableClasses,
      (classInfo n).bind (fun c => (Gen.loaderTypes.find? (·.typ = c.typ)).map (·.cls)) = some n := by decide

theorem combine_mem {lt : LoaderType} (hlt : lt ∈ Gen.loaderTypes) {reK imK zK : String} (hc : lt.combine = some (reK, imK, zK)) :
    reK ∈ reservedKeys ∧ imK ∈ reservedKeys ∧ zK ∈ reservedKeys := by
  have : ∀ k ∈ [reK, imK, zK], k ∈ reservedKeys := by
    intro k hk
    unfold reservedKeys combineKeys
    apply List.mem_append_right
    exact List.mem_flatMap.mpr ⟨lt, hlt, by rw [hc]; exact hk⟩
  exact ⟨this _ (by simp), this _ (by simp), this _ (by simp)⟩

theorem undictify_ext {circ : List (String × List (String × Val))} (hcirc : CircOK circ) {ex : List (String × Val)}
    {sx sy : SavedElem} (h : SExtOf ex sx sy) : XRel (ExtOf ex) (undictifyDElem circ sx) (undictifyDElem circ sy) := by
  obtain ⟨n, c, hn, hc, htyp, hk⟩ := h.cls
  have hm := loadKw_merge hcirc sy.name sy.rev hk h.kw
  have hload := loader_of_persistable n hn
  rw [hc] at hload
  simp only [Option.bind_some, Option.map_eq_some_iff] at hload
  obtain ⟨lt, hfind, hcls⟩ := hload
  have hkeys : ∀ c', classInfo lt.cls = some c' → KeysOK c' ex := by
    intro c' hc'
    rw [hcls, hc] at hc'
    cases hc'
    exact hk
  unfold undictifyDElem
  rw [undictifyKwargs_eq, undictifyKwargs_eq, h.typ, h.name, h.rev, h.start, h.stop, htyp, hfind]
  simp only
  cases hcomb : lt.combine with
  | none =>
    exact ⟨rfl, rfl, rfl, hm, hcls ▸ hn, hkeys⟩
  | some t =>
    obtain ⟨reK, imK, zK⟩ := t
    obtain ⟨h1, h2, h3⟩ := combine_mem (List.mem_of_find?_eq_some hfind) hcomb
    have hx := combine_ext hm reK imK zK (hk.reserved h1) (hk.reserved h2) (hk.reserved h3)
    simp only
    generalize combineToComplex reK imK zK (loadKw circ sy.name sy.rev sx.userparams) = X at hx
    generalize combineToComplex reK imK zK (loadKw circ sy.name sy.rev sy.userparams) = Y at hx
    cases X with
    | error e =>
      cases Y with
      | error e' => exact hx
      | ok b => exact hx.elim
    | ok a =>
      cases Y with
      | error e' => exact hx.elim
      | ok b => exact ⟨rfl, rfl, rfl, hx, hcls ▸ hn, hkeys⟩

/-! ### the circuit section -/

theorem mapM_keys {α : Type} (g : String × α → Except Err Val) (l : List (String × α)) (v : List (String × Val))
    (h : l.mapM (fun kv => do pure (kv.1, ← g kv)) = .ok v) : ∀ kv ∈ v, kv.1 ∈ l.map (·.1) := by
  generalize hF : (fun kv : String × α => (do pure (kv.1, ← g kv) : Except Err (String × Val))) = f at h
  obtain ⟨hv, hf⟩ := mapM_ok_map f l v h
  intro kv hkv
  rw [hv] at hkv
  obtain ⟨a, ha, rfl⟩ := List.mem_map.mp hkv
  have := hf a ha
  generalize valOf f a = w at this ⊢
  subst hF
  cases hg : g a with
  | error e => simp [hg, bind, Except.bind] at this
  | ok w' =>
    simp only [hg, bind, Except.bind, pure, Except.pure, Except.ok.injEq] at this
    rw [← this]
    exact List.mem_map.mpr ⟨a, ha, rfl⟩

theorem ctorValue_keys (spec : CtorSpec) (args v : List (String × Val)) (h : ctorValue spec args = .ok v) :
    ∀ kv ∈ v, kv.1 ∈ spec.values.map (·.1) := by
  unfold ctorValue at h
  dsimp only at h
  split at h
  · simp [throw, throwThe, MonadExceptOf.throw, bind, Except.bind] at h
  obtain ⟨env, _, h⟩ := bind_ok h
  obtain ⟨_, _, h⟩ := bind_ok h
  obtain ⟨_, _, h⟩ := bind_ok h
  obtain ⟨_, _, h⟩ := bind_ok h
  exact mapM_keys (fun kv => evalC env kv.2) _ _ h

theorem runCase_keys (π : Rat) (s : Sym) (nodes : List String) (c : TrCase) (k : Component)
    (h : runCase π s nodes c = .ok (some k)) : ∀ kv ∈ k.value, kv.1 ∈ ctorValueKeys := by
  unfold runCase at h
  cases hc : c.ctor with
  | none => simp [hc, pure, Except.pure] at h
  | some cn =>
    simp only [hc] at h
    obtain ⟨ns, _, h⟩ := bind_ok h
    obtain ⟨args, _, h⟩ := bind_ok h
    cases h3 : Gen.ctors.find? (·.name = cn) with
    | none => simp [h3, throw, throwThe, MonadExceptOf.throw] at h
    | some spec =>
      simp only [h3] at h
      unfold applyCtor at h
      cases h4 : ctorValue spec args with
      | error e => simp [h4, Functor.map, Except.map] at h
      | ok v =>
        simp [h4, Functor.map, Except.map] at h
        rw [← h]
        intro kv hkv
        unfold ctorValueKeys
        exact List.mem_flatMap.mpr ⟨spec, List.mem_of_find?_eq_some h3, ctorValue_keys spec args v h4 kv hkv⟩

theorem runCases_keys (π : Rat) (s : Sym) (nodes : List String) (cases : List TrCase) (k : Component)
    (h : runCases π s nodes cases = .ok (some k)) : ∀ kv ∈ k.value, kv.1 ∈ ctorValueKeys := by
  induction cases with
  | nil => simp [runCases, pure, Except.pure] at h
  | cons c cs ih =>
    unfold runCases at h
    cases hg : c.guard with
    | none => simp only [hg] at h; exact runCase_keys π s nodes c k h
    | some am =>
      obtain ⟨a, m⟩ := am
      simp only [hg] at h
      cases hv : s.getAttr a with
      | error e => simp [hv, bind, Except.bind] at h
      | ok v =>
        simp only [hv, bind, Except.bind] at h
        split at h
        · exact runCase_keys π s nodes c k h
        · exact ih h

/-- the value dictionary of a translated component has constructor value keys only -/
theorem compOfSym_keys (π : Rat) (s : Sym) (nodes : List String) (k : Component)
    (h : compOfSym π s nodes = .ok (some k)) : ∀ kv ∈ k.value, kv.1 ∈ ctorValueKeys := by
  unfold compOfSym at h
  cases h1 : Gen.translatorMap.lookup s.cls with
  | none => simp [h1, throw, throwThe, MonadExceptOf.throw] at h
  | some f =>
    simp only [h1] at h
    cases h2 : Gen.translators.lookup f with
    | none => simp [h2, throw, throwThe, MonadExceptOf.throw] at h
    | some cases => simp only [h2] at h; exact runCases_keys π s nodes cases k h

/-- the circuit section stored with a drawing -/
def circOf (c : Circuit) : List (String × List (String × Val)) := c.components.map fun k => (k.id, k.value)

theorem circuit_circOK (π : Rat) (ord : SetOrd Pt) (syms : List Sym) (c : Circuit)
    (h : circuitTranslator π ord syms = .ok c) : CircOK (circOf c) := by
  unfold circuitTranslator at h
  simp only at h
  obtain ⟨cs, h4, h2⟩ := bind_ok h
  have hcomp : c.components = cs.filterMap id := mkCircuit_components _ _ h2
  obtain ⟨hcs, hκ⟩ := mapM_ok_map _ syms cs h4
  intro e he kv hkv
  unfold circOf at he
  rw [hcomp] at he
  obtain ⟨k, hk, rfl⟩ := List.mem_map.mp he
  simp only [List.mem_filterMap, id] at hk
  obtain ⟨o, ho, rfl⟩ := hk
  rw [hcs] at ho
  obtain ⟨s, hs, hso⟩ := List.mem_map.mp ho
  have ht := hκ s hs
  rw [hso] at ht
  obtain ⟨la, lb, hc⟩ := translateSym_ok π _ s _ ht
  exact compOfSym_keys π s _ k hc kv hkv

/-! ### lists -/

/-- three lists related entry by entry -/
inductive All₃ {E α β : Type} (R : E → α → β → Prop) : List E → List α → List β → Prop
  | nil : All₃ R [] [] []
  | cons {e : E} {a : α} {b : β} {es : List E} {as : List α} {bs : List β} :
      R e a b → All₃ R es as bs → All₃ R (e :: es) (a :: as) (b :: bs)

theorem mapM_all3 {E E' α β α' β' : Type} {R : E → α → β → Prop} {S : E' → α' → β' → Prop} (φ : E → E')
    (f : α → Except Err α') (g : β → Except Err β') (hfg : ∀ e a b, R e a b → XRel (S (φ e)) (f a) (g b))
    {es : List E} {as : List α} {bs : List β} (h : All₃ R es as bs) :
    XRel (All₃ S (es.map φ)) (as.mapM f) (bs.mapM g) := by
  induction h with
  | nil => exact All₃.nil
  | @cons e a b es as bs hr _ ih =>
    rw [mapM_cons_ok, mapM_cons_ok]
    have h1 := hfg e a b hr
    cases hfa : f a with
    | error x =>
      cases hgb : g b with
      | error y => rw [hfa, hgb] at h1; exact h1
      | ok y => rw [hfa, hgb] at h1; exact h1.elim
    | ok x =>
      cases hgb : g b with
      | error y => rw [hfa, hgb] at h1; exact h1.elim
      | ok y =>
        rw [hfa, hgb] at h1
        cases hx : as.mapM f with
        | error x' =>
          cases hy : bs.mapM g with
          | error y' => rw [hx, hy] at ih; exact ih
          | ok y' => rw [hx, hy] at ih; exact ih.elim
        | ok x' =>
          cases hy : bs.mapM g with
          | error y' => rw [hx, hy] at ih; exact ih.elim
          | ok y' => rw [hx, hy] at ih; exact All₃.cons h1 ih

theorem instantiate_ext (π : Rat) {exs : List (List (String × Val))} {d d0 : List DElem} (h : All₃ ExtOf exs d d0) :
    instantiate π d = instantiate π d0 := by
  unfold instantiate
  induction h with
  | nil => rfl
  | cons hr _ ih => simp only [List.mapM_cons, toSym_ext π hr, ih]

theorem circuitOf_ext (π : Rat) (ord : SetOrd Pt) {exs : List (List (String × Val))} {d d0 : List DElem}
    (h : All₃ ExtOf exs d d0) : circuitOf π ord d = circuitOf π ord d0 := by
  unfold circuitOf
  rw [instantiate_ext π h]

/-- **one cycle with extras**: `saveLoad` of the drawing with extras and of the drawing without
fail with the same error or both succeed, and then the results are related again, with the
extras `nextEx ex` -/
theorem saveLoad_ext (π : Rat) (ord : SetOrd Pt) {exs : List (List (String × Val))} {d d0 : List DElem}
    (h : All₃ ExtOf exs d d0) : XRel (All₃ ExtOf (exs.map nextEx)) (saveLoad π ord d) (saveLoad π ord d0) := by
  unfold saveLoad
  rw [instantiate_ext π h]
  cases instantiate π d0 with
  | error e => exact rfl
  | ok syms =>
    simp only [bind, Except.bind]
    cases hct : circuitTranslator π ord syms with
    | error e => exact rfl
    | ok c =>
      have hcirc : CircOK (circOf c) := circuit_circOK π ord syms c hct
      have h3 := mapM_all3 (S := SExtOf) nextEx (dictifyElement π) (dictifyElement π) (fun e a b hr => dictify_ext π hr) h
      dsimp only
      cases hx : d.mapM (dictifyElement π) with
      | error x =>
        cases hy : d0.mapM (dictifyElement π) with
        | error y => rw [hx, hy] at h3; exact h3
        | ok y => rw [hx, hy] at h3; exact h3.elim
      | ok x =>
        cases hy : d0.mapM (dictifyElement π) with
        | error y => rw [hx, hy] at h3; exact h3.elim
        | ok y =>
          rw [hx, hy] at h3
          have h4 := mapM_all3 (S := ExtOf) id (undictifyDElem (circOf c)) (undictifyDElem (circOf c))
            (fun e a b hr => undictify_ext hcirc hr) h3
          rw [List.map_id] at h4
          exact h4

/-- the extras after `n` cycles -/
def nextExN : Nat → List (String × Val) → List (String × Val)
  | 0, ex => ex
  | n + 1, ex => nextExN n (nextEx ex)

/-- **`n` cycles with extras** -/
theorem cycles_ext (π : Rat) (ord : SetOrd Pt) (n : Nat) : ∀ {exs : List (List (String × Val))} {d d0 : List DElem},
    All₃ ExtOf exs d d0 → XRel (All₃ ExtOf (exs.map (nextExN n))) (cycles π ord n d) (cycles π ord n d0) := by
  induction n with
  | zero =>
    intro exs d d0 h
    have : exs.map (nextExN 0) = exs := by
      have : nextExN 0 = id := rfl
      rw [this, List.map_id]
    rw [this]
    exact h
  | succ n ih =>
    intro exs d d0 h
    have h1 := saveLoad_ext π ord h
    have hm : exs.map (nextExN (n + 1)) = (exs.map nextEx).map (nextExN n) := by
      rw [List.map_map]; rfl
    rw [hm]
    unfold cycles
    cases hx : saveLoad π ord d with
    | error x =>
      cases hy : saveLoad π ord d0 with
      | error y => rw [hx, hy] at h1; exact h1
      | ok y => rw [hx, hy] at h1; exact h1.elim
    | ok x =>
      cases hy : saveLoad π ord d0 with
      | error y => rw [hx, hy] at h1; exact h1.elim
      | ok y =>
        rw [hx, hy] at h1
        exact ih h1

theorem nextExN_self {ex : List (String × Val)} (h : ∀ kv ∈ ex, valKept kv.2 = true) (n : Nat) : nextExN n ex = ex := by
  induction n with
  | zero => rfl
  | succ n ih => unfold nextExN; rw [nextEx_self h, ih]

end CC.Draw
