/-
  CC.Proofs.KCL — the central identity: for every network (self-loop branches included: they
  are skipped on the diagonal and have direction 0), over every field, the row of node `n` in
  the code's matrix equation *is* Kirchhoff's current law at
  `n`:      Σ_b dir(b,n)·J_b  =  (row n of A)·x − b_n .
  The `*_all` lemmas carry no hypothesis on self-loops; the lemmas without the suffix keep the
  signature they had before the self-loop repair of node_analysis.py (hypothesis `b.n1 ≠ b.n2`).
-/
import CC.Proofs.NetBasics
set_option linter.unusedSectionVars false

namespace CC
variable {L K : Type} [DecidableEq L] [LabelOrd L] [Field K] [DecidableEq K]

/-- a solution vector, label-indexed -/
structure Sol (L K : Type) where
  phi : L → K
  ivs : String → K

def Net.pot (N : Net L K) (s : Sol L K) (n : L) : K := if n = N.zero then 0 else s.phi n

/-- physical first→second current of a branch, as the matrix equation sees it -/
def Net.J (N : Net L K) (s : Sol L K) (b : Branch L K) : K :=
  if b.e.isIdealVS then s.ivs b.id
  else b.e.Yfin * (N.pot s b.n1 - N.pot s b.n2) + b.e.Ival

/-- left-hand side of the row of node `n` -/
def Net.rowNode (N : Net L K) (s : Sol L K) (n : L) : K :=
  (N.nodes.map fun m => N.Yentry n m * s.phi m).sum
    + (N.vsSorted.map fun b => b.dir n * s.ivs b.id).sum

/-- left-hand side of the row of voltage source `b` -/
def Net.rowVS (N : Net L K) (s : Sol L K) (b : Branch L K) : K :=
  (N.nodes.map fun m => b.dir m * s.phi m).sum

/-- per-branch contribution to the admittance part of the row of node `n` -/
def g (n : L) (b : Branch L K) (m : L) : K :=
  if n = m then (if (b.n1 = n ∨ b.n2 = n) ∧ b.n1 ≠ b.n2 then b.e.Yfin else 0)
  else (if (b.n1 = n ∧ b.n2 = m) ∨ (b.n1 = m ∧ b.n2 = n) then - b.e.Yfin else 0)

theorem Yentry_eq (N : Net L K) (n m : L) :
    N.Yentry n m = (N.nonVS.map fun b => g n b m).sum := by
  unfold Net.Yentry g
  by_cases h : n = m
  · simp only [h, if_true]
    rw [sum_filter_eq_sum_ite]
    simp
  · simp only [h, if_false]
    rw [sum_filter_eq_sum_ite, neg_sum_map]
    congr 1; apply List.map_congr_left; intro b _
    by_cases hb : (b.n1 = n ∧ b.n2 = m) ∨ (b.n1 = m ∧ b.n2 = n) <;> simp [hb]

theorem mem_nodes_of_ne_zero (N : Net L K) {b : Branch L K} (hb : b ∈ N.branches) :
    (b.n1 ∈ N.nodes ↔ b.n1 ≠ N.zero) ∧ (b.n2 ∈ N.nodes ↔ b.n2 ≠ N.zero) := by
  constructor
  · rw [mem_nodes_iff]; exact ⟨fun h => h.2, fun h => ⟨n1_mem_labels N hb, h⟩⟩
  · rw [mem_nodes_iff]; exact ⟨fun h => h.2, fun h => ⟨n2_mem_labels N hb, h⟩⟩

theorem dir_self_loop (b : Branch L K) (n : L) (h : b.n1 = b.n2) : b.dir n = 0 := by
  unfold Branch.dir; rw [h]; exact sub_self _

/-- away from self-loops the direction is the three-way case split the code used before the repair -/
theorem dir_of_ne (b : Branch L K) (n : L) (h : b.n1 ≠ b.n2) :
    b.dir n = if b.n1 = n then 1 else if b.n2 = n then -1 else 0 := by
  unfold Branch.dir
  by_cases h1 : b.n1 = n
  · have h2 : b.n2 ≠ n := fun h' => h (h1.trans h'.symm)
    rw [if_pos h1, if_neg h2, if_pos h1, sub_zero]
  · by_cases h2 : b.n2 = n
    · rw [if_neg h1, if_pos h2, if_neg h1, if_pos h2, zero_sub]
    · rw [if_neg h1, if_neg h2, if_neg h1, if_neg h2, sub_zero]

theorem g_self_loop (n : L) (b : Branch L K) (m : L) (h : b.n1 = b.n2) : g n b m = 0 := by
  unfold g
  by_cases hm : n = m
  · rw [if_pos hm, if_neg]; exact fun hc => hc.2 h
  · rw [if_neg hm, if_neg]
    rintro (⟨h1, h2⟩ | ⟨h1, h2⟩)
    · exact hm (h1.symm.trans (h.trans h2))
    · exact hm (h2.symm.trans (h.symm.trans h1))

theorem row_branch (N : Net L K) (s : Sol L K) (n : L) (hn : n ∈ N.nodes)
    (b : Branch L K) (hb : b ∈ N.branches) (hsl : b.n1 ≠ b.n2) :
    (N.nodes.map fun m => g n b m * s.phi m).sum
      = b.dir n * (b.e.Yfin * (N.pot s b.n1 - N.pot s b.n2)) := by
  have hnz : n ≠ N.zero := ((mem_nodes_iff N n).mp hn).2
  have hnd := nodes_nodup N
  obtain ⟨hm1, hm2⟩ := mem_nodes_of_ne_zero N hb
  rw [dir_of_ne b n hsl]
  by_cases h1 : b.n1 = n
  · have h2 : b.n2 ≠ n := fun h => hsl (h1.trans h.symm)
    have hg : ∀ m, g n b m = (if m = n then b.e.Yfin else if m = b.n2 then - b.e.Yfin else 0) := by
      intro m; unfold g
      by_cases hm : n = m
      · subst hm; simp [h1, Ne.symm h2]
      · have : m ≠ n := fun h => hm h.symm
        simp [hm, this, h1, h2, eq_comm]
    simp only [hg]
    rw [sum_two hnd n b.n2 (Ne.symm h2)]
    simp only [hn, if_true, h1, Net.pot, hnz, if_false]
    by_cases hz : b.n2 = N.zero
    · have hn2 : b.n2 ∉ N.nodes := fun h => (hm2.mp h) hz
      rw [if_neg hn2]; simp [hz]
    · have hn2 : b.n2 ∈ N.nodes := hm2.mpr hz
      rw [if_pos hn2]; simp [hz]; ring
  · by_cases h2 : b.n2 = n
    · have hg : ∀ m, g n b m = (if m = n then b.e.Yfin else if m = b.n1 then - b.e.Yfin else 0) := by
        intro m; unfold g
        by_cases hm : n = m
        · subst hm; simp [h2, h1]
        · have : m ≠ n := fun h => hm h.symm
          simp [hm, this, h1, h2, eq_comm]
      simp only [hg]
      rw [sum_two hnd n b.n1 (Ne.symm h1)]
      simp only [hn, if_true, h1, h2, Net.pot, hnz, if_false]
      by_cases hz : b.n1 = N.zero
      · have hn1 : b.n1 ∉ N.nodes := fun h => (hm1.mp h) hz
        rw [if_neg hn1]; simp [hz]
      · have hn1 : b.n1 ∈ N.nodes := hm1.mpr hz
        rw [if_pos hn1]; simp [hz]; ring
    · have hg : ∀ m, g n b m = 0 := by
        intro m; unfold g
        by_cases hm : n = m
        · subst hm; simp [h1, h2]
        · simp [hm, h1, h2]
      simp [hg, h1, h2]

/-- the same for every branch: a self-loop contributes nothing to any row -/
theorem row_branch_all (N : Net L K) (s : Sol L K) (n : L) (hn : n ∈ N.nodes)
    (b : Branch L K) (hb : b ∈ N.branches) :
    (N.nodes.map fun m => g n b m * s.phi m).sum
      = b.dir n * (b.e.Yfin * (N.pot s b.n1 - N.pot s b.n2)) := by
  by_cases hsl : b.n1 = b.n2
  · simp [g_self_loop n b _ hsl, dir_self_loop b n hsl]
  · exact row_branch N s n hn b hb hsl

theorem Ival_of_VS {e : Elem K} (h : e.isIdealVS = true) : e.Ival = 0 := by
  cases e with
  | norton Z V => simp [Elem.isIdealVS] at h; simp [Elem.Ival, h]
  | thevenin Y I => simp [Elem.isIdealVS] at h

theorem Q_eq_neg_dir_all (N : Net L K) (b : Branch L K) (n : L) (hn : n ≠ N.zero) :
    N.Qentry b n = - b.dir n := by
  unfold Net.Qentry Branch.dir
  have e1 : (b.n1 = n ∧ b.n1 ≠ N.zero) ↔ b.n1 = n := ⟨fun h => h.1, fun h => ⟨h, h ▸ hn⟩⟩
  have e2 : (b.n2 = n ∧ b.n2 ≠ N.zero) ↔ b.n2 = n := ⟨fun h => h.1, fun h => ⟨h, h ▸ hn⟩⟩
  simp only [e1, e2, neg_sub]

theorem Q_eq_neg_dir (N : Net L K) (b : Branch L K) (n : L) (hn : n ≠ N.zero) (hsl : b.n1 ≠ b.n2) :
    N.Qentry b n = - b.dir n := Q_eq_neg_dir_all N b n hn

/-- the row of a voltage source is the potential difference across it -/
theorem rowVS_eq (N : Net L K) (s : Sol L K) (b : Branch L K) (hb : b ∈ N.branches)
    (hsl : b.n1 ≠ b.n2) : N.rowVS s b = N.pot s b.n1 - N.pot s b.n2 := by
  unfold Net.rowVS
  have hnd := nodes_nodup N
  obtain ⟨hm1, hm2⟩ := mem_nodes_of_ne_zero N hb
  have hd : ∀ m, b.dir m * s.phi m = (if m = b.n1 then (1 : K) else if m = b.n2 then -1 else 0) * s.phi m := by
    intro m; rw [dir_of_ne b m hsl]
    by_cases h1 : b.n1 = m
    · simp [h1]
    · have : m ≠ b.n1 := fun h => h1 h.symm
      by_cases h2 : b.n2 = m
      · simp [h1, h2, this]
      · have : m ≠ b.n2 := fun h => h2 h.symm
        simp [h1, h2, *]
  simp only [hd]
  rw [sum_two hnd b.n1 b.n2 hsl]
  unfold Net.pot
  by_cases hz1 : b.n1 = N.zero
  · have h1n : b.n1 ∉ N.nodes := fun h => (hm1.mp h) hz1
    have hz2 : b.n2 ≠ N.zero := fun h => hsl (hz1.trans h.symm)
    rw [if_neg h1n, if_pos (hm2.mpr hz2), if_pos hz1, if_neg hz2]; ring
  · by_cases hz2 : b.n2 = N.zero
    · have h2n : b.n2 ∉ N.nodes := fun h => (hm2.mp h) hz2
      rw [if_pos (hm1.mpr hz1), if_neg h2n, if_neg hz1, if_pos hz2]; ring
    · rw [if_pos (hm1.mpr hz1), if_pos (hm2.mpr hz2), if_neg hz1, if_neg hz2]; ring

/-- the same for every ideal voltage source: the row of a self-loop source is zero, and so is the
potential difference across it -/
theorem rowVS_eq_all (N : Net L K) (s : Sol L K) (b : Branch L K) (hb : b ∈ N.branches) :
    N.rowVS s b = N.pot s b.n1 - N.pot s b.n2 := by
  by_cases hsl : b.n1 = b.n2
  · unfold Net.rowVS
    simp [dir_self_loop b _ hsl, hsl]
  · exact rowVS_eq N s b hb hsl

/-- **KCL identity.** -/
theorem kcl_identity_all (N : Net L K) (s : Sol L K) (hids : N.ids.Nodup)
    (n : L) (hn : n ∈ N.nodes) :
    (N.branches.map fun b => b.dir n * N.J s b).sum = N.rowNode s n - N.rhsNode n := by
  have hnz : n ≠ N.zero := ((mem_nodes_iff N n).mp hn).2
  -- admittance part of the row, branch by branch
  have hY : (N.nodes.map fun m => N.Yentry n m * s.phi m).sum
      = (N.nonVS.map fun b => b.dir n * (b.e.Yfin * (N.pot s b.n1 - N.pot s b.n2))).sum := by
    have : ∀ m, N.Yentry n m * s.phi m = (N.nonVS.map fun b => g n b m * s.phi m).sum := by
      intro m; rw [Yentry_eq, ← List.sum_map_mul_right]
    simp only [this]
    rw [sum_map_comm]
    apply congrArg; apply List.map_congr_left
    intro b hb
    have hb' : b ∈ N.branches := (List.mem_filter.mp hb).1
    exact row_branch_all N s n hn b hb'
  -- right-hand side
  have hR : N.rhsNode n = - (N.nonVS.map fun b => b.dir n * b.e.Ival).sum := by
    unfold Net.rhsNode
    rw [sum_map_perm (csSorted_perm N hids)]
    unfold Net.cs
    rw [sum_filter_eq_sum_ite]
    have h1 : (N.branches.map fun b => if b.e.isCS = true then N.Qentry b n * b.e.Ival else 0)
        = N.branches.map fun b => - (b.dir n * b.e.Ival) := by
      apply List.map_congr_left; intro b hb
      by_cases h0 : b.e.Ival = 0
      · simp [Elem.isCS, h0]
      · simp [Elem.isCS, h0, Q_eq_neg_dir_all N b n hnz]
    rw [h1, ← neg_sum_map]
    congr 1
    rw [sum_split_filter N.branches (fun b => !b.e.isIdealVS)]
    have : ((N.branches.filter (fun a => !(fun b : Branch L K => !b.e.isIdealVS) a)).map
        fun b => b.dir n * b.e.Ival).sum = 0 := by
      apply List.sum_eq_zero
      intro x hx
      obtain ⟨b, hb, rfl⟩ := List.mem_map.mp hx
      have : b.e.isIdealVS = true := by simpa using (List.mem_filter.mp hb).2
      simp [Ival_of_VS this]
    rw [this, add_zero]; rfl
  -- assemble
  rw [sum_split_filter N.branches (fun b => !b.e.isIdealVS)]
  have hA : ((N.branches.filter (fun b => !b.e.isIdealVS)).map fun b => b.dir n * N.J s b).sum
      = (N.nonVS.map fun b => b.dir n * (b.e.Yfin * (N.pot s b.n1 - N.pot s b.n2))).sum
        + (N.nonVS.map fun b => b.dir n * b.e.Ival).sum := by
    rw [← List.sum_map_add]
    apply congrArg; apply List.map_congr_left
    intro b hb
    have : b.e.isIdealVS = false := by simpa using (List.mem_filter.mp hb).2
    simp [Net.J, this]; ring
  have hB : ((N.branches.filter (fun a => !(fun b : Branch L K => !b.e.isIdealVS) a)).map
        fun b => b.dir n * N.J s b).sum = (N.vsSorted.map fun b => b.dir n * s.ivs b.id).sum := by
    have : (N.branches.filter (fun a => !(fun b : Branch L K => !b.e.isIdealVS) a)) = N.vs := by
      unfold Net.vs; apply List.filter_congr; intro b _; simp
    rw [this, sum_map_perm (vsSorted_perm N hids)]
    apply congrArg; apply List.map_congr_left
    intro b hb
    have : b.e.isIdealVS = true := (List.mem_filter.mp hb).2
    simp [Net.J, this]
  rw [hA, hB, hR]
  unfold Net.rowNode
  rw [hY]; ring

/-- **KCL identity**, with the signature it had before the self-loop repair -/
theorem kcl_identity (N : Net L K) (s : Sol L K) (hids : N.ids.Nodup)
    (hsl : ∀ b ∈ N.branches, b.n1 ≠ b.n2) (n : L) (hn : n ∈ N.nodes) :
    (N.branches.map fun b => b.dir n * N.J s b).sum = N.rowNode s n - N.rhsNode n :=
  kcl_identity_all N s hids n hn

end CC
