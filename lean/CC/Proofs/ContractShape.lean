/-
  CC.Proofs.ContractShape — the exact shape of the short-circuit contraction loop
  (`contractAll` of CC/Model/Transform.lean, i.e. the loop of `remove_short_circuit_elements`):

    contractAll z ps bs = (bs.map (Branch.mapNodes (sigmaAll z ps))).filter (ps = [] ∨ n1 ≠ n2)

  where `sigmaAll z ps : L → L` is the node renaming composed from the per-step renamings
  `an → rn` (computed by the same recursion as the loop), together with everything one needs to
  know about that renaming:
    * `sigmaAll_fix`           a node that is never absorbed is a fixed point
    * `sigmaAll_fix_nonterm`   in particular every node that is not a terminal of a pair
    * `sigmaAll_zero`          the reference node is a fixed point (any pair list)
    * `sigmaAll_not_absorbed`  no node is mapped to an absorbed node
    * `sigmaAll_idem`          σ ∘ σ = σ
    * `sigmaAll_range`         σ x = x or σ x is a terminal of a pair
    * `sigmaAll_eq_iff`        σ x = σ y  ↔  x and y are joined by the pairs (equivalence closure)
-/
import CC.Proofs.Contract
import Mathlib.Logic.Relation
set_option linter.unusedSectionVars false

namespace CC
variable {L K : Type} [DecidableEq L] [LabelOrd L] [Field K] [DecidableEq K]

/-- one renaming step `an → rn` on node labels -/
def renNode (an rn : L) (x : L) : L := if x = an then rn else x

/-- a branch with both terminals renamed by `σ`: identifier, type, element record and
orientation (`n1 ↦ σ n1`, `n2 ↦ σ n2`) untouched -/
def Branch.mapNodes (σ : L → L) (b : Branch L K) : Branch L K := { b with n1 := σ b.n1, n2 := σ b.n2 }

/-- the node renaming performed by the whole loop: the composition of the per-step renamings
`an → rn`, the remaining pairs being renamed along (same recursion as `contractAll`) -/
def sigmaAll (z : L) : List (L × L) → L → L
  | [], x => x
  | p :: ps, x =>
    sigmaAll z (ps.map (renPair (orient z p).1 (orient z p).2)) (renNode (orient z p).1 (orient z p).2 x)
termination_by ps => ps.length
decreasing_by simp

/-- the nodes absorbed by the loop, in order: the `an` of every step that really renames
(`an ≠ rn`) -/
def absorbedAll (z : L) : List (L × L) → List L
  | [] => []
  | p :: ps =>
    (if (orient z p).1 = (orient z p).2 then [] else [(orient z p).1]) ++
      absorbedAll z (ps.map (renPair (orient z p).1 (orient z p).2))
termination_by ps => ps.length
decreasing_by simp

/-- `x` is a terminal of one of the pairs -/
def IsPairTerm (ps : List (L × L)) (x : L) : Prop := ∃ p ∈ ps, x = p.1 ∨ x = p.2

theorem sigmaAll_nil (z : L) (x : L) : sigmaAll z [] x = x := by rw [sigmaAll]
theorem sigmaAll_cons (z : L) (p : L × L) (ps : List (L × L)) (x : L) :
    sigmaAll z (p :: ps) x =
      sigmaAll z (ps.map (renPair (orient z p).1 (orient z p).2)) (renNode (orient z p).1 (orient z p).2 x) := by
  rw [sigmaAll]
theorem absorbedAll_nil (z : L) : absorbedAll z ([] : List (L × L)) = [] := by rw [absorbedAll]
theorem absorbedAll_cons (z : L) (p : L × L) (ps : List (L × L)) :
    absorbedAll z (p :: ps) =
      (if (orient z p).1 = (orient z p).2 then [] else [(orient z p).1]) ++
        absorbedAll z (ps.map (renPair (orient z p).1 (orient z p).2)) := by
  rw [absorbedAll]

@[simp] theorem mapNodes_id (b : Branch L K) : Branch.mapNodes (fun x => x) b = b := rfl
@[simp] theorem mapNodes_n1 (σ : L → L) (b : Branch L K) : (b.mapNodes σ).n1 = σ b.n1 := rfl
@[simp] theorem mapNodes_n2 (σ : L → L) (b : Branch L K) : (b.mapNodes σ).n2 = σ b.n2 := rfl
@[simp] theorem mapNodes_id' (σ : L → L) (b : Branch L K) : (b.mapNodes σ).id = b.id := rfl
@[simp] theorem mapNodes_ty (σ : L → L) (b : Branch L K) : (b.mapNodes σ).ty = b.ty := rfl
@[simp] theorem mapNodes_e (σ : L → L) (b : Branch L K) : (b.mapNodes σ).e = b.e := rfl
@[simp] theorem mapNodes_key (σ : L → L) (b : Branch L K) : (b.mapNodes σ).key = b.key := rfl
theorem mapNodes_mapNodes (σ τ : L → L) (b : Branch L K) :
    (b.mapNodes τ).mapNodes σ = b.mapNodes (fun x => σ (τ x)) := rfl

/-- the two list comprehensions of the loop body rename both terminals by `renNode` -/
theorem ren_eq_mapNodes (an rn : L) (b : Branch L K) : ren an rn b = b.mapNodes (renNode an rn) := by
  unfold ren ren1 ren2 Branch.mapNodes renNode
  by_cases h1 : b.n1 = an <;> by_cases h2 : b.n2 = an <;> simp [h1, h2]

theorem orient_cases (z : L) (p : L × L) : orient z p = p ∨ orient z p = (p.2, p.1) := by
  unfold orient; by_cases hz : p.1 = z <;> simp [hz]

/-- the reference node is absorbed only by a pair `(z, z)`, i.e. by a step that renames nothing -/
theorem orient_absorbs_zero (z : L) (p : L × L) (h : (orient z p).1 = z) : (orient z p).2 = z := by
  unfold orient at h ⊢
  by_cases hz : p.1 = z
  · simp [hz] at h ⊢
  · simp [hz] at h

/-! ### filter ∘ map ∘ filter ∘ map -/

theorem filter_map_fuse {α : Type} (f g : α → α) (p q r : α → Bool) (l : List α)
    (h : ∀ a, (p (g a) && q (f (g a))) = r (f (g a))) :
    ((((l.map g).filter p).map f).filter q) = ((l.map (fun a => f (g a))).filter r) := by
  induction l with
  | nil => rfl
  | cons a l ih =>
    have ha := h a
    simp only [List.map_cons, List.filter_cons]
    by_cases hp : p (g a) = true
    · by_cases hq : q (f (g a)) = true
      · have hr : r (f (g a)) = true := by rw [← ha, hp, hq]; rfl
        simp [hp, hq, hr, ih]
      · have hr : ¬ r (f (g a)) = true := by rw [← ha, hp]; simpa using hq
        simp [hp, hq, hr, ih]
    · have hr : ¬ r (f (g a)) = true := by rw [← ha]; simp [hp]
      simp [hp, hr, ih]

/-! ### the shape of the loop -/

/-- **the loop is a renaming followed by a filter.**  Whatever the pair list and the branch list:
the result is the original branch list, every branch with its terminals renamed by `sigmaAll z ps`
(identifier, type, record, orientation and order untouched), from which exactly the branches whose
renamed terminals coincide are dropped — provided there is at least one pair; with no pair the
list is returned as it is (self-loops included). -/
theorem contractAll_eq_aux (z : L) : ∀ (n : Nat) (ps : List (L × L)) (bs : List (Branch L K)),
    ps.length = n →
    contractAll z ps bs =
      (bs.map (Branch.mapNodes (sigmaAll z ps))).filter fun b => ps.isEmpty || decide (b.n1 ≠ b.n2) := by
  intro n
  induction n with
  | zero =>
    intro ps bs hl
    have : ps = [] := List.length_eq_zero_iff.mp hl
    subst this
    rw [contractAll_nil]
    have : Branch.mapNodes (K := K) (sigmaAll z ([] : List (L × L))) = fun b => b := by
      funext b; unfold Branch.mapNodes; simp [sigmaAll_nil]
    rw [this]; simp
  | succ n ih =>
    intro ps bs hl
    cases ps with
    | nil => simp at hl
    | cons p ps =>
      rw [contractAll_cons, contractStep_eq, ih _ _ (by simpa using hl)]
      have hfuse := filter_map_fuse
        (Branch.mapNodes (K := K) (sigmaAll z (ps.map (renPair (orient z p).1 (orient z p).2))))
        (ren (orient z p).1 (orient z p).2)
        (fun b : Branch L K => decide (b.n1 ≠ b.n2))
        (fun b => (ps.map (renPair (orient z p).1 (orient z p).2)).isEmpty || decide (b.n1 ≠ b.n2))
        (fun b => (p :: ps).isEmpty || decide (b.n1 ≠ b.n2)) bs ?_
      · rw [hfuse]
        congr 1
        apply List.map_congr_left
        intro b _
        rw [ren_eq_mapNodes, mapNodes_mapNodes]
        congr 1
        funext x
        rw [sigmaAll_cons]
      · intro a
        simp only [List.isEmpty_cons, Bool.false_or, mapNodes_n1, mapNodes_n2]
        by_cases hloop : (ren (orient z p).1 (orient z p).2 a).n1 = (ren (orient z p).1 (orient z p).2 a).n2
        · simp [hloop]
        · cases ps with
          | nil => simp [hloop, sigmaAll_nil]
          | cons q qs => simp [hloop]

theorem contractAll_eq (z : L) (ps : List (L × L)) (bs : List (Branch L K)) :
    contractAll z ps bs =
      (bs.map (Branch.mapNodes (sigmaAll z ps))).filter fun b => ps.isEmpty || decide (b.n1 ≠ b.n2) :=
  contractAll_eq_aux z ps.length ps bs rfl

/-! ### the renaming -/

theorem isTerm_renPair (an rn : L) (ps : List (L × L)) (x : L)
    (h : IsPairTerm (ps.map (renPair an rn)) x) : IsPairTerm ps x ∨ x = rn := by
  obtain ⟨q', hq', hx⟩ := h
  obtain ⟨q, hq, rfl⟩ := List.mem_map.mp hq'
  unfold renPair at hx
  simp only at hx
  rcases hx with hx | hx
  · by_cases h1 : q.1 = an
    · right; simpa [h1] using hx
    · left; exact ⟨q, hq, Or.inl (by simpa [h1] using hx)⟩
  · by_cases h2 : q.2 = an
    · right; simpa [h2] using hx
    · left; exact ⟨q, hq, Or.inr (by simpa [h2] using hx)⟩

/-- after the step `an → rn` (`an ≠ rn`) no remaining pair mentions `an` -/
theorem not_isTerm_renPair (an rn : L) (hne : an ≠ rn) (ps : List (L × L)) :
    ¬ IsPairTerm (ps.map (renPair an rn)) an := by
  rintro ⟨q', hq', hx⟩
  obtain ⟨q, hq, rfl⟩ := List.mem_map.mp hq'
  unfold renPair at hx
  simp only at hx
  rcases hx with hx | hx
  · by_cases h1 : q.1 = an
    · simp [h1] at hx; exact hne hx
    · simp [h1] at hx; exact h1 hx.symm
  · by_cases h2 : q.2 = an
    · simp [h2] at hx; exact hne hx
    · simp [h2] at hx; exact h2 hx.symm

theorem isTerm_orient (z : L) (p : L × L) (ps : List (L × L)) :
    IsPairTerm (p :: ps) (orient z p).1 ∧ IsPairTerm (p :: ps) (orient z p).2 := by
  rcases orient_cases z p with h | h <;> rw [h]
  · exact ⟨⟨p, List.mem_cons_self .., Or.inl rfl⟩, ⟨p, List.mem_cons_self .., Or.inr rfl⟩⟩
  · exact ⟨⟨p, List.mem_cons_self .., Or.inr rfl⟩, ⟨p, List.mem_cons_self .., Or.inl rfl⟩⟩

theorem isTerm_tail (p : L × L) (ps : List (L × L)) (x : L) (h : IsPairTerm ps x) : IsPairTerm (p :: ps) x := by
  obtain ⟨q, hq, hx⟩ := h; exact ⟨q, List.mem_cons_of_mem _ hq, hx⟩

/-- generic induction over the loop for statements about the pair list alone -/
theorem pairs_ind (z : L) (P : List (L × L) → Prop) (h0 : P [])
    (hs : ∀ p ps, P (ps.map (renPair (orient z p).1 (orient z p).2)) → P (p :: ps)) :
    ∀ ps, P ps := by
  have : ∀ (n : Nat) (ps : List (L × L)), ps.length = n → P ps := by
    intro n
    induction n with
    | zero => intro ps hl; rw [List.length_eq_zero_iff.mp hl]; exact h0
    | succ n ih =>
      intro ps hl
      cases ps with
      | nil => simp at hl
      | cons p ps => exact hs p ps (ih _ (by simpa using hl))
  exact fun ps => this ps.length ps rfl

/-- every absorbed node is a terminal of a pair -/
theorem absorbed_isTerm (z : L) (ps : List (L × L)) : ∀ x ∈ absorbedAll z ps, IsPairTerm ps x := by
  refine pairs_ind z (fun ps => ∀ x ∈ absorbedAll z ps, IsPairTerm ps x) ?_ ?_ ps
  · intro x hx; rw [absorbedAll_nil] at hx; cases hx
  · intro p ps ih x hx
    rw [absorbedAll_cons] at hx
    rcases List.mem_append.mp hx with hx | hx
    · by_cases he : (orient z p).1 = (orient z p).2
      · simp [he] at hx
      · simp [he] at hx; rw [hx]; exact (isTerm_orient z p ps).1
    · rcases isTerm_renPair _ _ ps x (ih x hx) with h | h
      · exact isTerm_tail p ps x h
      · rw [h]; exact (isTerm_orient z p ps).2

/-- **the reference node is never absorbed**, whatever the pair list -/
theorem zero_not_absorbed (z : L) (ps : List (L × L)) : z ∉ absorbedAll z ps := by
  refine pairs_ind z (fun ps => z ∉ absorbedAll z ps) ?_ ?_ ps
  · rw [absorbedAll_nil]; simp
  · intro p ps ih hx
    rw [absorbedAll_cons] at hx
    rcases List.mem_append.mp hx with hx | hx
    · by_cases he : (orient z p).1 = (orient z p).2
      · simp [he] at hx
      · simp [he] at hx
        exact he (by rw [orient_absorbs_zero z p hx.symm]; exact hx.symm)
    · exact ih hx

/-- **a node that is never absorbed is a fixed point** of the renaming -/
theorem sigmaAll_fix (z : L) (ps : List (L × L)) : ∀ x, x ∉ absorbedAll z ps → sigmaAll z ps x = x := by
  refine pairs_ind z (fun ps => ∀ x, x ∉ absorbedAll z ps → sigmaAll z ps x = x) ?_ ?_ ps
  · intro x _; exact sigmaAll_nil z x
  · intro p ps ih x hx
    rw [absorbedAll_cons] at hx
    have hx1 := fun h => hx (List.mem_append.mpr (Or.inl h))
    have hx2 := fun h => hx (List.mem_append.mpr (Or.inr h))
    rw [sigmaAll_cons]
    have hs : renNode (orient z p).1 (orient z p).2 x = x := by
      unfold renNode
      by_cases hxa : x = (orient z p).1
      · by_cases he : (orient z p).1 = (orient z p).2
        · rw [if_pos hxa, ← he, hxa]
        · exfalso; apply hx1; simp [he, hxa]
      · rw [if_neg hxa]
    rw [hs]; exact ih x hx2

/-- every node that is not a terminal of a pair is a fixed point -/
theorem sigmaAll_fix_nonterm (z : L) (ps : List (L × L)) (x : L) (h : ¬ IsPairTerm ps x) :
    sigmaAll z ps x = x :=
  sigmaAll_fix z ps x fun hx => h (absorbed_isTerm z ps x hx)

/-- **the reference node is a fixed point**, whatever the pair list -/
theorem sigmaAll_zero (z : L) (ps : List (L × L)) : sigmaAll z ps z = z :=
  sigmaAll_fix z ps z (zero_not_absorbed z ps)

/-- a renamed node is itself or a terminal of a pair -/
theorem sigmaAll_range (z : L) (ps : List (L × L)) :
    ∀ x, sigmaAll z ps x = x ∨ IsPairTerm ps (sigmaAll z ps x) := by
  refine pairs_ind z (fun ps => ∀ x, sigmaAll z ps x = x ∨ IsPairTerm ps (sigmaAll z ps x)) ?_ ?_ ps
  · intro x; exact Or.inl (sigmaAll_nil z x)
  · intro p ps ih x
    rw [sigmaAll_cons]
    rcases ih (renNode (orient z p).1 (orient z p).2 x) with h | h
    · rw [h]; unfold renNode
      by_cases hxa : x = (orient z p).1
      · rw [if_pos hxa]; exact Or.inr (isTerm_orient z p ps).2
      · rw [if_neg hxa]; exact Or.inl rfl
    · right
      rcases isTerm_renPair _ _ ps _ h with h | h
      · exact isTerm_tail p ps _ h
      · rw [h]; exact (isTerm_orient z p ps).2

/-- **no node is mapped to an absorbed node** -/
theorem sigmaAll_not_absorbed (z : L) (ps : List (L × L)) :
    ∀ x, sigmaAll z ps x ∉ absorbedAll z ps := by
  refine pairs_ind z (fun ps => ∀ x, sigmaAll z ps x ∉ absorbedAll z ps) ?_ ?_ ps
  · intro x; rw [absorbedAll_nil]; simp
  · intro p ps ih x hx
    rw [sigmaAll_cons, absorbedAll_cons] at hx
    rcases List.mem_append.mp hx with hx | hx
    · by_cases he : (orient z p).1 = (orient z p).2
      · simp [he] at hx
      · simp only [he, if_false, List.mem_singleton] at hx
        rcases sigmaAll_range z (ps.map (renPair (orient z p).1 (orient z p).2))
            (renNode (orient z p).1 (orient z p).2 x) with h | h
        · rw [h] at hx
          unfold renNode at hx
          by_cases hxa : x = (orient z p).1
          · rw [if_pos hxa] at hx; exact he hx.symm
          · rw [if_neg hxa] at hx; exact hxa hx
        · rw [hx] at h
          exact not_isTerm_renPair _ _ he ps h
    · exact ih _ hx

/-- the renaming is idempotent -/
theorem sigmaAll_idem (z : L) (ps : List (L × L)) (x : L) :
    sigmaAll z ps (sigmaAll z ps x) = sigmaAll z ps x :=
  sigmaAll_fix z ps _ (sigmaAll_not_absorbed z ps x)

/-! ### which nodes are identified -/

/-- `x` and `y` are joined by the pairs: the equivalence closure of "is a pair" -/
def PairJoined (ps : List (L × L)) : L → L → Prop := Relation.EqvGen fun a b => (a, b) ∈ ps

theorem eqvGen_lift {α : Type} {r : α → α → Prop} {s : α → α → Prop} (f : α → α)
    (h : ∀ a b, r a b → Relation.EqvGen s (f a) (f b)) {x y : α} (hxy : Relation.EqvGen r x y) :
    Relation.EqvGen s (f x) (f y) := by
  induction hxy with
  | rel a b hab => exact h a b hab
  | refl a => exact .refl _
  | symm a b _ ih => exact .symm _ _ ih
  | trans a b c _ _ ih1 ih2 => exact .trans _ _ _ ih1 ih2

theorem pairJoined_nil (x y : L) : PairJoined ([] : List (L × L)) x y ↔ x = y := by
  constructor
  · intro h
    induction h with
    | rel a b hab => simp at hab
    | refl a => rfl
    | symm a b _ ih => exact ih.symm
    | trans a b c _ _ ih1 ih2 => exact ih1.trans ih2
  · rintro rfl; exact .refl _

theorem pairJoined_renNode (z : L) (p : L × L) (ps : List (L × L)) (a : L) :
    PairJoined (p :: ps) (renNode (orient z p).1 (orient z p).2 a) a := by
  unfold renNode
  by_cases h : a = (orient z p).1
  · rw [if_pos h, h]
    rcases orient_cases z p with ho | ho <;> rw [ho]
    · exact .symm _ _ (.rel _ _ (by simp))
    · exact .rel _ _ (by simp)
  · rw [if_neg h]; exact .refl _

/-- **two nodes get the same name iff they are joined by the pairs** (through any chain, star or
cycle of them, in any orientation) -/
theorem sigmaAll_eq_iff (z : L) (ps : List (L × L)) :
    ∀ x y, sigmaAll z ps x = sigmaAll z ps y ↔ PairJoined ps x y := by
  refine pairs_ind z (fun ps => ∀ x y, sigmaAll z ps x = sigmaAll z ps y ↔ PairJoined ps x y) ?_ ?_ ps
  · intro x y; rw [sigmaAll_nil, sigmaAll_nil, pairJoined_nil]
  · intro p ps ih x y
    rw [sigmaAll_cons, sigmaAll_cons, ih]
    constructor
    · intro h
      have h' : PairJoined (p :: ps) (renNode (orient z p).1 (orient z p).2 x) (renNode (orient z p).1 (orient z p).2 y) := by
        refine eqvGen_lift (fun a => a) ?_ h
        intro a b hab
        obtain ⟨q, hq, hqe⟩ := List.mem_map.mp hab
        have h1 : a = renNode (orient z p).1 (orient z p).2 q.1 := by
          have := congrArg Prod.fst hqe; simpa [renPair, renNode] using this.symm
        have h2 : b = renNode (orient z p).1 (orient z p).2 q.2 := by
          have := congrArg Prod.snd hqe; simpa [renPair, renNode] using this.symm
        rw [h1, h2]
        refine .trans _ _ _ (pairJoined_renNode z p ps q.1) (.trans _ _ _ (.rel _ _ ?_) (.symm _ _ (pairJoined_renNode z p ps q.2)))
        exact List.mem_cons_of_mem _ hq
      exact .trans _ _ _ (.symm _ _ (pairJoined_renNode z p ps x)) (.trans _ _ _ h' (pairJoined_renNode z p ps y))
    · intro h
      refine eqvGen_lift (renNode (orient z p).1 (orient z p).2) ?_ h
      intro a b hab
      rcases List.mem_cons.mp hab with hab | hab
      · -- the contracted pair itself: both ends get the retained name
        have : renNode (orient z p).1 (orient z p).2 a = renNode (orient z p).1 (orient z p).2 b := by
          unfold renNode
          rcases orient_cases z p with ho | ho <;> rw [ho, ← hab] <;> simp only
          · by_cases hba : b = a
            · simp [hba]
            · simp [hba]
          · by_cases hab' : a = b
            · simp [hab']
            · simp [hab']
        rw [this]; exact .refl _
      · refine .rel _ _ (List.mem_map.mpr ⟨(a, b), hab, ?_⟩)
        simp [renPair, renNode]

end CC
