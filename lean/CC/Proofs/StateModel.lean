/-
  CC.Proofs.StateModel — the algebra of CC/Proofs/StateAlgebra.lean applied to the executable
  model CC/Model/StateSpace.lean (through CC/Proofs/StateBridge.lean), and the list-level
  lemmas (dimensions, container, sources, output rows, transient wiring).
-/
import CC.Proofs.StateBridge
import CC.Proofs.KCL
import CC.Proofs.Bridge

set_option linter.unusedSectionVars false

namespace CC
open Matrix Mx

section
variable {L K : Type} [DecidableEq L] [LabelOrd L] [Field K] [DecidableEq K]

/-- the four matrices of `ssCore`, read as Mathlib matrices, are the formulas of
`CC.StateAlg` -/
theorem ssCore_toM (ny ns nu : Nat) (invLam : List K) (DQ QS Ainv S : List (List K)) :
    let Li : Matrix (Fin ns) (Fin ns) K := diagonal fun i => invLam.getD i 0
    let m := ssCore ny ns nu invLam DQ QS Ainv S
    toM ns ns m.A = StateAlg.ssA Li (toM ns ns S)
    ∧ toM ny ns m.C = StateAlg.ssC (toM ny ns DQ) (toM ny ny Ainv) (toM ns ns S)
    ∧ toM ns nu m.B = StateAlg.ssB (toM ny ns DQ) (toM ny nu QS) (toM ny ny Ainv) Li (toM ns ns S)
    ∧ toM ny nu m.D = StateAlg.ssD (toM ny ns DQ) (toM ny nu QS) (toM ny ny Ainv) (toM ns ns S) := by
  intro Li m
  have hT : toM ns ny (Mx.mul ns ny ny (Mx.transpose ns ny DQ) Ainv)
      = StateAlg.ssT (toM ny ns DQ) (toM ny ny Ainv) := by
    rw [toM_mul, toM_transpose]; rfl
  have hC : toM ny ns m.C = StateAlg.ssC (toM ny ns DQ) (toM ny ny Ainv) (toM ns ns S) := by
    show toM ny ns (Mx.mul ny ns ns (Mx.transpose ny ns _) S) = _
    rw [toM_mul, toM_transpose, hT]; rfl
  refine ⟨?_, hC, ?_, ?_⟩
  · show toM ns ns (Mx.diagMul ns ns invLam S) = _
    rw [toM_diagMul]; rfl
  · show toM ns nu (Mx.mul ns ny nu (Mx.neg ns ny (Mx.diagMul ns ny invLam (Mx.transpose ns ny m.C))) QS) = _
    rw [toM_mul, toM_neg, toM_diagMul, toM_transpose, hC]; rfl
  · show toM ny nu (Mx.mul ny ny nu (Mx.sub ny ny Ainv (Mx.mul ny ns ny (Mx.transpose ny ns _)
      (Mx.transpose ns ny m.C))) QS) = _
    rw [toM_mul, toM_sub, toM_mul, toM_transpose, toM_transpose, hT, hC]; rfl

/-- `Λ·Λ⁻¹ = 1` for the diagonals the model builds, when no capacitance / inductance is zero -/
theorem lambda_mul_inv (cvals lvals : ValDict K) (ns : Nat)
    (hlen : (ssLambda cvals lvals).length = ns) (hnz : ∀ v ∈ ssLambda cvals lvals, v ≠ 0) :
    (diagonal fun i : Fin ns => (ssLambda cvals lvals).getD i 0)
      * (diagonal fun i : Fin ns => (ssInvLambda cvals lvals).getD i 0) = 1 := by
  rw [diagonal_mul_diagonal, ← diagonal_one]
  congr 1
  funext i
  have hi : (i : Nat) < (ssLambda cvals lvals).length := hlen ▸ i.2
  have h1 : (ssLambda cvals lvals).getD i 0 = (ssLambda cvals lvals)[(i : Nat)] := by
    simp [List.getD_eq_getElem?_getD, hi]
  have h2 : (ssInvLambda cvals lvals).getD i 0 = 1 / (ssLambda cvals lvals)[(i : Nat)] := by
    simp [ssInvLambda, List.getD_eq_getElem?_getD, hi]
  rw [h1, h2]
  exact mul_one_div_cancel (hnz _ (List.getElem_mem hi))

theorem stateSpaceMatrices_ok {N : Net L K} {cvals lvals : ValDict K} {Ainv S : List (List K)} {m : SSMats K}
    (hm : stateSpaceMatrices N cvals lvals Ainv S = .ok m) :
    ∃ Delta, ssDelta N cvals = .ok Delta ∧ (ssColsL N lvals).length = lvals.length ∧
      m = ssCore N.nY (ssNStates N cvals lvals) (ssNInputs N lvals) (ssInvLambda cvals lvals)
        (ssDQ N cvals lvals Delta) (ssQS N lvals) Ainv S := by
  unfold stateSpaceMatrices at hm
  cases hD : ssDelta N cvals with
  | error e => rw [hD] at hm; cases hm
  | ok Delta =>
    rw [hD] at hm
    refine ⟨Delta, rfl, ?_⟩
    by_cases hl : (ssColsL N lvals).length = lvals.length
    · simp only [hl, ne_eq, not_true_eq_false, ite_false] at hm
      refine ⟨hl, ?_⟩
      cases hm; rfl
    · simp only [ne_eq, hl, not_false_eq_true, ite_true] at hm
      cases hm


/-! ### `Ã` is symmetric, for every network -/

theorem Yentry_symm (N : Net L K) (a b : L) : N.Yentry a b = N.Yentry b a := by
  unfold Net.Yentry
  by_cases h : a = b
  · subst h; rfl
  · have h' : ¬ b = a := fun e => h e.symm
    simp only [h, h', if_false]
    have e : (fun br : Branch L K => decide ((br.n1 = a ∧ br.n2 = b) ∨ (br.n1 = b ∧ br.n2 = a)))
        = (fun br => decide ((br.n1 = b ∧ br.n2 = a) ∨ (br.n1 = a ∧ br.n2 = b))) := by
      funext br; simp only [or_comm]
    rw [e]

/-- entry of a two-block list matrix -/
theorem get_mnaA (N : Net L K) (i j : Nat) :
    Mx.get N.mnaA i j =
      match N.nodes[i]?, N.nodes[j]? with
      | some ni, some nj => N.Yentry ni nj
      | some ni, none => (match N.vsSorted[j - N.nodes.length]? with | some b => b.dir ni | none => 0)
      | none, some nj => (match N.vsSorted[i - N.nodes.length]? with | some b => b.dir nj | none => 0)
      | none, none => 0 := by
  unfold Mx.get Net.mnaA
  simp only [List.getD_eq_getElem?_getD]
  by_cases hi : i < N.nodes.length
  · rw [List.getElem?_append_left (by simpa using hi)]
    simp only [List.getElem?_map, List.getElem?_eq_getElem hi, Option.map_some, Option.getD_some]
    by_cases hj : j < N.nodes.length
    · rw [List.getElem?_append_left (by simpa using hj)]
      simp [List.getElem?_eq_getElem hj]
    · have hj' : N.nodes.length ≤ j := Nat.le_of_not_lt hj
      rw [List.getElem?_append_right (by simpa using hj')]
      simp only [List.length_map, List.getElem?_map, List.getElem?_eq_none hj']
      cases h : N.vsSorted[j - N.nodes.length]? <;> simp
  · have hi' : N.nodes.length ≤ i := Nat.le_of_not_lt hi
    rw [List.getElem?_append_right (by simpa using hi')]
    simp only [List.length_map, List.getElem?_map, List.getElem?_eq_none hi']
    cases hb : N.vsSorted[i - N.nodes.length]? with
    | none => cases N.nodes[j]? <;> simp
    | some b =>
      simp only [Option.map_some, Option.getD_some]
      by_cases hj : j < N.nodes.length
      · rw [List.getElem?_append_left (by simpa using hj)]
        simp [List.getElem?_eq_getElem hj]
      · have hj' : N.nodes.length ≤ j := Nat.le_of_not_lt hj
        rw [List.getElem?_append_right (by simpa using hj')]
        simp only [List.length_map, List.getElem?_map, List.getElem?_eq_none hj']
        cases N.vsSorted[j - N.nodes.length]? <;> simp

theorem get_mnaA_symm (N : Net L K) (i j : Nat) : Mx.get N.mnaA i j = Mx.get N.mnaA j i := by
  rw [get_mnaA, get_mnaA]
  cases hi : N.nodes[i]? <;> cases hj : N.nodes[j]? <;> simp [Yentry_symm]

theorem get_map_re (re : K → K) (hre : re 0 = 0) (M : List (List K)) (i j : Nat) :
    Mx.get (M.map fun r => r.map re) i j = re (Mx.get M i j) := by
  unfold Mx.get
  simp only [List.getD_eq_getElem?_getD, List.getElem?_map]
  cases M[i]? with
  | none => simp [hre]
  | some r =>
    simp only [Option.map_some, Option.getD_some, List.getElem?_map]
    cases r[j]? <;> simp [hre]

/-- `Ã` is symmetric, for every network (`re` any map with `re 0 = 0`: the real part, the identity) -/
theorem Atilde_symm (re : K → K) (hre : re 0 = 0) (N : Net L K) (n : Nat) :
    (toM n n (ssAtilde re N))ᵀ = toM n n (ssAtilde re N) := by
  ext i j
  simp only [Matrix.transpose_apply, toM_apply, ssAtilde, get_map_re re hre, get_mnaA_symm N j i]


/-- the setting shared by the model-level theorems: a successful run of
`stateSpaceMatrices` whose two inverse arguments satisfy the certificate equations
(`Ã·Ainv = 1`, `(DQᵀ Ainv DQ)·S = 1`), no zero capacitance / inductance, and `re 0 = 0` (the real
part, the identity).  The symmetry of `Ã` is NOT assumed: it is `Atilde_symm`. -/
structure ModelCert (re : K → K) (N : Net L K) (cvals lvals : ValDict K) (Ainv S Delta : List (List K)) : Prop where
  hA : toM N.nY N.nY (ssAtilde re N) * toM N.nY N.nY Ainv = 1
  hre : re 0 = 0
  hS : ((toM N.nY (ssNStates N cvals lvals) (ssDQ N cvals lvals Delta))ᵀ * toM N.nY N.nY Ainv
          * toM N.nY (ssNStates N cvals lvals) (ssDQ N cvals lvals Delta))
        * toM (ssNStates N cvals lvals) (ssNStates N cvals lvals) S = 1
  hnz : ∀ v ∈ ssLambda cvals lvals, v ≠ 0

theorem ssLambda_length (cvals lvals : ValDict K) :
    (ssLambda cvals lvals).length = cvals.length + lvals.length := by
  simp [ssLambda, ValDict.vals]

/-- per-sample system for the model's own matrices -/
theorem model_sample_system (re : K → K) {N : Net L K} {cvals lvals : ValDict K} {Ainv S Delta : List (List K)}
    {m : SSMats K} (hD : ssDelta N cvals = .ok Delta)
    (hm : stateSpaceMatrices N cvals lvals Ainv S = .ok m)
    (hc : ModelCert re N cvals lvals Ainv S Delta)
    (x : Fin (ssNStates N cvals lvals) → K) (u : Fin (ssNInputs N lvals) → K) :
    let ny := N.nY; let ns := ssNStates N cvals lvals; let nu := ssNInputs N lvals
    let y := toM ny ns m.C *ᵥ x + toM ny nu m.D *ᵥ u
    let xdot := toM ns ns m.A *ᵥ x + toM ns nu m.B *ᵥ u
    toM ny ny (ssAtilde re N) *ᵥ y
        = toM ny nu (ssQS N lvals) *ᵥ u
          + toM ny ns (ssDQ N cvals lvals Delta) *ᵥ
              ((diagonal fun i : Fin ns => (ssLambda cvals lvals).getD i 0) *ᵥ xdot)
    ∧ (toM ny ns (ssDQ N cvals lvals Delta))ᵀ *ᵥ y = x := by
  intro ny ns nu y xdot
  obtain ⟨Delta', hD', hl, rfl⟩ := stateSpaceMatrices_ok hm
  rw [hD] at hD'; cases hD'
  obtain ⟨eA, eC, eB, eD⟩ := ssCore_toM ny ns nu (ssInvLambda cvals lvals)
    (ssDQ N cvals lvals Delta) (ssQS N lvals) Ainv S
  have hlen : (ssLambda cvals lvals).length = ns := by
    rw [ssLambda_length]; show _ = cvals.length + (ssColsL N lvals).length; rw [hl]
  have hL := lambda_mul_inv cvals lvals ns hlen hc.hnz
  have := StateAlg.sample_system (QS := toM ny nu (ssQS N lvals)) hc.hA (Atilde_symm re hc.hre N N.nY) hc.hS hL x u
  simp only [y, xdot]
  rw [eA, eB, eC, eD]
  exact this

/-- **C10 for the model**: realisation at complex frequency `s` -/
theorem model_realisation (re : K → K) {N : Net L K} {cvals lvals : ValDict K} {Ainv S Delta : List (List K)}
    {m : SSMats K} (hD : ssDelta N cvals = .ok Delta)
    (hm : stateSpaceMatrices N cvals lvals Ainv S = .ok m)
    (hc : ModelCert re N cvals lvals Ainv S Delta)
    (s : K) (x : Fin (ssNStates N cvals lvals) → K) (u : Fin (ssNInputs N lvals) → K)
    (hx : s • x = toM _ _ m.A *ᵥ x + toM _ _ m.B *ᵥ u) :
    let ny := N.nY; let ns := ssNStates N cvals lvals; let nu := ssNInputs N lvals
    let y := toM ny ns m.C *ᵥ x + toM ny nu m.D *ᵥ u
    let DQ := toM ny ns (ssDQ N cvals lvals Delta)
    (toM ny ny (ssAtilde re N)
        - s • (DQ * (diagonal fun i : Fin ns => (ssLambda cvals lvals).getD i 0) * DQᵀ)) *ᵥ y
      = toM ny nu (ssQS N lvals) *ᵥ u
    ∧ DQᵀ *ᵥ y = x := by
  intro ny ns nu y DQ
  obtain ⟨h1, h2⟩ := model_sample_system re hD hm hc x u
  refine ⟨?_, h2⟩
  simp only [y, DQ] at h1 h2 ⊢
  rw [sub_mulVec, h1, smul_mulVec, ← mulVec_mulVec, h2, ← mulVec_mulVec, ← hx, mulVec_smul, mulVec_smul]
  abel

/-- **C10 DC gain / C12 settling for the model**: at a rest point the outputs are the DC
solution `Ãinv·(QS u)` of the nodal system -/
theorem model_dc_gain (re : K → K) {N : Net L K} {cvals lvals : ValDict K} {Ainv S Delta : List (List K)}
    {m : SSMats K} (hD : ssDelta N cvals = .ok Delta)
    (hm : stateSpaceMatrices N cvals lvals Ainv S = .ok m)
    (hc : ModelCert re N cvals lvals Ainv S Delta)
    (x : Fin (ssNStates N cvals lvals) → K) (u : Fin (ssNInputs N lvals) → K)
    (hx : toM (ssNStates N cvals lvals) (ssNStates N cvals lvals) m.A *ᵥ x
            + toM (ssNStates N cvals lvals) (ssNInputs N lvals) m.B *ᵥ u = 0) :
    toM N.nY (ssNStates N cvals lvals) m.C *ᵥ x + toM N.nY (ssNInputs N lvals) m.D *ᵥ u
      = toM N.nY N.nY Ainv *ᵥ (toM N.nY (ssNInputs N lvals) (ssQS N lvals) *ᵥ u) := by
  obtain ⟨h1, _⟩ := model_sample_system re hD hm hc x u
  rw [hx, mulVec_zero, mulVec_zero, add_zero] at h1
  have := congrArg (toM N.nY N.nY Ainv *ᵥ ·) h1
  simpa only [mulVec_mulVec, StateAlg.Ainv_mul hc.hA, one_mulVec] using this

/-! ### dimensions -/

def IsShape (M : List (List K)) (r c : Nat) : Prop := M.length = r ∧ ∀ row ∈ M, row.length = c

theorem isShape_ofFn (r c : Nat) (f : Nat → Nat → K) : IsShape (Mx.ofFn r c f) r c :=
  ⟨Mx.ofFn_length r c f, Mx.ofFn_row_length r c f⟩

/-- **C10_dims**: `A : ns×ns`, `B : ns×nu`, `C : ny×ns`, `D : ny×nu` with
`ns = #capacitors + #inductors` (lengths of the two dictionaries) -/
theorem model_dims {N : Net L K} {cvals lvals : ValDict K} {Ainv S : List (List K)} {m : SSMats K}
    (hm : stateSpaceMatrices N cvals lvals Ainv S = .ok m) :
    let ns := cvals.length + lvals.length
    let nu := ssNInputs N lvals
    IsShape m.A ns ns ∧ IsShape m.B ns nu ∧ IsShape m.C N.nY ns ∧ IsShape m.D N.nY nu := by
  obtain ⟨Delta, _, hl, rfl⟩ := stateSpaceMatrices_ok hm
  have e : ssNStates N cvals lvals = cvals.length + lvals.length := by
    show cvals.length + (ssColsL N lvals).length = _; rw [hl]
  simp only [ssCore, e]
  exact ⟨isShape_ofFn _ _ _, isShape_ofFn _ _ _, isShape_ofFn _ _ _, isShape_ofFn _ _ _⟩

theorem idxOf?_isSome_of_mem {α : Type} [DecidableEq α] {a : α} {l : List α} (h : a ∈ l) :
    (idxOf? a l).isSome := by
  induction l with
  | nil => cases h
  | cons b l ih =>
    unfold idxOf?
    by_cases hb : b = a
    · simp [hb]
    · have : a ∈ l := by
        rcases List.mem_cons.mp h with h | h
        · exact absurd h.symm hb
        · exact h
      simp [hb, ih this]

theorem filterMap_idx_length {α : Type} [DecidableEq α] (l src : List α) (h : ∀ a ∈ l, a ∈ src) :
    (l.filterMap fun a => idxOf? a src).length = l.length := by
  induction l with
  | nil => rfl
  | cons a l ih =>
    have ha := idxOf?_isSome_of_mem (h a (List.mem_cons_self))
    obtain ⟨k, hk⟩ := Option.isSome_iff_exists.mp ha
    rw [List.filterMap_cons, hk]
    simp [ih fun b hb => h b (List.mem_cons_of_mem _ hb)]

theorem filterMap_idx_map_length {α : Type} [DecidableEq α] (l src : List α) (h : ∀ a ∈ l, a ∈ src) (f : Nat → Nat) :
    (l.filterMap fun a => (idxOf? a src).map f).length = l.length := by
  induction l with
  | nil => rfl
  | cons a l ih =>
    have ha := idxOf?_isSome_of_mem (h a (List.mem_cons_self))
    obtain ⟨k, hk⟩ := Option.isSome_iff_exists.mp ha
    rw [List.filterMap_cons, hk]
    simp [ih fun b hb => h b (List.mem_cons_of_mem _ hb)]

/-- **C10: number of input columns = number of published sources** (every network, every
dictionary) -/
theorem sources_length (N : Net L K) (lvals : ValDict K) :
    ssNInputs N lvals = (ssSources N lvals).length := by
  unfold ssNInputs ssColsS ssSources
  rw [List.length_append, List.length_append, filterMap_idx_length _ _ (fun a ha => ha),
    filterMap_idx_map_length _ _ (fun a ha => (List.mem_filter.mp ha).1)]

/-! ### the container's shape checks -/

/-- **C10_container**: the five checks accept exactly the consistent shapes -/
theorem containerCheck_ok_iff (a b c d : Nat × Nat) :
    containerCheck a b c d = .ok () ↔
      (a.1 = a.2 ∧ b.1 = a.1 ∧ c.2 = a.1 ∧ d.1 = c.1 ∧ d.2 = b.2) := by
  unfold containerCheck
  split_ifs <;> simp_all

/-! ### output rows -/

/-- `_row_for_potential` on the reference node: a zero row (the reference is never in the node map) -/
theorem rowForPotential_reference (m : NSSM L K) (M : List (List K)) (w : Nat) :
    m.rowForPotential m.net.zero M w = .ok (Mx.zeroVec w) := by
  have h : idxOf? m.net.zero m.net.nodes = none :=
    idxOf?_none_of_not_mem (fun hm => ((mem_nodes_iff m.net _).mp hm).2 rfl)
  simp [NSSM.rowForPotential, h]

/-- `_row_for_potential` on an unknown id (not in the node map, not the reference): `KeyError`
(since fix f9f472e) -/
theorem rowForPotential_unknown (m : NSSM L K) (node : L) (M : List (List K)) (w : Nat)
    (h : idxOf? node m.net.nodes = none) (hz : node ≠ m.net.zero) :
    m.rowForPotential node M w = .error .keyError := by
  simp [NSSM.rowForPotential, h, hz]

/-- … and a mapped node gets its own row -/
theorem rowForPotential_mapped (m : NSSM L K) (node : L) (M : List (List K)) (w k : Nat)
    (h : idxOf? node m.net.nodes = some k) : m.rowForPotential node M w = .ok (M.getD k []) := by
  simp [NSSM.rowForPotential, h]

/-! ### column selection: what the code does vs. what `sources` / the dictionaries promise -/

/-- position of an id among the columns of `Q` (block order) -/
def blockPos (N : Net L K) (id : String) : Option Nat := idxOf? id (N.csIds ++ N.vsIds)

/-- the columns `QS` should have: the published `sources`, in their order -/
def specColsS (N : Net L K) (lvals : ValDict K) : List Nat := (ssSources N lvals).filterMap (blockPos N)
/-- the columns `QL` should have: the inductors in the order of the dictionary (the order of `Λ`) -/
def specColsL (N : Net L K) (lvals : ValDict K) : List Nat := lvals.keys.filterMap (blockPos N)

theorem idxOf?_append_left {α : Type} [DecidableEq α] {a : α} {l1 : List α} (l2 : List α) (h : a ∈ l1) :
    idxOf? a (l1 ++ l2) = idxOf? a l1 := by
  induction l1 with
  | nil => cases h
  | cons b l ih =>
    by_cases hb : b = a
    · simp [idxOf?, hb]
    · have : a ∈ l := by
        rcases List.mem_cons.mp h with h | h
        · exact absurd h.symm hb
        · exact h
      simp [idxOf?, hb, ih this]

theorem idxOf?_append_right {α : Type} [DecidableEq α] {a : α} {l1 : List α} (l2 : List α) (h : a ∉ l1) :
    idxOf? a (l1 ++ l2) = (idxOf? a l2).map (l1.length + ·) := by
  induction l1 with
  | nil => cases h' : idxOf? a l2 <;> simp [h']
  | cons b l ih =>
    have hb : ¬ b = a := fun e => h (e ▸ List.mem_cons_self)
    have hl : a ∉ l := fun e => h (List.mem_cons_of_mem _ e)
    simp only [List.cons_append, idxOf?, hb, if_false, ih hl, Option.map_map, List.length_cons]
    congr 1
    funext k
    simp only [Function.comp]; omega

/-- an id cannot be both a current source and an ideal voltage source -/
theorem csIds_not_vsIds (N : Net L K) (h : N.ids.Nodup) {id : String} (hc : id ∈ N.csIds) : id ∉ N.vsIds := by
  intro hv
  rw [Net.csIds, mem_sortL, List.mem_map] at hc
  rw [Net.vsIds, mem_sortL, List.mem_map] at hv
  obtain ⟨b, hb, rfl⟩ := hc
  obtain ⟨b', hb', he⟩ := hv
  have hbm := (List.mem_filter.mp hb).1
  have hbm' := (List.mem_filter.mp hb').1
  have : b' = b := List.inj_on_of_nodup_map h hbm' hbm he
  subst this
  have h1 := (List.mem_filter.mp hb).2
  have h2 := Ival_of_VS (List.mem_filter.mp hb').2
  simp [Elem.isCS, h2] at h1

/-- **C10, input and inductor columns** (full strength since fix 3361ab5): column `k` of `QS`
is the block position of `sources[k]`, column `k` of `QL` the block position of the `k`-th key of
`l_values` — for every network with distinct ids and every dictionary whose keys are ideal voltage
sources (short circuits) of the network; no hypothesis on names or listing order -/
theorem cols_follow_sources (N : Net L K) (lvals : ValDict K) (hids : N.ids.Nodup)
    (hkeys : ∀ id ∈ lvals.keys, id ∈ N.vsIds) :
    ssColsS N lvals = specColsS N lvals ∧ ssColsL N lvals = specColsL N lvals := by
  constructor
  · unfold ssColsS specColsS ssSources blockPos
    rw [List.filterMap_append]
    congr 1
    · exact List.filterMap_congr fun a ha => (idxOf?_append_left _ ha).symm
    · refine List.filterMap_congr fun a ha => ?_
      have hv : a ∈ N.vsIds := (List.mem_filter.mp ha).1
      have : a ∉ N.csIds := fun hc => csIds_not_vsIds N hids hc hv
      rw [idxOf?_append_right _ this]; rfl
  · unfold ssColsL specColsL blockPos
    refine List.filterMap_congr fun a ha => ?_
    have : a ∉ N.csIds := fun hc => csIds_not_vsIds N hids hc (hkeys a ha)
    rw [idxOf?_append_right _ this]; rfl

/-! ### TransientSolution wiring -/

theorem mapM_cons_ok {α β ε : Type} (f : α → Except ε β) {a : α} {l : List α} {out : List β}
    (h : (a :: l).mapM f = .ok out) : ∃ b bs, f a = .ok b ∧ l.mapM f = .ok bs ∧ out = b :: bs := by
  rw [List.mapM_cons] at h
  cases hf : f a with
  | error e => rw [hf] at h; cases h
  | ok b =>
    cases hr : l.mapM f with
    | error e => rw [hf, hr] at h; cases h
    | ok bs =>
      rw [hf, hr] at h
      refine ⟨b, bs, rfl, rfl, ?_⟩
      cases h; rfl

/-- **C12_input_order**: row `k` of `_u` is the waveform supplied for `sources[k]` -/
theorem transientU_ok {sources : List String} {input : String → Option (List K)} {U : List (List K)}
    (h : transientU sources input = .ok U) : U.map some = sources.map input := by
  unfold transientU at h
  induction sources generalizing U with
  | nil =>
    rw [List.mapM_nil] at h
    cases h; rfl
  | cons s rest ih =>
    obtain ⟨b, bs, hb, hbs, rfl⟩ := mapM_cons_ok _ h
    have hs : input s = some b := by
      cases hi : input s with
      | none => rw [hi] at hb; cases hb
      | some row => rw [hi] at hb; cases hb; rfl
    simp [hs, ih hbs]

theorem dotL_zero_right (r : List K) (n : Nat) : dotL r (Mx.zeroVec n : List K) = 0 := by
  unfold dotL Mx.zeroVec
  induction r generalizing n with
  | nil => simp
  | cons a r ih =>
    cases n with
    | zero => simp
    | succ n => simp [List.replicate_succ, ih n]

theorem transientOutput_get (nS : Nat) (rc rd : List K) (X U : List (List K)) (t : Nat) (ht : t < nS) :
    (transientOutput nS rc rd X U).getD t 0 = dotL rc (sampleCol X t) + dotL rd (sampleCol U t) := by
  simp [transientOutput, List.getD_eq_getElem?_getD, ht]

end
end CC
