/-
  CC.Proofs.LoadCircuit — helper lemmas for Properties/C17Circuit.lean: the circuit loader of
  CC/Model/Load.lean (`generateComponentObj`, `callCompFactory`, `bindArgs`, `runGuards`,
  `buildValue`) on arbitrary entry dictionaries.  Mathlib-free.
-/
import CC.Proofs.LoadLemmas
set_option linter.unusedSimpArgs false
namespace CC.Load
open CC.Gen.Load

/-! ### the four guarded reads of `generate_component` -/

theorem compReads_eq :
    compRead "component_id" = { var := "component_id", key := "id", read := .get, exc := "UnidentifiedComponent" } ∧
    compRead "component_value" = { var := "component_value", key := "value", read := .pop, exc := "IncorrectComponentInformation" } ∧
    compRead "component_type" = { var := "component_type", key := "type", read := .pop, exc := "IncorrectComponentInformation" } ∧
    compRead "component_nodes" = { var := "component_nodes", key := "nodes", read := .get, exc := "IncorrectComponentInformation" } := by
  decide

/-- table lookup, constructor call and the translation of a `TypeError`: what `generate_component`
does once it holds the four fields -/
def dispatchC (id nodes ty value : J) : Except Err Comp :=
  match ty with
  | .arr _ => .error .typeError
  | .obj _ => .error .typeError
  | .str kind =>
    match circuitComponentTranslators.find? (fun p => p.1 == kind) with
    | none => .error (.other "UnknownCircuitComponent")
    | some (_, fname) =>
      match componentFactories.find? (fun f => f.name == fname) with
      | none => .error (.other "unknown constructor")
      | some f =>
        match callCompFactory f id nodes value with
        | .error .typeError => .error (.other "IncorrectComponentInformation")
        | r => r
  | _ => .error (.other "UnknownCircuitComponent")

/-- `generate_component` as a function of the four fields of the entry (`none` = key absent):
the reads happen in the order id, value, type, nodes and the first missing key decides the error -/
def fromFields : Option J → Option J → Option J → Option J → Except Err Comp
  | none, _, _, _ => .error (.other "UnidentifiedComponent")
  | some _, none, _, _ => .error (.other "IncorrectComponentInformation")
  | some _, some _, none, _ => .error (.other "IncorrectComponentInformation")
  | some _, some _, some _, none => .error (.other "IncorrectComponentInformation")
  | some id, some value, some ty, some nodes => dispatchC id nodes ty value

theorem generateComponentObj_fields (o : Obj) :
    (generateComponentObj o).1
      = fromFields (Obj.find o "id") (Obj.find o "value") (Obj.find o "type") (Obj.find o "nodes") := by
  obtain ⟨e1, e2, e3, e4⟩ := compReads_eq
  have q3 : Obj.find (Obj.del o "value") "type" = Obj.find o "type" := Obj.find_del_ne _ _ _ (by decide)
  have q4 : Obj.find (Obj.del (Obj.del o "value") "type") "nodes" = Obj.find o "nodes" := by
    rw [Obj.find_del_ne _ _ _ (by decide), Obj.find_del_ne _ _ _ (by decide)]
  unfold generateComponentObj
  simp only [e1, e2, e3, e4, Obj.read]
  cases h1 : Obj.find o "id" with
  | none => rfl
  | some id =>
    simp only []
    cases h2 : Obj.find o "value" with
    | none => rfl
    | some value =>
      simp only [q3]
      cases h3 : Obj.find o "type" with
      | none => rfl
      | some ty =>
        simp only [q4]
        cases h4 : Obj.find o "nodes" with
        | none => rfl
        | some nodes =>
          simp only [fromFields, dispatchC]
          have hl : componentLookupExc = "UnknownCircuitComponent" := rfl
          have hc : componentCallExc = "IncorrectComponentInformation" := rfl
          cases ty <;> simp only [hl]
          rename_i kind
          cases circuitComponentTranslators.find? (fun p => p.1 == kind) with
          | none => rfl
          | some p =>
            obtain ⟨k', fname⟩ := p
            simp only []
            cases componentFactories.find? (fun f => f.name == fname) with
            | none => rfl
            | some f =>
              simp only [hc]
              cases callCompFactory f id nodes value with
              | ok c => rfl
              | error e => cases e <;> rfl

theorem generateComponent_obj (o : Obj) : (generateComponent (.obj o)).1 = (generateComponentObj o).1 := rfl


/-! ### keyword binding -/

/-- the literal default of a parameter as the constructor sees it (`.null` stands for "no default") -/
def dfltJ : Option Int → J
  | some n => .num n
  | none => .null

/-- the arguments a constructor with parameters `params` receives from the value block `vo`: for every
parameter the written value, else the literal default -/
def boundOf (params : List (String × Option Int)) (vo : Obj) : Obj :=
  params.map fun p => (p.1, (Obj.find vo p.1).getD (dfltJ p.2))

theorem bindParams_ok (params : List (String × Option Int)) (vo : Obj)
    (h : ∀ p ∈ params, p.2 = none → Obj.find vo p.1 ≠ none) :
    bindParams params vo = .ok (boundOf params vo) := by
  induction params with
  | nil => rfl
  | cons p r ih =>
    obtain ⟨k, d⟩ := p
    have ih' := ih (fun q hq => h q (List.mem_cons_of_mem _ hq))
    simp only [bindParams, ih', boundOf, List.map_cons]
    cases hf : Obj.find vo k with
    | some v => rfl
    | none =>
      cases d with
      | some n => rfl
      | none => exact absurd hf (h (k, none) (List.mem_cons_self ..) rfl)

theorem bindParams_error (params : List (String × Option Int)) (vo : Obj) (e : Err)
    (h : bindParams params vo = .error e) : e = .typeError := by
  induction params with
  | nil => cases h
  | cons q r ih =>
    obtain ⟨k, d⟩ := q
    simp only [bindParams] at h
    cases hr : bindParams r vo with
    | error e' =>
      rw [hr] at h
      cases h
      exact ih hr
    | ok rest =>
      rw [hr] at h
      cases hf : Obj.find vo k with
      | some v => rw [hf] at h; cases h
      | none =>
        rw [hf] at h
        cases d with
        | some n => cases h
        | none => cases h; rfl

/-- a required parameter without a value: `TypeError` (missing argument) -/
theorem bindParams_missing (params : List (String × Option Int)) (vo : Obj) (p : String)
    (hp : (p, none) ∈ params) (hf : Obj.find vo p = none) :
    bindParams params vo = .error .typeError := by
  induction params with
  | nil => cases hp
  | cons q r ih =>
    obtain ⟨k, d⟩ := q
    rcases List.mem_cons.mp hp with e | hr
    · cases e
      simp only [bindParams, hf]
      cases hr : bindParams r vo with
      | error e => rw [bindParams_error r vo e hr]
      | ok rest => rfl
    · simp only [bindParams, ih hr]

/-- every key of the value block is a keyword of the signature -/
def keysKnown (params : List (String × Option Int)) (vo : Obj) : Bool :=
  vo.all fun p => params.any fun q => q.1 == p.1

theorem bindArgs_ok (params : List (String × Option Int)) (vo : Obj)
    (hdup : dupKeys vo = false) (hkeys : keysKnown params vo = true)
    (h : ∀ p ∈ params, p.2 = none → Obj.find vo p.1 ≠ none) :
    bindArgs params vo = .ok (boundOf params vo) := by
  have hany : (vo.any fun p => !(params.any fun q => q.1 == p.1)) = false := by
    simp only [keysKnown, List.all_eq_true] at hkeys
    rw [List.any_eq_false]
    intro p hp
    simp [hkeys p hp]
  simp only [bindArgs, hdup, hany]
  exact bindParams_ok params vo h

/-- every failure of Python's keyword binding is a `TypeError` -/
theorem bindArgs_error (params : List (String × Option Int)) (vo : Obj) (e : Err)
    (h : bindArgs params vo = .error e) : e = .typeError := by
  unfold bindArgs at h
  split at h
  · cases h; rfl
  · split at h
    · cases h; rfl
    · exact bindParams_error params vo e h

/-- a key that is no keyword of the signature: `TypeError` (unexpected keyword argument) -/
theorem bindArgs_unknown_key (params : List (String × Option Int)) (vo : Obj)
    (hkeys : keysKnown params vo = false) : bindArgs params vo = .error .typeError := by
  have hany : (vo.any fun p => !(params.any fun q => q.1 == p.1)) = true := by
    simp only [keysKnown, List.all_eq_false] at hkeys
    obtain ⟨p, hp, hn⟩ := hkeys
    rw [List.any_eq_true]
    refine ⟨p, hp, ?_⟩
    cases hx : (params.any fun q => q.1 == p.1)
    · rfl
    · exact absurd hx hn
  unfold bindArgs
  split
  · rfl
  · simp [hany]

theorem bindArgs_missing (params : List (String × Option Int)) (vo : Obj) (p : String)
    (hp : (p, none) ∈ params) (hf : Obj.find vo p = none) :
    bindArgs params vo = .error .typeError := by
  unfold bindArgs
  split
  · rfl
  · split
    · rfl
    · exact bindParams_missing params vo p hp hf

/-! ### guards and the value dictionary -/

theorem runGuards_ok (bound : Obj) (guards : List (String × Int))
    (h : ∀ g ∈ guards, guardLt ((Obj.find bound g.1).getD .null) g.2 = some false) :
    runGuards bound guards = .ok () := by
  induction guards with
  | nil => rfl
  | cons g r ih =>
    obtain ⟨p, b⟩ := g
    simp only [runGuards, h (p, b) (List.mem_cons_self ..)]
    exact ih (fun q hq => h q (List.mem_cons_of_mem _ hq))

theorem buildValue_ok (bound : Obj) (value : List (String × VSrc))
    (h : ∀ kv ∈ value, (kv.2.eval bound).isSome = true) :
    buildValue bound value = .ok (value.map fun kv => (kv.1, (kv.2.eval bound).getD .null)) := by
  induction value with
  | nil => rfl
  | cons kv r ih =>
    obtain ⟨k, s⟩ := kv
    have h0 := h (k, s) (List.mem_cons_self ..)
    have ih' := ih (fun q hq => h q (List.mem_cons_of_mem _ hq))
    simp only [buildValue, ih', List.map_cons]
    cases hs : s.eval bound with
    | none => simp [hs] at h0
    | some v => rfl

/-! ### the constructor call -/

/-- the value block is acceptable to constructor `f`: no key twice, every key a keyword of `f` (neither
`id` nor `nodes`), every parameter without default written, every guard passes (`P < bound` is false —
in particular `P` is a number), and `.real` / `.imag` are taken of numbers only -/
def accepts (f : CompFactory) (vo : Obj) : Bool :=
  !dupKeys vo && !Obj.has vo "id" && !Obj.has vo "nodes" && keysKnown f.params vo &&
  f.params.all (fun p => p.2.isSome || Obj.has vo p.1) &&
  f.guards.all (fun g => guardLt ((Obj.find (boundOf f.params vo) g.1).getD .null) g.2 == some false) &&
  f.value.all (fun kv => (kv.2.eval (boundOf f.params vo)).isSome)

/-- the component `f` builds from an accepted value block -/
def builtBy (f : CompFactory) (id nodes : J) (vo : Obj) : Comp :=
  { ty := f.kind, id := id, nodes := nodes,
    value := f.value.map fun kv => (kv.1, (kv.2.eval (boundOf f.params vo)).getD .null) }

theorem callCompFactory_ok (f : CompFactory) (id nodes : J) (vo : Obj) (h : accepts f vo = true) :
    callCompFactory f id nodes (.obj vo) = .ok (builtBy f id nodes vo) := by
  simp only [accepts, Bool.and_eq_true, Bool.not_eq_true', List.all_eq_true, Bool.or_eq_true, beq_iff_eq] at h
  obtain ⟨⟨⟨⟨⟨⟨hdup, hid⟩, hnodes⟩, hkeys⟩, hreq⟩, hg⟩, hv⟩ := h
  have hb : bindArgs f.params vo = .ok (boundOf f.params vo) := by
    refine bindArgs_ok _ _ hdup hkeys ?_
    intro p hp hnone
    rcases hreq p hp with h1 | h1
    · simp [hnone] at h1
    · intro hf; simp [Obj.has, hf] at h1
  simp only [callCompFactory, hid, hnodes, Bool.or_self, Bool.false_eq_true, if_false, hb,
    runGuards_ok _ _ hg, buildValue_ok _ _ hv, builtBy]

/-- a key of the value block that is no keyword of the constructor is **rejected** (`TypeError`:
unexpected keyword argument), not ignored -/
theorem callCompFactory_unknown_key (f : CompFactory) (id nodes : J) (vo : Obj)
    (hkeys : keysKnown f.params vo = false) :
    callCompFactory f id nodes (.obj vo) = .error .typeError := by
  simp only [callCompFactory]
  split
  · rfl
  · rw [bindArgs_unknown_key _ _ hkeys]

/-- a parameter without default that the value block does not write: `TypeError` -/
theorem callCompFactory_missing (f : CompFactory) (id nodes : J) (vo : Obj) (p : String)
    (hp : (p, none) ∈ f.params) (hf : Obj.find vo p = none) :
    callCompFactory f id nodes (.obj vo) = .error .typeError := by
  simp only [callCompFactory]
  split
  · rfl
  · rw [bindArgs_missing _ _ p hp hf]

/-- a value block that is no mapping: `TypeError` -/
theorem callCompFactory_not_mapping (f : CompFactory) (id nodes value : J) (h : ∀ vo, value ≠ .obj vo) :
    callCompFactory f id nodes value = .error .typeError := by
  cases value <;> first | rfl | exact absurd rfl (h _)

/-! ### what the constructor receives -/

theorem find_boundOf (params : List (String × Option Int)) (vo : Obj) (p : String) :
    Obj.find (boundOf params vo) p
      = (params.find? (fun q => q.1 == p)).map (fun q => (Obj.find vo p).getD (dfltJ q.2)) := by
  induction params with
  | nil => rfl
  | cons q r ih =>
    obtain ⟨k, d⟩ := q
    by_cases hk : k = p
    · subst hk; simp [boundOf, Obj.find, List.find?]
    · have ih' : Obj.find (List.map (fun p => (p.1, (Obj.find vo p.1).getD (dfltJ p.2))) r) p = _ := ih
      have hb : (k == p) = false := by simp [hk]
      simp [boundOf, Obj.find, List.find?, hk, hb, ih']

theorem find?_of_mem_nodup (params : List (String × Option Int)) (p : String) (d : Option Int)
    (hm : (p, d) ∈ params) (hn : (params.map (·.1)).Nodup) :
    params.find? (fun q => q.1 == p) = some (p, d) := by
  induction params with
  | nil => cases hm
  | cons q r ih =>
    obtain ⟨k, d'⟩ := q
    simp only [List.map_cons, List.nodup_cons] at hn
    rcases List.mem_cons.mp hm with e | hr
    · cases e; simp [List.find?]
    · have hk : k ≠ p := by
        intro e; subst e
        exact hn.1 (List.mem_map.mpr ⟨(k, d), hr, rfl⟩)
      have hb : (k == p) = false := by simp [hk]
      simp [List.find?, hb, ih hr hn.2]

/-- a written parameter reaches the constructor as written -/
theorem boundOf_given (params : List (String × Option Int)) (vo : Obj) (p : String) (d : Option Int) (v : J)
    (hm : (p, d) ∈ params) (hn : (params.map (·.1)).Nodup) (hf : Obj.find vo p = some v) :
    Obj.find (boundOf params vo) p = some v := by
  rw [find_boundOf, find?_of_mem_nodup params p d hm hn]; simp [hf]

/-- an optional parameter that is not written reaches the constructor as its literal default -/
theorem boundOf_default (params : List (String × Option Int)) (vo : Obj) (p : String) (n : Int)
    (hm : (p, some n) ∈ params) (hn : (params.map (·.1)).Nodup) (hf : Obj.find vo p = none) :
    Obj.find (boundOf params vo) p = some (.num n) := by
  rw [find_boundOf, find?_of_mem_nodup params p _ hm hn]; simp [hf, dfltJ]

/-- lookup in a dictionary built by mapping over a list with distinct keys -/
theorem find_map_of_mem {α : Type} (l : List (String × α)) (g : String × α → J) (kv : String × α)
    (hm : kv ∈ l) (hn : (l.map (·.1)).Nodup) :
    Obj.find (l.map fun x => (x.1, g x)) kv.1 = some (g kv) := by
  induction l with
  | nil => cases hm
  | cons q r ih =>
    simp only [List.map_cons, List.nodup_cons] at hn
    rcases List.mem_cons.mp hm with e | hr
    · subst e; simp [Obj.find]
    · have hk : q.1 ≠ kv.1 := by
        intro e
        exact hn.1 (List.mem_map.mpr ⟨kv, hr, e.symm⟩)
      simp [Obj.find, hk, ih hr hn.2]

/-! ### the stored value fields -/

def VSrc.param? : VSrc → Option String
  | .param p => some p
  | .re p => some p
  | .im p => some p
  | .const _ => none

/-- shape conditions on a generated constructor description: parameter names and value keys are
distinct, every value field and every guard refers to a parameter, no parameter is called `id` / `nodes` -/
def CompFactory.wellFormed (f : CompFactory) : Bool :=
  decide (f.params.map (·.1)).Nodup && decide (f.value.map (·.1)).Nodup &&
  f.value.all (fun kv => match kv.2.param? with | some p => f.params.any (fun q => q.1 == p) | none => true) &&
  f.guards.all (fun g => f.params.any (fun q => q.1 == g.1)) &&
  !f.params.any (fun q => q.1 == "id" || q.1 == "nodes")

/-- what the description gives for parameter `p`: the written value, else the literal default of `p` -/
def given (f : CompFactory) (vo : Obj) (p : String) : J :=
  (Obj.find vo p).getD (dfltJ ((f.params.find? (fun q => q.1 == p)).bind (·.2)))

theorem bound_eq_given (f : CompFactory) (vo : Obj) (p : String)
    (hp : f.params.any (fun q => q.1 == p) = true) :
    (Obj.find (boundOf f.params vo) p).getD .null = given f vo p := by
  rw [find_boundOf]
  cases hq : f.params.find? (fun q => q.1 == p) with
  | none =>
    rw [List.find?_eq_none] at hq
    rw [List.any_eq_true] at hp
    obtain ⟨q, hq1, hq2⟩ := hp
    exact absurd hq2 (hq q hq1)
  | some q => simp [given, hq]

/-- `P.real` of what Python accepts there (`.null`: `AttributeError`) -/
def reOf : J → J
  | .num q => .num q
  | .bool b => .num (if b then 1 else 0)
  | .cx z => .num z.re
  | _ => .null
/-- `P.imag` -/
def imOf : J → J
  | .num _ => .num 0
  | .bool _ => .num 0
  | .cx z => .num z.im
  | _ => .null

/-- the stored field for a value source, in terms of what the description gives -/
def VSrc.stored (f : CompFactory) (vo : Obj) : VSrc → J
  | .param p => given f vo p
  | .const n => .num n
  | .re p => reOf (given f vo p)
  | .im p => imOf (given f vo p)

theorem eval_eq_stored (f : CompFactory) (vo : Obj) (s : VSrc)
    (hp : (match s.param? with | some p => f.params.any (fun q => q.1 == p) | none => true) = true) :
    (s.eval (boundOf f.params vo)).getD .null = s.stored f vo := by
  cases s with
  | param p => simp only [VSrc.eval, VSrc.stored, Option.getD_some]; exact bound_eq_given f vo p hp
  | const n => rfl
  | re p =>
    simp only [VSrc.eval, VSrc.stored, bound_eq_given f vo p hp]
    cases given f vo p <;> rfl
  | im p =>
    simp only [VSrc.eval, VSrc.stored, bound_eq_given f vo p hp]
    cases given f vo p <;> rfl

theorem builtBy_value (f : CompFactory) (hwf : f.wellFormed = true) (id nodes : J) (vo : Obj) :
    (builtBy f id nodes vo).value = f.value.map fun kv => (kv.1, kv.2.stored f vo) := by
  simp only [CompFactory.wellFormed, Bool.and_eq_true, List.all_eq_true] at hwf
  obtain ⟨⟨⟨⟨_, _⟩, hv⟩, _⟩, _⟩ := hwf
  simp only [builtBy]
  apply List.map_congr_left
  intro kv hkv
  rw [eval_eq_stored f vo kv.2 (hv kv hkv)]

theorem builtBy_find (f : CompFactory) (hwf : f.wellFormed = true) (id nodes : J) (vo : Obj)
    (k : String) (s : VSrc) (hm : (k, s) ∈ f.value) :
    Obj.find (builtBy f id nodes vo).value k = some (s.stored f vo) := by
  rw [builtBy_value f hwf]
  simp only [CompFactory.wellFormed, Bool.and_eq_true, decide_eq_true_eq] at hwf
  exact find_map_of_mem f.value (fun kv => kv.2.stored f vo) (k, s) hm hwf.1.1.1.2

theorem given_written (f : CompFactory) (vo : Obj) (p : String) (v : J) (h : Obj.find vo p = some v) :
    given f vo p = v := by simp [given, h]

theorem given_default (f : CompFactory) (hwf : f.wellFormed = true) (vo : Obj) (p : String) (n : Int)
    (hm : (p, some n) ∈ f.params) (h : Obj.find vo p = none) : given f vo p = .num n := by
  simp only [CompFactory.wellFormed, Bool.and_eq_true, decide_eq_true_eq] at hwf
  simp [given, h, find?_of_mem_nodup f.params p _ hm hwf.1.1.1.1, dfltJ]

/-- with well-formed `f`, `id` / `nodes` in the value block are unknown keywords anyway -/
theorem keysKnown_no_id (f : CompFactory) (hwf : f.wellFormed = true) (vo : Obj)
    (hk : keysKnown f.params vo = true) : Obj.has vo "id" = false ∧ Obj.has vo "nodes" = false := by
  simp only [CompFactory.wellFormed, Bool.and_eq_true, Bool.not_eq_true', List.any_eq_false] at hwf
  have hno := hwf.2
  have key : ∀ k, (k = "id" ∨ k = "nodes") → Obj.has vo k = false := by
    intro k hkk
    induction vo with
    | nil => rfl
    | cons q r ih =>
      obtain ⟨k', v⟩ := q
      simp only [keysKnown, List.all_cons, Bool.and_eq_true, List.any_eq_true] at hk
      obtain ⟨⟨q, hq1, hq2⟩, hr⟩ := hk
      have hne : k' ≠ k := by
        intro e; subst e
        have := hno q hq1
        simp only [beq_iff_eq] at hq2
        rcases hkk with e | e <;> subst e <;> simp [hq2] at this
      have := ih (by simpa [keysKnown] using hr)
      simp only [Obj.has, Obj.find, hne, if_false] at this ⊢
      exact this
  exact ⟨key _ (Or.inl rfl), key _ (Or.inr rfl)⟩

/-! ### the table -/

/-- the constructor description the circuit table gives for a kind -/
def factoryOf (kind : String) : Option CompFactory :=
  match circuitComponentTranslators.find? (fun p => p.1 == kind) with
  | none => none
  | some (_, fname) => componentFactories.find? (fun f => f.name == fname)

theorem dispatchC_factory (kind : String) (f : CompFactory) (hf : factoryOf kind = some f) (id nodes value : J) :
    dispatchC id nodes (.str kind) value =
      match callCompFactory f id nodes value with
      | .error .typeError => .error (.other "IncorrectComponentInformation")
      | r => r := by
  unfold factoryOf at hf
  unfold dispatchC
  cases hp : circuitComponentTranslators.find? (fun p => p.1 == kind) with
  | none => rw [hp] at hf; cases hf
  | some p =>
    obtain ⟨k', fname⟩ := p
    rw [hp] at hf
    simp only [] at hf
    simp only [hp, hf]

theorem dispatchC_unknown (kind : String) (h : kind ∉ circuitComponentTranslators.map (·.1)) (id nodes value : J) :
    dispatchC id nodes (.str kind) value = .error (.other "UnknownCircuitComponent") := by
  have : circuitComponentTranslators.find? (fun p => p.1 == kind) = none := by
    rw [List.find?_eq_none]
    intro p hp hk
    exact h (List.mem_map.mpr ⟨p, hp, by simpa using hk⟩)
  simp only [dispatchC, this]

/-- a sufficient, readable condition for `accepts` -/
theorem accepts_of (f : CompFactory) (hwf : f.wellFormed = true) (vo : Obj)
    (hdup : dupKeys vo = false) (hkeys : keysKnown f.params vo = true)
    (hreq : ∀ p, (p, none) ∈ f.params → Obj.find vo p ≠ none)
    (hg : ∀ p b, (p, b) ∈ f.guards → ∃ q : Rat, given f vo p = .num q ∧ ¬ q < (b : Rat))
    (hre : ∀ k p, ((k, VSrc.re p) ∈ f.value ∨ (k, VSrc.im p) ∈ f.value) →
      (∃ q, given f vo p = .num q) ∨ (∃ z, given f vo p = .cx z)) :
    accepts f vo = true := by
  obtain ⟨hid, hnodes⟩ := keysKnown_no_id f hwf vo hkeys
  simp only [CompFactory.wellFormed, Bool.and_eq_true, List.all_eq_true] at hwf
  obtain ⟨⟨⟨⟨_, _⟩, hv⟩, hgp⟩, _⟩ := hwf
  simp only [accepts, Bool.and_eq_true, Bool.not_eq_true', List.all_eq_true, Bool.or_eq_true, beq_iff_eq]
  refine ⟨⟨⟨⟨⟨⟨hdup, hid⟩, hnodes⟩, hkeys⟩, ?_⟩, ?_⟩, ?_⟩
  · intro p hp
    obtain ⟨k, d⟩ := p
    cases d with
    | some n => exact Or.inl rfl
    | none =>
      right
      have := hreq k hp
      cases hf : Obj.find vo k with
      | none => exact absurd hf this
      | some v => simp [Obj.has, hf]
  · intro g hgm
    obtain ⟨p, b⟩ := g
    obtain ⟨q, hq, hlt⟩ := hg p b hgm
    rw [bound_eq_given f vo p (hgp (p, b) hgm), hq]
    simp [guardLt, hlt]
  · intro kv hkv
    obtain ⟨k, s⟩ := kv
    have hp := hv (k, s) hkv
    cases s with
    | param p => rfl
    | const n => rfl
    | re p =>
      simp only [VSrc.eval, bound_eq_given f vo p hp]
      rcases hre k p (Or.inl hkv) with ⟨q, hq⟩ | ⟨z, hz⟩
      · rw [hq]; rfl
      · rw [hz]; rfl
    | im p =>
      simp only [VSrc.eval, bound_eq_given f vo p hp]
      rcases hre k p (Or.inr hkv) with ⟨q, hq⟩ | ⟨z, hz⟩
      · rw [hq]; rfl
      · rw [hz]; rfl

end CC.Load
