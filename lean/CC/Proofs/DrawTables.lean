/-
  CC.Proofs.DrawTables — decidable predicates on the *generated* tables
  (CC/Gen/DrawTables.lean) and the lemmas that turn them into statements about the
  interpreter of CC/Model/Draw.lean.  Every `decide` here runs over a complete finite
  generated table; when /repo changes a table, these are the obligations that break.
-/
import CC.Proofs.DrawParser
set_option linter.unusedSectionVars false
namespace CC.Draw

/-! ### polarity of the translators -/

/-- the expression does not look at the reversal flag -/
def VExpr.revFree : VExpr → Bool
  | .ifNotRev _ _ => false
  | .re e => e.revFree
  | .neg e => e.revFree
  | _ => true

/-- `e if not element.is_reverse else -e` with `e` independent of the flag -/
def VExpr.isSigned : VExpr → Bool
  | .ifNotRev t (.neg f) => t == f && t.revFree
  | _ => false

/-- a translator case treats the reversal flag consistently: only an amplitude argument (`V` or
`I`) may look at the flag; if the case swaps the terminals under `reverse`, every amplitude
argument is negated with them (`e if not element.is_reverse else -e`), so that the source
contributes its element value from `start` to `end` either way; if it does not swap, nothing
looks at the flag.  (Passive symbols swap too since 006d781: same element, reversed reference
direction.) -/
def TrCase.polarityOK (c : TrCase) : Bool :=
  let isAmp := fun (a : String × VExpr) => a.1 == "V" || a.1 == "I"
  match c.nodes with
  | .pairSwapIfRev =>
    c.args.all (fun a => if isAmp a then a.2.isSigned else a.2.revFree) && (c.args.filter isAmp).length ≤ 1
  | _ => c.args.all (·.2.revFree)

/-- every two-terminal translator lists its terminals `(start, end)`, swapped under `reverse`
(006d781: annotations flip their arrow for every reversed element, so must the terminals) -/
def allTwoTerminalSwap : Bool :=
  Gen.translators.all fun t => t.2.all fun c =>
    match c.ctor, c.nodes with
    | none, _ => true
    | some _, .single => true
    | some _, .pairSwapIfRev => true
    | some _, .pair => false

def translatorPolarityOK (t : String × List TrCase) : Bool := t.2.all TrCase.polarityOK

/-- evaluation of a signed argument: the attribute value, negated when the symbol is reversed -/
theorem evalV_signed (π : Rat) (s : Sym) (e : VExpr) :
    evalV π s (.ifNotRev e (.neg e)) = if s.rev then evalV π s (.neg e) else evalV π s e := by
  cases h : s.rev <;> simp [evalV, h]

/-- a flag-free expression evaluates the same on a symbol and on its reversed twin -/
theorem evalV_revFree (π : Rat) (s : Sym) (r : Bool) (e : VExpr) (h : e.revFree = true) :
    evalV π { s with rev := r } e = evalV π s e := by
  induction e with
  | attr a => rfl
  | re e ih => simp only [VExpr.revFree] at h; simp [evalV, ih h]
  | neg e ih => simp only [VExpr.revFree] at h; simp [evalV, ih h]
  | ifNotRev t f _ _ => simp [VExpr.revFree] at h
  | degConv a fl => rfl
  | lit r => rfl
  | inf => rfl
  | str t => rfl

theorem nodeTuple_swap (rev : Bool) (a b : String) (rest : List String) :
    nodeTuple .pairSwapIfRev rev (a :: b :: rest) = .ok (if rev then [b, a] else [a, b]) := rfl

/-! ### class facts -/

/-- every node class carries a name (so node symbols are circuit elements and their position
is one of `all_nodes`) -/
def nodeClassesNamed : Bool :=
  Gen.elemClasses.all fun c => !(c.cls == "Node" || c.ancestors.contains "Node") || c.named

/-- class names of the table are distinct (`classInfo` finds *the* class) -/
def classNamesDistinct : Bool := (Gen.elemClasses.map (·.cls)).Nodup

/-- the translator map refers only to translators and constructors that were extracted -/
def translatorMapClosed : Bool :=
  Gen.translatorMap.all (fun kv => (Gen.translators.lookup kv.2).isSome) &&
  Gen.translators.all (fun t => t.2.all fun c =>
    match c.ctor with
    | none => true
    | some k => (Gen.ctors.find? (·.name = k)).isSome)

/-- every symbol class that carries a name has a translator entry; `Admittance` is the one class
the map of the pinned tree lacks (such a drawing raises `UnknownTranslator`) -/
def namedClassesTranslated : Bool :=
  Gen.elemClasses.all fun c => !c.named || c.cls == "Admittance" || (Gen.translatorMap.lookup c.cls).isSome

/-- a sine-referenced phase is shifted by 90 when the phase is given in degrees (`deg`), by π/2
otherwise: every class with a `sin` shift has the degree alternative -/
def sinShiftInDegrees : Bool :=
  Gen.elemClasses.all fun c =>
    match c.sinShift with
    | none => true
    | some (_, _, alt) => alt == some ("deg", 90)

def translatorMapKeysDistinct : Bool := (Gen.translatorMap.map (·.1)).Nodup

/-! ### `toSet` -/
section
variable {P : Type} [DecidableEq P]

theorem toSet_aux (l acc : List P) (hacc : acc.Nodup) :
    (l.foldl (fun acc a => sadd a acc) acc).Nodup ∧
      ∀ x, x ∈ l.foldl (fun acc a => sadd a acc) acc ↔ x ∈ l ∨ x ∈ acc := by
  induction l generalizing acc with
  | nil => exact ⟨hacc, fun x => by simp⟩
  | cons a l ih =>
    obtain ⟨h1, h2⟩ := ih (sadd a acc) (nodup_sadd hacc)
    refine ⟨h1, fun x => ?_⟩
    rw [List.foldl_cons, h2, mem_sadd, List.mem_cons]
    tauto

theorem nodup_toSet (l : List P) : (toSet l).Nodup := (toSet_aux l [] List.nodup_nil).1

theorem mem_toSet {l : List P} {x : P} : x ∈ toSet l ↔ x ∈ l := by
  have := (toSet_aux l [] List.nodup_nil).2 x
  simpa [toSet] using this

end

theorem nodup_allNodes (syms : List Sym) : (allNodes syms).Nodup := nodup_toSet _

theorem mem_allNodes_of_named {syms : List Sym} {s : Sym} (hs : s ∈ syms) (hn : s.hasName = true) :
    s.n1 ∈ allNodes syms ∧ s.n2 ∈ allNodes syms := by
  unfold allNodes
  simp only [mem_toSet, List.mem_append, List.mem_map, List.mem_filter]
  exact ⟨Or.inl (Or.inl (Or.inl ⟨s, ⟨hs, hn⟩, rfl⟩)), Or.inl (Or.inl (Or.inr ⟨s, ⟨hs, hn⟩, rfl⟩))⟩

theorem mem_allNodes_of_line {syms : List Sym} {s : Sym} (hs : s ∈ syms) (hl : s.isLine = true) :
    s.n1 ∈ allNodes syms ∧ s.n2 ∈ allNodes syms := by
  unfold allNodes
  simp only [mem_toSet, List.mem_append, List.mem_map, List.mem_filter]
  exact ⟨Or.inl (Or.inr ⟨s, ⟨hs, hl⟩, rfl⟩), Or.inr ⟨s, ⟨hs, hl⟩, rfl⟩⟩

/-- every wire end point is one of `all_nodes` -/
theorem wires_sub_allNodes (syms : List Sym) : ∀ w ∈ wiresOf syms, w.1 ∈ allNodes syms ∧ w.2 ∈ allNodes syms := by
  intro w hw
  unfold wiresOf at hw
  obtain ⟨s, hs, rfl⟩ := List.mem_map.mp hw
  obtain ⟨hs, hl⟩ := List.mem_filter.mp hs
  exact mem_allNodes_of_line hs hl

theorem isNode_hasName (hT : nodeClassesNamed = true) (s : Sym) (h : s.isNode = true) : s.hasName = true := by
  unfold Sym.isNode isA at h
  unfold Sym.hasName
  unfold nodeClassesNamed at hT
  rw [List.all_eq_true] at hT
  cases hc : classInfo s.cls with
  | none =>
    -- a class outside the table is a node only if it is literally called "Node"; then the
    -- table would have to contain it
    simp only [hc, Bool.or_false, decide_eq_true_eq] at h
    exfalso
    have : classInfo "Node" ≠ none := by decide
    exact this (h ▸ hc)
  | some c =>
    have hmem : c ∈ Gen.elemClasses := List.mem_of_find?_eq_some hc
    have hcls : c.cls = s.cls := by
      have := List.find?_some hc
      simpa using this
    have := hT c hmem
    simp only [hc] at h ⊢
    simp only [Bool.or_eq_true, Bool.not_eq_true', decide_eq_true_eq] at this h
    rcases this with h' | h'
    · exfalso
      simp only [Bool.or_eq_false_iff, beq_eq_false_iff_ne] at h'
      rcases h with h | h
      · exact h'.1 (hcls.trans h)
      · have : c.ancestors.contains "Node" = true := by simpa using h
        rw [h'.2] at this; cases this
    · exact h'

/-- node symbols sit on terminals -/
theorem nodeSyms_on_terminal (hT : nodeClassesNamed = true) (syms : List Sym) :
    ∀ ps ∈ nodeSymsOf syms, ps.1 ∈ allNodes syms := by
  intro ps hps
  unfold nodeSymsOf at hps
  obtain ⟨s, hs, rfl⟩ := List.mem_map.mp hps
  obtain ⟨hs, hn⟩ := List.mem_filter.mp hs
  exact (mem_allNodes_of_named hs (isNode_hasName hT s hn)).1

end CC.Draw
