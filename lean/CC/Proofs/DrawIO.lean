/-
  CC.Proofs.DrawIO — save / load plumbing of C15.

  * the *kernels*: what one save/load cycle does to the amplitude and to the phase of a source
    (field assignment of Elements.py ∘ translator of CircuitComponentTranslators.py ∘ merge by
    name of dump_load.py), as small functions over any number type, with their algebra;
  * `roundTripShape`: a decidable certificate on the generated tables saying that a class is
    plumbed exactly in the way the kernels describe (which attribute feeds which constructor
    argument, which value key comes back under which keyword, where the signs sit);
  * the generic induction "one cycle preserves the circuit ⇒ n cycles do".
-/
import CC.Model.DrawIO
import CC.Proofs.DrawTables
set_option linter.unusedSectionVars false
namespace CC.Draw

/-! ### kernels -/
section Kernels
variable {K : Type}

/-- Elements.py: `self._V = V if not reverse else -V` -/
def fieldVal [Neg K] (rev : Bool) (v : K) : K := if rev then -v else v
/-- translator: `V = element.V if not element.is_reverse else -element.V` -/
def transVal [Neg K] (rev : Bool) (e : K) : K := if rev then -e else e

/-- value written to the circuit section for user amplitude `v` -/
def savedVal [Neg K] (rev : Bool) (v : K) : K := transVal rev (fieldVal rev v)

/-- Elements.py: `self._phi = phi; if self._sin: self._phi -= 90 if deg else np.pi/2` -/
def phaseField [Sub K] (halfPi ninety : K) (sin deg : Bool) (phi : K) : K :=
  if sin then phi - (if deg then ninety else halfPi) else phi
/-- translator: `phi = element.phi*pi/180 if element.deg else element.phi` -/
def phaseTrans (toRad : K → K) (deg : Bool) (phi : K) : K := if deg then toRad phi else phi
/-- phase written to the circuit section for user phase `phi` -/
def savedPhase [Sub K] (halfPi ninety : K) (toRad : K → K) (sin deg : Bool) (phi : K) : K :=
  phaseTrans toRad deg (phaseField halfPi ninety sin deg phi)

end Kernels

/-- one cycle returns the user's amplitude: the two sign flips cancel (needs only `-(-v) = v`) -/
theorem savedVal_eq {K : Type} [Neg K] (hnn : ∀ v : K, - -v = v) (rev : Bool) (v : K) :
    savedVal rev v = v := by
  cases rev <;> simp [savedVal, transVal, fieldVal, hnn]

theorem GQ.neg_neg' (z : GQ) : - -z = z := by
  cases z; simp [GQ.neg_def]

/-- `undictify_element` feeds the saved phase back with both flags cleared: the reloaded source
saves the same phase again -/
theorem savedPhase_reload {K : Type} [Sub K] (halfPi ninety : K) (toRad : K → K) (sin deg : Bool) (phi : K) :
    savedPhase halfPi ninety toRad false false (savedPhase halfPi ninety toRad sin deg phi) =
      savedPhase halfPi ninety toRad sin deg phi := rfl

/-! ### generic induction over cycles -/

/-- `n` applications of `T` -/
def iter {D : Type} (T : D → D) : Nat → D → D
  | 0, d => d
  | n + 1, d => iter T n (T d)

/-- If one application of `T` keeps the observation `obs` on a `T`-invariant domain, then so
does any number of applications. -/
theorem iterate_preserves {D O : Type} (T : D → D) (obs : D → O) (Dom : D → Prop)
    (hinv : ∀ d, Dom d → Dom (T d)) (hobs : ∀ d, Dom d → obs (T d) = obs d) :
    ∀ (n : Nat) (d : D), Dom d → obs (iter T n d) = obs d ∧ Dom (iter T n d) := by
  intro n
  induction n with
  | zero => intro d hd; exact ⟨rfl, hd⟩
  | succ n ih =>
    intro d hd
    have := ih (T d) (hinv d hd)
    exact ⟨this.1.trans (hobs d hd), this.2⟩

/-- the same for the model's partial `saveLoad` / `cycles` -/
theorem cycles_preserve (π : Rat) (ord : SetOrd Pt) (Dom : List DElem → Prop)
    (hstep : ∀ d, Dom d → ∃ d', saveLoad π ord d = .ok d' ∧ Dom d' ∧ circuitOf π ord d' = circuitOf π ord d) :
    ∀ (n : Nat) (d : List DElem), Dom d →
      ∃ d', cycles π ord n d = .ok d' ∧ Dom d' ∧ circuitOf π ord d' = circuitOf π ord d := by
  intro n
  induction n with
  | zero => intro d hd; exact ⟨d, rfl, hd, rfl⟩
  | succ n ih =>
    intro d hd
    obtain ⟨d1, h1, hd1, hc1⟩ := hstep d hd
    obtain ⟨d2, h2, hd2, hc2⟩ := ih d1 hd1
    refine ⟨d2, ?_, hd2, hc2.trans hc1⟩
    unfold cycles
    rw [h1]
    exact h2

/-! ### the certificate on the generated tables -/

def ElemClass.paramNames (c : ElemClass) : List String := c.params.map (·.1)

/-- the attribute `a` of class `c` is the field assigned from constructor parameter `q`,
negated under `reverse` iff `signed` -/
def attrFromParam (c : ElemClass) (a q : String) (signed : Bool) : Bool :=
  match c.props.lookup a with
  | some (.field f) =>
    (match c.fields.lookup f with
     | some (.param q') => !signed && q' == q
     | some (.negIfRev q') => signed && q' == q
     | _ => false)
  | _ => false

/-- the constructor value written from argument `p` comes back on load as keyword `q`:
directly under key `q`, or split into (re, im) keys that the loader recombines into `q` -/
def comesBackAs (k : CtorSpec) (lt : LoaderType) (p q : String) : Bool :=
  k.values.contains (q, .param p) ||
  (match lt.combine with
   | some (reK, imK, z) => z == q && k.values.contains (reK, .re p) && k.values.contains (imK, .im p)
   | none => false)

/-- one translator argument is plumbed as the kernels assume -/
def argShape (c : ElemClass) (k : CtorSpec) (lt : LoaderType) (arg : String × VExpr) : Bool :=
  match arg.2 with
  | .ifNotRev (.attr a) (.neg (.attr a')) => a == a' && c.paramNames.any fun q => attrFromParam c a q true && comesBackAs k lt arg.1 q
  | .ifNotRev (.re (.attr a)) (.neg (.re (.attr a'))) => a == a' && c.paramNames.any fun q => attrFromParam c a q true && comesBackAs k lt arg.1 q
  | .attr a => c.paramNames.any fun q => attrFromParam c a q false && comesBackAs k lt arg.1 q
  | .degConv a fl => (c.paramNames.any fun q => attrFromParam c a q false && comesBackAs k lt arg.1 q) &&
      (c.paramNames.any fun q => attrFromParam c fl q false)
  | .str _ => true
  | _ => false

/-- value keys that are neither a class parameter fed back nor consumed by the recombination
must not collide with a parameter of the class (they are swallowed by schemdraw's `**kwargs`) -/
def extrasHarmless (c : ElemClass) (k : CtorSpec) (lt : LoaderType) (args : List (String × VExpr)) : Bool :=
  k.values.all fun kv =>
    let fedBack := args.any fun arg => match kv.2 with
      | .param p => p == arg.1
      | .re p => p == arg.1 && (match lt.combine with | some (reK, _, _) => reK == kv.1 | none => false)
      | .im p => p == arg.1 && (match lt.combine with | some (_, imK, _) => imK == kv.1 | none => false)
      | .lit _ => false
    fedBack || !(c.paramNames.contains kv.1)

/-- the whole certificate for one class -/
def roundTripShape (c : ElemClass) : Bool :=
  match Gen.loaderTypes.find? (·.typ = c.typ), Gen.translatorMap.lookup c.cls with
  | some lt, some f =>
    lt.cls == c.cls &&
    (match Gen.translators.lookup f with
     | some [tc] =>
       tc.guard.isNone &&
       (match tc.ctor with
        | none => true
        | some kn =>
          match Gen.ctors.find? (·.name = kn) with
          | some k => tc.args.all (argShape c k lt) && extrasHarmless c k lt tc.args
          | none => false)
     | _ => false)
  | _, _ => false

/-- the classes of the persistable symbol kinds of C15 -/
def persistableClasses : List String :=
  ["VoltageSource", "CurrentSource", "ACVoltageSource", "ACCurrentSource", "RectVoltageSource", "RectCurrentSource",
   "ComplexVoltageSource", "ComplexCurrentSource", "Resistor", "Conductance", "Impedance", "Capacitor",
   "Inductance", "Ground", "Line"]

/-- classes whose translator converts a phase under a persisted flag (`deg`) or whose
constructor shifts it (`sin`) -/
def phaseFlagged (c : ElemClass) : Bool :=
  c.sinShift.isSome ||
  (match Gen.translatorMap.lookup c.cls with
   | some f => (match Gen.translators.lookup f with
     | some cases => cases.any fun tc => tc.args.any fun a => match a.2 with | .degConv _ _ => true | _ => false
     | none => false)
   | none => false)

end CC.Draw
