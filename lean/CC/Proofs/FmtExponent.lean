/-
  CC.Proofs.FmtExponent — the exponent stage (`FloatPrecision.exponent` through the repr
  model `floatToString`) in the ranges where `repr` is positional: `1e-4 ≤ |v| < 1e16`.
-/
import CC.Proofs.FmtDigits
import CC.Model.Fmt

namespace CC.Fmt

theorem lzExact_unique {x : ℚ} {z : ℕ} (h1 : pow10 (-(z : ℤ) - 1) ≤ x) (h2 : x < pow10 (-(z : ℤ))) :
    lzExact x = z := by
  have h0 : 0 < x := lt_of_lt_of_le (pow10_pos _) h1
  have hx1 : x < 1 := lt_of_lt_of_le h2 (pow10_le_one (by omega))
  obtain ⟨a, b⟩ := lzExact_spec h0 hx1
  by_contra hne
  rcases Nat.lt_or_gt_of_ne hne with hlt | hgt
  · -- lzExact x < z: x ≥ 10^-(lz+1) ≥ 10^-z
    have : pow10 (-(z : ℤ)) ≤ pow10 (-(lzExact x : ℤ) - 1) := pow10_le_pow10 (by omega)
    linarith
  · have : pow10 (-(lzExact x : ℤ)) ≤ pow10 (-(z : ℤ) - 1) := pow10_le_pow10 (by omega)
    linarith

theorem reprSci_false {x : ℚ} (h4 : 1 / 10000 ≤ x) (h16 : x < 10000000000000000) : reprSci x = false := by
  unfold reprSci
  have h0 : x ≠ 0 := by intro h; rw [h] at h4; norm_num at h4
  simp only [ne_eq, h0, not_false_eq_true, decide_true, Bool.true_and, Bool.or_eq_false_iff,
    decide_eq_false_iff_not, not_lt, not_le]
  exact ⟨h4, h16⟩

/-- positional repr of a value in `[1e-4, 1)`: integer part 0, exact leading zeros -/
theorem floatToString_small {x : ℚ} (p : ℕ) (h4 : 1 / 10000 ≤ x) (h1 : x < 1) :
    floatToString p x = { intPart := 0, lz := lzExact x, postZero := false } := by
  have h0 : 0 < x := lt_of_lt_of_le (by norm_num) h4
  have hfl : ⌊x⌋ = 0 := Int.floor_eq_zero_iff.mpr ⟨le_of_lt h0, h1⟩
  unfold floatToString
  rw [reprSci_false h4 (lt_trans h1 (by norm_num))]
  simp only [Bool.false_eq_true, ↓reduceIte, floor_eq, hfl, Int.toNat_zero, Nat.cast_zero, sub_zero]
  rw [if_neg (ne_of_gt h0)]

/-- positional repr of a value in `[1, 1e16)`: integer part `⌊x⌋ ≥ 1` -/
theorem floatToString_big_intPart {x : ℚ} (p : ℕ) (h1 : 1 ≤ x) (h16 : x < 10000000000000000) :
    (floatToString p x).intPart = x.floor.toNat := by
  unfold floatToString
  rw [reprSci_false (le_trans (by norm_num) h1) h16]
  simp only [Bool.false_eq_true, ↓reduceIte]
  split_ifs <;> rfl

/-- positional repr of the value 1 -/
theorem floatToString_one (p : ℕ) : floatToString p 1 = { intPart := 1, lz := 1, postZero := true } := by
  unfold floatToString
  rw [reprSci_false (by norm_num) (by norm_num)]
  simp [floor_eq]

theorem decade_of_ge_one {x : ℚ} (h1 : 1 ≤ x) : decade x = (numDigits x.floor.toNat : ℤ) - 1 := by
  unfold decade; rw [if_pos h1]

theorem decade_of_lt_one {x : ℚ} (h1 : x < 1) : decade x = -(lzExact x : ℤ) - 1 := by
  unfold decade; rw [if_neg (not_le.mpr h1)]

/-- `exponent` for `1 ≤ |v| < 1e16` -/
theorem exponent_of_ge_one (v : ℚ) (p : ℕ) (h1 : 1 ≤ qabs v) (h16 : qabs v < 10000000000000000) :
    exponent v p = decade (qabs v) + 1 - p := by
  have hip := floatToString_big_intPart p h1 h16
  have hfl : (1 : ℤ) ≤ ⌊qabs v⌋ := Int.le_floor.mpr (by simpa using h1)
  have hne : (floatToString p (qabs v)).intPart ≠ 0 := by
    rw [hip, floor_eq]; omega
  unfold exponent
  rw [hip] at hne
  simp only [hip, hne, ↓reduceIte]
  rw [decade_of_ge_one h1]; ring

end CC.Fmt

namespace CC.Fmt

theorem reprSci_true_small {x : ℚ} (h0 : 0 < x) (h4 : x < 1 / 10000) : reprSci x = true := by
  unfold reprSci
  simp only [ne_eq, ne_of_gt h0, not_false_eq_true, decide_true, Bool.true_and, Bool.or_eq_true,
    decide_eq_true_eq]
  left; exact h4

/-- repr in exponent notation of a small value: `n = z + 2 + p` decimals are produced, the
integer part is 0, and the leading-zero count of the rounded digits is `z`, or `z - 1` when
the digits round up to the next power of ten -/
theorem floatToString_sci_small {x : ℚ} (p : ℕ) (h0 : 0 < x) (h4 : x < 1 / 10000) :
    floatToString p x =
      { intPart := 0,
        lz := if rhe (x * ((10 ^ (lzExact x + 2 + p) : ℕ) : ℚ)) = ((10 ^ (p + 2) : ℕ) : ℤ) then lzExact x - 1 else lzExact x,
        postZero := false }
    ∧ 4 ≤ lzExact x
    ∧ ((10 ^ (p + 1) : ℕ) : ℤ) ≤ rhe (x * ((10 ^ (lzExact x + 2 + p) : ℕ) : ℚ))
    ∧ rhe (x * ((10 ^ (lzExact x + 2 + p) : ℕ) : ℚ)) ≤ ((10 ^ (p + 2) : ℕ) : ℤ) := by
  have h1 : x < 1 := lt_trans h4 (by norm_num)
  obtain ⟨hz1, hz2⟩ := lzExact_spec h0 h1
  set z := lzExact x with hz
  have hz4 : 4 ≤ z := by
    by_contra hlt
    have : pow10 (-4) ≤ pow10 (-(z : ℤ) - 1) := pow10_le_pow10 (by omega)
    have e4 : pow10 (-4) = 1 / 10000 := by simp [pow10_eq_zpow]; norm_num
    rw [e4] at this; linarith
  have hdec : decade x = -(z : ℤ) - 1 := decade_of_lt_one h1
  have hn : (decade x).natAbs + 1 + p = z + 2 + p := by rw [hdec]; omega
  -- bounds of x·10^n
  have hN : ((10 ^ (z + 2 + p) : ℕ) : ℚ) = pow10 ((z + 2 + p : ℕ) : ℤ) := (pow10_natCast' _).symm
  have eLo : pow10 (-(z : ℤ) - 1) * pow10 ((z + 2 + p : ℕ) : ℤ) = (((10 ^ (p + 1) : ℕ) : ℤ) : ℚ) := by
    rw [← pow10_add, show -(z : ℤ) - 1 + ((z + 2 + p : ℕ) : ℤ) = ((p + 1 : ℕ) : ℤ) by push_cast; ring, pow10_natCast']
    push_cast; rfl
  have eHi : pow10 (-(z : ℤ)) * pow10 ((z + 2 + p : ℕ) : ℤ) = (((10 ^ (p + 2) : ℕ) : ℤ) : ℚ) := by
    rw [← pow10_add, show -(z : ℤ) + ((z + 2 + p : ℕ) : ℤ) = ((p + 2 : ℕ) : ℤ) by push_cast; ring, pow10_natCast']
    push_cast; rfl
  have hP := pow10_pos ((z + 2 + p : ℕ) : ℤ)
  have hXlo : (((10 ^ (p + 1) : ℕ) : ℤ) : ℚ) ≤ x * ((10 ^ (z + 2 + p) : ℕ) : ℚ) := by
    rw [hN, ← eLo]; exact mul_le_mul_of_nonneg_right hz1 (le_of_lt hP)
  have hXhi : x * ((10 ^ (z + 2 + p) : ℕ) : ℚ) ≤ (((10 ^ (p + 2) : ℕ) : ℤ) : ℚ) := by
    rw [hN, ← eHi]; exact le_of_lt (mul_lt_mul_of_pos_right hz2 hP)
  have hKlo := le_rhe_of_le hXlo
  have hKhi := rhe_le_of_le hXhi
  refine ⟨?_, hz4, hKlo, hKhi⟩
  set K := rhe (x * ((10 ^ (z + 2 + p) : ℕ) : ℚ)) with hK
  have hK0 : 0 ≤ K := le_trans (by positivity) hKlo
  have hKnat : ((K.toNat : ℕ) : ℤ) = K := Int.toNat_of_nonneg hK0
  have hKlo' : 10 ^ (p + 1) ≤ K.toNat := by exact_mod_cast (hKnat ▸ hKlo)
  have hKhi' : K.toNat ≤ 10 ^ (p + 2) := by exact_mod_cast (hKnat ▸ hKhi)
  have hlt : K.toNat < 10 ^ (z + 2 + p) := by
    have : 10 ^ (p + 2) < 10 ^ (z + 2 + p) := Nat.pow_lt_pow_right (by norm_num) (by omega)
    omega
  have hpos : 0 < K.toNat := lt_of_lt_of_le (by positivity) hKlo'
  unfold floatToString
  rw [reprSci_true_small h0 h4]
  simp only [↓reduceIte, hn, ← hK, Nat.div_eq_of_lt hlt, Nat.mod_eq_of_lt hlt, Nat.pos_iff_ne_zero.mp hpos]
  congr 1
  by_cases hc : K = ((10 ^ (p + 2) : ℕ) : ℤ)
  · rw [if_pos hc]
    have : K.toNat = 10 ^ (p + 2) := by
      have h' : ((K.toNat : ℕ) : ℤ) = ((10 ^ (p + 2) : ℕ) : ℤ) := by rw [hKnat, hc]
      exact_mod_cast h'
    rw [this, numDigits_eq_of_bounds (k := p + 3) (by omega) (by simp) (Nat.pow_lt_pow_right (by norm_num) (by omega))]
    omega
  · rw [if_neg hc]
    have hne : K.toNat ≠ 10 ^ (p + 2) := by
      intro h; apply hc; rw [← hKnat, h]
    have : K.toNat < 10 ^ (p + 2) := lt_of_le_of_ne hKhi' hne
    rw [numDigits_eq_of_bounds (k := p + 2) (by omega) (by simpa using hKlo') this]
    omega

end CC.Fmt

namespace CC.Fmt

theorem pow10_neg4 : pow10 (-4) = 1 / 10000 := by simp [pow10_eq_zpow]; norm_num

/-- the second call of `_float_to_string` in `exponent`, on the rounded value
`R / 10^(z+p)` with a `p`-digit `R` (or `R = 10^p` after a carry), `z ≥ 4`: the digits are
exact, the leading-zero count is `z` (or `z - 1` after the carry) -/
theorem floatToString_rounded {z p : ℕ} (hz : 4 ≤ z) (hp : 1 ≤ p) {R : ℤ}
    (hlo : ((10 ^ (p - 1) : ℕ) : ℤ) ≤ R) (hhi : R ≤ ((10 ^ p : ℕ) : ℤ)) :
    floatToString p ((R : ℚ) / pow10 ((z + p : ℕ) : ℤ)) =
      { intPart := 0, lz := if R = ((10 ^ p : ℕ) : ℤ) then z - 1 else z, postZero := false } := by
  have hD := pow10_pos ((z + p : ℕ) : ℤ)
  have cP : (((10 ^ p : ℕ) : ℤ) : ℚ) = pow10 (p : ℤ) := by rw [pow10_natCast']; push_cast; rfl
  have cP1 : (((10 ^ (p - 1) : ℕ) : ℤ) : ℚ) = pow10 ((p - 1 : ℕ) : ℤ) := by rw [pow10_natCast']; push_cast; rfl
  have hRlo : pow10 ((p - 1 : ℕ) : ℤ) ≤ (R : ℚ) := by rw [← cP1]; exact_mod_cast hlo
  have hRhi : (R : ℚ) ≤ pow10 (p : ℤ) := by rw [← cP]; exact_mod_cast hhi
  have eLo : pow10 (-(z : ℤ) - 1) * pow10 ((z + p : ℕ) : ℤ) = pow10 ((p - 1 : ℕ) : ℤ) := by
    rw [← pow10_add]; congr 1; push_cast; omega
  have eHi : pow10 (-(z : ℤ)) * pow10 ((z + p : ℕ) : ℤ) = pow10 (p : ℤ) := by
    rw [← pow10_add]; congr 1; push_cast; omega
  have hylo : pow10 (-(z : ℤ) - 1) ≤ (R : ℚ) / pow10 ((z + p : ℕ) : ℤ) := by
    rw [le_div_iff₀ hD, eLo]; exact hRlo
  by_cases hc : R = ((10 ^ p : ℕ) : ℤ)
  · rw [if_pos hc]
    have hy : (R : ℚ) / pow10 ((z + p : ℕ) : ℤ) = pow10 (-(z : ℤ)) := by
      rw [hc, cP, div_eq_iff (ne_of_gt hD), eHi]
    rw [hy]
    have hlz : lzExact (pow10 (-(z : ℤ))) = z - 1 := by
      apply lzExact_unique
      · rw [show -((z - 1 : ℕ) : ℤ) - 1 = -(z : ℤ) by omega]
      · exact pow10_lt_pow10 (by omega)
    have hup : pow10 (-(z : ℤ)) < 1 := by
      have : pow10 (-(z : ℤ)) < pow10 0 := pow10_lt_pow10 (by omega)
      rwa [pow10_zero] at this
    by_cases hz4 : z = 4
    · have e : pow10 (-(z : ℤ)) = 1 / 10000 := by rw [hz4]; exact pow10_neg4
      have := floatToString_small p (le_of_eq e.symm) hup
      rw [this, hlz]
    · have hsmall : pow10 (-(z : ℤ)) < 1 / 10000 := by
        rw [← pow10_neg4]; exact pow10_lt_pow10 (by omega)
      obtain ⟨hfs, _, _, _⟩ := floatToString_sci_small p (pow10_pos _) hsmall
      rw [hfs, hlz]
      have hexact : pow10 (-(z : ℤ)) * ((10 ^ (z - 1 + 2 + p) : ℕ) : ℚ) = (((10 ^ (p + 1) : ℕ) : ℤ) : ℚ) := by
        rw [← pow10_natCast', ← pow10_add,
          show -(z : ℤ) + ((z - 1 + 2 + p : ℕ) : ℤ) = ((p + 1 : ℕ) : ℤ) by push_cast; omega, pow10_natCast']
        push_cast; rfl
      rw [hexact, rhe_intCast]
      have hne : ((10 ^ (p + 1) : ℕ) : ℤ) ≠ ((10 ^ (p + 2) : ℕ) : ℤ) := by
        have : (10 : ℕ) ^ (p + 1) < 10 ^ (p + 2) := Nat.pow_lt_pow_right (by norm_num) (by omega)
        exact_mod_cast (ne_of_lt this)
      rw [if_neg hne]
  · rw [if_neg hc]
    have hRlt : (R : ℚ) < pow10 (p : ℤ) := by
      rw [← cP]; exact_mod_cast (lt_of_le_of_ne hhi hc)
    have hyhi : (R : ℚ) / pow10 ((z + p : ℕ) : ℤ) < pow10 (-(z : ℤ)) := by
      rw [div_lt_iff₀ hD, eHi]; exact hRlt
    have hy0 : 0 < (R : ℚ) / pow10 ((z + p : ℕ) : ℤ) := lt_of_lt_of_le (pow10_pos _) hylo
    have hsmall : (R : ℚ) / pow10 ((z + p : ℕ) : ℤ) < 1 / 10000 := by
      have : pow10 (-(z : ℤ)) ≤ pow10 (-4) := pow10_le_pow10 (by omega)
      rw [pow10_neg4] at this; linarith
    have hlz : lzExact ((R : ℚ) / pow10 ((z + p : ℕ) : ℤ)) = z := lzExact_unique hylo hyhi
    obtain ⟨hfs, _, _, _⟩ := floatToString_sci_small p hy0 hsmall
    rw [hfs, hlz]
    have hexact : (R : ℚ) / pow10 ((z + p : ℕ) : ℤ) * ((10 ^ (z + 2 + p) : ℕ) : ℚ) = ((R * 100 : ℤ) : ℚ) := by
      rw [← pow10_natCast', show ((z + 2 + p : ℕ) : ℤ) = ((z + p : ℕ) : ℤ) + 2 by push_cast; ring, pow10_add]
      have e2 : pow10 2 = 100 := by simp [pow10_eq_zpow]; norm_num
      rw [e2]
      have hD0 : pow10 ((z + p : ℕ) : ℤ) ≠ 0 := ne_of_gt hD
      rw [Int.cast_mul, Int.cast_ofNat]
      field_simp
    rw [hexact, rhe_intCast]
    have hne : R * 100 ≠ ((10 ^ (p + 2) : ℕ) : ℤ) := by
      intro h; apply hc
      have : ((10 ^ (p + 2) : ℕ) : ℤ) = ((10 ^ p : ℕ) : ℤ) * 100 := by push_cast; ring
      rw [this] at h; omega
    rw [if_neg hne]

end CC.Fmt
