/-
  CC.Proofs.FmtExponent — the exponent stage (`FloatPrecision.exponent` through the repr
  model `floatToString`) in the ranges where `repr` is positional: `1e-4 ≤ |v| < 1e16`.
-/
import CC.Proofs.FmtDigits
import CC.Model.Fmt

namespace CC.Fmt

theorem lzExact_unique {x : ℚ} {z : ℕ} (h1 : pow10 (-(z : ℤ) - 1) ≤ x) (h2 : x < pow10 (-(z : ℤ))) :
    lzExact x = z := by
  have h0 : 0 < x := lt_of_lt_of_le (pow10_pos _) h1
  have hx1 : x < 1 := lt_of_lt_of_le h2 (pow10_le_one (by omega))
  obtain ⟨a, b⟩ := lzExact_spec h0 hx1
  by_contra hne
  rcases Nat.lt_or_gt_of_ne hne with hlt | hgt
  · -- lzExact x < z: x ≥ 10^-(lz+1) ≥ 10^-z
    have : pow10 (-(z : ℤ)) ≤ pow10 (-(lzExact x : ℤ) - 1) := pow10_le_pow10 (by omega)
    linarith
  · have : pow10 (-(lzExact x : ℤ)) ≤ pow10 (-(z : ℤ) - 1) := pow10_le_pow10 (by omega)
    linarith

theorem reprSci_false {x : ℚ} (h4 : 1 / 10000 ≤ x) (h16 : x < 10000000000000000) : reprSci x = false := by
  unfold reprSci
  have h0 : x ≠ 0 := by intro h; rw [h] at h4; norm_num at h4
  simp only [ne_eq, h0, not_false_eq_true, decide_true, Bool.true_and, Bool.or_eq_false_iff,
    decide_eq_false_iff_not, not_lt, not_le]
  exact ⟨h4, h16⟩

/-- positional repr of a value in `[1e-4, 1)`: integer part 0, exact leading zeros -/
theorem floatToString_small {x : ℚ} (p : ℕ) (h4 : 1 / 10000 ≤ x) (h1 : x < 1) :
    floatToString p x = { intPart := 0, lz := lzExact x, postZero := false } := by
  have h0 : 0 < x := lt_of_lt_of_le (by norm_num) h4
  have hfl : ⌊x⌋ = 0 := Int.floor_eq_zero_iff.mpr ⟨le_of_lt h0, h1⟩
  unfold floatToString
  rw [reprSci_false h4 (lt_trans h1 (by norm_num))]
  simp only [Bool.false_eq_true, ↓reduceIte, floor_eq, hfl, Int.toNat_zero, Nat.cast_zero, sub_zero]
  rw [if_neg (ne_of_gt h0)]

/-- positional repr of a value in `[1, 1e16)`: integer part `⌊x⌋ ≥ 1` -/
theorem floatToString_big_intPart {x : ℚ} (p : ℕ) (h1 : 1 ≤ x) (h16 : x < 10000000000000000) :
    (floatToString p x).intPart = x.floor.toNat := by
  unfold floatToString
  rw [reprSci_false (le_trans (by norm_num) h1) h16]
  simp only [Bool.false_eq_true, ↓reduceIte]
  split_ifs <;> rfl

/-- positional repr of the value 1 -/
theorem floatToString_one (p : ℕ) : floatToString p 1 = { intPart := 1, lz := 1, postZero := true } := by
  unfold floatToString
  rw [reprSci_false (by norm_num) (by norm_num)]
  simp [floor_eq]

theorem decade_of_ge_one {x : ℚ} (h1 : 1 ≤ x) : decade x = (numDigits x.floor.toNat : ℤ) - 1 := by
  unfold decade; rw [if_pos h1]

theorem decade_of_lt_one {x : ℚ} (h1 : x < 1) : decade x = -(lzExact x : ℤ) - 1 := by
  unfold decade; rw [if_neg (not_le.mpr h1)]

/-- `exponent` for `1 ≤ |v| < 1e16` -/
theorem exponent_of_ge_one (v : ℚ) (p : ℕ) (h1 : 1 ≤ qabs v) (h16 : qabs v < 10000000000000000) :
    exponent v p = decade (qabs v) + 1 - p := by
  have hip := floatToString_big_intPart p h1 h16
  have hfl : (1 : ℤ) ≤ ⌊qabs v⌋ := Int.le_floor.mpr (by simpa using h1)
  have hne : (floatToString p (qabs v)).intPart ≠ 0 := by
    rw [hip, floor_eq]; omega
  unfold exponent
  rw [hip] at hne
  simp only [hip, hne, ↓reduceIte]
  rw [decade_of_ge_one h1]; ring

end CC.Fmt
