/-
  CC.Proofs.FourierWave — the generated time functions (CC/Gen/Fourier.lean) instantiated
  at ℝ, and their Fourier coefficients in closed form.
-/
import CC.Gen.Fourier
import CC.Proofs.FourierCanon

namespace CC.Fourier
open Complex Real CC.Gen.Fourier

/-- the implementation's time function, read over ℝ: `π := Real.pi`, `np.cos := Real.cos`,
`np.sin := Real.sin`, float `%` := `fmodR` -/
noncomputable def timeR (w : WaveObj ℝ) : ℝ → ℝ :=
  w.timeFunction Real.pi Real.cos Real.sin fmodR

theorem shift_factor (T φ : ℝ) (hT : T ≠ 0) (n : ℤ) :
    cexp (-(cexpo T n) * ((φ / 2 / π * T : ℝ) : ℂ)) = cexp (I * ((n * φ : ℝ) : ℂ)) := by
  have hT' : (T : ℂ) ≠ 0 := by exact_mod_cast hT
  have hpi : (π : ℂ) ≠ 0 := by exact_mod_cast Real.pi_ne_zero
  congr 1
  unfold cexpo; push_cast; field_simp

theorem inv_cexpo (T : ℝ) (n : ℤ) : (cexpo T n)⁻¹ = I * T / (2 * π * n) := by
  unfold cexpo
  rw [neg_div', ← neg_mul, ← neg_mul, inv_div]
  rw [show (-(2 * (π : ℂ)) * I * n) = (-(2 * π * n)) * I by ring, ← div_div, div_I]
  ring

theorem timeR_rect (T A φ off : ℝ) :
    timeR ⟨.RectFunction, T, A, φ, off⟩
      = fun t => plFun T (A + off) 0 (-A + off) 0 (fmodR (t + φ / 2 / π * T) T) := by
  funext t
  simp [timeR, WaveObj.timeFunction, RectFunction.timeFunction, plFun]

theorem coeff_rect (T A φ off : ℝ) (hT : 0 < T) (n : ℤ) (hn : n ≠ 0) :
    coeff (timeR ⟨.RectFunction, T, A, φ, off⟩) T n
      = cexp (I * ((n * φ : ℝ) : ℂ)) * (-I * (A : ℂ) * (1 - (-1) ^ n) / (π * n)) := by
  have hT' : (T : ℂ) ≠ 0 := by exact_mod_cast hT.ne'
  have hn' : (n : ℂ) ≠ 0 := by exact_mod_cast hn
  have hpi : (π : ℂ) ≠ 0 := by exact_mod_cast Real.pi_ne_zero
  rw [timeR_rect, coeff_shift (plFun T (A + off) 0 (-A + off) 0) T _ hT n, shift_factor T φ hT.ne' n, coeff_pl T _ _ _ _ hT n hn]
  congr 1
  simp only [div_eq_mul_inv, inv_cexpo]
  push_cast
  field_simp
  ring_nf


theorem shift_factor_zero (T t0 : ℝ) : cexp (-(cexpo T 0) * (t0 : ℂ)) = 1 := by
  simp [cexpo]

theorem coeff_rect_zero (T A φ off : ℝ) (hT : 0 < T) :
    coeff (timeR ⟨.RectFunction, T, A, φ, off⟩) T 0 = (off : ℂ) := by
  rw [timeR_rect, coeff_shift (plFun T (A + off) 0 (-A + off) 0) T _ hT 0, shift_factor_zero,
    coeff_pl_zero T _ _ _ _ hT]
  push_cast; ring

/-! ### sawtooth -/

theorem timeR_saw (T A φ off : ℝ) :
    timeR ⟨.SawFunction, T, A, φ, off⟩
      = fun t => linFun (-A + off) (2 * A / T) (fmodR (t + φ / 2 / π * T) T) := by
  funext t
  simp [timeR, WaveObj.timeFunction, SawFunction.timeFunction, linFun]
  ring

theorem coeff_saw (T A φ off : ℝ) (hT : 0 < T) (n : ℤ) (hn : n ≠ 0) :
    coeff (timeR ⟨.SawFunction, T, A, φ, off⟩) T n
      = cexp (I * ((n * φ : ℝ) : ℂ)) * (I * (A : ℂ) / (π * n)) := by
  have hT' : (T : ℂ) ≠ 0 := by exact_mod_cast hT.ne'
  have hn' : (n : ℂ) ≠ 0 := by exact_mod_cast hn
  have hpi : (π : ℂ) ≠ 0 := by exact_mod_cast Real.pi_ne_zero
  rw [timeR_saw, coeff_shift (linFun (-A + off) (2 * A / T)) T _ hT n, shift_factor T φ hT.ne' n,
    coeff_lin T _ _ hT.ne' n hn]
  congr 1
  simp only [div_eq_mul_inv, inv_cexpo]
  push_cast
  field_simp

theorem coeff_saw_zero (T A φ off : ℝ) (hT : 0 < T) :
    coeff (timeR ⟨.SawFunction, T, A, φ, off⟩) T 0 = (off : ℂ) := by
  have hT' : (T : ℂ) ≠ 0 := by exact_mod_cast hT.ne'
  rw [timeR_saw, coeff_shift (linFun (-A + off) (2 * A / T)) T _ hT 0, shift_factor_zero,
    coeff_lin_zero T _ _ hT.ne']
  push_cast; field_simp; ring

/-! ### triangle -/

theorem timeR_tri (T A φ off : ℝ) :
    timeR ⟨.TriFunction, T, A, φ, off⟩
      = fun t => plFun T (A + off) (-4 * A / T) (-3 * A + off) (4 * A / T) (fmodR (t + φ / 2 / π * T) T) := by
  funext t
  simp only [timeR, WaveObj.timeFunction, TriFunction.timeFunction, plFun, Int.cast_ofNat, Int.cast_neg,
    Int.cast_one]
  split_ifs <;> ring

theorem coeff_tri (T A φ off : ℝ) (hT : 0 < T) (n : ℤ) (hn : n ≠ 0) :
    coeff (timeR ⟨.TriFunction, T, A, φ, off⟩) T n
      = cexp (I * ((n * φ : ℝ) : ℂ)) * (2 * (A : ℂ) * (1 - (-1) ^ n) / (π ^ 2 * n ^ 2)) := by
  have hT' : (T : ℂ) ≠ 0 := by exact_mod_cast hT.ne'
  have hn' : (n : ℂ) ≠ 0 := by exact_mod_cast hn
  have hpi : (π : ℂ) ≠ 0 := by exact_mod_cast Real.pi_ne_zero
  rw [timeR_tri, coeff_shift (plFun T (A + off) (-4 * A / T) (-3 * A + off) (4 * A / T)) T _ hT n,
    shift_factor T φ hT.ne' n, coeff_pl T _ _ _ _ hT n hn]
  congr 1
  simp only [div_eq_mul_inv, ← inv_pow, inv_cexpo]
  push_cast
  field_simp
  ring_nf
  simp only [I_sq]
  ring

theorem coeff_tri_zero (T A φ off : ℝ) (hT : 0 < T) :
    coeff (timeR ⟨.TriFunction, T, A, φ, off⟩) T 0 = (off : ℂ) := by
  have hT' : (T : ℂ) ≠ 0 := by exact_mod_cast hT.ne'
  rw [timeR_tri, coeff_shift (plFun T (A + off) (-4 * A / T) (-3 * A + off) (4 * A / T)) T _ hT 0,
    shift_factor_zero, coeff_pl_zero T _ _ _ _ hT]
  push_cast; field_simp; ring

/-! ### constant, cosine, sine -/

theorem timeR_const (T A φ off : ℝ) :
    timeR ⟨.ConstantFunction, T, A, φ, off⟩ = linFun A 0 := by
  funext t
  simp [timeR, WaveObj.timeFunction, ConstantFunction.timeFunction, linFun]

theorem timeR_cos (T A φ off : ℝ) :
    timeR ⟨.CosFunction, T, A, φ, off⟩ = fun t => A * Real.cos (2 * π / T * t + φ) + off := by
  funext t
  simp [timeR, WaveObj.timeFunction, CosFunction.timeFunction]

theorem timeR_sin (T A φ off : ℝ) :
    timeR ⟨.SinFunction, T, A, φ, off⟩
      = fun t => A * Real.cos (2 * π / T * t + (-π / 2 + φ)) + off := by
  funext t
  simp only [timeR, WaveObj.timeFunction, SinFunction.timeFunction, Int.cast_ofNat]
  rw [← Real.cos_sub_pi_div_two]
  congr 3; ring

end CC.Fourier
