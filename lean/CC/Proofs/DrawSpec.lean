/-
  CC.Proofs.DrawSpec — facts about the Spec relation `Joined` that carry the metamorphic part
  of C13: invariance under injective coordinate maps (rotation, translation, change of
  unit), under splitting a wire through a fresh point, and under reordering of the symbols.
-/
import CC.Proofs.DrawClosure
set_option linter.unusedSectionVars false
namespace CC.Draw
variable {P Q : Type}


/-- image of the wire list under a coordinate map -/
def mapWires (f : P → Q) (ws : List (P × P)) : List (Q × Q) := ws.map fun w => (f w.1, f w.2)

theorem mem_mapWires {f : P → Q} {ws : List (P × P)} {x y : Q} :
    (x, y) ∈ mapWires f ws ↔ ∃ w ∈ ws, x = f w.1 ∧ y = f w.2 := by
  unfold mapWires
  simp only [List.mem_map, Prod.mk.injEq]
  constructor
  · rintro ⟨w, hw, h1, h2⟩; exact ⟨w, hw, h1.symm, h2.symm⟩
  · rintro ⟨w, hw, h1, h2⟩; exact ⟨w, hw, h1.symm, h2.symm⟩

theorem Joined.map (f : P → Q) {ws : List (P × P)} {p q : P} (h : Joined ws p q) :
    Joined (mapWires f ws) (f p) (f q) := by
  induction h with
  | refl => exact Joined.refl _
  | wire _ hw ih =>
    refine Joined.wire ih ?_
    rcases hw with hw | hw
    · exact Or.inl (mem_mapWires.mpr ⟨_, hw, rfl, rfl⟩)
    · exact Or.inr (mem_mapWires.mpr ⟨_, hw, rfl, rfl⟩)

/-- `D` contains every wire end point -/
def CoversWires (D : P → Prop) (ws : List (P × P)) : Prop := ∀ w ∈ ws, D w.1 ∧ D w.2

theorem Joined.unmap_aux {f : P → Q} {D : P → Prop} {ws : List (P × P)}
    (hinj : ∀ x y, D x → D y → f x = f y → x = y) (hD : CoversWires D ws)
    {a b : Q} (h : Joined (mapWires f ws) a b) :
    ∀ p, D p → a = f p → ∃ q, D q ∧ b = f q ∧ Joined ws p q := by
  induction h with
  | refl => intro p hp ha; exact ⟨p, hp, ha, Joined.refl p⟩
  | wire _ hw ih =>
    intro p hp ha
    obtain ⟨q, hq, hc, hpq⟩ := ih p hp ha
    rcases hw with hw | hw
    · obtain ⟨w, hw, h1, h2⟩ := mem_mapWires.mp hw
      have : q = w.1 := hinj q w.1 hq (hD w hw).1 (hc ▸ h1)
      subst this
      exact ⟨w.2, (hD w hw).2, h2, Joined.wire hpq (Or.inl hw)⟩
    · obtain ⟨w, hw, h1, h2⟩ := mem_mapWires.mp hw
      have : q = w.2 := hinj q w.2 hq (hD w hw).2 (hc ▸ h2)
      subst this
      exact ⟨w.1, (hD w hw).1, h1, Joined.wire hpq (Or.inr hw)⟩

/-- **geometry**: a coordinate map that is injective on the points used preserves and
reflects "joined by wires" -/
theorem joined_map_iff {f : P → Q} {D : P → Prop} {ws : List (P × P)}
    (hinj : ∀ x y, D x → D y → f x = f y → x = y) (hD : CoversWires D ws) {p q : P}
    (hp : D p) (hq : D q) : Joined (mapWires f ws) (f p) (f q) ↔ Joined ws p q := by
  constructor
  · intro h
    obtain ⟨q', hq', he, hj⟩ := Joined.unmap_aux hinj hD h p hp rfl
    have : q = q' := hinj q q' hq hq' he
    exact this ▸ hj
  · exact Joined.map f

/-! ### splitting a wire through a fresh point -/

section Split
variable [DecidableEq P]

/-- `c` is no end point of any wire -/
def FreshPt (c : P) (ws : List (P × P)) : Prop := ∀ w ∈ ws, w.1 ≠ c ∧ w.2 ≠ c

theorem joined_split_fwd {pre post : List (P × P)} {a b c : P}
    (hfresh : FreshPt c (pre ++ (a, b) :: post)) {x y : P}
    (h : Joined (pre ++ (a, c) :: (c, b) :: post) x y) :
    Joined (pre ++ (a, b) :: post) (if x = c then a else x) (if y = c then a else y) := by
  have hac : a ≠ c := (hfresh (a, b) (by simp)).1
  have hbc : b ≠ c := (hfresh (a, b) (by simp)).2
  have hold : ∀ w, w ∈ pre ∨ w ∈ post → w ∈ pre ++ (a, b) :: post := by
    intro w hw; rcases hw with h | h <;> simp [h]
  have key : ∀ u v : P, (u, v) ∈ pre ++ (a, c) :: (c, b) :: post →
      Joined (pre ++ (a, b) :: post) (if u = c then a else u) (if v = c then a else v) := by
    intro u v huv
    have : (u, v) ∈ pre ∨ (u, v) = (a, c) ∨ (u, v) = (c, b) ∨ (u, v) ∈ post := by
      simpa [List.mem_append, List.mem_cons] using huv
    rcases this with h | h | h | h
    · have := hfresh (u, v) (hold _ (Or.inl h))
      simp only [this.1, this.2, if_false]
      exact Joined.single (Or.inl (hold _ (Or.inl h)))
    · cases h; simp [hac]; exact Joined.refl a
    · cases h; simp [hbc]; exact Joined.single (Or.inl (by simp))
    · have := hfresh (u, v) (hold _ (Or.inr h))
      simp only [this.1, this.2, if_false]
      exact Joined.single (Or.inl (hold _ (Or.inr h)))
  induction h with
  | refl => exact Joined.refl _
  | wire _ hw ih =>
    rcases hw with hw | hw
    · exact ih.trans (key _ _ hw)
    · exact ih.trans (key _ _ hw).symm

theorem joined_split_bwd {pre post : List (P × P)} {a b c : P} {x y : P}
    (h : Joined (pre ++ (a, b) :: post) x y) :
    Joined (pre ++ (a, c) :: (c, b) :: post) x y := by
  have key : ∀ u v : P, (u, v) ∈ pre ++ (a, b) :: post →
      Joined (pre ++ (a, c) :: (c, b) :: post) u v := by
    intro u v huv
    have : (u, v) ∈ pre ∨ (u, v) = (a, b) ∨ (u, v) ∈ post := by
      simpa [List.mem_append, List.mem_cons] using huv
    rcases this with h | h | h
    · exact Joined.single (Or.inl (by simp [h]))
    · cases h
      exact (Joined.single (a := a) (b := c) (Or.inl (by simp))).trans
        (Joined.single (a := c) (b := b) (Or.inl (by simp)))
    · exact Joined.single (Or.inl (by simp [h]))
  induction h with
  | refl => exact Joined.refl _
  | wire _ hw ih =>
    rcases hw with hw | hw
    · exact ih.trans (key _ _ hw)
    · exact ih.trans (key _ _ hw).symm

/-- **wire split**: replacing the wire `(a, b)` by `(a, c), (c, b)` through a fresh point `c`
does not change which of the original points are joined -/
theorem joined_split_iff {pre post : List (P × P)} {a b c : P}
    (hfresh : FreshPt c (pre ++ (a, b) :: post)) {p q : P} (hp : p ≠ c) (hq : q ≠ c) :
    Joined (pre ++ (a, c) :: (c, b) :: post) p q ↔ Joined (pre ++ (a, b) :: post) p q := by
  constructor
  · intro h
    have := joined_split_fwd hfresh h
    simpa [hp, hq] using this
  · exact joined_split_bwd

end Split

/-- a chain `a – c₁ – … – cₖ – b` as a wire list -/
def chainWires : P → List P → P → List (P × P)
  | a, [], b => [(a, b)]
  | a, c :: cs, b => (a, c) :: chainWires c cs b

/-- **wire split, chains**: replacing a wire by a chain through fresh, pairwise distinct points
does not change which of the original points are joined -/
theorem joined_chain_iff [DecidableEq P] {pre post : List (P × P)} (cs : List P) {a b : P}
    (hfresh : ∀ c ∈ cs, FreshPt c (pre ++ (a, b) :: post)) (hnd : cs.Nodup)
    {p q : P} (hp : p ∉ cs) (hq : q ∉ cs) :
    Joined (pre ++ chainWires a cs b ++ post) p q ↔ Joined (pre ++ (a, b) :: post) p q := by
  induction cs generalizing pre a with
  | nil => simp [chainWires]
  | cons c cs ih =>
    have hc : FreshPt c (pre ++ (a, b) :: post) := hfresh c List.mem_cons_self
    have hpc : p ≠ c := fun h => hp (h ▸ List.mem_cons_self)
    have hqc : q ≠ c := fun h => hq (h ▸ List.mem_cons_self)
    have hnd' := (List.nodup_cons.mp hnd)
    rw [← joined_split_iff hc hpc hqc]
    have hf' : ∀ c' ∈ cs, FreshPt c' ((pre ++ [(a, c)]) ++ (c, b) :: post) := by
      intro c' hc' w hw
      have hne : c ≠ c' := fun h => hnd'.1 (h ▸ hc')
      have hfc' := hfresh c' (List.mem_cons_of_mem _ hc')
      have : w ∈ pre ∨ w = (a, c) ∨ w = (c, b) ∨ w ∈ post := by
        simpa [List.mem_append, List.mem_cons] using hw
      rcases this with h | h | h | h
      · exact hfc' w (by simp [h])
      · subst h; exact ⟨(hfc' (a, b) (by simp)).1, hne⟩
      · subst h; exact ⟨hne, (hfc' (a, b) (by simp)).2⟩
      · exact hfc' w (by simp [h])
    have := ih (pre := pre ++ [(a, c)]) (a := c) hf' hnd'.2
      (fun h => hp (List.mem_cons_of_mem _ h)) (fun h => hq (List.mem_cons_of_mem _ h))
    simpa [chainWires, List.append_assoc] using this

/-! ### reordering -/

theorem joined_perm [DecidableEq P] {ws ws' : List (P × P)} (h : ws.Perm ws') {p q : P} :
    Joined ws p q ↔ Joined ws' p q :=
  ⟨Joined.mono (fun _ hw => h.mem_iff.mp hw), Joined.mono (fun _ hw => h.mem_iff.mpr hw)⟩

end CC.Draw
