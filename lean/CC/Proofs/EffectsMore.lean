/-
  CC.Proofs.EffectsMore — helper definitions and lemmas for CC/Properties/C20More.lean
  (Mathlib-free).

  1. Reading the generated effect summary (CC/Gen/Effects.lean) by *group* of functions:
     `groupCheck sel rows names` is the Boolean that is evaluated on the generated table
     (`decide +kernel`), `groupCheck_spec` turns it into the quantified statement.
  2. Read-only machines: a `Sig` lists, per function name, the parameter names and the
     (pure) model function on the values bound to them; `Sig.machine` is the `Machine` of
     CC/Model/Effects.lean whose step looks the arguments up in the pool, applies the model
     function and hands the pool back.  Soundness of such a machine w.r.t. *any* effect summary
     holds by construction (a Lean function cannot write); what the instances of C20More add
     is the explicit dispatch real function name ↦ model function, and the link between those
     names and the generated table.
-/
import CC.Model.Effects
namespace CC.Load
open CC.Gen.Effects

/-! ### groups of rows of the generated table -/

/-- `s` starts with `p` (the qualified names of the table start with the module path) -/
def pfx (p s : String) : Bool := p.isPrefixOf s

/-- One pass over the rows: every selected row has an empty write set, and the names occur, in
this order, among the selected rows. -/
def scanGroup (sel : String → Bool) : List String → List (String × List String) → Bool
  | names, [] => names.isEmpty
  | names, r :: rs =>
    if sel r.1 then
      r.2.isEmpty &&
        (match names with
         | [] => scanGroup sel [] rs
         | f :: fs => if r.1 == f then scanGroup sel fs rs else scanGroup sel (f :: fs) rs)
    else scanGroup sel names rs

theorem scanGroup_spec (sel : String → Bool) : ∀ (rows : List (String × List String)) (names : List String),
    scanGroup sel names rows = true →
      (∀ r ∈ rows, sel r.1 = true → r.2 = []) ∧ (∀ f ∈ names, ∃ r ∈ rows, r.1 = f ∧ sel r.1 = true)
  | [], names, h => by
    simp only [scanGroup, List.isEmpty_iff] at h
    subst h; simp
  | r :: rs, names, h => by
    unfold scanGroup at h
    by_cases hs : sel r.1 = true
    · rw [if_pos hs, Bool.and_eq_true] at h
      obtain ⟨he, h⟩ := h
      have he' : r.2 = [] := by simpa using he
      cases names with
      | nil =>
        obtain ⟨a, _⟩ := scanGroup_spec sel rs [] h
        refine ⟨?_, by simp⟩
        intro r' hr' hs'
        rcases List.mem_cons.1 hr' with rfl | hr'
        · exact he'
        · exact a r' hr' hs'
      | cons f fs =>
        simp only at h
        by_cases hrf : (r.1 == f) = true
        · rw [if_pos hrf] at h
          obtain ⟨a, b⟩ := scanGroup_spec sel rs fs h
          refine ⟨?_, ?_⟩
          · intro r' hr' hs'
            rcases List.mem_cons.1 hr' with rfl | hr'
            · exact he'
            · exact a r' hr' hs'
          · intro g hg
            rcases List.mem_cons.1 hg with rfl | hg
            · exact ⟨r, by simp, by simpa using hrf, hs⟩
            · obtain ⟨r', hr', e⟩ := b g hg
              exact ⟨r', List.mem_cons_of_mem _ hr', e⟩
        · rw [if_neg hrf] at h
          obtain ⟨a, b⟩ := scanGroup_spec sel rs (f :: fs) h
          refine ⟨?_, ?_⟩
          · intro r' hr' hs'
            rcases List.mem_cons.1 hr' with rfl | hr'
            · exact he'
            · exact a r' hr' hs'
          · intro g hg
            obtain ⟨r', hr', e⟩ := b g hg
            exact ⟨r', List.mem_cons_of_mem _ hr', e⟩
    · rw [if_neg hs] at h
      obtain ⟨a, b⟩ := scanGroup_spec sel rs names h
      refine ⟨?_, ?_⟩
      · intro r' hr' hs'
        rcases List.mem_cons.1 hr' with rfl | hr'
        · exact absurd hs' hs
        · exact a r' hr' hs'
      · intro g hg
        obtain ⟨r', hr', e⟩ := b g hg
        exact ⟨r', List.mem_cons_of_mem _ hr', e⟩

/-- What is evaluated on the generated table for one group of functions (`sel` on the
qualified name): every selected row has an empty write set; the listed functions are among the
selected rows (so the statement is not about an empty selection); no selected function occurs in
the table of module-level writes, of unclassified callees, of unknown decorators. -/
def groupCheck (sel : String → Bool) (rows : List (String × List String)) (names : List String) : Bool :=
  scanGroup sel names rows
    && globalWrites.all (fun x => !sel x.1)
    && unknownCalls.all (fun x => !sel x.1)
    && unknownDecorators.all (fun x => !sel x.1)

/-- the quantified reading of `groupCheck` -/
structure GroupPure (sel : String → Bool) (rows : List (String × List String)) (names : List String) : Prop where
  /-- every row of the group: nothing reachable from any parameter (including `self`) is written -/
  rows_pure : ∀ r ∈ rows, sel r.1 = true → r.2 = []
  /-- the listed functions are rows of the group (with an empty write set) -/
  listed : ∀ f ∈ names, sel f = true ∧ (f, []) ∈ rows
  /-- no function of the group writes a module-level object -/
  no_global : ∀ x ∈ globalWrites, sel x.1 = false
  /-- no function of the group hands an aliased argument to an unclassified callee -/
  no_unknown_callee : ∀ x ∈ unknownCalls, sel x.1 = false
  /-- no function of the group is wrapped by a decorator that may keep state -/
  no_unknown_decorator : ∀ x ∈ unknownDecorators, sel x.1 = false

theorem groupCheck_spec {sel : String → Bool} {rows : List (String × List String)} {names : List String}
    (h : groupCheck sel rows names = true) : GroupPure sel rows names := by
  simp only [groupCheck, Bool.and_eq_true] at h
  obtain ⟨⟨⟨h1, h3⟩, h4⟩, h5⟩ := h
  obtain ⟨hp, hn⟩ := scanGroup_spec sel rows names h1
  refine ⟨hp, ?_, ?_, ?_, ?_⟩
  · intro f hf
    obtain ⟨r, hr1, e, hr2⟩ := hn f hf
    have hws := hp r hr1 hr2
    subst e
    refine ⟨hr2, ?_⟩
    have : r = (r.1, []) := by rw [← hws]
    rw [← this]; exact hr1
  · intro x hx; simpa using List.all_eq_true.1 h3 x hx
  · intro x hx; simpa using List.all_eq_true.1 h4 x hx
  · intro x hx; simpa using List.all_eq_true.1 h5 x hx

/-- a function whose name no row of the summary carries has no write set in the summary -/
theorem writeRoots_none_of_absent (sel : String → Bool) (h : (effects.all fun r => !sel r.1) = true)
    (fn : String) (hf : sel fn = true) : writeRoots fn = none := by
  unfold writeRoots
  rw [Option.map_eq_none_iff, List.find?_eq_none]
  intro r hr heq
  have h1 := List.all_eq_true.1 h r hr
  have : r.1 = fn := by simpa using heq
  rw [this, hf] at h1
  simp at h1

/-! ### read-only machines -/

/-- the value bound to parameter `p` of an operation: the cell its binding names -/
def Op.arg? {V : Type} (op : Op) (p : String) (h : List V) : Option V :=
  (op.args.find? fun a => a.1 == p).bind fun a => h[a.2]?

/-- the values bound to the listed parameters, in that order (`none`: one is not bound, or
bound to a cell that does not exist) -/
def Op.argVals {V : Type} (op : Op) (params : List String) (h : List V) : Option (List V) :=
  params.mapM fun p => op.arg? p h

/-- A signature: per qualified function name its parameter names, and the model function on
the values bound to them (`flag` is the boolean option of the call). -/
structure Sig (V O : Type) where
  params : List (String × List String)
  sem : String → Bool → List V → O
  /-- answer for an operation that is not a call of one of the functions with all its
  parameters bound -/
  bad : O

def Sig.paramsOf {V O : Type} (S : Sig V O) (fn : String) : Option (List String) :=
  (S.params.find? fun q => q.1 == fn).map (·.2)

/-- the result of one call as a function of the pool: look the arguments up, apply the model -/
def Sig.eval {V O : Type} (S : Sig V O) (op : Op) (h : List V) : O :=
  match S.paramsOf op.fn with
  | none => S.bad
  | some ps =>
    match op.argVals ps h with
    | none => S.bad
    | some vs => S.sem op.fn op.flag vs

/-- the machine of a signature: every step returns the pool as it received it -/
def Sig.machine {V O : Type} (S : Sig V O) : Machine V O :=
  { run := fun op h => (S.eval op h, h) }

/-- By construction: the step function hands the pool back, so it respects every effect
summary.  (This is a statement about the *model*: its operations are Lean functions.) -/
theorem Sig.machine_sound {V O : Type} (S : Sig V O) : S.machine.Sound :=
  fun _ _ => ⟨rfl, fun _ _ => rfl⟩

/-- any history on the machine of a signature: the pool is returned as it was, and the k-th
output is the model function applied to the values the k-th operation's parameters are bound
to *in the initial pool* -/
theorem Sig.runAll_eq {V O : Type} (S : Sig V O) (ops : List Op) (h : List V) :
    S.machine.runAll ops h = (ops.map fun op => S.eval op h, h) := by
  induction ops with
  | nil => rfl
  | cons op r ih =>
    show ((S.eval op h) :: (S.machine.runAll r h).1, (S.machine.runAll r h).2) = _
    rw [ih]; rfl

theorem Op.argVals_congr {V : Type} (op op' : Op) (h h' : List V)
    (ha : ∀ p, op.arg? p h = op'.arg? p h') (ps : List String) :
    op.argVals ps h = op'.argVals ps h' := by
  unfold Op.argVals
  have : (fun p => op.arg? p h) = (fun p => op'.arg? p h') := funext ha
  rw [this]

/-- **Equal descriptions, equal results.**  Two calls of the same function whose parameters are
bound to equal values — in the same pool or in two different pools, in the same cells or in
different ones — give the same result. -/
theorem Sig.eval_congr {V O : Type} (S : Sig V O) (op op' : Op) (h h' : List V)
    (hf : op.fn = op'.fn) (hfl : op.flag = op'.flag) (ha : ∀ p, op.arg? p h = op'.arg? p h') :
    S.eval op h = S.eval op' h' := by
  unfold Sig.eval
  rw [← hf, ← hfl]
  cases S.paramsOf op.fn with
  | none => rfl
  | some ps => simp only [Op.argVals_congr op op' h h' ha ps]

end CC.Load
