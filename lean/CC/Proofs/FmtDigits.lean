/-
  CC.Proofs.FmtDigits — digit counts: `numDigits`, `lzExact`, `decade`.
-/
import CC.Proofs.FmtArith

namespace CC.Fmt

theorem numDigitsAux_spec : ∀ (fuel n : ℕ), n ≤ fuel → 1 ≤ n →
    10 ^ (numDigitsAux fuel n - 1) ≤ n ∧ n < 10 ^ numDigitsAux fuel n ∧ 1 ≤ numDigitsAux fuel n := by
  intro fuel
  induction fuel with
  | zero => intro n h0 h1; omega
  | succ f ih =>
    intro n hn h1
    unfold numDigitsAux
    split_ifs with h10
    · simp; omega
    · have hq : n / 10 ≤ f := by omega
      have hq1 : 1 ≤ n / 10 := by omega
      obtain ⟨a, b, c⟩ := ih (n / 10) hq hq1
      refine ⟨?_, ?_, by omega⟩
      · have : 1 + numDigitsAux f (n / 10) - 1 = (numDigitsAux f (n / 10) - 1) + 1 := by omega
        rw [this, pow_succ]
        omega
      · rw [Nat.add_comm, pow_succ]; omega

/-- `n ≥ 1` has `numDigits n` decimal digits -/
theorem numDigits_spec {n : ℕ} (h : 1 ≤ n) :
    10 ^ (numDigits n - 1) ≤ n ∧ n < 10 ^ numDigits n ∧ 1 ≤ numDigits n :=
  numDigitsAux_spec n n le_rfl h

theorem numDigits_pos (n : ℕ) : 1 ≤ numDigits n := by
  rcases Nat.eq_zero_or_pos n with h | h
  · subst h; decide
  · exact (numDigits_spec h).2.2

/-- the digit count is determined by the decade -/
theorem numDigits_eq_of_bounds {n k : ℕ} (hk : 1 ≤ k) (h1 : 10 ^ (k - 1) ≤ n) (h2 : n < 10 ^ k) :
    numDigits n = k := by
  have hn : 1 ≤ n := le_trans (Nat.one_le_pow _ _ (by norm_num)) h1
  obtain ⟨a, b, c⟩ := numDigits_spec hn
  by_contra hne
  rcases Nat.lt_or_gt_of_ne hne with hlt | hgt
  · have : 10 ^ numDigits n ≤ 10 ^ (k - 1) := Nat.pow_le_pow_right (by norm_num) (by omega)
    omega
  · have : 10 ^ k ≤ 10 ^ (numDigits n - 1) := Nat.pow_le_pow_right (by norm_num) (by omega)
    omega

theorem lzAux_spec : ∀ (fuel : ℕ) (x : ℚ) (k : ℕ), 0 < x → x < 1 → 1 ≤ x * 10 ^ fuel →
    k ≤ lzAux fuel x k ∧
    pow10 (-((lzAux fuel x k - k : ℕ) : ℤ) - 1) ≤ x ∧ x < pow10 (-((lzAux fuel x k - k : ℕ) : ℤ)) := by
  intro fuel
  induction fuel with
  | zero => intro x k h0 h1 h; simp at h; linarith
  | succ f ih =>
    intro x k h0 h1 hf
    unfold lzAux
    split_ifs with h10
    · refine ⟨le_rfl, ?_, ?_⟩
      · simp [pow10_eq_zpow]; linarith
      · simp [pow10_eq_zpow]; exact h1
    · push Not at h10
      have hf' : 1 ≤ x * 10 * 10 ^ f := by rw [pow_succ] at hf; linarith
      obtain ⟨a, b, c⟩ := ih (x * 10) (k + 1) (by positivity) h10 hf'
      refine ⟨by omega, ?_, ?_⟩
      · have e : ((lzAux f (x * 10) (k + 1) - k : ℕ) : ℤ) = ((lzAux f (x * 10) (k + 1) - (k + 1) : ℕ) : ℤ) + 1 := by
          omega
        rw [e]
        have : pow10 (-(((lzAux f (x * 10) (k + 1) - (k + 1) : ℕ) : ℤ) + 1) - 1)
            = pow10 (-((lzAux f (x * 10) (k + 1) - (k + 1) : ℕ) : ℤ) - 1) / 10 := by
          rw [show (-(((lzAux f (x * 10) (k + 1) - (k + 1) : ℕ) : ℤ) + 1) - 1)
            = (-((lzAux f (x * 10) (k + 1) - (k + 1) : ℕ) : ℤ) - 1) - 1 by ring, pow10_sub]
          simp [pow10_eq_zpow]
        rw [this]; linarith
      · have e : ((lzAux f (x * 10) (k + 1) - k : ℕ) : ℤ) = ((lzAux f (x * 10) (k + 1) - (k + 1) : ℕ) : ℤ) + 1 := by
          omega
        rw [e]
        have : pow10 (-(((lzAux f (x * 10) (k + 1) - (k + 1) : ℕ) : ℤ) + 1))
            = pow10 (-((lzAux f (x * 10) (k + 1) - (k + 1) : ℕ) : ℤ)) / 10 := by
          rw [show (-(((lzAux f (x * 10) (k + 1) - (k + 1) : ℕ) : ℤ) + 1))
            = (-((lzAux f (x * 10) (k + 1) - (k + 1) : ℕ) : ℤ)) - 1 by ring, pow10_sub]
          simp [pow10_eq_zpow]
        rw [this]; linarith

/-- `lzExact x` is the number of zeros after the decimal point of `0 < x < 1` -/
theorem lzExact_spec {x : ℚ} (h0 : 0 < x) (h1 : x < 1) :
    pow10 (-(lzExact x : ℤ) - 1) ≤ x ∧ x < pow10 (-(lzExact x : ℤ)) := by
  have hden : (1 : ℕ) ≤ x.den := x.den_pos
  obtain ⟨_, hlt, _⟩ := numDigits_spec hden
  have hfuel : 1 ≤ x * 10 ^ numDigits x.den := by
    have hnum : (1 : ℚ) ≤ x.num := by exact_mod_cast Rat.num_pos.mpr h0
    have hx : x = (x.num : ℚ) / (x.den : ℚ) := (Rat.num_div_den x).symm
    have hd : (0 : ℚ) < x.den := by exact_mod_cast x.den_pos
    have hlt' : (x.den : ℚ) < 10 ^ numDigits x.den := by exact_mod_cast hlt
    generalize (10 : ℚ) ^ numDigits x.den = N at hlt' ⊢
    have hxd : x * (x.den : ℚ) = x.num := Rat.mul_den_eq_num x
    have hN : 0 < N := lt_trans hd hlt'
    nlinarith
  have := lzAux_spec (numDigits x.den) x 0 h0 h1 hfuel
  simpa [lzExact] using this.2

/-- `decade x = ⌊log₁₀ x⌋` -/
theorem decade_spec {x : ℚ} (h0 : 0 < x) : pow10 (decade x) ≤ x ∧ x < pow10 (decade x + 1) := by
  unfold decade
  split_ifs with h1
  · have hfl : (1 : ℤ) ≤ ⌊x⌋ := Int.le_floor.mpr (by simpa using h1)
    have hn : 1 ≤ x.floor.toNat := by simp only [floor_eq]; omega
    obtain ⟨a, b, c⟩ := numDigits_spec hn
    have hcast : ((x.floor.toNat : ℕ) : ℚ) = ((⌊x⌋ : ℤ) : ℚ) := by
      simp only [floor_eq]
      have : ((⌊x⌋.toNat : ℕ) : ℤ) = ⌊x⌋ := Int.toNat_of_nonneg (by omega)
      exact_mod_cast congrArg (fun z : ℤ => (z : ℚ)) this
    constructor
    · have : ((numDigits x.floor.toNat : ℕ) : ℤ) - 1 = ((numDigits x.floor.toNat - 1 : ℕ) : ℤ) := by omega
      rw [this, pow10_natCast]
      have h' : ((10 ^ (numDigits x.floor.toNat - 1) : ℕ) : ℚ) ≤ (x.floor.toNat : ℚ) := by exact_mod_cast a
      rw [hcast] at h'
      push_cast at h'
      exact le_trans h' (Int.floor_le x)
    · have : ((numDigits x.floor.toNat : ℕ) : ℤ) - 1 + 1 = ((numDigits x.floor.toNat : ℕ) : ℤ) := by omega
      rw [this, pow10_natCast]
      have h' : ((x.floor.toNat + 1 : ℕ) : ℚ) ≤ ((10 ^ numDigits x.floor.toNat : ℕ) : ℚ) := by exact_mod_cast b
      push_cast at h'
      rw [hcast] at h'
      exact lt_of_lt_of_le (Int.lt_floor_add_one x) h'
  · push Not at h1
    obtain ⟨a, b⟩ := lzExact_spec h0 h1
    refine ⟨a, ?_⟩
    have : -(lzExact x : ℤ) - 1 + 1 = -(lzExact x : ℤ) := by ring
    rw [this]; exact b

/-- the decade is unique -/
theorem decade_unique {x : ℚ} {d : ℤ} (h1 : pow10 d ≤ x) (h2 : x < pow10 (d + 1)) : decade x = d := by
  have h0 : 0 < x := lt_of_lt_of_le (pow10_pos d) h1
  obtain ⟨a, b⟩ := decade_spec h0
  by_contra hne
  rcases lt_or_gt_of_ne hne with hlt | hgt
  · have : pow10 (decade x + 1) ≤ pow10 d := pow10_le_pow10 (by omega)
    linarith
  · have : pow10 (d + 1) ≤ pow10 (decade x) := pow10_le_pow10 (by omega)
    linarith

end CC.Fmt
