import CC.Proofs.Solvable
import CC.Spec.Port
import Mathlib.LinearAlgebra.Matrix.NonsingularInverse
/-
  CC.Proofs.PortExists — a square list-matrix over a field with trivial kernel is surjective (via Mathlib
  matrices), hence a well-posed valid network has a solution of the circuit equations (C06: existence half
  of `PortZ`).
-/
set_option linter.unusedSectionVars false
set_option linter.unusedVariables false
namespace CC
variable {K : Type} [Field K] [DecidableEq K]

/-- the square list-matrix as a Mathlib matrix -/
def toMatrix (n : Nat) (A : List (List K)) : Matrix (Fin n) (Fin n) K :=
  fun i j => (A.getD i []).getD j 0

theorem dotL_ofFn (n : Nat) (r : List K) (hr : r.length = n) (v : Fin n → K) :
    dotL r (List.ofFn v) = ∑ j : Fin n, r.getD j 0 * v j := by
  induction n generalizing r with
  | zero => cases r with
    | nil => simp [dotL]
    | cons a t => simp at hr
  | succ n ih =>
    cases r with
    | nil => simp at hr
    | cons a t =>
      rw [List.ofFn_succ, dotL_cons, Fin.sum_univ_succ, ih t (by simpa using hr)]
      simp

theorem matVec_ofFn (n : Nat) (A : List (List K)) (hA : A.length = n) (hrow : ∀ r ∈ A, r.length = n)
    (v : Fin n → K) : matVec A (List.ofFn v) = List.ofFn ((toMatrix n A).mulVec v) := by
  apply List.ext_getElem
  · simp [matVec, hA]
  · intro i h1 h2
    have hi : i < A.length := by simpa [matVec] using h1
    simp only [matVec, List.getElem_map, List.getElem_ofFn]
    rw [dotL_ofFn n _ (hrow _ (List.getElem_mem hi))]
    simp only [Matrix.mulVec, dotProduct, toMatrix]
    apply Finset.sum_congr rfl
    intro j _
    simp [List.getD_eq_getElem?_getD, List.getElem?_eq_getElem hi]

/-- **a square list-matrix over a field with trivial kernel is surjective** -/
theorem matVec_surjective_of_trivial_kernel (n : Nat) (A : List (List K)) (hA : A.length = n)
    (hrow : ∀ r ∈ A, r.length = n)
    (hker : ∀ x : List K, x.length = n → matVec A x = List.replicate n 0 → x = List.replicate n 0)
    (b : List K) (hb : b.length = n) : ∃ x : List K, x.length = n ∧ matVec A x = b := by
  have hinj : Function.Injective (toMatrix n A).mulVec := by
    intro v w hvw
    have hz : (toMatrix n A).mulVec (v - w) = 0 := by rw [Matrix.mulVec_sub, hvw, sub_self]
    have h1 : matVec A (List.ofFn (v - w)) = List.replicate n 0 := by
      rw [matVec_ofFn n A hA hrow, hz]
      apply List.ext_getElem <;> simp
    have h2 := hker _ (by simp) h1
    have : v - w = 0 := by
      funext j
      have := congrArg (fun l => l.getD j 0) h2
      simpa using this
    exact sub_eq_zero.mp this
  have hunit := Matrix.mulVec_injective_iff_isUnit.mp hinj
  have hsurj := Matrix.mulVec_surjective_iff_isUnit.mpr hunit
  obtain ⟨v, hv⟩ := hsurj (fun j => b.getD j 0)
  refine ⟨List.ofFn v, by simp, ?_⟩
  rw [matVec_ofFn n A hA hrow, hv]
  apply List.ext_getElem
  · simp [hb]
  · intro i h1 h2
    simp [List.getD_eq_getElem?_getD, List.getElem?_eq_getElem h2]


variable {L : Type} [DecidableEq L] [LabelOrd L]

/-- **existence for well-posed valid networks**: the matrix equation the code builds has a solution,
hence (by `C01_sound`) the circuit equations have one -/
theorem circuitEqs_exists_of_wellposed (M : Net L K) (wf : M.WF) (hw : WellPosed M) :
    ∃ R : Report L K, CircuitEqs M R := by
  set n := M.nodes.length + M.vsIds.length with hn
  have hsq := C01_square M
  have hlen : M.mnaA.length = n := by rw [hsq.1, vsSorted_length M wf.ids_nodup]
  have hrow : ∀ r ∈ M.mnaA, r.length = n := by
    intro r hr; rw [hsq.2 r hr, vsSorted_length M wf.ids_nodup]
  have hb : M.mnaB.length = n := by simp [Net.mnaB, vsSorted_length M wf.ids_nodup, hn]
  have hzero : (M.mnaB.map fun _ => (0 : K)) = List.replicate n 0 := by
    apply List.ext_getElem <;> simp [hb]
  have hker : ∀ x : List K, x.length = n → matVec M.mnaA x = List.replicate n 0 → x = List.replicate n 0 := by
    intro x hx h
    have := C01_solvable M wf hw x hx (by rw [hzero]; exact h)
    rw [hx] at this; exact this
  obtain ⟨x, hx, hsol⟩ := matVec_surjective_of_trivial_kernel n M.mnaA hlen hrow hker M.mnaB hb
  exact ⟨_, (C01_sound M x wf hx hsol).2.2⟩

theorem probeNet_wf (N : Net L K) (pid : String) (a b : L) (hp : pid ∉ N.ids) (hids : N.ids.Nodup)
    (hsl : ∀ x ∈ N.branches, x.n1 ≠ x.n2) (hab : a ≠ b)
    (hz : N.zero ∈ (probeNet N pid a b (1 : K)).nodeLabels) : (probeNet N pid a b (1 : K)).WF := by
  refine ⟨?_, hz, ?_⟩
  · have : (probeNet N pid a b (1 : K)).ids = N.ids ++ [pid] := by
      simp [Net.ids, probeNet, Net.zeroSources, probeBranch, Function.comp_def]
    rw [this]
    exact List.nodup_append.mpr ⟨hids, by simp, by
      intro x hx y hy; simp only [List.mem_singleton] at hy; subst hy; exact fun e => hp (e ▸ hx)⟩
  · intro x hx
    simp only [probeNet, Net.zeroSources, List.mem_append, List.mem_map, List.mem_singleton] at hx
    rcases hx with ⟨y, hy, rfl⟩ | rfl
    · exact hsl y hy
    · exact fun e => hab e.symm

end CC
