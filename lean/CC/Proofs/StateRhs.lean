/-
  CC.Proofs.StateRhs — the right-hand side of the substituted (per-sample / per-frequency) network
  is the model's `QS·u + DQ·Λ·ẋ`: index bookkeeping between the alphabetic index maps, the entries of
  `ssQ` / `ssDelta` / `selectCols` / `hstack`, and sums over the branches of the network.
-/
import CC.Proofs.StateCircuit
import CC.Proofs.StateModel
set_option linter.unusedSectionVars false

namespace CC
open Mx

section generic
variable {K : Type} [Field K]

theorem sumTo_succ' (n : Nat) (f : Nat → K) : sumTo (n + 1) f = f 0 + sumTo n (fun j => f (j + 1)) := by
  simp [sumTo, List.range_succ_eq_map, List.map_map, Function.comp_def]

theorem sumTo_add (m n : Nat) (f : Nat → K) :
    sumTo (m + n) f = sumTo m f + sumTo n (fun j => f (m + j)) := by
  simp [sumTo, List.range_add, List.map_map, Function.comp_def]

theorem rhs_sumTo_congr (n : Nat) (f g : Nat → K) (h : ∀ j, j < n → f j = g j) : sumTo n f = sumTo n g := by
  unfold sumTo
  congr 1
  exact List.map_congr_left fun j hj => h j (List.mem_range.mp hj)

theorem sumTo_zero (n : Nat) : sumTo n (fun _ => (0 : K)) = 0 := by
  simp [sumTo]

theorem sumTo_eq_zero (n : Nat) (f : Nat → K) (h : ∀ j, j < n → f j = 0) : sumTo n f = 0 := by
  rw [rhs_sumTo_congr n f (fun _ => 0) h, sumTo_zero]

/-- a vector of length `n` is the list of its `getD` values -/
theorem list_eq_range_map (v : List K) : v = (List.range v.length).map fun j => v.getD j 0 := by
  apply List.ext_getElem
  · simp
  · intro i h1 h2
    simp [List.getD_eq_getElem?_getD, h1]

theorem dotL_range_map (n : Nat) (g : Nat → K) (v : List K) (hv : v.length = n) :
    dotL ((List.range n).map g) v = sumTo n fun j => g j * v.getD j 0 := by
  have e : v = (List.range n).map fun j => v.getD j 0 := by
    have := list_eq_range_map v; rwa [hv] at this
  unfold dotL sumTo
  conv_lhs => rw [e]
  rw [List.zipWith_map, List.zipWith_self]

theorem rhs_matVec_ofFn (r c : Nat) (F : Nat → Nat → K) (v : List K) (hv : v.length = c) :
    matVec (ofFn r c F) v = (List.range r).map fun i => sumTo c fun j => F i j * v.getD j 0 := by
  unfold matVec ofFn
  rw [List.map_map]
  apply List.map_congr_left
  intro i _
  exact dotL_range_map c (F i) v hv

/-- positional sum over a duplicate-free list = sum over its members with their index -/
theorem sumTo_nodup_list {α : Type} [DecidableEq α] (l : List α) (hl : l.Nodup) (G : α → Nat → K) :
    sumTo l.length (fun j => (l[j]?).elim 0 (fun a => G a j))
      = (l.map fun a => G a ((idxOf? a l).getD 0)).sum := by
  induction l generalizing G with
  | nil => simp [sumTo]
  | cons b l ih =>
    have hnd := List.nodup_cons.mp hl
    rw [List.length_cons, sumTo_succ']
    simp only [List.getElem?_cons_zero, List.getElem?_cons_succ, List.map_cons, List.sum_cons, Option.elim_some]
    congr 1
    · simp [idxOf?]
    · rw [ih hnd.2 (fun a j => G a (j + 1))]
      congr 1
      apply List.map_congr_left
      intro a ha
      have hba : ¬ b = a := fun e => hnd.1 (e ▸ ha)
      obtain ⟨k, hk, _, _⟩ := idxOf?_of_mem ha
      simp [idxOf?, hba, hk]

theorem mapM_ok_getElem? {α β ε : Type} (f : α → Except ε β) {l : List α} {out : List β}
    (h : l.mapM f = .ok out) (k : Nat) :
    out[k]? = (l[k]?).bind fun a => match f a with | .ok b => some b | .error _ => none := by
  induction l generalizing out k with
  | nil => rw [List.mapM_nil] at h; cases h; simp
  | cons a l ih =>
    obtain ⟨b, bs, hb, hbs, rfl⟩ := mapM_cons_ok f h
    cases k with
    | zero => simp [hb]
    | succ k => simp [ih hbs k]

theorem getD_zipWith_mul (a b : List K) (k : Nat) :
    (List.zipWith (· * ·) a b).getD k 0 = a.getD k 0 * b.getD k 0 := by
  simp only [List.getD_eq_getElem?_getD, List.getElem?_zipWith]
  cases a[k]? <;> cases b[k]? <;> simp

/-- `filterMap` that drops nothing is index-preserving -/
theorem filterMap_getElem?_of_isSome {α β : Type} (f : α → Option β) (l : List α)
    (h : ∀ a ∈ l, (f a).isSome) (j : Nat) : (l.filterMap f)[j]? = (l[j]?).bind f := by
  induction l generalizing j with
  | nil => simp
  | cons a l ih =>
    obtain ⟨b, hb⟩ := Option.isSome_iff_exists.mp (h a List.mem_cons_self)
    rw [List.filterMap_cons, hb]
    cases j with
    | zero => simp [hb]
    | succ j => simpa using ih (fun x hx => h x (List.mem_cons_of_mem _ hx)) j

/-- in a list with duplicate-free keys an element sits at the index of its key -/
theorem getElem?_idx_of_key {α β : Type} [DecidableEq β] (f : α → β) (l : List α) (hl : (l.map f).Nodup)
    {a : α} (ha : a ∈ l) : l[(idxOf? (f a) (l.map f)).getD 0]? = some a := by
  induction l with
  | nil => cases ha
  | cons b l ih =>
    have hnd : f b ∉ l.map f ∧ (l.map f).Nodup := List.nodup_cons.mp (by rw [List.map_cons] at hl; exact hl)
    rcases List.mem_cons.mp ha with rfl | ha'
    · simp [idxOf?]
    · have hne : ¬ f b = f a := fun e => hnd.1 (e ▸ List.mem_map_of_mem ha')
      obtain ⟨k, hk, _, _⟩ := idxOf?_of_mem (List.mem_map_of_mem (f := f) ha')
      have := ih hnd.2 ha'
      rw [hk] at this
      simp [idxOf?, hne, hk]
      simpa using this

/-- sum over a duplicate-free sublist of keys = sum over the carriers of those keys -/
theorem sum_keys_eq_sum_carriers {α : Type} (f : α → String) (l : List α) (hl : (l.map f).Nodup)
    (keys : List String) (hk : keys.Nodup) (hsub : ∀ id ∈ keys, id ∈ l.map f) (H : String → K) :
    (keys.map H).sum = (l.map fun a => if f a ∈ keys then H (f a) else 0).sum := by
  have hp : keys.Perm ((l.map f).filter fun id => decide (id ∈ keys)) := by
    apply (List.perm_ext_iff_of_nodup hk (hl.filter _)).mpr
    intro id
    simp only [List.mem_filter, decide_eq_true_eq]
    exact ⟨fun h => ⟨hsub id h, h⟩, fun h => h.2⟩
  rw [sum_map_perm hp H, sum_filter_eq_sum_ite, List.map_map]
  congr 1
  apply List.map_congr_left
  intro a _
  simp

end generic

section entries
variable {L K : Type} [DecidableEq L] [LabelOrd L] [Field K] [DecidableEq K]

/-- the `Delta` entry of a branch at a node: `+1` at `node1`, then `−1` at `node2` -/
def deltaEntry (b : Branch L K) (n : L) : K := if n = b.n2 then -1 else if n = b.n1 then 1 else 0

/-- entries of `Q = diag(Qi, 1)` -/
theorem get_ssQ (N : Net L K) (i c : Nat) :
    Mx.get (ssQ N) i c =
      match N.nodes[i]? with
      | some n => (match N.csSorted[c]? with | some b => N.Qentry b n | none => 0)
      | none => if i - N.nN < N.nV ∧ N.nC ≤ c ∧ c - N.nC = i - N.nN then 1 else 0 := by
  unfold Mx.get ssQ
  simp only [List.getD_eq_getElem?_getD]
  by_cases hi : i < N.nodes.length
  · rw [List.getElem?_append_left (by simpa using hi)]
    simp only [List.getElem?_map, List.getElem?_eq_getElem hi, Option.map_some, Option.getD_some]
    by_cases hc : c < N.csSorted.length
    · rw [List.getElem?_append_left (by simpa using hc)]
      simp [List.getElem?_eq_getElem hc]
    · have hc' : N.csSorted.length ≤ c := Nat.le_of_not_lt hc
      rw [List.getElem?_append_right (by simpa using hc')]
      simp only [List.length_map, List.getElem?_eq_none hc', List.getElem?_replicate]
      split <;> simp
  · have hi' : N.nodes.length ≤ i := Nat.le_of_not_lt hi
    rw [List.getElem?_append_right (by simpa using hi')]
    simp only [List.length_map, List.getElem?_eq_none hi', List.getElem?_map, List.getElem?_range]
    unfold Net.nN
    by_cases hr : i - N.nodes.length < N.nV
    · simp only [hr, List.getElem?_range, Option.map_some, Option.getD_some, true_and]
      by_cases hc : c < N.nC
      · rw [List.getElem?_append_left (by simpa using hc)]
        have : ¬ N.nC ≤ c := Nat.not_le.mpr hc
        simp [List.getElem?_replicate, hc, this]
      · have hc' : N.nC ≤ c := Nat.le_of_not_lt hc
        rw [List.getElem?_append_right (by simpa using hc')]
        simp only [List.length_replicate, List.getElem?_map, hc', true_and]
        by_cases hk : c - N.nC < N.nV
        · simp [List.getElem?_range, hk]
        · have : c - N.nC ≠ i - N.nodes.length := fun e => hk (e ▸ hr)
          have hn : (List.range N.nV)[c - N.nC]? = none :=
            List.getElem?_eq_none (by simpa using Nat.le_of_not_lt hk)
          simp [hn, this]
    · simp [hr]

/-- entries of `Delta` -/
theorem get_Delta {N : Net L K} {cvals : ValDict K} {Delta : List (List K)}
    (hD : ssDelta N cvals = .ok Delta) (k i : Nat) :
    Mx.get Delta k i =
      match cvals.keys[k]? with
      | some id => (match N.nodes[i]? with
          | some n => (match N.get? id with | some b => deltaEntry b n | none => 0)
          | none => 0)
      | none => 0 := by
  unfold ssDelta at hD
  have h := mapM_ok_getElem? _ hD k
  unfold Mx.get
  simp only [List.getD_eq_getElem?_getD, h]
  cases hk : cvals.keys[k]? with
  | none => simp
  | some id =>
    simp only [Option.bind_some]
    by_cases he : N.nodes.isEmpty = true
    · have hn : N.nodes = [] := List.isEmpty_iff.mp he
      simp [he, hn, List.getElem?_replicate]
      split <;> simp
    · simp only [he]
      cases hg : N.get? id with
      | none => cases N.nodes[i]? <;> simp
      | some b =>
        simp only [Bool.false_eq_true, if_false, Option.getD_some, ssDeltaRow]
        by_cases hi : i < N.nodes.length
        · rw [List.getElem?_append_left (by simpa using hi)]
          simp [List.getElem?_eq_getElem hi, deltaEntry]
        · have hi' : N.nodes.length ≤ i := Nat.le_of_not_lt hi
          rw [List.getElem?_append_right (by simpa using hi')]
          simp only [List.length_map, List.getElem?_eq_none hi', List.getElem?_replicate]
          split <;> simp

theorem get_ssQS (N : Net L K) (lvals : ValDict K) {i j : Nat} (hi : i < N.nY) (hj : j < ssNInputs N lvals) :
    Mx.get (ssQS N lvals) i j = Mx.get (ssQ N) i ((ssColsS N lvals).getD j 0) := by
  unfold ssQS Mx.selectCols
  exact get_ofFn _ hi hj

theorem get_ssDQ (N : Net L K) (cvals lvals : ValDict K) (Delta : List (List K)) {i j : Nat}
    (hi : i < N.nY) (hj : j < ssNStates N cvals lvals) :
    Mx.get (ssDQ N cvals lvals Delta) i j =
      if j < cvals.length then Mx.get Delta j i
      else Mx.get (ssQ N) i ((ssColsL N lvals).getD (j - cvals.length) 0) := by
  have hj' : j < cvals.length + (ssColsL N lvals).length := hj
  unfold ssDQ Mx.hstack
  rw [get_ofFn _ hi hj']
  by_cases h : j < cvals.length
  · simp only [h, if_true]
    unfold Mx.transpose
    exact get_ofFn _ hi h
  · simp only [h, if_false]
    unfold ssQL Mx.selectCols
    exact get_ofFn _ hi (by omega)

end entries

section rows
variable {L K : Type} [DecidableEq L] [LabelOrd L] [Field K] [DecidableEq K]

theorem csSorted_ids (N : Net L K) (h : N.ids.Nodup) : N.csSorted.map (·.id) = N.csIds := by
  apply byIds_map_id_eq N h
  intro id hid
  have : id ∈ N.cs.map (·.id) := mem_sortL.mp hid
  obtain ⟨b, hb, rfl⟩ := List.mem_map.mp this
  exact ⟨b, (List.mem_filter.mp hb).1, rfl⟩

theorem csSorted_length (N : Net L K) (h : N.ids.Nodup) : N.csSorted.length = N.nC := by
  unfold Net.nC; rw [← csSorted_ids N h]; simp

theorem rhs_csIds_nodup (N : Net L K) (h : N.ids.Nodup) : N.csIds.Nodup := by
  unfold Net.csIds
  rw [nodup_sortL]
  unfold Net.cs
  exact (List.Nodup.sublist ((List.filter_sublist).map _) h)

/-- right-hand side of a node row of a substituted network, as a sum over the branches -/
theorem rhsNode_mapElems (N : Net L K) (f : Branch L K → Elem K) (hids : N.ids.Nodup) (n : L) :
    (N.mapElems f).rhsNode n = (N.branches.map fun b => N.Qentry b n * (f b).Ival).sum := by
  unfold Net.rhsNode
  have hP : (N.mapElems f).ids.Nodup := by rw [mapElems_ids]; exact hids
  rw [sum_map_perm (csSorted_perm _ hP)]
  unfold Net.cs
  rw [sum_filter_eq_sum_ite]
  show ((N.branches.map fun b => ({ b with e := f b } : Branch L K)).map _).sum = _
  rw [List.map_map]
  congr 1
  apply List.map_congr_left
  intro b _
  simp only [Function.comp]
  have hq : (N.mapElems f).Qentry { b with e := f b } n = N.Qentry b n := rfl
  rw [hq]
  by_cases h : (f b).isCS = true
  · simp [h]
  · have : (f b).Ival = 0 := by
      unfold Elem.isCS at h
      simpa using h
    simp [h, this]

/-- the published sources are duplicate-free -/
theorem ssSources_nodup (N : Net L K) (lvals : ValDict K) (hids : N.ids.Nodup) : (ssSources N lvals).Nodup := by
  unfold ssSources
  refine List.Nodup.append (rhs_csIds_nodup N hids) ((vsIds_nodup N hids).filter _) ?_
  intro a ha hb
  exact csIds_not_vsIds N hids ha (List.mem_filter.mp hb).1

theorem blockPos_isSome (N : Net L K) (lvals : ValDict K) : ∀ id ∈ ssSources N lvals, (blockPos N id).isSome := by
  intro id hid
  apply idxOf?_isSome_of_mem
  unfold ssSources at hid
  rcases List.mem_append.mp hid with h | h
  · exact List.mem_append_left _ h
  · exact List.mem_append_right _ (List.mem_filter.mp h).1

/-- column `j` of `QS` is the block position of `sources[j]` -/
theorem colsS_getD (N : Net L K) (lvals : ValDict K) (hids : N.ids.Nodup)
    (hkeys : ∀ id ∈ lvals.keys, id ∈ N.vsIds) (j : Nat) :
    (ssColsS N lvals)[j]? = ((ssSources N lvals)[j]?).bind (blockPos N) := by
  rw [(cols_follow_sources N lvals hids hkeys).1]
  exact filterMap_getElem?_of_isSome _ _ (blockPos_isSome N lvals) j

/-- **node rows of `QS·u`** as a sum over the branches: every current source injects `u[its index
in sources]` with the sign pattern of `source_incidence_matrix` -/
theorem qs_node_row (N : Net L K) (lvals : ValDict K) (hids : N.ids.Nodup)
    (hkeys : ∀ id ∈ lvals.keys, id ∈ N.vsIds) (u : List K) {i : Nat} {n : L} (hn : N.nodes[i]? = some n) :
    sumTo (ssNInputs N lvals) (fun j => Mx.get (ssQS N lvals) i j * u.getD j 0)
      = (N.branches.map fun b => if b.e.isCS then
            N.Qentry b n * u.getD ((idxOf? b.id (ssSources N lvals)).getD 0) 0 else 0).sum := by
  have hi : i < N.nY := by
    have := (List.getElem?_eq_some_iff.mp hn).1
    unfold Net.nY Net.nN; omega
  set src := ssSources N lvals with hsrc
  have hlen : ssNInputs N lvals = src.length := sources_length N lvals
  -- summand in terms of the j-th source id
  let G : String → Nat → K := fun id j =>
    (match N.csSorted[(blockPos N id).getD 0]? with | some b => N.Qentry b n | none => 0) * u.getD j 0
  have h1 : sumTo (ssNInputs N lvals) (fun j => Mx.get (ssQS N lvals) i j * u.getD j 0)
      = sumTo src.length (fun j => (src[j]?).elim 0 (fun id => G id j)) := by
    rw [hlen]
    apply rhs_sumTo_congr
    intro j hj
    rw [get_ssQS N lvals hi (hlen ▸ hj), get_ssQ, hn]
    have hc := colsS_getD N lvals hids hkeys j
    rw [List.getElem?_eq_getElem hj] at hc ⊢
    simp only [Option.bind_some] at hc
    simp only [List.getD_eq_getElem?_getD, hc, G, Option.elim_some]
  rw [h1, sumTo_nodup_list src (ssSources_nodup N lvals hids) G]
  -- hide the summand behind an opaque function of the id
  obtain ⟨F, hF⟩ : ∃ F : String → K, F = fun a => G a ((idxOf? a src).getD 0) := ⟨_, rfl⟩
  rw [← hF]
  have hlenC := csSorted_length N hids
  have hzero : ∀ id ∈ N.vsIds.filter (fun v => !lvals.has v), F id = 0 := by
    intro id hid
    have hv : id ∈ N.vsIds := (List.mem_filter.mp hid).1
    have hnc : id ∉ N.csIds := fun hc => csIds_not_vsIds N hids hc hv
    obtain ⟨k, hk, _, _⟩ := idxOf?_of_mem hv
    have hb : blockPos N id = some (N.csIds.length + k) := by
      unfold blockPos; rw [idxOf?_append_right _ hnc, hk]; rfl
    have : N.csSorted[N.csIds.length + k]? = none :=
      List.getElem?_eq_none (by rw [hlenC]; unfold Net.nC; omega)
    rw [hF]
    simp only [G, hb, Option.getD_some, this, zero_mul]
  have hnd : (N.csSorted.map (·.id)).Nodup := by rw [csSorted_ids N hids]; exact rhs_csIds_nodup N hids
  have hG : ∀ b ∈ N.csSorted, F b.id = N.Qentry b n * u.getD ((idxOf? b.id src).getD 0) 0 := by
    intro b hb
    have hmem : b.id ∈ N.csIds := by rw [← csSorted_ids N hids]; exact List.mem_map_of_mem hb
    have hbp : blockPos N b.id = idxOf? b.id (N.csSorted.map (·.id)) := by
      unfold blockPos; rw [idxOf?_append_left _ hmem, csSorted_ids N hids]
    have := getElem?_idx_of_key (·.id) N.csSorted hnd hb
    rw [hF]
    simp only [G, hbp, this]
  have hsplit : (src.map F).sum = (N.csIds.map F).sum + ((N.vsIds.filter (fun v => !lvals.has v)).map F).sum := by
    rw [hsrc]; unfold ssSources; rw [List.map_append, List.sum_append]
  rw [hsplit, List.sum_eq_zero (l := (N.vsIds.filter _).map F) (by
        intro x hx
        obtain ⟨id, hid, rfl⟩ := List.mem_map.mp hx
        exact hzero id hid), add_zero]
  have hcs : (N.csIds.map F).sum = (N.csSorted.map fun b => N.Qentry b n * u.getD ((idxOf? b.id src).getD 0) 0).sum := by
    rw [← csSorted_ids N hids, List.map_map]
    congr 1
    exact List.map_congr_left fun b hb => hG b hb
  rw [hcs, sum_map_perm (csSorted_perm N hids)]
  unfold Net.cs
  rw [sum_filter_eq_sum_ite]

theorem colsL_ge (N : Net L K) (lvals : ValDict K) {c : Nat} (hc : c ∈ ssColsL N lvals) : N.nC ≤ c := by
  unfold ssColsL at hc
  obtain ⟨l, _, hl⟩ := List.mem_filterMap.mp hc
  cases h : idxOf? l N.vsIds with
  | none => rw [h] at hl; cases hl
  | some k => rw [h] at hl; simp at hl; omega

/-- **node rows of `DQ·w`**: capacitor `k` contributes `Delta[k][n]·w[k]`, inductor columns nothing -/
theorem dq_node_row (N : Net L K) (cvals lvals : ValDict K) {Delta : List (List K)} (hids : N.ids.Nodup)
    (hD : ssDelta N cvals = .ok Delta) (hck : cvals.keys.Nodup) (hcm : ∀ id ∈ cvals.keys, id ∈ N.ids)
    (w : List K) {i : Nat} {n : L} (hn : N.nodes[i]? = some n) :
    sumTo (ssNStates N cvals lvals) (fun k => Mx.get (ssDQ N cvals lvals Delta) i k * w.getD k 0)
      = (N.branches.map fun b => (idxOf? b.id cvals.keys).elim 0 fun k => deltaEntry b n * w.getD k 0).sum := by
  have hi : i < N.nY := by
    have := (List.getElem?_eq_some_iff.mp hn).1
    unfold Net.nY Net.nN; omega
  have hlenC := csSorted_length N hids
  unfold ssNStates
  rw [sumTo_add]
  -- inductor columns vanish in node rows
  have h2 : sumTo (ssColsL N lvals).length
      (fun j => Mx.get (ssDQ N cvals lvals Delta) i (cvals.length + j) * w.getD (cvals.length + j) 0) = 0 := by
    apply sumTo_eq_zero
    intro j hj
    have hjs : cvals.length + j < ssNStates N cvals lvals := by unfold ssNStates; omega
    rw [get_ssDQ N cvals lvals Delta hi hjs, if_neg (by omega), get_ssQ, hn]
    have hc : (ssColsL N lvals).getD (cvals.length + j - cvals.length) 0 ∈ ssColsL N lvals := by
      rw [Nat.add_sub_cancel_left, List.getD_eq_getElem?_getD, List.getElem?_eq_getElem hj]
      exact List.getElem_mem hj
    have := colsL_ge N lvals hc
    rw [List.getElem?_eq_none (by rw [hlenC]; exact this)]
    simp
  rw [h2, add_zero]
  -- capacitor columns
  let G : String → Nat → K := fun id k =>
    (match N.get? id with | some b => deltaEntry b n | none => 0) * w.getD k 0
  have hkl : cvals.length = cvals.keys.length := by simp [ValDict.keys]
  have h1 : sumTo cvals.length (fun k => Mx.get (ssDQ N cvals lvals Delta) i k * w.getD k 0)
      = sumTo cvals.keys.length (fun k => (cvals.keys[k]?).elim 0 (fun id => G id k)) := by
    rw [← hkl]
    apply rhs_sumTo_congr
    intro k hk
    have hks : k < ssNStates N cvals lvals := by unfold ssNStates; omega
    rw [get_ssDQ N cvals lvals Delta hi hks, if_pos hk, get_Delta hD, hn]
    rw [List.getElem?_eq_getElem (hkl ▸ hk)]
    simp only [Option.elim_some, G]
  rw [h1, sumTo_nodup_list cvals.keys hck G,
    sum_keys_eq_sum_carriers (fun b : Branch L K => b.id) N.branches hids cvals.keys hck hcm]
  congr 1
  apply List.map_congr_left
  intro b hb
  by_cases hm : b.id ∈ cvals.keys
  · obtain ⟨k, hk, _, _⟩ := idxOf?_of_mem hm
    simp only [hm, if_true, hk, Option.getD_some, Option.elim_some, G, get?_of_mem N hids hb]
  · simp only [hm, if_false, idxOf?_none_of_not_mem hm, Option.elim_none]

theorem colsL_getElem? (N : Net L K) (lvals : ValDict K) (hkeys : ∀ id ∈ lvals.keys, id ∈ N.vsIds) (j : Nat) :
    (ssColsL N lvals)[j]? = (lvals.keys[j]?).bind fun l => (idxOf? l N.vsIds).map (N.nC + ·) := by
  unfold ssColsL
  apply filterMap_getElem?_of_isSome
  intro a ha
  obtain ⟨k, hk, _, _⟩ := idxOf?_of_mem (hkeys a ha)
  simp [hk]

theorem idxOf?_getElem_rhs {α : Type} [DecidableEq α] (l : List α) (hl : l.Nodup) {r : Nat} (hr : r < l.length) :
    idxOf? l[r] l = some r := by
  induction l generalizing r with
  | nil => simp at hr
  | cons a l ih =>
    have hnd := List.nodup_cons.mp hl
    cases r with
    | zero => simp [idxOf?]
    | succ r =>
      have hr' : r < l.length := by simpa using hr
      have hne : ¬ a = l[r] := fun e => hnd.1 (e ▸ List.getElem_mem hr')
      simp [idxOf?, hne, ih hnd.2 hr']

theorem idxOf?_eq_some_iff_getElem {α : Type} [DecidableEq α] (l : List α) (hl : l.Nodup) {a : α} {k r : Nat}
    (hr : r < l.length) (hk : idxOf? a l = some k) : k = r ↔ a = l[r] := by
  have hmem : a ∈ l := idxOf?_some_mem hk
  obtain ⟨k', hk', hlt, hget⟩ := idxOf?_of_mem hmem
  rw [hk] at hk'; cases hk'
  constructor
  · rintro rfl
    rw [List.getElem?_eq_getElem hlt] at hget
    exact (Option.some.inj hget).symm
  · intro e
    have := idxOf?_getElem_rhs l hl hr
    rw [← e, hk] at this
    exact Option.some.inj this

/-- **voltage-source rows of `QS·u`**: the row of the `r`-th ideal voltage source picks the input of that
source — nothing for an inductor -/
theorem qs_vs_row (N : Net L K) (lvals : ValDict K) (hids : N.ids.Nodup)
    (hkeys : ∀ id ∈ lvals.keys, id ∈ N.vsIds) (u : List K) {r : Nat} (hr : r < N.vsIds.length) :
    sumTo (ssNInputs N lvals) (fun j => Mx.get (ssQS N lvals) (N.nN + r) j * u.getD j 0)
      = if lvals.has N.vsIds[r] then 0 else u.getD ((idxOf? N.vsIds[r] (ssSources N lvals)).getD 0) 0 := by
  have hi : N.nN + r < N.nY := by unfold Net.nY Net.nV; omega
  have hnone : N.nodes[N.nN + r]? = none := List.getElem?_eq_none (by unfold Net.nN; omega)
  set src := ssSources N lvals with hsrc
  have hlen : ssNInputs N lvals = src.length := sources_length N lvals
  have hvnd := vsIds_nodup N hids
  let G : String → Nat → K := fun id j => (if id = N.vsIds[r] then 1 else 0) * u.getD j 0
  have h1 : sumTo (ssNInputs N lvals) (fun j => Mx.get (ssQS N lvals) (N.nN + r) j * u.getD j 0)
      = sumTo src.length (fun j => (src[j]?).elim 0 (fun id => G id j)) := by
    rw [hlen]
    apply rhs_sumTo_congr
    intro j hj
    rw [get_ssQS N lvals hi (hlen ▸ hj), get_ssQ, hnone]
    have hc := colsS_getD N lvals hids hkeys j
    rw [List.getElem?_eq_getElem hj] at hc ⊢
    simp only [Option.bind_some] at hc
    simp only [List.getD_eq_getElem?_getD, hc, G, Option.elim_some, Nat.add_sub_cancel_left]
    congr 1
    have hmem : src[j] ∈ N.csIds ++ N.vsIds.filter (fun v => !lvals.has v) := List.getElem_mem hj
    rcases List.mem_append.mp hmem with hcs | hvs
    · -- a current source: block position < nC, and it is not the voltage source
      have hne : ¬ src[j] = N.vsIds[r] := fun e => csIds_not_vsIds N hids hcs (e ▸ List.getElem_mem hr)
      obtain ⟨k, hk, hlt, _⟩ := idxOf?_of_mem hcs
      have hb : blockPos N src[j] = some k := by unfold blockPos; rw [idxOf?_append_left _ hcs, hk]
      have : ¬ N.nC ≤ k := by unfold Net.nC; omega
      simp only [hb, Option.getD_some]
      simp [hne, this]
    · have hv : src[j] ∈ N.vsIds := (List.mem_filter.mp hvs).1
      have hnc : src[j] ∉ N.csIds := fun hc' => csIds_not_vsIds N hids hc' hv
      obtain ⟨k, hk, _, _⟩ := idxOf?_of_mem hv
      have hb : blockPos N src[j] = some (N.nC + k) := by
        unfold blockPos; rw [idxOf?_append_right _ hnc, hk]; rfl
      have hiff := idxOf?_eq_some_iff_getElem N.vsIds hvnd hr hk
      by_cases hkr : k = r
      · have : src[j] = N.vsIds[r] := hiff.mp hkr
        simp only [hb, Option.getD_some]
        simp [hkr, this, hr, Net.nV]
      · have : ¬ src[j] = N.vsIds[r] := fun e => hkr (hiff.mpr e)
        simp only [hb, Option.getD_some]
        simp [this, hkr]
  rw [h1, sumTo_nodup_list src (ssSources_nodup N lvals hids) G]
  have hpt : ∀ a ∈ src, G a ((idxOf? a src).getD 0)
      = if a = N.vsIds[r] then u.getD ((idxOf? N.vsIds[r] src).getD 0) 0 else 0 := by
    intro a _
    by_cases h : a = N.vsIds[r]
    · simp [G, h]
    · simp [G, h]
  rw [List.map_congr_left hpt, sum_single (ssSources_nodup N lvals hids)]
  have hmem : N.vsIds[r] ∈ src ↔ lvals.has N.vsIds[r] = false := by
    rw [hsrc]; unfold ssSources
    constructor
    · intro h
      rcases List.mem_append.mp h with h | h
      · exact absurd (List.getElem_mem hr) (csIds_not_vsIds N hids h)
      · simpa using (List.mem_filter.mp h).2
    · intro h
      exact List.mem_append_right _ (List.mem_filter.mpr ⟨List.getElem_mem hr, by simp [h]⟩)
  by_cases hh : lvals.has N.vsIds[r] = true
  · have : N.vsIds[r] ∉ src := fun h => by rw [hmem.mp h] at hh; cases hh
    rw [if_neg this, if_pos hh]
  · have hf : lvals.has N.vsIds[r] = false := by simpa using hh
    rw [if_pos (hmem.mpr hf), if_neg hh]

theorem colsL_length (N : Net L K) (lvals : ValDict K) (hkeys : ∀ id ∈ lvals.keys, id ∈ N.vsIds) :
    (ssColsL N lvals).length = lvals.keys.length := by
  unfold ssColsL
  exact filterMap_idx_map_length _ _ hkeys _

/-- **voltage-source rows of `DQ·w`**: the row of an inductor picks `w[nc + its dictionary position]` -/
theorem dq_vs_row (N : Net L K) (cvals lvals : ValDict K) {Delta : List (List K)} (hids : N.ids.Nodup)
    (hD : ssDelta N cvals = .ok Delta) (hkeys : ∀ id ∈ lvals.keys, id ∈ N.vsIds) (hlk : lvals.keys.Nodup)
    (w : List K) {r : Nat} (hr : r < N.vsIds.length) :
    sumTo (ssNStates N cvals lvals) (fun k => Mx.get (ssDQ N cvals lvals Delta) (N.nN + r) k * w.getD k 0)
      = (idxOf? N.vsIds[r] lvals.keys).elim 0 fun k => w.getD (cvals.length + k) 0 := by
  have hi : N.nN + r < N.nY := by unfold Net.nY Net.nV; omega
  have hnone : N.nodes[N.nN + r]? = none := List.getElem?_eq_none (by unfold Net.nN; omega)
  have hvnd := vsIds_nodup N hids
  unfold ssNStates
  rw [sumTo_add]
  have h1 : sumTo cvals.length (fun k => Mx.get (ssDQ N cvals lvals Delta) (N.nN + r) k * w.getD k 0) = 0 := by
    apply sumTo_eq_zero
    intro k hk
    have hks : k < ssNStates N cvals lvals := by unfold ssNStates; omega
    rw [get_ssDQ N cvals lvals Delta hi hks, if_pos hk, get_Delta hD, hnone]
    cases cvals.keys[k]? <;> simp
  rw [h1, zero_add, colsL_length N lvals hkeys]
  let G : String → Nat → K := fun id j => (if id = N.vsIds[r] then 1 else 0) * w.getD (cvals.length + j) 0
  have h2 : sumTo lvals.keys.length
      (fun j => Mx.get (ssDQ N cvals lvals Delta) (N.nN + r) (cvals.length + j) * w.getD (cvals.length + j) 0)
      = sumTo lvals.keys.length (fun j => (lvals.keys[j]?).elim 0 (fun id => G id j)) := by
    apply rhs_sumTo_congr
    intro j hj
    have hjs : cvals.length + j < ssNStates N cvals lvals := by
      unfold ssNStates; rw [colsL_length N lvals hkeys]; omega
    rw [get_ssDQ N cvals lvals Delta hi hjs, if_neg (by omega), get_ssQ, hnone, Nat.add_sub_cancel_left]
    have hc := colsL_getElem? N lvals hkeys j
    rw [List.getElem?_eq_getElem hj] at hc ⊢
    obtain ⟨k, hk, _, _⟩ := idxOf?_of_mem (hkeys _ (List.getElem_mem hj))
    simp only [Option.bind_some, hk, Option.map_some] at hc
    simp only [List.getD_eq_getElem?_getD, hc, Option.getD_some, Option.elim_some, G, Nat.add_sub_cancel_left]
    congr 1
    have hiff := idxOf?_eq_some_iff_getElem N.vsIds hvnd hr hk
    by_cases hkr : k = r
    · simp [hkr, hiff.mp hkr, hr, Net.nV]
    · have : ¬ lvals.keys[j] = N.vsIds[r] := fun e => hkr (hiff.mpr e)
      simp [this, hkr]
  rw [h2, sumTo_nodup_list lvals.keys hlk G]
  have hpt : ∀ a ∈ lvals.keys, G a ((idxOf? a lvals.keys).getD 0)
      = if a = N.vsIds[r] then w.getD (cvals.length + (idxOf? N.vsIds[r] lvals.keys).getD 0) 0 else 0 := by
    intro a _
    by_cases h : a = N.vsIds[r]
    · simp [G, h]
    · simp [G, h]
  rw [List.map_congr_left hpt, sum_single hlk]
  by_cases hm : N.vsIds[r] ∈ lvals.keys
  · obtain ⟨k, hk, _, _⟩ := idxOf?_of_mem hm
    rw [if_pos hm, hk]; rfl
  · rw [if_neg hm, idxOf?_none_of_not_mem hm]; rfl

end rows

section main
variable {L K : Type} [DecidableEq L] [LabelOrd L] [Field K] [DecidableEq K]

/-- the substituted element: capacitor `k` ↦ ideal current source of value `−w[k]`, inductor `k` ↦
ideal voltage source of value `w[nc + k]`, source `sources[m]` ↦ value `u[m]` -/
def substElem (cvals lvals : ValDict K) (sources : List String) (u w : List K) (b : Branch L K) : Elem K :=
  match idxOf? b.id cvals.keys with
  | some k => .thevenin 0 (-(w.getD k 0))
  | none =>
    match idxOf? b.id lvals.keys with
    | some k => .norton 0 (w.getD (cvals.length + k) 0)
    | none => setSource sources u b

def substNet (N : Net L K) (cvals lvals : ValDict K) (sources : List String) (u w : List K) : Net L K :=
  N.mapElems (substElem cvals lvals sources u w)

/-- the `w = 0` network of an RLC + ideal-source circuit with its two value dictionaries -/
structure RLC (N : Net L K) (cvals lvals : ValDict K) : Prop where
  wf : N.WF
  capOpen : ∀ b ∈ N.branches, b.id ∈ cvals.keys → b.e = .thevenin 0 0
  indShort : ∀ b ∈ N.branches, b.id ∈ lvals.keys → b.e = .norton 0 0
  capMem : ∀ id ∈ cvals.keys, id ∈ N.ids
  indMem : ∀ id ∈ lvals.keys, id ∈ N.ids
  capNodup : cvals.keys.Nodup
  indNodup : lvals.keys.Nodup
  notLossy : ∀ b ∈ N.branches, b.e.isLossy = false

theorem RLC.placeholders {N : Net L K} {cvals lvals : ValDict K} (h : RLC N cvals lvals) :
    ReactivePlaceholders N cvals lvals := ⟨h.capOpen, h.indShort⟩

theorem RLC.indKeys {N : Net L K} {cvals lvals : ValDict K} (h : RLC N cvals lvals) :
    ∀ id ∈ lvals.keys, id ∈ N.vsIds := by
  intro id hid
  obtain ⟨b, hb, rfl⟩ := List.mem_map.mp (h.indMem id hid)
  rw [id_mem_vsIds_iff N h.wf.ids_nodup b hb, h.indShort b hb hid]
  simp [Elem.isIdealVS]

theorem id_mem_csIds_iff (N : Net L K) (hids : N.ids.Nodup) (b : Branch L K) (hb : b ∈ N.branches) :
    b.id ∈ N.csIds ↔ b.e.isCS = true := by
  unfold Net.csIds
  rw [mem_sortL, List.mem_map]
  constructor
  · rintro ⟨c, hc, hcid⟩
    obtain ⟨hcm, hcv⟩ := List.mem_filter.mp hc
    have : c = b := by
      have h1 := get?_of_mem N hids hcm
      have h2 := get?_of_mem N hids hb
      rw [hcid] at h1; rw [h1] at h2; exact Option.some.inj h2
    exact this ▸ hcv
  · intro hv; exact ⟨b, List.mem_filter.mpr ⟨hb, hv⟩, rfl⟩

theorem substElem_keeps {N : Net L K} {cvals lvals : ValDict K} (h : RLC N cvals lvals)
    (sources : List String) (u w : List K) : KeepsStructure N (substElem cvals lvals sources u w) := by
  intro b hb
  unfold substElem
  cases hc : idxOf? b.id cvals.keys with
  | some k =>
    have := h.capOpen b hb (idxOf?_some_mem hc)
    simp [this, Elem.isIdealVS, Elem.Yfin]
  | none =>
    cases hl : idxOf? b.id lvals.keys with
    | some k =>
      have := h.indShort b hb (idxOf?_some_mem hl)
      simp [this, Elem.isIdealVS, Elem.Yfin]
    | none => exact setSource_keeps sources u b

theorem deltaEntry_eq_neg_Q (N : Net L K) (b : Branch L K) (n : L) (hn : n ≠ N.zero) (hsl : b.n1 ≠ b.n2) :
    deltaEntry b n = - N.Qentry b n := by
  rw [Q_eq_neg_dir N b n hn hsl, neg_neg, dir_of_ne b n hsl]
  unfold deltaEntry
  by_cases h2 : n = b.n2
  · subst h2
    simp [hsl]
  · by_cases h1 : n = b.n1
    · subst h1
      simp [hsl]
    · have h1' : ¬ b.n1 = n := fun e => h1 e.symm
      have h2' : ¬ b.n2 = n := fun e => h2 e.symm
      simp [h1, h2, h1', h2']

/-- a current source of a lossless network is `thevenin 0 I` -/
theorem cs_form {e : Elem K} (hcs : e.isCS = true) (hl : e.isLossy = false) : ∃ I, e = .thevenin 0 I := by
  cases e with
  | norton Z V =>
    unfold Elem.isCS Elem.Ival at hcs
    unfold Elem.isLossy Elem.kind at hl
    by_cases hz : Z = 0
    · simp [hz] at hcs
    · by_cases hv : V = 0
      · simp [hz, hv] at hcs
      · simp [hz, hv] at hl
  | thevenin Y I =>
    unfold Elem.isCS Elem.Ival at hcs
    unfold Elem.isLossy Elem.kind at hl
    by_cases hy : Y = 0
    · exact ⟨I, by rw [hy]⟩
    · have hi : I ≠ 0 := by simpa using hcs
      simp [hy, hi] at hl

theorem has_iff_mem (d : ValDict K) (id : String) : d.has id = true ↔ id ∈ d.keys := by
  simp [ValDict.has]

theorem node_branch_identity {N : Net L K} {cvals lvals : ValDict K} (h : RLC N cvals lvals) (u w : List K)
    {b : Branch L K} (hb : b ∈ N.branches) {n : L} (hn : n ∈ N.nodes) :
    N.Qentry b n * (substElem cvals lvals (ssSources N lvals) u w b).Ival
      = (if b.e.isCS then N.Qentry b n * u.getD ((idxOf? b.id (ssSources N lvals)).getD 0) 0 else 0)
        + (idxOf? b.id cvals.keys).elim 0 fun k => deltaEntry b n * w.getD k 0 := by
  have hids := h.wf.ids_nodup
  have hnz : n ≠ N.zero := ((mem_nodes_iff N n).mp hn).2
  unfold substElem
  cases hc : idxOf? b.id cvals.keys with
  | some k =>
    have he := h.capOpen b hb (idxOf?_some_mem hc)
    have hncs : b.e.isCS = false := by simp [he, Elem.isCS, Elem.Ival]
    rw [deltaEntry_eq_neg_Q N b n hnz (h.wf.no_self_loop b hb)]
    simp [hncs, Elem.Ival]
  | none =>
    simp only [Option.elim_none, add_zero]
    cases hl : idxOf? b.id lvals.keys with
    | some k =>
      have he := h.indShort b hb (idxOf?_some_mem hl)
      have hncs : b.e.isCS = false := by simp [he, Elem.isCS, Elem.Ival]
      simp [hncs, Elem.Ival]
    | none =>
      simp only
      by_cases hcs : b.e.isCS = true
      · obtain ⟨I, hI⟩ := cs_form hcs (h.notLossy b hb)
        have hmem : b.id ∈ ssSources N lvals :=
          List.mem_append_left _ ((id_mem_csIds_iff N hids b hb).mpr hcs)
        obtain ⟨m, hm, _, _⟩ := idxOf?_of_mem hmem
        simp [setSource, hm, hI, Elem.Ival, Elem.isCS]
        intro hI0; simp [hI0, hI, Elem.isCS, Elem.Ival] at hcs
      · have hcs' : b.e.isCS = false := by simpa using hcs
        simp only [hcs', Bool.false_eq_true, if_false]
        have hI0 : b.e.Ival = 0 := by unfold Elem.isCS at hcs'; simpa using hcs'
        unfold setSource
        cases hm : idxOf? b.id (ssSources N lvals) with
        | none => simp [hI0]
        | some m =>
          -- in `sources` but not a current source: an ideal voltage source
          have hmem := idxOf?_some_mem hm
          have hv : b.id ∈ N.vsIds := by
            rcases List.mem_append.mp hmem with h1 | h1
            · exact absurd ((id_mem_csIds_iff N hids b hb).mp h1) hcs
            · exact (List.mem_filter.mp h1).1
          have hvs := (id_mem_vsIds_iff N hids b hb).mp hv
          cases he : b.e with
          | norton Z V =>
            have hz : Z = 0 := by simpa [he, Elem.isIdealVS] using hvs
            simp [Elem.Ival, hz]
          | thevenin Y I => simp [he, Elem.isIdealVS] at hvs

theorem vs_branch_identity {N : Net L K} {cvals lvals : ValDict K} (h : RLC N cvals lvals) (u w : List K)
    {b : Branch L K} (hb : b ∈ N.branches) (hvs : b.e.isIdealVS = true) :
    (substElem cvals lvals (ssSources N lvals) u w b).Vval
      = (if lvals.has b.id then 0 else u.getD ((idxOf? b.id (ssSources N lvals)).getD 0) 0)
        + (idxOf? b.id lvals.keys).elim 0 fun k => w.getD (cvals.length + k) 0 := by
  have hids := h.wf.ids_nodup
  have hc : idxOf? b.id cvals.keys = none := by
    apply idxOf?_none_of_not_mem
    intro hm
    have := h.capOpen b hb hm
    simp [this, Elem.isIdealVS] at hvs
  unfold substElem
  rw [hc]
  cases hl : idxOf? b.id lvals.keys with
  | some k =>
    have : lvals.has b.id = true := (has_iff_mem lvals b.id).mpr (idxOf?_some_mem hl)
    simp [this, Elem.Vval]
  | none =>
    have hnm : b.id ∉ lvals.keys := fun hm => by
      obtain ⟨k, hk, _, _⟩ := idxOf?_of_mem hm; rw [hl] at hk; cases hk
    have hf : lvals.has b.id = false := by
      cases hh : lvals.has b.id with
      | false => rfl
      | true => exact absurd ((has_iff_mem lvals b.id).mp hh) hnm
    have hv : b.id ∈ N.vsIds := (id_mem_vsIds_iff N hids b hb).mpr hvs
    have hmem : b.id ∈ ssSources N lvals :=
      List.mem_append_right _ (List.mem_filter.mpr ⟨hv, by simp [hf]⟩)
    obtain ⟨m, hm, _, _⟩ := idxOf?_of_mem hmem
    cases he : b.e with
    | norton Z V => simp [hf, setSource, hm, he, Elem.Vval]
    | thevenin Y I => simp [he, Elem.isIdealVS] at hvs

theorem rhs_matVec_ofFn' (r c : Nat) (F : Nat → Nat → K) (v : List K) (hv : v.length = c) :
    matVec (ofFn r c F) v
      = (List.range r).map fun i => sumTo c fun j => Mx.get (ofFn r c F) i j * v.getD j 0 := by
  rw [rhs_matVec_ofFn r c F v hv]
  apply List.map_congr_left
  intro i hi
  apply rhs_sumTo_congr
  intro j hj
  rw [get_ofFn F (List.mem_range.mp hi) hj]

theorem map_eq_range_map {α : Type} (l : List α) (g : α → K) :
    l.map g = (List.range l.length).map fun i => (l[i]?).elim 0 g := by
  apply List.ext_getElem
  · simp
  · intro i h1 h2
    have hi : i < l.length := by simpa using h1
    simp [List.getElem?_eq_getElem hi]

/-- **The right-hand side identity.**  The right-hand side of the substituted network (capacitor `k` ↦
current source `−w[k]`, inductor `k` ↦ voltage source `w[nc+k]`, sources at `u`) is `QS·u + DQ·w`. -/
theorem subst_mnaB {N : Net L K} {cvals lvals : ValDict K} {Delta : List (List K)} (h : RLC N cvals lvals)
    (hD : ssDelta N cvals = .ok Delta) (u w : List K)
    (hu : u.length = ssNInputs N lvals) (hw : w.length = ssNStates N cvals lvals) :
    (substNet N cvals lvals (ssSources N lvals) u w).mnaB
      = Mx.vecAdd (matVec (ssQS N lvals) u) (matVec (ssDQ N cvals lvals Delta) w) := by
  have hids := h.wf.ids_nodup
  have hkeys := h.indKeys
  have hk := substElem_keeps h (ssSources N lvals) u w
  have e1 : matVec (ssQS N lvals) u = (List.range N.nY).map fun i =>
      sumTo (ssNInputs N lvals) fun j => Mx.get (ssQS N lvals) i j * u.getD j 0 :=
    rhs_matVec_ofFn' _ _ _ u hu
  have e2 : matVec (ssDQ N cvals lvals Delta) w = (List.range N.nY).map fun i =>
      sumTo (ssNStates N cvals lvals) fun j => Mx.get (ssDQ N cvals lvals Delta) i j * w.getD j 0 :=
    rhs_matVec_ofFn' _ _ _ w hw
  rw [e1, e2]
  unfold Mx.vecAdd
  rw [List.zipWith_map, List.zipWith_self]
  unfold Net.mnaB substNet
  rw [mapElems_nodes, mapElems_vsSorted N _ hk, List.map_map]
  have hny : N.nY = N.nodes.length + N.vsSorted.length := by
    unfold Net.nY Net.nN Net.nV; rw [vsSorted_length N hids]
  rw [hny, List.range_add, List.map_append, List.map_map, map_eq_range_map N.nodes, map_eq_range_map N.vsSorted]
  congr 1
  · apply List.map_congr_left
    intro i hi
    have hi' : i < N.nodes.length := List.mem_range.mp hi
    have hn : N.nodes[i]? = some N.nodes[i] := List.getElem?_eq_getElem hi'
    have hmem : N.nodes[i] ∈ N.nodes := List.getElem_mem hi'
    rw [hn, Option.elim_some, rhsNode_mapElems N _ hids,
      qs_node_row N lvals hids hkeys u hn, dq_node_row N cvals lvals hids hD h.capNodup h.capMem w hn,
      ← List.sum_map_add]
    congr 1
    apply List.map_congr_left
    intro b hb
    exact node_branch_identity h u w hb hmem
  · apply List.map_congr_left
    intro r hr
    have hr' : r < N.vsSorted.length := List.mem_range.mp hr
    have hrv : r < N.vsIds.length := by rw [← vsSorted_length N hids]; exact hr'
    have hb : N.vsSorted[r]? = some N.vsSorted[r] := List.getElem?_eq_getElem hr'
    have hbm : N.vsSorted[r] ∈ N.vs := (vsSorted_perm N hids).mem_iff.mp (List.getElem_mem hr')
    have hid : N.vsSorted[r].id = N.vsIds[r] := by
      have := vsSorted_ids N hids
      have h2 : (N.vsSorted.map (·.id))[r]? = N.vsIds[r]? := by rw [this]
      rw [List.getElem?_map, hb, List.getElem?_eq_getElem hrv] at h2
      exact Option.some.inj h2
    simp only [Function.comp, hb, Option.elim_some]
    have hN : N.nodes.length = N.nN := rfl
    rw [hN, qs_vs_row N lvals hids hkeys u hrv, dq_vs_row N cvals lvals hids hD hkeys h.indNodup w hrv,
      ← hid]
    exact vs_branch_identity h u w (List.mem_filter.mp hbm).1 (List.mem_filter.mp hbm).2

end main
end CC
