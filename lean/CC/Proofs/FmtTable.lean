/-
  CC.Proofs.FmtTable — prefix tables: `maxKey`, `minKey`, `has`, `get`.
-/
import Mathlib.Order.Basic
import Mathlib.Tactic.Linarith
import CC.Model.FmtBase
import CC.Spec.Fmt

namespace CC.Fmt

theorem foldl_max_spec : ∀ (l : List ℤ) (a : ℤ),
    a ≤ l.foldl max a ∧ (∀ x ∈ l, x ≤ l.foldl max a) ∧ (l.foldl max a = a ∨ l.foldl max a ∈ l) := by
  intro l
  induction l with
  | nil => intro a; simp
  | cons b t ih =>
    intro a
    obtain ⟨h1, h2, h3⟩ := ih (max a b)
    simp only [List.foldl_cons, List.mem_cons]
    refine ⟨le_trans (le_max_left a b) h1, ?_, ?_⟩
    · intro x hx
      rcases hx with rfl | hx
      · exact le_trans (le_max_right a x) h1
      · exact h2 x hx
    · rcases h3 with h | h
      · rcases max_choice a b with hm | hm
        · left; rw [h, hm]
        · right; left; rw [h, hm]
      · right; right; exact h

theorem foldl_min_spec : ∀ (l : List ℤ) (a : ℤ),
    l.foldl min a ≤ a ∧ (∀ x ∈ l, l.foldl min a ≤ x) ∧ (l.foldl min a = a ∨ l.foldl min a ∈ l) := by
  intro l
  induction l with
  | nil => intro a; simp
  | cons b t ih =>
    intro a
    obtain ⟨h1, h2, h3⟩ := ih (min a b)
    simp only [List.foldl_cons, List.mem_cons]
    refine ⟨le_trans h1 (min_le_left a b), ?_, ?_⟩
    · intro x hx
      rcases hx with rfl | hx
      · exact le_trans h1 (min_le_right a x)
      · exact h2 x hx
    · rcases h3 with h | h
      · rcases min_choice a b with hm | hm
        · left; rw [h, hm]
        · right; left; rw [h, hm]
      · right; right; exact h

theorem listMax_spec {l : List ℤ} (h : l ≠ []) : listMax l ∈ l ∧ ∀ x ∈ l, x ≤ listMax l := by
  cases l with
  | nil => exact absurd rfl h
  | cons a t =>
    obtain ⟨h1, h2, h3⟩ := foldl_max_spec t a
    simp only [listMax, List.mem_cons]
    refine ⟨?_, ?_⟩
    · rcases h3 with h | h
      · left; exact h
      · right; exact h
    · intro x hx
      rcases hx with rfl | hx
      · exact h1
      · exact h2 x hx

theorem listMin_spec {l : List ℤ} (h : l ≠ []) : listMin l ∈ l ∧ ∀ x ∈ l, listMin l ≤ x := by
  cases l with
  | nil => exact absurd rfl h
  | cons a t =>
    obtain ⟨h1, h2, h3⟩ := foldl_min_spec t a
    simp only [listMin, List.mem_cons]
    refine ⟨?_, ?_⟩
    · rcases h3 with h | h
      · left; exact h
      · right; exact h
    · intro x hx
      rcases hx with rfl | hx
      · exact h1
      · exact h2 x hx

theorem Table.has_iff (T : Table) (k : ℤ) : T.has k = true ↔ k ∈ T.keys := by
  simp [Table.has]

theorem Table.get_mem : ∀ (T : Table) (k : ℤ), k ∈ T.keys → (k, T.get k) ∈ T := by
  intro T
  induction T with
  | nil => intro k h; simp [Table.keys] at h
  | cons a t ih =>
    intro k h
    obtain ⟨k0, s0⟩ := a
    by_cases hk : k = k0
    · subst hk
      simp [Table.get, List.lookup]
    · have ht : k ∈ Table.keys t := by
        simp only [Table.keys, List.map_cons, List.mem_cons] at h
        rcases h with h | h
        · exact absurd h hk
        · exact h
      have := ih k ht
      have hne : (k == k0) = false := by simpa using hk
      simp only [Table.get, List.lookup, hne] at this ⊢
      exact List.mem_cons_of_mem _ this

/-- the keys between the smallest and the largest key that are multiples of three (other than
0) are all present: no SI prefix is skipped -/
def Table.admissible (T : Table) : Bool :=
  !T.isEmpty && (List.range ((T.maxKey - T.minKey).toNat + 1)).all fun i =>
    let k := T.minKey + (i : ℤ)
    k % 3 != 0 || k == 0 || T.has k

def Table.Admissible (T : Table) : Prop :=
  T ≠ [] ∧ ∀ k : ℤ, k % 3 = 0 → T.minKey ≤ k → k ≤ T.maxKey → k ≠ 0 → T.has k = true

theorem Table.admissible_sound {T : Table} (h : T.admissible = true) : T.Admissible := by
  simp only [Table.admissible, Bool.and_eq_true, Bool.not_eq_true', List.all_eq_true, List.mem_range,
    Bool.or_eq_true, bne_iff_ne, ne_eq, beq_iff_eq] at h
  obtain ⟨hne, hall⟩ := h
  refine ⟨by intro h0; subst h0; simp at hne, ?_⟩
  intro k h3 hlo hhi h0
  have := hall (k - T.minKey).toNat (by omega)
  have hk : T.minKey + ((k - T.minKey).toNat : ℤ) = k := by omega
  simp only [hk] at this
  rcases this with (h | h) | h
  · exact absurd h3 h
  · exact absurd h h0
  · exact h

/-- every prefix attached to a multiple of three is the SI letter for that power of ten -/
def Table.si (T : Table) : Bool :=
  T.all fun (k, s) => k % 3 != 0 || (match s with | [c] => siExp c == some k | _ => false)

theorem Table.si_sound {T : Table} (h : T.si = true) {k : ℤ} {s : List Char} (hm : (k, s) ∈ T) (h3 : k % 3 = 0) :
    ∃ c, s = [c] ∧ siExp c = some k := by
  simp only [Table.si, List.all_eq_true] at h
  have := h (k, s) hm
  simp only [Bool.or_eq_true, bne_iff_ne, ne_eq] at this
  rcases this with h | h
  · exact absurd h3 h
  · match s, h with
    | [c], h => exact ⟨c, rfl, by simpa using h⟩

end CC.Fmt
