/-
  CC.Proofs.FmtReaders — the composite readers on rendered shapes: `parseCartesian` (CC.Spec.Fmt) on `[-]T`, `±jT`,
  `[-]T±jT`; `parseSinusoid`, `parsePQ` (CC.Spec.FmtReaders) on the shapes `C18_time_text` / `C18_active_reactive_text`
  name; the sign convention `Text.withNeg` against the clauses of `RealOK`.  Model-independent: every lemma is about
  the readers and arbitrary part texts.  Helper lemmas for `CC.Properties.C18Readers` (round 5b).
-/
import CC.Spec.FmtReaders
import CC.Proofs.FmtPolar

namespace CC.Fmt
open CC.Gen.Fmt

/-! ### heads of readable texts -/

theorem parseBack_nil (u : List Char) : parseBack u [] = none := by
  unfold parseBack
  simp [parseMant, parseUnsigned, takeNat]

theorem parseBack_space (u s : List Char) : parseBack u (' ' :: s) = none := by
  unfold parseBack
  have h : isDigit ' ' = false := by decide
  simp [parseMant, parseUnsigned, takeNat, h]

theorem parseBack_minus {u s : List Char} {t : Text} (h : parseBack u ('-' :: s) = some t) : t.isNeg = true := by
  have h1 : ('-' :: s) ≠ ['∞'] := by
    intro e; have := (List.cons.inj e).1; revert this; decide
  unfold parseBack at h
  rw [if_neg h1] at h
  split at h
  · cases h; rfl
  · unfold parseMant at h
    cases hU : parseUnsigned s with
    | none => simp [hU] at h
    | some r =>
      simp only [hU, Option.map_some] at h
      cases hT : parseTail u (parseExp r.2.2.2).2 with
      | none => simp [hT] at h
      | some k => simp only [hT, Option.some.injEq] at h; rw [← h]; rfl

/-- the clauses of `RealOK` for a finite text -/
theorem realFailures_num (v : ℚ) (p : ℕ) (m : ℤ) (q : Parsed) :
    realFailures v p m (some (.num q)) = [] ↔
      (¬ Beyond v m ∧ q.exp % 3 = 0 ∧ (1 ≤ q.mant ∧ q.mant ≤ 1000) ∧ AccurateTol 0 v p q.value
        ∧ (q.value = 0 ∨ q.neg = decide (v < 0))) := by
  unfold realFailures
  simp only [List.append_eq_nil_iff, ite_eq_right_iff, ite_eq_left_iff, reduceCtorEq, imp_false, not_not]
  tauto

theorem realFailures_inf (v : ℚ) (p : ℕ) (m : ℤ) (n : Bool) :
    realFailures v p m (some (.inf n)) = [] ↔ (BeyondRounded v p m ∧ n = decide (v < 0)) := by
  unfold realFailures BeyondRounded
  simp only [List.append_eq_nil_iff, ite_eq_left_iff, reduceCtorEq, imp_false, not_not, zero_mul, add_zero]

theorem qabs_qabs (v : ℚ) : qabs (qabs v) = qabs v := by rw [qabs_eq_abs, qabs_eq_abs, abs_abs]

theorem halfUnit_qabs (v : ℚ) (p : ℕ) : halfUnit (qabs v) p = halfUnit v p := by
  unfold halfUnit; rw [qabs_qabs]

theorem Parsed.value_ne_zero {q : Parsed} (h : 1 ≤ q.mant) : q.value ≠ 0 := by
  unfold Parsed.value
  have := pow10_pos q.exp
  have hm : q.mant ≠ 0 := by linarith
  cases q.neg <;> simp [hm, this.ne']

/-- a text that reads back to a positive number carries no minus sign -/
theorem isNeg_of_realFailures_pos {v : ℚ} {p : ℕ} {m : ℤ} {t : Text} (h : realFailures v p m (some t) = [])
    (hv : 0 < v) : t.isNeg = false := by
  have hd : decide (v < 0) = false := by simp [le_of_lt hv]
  cases t with
  | inf n => rw [realFailures_inf, hd] at h; exact h.2
  | num q =>
    rw [realFailures_num, hd] at h
    obtain ⟨_, _, hm, _, hs⟩ := h
    rcases hs with hs | hs
    · exact absurd hs (Parsed.value_ne_zero hm.1)
    · exact hs

/-- the sign convention: a magnitude text that reads back to `|v|`, given the sign of `v`, reads back to `v` -/
theorem realFailures_withNeg {v : ℚ} {p : ℕ} {m : ℤ} {t : Text} (h : realFailures (qabs v) p m (some t) = [])
    (hv : v ≠ 0) : realFailures v p m (some (t.withNeg (decide (v < 0)))) = [] := by
  have hpos : 0 < qabs v := by rw [qabs_eq_abs]; exact abs_pos.mpr hv
  have hneg := isNeg_of_realFailures_pos h hpos
  cases t with
  | inf n =>
    rw [realFailures_inf] at h
    show realFailures v p m (some (.inf (decide (v < 0)))) = []
    rw [realFailures_inf]
    refine ⟨?_, rfl⟩
    have := h.1
    unfold BeyondRounded at this ⊢
    rwa [qabs_qabs, halfUnit_qabs] at this
  | num q =>
    rw [realFailures_num] at h
    obtain ⟨h1, h2, h3, h4, _⟩ := h
    show realFailures v p m (some (.num { q with neg := decide (v < 0) })) = []
    rw [realFailures_num]
    refine ⟨?_, h2, h3, ?_, Or.inr rfl⟩
    · unfold Beyond at h1 ⊢; rwa [qabs_qabs] at h1
    · have hq : q.neg = false := hneg
      unfold AccurateTol at h4 ⊢
      rw [halfUnit_qabs, qabs_qabs] at h4
      simp only [zero_mul, add_zero] at h4 ⊢
      refine le_trans (le_of_eq ?_) h4
      unfold Parsed.value
      show qabs ((if decide (v < 0) = true then -1 else 1) * q.mant * pow10 q.exp - v)
        = qabs ((if q.neg = true then -1 else 1) * q.mant * pow10 q.exp - qabs v)
      rw [hq]
      simp only [qabs_eq_abs, decide_eq_true_eq, Bool.false_eq_true, ↓reduceIte, one_mul]
      by_cases hlt : v < 0
      · rw [if_pos hlt, abs_of_neg hlt]
        rw [← abs_neg]; congr 1; ring
      · rw [if_neg hlt, abs_of_nonneg (not_lt.mp hlt)]; simp


/-! ### the Cartesian reader on its three shapes -/

/-- the signed real part as `parseCartesian` reads it -/
def parseSignedC (unit s : List Char) : Option Text :=
  match s with
  | '-' :: ' ' :: t => (parseBack unit t).map (Text.withNeg · true)
  | '-' :: t => (parseBack unit t).map (Text.withNeg · true)
  | _ => parseBack unit s

/-- `parseCartesian` of `CC.Spec.Fmt` with its local helpers named (definitional) -/
theorem parseCartesian_eq (unit s : List Char) : parseCartesian unit s =
    match splitOn1 'j' s with
    | none => (parseSignedC unit s).map fun t => (some t, none)
    | some (l, r) =>
      match parseBack unit r with
      | none => none
      | some im =>
        match (dropTrailingSpaces l).reverse with
        | [] => some (none, some im)
        | sg :: restRev =>
          if sg = '+' ∨ sg = '-' then
            if dropTrailingSpaces restRev.reverse = [] then some (none, some (im.withNeg (decide (sg = '-'))))
            else (parseSignedC unit (dropTrailingSpaces restRev.reverse)).map fun re =>
              (some re, some (im.withNeg (decide (sg = '-'))))
          else none := rfl

theorem stripL_of_head {s : List Char} (h : ∀ c t, s = c :: t → c ≠ ' ') : stripL s = s := by
  cases s with
  | nil => rfl
  | cons c t => simp [stripL, h c t rfl]

theorem dts_append_space (a : List Char) : dropTrailingSpaces (a ++ [' ']) = dropTrailingSpaces a := by
  unfold dropTrailingSpaces
  simp [stripL]

theorem dts_append_char (a : List Char) {c : Char} (hc : c ≠ ' ') : dropTrailingSpaces (a ++ [c]) = a ++ [c] := by
  unfold dropTrailingSpaces
  simp [stripL, hc]

theorem dts_nil : dropTrailingSpaces [] = [] := rfl

/-- a text that ends with a part without spaces has no trailing spaces -/
theorem dts_append (a : List Char) {b : List Char} (hb : b ≠ []) (hs : ' ' ∉ b) :
    dropTrailingSpaces (a ++ b) = a ++ b := by
  obtain ⟨b', c, rfl⟩ : ∃ b' c, b = b' ++ [c] := by
    rcases List.eq_nil_or_concat b with h | ⟨b', c, h⟩
    · exact absurd h hb
    · exact ⟨b', c, by simpa using h⟩
  have hc : c ≠ ' ' := fun e => hs (by simp [e])
  rw [← List.append_assoc]
  exact dts_append_char _ hc

theorem parseSignedC_pos {unit T : List Char} {t : Text} (h : parseBack unit T = some t) (hn : t.isNeg = false) :
    parseSignedC unit T = some t := by
  unfold parseSignedC
  split
  · rename_i s; have := parseBack_minus h; rw [hn] at this; exact absurd this (by decide)
  · rename_i s _; have := parseBack_minus h; rw [hn] at this; exact absurd this (by decide)
  · exact h

theorem parseSignedC_neg {unit T : List Char} {t : Text} (h : parseBack unit T = some t) :
    parseSignedC unit ('-' :: T) = some (t.withNeg true) := by
  unfold parseSignedC
  split
  · rename_i s heq
    have : T = ' ' :: s := by simpa using heq
    rw [this, parseBack_space] at h; cases h
  · rename_i s _ heq
    have : T = s := by simpa using heq
    subst this; rw [h]; rfl
  · rename_i h1 h2; exact absurd rfl (h2 T)

theorem parseSignedC_neg_wide {unit T : List Char} {t : Text} (h : parseBack unit T = some t) :
    parseSignedC unit ('-' :: ' ' :: T) = some (t.withNeg true) := by
  show (parseBack unit T).map (Text.withNeg · true) = _
  rw [h]; rfl

/-- no `j`: the text is a signed real part alone -/
theorem parseCartesian_re (unit s : List Char) (hj : 'j' ∉ s) :
    parseCartesian unit s = (parseSignedC unit s).map fun t => (some t, none) := by
  rw [parseCartesian_eq, splitOn1_none _ _ hj]

/-- `j` first: an unsigned imaginary part alone -/
theorem parseCartesian_im_pos (unit Tim : List Char) {im : Text} (hIm : parseBack unit Tim = some im) :
    parseCartesian unit ('j' :: Tim) = some (none, some im) := by
  rw [parseCartesian_eq]
  have : splitOn1 'j' ('j' :: Tim) = some ([], Tim) := by simp [splitOn1]
  rw [this]
  simp only [hIm]
  rfl

/-- `X ± j Tim`, the sign character `sg` written with or without spaces around it: the imaginary part carries the sign
`sg`, the real part is `X` as a signed real (absent when `X` is empty) -/
theorem parseCartesian_full (unit X Tim : List Char) (sg : Char) (hsg : sg = '+' ∨ sg = '-') (wide : Bool)
    (hj : 'j' ∉ X) (hX : dropTrailingSpaces X = X) {im : Text} (hIm : parseBack unit Tim = some im) :
    parseCartesian unit (X ++ (if wide then [' ', sg, ' '] else [sg]) ++ ['j'] ++ Tim)
      = if X = [] then some (none, some (im.withNeg (decide (sg = '-'))))
        else (parseSignedC unit X).map fun re => (some re, some (im.withNeg (decide (sg = '-')))) := by
  have hsgj : sg ≠ 'j' := by rcases hsg with h | h <;> rw [h] <;> decide
  have hsgs : sg ≠ ' ' := by rcases hsg with h | h <;> rw [h] <;> decide
  have hjl : 'j' ∉ X ++ (if wide then [' ', sg, ' '] else [sg]) := by
    intro h
    rcases List.mem_append.mp h with h | h
    · exact hj h
    · have hmem : ∀ x ∈ (if wide then [' ', sg, ' '] else [sg]), x = ' ' ∨ x = sg := by
        cases wide <;> simp
      rcases hmem 'j' h with e | e
      · exact absurd e (by decide)
      · exact hsgj e.symm
  rw [parseCartesian_eq, List.append_assoc _ ['j'] Tim, List.singleton_append, splitOn1_append _ _ _ hjl]
  simp only [hIm]
  have hrev : ∃ rest, (dropTrailingSpaces (X ++ (if wide then [' ', sg, ' '] else [sg]))).reverse = sg :: rest
      ∧ dropTrailingSpaces rest.reverse = X := by
    cases wide
    · refine ⟨X.reverse, ?_, by rw [List.reverse_reverse]; exact hX⟩
      simp only [Bool.false_eq_true, ↓reduceIte]
      rw [dts_append_char _ hsgs]; simp
    · refine ⟨(X ++ [' ']).reverse, ?_, by rw [List.reverse_reverse, dts_append_space]; exact hX⟩
      simp only [↓reduceIte]
      have : X ++ [' ', sg, ' '] = (X ++ [' '] ++ [sg]) ++ [' '] := by simp
      rw [this, dts_append_space, dts_append_char _ hsgs]; simp
  obtain ⟨rest, h1, h2⟩ := hrev
  rw [h1]
  simp only [hsg, ↓reduceIte, h2]


/-! ### the time-function reader on its shape -/

theorem stripLast_append (c : Char) (s : List Char) : stripLast c (s ++ [c]) = some s := by
  unfold stripLast; simp

theorem stripLast_none {c : Char} {s : List Char} (h : c ∉ s) : stripLast c s = none := by
  unfold stripLast
  split
  · rename_i d r heq
    have hd : d ∈ s := by rw [← List.mem_reverse, heq]; simp
    have : d ≠ c := fun e => h (e ▸ hd)
    simp [this]
  · rfl

/-- the phase reader on: nothing -/
theorem parsePhase_nil : parsePhase [] = some (none, false) := rfl

/-- the phase reader on sign and a number in radians (no degree sign in the text) -/
theorem parsePhase_rad (sg : Char) (hsg : sg = '+' ∨ sg = '-') {T : List Char} (hT : '°' ∉ T) {t : Text}
    (h : parseBack [] T = some t) : parsePhase (sg :: T) = some (some (t.withNeg (decide (sg = '-'))), false) := by
  unfold parsePhase
  simp only [hsg, ↓reduceIte, stripLast_none hT, Option.isSome_none, Bool.false_eq_true, h, Option.map_some]

/-- the phase reader on sign and a number with degree sign -/
theorem parsePhase_deg (sg : Char) (hsg : sg = '+' ∨ sg = '-') {T' : List Char} {t : Text}
    (h : parseBack ['°'] (T' ++ ['°']) = some t) :
    parsePhase (sg :: (T' ++ ['°'])) = some (some (t.withNeg (decide (sg = '-'))), true) := by
  unfold parsePhase
  simp only [hsg, ↓reduceIte, stripLast_append, Option.isSome_some, h, Option.map_some]

/-- the wave reader: `sin(`/`cos(`, optional `2π·`, frequency text `F`, `·t`, phase text, `)` -/
theorem parseWaveArg_shape (amp : Text) (sine hertz : Bool) (F ph : List Char) (hF : '·' ∉ F) (hpi : 'π' ∉ F)
    {fq : Text} (hfq : parseBack (if hertz then ['H', 'z'] else ['/', 's']) F = some fq)
    {p : Option Text} {d : Bool} (hph : parsePhase ph = some (p, d)) :
    parseWaveArg amp ((if sine then ['s', 'i', 'n'] else ['c', 'o', 's']) ++ ['(']
        ++ (if hertz then ['2', 'π', '·'] ++ F else F) ++ ['·', 't'] ++ ph ++ [')'])
      = some (.wave { amplitude := amp, sine := sine, hertz := hertz, freq := fq, phase := p, deg := d }) := by
  have hsplit : splitOn1 '·' (F ++ '·' :: 't' :: (ph ++ [')'])) = some (F, 't' :: (ph ++ [')'])) :=
    splitOn1_append _ _ _ hF
  have h2pi : splitOn1 '·' ('2' :: 'π' :: '·' :: (F ++ '·' :: 't' :: (ph ++ [')'])))
      = some (['2', 'π'], F ++ '·' :: 't' :: (ph ++ [')'])) :=
    splitOn1_append '·' ['2', 'π'] _ (by decide)
  have hne : F ≠ ['2', 'π'] := fun e => hpi (by rw [e]; simp)
  unfold parseWaveArg
  cases sine <;> cases hertz <;> simp only [Bool.false_eq_true, ↓reduceIte] at hfq <;>
    simp (config := { decide := true }) only [↓reduceIte, List.cons_append, List.nil_append,
      List.append_assoc, stripPrefix, Option.map_some, hsplit, h2pi, hne, hfq, stripLast_append, hph]

/-- the time-function reader on `A · rest` -/
theorem parseSinusoid_wave (unit A r : List Char) (hA : '·' ∉ A) {amp : Text} (h : parseBack unit A = some amp) :
    parseSinusoid unit (A ++ '·' :: r) = parseWaveArg amp r := by
  unfold parseSinusoid
  rw [splitOn1_append _ _ _ hA]
  simp only [h]

/-- the time-function reader on a plain real quantity -/
theorem parseSinusoid_const (unit s : List Char) (hs : '·' ∉ s) :
    parseSinusoid unit s = (parseBack unit s).map .const := by
  unfold parseSinusoid
  rw [splitOn1_none _ _ hs]

/-! ### the `P`/`Q` reader on its shape -/

theorem parsePQ_p (pd : Bool) (TP : List Char) (hP : '\n' ∉ TP) {t : Text} (h : parseBack ['W'] TP = some t) :
    parsePQ (['P', ':', ' '] ++ (if pd then ['↓'] else ['↑']) ++ TP) = some { pDown := pd, p := t, q := none } := by
  unfold parsePQ
  cases pd <;>
    simp only [Bool.false_eq_true, ↓reduceIte, List.cons_append, List.nil_append, stripPrefix, Option.bind_some,
      parseArrow, splitOn1_none _ _ hP, h, Option.map_some]

theorem parsePQ_pq (pd qd : Bool) (TP TQ : List Char) (hP : '\n' ∉ TP) {t u : Text} (h : parseBack ['W'] TP = some t)
    (hq : parseBack ['v', 'a', 'r'] TQ = some u) :
    parsePQ (['P', ':', ' '] ++ (if pd then ['↓'] else ['↑']) ++ TP
        ++ (['\n', 'Q', ':', ' '] ++ (if qd then ['↓'] else ['↑']) ++ TQ))
      = some { pDown := pd, p := t, q := some (qd, u) } := by
  have hs : ∀ r, splitOn1 '\n' (TP ++ '\n' :: r) = some (TP, r) := fun r => splitOn1_append _ _ _ hP
  unfold parsePQ
  cases pd <;> cases qd <;>
    simp only [Bool.false_eq_true, ↓reduceIte, List.cons_append, List.nil_append, stripPrefix,
      Option.bind_some, parseArrow, hs, h, hq, Option.map_some]

end CC.Fmt
