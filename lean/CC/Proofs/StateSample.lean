/-
  CC.Proofs.StateSample — puts the pieces together: for the executable model, the output vector
  `y = C x + D u` of ANY state `x` and input `u` solves the nodal equations of the per-sample network
  (`model_sample_system` + the right-hand side identity `subst_mnaB`), hence by C01's soundness
  theorem (through `sample_is_circuit`) it reports a solution of that network's circuit equations.
-/
import CC.Proofs.StateRhs
set_option linter.unusedSectionVars false

namespace CC
open Matrix Mx

section bridge
variable {K : Type} [Field K]

/-- a list read as a vector indexed by `Fin n` -/
def vecOf (n : Nat) (v : List K) : Fin n → K := fun i => v.getD i 0

theorem vecOf_ofFn {n : Nat} (f : Fin n → K) : vecOf n (List.ofFn f) = f := by
  funext i
  simp [vecOf, List.getD_eq_getElem?_getD]

theorem matVec_eq_ofFn {r c : Nat} {M : List (List K)} (hM : IsShape M r c) {v : List K} (hv : v.length = c) :
    matVec M v = List.ofFn (toM r c M *ᵥ vecOf c v) := by
  apply List.ext_getElem
  · simp [matVec, hM.1]
  · intro i h1 h2
    have hi : i < M.length := by simpa [matVec] using h1
    have hrow : (M[i]).length = c := hM.2 _ (List.getElem_mem hi)
    simp only [matVec, List.getElem_map, List.getElem_ofFn, Matrix.mulVec, dotProduct, toM_apply, vecOf]
    have e : M[i] = (List.range c).map fun j => (M[i]).getD j 0 := by
      have := list_eq_range_map (M[i]); rwa [hrow] at this
    rw [e, dotL_range_map c _ v hv, sumTo_eq]
    apply Finset.sum_congr rfl
    intro j _
    congr 1
    simp [Mx.get, List.getD_eq_getElem?_getD, List.getElem?_eq_getElem hi, List.getElem?_map,
      List.getElem?_range j.2]

theorem vecAdd_ofFn {n : Nat} (f g : Fin n → K) :
    Mx.vecAdd (List.ofFn f) (List.ofFn g) = List.ofFn (f + g) := by
  apply List.ext_getElem
  · simp [Mx.vecAdd]
  · intro i h1 h2
    simp [Mx.vecAdd]

theorem zipWith_diag_ofFn {n : Nat} (d : List K) (hd : d.length = n) (f : Fin n → K) :
    List.zipWith (· * ·) d (List.ofFn f) = List.ofFn ((diagonal fun i : Fin n => d.getD i 0) *ᵥ f) := by
  apply List.ext_getElem
  · simp [hd]
  · intro i h1 h2
    have hi : i < d.length := by simp at h1; omega
    simp [mulVec_diagonal, List.getD_eq_getElem?_getD, List.getElem?_eq_getElem hi]

end bridge

section main
variable {L K : Type} [DecidableEq L] [LabelOrd L] [Field K] [DecidableEq K]

theorem idxOf?_lt {α : Type} [DecidableEq α] {a : α} {l : List α} {k : Nat} (h : idxOf? a l = some k) :
    k < l.length := by
  obtain ⟨k', hk', hlt, _⟩ := idxOf?_of_mem (idxOf?_some_mem h)
  rw [h] at hk'; cases hk'; exact hlt

theorem lambda_getD_cap (cvals lvals : ValDict K) {k : Nat} (hk : k < cvals.length) :
    (ssLambda cvals lvals).getD k 0 = -(cvals.vals.getD k 0) := by
  unfold ssLambda
  have hk' : k < (cvals.vals.map fun c => -c).length := by simpa [ValDict.vals] using hk
  have hk'' : k < cvals.vals.length := by simpa [ValDict.vals] using hk
  simp [List.getD_eq_getElem?_getD, List.getElem?_append_left hk', List.getElem?_eq_getElem hk'']

theorem lambda_getD_ind (cvals lvals : ValDict K) (k : Nat) :
    (ssLambda cvals lvals).getD (cvals.length + k) 0 = lvals.vals.getD k 0 := by
  unfold ssLambda
  have hl : (cvals.vals.map fun c => -c).length = cvals.length := by simp [ValDict.vals]
  simp [List.getD_eq_getElem?_getD, List.getElem?_append_right (by rw [hl]; omega : (cvals.vals.map fun c => -c).length ≤ cvals.length + k), hl]

/-- the per-sample network is the substituted network with `w = Λ·ẋ` -/
theorem sampleNet_eq_substNet (N : Net L K) (cvals lvals : ValDict K) (sources : List String) (u xdot : List K) :
    sampleNet N cvals lvals sources u xdot
      = substNet N cvals lvals sources u (List.zipWith (· * ·) (ssLambda cvals lvals) xdot) := by
  unfold sampleNet substNet
  congr 1
  funext b
  unfold substElem
  cases hc : idxOf? b.id cvals.keys with
  | some k =>
    have hk : k < cvals.length := by have := idxOf?_lt hc; simpa [ValDict.keys] using this
    simp only [getD_zipWith_mul, lambda_getD_cap cvals lvals hk]
    congr 1; ring
  | none =>
    cases hl : idxOf? b.id lvals.keys with
    | some k => simp only [getD_zipWith_mul, lambda_getD_ind]
    | none => rfl

/-- **C12_sample_rhs.**  The right-hand side of the per-sample network is the model's
`QS·u + DQ·(Λ·ẋ)`. -/
theorem sample_rhs {N : Net L K} {cvals lvals : ValDict K} {Delta : List (List K)} (h : RLC N cvals lvals)
    (hD : ssDelta N cvals = .ok Delta) (u xdot : List K)
    (hu : u.length = ssNInputs N lvals) (hx : xdot.length = ssNStates N cvals lvals) :
    (sampleNet N cvals lvals (ssSources N lvals) u xdot).mnaB
      = Mx.vecAdd (matVec (ssQS N lvals) u)
          (matVec (ssDQ N cvals lvals Delta) (List.zipWith (· * ·) (ssLambda cvals lvals) xdot)) := by
  rw [sampleNet_eq_substNet]
  apply subst_mnaB h hD u _ hu
  have : (ssLambda cvals lvals).length = ssNStates N cvals lvals := by
    rw [ssLambda_length]; unfold ssNStates; rw [colsL_length N lvals h.indKeys]; simp [ValDict.keys]
  simp [this, hx]

theorem ssAtilde_id (N : Net L K) : ssAtilde id N = N.mnaA := by
  unfold ssAtilde
  simp

theorem mnaA_shape (N : Net L K) (hids : N.ids.Nodup) : IsShape N.mnaA N.nY N.nY := by
  have hl := vsSorted_length N hids
  constructor
  · simp [Net.mnaA, Net.nY, Net.nN, Net.nV, hl]
  · intro r hr
    simp only [Net.mnaA, List.mem_append, List.mem_map] at hr
    rcases hr with ⟨i, _, rfl⟩ | ⟨b, _, rfl⟩ <;> simp [Net.nY, Net.nN, Net.nV, hl]

/-- any vector that solves `Ã y = QS u + DQ Λ ẋ` reports a solution of the per-sample circuit -/
theorem sample_circuit_of_system {N : Net L K} {cvals lvals : ValDict K} {Delta : List (List K)}
    (h : RLC N cvals lvals) (hD : ssDelta N cvals = .ok Delta)
    (y : Fin N.nY → K) (xdot : Fin (ssNStates N cvals lvals) → K) (u : Fin (ssNInputs N lvals) → K)
    (hsys : toM N.nY N.nY N.mnaA *ᵥ y
        = toM N.nY (ssNInputs N lvals) (ssQS N lvals) *ᵥ u
          + toM N.nY (ssNStates N cvals lvals) (ssDQ N cvals lvals Delta) *ᵥ
              ((diagonal fun i : Fin (ssNStates N cvals lvals) => (ssLambda cvals lvals).getD i 0) *ᵥ xdot)) :
    let P := sampleNet N cvals lvals (ssSources N lvals) (List.ofFn u) (List.ofFn xdot)
    CircuitEqs P (P.reportOf (List.ofFn y)) := by
  intro P
  have hids := h.wf.ids_nodup
  apply sample_is_circuit N cvals lvals _ _ _ _ h.wf h.placeholders
  · simp only [List.length_ofFn]; rfl
  · rw [sample_rhs h hD _ _ (by simp) (by simp)]
    have hlam : (ssLambda cvals lvals).length = ssNStates N cvals lvals := by
      rw [ssLambda_length]; unfold ssNStates; rw [colsL_length N lvals h.indKeys]; simp [ValDict.keys]
    rw [matVec_eq_ofFn (mnaA_shape N hids) (by simp), vecOf_ofFn,
      matVec_eq_ofFn (show IsShape (ssQS N lvals) N.nY (ssNInputs N lvals) from isShape_ofFn _ _ _) (by simp),
      vecOf_ofFn, zipWith_diag_ofFn _ hlam,
      matVec_eq_ofFn (show IsShape (ssDQ N cvals lvals Delta) N.nY (ssNStates N cvals lvals) from
        isShape_ofFn _ _ _) (by simp), vecOf_ofFn, vecAdd_ofFn]
    congr 1

/-- **The executable model solves the per-sample circuit.**  For the `w = 0` network of an RLC +
ideal-source circuit and ANY state `x` and input `u`: the output vector `y = C x + D u` of the model
reports — through the accessors of the sample network (capacitor `k` carries `C_k·ẋ_k`, inductor `k`
has the voltage `L_k·ẋ_k`, `ẋ = A x + B u`, sources at `u`) — potentials, voltages and currents that
satisfy the reference condition, Kirchhoff's voltage law, every element law and Kirchhoff's current
law at every node. -/
theorem model_sample_circuit {N : Net L K} {cvals lvals : ValDict K} {Ainv S Delta : List (List K)}
    {m : SSMats K} (h : RLC N cvals lvals) (hD : ssDelta N cvals = .ok Delta)
    (hm : stateSpaceMatrices N cvals lvals Ainv S = .ok m)
    (hc : ModelCert id N cvals lvals Ainv S Delta)
    (x : Fin (ssNStates N cvals lvals) → K) (u : Fin (ssNInputs N lvals) → K) :
    let y := toM N.nY (ssNStates N cvals lvals) m.C *ᵥ x + toM N.nY (ssNInputs N lvals) m.D *ᵥ u
    let xdot := toM (ssNStates N cvals lvals) (ssNStates N cvals lvals) m.A *ᵥ x
                + toM (ssNStates N cvals lvals) (ssNInputs N lvals) m.B *ᵥ u
    let P := sampleNet N cvals lvals (ssSources N lvals) (List.ofFn u) (List.ofFn xdot)
    CircuitEqs P (P.reportOf (List.ofFn y)) := by
  intro y xdot P
  have := (model_sample_system id hD hm hc x u).1
  rw [ssAtilde_id] at this
  exact sample_circuit_of_system h hD y xdot u this

end main
end CC
