/-
  CC.Num — the executable number system of the driver: Gaussian rationals over core `Rat`.

  Model files are Mathlib-free and generic over a type `K` carrying only the notation
  classes `Zero One Add Mul Neg Sub Inv Div` (all in Lean core).  The theorems
  (CC/Proofs, CC/Properties) instantiate `K` with an arbitrary Mathlib `Field`; the
  driver instantiates `K := GQ`.  `CC/Proofs/GQField.lean` proves that `GQ` with the
  operations below *is* a field, so every theorem applies to what the driver computes.
-/
namespace CC

/-- Gaussian rational `re + j·im`. -/
structure GQ where
  re : Rat
  im : Rat
deriving DecidableEq, Repr, Inhabited

namespace GQ

instance : Zero GQ := ⟨⟨0, 0⟩⟩
instance : One GQ := ⟨⟨1, 0⟩⟩
instance : Add GQ := ⟨fun a b => ⟨a.re + b.re, a.im + b.im⟩⟩
instance : Neg GQ := ⟨fun a => ⟨-a.re, -a.im⟩⟩
instance : Sub GQ := ⟨fun a b => ⟨a.re - b.re, a.im - b.im⟩⟩
instance : Mul GQ := ⟨fun a b => ⟨a.re * b.re - a.im * b.im, a.re * b.im + a.im * b.re⟩⟩

/-- squared modulus -/
def normSq (a : GQ) : Rat := a.re * a.re + a.im * a.im

instance : Inv GQ := ⟨fun a => ⟨a.re / a.normSq, -a.im / a.normSq⟩⟩
instance : Div GQ := ⟨fun a b => a * b⁻¹⟩

def conj (a : GQ) : GQ := ⟨a.re, -a.im⟩
def ofRat (r : Rat) : GQ := ⟨r, 0⟩
def ofInt (n : Int) : GQ := ⟨(n : Rat), 0⟩
/-- the imaginary unit -/
def j : GQ := ⟨0, 1⟩

instance : OfNat GQ n := ⟨⟨(n : Rat), 0⟩⟩

theorem zero_def : (0 : GQ) = ⟨0, 0⟩ := rfl
theorem one_def : (1 : GQ) = ⟨1, 0⟩ := rfl
theorem add_def (a b : GQ) : a + b = ⟨a.re + b.re, a.im + b.im⟩ := rfl
theorem neg_def (a : GQ) : -a = ⟨-a.re, -a.im⟩ := rfl
theorem sub_def (a b : GQ) : a - b = ⟨a.re - b.re, a.im - b.im⟩ := rfl
theorem mul_def (a b : GQ) :
    a * b = ⟨a.re * b.re - a.im * b.im, a.re * b.im + a.im * b.re⟩ := rfl
theorem inv_def (a : GQ) : a⁻¹ = ⟨a.re / a.normSq, -a.im / a.normSq⟩ := rfl
theorem div_def (a b : GQ) : a / b = a * b⁻¹ := rfl

end GQ

/-- Notation-class bundle used by every model file (`variable [CC.Arith K]` would hide
the individual instances from Mathlib's `Field`, so models list the classes explicitly;
this abbreviation only documents the list). -/
abbrev ArithDoc := "Zero One Add Mul Neg Sub Inv Div DecidableEq"

end CC
