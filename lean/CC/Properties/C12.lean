/-
  C12 — transient simulation solves the circuit's differential equations.

  The theorems are algebraic: they hold for EVERY state sample `x` and input sample `u`, hence
  for every integrator (`scipy.signal.lsim` is a parameter of the model and stays in the
  trusted base).
    C12_sample_equations   y = C x + D u solves the nodal system with the reactive elements
                           replaced by sources of strength Λ·ẋ, ẋ := A x + B u (capacitor
                           current C·v̇, inductor voltage L·i̇) — for the executable model;
    C12_state_is_output    x = DQᵀ y: every state is read back from the outputs;
    C12_settle_dc          ẋ = 0 ⇒ outputs = DC solution Ãinv·(QS u);
    C12_rest               the initial state handed to the integrator is the zero vector of the state dimension;
    C12_rest_output        (a lemma about `dotL`) zero state and zero input give zero output, whatever the rows;
    C12_input_order        row k of `_u` is the waveform supplied for `sources[k]`;
    C12_output_sample      sample t of an output is row_c·x_t + row_d·u_t.
    C12_sample_rhs         the right-hand side of the per-sample network (capacitor k ↦ current source
                           C_k·ẋ_k, inductor k ↦ voltage source L_k·ẋ_k, sources at u) IS the model's
                           QS·u + DQ·Λ·ẋ (CC/Proofs/StateRhs.lean);
    C12_sample_circuit     hence (same nodal matrix + C01_sound) for EVERY x, u the outputs y = C x + D u
                           of the executable model satisfy the circuit equations of that network:
    C12_kcl_sample         Kirchhoff's current law at every node at every sample,
    C12_element_laws       every element law (capacitor i = C·v̇, inductor v = L·i̇ with ẋ = A x + B u,
                           resistors, sources = their waveforms), and KVL / reference (C12_kvl_sample);
    C12_frequency_response the frequency response of the model (A, B, C, D) at any s is the phasor solution at s —
                           this IS C10_transfer (same statement); `C12_periodic_steady` is kept as an alias.
  NOT theorems (listed as open, decided per instance by the oracle only):
    * the output ROWS (get_voltage / get_current rows) = the report read from y — C10_output_rows_statement;
    * "agrees with the exact response of the linear system for piecewise-linear inputs": `lsim` is a parameter of the
      model (trusted base); oracle = independent matrix-exponential reference on every case;
    * "for constant inputs they settle to the DC solution": `C12_settle_dc` is only the fixed-point identity (ẋ = 0 ⇒
      outputs = DC solution); convergence needs Re λ < 0 (C11 proves ≤ 0) and the flow; oracle = settle stream;
    * "for periodic inputs they settle to the multi-frequency steady state of C09": `C12_frequency_response` is the
      frequency response only, not convergence of the simulation to it; oracle = periodic-steady-state stream.
-/
import CC.Proofs.StatePhasor

set_option linter.unusedSectionVars false

namespace CC
open Matrix Mx

section
variable {L K : Type} [DecidableEq L] [LabelOrd L] [Field K] [DecidableEq K]

/-- per-sample equations of the executable model -/
theorem C12_sample_equations (re : K → K) {N : Net L K} {cvals lvals : ValDict K}
    {Ainv S Delta : List (List K)} {m : SSMats K} (hD : ssDelta N cvals = .ok Delta)
    (hm : stateSpaceMatrices N cvals lvals Ainv S = .ok m)
    (hc : ModelCert re N cvals lvals Ainv S Delta)
    (x : Fin (ssNStates N cvals lvals) → K) (u : Fin (ssNInputs N lvals) → K) :
    let ny := N.nY; let ns := ssNStates N cvals lvals; let nu := ssNInputs N lvals
    let y := toM ny ns m.C *ᵥ x + toM ny nu m.D *ᵥ u
    let xdot := toM ns ns m.A *ᵥ x + toM ns nu m.B *ᵥ u
    toM ny ny (ssAtilde re N) *ᵥ y
        = toM ny nu (ssQS N lvals) *ᵥ u
          + toM ny ns (ssDQ N cvals lvals Delta) *ᵥ
              ((diagonal fun i : Fin ns => (ssLambda cvals lvals).getD i 0) *ᵥ xdot) :=
  (model_sample_system re hD hm hc x u).1

/-- the states are outputs: `x = DQᵀ (C x + D u)` -/
theorem C12_state_is_output (re : K → K) {N : Net L K} {cvals lvals : ValDict K}
    {Ainv S Delta : List (List K)} {m : SSMats K} (hD : ssDelta N cvals = .ok Delta)
    (hm : stateSpaceMatrices N cvals lvals Ainv S = .ok m)
    (hc : ModelCert re N cvals lvals Ainv S Delta)
    (x : Fin (ssNStates N cvals lvals) → K) (u : Fin (ssNInputs N lvals) → K) :
    (toM N.nY (ssNStates N cvals lvals) (ssDQ N cvals lvals Delta))ᵀ
        *ᵥ (toM N.nY (ssNStates N cvals lvals) m.C *ᵥ x + toM N.nY (ssNInputs N lvals) m.D *ᵥ u) = x :=
  (model_sample_system re hD hm hc x u).2

/-- settling: at a rest point the outputs are the DC solution of the nodal system -/
theorem C12_settle_dc (re : K → K) {N : Net L K} {cvals lvals : ValDict K}
    {Ainv S Delta : List (List K)} {m : SSMats K} (hD : ssDelta N cvals = .ok Delta)
    (hm : stateSpaceMatrices N cvals lvals Ainv S = .ok m)
    (hc : ModelCert re N cvals lvals Ainv S Delta)
    (x : Fin (ssNStates N cvals lvals) → K) (u : Fin (ssNInputs N lvals) → K)
    (hx : toM (ssNStates N cvals lvals) (ssNStates N cvals lvals) m.A *ᵥ x
            + toM (ssNStates N cvals lvals) (ssNInputs N lvals) m.B *ᵥ u = 0) :
    toM N.nY (ssNStates N cvals lvals) m.C *ᵥ x + toM N.nY (ssNInputs N lvals) m.D *ᵥ u
      = toM N.nY N.nY Ainv *ᵥ (toM N.nY (ssNInputs N lvals) (ssQS N lvals) *ᵥ u) :=
  model_dc_gain re hD hm hc x u hx

/-- the state handed to the integrator is the zero vector of the state dimension -/
theorem C12_rest (n : Nat) : (transientX0 n : List K) = List.replicate n 0 := rfl

/-- a lemma about `dotL`: zero state and zero input give zero output, whatever the rows -/
theorem C12_rest_output (rc rd : List K) (ns nu : Nat) :
    dotL rc (Mx.zeroVec ns : List K) + dotL rd (Mx.zeroVec nu : List K) = 0 := by
  rw [dotL_zero_right, dotL_zero_right, add_zero]

/-- row `k` of `_u` is the waveform supplied for `sources[k]` (and a missing one is an error) -/
theorem C12_input_order {sources : List String} {input : String → Option (List K)} {U : List (List K)}
    (h : transientU sources input = .ok U) : U.map some = sources.map input :=
  transientU_ok h

/-- sample `t` of a reported series is `row_c·x_t + row_d·u_t` -/
theorem C12_output_sample (nS : Nat) (rc rd : List K) (X U : List (List K)) (t : Nat) (ht : t < nS) :
    (transientOutput nS rc rd X U).getD t 0 = dotL rc (sampleCol X t) + dotL rd (sampleCol U t) :=
  transientOutput_get nS rc rd X U t ht

end

/-! ### the per-sample circuit -/

section
variable {L K : Type} [DecidableEq L] [LabelOrd L] [Field K] [DecidableEq K]

/-- the right-hand side of the per-sample network is the model's `QS·u + DQ·(Λ·ẋ)` -/
theorem C12_sample_rhs {N : Net L K} {cvals lvals : ValDict K} {Delta : List (List K)} (h : RLC N cvals lvals)
    (hD : ssDelta N cvals = .ok Delta) (u xdot : List K)
    (hu : u.length = ssNInputs N lvals) (hx : xdot.length = ssNStates N cvals lvals) :
    (sampleNet N cvals lvals (ssSources N lvals) u xdot).mnaB
      = Mx.vecAdd (matVec (ssQS N lvals) u)
          (matVec (ssDQ N cvals lvals Delta) (List.zipWith (· * ·) (ssLambda cvals lvals) xdot)) :=
  sample_rhs h hD u xdot hu hx

/-- **Every sample solves the circuit.**  For the `w = 0` network of an RLC + ideal-source circuit,
the model's matrices (any certificates) and ANY state `x` and input `u` — hence for every integrator —
the reported potentials, voltages and currents (`y = C x + D u` read through the accessors) satisfy
the circuit equations of the circuit at that sample: capacitor `k` carries `C_k·ẋ_k`, inductor `k`
has the voltage `L_k·ẋ_k` with `ẋ = A x + B u`, every source has its instantaneous value `u`. -/
theorem C12_sample_circuit {N : Net L K} {cvals lvals : ValDict K} {Ainv S Delta : List (List K)}
    {m : SSMats K} (h : RLC N cvals lvals) (hD : ssDelta N cvals = .ok Delta)
    (hm : stateSpaceMatrices N cvals lvals Ainv S = .ok m)
    (hc : ModelCert id N cvals lvals Ainv S Delta)
    (x : Fin (ssNStates N cvals lvals) → K) (u : Fin (ssNInputs N lvals) → K) :
    let y := toM N.nY (ssNStates N cvals lvals) m.C *ᵥ x + toM N.nY (ssNInputs N lvals) m.D *ᵥ u
    let xdot := toM (ssNStates N cvals lvals) (ssNStates N cvals lvals) m.A *ᵥ x
                + toM (ssNStates N cvals lvals) (ssNInputs N lvals) m.B *ᵥ u
    let P := sampleNet N cvals lvals (ssSources N lvals) (List.ofFn u) (List.ofFn xdot)
    CircuitEqs P (P.reportOf (List.ofFn y)) :=
  model_sample_circuit h hD hm hc x u

/-- Kirchhoff's current law at every node (reference included), every sample -/
theorem C12_kcl_sample {N : Net L K} {cvals lvals : ValDict K} {Ainv S Delta : List (List K)}
    {m : SSMats K} (h : RLC N cvals lvals) (hD : ssDelta N cvals = .ok Delta)
    (hm : stateSpaceMatrices N cvals lvals Ainv S = .ok m)
    (hc : ModelCert id N cvals lvals Ainv S Delta)
    (x : Fin (ssNStates N cvals lvals) → K) (u : Fin (ssNInputs N lvals) → K) :
    let y := toM N.nY (ssNStates N cvals lvals) m.C *ᵥ x + toM N.nY (ssNInputs N lvals) m.D *ᵥ u
    let xdot := toM (ssNStates N cvals lvals) (ssNStates N cvals lvals) m.A *ᵥ x
                + toM (ssNStates N cvals lvals) (ssNInputs N lvals) m.B *ᵥ u
    let P := sampleNet N cvals lvals (ssSources N lvals) (List.ofFn u) (List.ofFn xdot)
    ∀ n ∈ P.allLabels, kclResidual P (P.reportOf (List.ofFn y)) n = 0 :=
  (model_sample_circuit h hD hm hc x u).kcl

/-- every element law, every sample: resistor `v = R·i`, source = its waveform, capacitor
`i = C·ẋ_k`, inductor `v = L·ẋ_k` -/
theorem C12_element_laws {N : Net L K} {cvals lvals : ValDict K} {Ainv S Delta : List (List K)}
    {m : SSMats K} (h : RLC N cvals lvals) (hD : ssDelta N cvals = .ok Delta)
    (hm : stateSpaceMatrices N cvals lvals Ainv S = .ok m)
    (hc : ModelCert id N cvals lvals Ainv S Delta)
    (x : Fin (ssNStates N cvals lvals) → K) (u : Fin (ssNInputs N lvals) → K) :
    let y := toM N.nY (ssNStates N cvals lvals) m.C *ᵥ x + toM N.nY (ssNInputs N lvals) m.D *ᵥ u
    let xdot := toM (ssNStates N cvals lvals) (ssNStates N cvals lvals) m.A *ᵥ x
                + toM (ssNStates N cvals lvals) (ssNInputs N lvals) m.B *ᵥ u
    let P := sampleNet N cvals lvals (ssSources N lvals) (List.ofFn u) (List.ofFn xdot)
    ∀ b ∈ P.branches, b.e.lawResidual ((P.reportOf (List.ofFn y)).v b.id) ((P.reportOf (List.ofFn y)).i b.id) = 0 :=
  (model_sample_circuit h hD hm hc x u).law

/-- Kirchhoff's voltage law and the reference potential, every sample -/
theorem C12_kvl_sample {N : Net L K} {cvals lvals : ValDict K} {Ainv S Delta : List (List K)}
    {m : SSMats K} (h : RLC N cvals lvals) (hD : ssDelta N cvals = .ok Delta)
    (hm : stateSpaceMatrices N cvals lvals Ainv S = .ok m)
    (hc : ModelCert id N cvals lvals Ainv S Delta)
    (x : Fin (ssNStates N cvals lvals) → K) (u : Fin (ssNInputs N lvals) → K) :
    let y := toM N.nY (ssNStates N cvals lvals) m.C *ᵥ x + toM N.nY (ssNInputs N lvals) m.D *ᵥ u
    let xdot := toM (ssNStates N cvals lvals) (ssNStates N cvals lvals) m.A *ᵥ x
                + toM (ssNStates N cvals lvals) (ssNInputs N lvals) m.B *ᵥ u
    let P := sampleNet N cvals lvals (ssSources N lvals) (List.ofFn u) (List.ofFn xdot)
    (P.reportOf (List.ofFn y)).pot P.zero = 0 ∧ ∀ b ∈ P.branches, voltResidual (P.reportOf (List.ofFn y)) b = 0 :=
  ⟨(model_sample_circuit h hD hm hc x u).ref_zero, (model_sample_circuit h hD hm hc x u).volt⟩

/-- frequency response: at every complex frequency `s` — each harmonic `j·k·w₀` of a periodic excitation — the
response of the model `(A, B, C, D)` is the phasor solution at `s`.  This is `C10_transfer` verbatim; it says nothing
about the SIMULATION converging to that steady state (open, oracle only). -/
theorem C12_frequency_response {N : Net L K} {cvals lvals : ValDict K} {Ainv S Delta : List (List K)}
    {m : SSMats K} (h : RLC N cvals lvals) (hD : ssDelta N cvals = .ok Delta)
    (hm : stateSpaceMatrices N cvals lvals Ainv S = .ok m)
    (hc : ModelCert id N cvals lvals Ainv S Delta)
    (s : K) (x : Fin (ssNStates N cvals lvals) → K) (u : Fin (ssNInputs N lvals) → K)
    (hx : s • x = toM _ _ m.A *ᵥ x + toM _ _ m.B *ᵥ u) :
    let y := toM N.nY (ssNStates N cvals lvals) m.C *ᵥ x + toM N.nY (ssNInputs N lvals) m.D *ᵥ u
    let P := sampleNet N cvals lvals (ssSources N lvals) (List.ofFn u) (List.ofFn (s • x))
    CircuitEqs (phasorNet N cvals lvals (ssSources N lvals) (List.ofFn u) s) (P.reportOf (List.ofFn y)) :=
  model_transfer h hD hm hc s x u hx

/-- alias kept for `C05_periodic_steady` (CC/Properties/C05Compose.lean) -/
theorem C12_periodic_steady {N : Net L K} {cvals lvals : ValDict K} {Ainv S Delta : List (List K)}
    {m : SSMats K} (h : RLC N cvals lvals) (hD : ssDelta N cvals = .ok Delta)
    (hm : stateSpaceMatrices N cvals lvals Ainv S = .ok m)
    (hc : ModelCert id N cvals lvals Ainv S Delta)
    (s : K) (x : Fin (ssNStates N cvals lvals) → K) (u : Fin (ssNInputs N lvals) → K)
    (hx : s • x = toM _ _ m.A *ᵥ x + toM _ _ m.B *ᵥ u) :
    let y := toM N.nY (ssNStates N cvals lvals) m.C *ᵥ x + toM N.nY (ssNInputs N lvals) m.D *ᵥ u
    let P := sampleNet N cvals lvals (ssSources N lvals) (List.ofFn u) (List.ofFn (s • x))
    CircuitEqs (phasorNet N cvals lvals (ssSources N lvals) (List.ofFn u) s) (P.reportOf (List.ofFn y)) :=
  C12_frequency_response h hD hm hc s x u hx

end

end CC
