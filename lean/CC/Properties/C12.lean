/-
  C12 — transient simulation solves the circuit's differential equations.

  The theorems are algebraic: they hold for EVERY state sample `x` and input sample `u`, hence
  for every integrator (`scipy.signal.lsim` is a parameter of the model and stays in the
  trusted base).
    C12_sample_equations   y = C x + D u solves the nodal system with the reactive elements
                           replaced by sources of strength Λ·ẋ, ẋ := A x + B u (capacitor
                           current C·v̇, inductor voltage L·i̇) — for the executable model;
    C12_state_is_output    x = DQᵀ y: every state is read back from the outputs;
    C12_settle_dc          ẋ = 0 ⇒ outputs = DC solution Ãinv·(QS u);
    C12_rest, C12_rest_output   initial state zero; zero state and zero input give zero output;
    C12_input_order        row k of `_u` is the waveform supplied for `sources[k]`;
    C12_output_sample      sample t of an output is row_c·x_t + row_d·u_t.
    C12_sample_is_circuit  the per-sample network (capacitor k ↦ current source C_k·ẋ_k, inductor
                           k ↦ voltage source L_k·ẋ_k, sources at u) has the same nodal matrix as the
                           w = 0 network, so by C01_sound every y with Ã y = mnaB(sampleNet) reports
                           values that satisfy KCL at every node, KVL and every element law;
    C12_kcl_sample_of_rhs, C12_element_laws_of_rhs   its KCL / element-law projections.
  Open: C12_sample_rhs_statement (the right-hand side of the sample network IS the model's
  QS·u + DQ·Λ·ẋ — index bookkeeping; with it C12_sample_equations + C12_sample_is_circuit give)
  C12_kcl_sample_statement, C12_element_laws_statement; C12_periodic_steady_statement.
-/
import CC.Proofs.StateModel
import CC.Spec.StateSpace
import CC.Properties.C10
import CC.Proofs.StateCircuit

set_option linter.unusedSectionVars false

namespace CC
open Matrix Mx

section
variable {L K : Type} [DecidableEq L] [LabelOrd L] [Field K] [DecidableEq K]

/-- per-sample equations of the executable model -/
theorem C12_sample_equations (re : K → K) {N : Net L K} {cvals lvals : ValDict K}
    {Ainv S Delta : List (List K)} {m : SSMats K} (hD : ssDelta N cvals = .ok Delta)
    (hm : stateSpaceMatrices N cvals lvals Ainv S = .ok m)
    (hc : ModelCert re N cvals lvals Ainv S Delta)
    (x : Fin (ssNStates N cvals lvals) → K) (u : Fin (ssNInputs N lvals) → K) :
    let ny := N.nY; let ns := ssNStates N cvals lvals; let nu := ssNInputs N lvals
    let y := toM ny ns m.C *ᵥ x + toM ny nu m.D *ᵥ u
    let xdot := toM ns ns m.A *ᵥ x + toM ns nu m.B *ᵥ u
    toM ny ny (ssAtilde re N) *ᵥ y
        = toM ny nu (ssQS N lvals) *ᵥ u
          + toM ny ns (ssDQ N cvals lvals Delta) *ᵥ
              ((diagonal fun i : Fin ns => (ssLambda cvals lvals).getD i 0) *ᵥ xdot) :=
  (model_sample_system re hD hm hc x u).1

/-- the states are outputs: `x = DQᵀ (C x + D u)` -/
theorem C12_state_is_output (re : K → K) {N : Net L K} {cvals lvals : ValDict K}
    {Ainv S Delta : List (List K)} {m : SSMats K} (hD : ssDelta N cvals = .ok Delta)
    (hm : stateSpaceMatrices N cvals lvals Ainv S = .ok m)
    (hc : ModelCert re N cvals lvals Ainv S Delta)
    (x : Fin (ssNStates N cvals lvals) → K) (u : Fin (ssNInputs N lvals) → K) :
    (toM N.nY (ssNStates N cvals lvals) (ssDQ N cvals lvals Delta))ᵀ
        *ᵥ (toM N.nY (ssNStates N cvals lvals) m.C *ᵥ x + toM N.nY (ssNInputs N lvals) m.D *ᵥ u) = x :=
  (model_sample_system re hD hm hc x u).2

/-- settling: at a rest point the outputs are the DC solution of the nodal system -/
theorem C12_settle_dc (re : K → K) {N : Net L K} {cvals lvals : ValDict K}
    {Ainv S Delta : List (List K)} {m : SSMats K} (hD : ssDelta N cvals = .ok Delta)
    (hm : stateSpaceMatrices N cvals lvals Ainv S = .ok m)
    (hc : ModelCert re N cvals lvals Ainv S Delta)
    (x : Fin (ssNStates N cvals lvals) → K) (u : Fin (ssNInputs N lvals) → K)
    (hx : toM (ssNStates N cvals lvals) (ssNStates N cvals lvals) m.A *ᵥ x
            + toM (ssNStates N cvals lvals) (ssNInputs N lvals) m.B *ᵥ u = 0) :
    toM N.nY (ssNStates N cvals lvals) m.C *ᵥ x + toM N.nY (ssNInputs N lvals) m.D *ᵥ u
      = toM N.nY N.nY Ainv *ᵥ (toM N.nY (ssNInputs N lvals) (ssQS N lvals) *ᵥ u) :=
  model_dc_gain re hD hm hc x u hx

/-- the state handed to the integrator is zero -/
theorem C12_rest (n k : Nat) : (transientX0 n : List K).getD k 0 = 0 := by
  simp [transientX0, Mx.zeroVec, List.getD_eq_getElem?_getD, List.getElem?_replicate]
  split <;> rfl

/-- zero state and zero input give zero output, whatever the rows -/
theorem C12_rest_output (rc rd : List K) (ns nu : Nat) :
    dotL rc (Mx.zeroVec ns : List K) + dotL rd (Mx.zeroVec nu : List K) = 0 := by
  rw [dotL_zero_right, dotL_zero_right, add_zero]

/-- row `k` of `_u` is the waveform supplied for `sources[k]` (and a missing one is an error) -/
theorem C12_input_order {sources : List String} {input : String → Option (List K)} {U : List (List K)}
    (h : transientU sources input = .ok U) : U.map some = sources.map input :=
  transientU_ok h

/-- sample `t` of a reported series is `row_c·x_t + row_d·u_t` -/
theorem C12_output_sample (nS : Nat) (rc rd : List K) (X U : List (List K)) (t : Nat) (ht : t < nS) :
    (transientOutput nS rc rd X U).getD t 0 = dotL rc (sampleCol X t) + dotL rd (sampleCol U t) :=
  transientOutput_get nS rc rd X U t ht

end

/-! ### the per-sample network is solved (C01 applied to the substituted network) -/

section
variable {L K : Type} [DecidableEq L] [LabelOrd L] [Field K] [DecidableEq K]

/-- For the `w = 0` network of an RLC circuit (distinct ids, no self-loops, capacitors open,
inductors shorted): any `y` with `Ã y = mnaB (sampleNet … u ẋ)` reports a solution of the circuit
equations of the sample network — reference at zero, voltages = potential differences, every
element law (capacitor current `C_k·ẋ_k`, inductor voltage `L_k·ẋ_k`, sources at `u`, resistors),
Kirchhoff's current law at every node. -/
theorem C12_sample_is_circuit (N : Net L K) (cvals lvals : ValDict K) (sources : List String)
    (u xdot y : List K) (wf : N.WF) (hp : ReactivePlaceholders N cvals lvals)
    (hy : y.length = N.nodes.length + N.vsIds.length)
    (h : matVec N.mnaA y = (sampleNet N cvals lvals sources u xdot).mnaB) :
    CircuitEqs (sampleNet N cvals lvals sources u xdot) ((sampleNet N cvals lvals sources u xdot).reportOf y) :=
  sample_is_circuit N cvals lvals sources u xdot y wf hp hy h

theorem C12_kcl_sample_of_rhs (N : Net L K) (cvals lvals : ValDict K) (sources : List String)
    (u xdot y : List K) (wf : N.WF) (hp : ReactivePlaceholders N cvals lvals)
    (hy : y.length = N.nodes.length + N.vsIds.length)
    (h : matVec N.mnaA y = (sampleNet N cvals lvals sources u xdot).mnaB) :
    ∀ n ∈ (sampleNet N cvals lvals sources u xdot).allLabels,
      kclResidual (sampleNet N cvals lvals sources u xdot)
        ((sampleNet N cvals lvals sources u xdot).reportOf y) n = 0 :=
  (C12_sample_is_circuit N cvals lvals sources u xdot y wf hp hy h).kcl

theorem C12_element_laws_of_rhs (N : Net L K) (cvals lvals : ValDict K) (sources : List String)
    (u xdot y : List K) (wf : N.WF) (hp : ReactivePlaceholders N cvals lvals)
    (hy : y.length = N.nodes.length + N.vsIds.length)
    (h : matVec N.mnaA y = (sampleNet N cvals lvals sources u xdot).mnaB) :
    ∀ b ∈ (sampleNet N cvals lvals sources u xdot).branches,
      b.e.lawResidual (((sampleNet N cvals lvals sources u xdot).reportOf y).v b.id)
        (((sampleNet N cvals lvals sources u xdot).reportOf y).i b.id) = 0 :=
  (C12_sample_is_circuit N cvals lvals sources u xdot y wf hp hy h).law

end

/-- OPEN (index bookkeeping only).  The right-hand side of the sample network is the model's
`QS·u + DQ·Λ·ẋ`: node rows collect the source currents `u_k` and the capacitor currents
`C_k·ẋ_k` with the signs of `source_incidence_matrix` / `Delta`, voltage-source rows carry the
source voltages `u_k` and the inductor voltages `L_k·ẋ_k`. -/
def C12_sample_rhs_statement : Prop :=
  ∀ (K : Type) [Field K] [DecidableEq K] (N : Net String K) (cvals lvals : ValDict K)
    (Delta : List (List K)) (u xdot : List K),
    RLCSetting N cvals lvals → ssDelta N cvals = .ok Delta →
    u.length = ssNInputs N lvals → xdot.length = ssNStates N cvals lvals →
    (sampleNet N cvals lvals (ssSources N lvals) u xdot).mnaB
      = Mx.vecAdd (matVec (ssQS N lvals) u)
          (matVec (ssDQ N cvals lvals Delta) (List.zipWith (· * ·) (ssLambda cvals lvals) xdot))

/-! ### open statements -/

/-- the circuit equations of the network at one sample, for the values the output rows report -/
def sampleEqs {K : Type} [Field K] [DecidableEq K] (N : Net String K) (cvals lvals : ValDict K)
    (m : SSMats K) (x u : List K) : Prop :=
  let xdot := Mx.vecAdd (matVec m.A x) (matVec m.B u)
  let P := sampleNet N cvals lvals (ssSources N lvals) u xdot
  CircuitEqs P (reportOf N P (Mx.vecAdd (matVec m.C x) (matVec m.D u)))

/-- OPEN.  At every sample — for every state `x` and input `u` — the reported potentials,
voltages and currents satisfy Kirchhoff's current law at every node of the circuit in which
capacitor `k` carries `C_k·ẋ_k` and inductor `k` has the voltage `L_k·ẋ_k`. -/
def C12_kcl_sample_statement : Prop :=
  ∀ (K : Type) [Field K] [DecidableEq K] (N : Net String K) (cvals lvals : ValDict K)
    (Ainv S Delta : List (List K)) (m : SSMats K) (x u : List K),
    RLCSetting N cvals lvals → ssDelta N cvals = .ok Delta →
    stateSpaceMatrices N cvals lvals Ainv S = .ok m → ModelCert id N cvals lvals Ainv S Delta →
    x.length = ssNStates N cvals lvals → u.length = ssNInputs N lvals →
    ∀ n ∈ N.allLabels,
      let xdot := Mx.vecAdd (matVec m.A x) (matVec m.B u)
      let P := sampleNet N cvals lvals (ssSources N lvals) u xdot
      kclResidual P (reportOf N P (Mx.vecAdd (matVec m.C x) (matVec m.D u))) n = 0

/-- OPEN.  … and every element obeys its own law at every sample (resistors, sources; capacitor
current `C·v̇`, inductor voltage `L·i̇` with `ẋ = A x + B u`). -/
def C12_element_laws_statement : Prop :=
  ∀ (K : Type) [Field K] [DecidableEq K] (N : Net String K) (cvals lvals : ValDict K)
    (Ainv S Delta : List (List K)) (m : SSMats K) (x u : List K),
    RLCSetting N cvals lvals → ssDelta N cvals = .ok Delta →
    stateSpaceMatrices N cvals lvals Ainv S = .ok m → ModelCert id N cvals lvals Ainv S Delta →
    x.length = ssNStates N cvals lvals → u.length = ssNInputs N lvals →
    sampleEqs N cvals lvals m x u

/-- OPEN.  Periodic steady state: the frequency response of the simulated system at each
harmonic `s = j·k·w₀` is the phasor solution at that frequency — C10's transfer statement. -/
def C12_periodic_steady_statement : Prop := C10_transfer_statement

end CC
