/-
  Property C06, round 5b — the equivalent-source statement with an EXPLICIT equivalent network.

  `C06_thevenin_record_terminal` / `C06_norton_record_terminal` (CC/Properties/C06Equiv.lean) state the
  equivalence as equality of terminal characteristics (`V = U − Z·J`, `J = I − Y·V`).  Here the equivalent source
  is built as a NETWORK in the Spec vocabulary (CC/Spec/Circuit.lean, Port.lean):

    thevNet a b m sid zid U Z   ideal voltage source `U` (branch `sid`, from the internal node `m` to `b`) in series
                                with the impedance `Z` (branch `zid`, from `a` to `m`), reference node `b`;
    nortNet a b iid yid I Y     ideal current source `I` (branch `iid`, driving from `b` to `a`) in parallel with the
                                admittance `Y` (branch `yid`, from `a` to `b`), reference node `b`;

  and the property's own sentence is proved: for ANY load branch `x` attached across the port, the load's voltage,
  the load's current and the port voltage in `N + x` equal those in `thevNet(U, Z) + x` (resp. `nortNet(I, Y) + x`),
  where `⟨U, Z⟩` / `⟨I, Y⟩` are the records the model of `TheveninEquivalentSource` / `NortenEquivalentSource`
  returns.

    C06_thevNet_wellPosed_iff     `thevNet(U, Z) + x` is well-posed  ⇔  `seriesDet Z x ≠ 0`
                                   (`Z + Z_x ≠ 0` for an impedance / voltage-source load, `1 + Z·Y_x ≠ 0` for an
                                   admittance / current-source load) — the exact condition;
    C06_nortNet_wellPosed_iff     `nortNet(I, Y) + x` is well-posed  ⇔  `parallelDet Y x ≠ 0`;
    C06_thevenin_network_spec     Spec level (no matrices): `U` the open-circuit port voltage, `Z` the `PortZ`;
    C06_thevenin_replace          model level: `⟨U, Z⟩ = theveninEquivalent`;
    C06_norton_replace            model level: `⟨I, Y⟩ = nortonEquivalent`;
    C06_thevenin_replace_exists / C06_norton_replace_exists
                                   every solution of `N + x` yields a solution of the equivalent network `+ x` with
                                   the same load quantities (no determinant condition needed).
-/
import CC.Properties.C06Equiv
set_option linter.unusedSectionVars false
set_option linter.unusedVariables false
set_option linter.unnecessarySeqFocus false

namespace CC
variable {L K : Type} [DecidableEq L] [LabelOrd L] [Field K] [DecidableEq K]

/-! ## the two equivalent networks -/

/-- the Thevenin equivalent as a network: ideal voltage source `U` from the internal node `m` to `b`, impedance `Z`
from `a` to `m`; reference node `b` -/
def thevNet (a b m : L) (sid zid : String) (U Z : K) : Net L K :=
  { branches := [⟨m, b, sid, "voltage_source", .norton 0 U⟩, ⟨a, m, zid, "impedance", .norton Z 0⟩], zero := b }

/-- the Norton equivalent as a network: ideal current source `I` driving from `b` to `a` through itself, admittance
`Y` from `a` to `b`; reference node `b` -/
def nortNet (a b : L) (iid yid : String) (I Y : K) : Net L K :=
  { branches := [⟨b, a, iid, "current_source", .thevenin 0 I⟩, ⟨a, b, yid, "admittance", .thevenin Y 0⟩], zero := b }

/-- determinant of "source impedance `Z` in series with the load": `Z + Z_x` for a load given by an impedance record
(impedance, short circuit, ideal or lossy voltage source), `1 + Z·Y_x` for an admittance record (admittance, open
circuit, ideal or lossy current source) -/
def Elem.seriesDet (Z : K) : Elem K → K
  | .norton Zx _ => Z + Zx
  | .thevenin Yx _ => 1 + Z * Yx

/-- determinant of "source admittance `Y` in parallel with the load" -/
def Elem.parallelDet (Y : K) : Elem K → K
  | .norton Zx _ => 1 + Y * Zx
  | .thevenin Yx _ => Y + Yx

/-! ## small lemmas on element laws -/

theorem law_zs_norton (Z V v i : K) : (Elem.norton Z V).zeroSources.lawResidual v i = 0 ↔ v = Z * i := by
  by_cases hZ : Z = 0 <;> simp [Elem.zeroSources, Elem.lawResidual, hZ, sub_eq_zero]

theorem law_zs_thevenin (Y I v i : K) : (Elem.thevenin Y I).zeroSources.lawResidual v i = 0 ↔ i = Y * v := by
  by_cases hY : Y = 0 <;> simp [Elem.zeroSources, Elem.lawResidual, hY, sub_eq_zero]

theorem law_norton_zero (Z v i : K) : (Elem.norton Z 0).lawResidual v i = 0 ↔ v = Z * i := by
  by_cases hZ : Z = 0 <;> simp [Elem.lawResidual, hZ, sub_eq_zero]

theorem law_thevenin_zero (Y v i : K) : (Elem.thevenin Y 0).lawResidual v i = 0 ↔ i = Y * v := by
  by_cases hY : Y = 0 <;> simp [Elem.lawResidual, hY, sub_eq_zero]

theorem phys_norton_zero (Z i : K) : (Elem.norton Z 0).physCurrent i = i := by
  by_cases hZ : Z = 0 <;> simp [Elem.physCurrent, Elem.isLossy, Elem.kind, hZ]

theorem phys_norton_ideal (V i : K) : (Elem.norton 0 V).physCurrent i = i := by
  simp [Elem.physCurrent, Elem.isLossy, Elem.kind]

theorem phys_thevenin_zero (Y i : K) : (Elem.thevenin Y 0).physCurrent i = i := by
  by_cases hY : Y = 0 <;> simp [Elem.physCurrent, Elem.isLossy, Elem.kind, hY]

theorem phys_thevenin_ideal (I i : K) : (Elem.thevenin 0 I).physCurrent i = i := by
  simp [Elem.physCurrent, Elem.isLossy, Elem.kind]

/-- the circuit equations of a three-branch network, written out -/
theorem eqs3_iff (b1 b2 b3 : Branch L K) (z : L) (R : Report L K) :
    CircuitEqs ⟨[b1, b2, b3], z⟩ R ↔
      R.pot z = 0 ∧
      (voltResidual R b1 = 0 ∧ voltResidual R b2 = 0 ∧ voltResidual R b3 = 0) ∧
      (b1.e.lawResidual (R.v b1.id) (R.i b1.id) = 0 ∧ b2.e.lawResidual (R.v b2.id) (R.i b2.id) = 0 ∧
        b3.e.lawResidual (R.v b3.id) (R.i b3.id) = 0) ∧
      ∀ n, incidence b1 n * b1.e.physCurrent (R.i b1.id) + incidence b2 n * b2.e.physCurrent (R.i b2.id)
          + incidence b3 n * b3.e.physCurrent (R.i b3.id) = 0 := by
  rw [← circuitEqsAll_iff]
  constructor
  · intro h
    refine ⟨h.ref_zero, ⟨h.volt b1 (by simp), h.volt b2 (by simp), h.volt b3 (by simp)⟩,
      ⟨h.law b1 (by simp), h.law b2 (by simp), h.law b3 (by simp)⟩, fun n => ?_⟩
    have := h.kcl n
    simp only [kclResidual, List.map_cons, List.map_nil, List.sum_cons, List.sum_nil, add_zero] at this
    linear_combination this
  · rintro ⟨h0, ⟨v1, v2, v3⟩, ⟨l1, l2, l3⟩, hk⟩
    refine ⟨h0, ?_, ?_, fun n => ?_⟩
    · intro b hb
      simp only [List.mem_cons, List.not_mem_nil, or_false] at hb
      rcases hb with rfl | rfl | rfl <;> assumption
    · intro b hb
      simp only [List.mem_cons, List.not_mem_nil, or_false] at hb
      rcases hb with rfl | rfl | rfl <;> assumption
    · simp only [kclResidual, List.map_cons, List.map_nil, List.sum_cons, List.sum_nil, add_zero]
      linear_combination hk n

/-! ## well-posedness of the loaded equivalent networks: the exact condition -/

/-- **C06 (the loaded Thevenin network is well-posed when `seriesDet ≠ 0`).** -/
theorem thevNet_attach_wellPosed (a b m : L) (sid zid : String) (U Z : K) (x : Branch L K)
    (hx1 : x.n1 = a) (hx2 : x.n2 = b) (hab : a ≠ b) (hma : m ≠ a) (hmb : m ≠ b)
    (hdet : x.e.seriesDet Z ≠ 0) : WellPosed ((thevNet a b m sid zid U Z).attach x) := by
  obtain ⟨xa, xb, xid, xty, xe⟩ := x
  simp only at hx1 hx2 hdet
  subst hx1 hx2
  intro R hR
  have hR' : CircuitEqs ⟨[⟨m, xb, sid, "voltage_source", (Elem.norton 0 U).zeroSources⟩,
      ⟨xa, m, zid, "impedance", (Elem.norton Z 0).zeroSources⟩, ⟨xa, xb, xid, xty, xe.zeroSources⟩], xb⟩ R := hR
  rw [eqs3_iff] at hR'
  obtain ⟨h0, ⟨v1, v2, v3⟩, ⟨l1, l2, l3⟩, hk⟩ := hR'
  have km := hk m
  have ka := hk xa
  have ham : xa ≠ m := fun e => hma e.symm
  have hbm : xb ≠ m := fun e => hmb e.symm
  have hba : xb ≠ xa := fun e => hab e.symm
  simp only [zs_not_lossy, incidence, if_true, hma, ham, hbm, hba, if_false] at km ka
  simp only [voltResidual] at v1 v2 v3
  rw [law_zs_norton] at l1 l2
  simp only at l1 l2 l3
  -- i_x = 0
  have hix : R.i xid = 0 := by
    cases xe with
    | norton Zx Vx =>
      rw [law_zs_norton] at l3
      simp only [Elem.seriesDet] at hdet
      have : (Z + Zx) * R.i xid = 0 := by
        linear_combination v3 - v2 - v1 + l1 + l2 - l3 + Z * ka
      rcases mul_eq_zero.mp this with h | h
      · exact absurd h hdet
      · exact h
    | thevenin Yx Ix =>
      rw [law_zs_thevenin] at l3
      simp only [Elem.seriesDet] at hdet
      have : (1 + Z * Yx) * R.i xid = 0 := by
        linear_combination l3 + Yx * (v3 - v2 - v1 + l1 + l2 + Z * ka)
      rcases mul_eq_zero.mp this with h | h
      · exact absurd h hdet
      · exact h
  have hiz : R.i zid = 0 := by linear_combination ka - hix
  have his : R.i sid = 0 := by linear_combination km + hiz
  have hvz : R.v zid = 0 := by rw [l2, hiz, mul_zero]
  have hvs : R.v sid = 0 := by rw [l1, his, mul_zero]
  have hpm : R.pot m = 0 := by linear_combination hvs - v1 + h0
  have hpa : R.pot xa = 0 := by linear_combination hvz - v2 + hpm
  have hvx : R.v xid = 0 := by linear_combination v3 + hpa - h0
  refine ⟨?_, ?_⟩
  · intro n hn
    simp only [Net.allLabels, thevNet, Net.attach, List.map_cons, List.map_nil, List.cons_append,
      List.nil_append, List.mem_cons, List.not_mem_nil, or_false] at hn
    rcases hn with rfl | rfl | rfl | rfl | rfl | rfl | rfl <;> simp [Report.zeroRep, *]
  · intro br hbr
    simp only [thevNet, Net.attach, List.cons_append, List.nil_append, List.mem_cons, List.not_mem_nil,
      or_false] at hbr
    rcases hbr with rfl | rfl | rfl <;> simp [Report.zeroRep, *]

/-! ## a solution of the loaded Thevenin network from the load's own voltage and current -/

/-- the report of `thevNet a b m sid zid U Z + x` in which the port voltage is `V`, the load `x` (id `xid`) has voltage
`vx`, reported current `ix` and physical current `J`: the whole current `−J` flows through source and impedance -/
def thevReport (a m : L) (sid zid xid : String) (U V J vx ix : K) : Report L K where
  pot := fun n => if n = a then V else if n = m then U else 0
  v := fun id => if id = xid then vx else if id = sid then U else if id = zid then V - U else 0
  i := fun id => if id = xid then ix else if id = sid then -J else if id = zid then -J else 0

theorem thevNet_attach_solves (a b m : L) (sid zid : String) (U Z : K) (x : Branch L K)
    (hx1 : x.n1 = a) (hx2 : x.n2 = b) (hab : a ≠ b) (hma : m ≠ a) (hmb : m ≠ b)
    (hsz : sid ≠ zid) (hxs : x.id ≠ sid) (hxz : x.id ≠ zid) (V vx ix : K) (hv : vx = V)
    (hlaw : x.e.lawResidual vx ix = 0) (hterm : V = U - Z * x.e.physCurrent ix) :
    CircuitEqs ((thevNet a b m sid zid U Z).attach x)
      (thevReport a m sid zid x.id U V (x.e.physCurrent ix) vx ix) := by
  obtain ⟨xa, xb, xid, xty, xe⟩ := x
  simp only at hx1 hx2 hxs hxz hlaw hterm
  subst hx1 hx2
  show CircuitEqs ⟨[⟨m, xb, sid, "voltage_source", Elem.norton 0 U⟩, ⟨xa, m, zid, "impedance", Elem.norton Z 0⟩,
    ⟨xa, xb, xid, xty, xe⟩], xb⟩ _
  have ham : xa ≠ m := fun e => hma e.symm
  have hbm : xb ≠ m := fun e => hmb e.symm
  have hba : xb ≠ xa := fun e => hab e.symm
  have hsx : sid ≠ xid := fun e => hxs e.symm
  have hzx : zid ≠ xid := fun e => hxz e.symm
  have hzs : zid ≠ sid := fun e => hsz e.symm
  rw [eqs3_iff]
  refine ⟨by simp [thevReport, hba, hbm], ⟨?_, ?_, ?_⟩, ⟨?_, ?_, ?_⟩, fun n => ?_⟩
  · simp [voltResidual, thevReport, hsx, hma, hba, hbm]
  · simp [voltResidual, thevReport, hzx, hzs, hma]
  · simp [voltResidual, thevReport, hba, hbm, hv]
  · simp [Elem.lawResidual, thevReport, hsx]
  · rw [law_norton_zero]
    simp only [thevReport, hzx, hzs, if_false, if_true]
    linear_combination hterm
  · simpa [thevReport] using hlaw
  · simp only [phys_norton_ideal, phys_norton_zero, thevReport, hsx, hzx, hzs, if_false, if_true, incidence]
    by_cases c1 : xa = n <;> by_cases c2 : xb = n <;> by_cases c3 : m = n <;> simp [c1, c2, c3]

/-- **C06 (the exact condition).**  The Thevenin network `U`, `Z` loaded with the branch `x` across its terminals is
well-posed (its source-free version has only the zero solution; then `C01_unique` applies) IF AND ONLY IF
`seriesDet Z x ≠ 0`: `Z + Z_x ≠ 0` when `x` is given by an impedance record (impedance, short circuit, ideal or lossy
voltage source: for an ideal source / short this reads `Z ≠ 0`), `1 + Z·Y_x ≠ 0` when it is given by an admittance
record (always true for an ideal current source / open circuit).  Distinct nodes `a, b, m` and distinct ids. -/
theorem C06_thevNet_wellPosed_iff (a b m : L) (sid zid : String) (U Z : K) (x : Branch L K)
    (hx1 : x.n1 = a) (hx2 : x.n2 = b) (hab : a ≠ b) (hma : m ≠ a) (hmb : m ≠ b)
    (hsz : sid ≠ zid) (hxs : x.id ≠ sid) (hxz : x.id ≠ zid) :
    WellPosed ((thevNet a b m sid zid U Z).attach x) ↔ x.e.seriesDet Z ≠ 0 := by
  refine ⟨fun hw hdet => ?_, thevNet_attach_wellPosed a b m sid zid U Z x hx1 hx2 hab hma hmb⟩
  -- a non-zero solution of the source-free loaded network: unit current round the loop
  have hz : ((thevNet a b m sid zid U Z).attach x).zeroSources
      = (thevNet a b m sid zid 0 Z).attach { x with e := x.e.zeroSources } := rfl
  have hlaw : x.e.zeroSources.lawResidual (-Z) 1 = 0 := by
    cases hxe : x.e with
    | norton Zx Vx =>
      rw [hxe] at hdet; simp only [Elem.seriesDet] at hdet
      rw [law_zs_norton]; linear_combination -hdet
    | thevenin Yx Ix =>
      rw [hxe] at hdet; simp only [Elem.seriesDet] at hdet
      rw [law_zs_thevenin]; linear_combination hdet
  have hsol := thevNet_attach_solves a b m sid zid 0 Z ({ x with e := x.e.zeroSources } : Branch L K)
    hx1 hx2 hab hma hmb hsz hxs hxz (-Z) (-Z) 1 rfl hlaw (by rw [zs_not_lossy]; ring)
  rw [← hz] at hsol
  have hmem : x ∈ ((thevNet a b m sid zid U Z).attach x).branches := by simp [Net.attach]
  have := ((hw _ hsol).2 x hmem).2
  simp [thevReport, Report.zeroRep] at this

/-! ## the replacement theorems (Thevenin form) -/

/-- from a solution of `N + x` whose port obeys `V = U − Z·J`, a solution of `thevNet(U, Z) + x` with the same load
voltage, load current and port voltage -/
theorem thev_replace_core (N : Net L K) (a b m : L) (sid zid : String) (U Z : K) (x : Branch L K)
    (hx1 : x.n1 = a) (hx2 : x.n2 = b) (hab : a ≠ b) (hma : m ≠ a) (hmb : m ≠ b)
    (hsz : sid ≠ zid) (hxs : x.id ≠ sid) (hxz : x.id ≠ zid)
    (Rl : Report L K) (hl : CircuitEqs (N.attach x) Rl)
    (hterm : Rl.pot a - Rl.pot b = U - Z * x.e.physCurrent (Rl.i x.id)) :
    CircuitEqs ((thevNet a b m sid zid U Z).attach x)
      (thevReport a m sid zid x.id U (Rl.pot a - Rl.pot b) (x.e.physCurrent (Rl.i x.id)) (Rl.v x.id) (Rl.i x.id)) := by
  have hmem : x ∈ (N.attach x).branches := by simp [Net.attach]
  have hv := hl.volt x hmem
  unfold voltResidual at hv
  rw [hx1, hx2] at hv
  exact thevNet_attach_solves a b m sid zid U Z x hx1 hx2 hab hma hmb hsz hxs hxz _ _ _
    (by linear_combination hv) (hl.law x hmem) hterm

theorem thevNet_attach_ids (a b m : L) (sid zid : String) (U Z : K) (x : Branch L K)
    (hsz : sid ≠ zid) (hxs : x.id ≠ sid) (hxz : x.id ≠ zid) :
    ((thevNet a b m sid zid U Z).attach x).ids.Nodup := by
  have hsx : sid ≠ x.id := fun e => hxs e.symm
  have hzx : zid ≠ x.id := fun e => hxz e.symm
  simp [Net.ids, Net.attach, thevNet, hsz, hsx, hzx]

/-- agreement of any solution of the loaded Thevenin network with the transported one -/
theorem thev_replace_agree (N : Net L K) (a b m : L) (sid zid : String) (U Z : K) (x : Branch L K)
    (hx1 : x.n1 = a) (hx2 : x.n2 = b) (hab : a ≠ b) (hma : m ≠ a) (hmb : m ≠ b)
    (hsz : sid ≠ zid) (hxs : x.id ≠ sid) (hxz : x.id ≠ zid) (hdet : x.e.seriesDet Z ≠ 0)
    (Rl : Report L K) (hl : CircuitEqs (N.attach x) Rl)
    (hterm : Rl.pot a - Rl.pot b = U - Z * x.e.physCurrent (Rl.i x.id))
    (Re : Report L K) (he : CircuitEqs ((thevNet a b m sid zid U Z).attach x) Re) :
    Rl.v x.id = Re.v x.id ∧ Rl.i x.id = Re.i x.id ∧ Rl.pot a - Rl.pot b = Re.pot a - Re.pot b := by
  have hsol := thev_replace_core N a b m sid zid U Z x hx1 hx2 hab hma hmb hsz hxs hxz Rl hl hterm
  have hw := thevNet_attach_wellPosed a b m sid zid U Z x hx1 hx2 hab hma hmb hdet
  obtain ⟨hpot, hbr⟩ := C01_unique _ (thevNet_attach_ids a b m sid zid U Z x hsz hxs hxz) hw _ _ hsol he
  have hmem : x ∈ ((thevNet a b m sid zid U Z).attach x).branches := by simp [Net.attach]
  obtain ⟨e1, e2⟩ := hbr x hmem
  have ha : a ∈ ((thevNet a b m sid zid U Z).attach x).allLabels := by
    simp [Net.allLabels, Net.attach, thevNet]
  have hb : b ∈ ((thevNet a b m sid zid U Z).attach x).allLabels := by
    simp [Net.allLabels, Net.attach, thevNet]
  have pa := hpot a ha
  have pb := hpot b hb
  have hba : b ≠ a := fun e => hab e.symm
  have hbm : b ≠ m := fun e => hmb e.symm
  simp only [thevReport, if_true, hba, hbm, if_false] at e1 e2 pa pb
  exact ⟨e1, e2, by rw [← pa, ← pb, sub_zero]⟩

/-- **C06 (Thevenin's theorem with an explicit equivalent network, Spec level — no matrices).**  `N` any network
with distinct ids whose probe network at the port `(a, b)` is well-posed; `Roc` a solution of `N` itself (open port);
`Zth` its port impedance (`PortZ`).  Attach ANY branch `x` from `a` to `b`.  Then the load cannot tell `N` from the
three-node network "ideal source `U = Voc` in series with `Zth`": in every solution `Rl` of `N + x` and every solution
`Re` of `thevNet(Voc, Zth) + x` the load's voltage, the load's (reported) current and the port voltage coincide.
Condition: `seriesDet Zth x ≠ 0` (`Zth + Z_x ≠ 0` resp. `1 + Zth·Y_x ≠ 0`), which is exactly well-posedness of the
loaded equivalent network (`C06_thevNet_wellPosed_iff`); `m` is a fresh internal node, `sid`, `zid` fresh ids. -/
theorem C06_thevenin_network_spec (N : Net L K) (hids : N.ids.Nodup) (pid : String) (hp : pid ∉ N.ids)
    (a b m : L) (hw : WellPosed (probeNet N pid a b 1)) (Zth : K) (hz : PortZ N pid a b Zth)
    (Roc : Report L K) (hoc : CircuitEqs N Roc)
    (x : Branch L K) (hx1 : x.n1 = a) (hx2 : x.n2 = b) (hab : a ≠ b) (hma : m ≠ a) (hmb : m ≠ b)
    (sid zid : String) (hsz : sid ≠ zid) (hxs : x.id ≠ sid) (hxz : x.id ≠ zid)
    (hdet : x.e.seriesDet Zth ≠ 0)
    (Rl : Report L K) (hl : CircuitEqs (N.attach x) Rl)
    (Re : Report L K) (he : CircuitEqs ((thevNet a b m sid zid (Roc.pot a - Roc.pot b) Zth).attach x) Re) :
    Rl.v x.id = Re.v x.id ∧ Rl.i x.id = Re.i x.id ∧ Rl.pot a - Rl.pot b = Re.pot a - Re.pot b := by
  obtain ⟨⟨Rz, hRz⟩, hall⟩ := hz
  have key := C06_port_equation N hids pid hp a b hw x hx1 hx2 Roc Rl Rz hoc hl hRz
  rw [hall Rz hRz] at key
  exact thev_replace_agree N a b m sid zid _ Zth x hx1 hx2 hab hma hmb hsz hxs hxz hdet Rl hl key Re he

/-- **C06 (the Thevenin record as a network: the property's sentence at model level).**  `⟨U, Z⟩` is what the model
of `TheveninEquivalentSource(network, n1, n2)` returns.  For ANY load branch `x` attached from `n1` to `n2`: in every
solution `Rl` of `N + x` and every solution `Re` of the explicit equivalent network `thevNet(U, Z) + x` (ideal source
`U` in series with `Z`, then the same load), the load's voltage, the load's current and the port voltage are the same.

Hypotheses: those of `C06_thevenin_record_terminal` (valid network, `SolveOK`, the solver answers for the network's
own system — see `C06_oc_voltage_no_fallback` —, well-posed probe network, defined port impedance), `n1 ≠ n2`, fresh
internal node and ids, and `seriesDet Z x ≠ 0` (exactly: the loaded equivalent network is well-posed,
`C06_thevNet_wellPosed_iff`).  It does not say that the library can build that network from the record (the record
has no such method), nor anything about binary64. -/
theorem C06_thevenin_replace (N : Net L K) (solve : List (List K) → List K → Option (List K))
    (pid : String) (n1 n2 : L) (z' : K) (T : TheveninEq K) (wf : N.WF) (hsolve : SolveOK solve) (hp : pid ∉ N.ids)
    (hsome : solve N.mnaA N.mnaB ≠ none) (h1 : n1 ∈ N.allLabels) (h2 : n2 ∈ N.allLabels)
    (hw : WellPosed (probeNet N pid n1 n2 1)) (hdef : PortZ N pid n1 n2 z')
    (h : N.theveninEquivalent solve n1 n2 = .ok T)
    (x : Branch L K) (hx1 : x.n1 = n1) (hx2 : x.n2 = n2) (hn : n1 ≠ n2) (m : L) (hm1 : m ≠ n1) (hm2 : m ≠ n2)
    (sid zid : String) (hsz : sid ≠ zid) (hxs : x.id ≠ sid) (hxz : x.id ≠ zid)
    (hdet : x.e.seriesDet T.Z ≠ 0)
    (Rl : Report L K) (hl : CircuitEqs (N.attach x) Rl)
    (Re : Report L K) (he : CircuitEqs ((thevNet n1 n2 m sid zid T.U T.Z).attach x) Re) :
    Rl.v x.id = Re.v x.id ∧ Rl.i x.id = Re.i x.id ∧ Rl.pot n1 - Rl.pot n2 = Re.pot n1 - Re.pot n2 := by
  have key := C06_thevenin_record_terminal N solve pid n1 n2 z' T wf hsolve hp hsome h1 h2 hw hdef h x hx1 hx2 Rl hl
  exact thev_replace_agree N n1 n2 m sid zid T.U T.Z x hx1 hx2 hn hm1 hm2 hsz hxs hxz hdet Rl hl key Re he

/-- **C06 (… and the equivalent network is solvable whenever the loaded original is).**  Same setting, no condition
on the load: every solution of `N + x` yields a solution of `thevNet(U, Z) + x` with the same load voltage, load
current and port voltage. -/
theorem C06_thevenin_replace_exists (N : Net L K) (solve : List (List K) → List K → Option (List K))
    (pid : String) (n1 n2 : L) (z' : K) (T : TheveninEq K) (wf : N.WF) (hsolve : SolveOK solve) (hp : pid ∉ N.ids)
    (hsome : solve N.mnaA N.mnaB ≠ none) (h1 : n1 ∈ N.allLabels) (h2 : n2 ∈ N.allLabels)
    (hw : WellPosed (probeNet N pid n1 n2 1)) (hdef : PortZ N pid n1 n2 z')
    (h : N.theveninEquivalent solve n1 n2 = .ok T)
    (x : Branch L K) (hx1 : x.n1 = n1) (hx2 : x.n2 = n2) (hn : n1 ≠ n2) (m : L) (hm1 : m ≠ n1) (hm2 : m ≠ n2)
    (sid zid : String) (hsz : sid ≠ zid) (hxs : x.id ≠ sid) (hxz : x.id ≠ zid)
    (Rl : Report L K) (hl : CircuitEqs (N.attach x) Rl) :
    ∃ Re : Report L K, CircuitEqs ((thevNet n1 n2 m sid zid T.U T.Z).attach x) Re ∧
      Re.v x.id = Rl.v x.id ∧ Re.i x.id = Rl.i x.id ∧ Re.pot n1 - Re.pot n2 = Rl.pot n1 - Rl.pot n2 := by
  have key := C06_thevenin_record_terminal N solve pid n1 n2 z' T wf hsolve hp hsome h1 h2 hw hdef h x hx1 hx2 Rl hl
  refine ⟨_, thev_replace_core N n1 n2 m sid zid T.U T.Z x hx1 hx2 hn hm1 hm2 hsz hxs hxz Rl hl key, ?_⟩
  have hba : n2 ≠ n1 := fun e => hn e.symm
  have hbm : n2 ≠ m := fun e => hm2 e.symm
  simp [thevReport, hba, hbm]

/-! ## the Norton form -/

theorem nortNet_attach_wellPosed (a b : L) (iid yid : String) (I Y : K) (x : Branch L K)
    (hx1 : x.n1 = a) (hx2 : x.n2 = b) (hab : a ≠ b)
    (hdet : x.e.parallelDet Y ≠ 0) : WellPosed ((nortNet a b iid yid I Y).attach x) := by
  obtain ⟨xa, xb, xid, xty, xe⟩ := x
  simp only at hx1 hx2 hdet
  subst hx1 hx2
  intro R hR
  have hR' : CircuitEqs ⟨[⟨xb, xa, iid, "current_source", (Elem.thevenin 0 I).zeroSources⟩,
      ⟨xa, xb, yid, "admittance", (Elem.thevenin Y 0).zeroSources⟩, ⟨xa, xb, xid, xty, xe.zeroSources⟩], xb⟩ R := hR
  rw [eqs3_iff] at hR'
  obtain ⟨h0, ⟨v1, v2, v3⟩, ⟨l1, l2, l3⟩, hk⟩ := hR'
  have ka := hk xa
  have hba : xb ≠ xa := fun e => hab e.symm
  simp only [zs_not_lossy, incidence, if_true, hba, if_false] at ka
  simp only [voltResidual] at v1 v2 v3
  rw [law_zs_thevenin] at l1 l2
  simp only at l1 l2 l3
  have hxx : R.i xid = 0 ∧ R.v xid = 0 := by
    cases xe with
    | norton Zx Vx =>
      rw [law_zs_norton] at l3
      simp only [Elem.parallelDet] at hdet
      have : (1 + Y * Zx) * R.i xid = 0 := by
        linear_combination ka + l1 - l2 + Y * (v3 - v2) - Y * l3
      rcases mul_eq_zero.mp this with h | h
      · exact absurd h hdet
      · exact ⟨h, by rw [l3, h, mul_zero]⟩
    | thevenin Yx Ix =>
      rw [law_zs_thevenin] at l3
      simp only [Elem.parallelDet] at hdet
      have : (Y + Yx) * R.v xid = 0 := by
        linear_combination ka + l1 - l2 - l3 + Y * (v3 - v2)
      rcases mul_eq_zero.mp this with h | h
      · exact absurd h hdet
      · exact ⟨by rw [l3, h, mul_zero], h⟩
  obtain ⟨hix, hvx⟩ := hxx
  have hvy : R.v yid = 0 := by linear_combination v2 - v3 + hvx
  have hiy : R.i yid = 0 := by rw [l2, hvy, mul_zero]
  have hic : R.i iid = 0 := by rw [l1, zero_mul]
  have hpa : R.pot xa = 0 := by linear_combination hvx - v3 + h0
  have hvc : R.v iid = 0 := by linear_combination v1 + h0 - hpa
  refine ⟨?_, ?_⟩
  · intro n hn
    simp only [Net.allLabels, nortNet, Net.attach, List.map_cons, List.map_nil, List.cons_append,
      List.nil_append, List.mem_cons, List.not_mem_nil, or_false] at hn
    rcases hn with rfl | rfl | rfl | rfl | rfl | rfl | rfl <;> simp [Report.zeroRep, *]
  · intro br hbr
    simp only [nortNet, Net.attach, List.cons_append, List.nil_append, List.mem_cons, List.not_mem_nil,
      or_false] at hbr
    rcases hbr with rfl | rfl | rfl <;> simp [Report.zeroRep, *]

/-- the report of `nortNet a b iid yid I Y + x` with port voltage `V` and load entries `vx`, `ix` -/
def nortReport (a : L) (iid yid xid : String) (I Y V vx ix : K) : Report L K where
  pot := fun n => if n = a then V else 0
  v := fun id => if id = xid then vx else if id = iid then -V else if id = yid then V else 0
  i := fun id => if id = xid then ix else if id = iid then I else if id = yid then Y * V else 0

theorem nortNet_attach_solves (a b : L) (iid yid : String) (I Y : K) (x : Branch L K)
    (hx1 : x.n1 = a) (hx2 : x.n2 = b) (hab : a ≠ b)
    (hiy : iid ≠ yid) (hxi : x.id ≠ iid) (hxy : x.id ≠ yid) (V vx ix : K) (hv : vx = V)
    (hlaw : x.e.lawResidual vx ix = 0) (hterm : x.e.physCurrent ix = I - Y * V) :
    CircuitEqs ((nortNet a b iid yid I Y).attach x) (nortReport a iid yid x.id I Y V vx ix) := by
  obtain ⟨xa, xb, xid, xty, xe⟩ := x
  simp only at hx1 hx2 hxi hxy hlaw hterm
  subst hx1 hx2
  show CircuitEqs ⟨[⟨xb, xa, iid, "current_source", Elem.thevenin 0 I⟩, ⟨xa, xb, yid, "admittance", Elem.thevenin Y 0⟩,
    ⟨xa, xb, xid, xty, xe⟩], xb⟩ _
  have hba : xb ≠ xa := fun e => hab e.symm
  have hix : iid ≠ xid := fun e => hxi e.symm
  have hyx : yid ≠ xid := fun e => hxy e.symm
  have hyi : yid ≠ iid := fun e => hiy e.symm
  rw [eqs3_iff]
  refine ⟨by simp [nortReport, hba], ⟨?_, ?_, ?_⟩, ⟨?_, ?_, ?_⟩, fun n => ?_⟩
  · simp [voltResidual, nortReport, hix, hba]
  · simp [voltResidual, nortReport, hyx, hyi, hba]
  · simp [voltResidual, nortReport, hba, hv]
  · simp [Elem.lawResidual, nortReport, hix]
  · rw [law_thevenin_zero]
    simp [nortReport, hyx, hyi]
  · simpa [nortReport] using hlaw
  · simp only [phys_thevenin_ideal, phys_thevenin_zero, nortReport, hix, hyx, hyi, if_false, if_true, incidence, hterm]
    by_cases c1 : xa = n <;> by_cases c2 : xb = n <;> simp [c1, c2]; ring

/-- **C06 (the exact condition, Norton form).**  `nortNet(I, Y) + x` is well-posed IF AND ONLY IF `parallelDet Y x ≠ 0`:
`Y + Y_x ≠ 0` for a load given by an admittance record (for an ideal current source / open circuit: `Y ≠ 0`),
`1 + Y·Z_x ≠ 0` for a load given by an impedance record (always true for an ideal voltage source / short circuit). -/
theorem C06_nortNet_wellPosed_iff (a b : L) (iid yid : String) (I Y : K) (x : Branch L K)
    (hx1 : x.n1 = a) (hx2 : x.n2 = b) (hab : a ≠ b)
    (hiy : iid ≠ yid) (hxi : x.id ≠ iid) (hxy : x.id ≠ yid) :
    WellPosed ((nortNet a b iid yid I Y).attach x) ↔ x.e.parallelDet Y ≠ 0 := by
  refine ⟨fun hw hdet => ?_, nortNet_attach_wellPosed a b iid yid I Y x hx1 hx2 hab⟩
  have hz : ((nortNet a b iid yid I Y).attach x).zeroSources
      = (nortNet a b iid yid 0 Y).attach { x with e := x.e.zeroSources } := rfl
  have hmem : x ∈ ((nortNet a b iid yid I Y).attach x).branches := by simp [Net.attach]
  cases hxe : x.e with
  | norton Zx Vx =>
    rw [hxe] at hdet; simp only [Elem.parallelDet] at hdet
    have hlaw : x.e.zeroSources.lawResidual Zx 1 = 0 := by rw [hxe, law_zs_norton]; ring
    have hsol := nortNet_attach_solves a b iid yid 0 Y ({ x with e := x.e.zeroSources } : Branch L K)
      hx1 hx2 hab hiy hxi hxy Zx Zx 1 rfl hlaw (by rw [zs_not_lossy]; linear_combination hdet)
    rw [← hz] at hsol
    have := ((hw _ hsol).2 x hmem).2
    simp [nortReport, Report.zeroRep] at this
  | thevenin Yx Ix =>
    rw [hxe] at hdet; simp only [Elem.parallelDet] at hdet
    have hlaw : x.e.zeroSources.lawResidual 1 Yx = 0 := by rw [hxe, law_zs_thevenin]; ring
    have hsol := nortNet_attach_solves a b iid yid 0 Y ({ x with e := x.e.zeroSources } : Branch L K)
      hx1 hx2 hab hiy hxi hxy 1 1 Yx rfl hlaw (by rw [zs_not_lossy]; linear_combination hdet)
    rw [← hz] at hsol
    have := ((hw _ hsol).2 x hmem).1
    simp [nortReport, Report.zeroRep] at this

theorem nort_replace_core (N : Net L K) (a b : L) (iid yid : String) (I Y : K) (x : Branch L K)
    (hx1 : x.n1 = a) (hx2 : x.n2 = b) (hab : a ≠ b)
    (hiy : iid ≠ yid) (hxi : x.id ≠ iid) (hxy : x.id ≠ yid)
    (Rl : Report L K) (hl : CircuitEqs (N.attach x) Rl)
    (hterm : x.e.physCurrent (Rl.i x.id) = I - Y * (Rl.pot a - Rl.pot b)) :
    CircuitEqs ((nortNet a b iid yid I Y).attach x)
      (nortReport a iid yid x.id I Y (Rl.pot a - Rl.pot b) (Rl.v x.id) (Rl.i x.id)) := by
  have hmem : x ∈ (N.attach x).branches := by simp [Net.attach]
  have hv := hl.volt x hmem
  unfold voltResidual at hv
  rw [hx1, hx2] at hv
  exact nortNet_attach_solves a b iid yid I Y x hx1 hx2 hab hiy hxi hxy _ _ _
    (by linear_combination hv) (hl.law x hmem) hterm

theorem nortNet_attach_ids (a b : L) (iid yid : String) (I Y : K) (x : Branch L K)
    (hiy : iid ≠ yid) (hxi : x.id ≠ iid) (hxy : x.id ≠ yid) :
    ((nortNet a b iid yid I Y).attach x).ids.Nodup := by
  have hix : iid ≠ x.id := fun e => hxi e.symm
  have hyx : yid ≠ x.id := fun e => hxy e.symm
  simp [Net.ids, Net.attach, nortNet, hiy, hix, hyx]

theorem nort_replace_agree (N : Net L K) (a b : L) (iid yid : String) (I Y : K) (x : Branch L K)
    (hx1 : x.n1 = a) (hx2 : x.n2 = b) (hab : a ≠ b)
    (hiy : iid ≠ yid) (hxi : x.id ≠ iid) (hxy : x.id ≠ yid) (hdet : x.e.parallelDet Y ≠ 0)
    (Rl : Report L K) (hl : CircuitEqs (N.attach x) Rl)
    (hterm : x.e.physCurrent (Rl.i x.id) = I - Y * (Rl.pot a - Rl.pot b))
    (Re : Report L K) (he : CircuitEqs ((nortNet a b iid yid I Y).attach x) Re) :
    Rl.v x.id = Re.v x.id ∧ Rl.i x.id = Re.i x.id ∧ Rl.pot a - Rl.pot b = Re.pot a - Re.pot b := by
  have hsol := nort_replace_core N a b iid yid I Y x hx1 hx2 hab hiy hxi hxy Rl hl hterm
  have hw := nortNet_attach_wellPosed a b iid yid I Y x hx1 hx2 hab hdet
  obtain ⟨hpot, hbr⟩ := C01_unique _ (nortNet_attach_ids a b iid yid I Y x hiy hxi hxy) hw _ _ hsol he
  have hmem : x ∈ ((nortNet a b iid yid I Y).attach x).branches := by simp [Net.attach]
  obtain ⟨e1, e2⟩ := hbr x hmem
  have ha : a ∈ ((nortNet a b iid yid I Y).attach x).allLabels := by
    simp [Net.allLabels, Net.attach, nortNet]
  have hb : b ∈ ((nortNet a b iid yid I Y).attach x).allLabels := by
    simp [Net.allLabels, Net.attach, nortNet]
  have pa := hpot a ha
  have pb := hpot b hb
  have hba : b ≠ a := fun e => hab e.symm
  simp only [nortReport, if_true, hba, if_false] at e1 e2 pa pb
  exact ⟨e1, e2, by rw [← pa, ← pb, sub_zero]⟩

/-- **C06 (the Norton record as a network: the property's sentence at model level).**  `⟨I, Y⟩` is what the model of
`NortenEquivalentSource(network, n1, n2)` returns on its main path (the Thevenin record `T` exists and
`open_circuit_impedance` is not zero).  For ANY load branch `x` attached from `n1` to `n2`: in every solution `Rl` of
`N + x` and every solution `Re` of the explicit two-node network `nortNet(I, Y) + x` (ideal current source `I`
parallel to the admittance `Y`, then the same load), the load's voltage, the load's current and the port voltage are
the same.  Condition: `parallelDet Y x ≠ 0`, exactly well-posedness of the loaded equivalent
(`C06_nortNet_wellPosed_iff`).  Other hypotheses as in `C06_norton_record_terminal`. -/
theorem C06_norton_replace (N : Net L K) (solve : List (List K) → List K → Option (List K))
    (pid : String) (n1 n2 : L) (z' : K) (T : TheveninEq K) (Q : NortonEq K) (wf : N.WF) (hsolve : SolveOK solve)
    (hp : pid ∉ N.ids) (hsome : solve N.mnaA N.mnaB ≠ none) (h1 : n1 ∈ N.allLabels) (h2 : n2 ∈ N.allLabels)
    (hw : WellPosed (probeNet N pid n1 n2 1)) (hdef : PortZ N pid n1 n2 z')
    (hT : N.theveninEquivalent solve n1 n2 = .ok T) (hQ : N.nortonEquivalent solve n1 n2 = .ok Q)
    (x : Branch L K) (hx1 : x.n1 = n1) (hx2 : x.n2 = n2) (hn : n1 ≠ n2)
    (iid yid : String) (hiy : iid ≠ yid) (hxi : x.id ≠ iid) (hxy : x.id ≠ yid)
    (hdet : x.e.parallelDet Q.Y ≠ 0)
    (Rl : Report L K) (hl : CircuitEqs (N.attach x) Rl)
    (Re : Report L K) (he : CircuitEqs ((nortNet n1 n2 iid yid Q.I Q.Y).attach x) Re) :
    Rl.v x.id = Re.v x.id ∧ Rl.i x.id = Re.i x.id ∧ Rl.pot n1 - Rl.pot n2 = Re.pot n1 - Re.pot n2 := by
  have key := (C06_norton_record_terminal N solve pid n1 n2 z' T Q wf hsolve hp hsome h1 h2 hw hdef hT hQ
    x hx1 hx2 Rl hl).2
  exact nort_replace_agree N n1 n2 iid yid Q.I Q.Y x hx1 hx2 hn hiy hxi hxy hdet Rl hl key Re he

/-- **C06 (… and the Norton network is solvable whenever the loaded original is).** -/
theorem C06_norton_replace_exists (N : Net L K) (solve : List (List K) → List K → Option (List K))
    (pid : String) (n1 n2 : L) (z' : K) (T : TheveninEq K) (Q : NortonEq K) (wf : N.WF) (hsolve : SolveOK solve)
    (hp : pid ∉ N.ids) (hsome : solve N.mnaA N.mnaB ≠ none) (h1 : n1 ∈ N.allLabels) (h2 : n2 ∈ N.allLabels)
    (hw : WellPosed (probeNet N pid n1 n2 1)) (hdef : PortZ N pid n1 n2 z')
    (hT : N.theveninEquivalent solve n1 n2 = .ok T) (hQ : N.nortonEquivalent solve n1 n2 = .ok Q)
    (x : Branch L K) (hx1 : x.n1 = n1) (hx2 : x.n2 = n2) (hn : n1 ≠ n2)
    (iid yid : String) (hiy : iid ≠ yid) (hxi : x.id ≠ iid) (hxy : x.id ≠ yid)
    (Rl : Report L K) (hl : CircuitEqs (N.attach x) Rl) :
    ∃ Re : Report L K, CircuitEqs ((nortNet n1 n2 iid yid Q.I Q.Y).attach x) Re ∧
      Re.v x.id = Rl.v x.id ∧ Re.i x.id = Rl.i x.id ∧ Re.pot n1 - Re.pot n2 = Rl.pot n1 - Rl.pot n2 := by
  have key := (C06_norton_record_terminal N solve pid n1 n2 z' T Q wf hsolve hp hsome h1 h2 hw hdef hT hQ
    x hx1 hx2 Rl hl).2
  refine ⟨_, nort_replace_core N n1 n2 iid yid Q.I Q.Y x hx1 hx2 hn hiy hxi hxy Rl hl key, ?_⟩
  have hba : n2 ≠ n1 := fun e => hn e.symm
  simp [nortReport, hba]

/-- on the main path the two determinant conditions are the same condition: `Y = 1/Z`, `Z ≠ 0` -/
theorem parallelDet_of_seriesDet (Z : K) (hZ : Z ≠ 0) (e : Elem K) :
    e.parallelDet (1 / Z) ≠ 0 ↔ e.seriesDet Z ≠ 0 := by
  cases e with
  | norton Zx Vx =>
    simp only [Elem.parallelDet, Elem.seriesDet]
    have : 1 + 1 / Z * Zx = (Z + Zx) / Z := by field_simp
    rw [this]; simp [hZ]
  | thevenin Yx Ix =>
    simp only [Elem.parallelDet, Elem.seriesDet]
    have : 1 / Z + Yx = (1 + Z * Yx) / Z := by field_simp
    rw [this]; simp [hZ]

/-! ### non-vacuity -/

namespace C06ex

/-- the load of the example: `X = 5 Ω` from node `2` to node `0` -/
def exX : Branch Nat ℚ := ⟨2, 0, "X", "", .norton 5 0⟩

/-- the solution of `exN + X` (`Vs(1,0) = 10 V`, `R1(1,2) = R2(2,0) = 10 Ω`, `X(2,0) = 5 Ω`): `φ(2) = 5/2` -/
def RexL : Report Nat ℚ :=
  { pot := fun n => if n = 1 then 10 else if n = 2 then 5/2 else 0
    v := fun id => if id = "Vs" then 10 else if id = "R1" then 15/2 else if id = "R2" then 5/2 else 5/2
    i := fun id => if id = "Vs" then -3/4 else if id = "R1" then 3/4 else if id = "R2" then 1/4 else 1/2 }

theorem RexL_solves : CircuitEqs (exN.attach exX) RexL := by
  refine ⟨by decide, ?_, ?_, ?_⟩
  · intro b hb
    simp only [Net.attach, exN, exX, List.cons_append, List.nil_append, List.mem_cons, List.mem_nil_iff,
      or_false] at hb
    rcases hb with rfl | rfl | rfl | rfl <;> simp [voltResidual, RexL] <;> norm_num
  · intro b hb
    simp only [Net.attach, exN, exX, List.cons_append, List.nil_append, List.mem_cons, List.mem_nil_iff,
      or_false] at hb
    rcases hb with rfl | rfl | rfl | rfl <;> simp [Elem.lawResidual, RexL] <;> norm_num
  · intro n hn
    simp only [Net.attach, exN, exX, Net.allLabels, List.map_cons, List.map_nil, List.cons_append,
      List.nil_append, List.mem_cons, List.mem_nil_iff, or_false] at hn
    rcases hn with rfl | rfl | rfl | rfl | rfl | rfl | rfl | rfl | rfl <;>
      simp [kclResidual, Net.attach, exN, exX, incidence, Elem.physCurrent, Elem.isLossy, Elem.kind, RexL] <;>
      norm_num

end C06ex

/-- non-vacuity of `C06_thevenin_replace`, `C06_thevenin_replace_exists`, `C06_thevNet_wellPosed_iff`:
`exN` (`Vs(1,0) = 10 V`, `R1(1,2) = R2(2,0) = 10 Ω`), port `(2, 0)`, record `⟨U, Z⟩ = ⟨5 V, 5 Ω⟩`, load `X = 5 Ω`,
internal node `9`: every hypothesis holds (those on the network by the example of CC/Properties/C06Equiv.lean),
`seriesDet = 5 + 5 ≠ 0`, the loaded network has the solution `RexL`, the loaded equivalent network has a solution,
and in it the load sees `5/2 V`, `1/2 A` — `V = U·Z_L/(Z + Z_L)`. -/
example : C06ex.exN.theveninEquivalent C06ex.solve1 2 0 = .ok ⟨5, 5⟩ ∧
    C06ex.exX.n1 = 2 ∧ C06ex.exX.n2 = 0 ∧ (2 : Nat) ≠ 0 ∧ (9 : Nat) ≠ 2 ∧ (9 : Nat) ≠ 0 ∧
    "S" ≠ "Zs" ∧ C06ex.exX.id ≠ "S" ∧ C06ex.exX.id ≠ "Zs" ∧ C06ex.exX.e.seriesDet (5 : ℚ) ≠ 0 ∧
    CircuitEqs (C06ex.exN.attach C06ex.exX) C06ex.RexL ∧
    WellPosed ((thevNet 2 0 9 "S" "Zs" (5 : ℚ) 5).attach C06ex.exX) ∧
    (∃ Re : Report Nat ℚ, CircuitEqs ((thevNet 2 0 9 "S" "Zs" (5 : ℚ) 5).attach C06ex.exX) Re ∧
      Re.v "X" = 5/2 ∧ Re.i "X" = 1/2 ∧ Re.pot 2 - Re.pot 0 = 5/2) := by
  have hdet : C06ex.exX.e.seriesDet (5 : ℚ) ≠ 0 := by simp [C06ex.exX, Elem.seriesDet]
  refine ⟨C06ex.exN_thevenin, rfl, rfl, by decide, by decide, by decide, by decide, by decide, by decide, hdet,
    C06ex.RexL_solves,
    (C06_thevNet_wellPosed_iff 2 0 9 "S" "Zs" 5 5 C06ex.exX rfl rfl (by decide) (by decide) (by decide) (by decide)
      (by decide) (by decide)).mpr hdet, ?_⟩
  obtain ⟨Re, hRe, e1, e2, e3⟩ := C06_thevenin_replace_exists C06ex.exN C06ex.solve1 "p" 2 0 5 ⟨5, 5⟩ C06ex.exN_wf
    C06ex.solve1_ok (by decide) (by rw [C06ex.exN_mna', C06ex.exN_mnaB]; simp [C06ex.solve1])
    (by simp [Net.allLabels, C06ex.exN]) (by simp [Net.allLabels, C06ex.exN])
    C06ex.exN_wellposed C06ex.exN_spec_value C06ex.exN_thevenin C06ex.exX rfl rfl (by decide) 9 (by decide) (by decide)
    "S" "Zs" (by decide) (by decide) (by decide) C06ex.RexL C06ex.RexL_solves
  refine ⟨Re, hRe, ?_, ?_, ?_⟩
  · rw [show "X" = C06ex.exX.id from rfl, e1]; simp [C06ex.RexL, C06ex.exX]
  · rw [show "X" = C06ex.exX.id from rfl, e2]; simp [C06ex.RexL, C06ex.exX]
  · rw [e3]; simp [C06ex.RexL]

/-- non-vacuity of `C06_norton_replace`, `C06_norton_replace_exists`, `C06_nortNet_wellPosed_iff`: same network and load,
record `⟨I, Y⟩ = ⟨1 A, 1/5 S⟩`, `parallelDet = 1 + (1/5)·5 ≠ 0`. -/
example : C06ex.exN.nortonEquivalent C06ex.solve1 2 0 = .ok ⟨1, 1/5⟩ ∧
    "I" ≠ "Y" ∧ C06ex.exX.id ≠ "I" ∧ C06ex.exX.id ≠ "Y" ∧ C06ex.exX.e.parallelDet (1/5 : ℚ) ≠ 0 ∧
    WellPosed ((nortNet 2 0 "I" "Y" (1 : ℚ) (1/5)).attach C06ex.exX) ∧
    (∃ Re : Report Nat ℚ, CircuitEqs ((nortNet 2 0 "I" "Y" (1 : ℚ) (1/5)).attach C06ex.exX) Re ∧
      Re.v "X" = 5/2 ∧ Re.i "X" = 1/2 ∧ Re.pot 2 - Re.pot 0 = 5/2) := by
  have hdet : C06ex.exX.e.parallelDet (1/5 : ℚ) ≠ 0 := by simp [C06ex.exX, Elem.parallelDet]
  refine ⟨C06ex.exN_norton, by decide, by decide, by decide, hdet,
    (C06_nortNet_wellPosed_iff 2 0 "I" "Y" 1 (1/5) C06ex.exX rfl rfl (by decide) (by decide) (by decide)
      (by decide)).mpr hdet, ?_⟩
  obtain ⟨Re, hRe, e1, e2, e3⟩ := C06_norton_replace_exists C06ex.exN C06ex.solve1 "p" 2 0 5 ⟨5, 5⟩ ⟨1, 1/5⟩ C06ex.exN_wf
    C06ex.solve1_ok (by decide) (by rw [C06ex.exN_mna', C06ex.exN_mnaB]; simp [C06ex.solve1])
    (by simp [Net.allLabels, C06ex.exN]) (by simp [Net.allLabels, C06ex.exN])
    C06ex.exN_wellposed C06ex.exN_spec_value C06ex.exN_thevenin C06ex.exN_norton C06ex.exX rfl rfl (by decide)
    "I" "Y" (by decide) (by decide) (by decide) C06ex.RexL C06ex.RexL_solves
  refine ⟨Re, hRe, ?_, ?_, ?_⟩
  · rw [show "X" = C06ex.exX.id from rfl, e1]; simp [C06ex.RexL, C06ex.exX]
  · rw [show "X" = C06ex.exX.id from rfl, e2]; simp [C06ex.RexL, C06ex.exX]
  · rw [e3]; simp [C06ex.RexL]

end CC
