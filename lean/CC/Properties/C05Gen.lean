/-
  Property C05, translator tie — the accessor formulas of the solution classes, regenerated from
  the source on every run (harness/extract_solution.py → CC/Gen/Solution.lean), are the formulas
  property C05 reasons about.

  All statements hold over every field `K` with a ring endomorphism `conj` (complex conjugation
  on ℂ and on the Gaussian rationals, the identity for DC) and every `r2` standing for
  `np.sqrt(2)`; `re`, `im`, `abs`, `angle`, `cos`, `sin` are arbitrary functions (parameters).
  A changed sign, factor, conjugate, `.real`/`.imag`, `/`↔`*` or product↔sum in
  `Circuit/solution.py` or `Network/NodalAnalysis/solution.py` changes the generated definitions
  and the theorem about that formula no longer compiles.
-/
import CC.Gen.Solution
import CC.Properties.C05
import Mathlib.Data.ZMod.Basic
namespace CC
open Gen.Sol
variable {K : Type} [Field K] [DecidableEq K]

/-- **network power.**  `NodalAnalysisSolution.get_voltage` is the difference of the terminal
potentials, first minus second, and `get_power` is `v · conj i`. -/
theorem C05_gen_network_power (conj : K →+* K) (phi1 phi2 i : K) :
    net_get_voltage conj phi1 phi2 i = phi1 - phi2 ∧
    net_get_power conj phi1 phi2 i = (phi1 - phi2) * conj i := ⟨rfl, rfl⟩

/-- **DC quantities** are the real parts of the `w = 0` solution -/
theorem C05_gen_dc_real (re im : K → K) (v i phi : K) :
    dc_get_voltage re im v i phi = re v ∧ dc_get_current re im v i phi = re i ∧
    dc_get_potential re im v i phi = re phi := ⟨rfl, rfl, rfl⟩

/-- **DC power** is the product of the real parts: `P = V·I` -/
theorem C05_gen_dc_power (re im : K → K) (v i phi : K) :
    dc_get_power re im v i phi = re v * re i := rfl

/-- **peak mode** reports the network solution's values unchanged -/
theorem C05_gen_peak (conj : K →+* K) (r2 v i phi : K) :
    cx_get_voltage conj r2 true v i phi = v ∧ cx_get_current conj r2 true v i phi = i ∧
    cx_get_potential conj r2 true v i phi = phi := ⟨rfl, rfl, rfl⟩

/-- **RMS quantities** are the peak quantities divided by `r2 = np.sqrt(2)` -/
theorem C05_gen_rms (conj : K →+* K) (r2 v i phi : K) :
    cx_get_voltage conj r2 false v i phi = cx_get_voltage conj r2 true v i phi / r2 ∧
    cx_get_current conj r2 false v i phi = cx_get_current conj r2 true v i phi / r2 ∧
    cx_get_potential conj r2 false v i phi = cx_get_potential conj r2 true v i phi / r2 := ⟨rfl, rfl, rfl⟩

/-- **complex power, peak mode**: `½·v·conj i` -/
theorem C05_gen_peak_power (conj : K →+* K) (r2 v i phi : K) :
    cx_get_power conj r2 true v i phi = 1 / 2 * (v * conj i) := by
  simp only [cx_get_power, cx_get_voltage, cx_get_current, if_true, Nat.cast_one, Nat.cast_ofNat]
  ring

/-- **complex power, RMS mode**: `(v/r2)·conj(i/r2)` -/
theorem C05_gen_rms_power (conj : K →+* K) (r2 v i phi : K) :
    cx_get_power conj r2 false v i phi = (v / r2) * conj (i / r2) := by
  simp [cx_get_power, cx_get_voltage, cx_get_current]

/-- **both modes report the same power** (with `r2·r2 = 2`, `r2` real) — through `C05_modes` -/
theorem C05_gen_modes_agree (conj : K →+* K) (r2 : K) (h2 : r2 * r2 = 2) (hc : conj r2 = r2) (v i phi : K) :
    cx_get_power conj r2 false v i phi = cx_get_power conj r2 true v i phi := by
  rw [C05_gen_rms_power, C05_gen_peak_power, C05_modes conj r2 h2 hc]

/-- **time functions**: each quantity is `Σ_k |X_k|·cos(w_k·t + arg X_k)` over the listed
frequencies, for the phasors of that very quantity -/
theorem C05_gen_time_function (abs angle cos sin : K → K) (vs is_ phis ws : List K) (t : K) :
    td_get_voltage abs angle cos sin vs is_ phis ws t
      = ((List.zip vs ws).map fun x => abs x.1 * cos (x.2 * t + angle x.1)).sum ∧
    td_get_current abs angle cos sin vs is_ phis ws t
      = ((List.zip is_ ws).map fun x => abs x.1 * cos (x.2 * t + angle x.1)).sum ∧
    td_get_potential abs angle cos sin vs is_ phis ws t
      = ((List.zip phis ws).map fun x => abs x.1 * cos (x.2 * t + angle x.1)).sum := ⟨rfl, rfl, rfl⟩

/-- **instantaneous power** is the pointwise product `v(t)·i(t)` of the two time functions -/
theorem C05_gen_time_power (abs angle cos sin : K → K) (vs is_ phis ws : List K) (t : K) :
    td_get_power abs angle cos sin vs is_ phis ws t
      = td_get_voltage abs angle cos sin vs is_ phis ws t * td_get_current abs angle cos sin vs is_ phis ws t := rfl

/-- **transient power** is the sample-by-sample product of the voltage and current series -/
theorem C05_gen_transient_power (vser iser : List K) :
    tr_get_power vser iser = List.zipWith (· * ·) vser iser ∧
    ∀ (k : Nat) (h1 : k < vser.length) (h2 : k < iser.length),
      (tr_get_power vser iser)[k]? = some (vser[k] * iser[k]) := by
  refine ⟨rfl, ?_⟩
  intro k h1 h2
  simp [tr_get_power, List.getElem?_zipWith, List.getElem?_eq_getElem h1, List.getElem?_eq_getElem h2]

/-- **frequency-domain series**: one-sided = the per-frequency peak values as they are; the
two-sided series has one entry per frequency of its axis -/
theorem C05_gen_series (conj : K →+* K) (w values : List K) :
    fd_series conj true w values = (w, values) ∧
    (values.length = w.length →
      (fd_series conj false w values).2.length = (fd_series conj false w values).1.length) := by
  refine ⟨rfl, ?_⟩
  intro h
  simp only [fd_series, Bool.false_eq_true, if_false, List.length_append, List.length_map, List.length_reverse,
    List.length_drop, List.length_take, h]
  omega

/-! ### non-vacuity: the hypotheses of `C05_gen_modes_agree` are met over ℂ-like fields whenever
`r2` is a fixed point of `conj` with `r2² = 2`; over ℚ with `conj = id` no such `r2` exists, so the
example uses the identity on a field where 2 is a square: `K = ZMod 7`, `3·3 = 9 = 2`. -/
example : ∃ (r2 : ZMod 7), r2 * r2 = 2 ∧ (RingHom.id (ZMod 7)) r2 = r2 := ⟨3, by decide, rfl⟩

end CC
