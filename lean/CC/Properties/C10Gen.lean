/-
  C10–C12 (translator tie) — every definition of the hand-written state-space model
  (CC/Model/StateSpace.lean), which the C10 / C11 / C12 theorems are about, equals the definition that
  harness/extract_state.py regenerates from the Python AST on every run (CC/Gen/StateSpace.lean):
    Network/NodalAnalysis/state_space_model.py, Circuit/state_space_model.py,
    SignalProcessing/state_space_model.py.
  `np.linalg.inv` is an arbitrary function `inv` that preserves shapes; the hand-written model is fed
  with the rows of what `inv` returns (its two "certificates").  `.real` is `re`.

  Hypotheses: `N.ids.Nodup` (otherwise `Network(...)` raises), `LawfulLabelOrd L` (total pre-order on
  labels; instances `String`, `Nat`), `hinv` (inv keeps `nrows`, `ncols`), and for the accessors `SSRel g m`
  — the generated object and the hand-written one describe the same model — which `C10_gen_model` /
  `C10_gen_rel` establish for every object `nodal_state_space_model` builds.
-/
import CC.Proofs.StateGen

namespace CC
open CC.Gen.Core CC.Gen.State CC.Py
variable {L K : Type} [DecidableEq L] [LabelOrd L] [Field K] [DecidableEq K]

/-- `element_incidence_matrix`: the `Delta` fill loop (+1 at node1, −1 at node2, second write wins,
`KeyError` for a key that is no branch) and the `hstack` with the zero block -/
theorem C10_gen_Delta [LawfulLabelOrd L] (inv : Py.Mat K → Py.Mat K) (re : K → K) (N : Net L K)
    (hids : N.ids.Nodup) (cvals : ValDict K) :
    element_incidence_matrix inv re N cvals
      = (do let rows ← ssDelta N cvals
            pure ⟨cvals.length, N.nN + N.nV, rows⟩ : Except Err (Py.Mat K)) :=
  gen_Delta inv re N hids cvals

/-- the block matrix `Q = [[Qi, 0], [0, 1]]` -/
theorem C10_gen_Q (N : Net L K) :
    (Py.Mat.vstack
      (Py.Mat.hstack (⟨N.nN, N.nC, N.nodes.map fun n => N.csSorted.map fun b => N.Qentry b n⟩ : Py.Mat K)
        (Py.Mat.zeros N.nN N.nV))
      (Py.Mat.hstack (Py.Mat.zeros N.nV N.nC) (Py.Mat.identity N.nV)))
      = ⟨N.nN + N.nV, N.nC + N.nV, ssQ N⟩ := gen_Q_rows N

/-- `source_and_inductance_incidence_matrix`: `QS` / `QL` are `Q[:, ssColsS]` / `Q[:, ssColsL]`
(block positions; `QL` in dictionary order; `KeyError` for an `l_values` key that is no ideal
voltage source) -/
theorem C10_gen_cols [LawfulLabelOrd L] (inv : Py.Mat K → Py.Mat K) (re : K → K) (N : Net L K)
    (hids : N.ids.Nodup) (lvals : ValDict K) :
    source_and_inductance_incidence_matrix inv re N lvals
      = if (ssColsL N lvals).length = lvals.length
        then .ok (⟨N.nY, (ssColsS N lvals).length, ssQS N lvals⟩, ⟨N.nY, (ssColsL N lvals).length, ssQL N lvals⟩)
        else .error .keyError := gen_QSQL inv re N hids lvals

/-- `value_matrix` / `invLambda`: the diagonal is `−C…` then `L…` in dictionary order -/
theorem C10_gen_Lambda (inv : Py.Mat K → Py.Mat K) (re : K → K) (N : Net L K) (cvals lvals : ValDict K) :
    Py.Mat.diagOf (value_matrix inv re N cvals lvals) = ssLambda cvals lvals
    ∧ (Py.Mat.diagOf (value_matrix inv re N cvals lvals)).map (fun x => 1 / x) = ssInvLambda cvals lvals := by
  refine ⟨gen_Lambda inv re N cvals lvals, ?_⟩
  rw [gen_Lambda]; rfl

/-- `DQ = hstack(Delta.T, QL)` and `A_tilde = coefficient_matrix.real` -/
theorem C10_gen_DQ (re : K → K) (N : Net L K) (cvals lvals : ValDict K) (Delta : List (List K))
    (hD : Delta.length = cvals.length) :
    Py.Mat.hstack (⟨cvals.length, N.nN + N.nV, Delta⟩ : Py.Mat K).T ⟨N.nY, (ssColsL N lvals).length, ssQL N lvals⟩
      = ⟨N.nY, cvals.length + (ssColsL N lvals).length, ssDQ N cvals lvals Delta⟩
    ∧ Py.Mat.map re ⟨N.nodes.length + N.vsIds.length, N.nodes.length + N.vsIds.length, N.mnaA⟩
      = ⟨N.nY, N.nY, ssAtilde re N⟩ := by
  refine ⟨?_, rfl⟩
  rw [T_rows (⟨cvals.length, N.nN + N.nV, Delta⟩ : Py.Mat K) hD]
  unfold Py.Mat.hstack ssDQ
  congr 1
  exact hstack_rows (isShape_ofFn _ _ _) (isShape_ofFn _ _ _)

/-- **`state_space_matrices` = `stateSpaceMatrices`** fed with the rows of the two inverses -/
theorem C10_gen_matrices [LawfulLabelOrd L] (inv : Py.Mat K → Py.Mat K) (re : K → K) (N : Net L K)
    (hids : N.ids.Nodup) (cvals lvals : ValDict K)
    (hinv : ∀ M : Py.Mat K, (inv M).nrows = M.nrows ∧ (inv M).ncols = M.ncols) :
    state_space_matrices inv re N cvals lvals
      = (do let Delta ← ssDelta N cvals
            let Ainv := (inv ⟨N.nY, N.nY, ssAtilde re N⟩).rows
            let ns := ssNStates N cvals lvals
            let S := (inv ⟨ns, ns, ssM N cvals lvals Delta Ainv⟩).rows
            let m ← stateSpaceMatrices N cvals lvals Ainv S
            pure ((⟨ns, ns, m.A⟩ : Py.Mat K), (⟨ns, ssNInputs N lvals, m.B⟩ : Py.Mat K),
                  (⟨N.nY, ns, m.C⟩ : Py.Mat K), (⟨N.nY, ssNInputs N lvals, m.D⟩ : Py.Mat K))) :=
  gen_state_space_matrices inv re N hids cvals lvals hinv

/-- `nodal_state_space_model` = `nodalStateSpaceModel` (same errors, same object) -/
theorem C10_gen_model [LawfulLabelOrd L] (inv : Py.Mat K → Py.Mat K) (re : K → K) (N : Net L K)
    (hids : N.ids.Nodup) (cvals lvals : ValDict K)
    (hinv : ∀ M : Py.Mat K, (inv M).nrows = M.nrows ∧ (inv M).ncols = M.ncols) :
    nodal_state_space_model inv re N cvals lvals
      = (do let Delta ← ssDelta N cvals
            let Ainv := (inv ⟨N.nY, N.nY, ssAtilde re N⟩).rows
            let S := (inv ⟨ssNStates N cvals lvals, ssNStates N cvals lvals, ssM N cvals lvals Delta Ainv⟩).rows
            let m ← nodalStateSpaceModel N cvals lvals Ainv S
            pure (ssToGen N cvals lvals m.mats)) :=
  gen_nodal_state_space_model inv re N hids cvals lvals hinv

/-- the objects of `C10_gen_model` are related -/
theorem C10_gen_rel [LawfulLabelOrd L] (N : Net L K) (hids : N.ids.Nodup) (cvals lvals : ValDict K)
    (Ainv S : List (List K)) (mats : SSMats K) (hm : stateSpaceMatrices N cvals lvals Ainv S = .ok mats) :
    SSRel (ssToGen N cvals lvals mats) ⟨mats, N, cvals, lvals⟩ := ssRel_toGen N hids cvals lvals Ainv S mats hm

/-- `_row_for_potential` / `c_row_for_potential` / `d_row_for_potential`: the row slice `[k:k+1]`,
the zero row of the reference node, `KeyError` for an unknown id -/
theorem C10_gen_row_potential {g : NodalStateSpaceModel L K} {m : NSSM L K} (h : SSRel g m) (node : L) :
    NodalStateSpaceModel.c_row_for_potential g node
        = (do let r ← m.cRowPotential node; pure (Py.Arr.mat [r]) : Except Err (Py.Arr K))
    ∧ NodalStateSpaceModel.d_row_for_potential g node
        = (do let r ← m.dRowPotential node; pure (Py.Arr.mat [r]) : Except Err (Py.Arr K)) :=
  ⟨gen_c_row_potential h node, gen_d_row_potential h node⟩

theorem C10_gen_row_voltage {g : NodalStateSpaceModel L K} {m : NSSM L K} (h : SSRel g m) (id : String) :
    NodalStateSpaceModel.c_row_voltage g id
        = (do let r ← m.cRowVoltage id; pure (Py.Arr.mat [r]) : Except Err (Py.Arr K))
    ∧ NodalStateSpaceModel.d_row_voltage g id
        = (do let r ← m.dRowVoltage id; pure (Py.Arr.mat [r]) : Except Err (Py.Arr K)) :=
  ⟨gen_c_row_voltage h id, gen_d_row_voltage h id⟩

/-- `c_row_current` / `d_row_current`: the four-way case split, dictionary position of a capacitor,
`n_nodes +` offset of a voltage source, unit row of a current source, `/ Z` otherwise -/
theorem C10_gen_row_current {g : NodalStateSpaceModel L K} {m : NSSM L K} (h : SSRel g m) (hids : m.net.ids.Nodup)
    (id : String) :
    (do let a ← NodalStateSpaceModel.c_row_current g id; pure a.toRows : Except Err (List (List K)))
        = (do let r ← m.cRowCurrent id; pure [r])
    ∧ (do let a ← NodalStateSpaceModel.d_row_current g id; pure a.toRows : Except Err (List (List K)))
        = (do let r ← m.dRowCurrent id; pure [r]) :=
  ⟨gen_c_row_current h hids id, gen_d_row_current h id⟩

/-- `sources`: current sources, then the voltage sources that are no `l_values` key — not sorted -/
theorem C10_gen_sources {g : NodalStateSpaceModel L K} {m : NSSM L K} (h : SSRel g m) :
    NodalStateSpaceModel.sources g = m.sources := gen_sources h

/-- the stacking wrapper of `Circuit/state_space_model.py` -/
theorem C10_gen_wrapper {g : NodalStateSpaceModel L K} {m : NSSM L K} (h : SSRel g m) (hids : m.net.ids.Nodup)
    (pots : List L) (volts curs : List String) :
    circuit_state_space_model g pots volts curs
      = (do let r ← m.circuitModel pots volts curs; pure (g.A, g.B, r.C, r.D)) :=
  gen_circuit_model h hids pots volts curs

/-- the value dictionaries the wrapper builds -/
theorem C10_gen_circuit_values (comps : List (String × String × (String → K))) :
    circuit_c_values comps = reactiveValues (comps.map fun c => (c.1, c.2.1, c.2.2 "C")) "capacitor"
    ∧ circuit_l_values comps = reactiveValues (comps.map fun c => (c.1, c.2.1, c.2.2 "L")) "inductance" :=
  gen_circuit_values comps

/-- the five shape checks of the container, in order -/
theorem C10_gen_container (a b c d : Nat × Nat) : container_post_init a b c d = containerCheck a b c d :=
  gen_container a b c d

/-- **the index maps are forwarded** (fix 4559c7d): inside the state-space builder every callee that takes an index
map of the class of one of the builder's own mapper parameters receives that parameter — `source_incidence_matrix` the
node and current-source maps, `nodal_analysis_coefficient_matrix` the node and voltage-source maps,
`state_space_matrices` (from `nodal_state_space_model`) all three.  The definitions above are stated for the default
maps; the translator refuses a call that leaves such a keyword out, and this table is what it found. -/
theorem C10_gen_mappers_forwarded :
    mapper_forwarding =
      [("source_incidence_matrix", "node_mapper", "node_mapper"),
       ("source_incidence_matrix", "source_mapper", "current_source_mapper"),
       ("nodal_analysis_coefficient_matrix", "node_mapper", "node_mapper"),
       ("nodal_analysis_coefficient_matrix", "source_mapper", "voltage_source_mapper"),
       ("state_space_matrices", "current_source_mapper", "current_source_index_mapper"),
       ("state_space_matrices", "node_mapper", "node_index_mapper"),
       ("state_space_matrices", "voltage_source_mapper", "voltage_source_index_mapper")] := rfl

/-! ### the hypotheses are satisfiable -/

example : ∀ M : Py.Mat ℚ, ((fun M => M) M).nrows = M.nrows ∧ ((fun M => M) M).ncols = M.ncols := fun _ => ⟨rfl, rfl⟩

end CC
